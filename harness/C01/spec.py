META = {
    "assumptions": ["allocation failure out of scope (--no-malloc-may-fail)",
                    "fix_problem is stubbed to answer yes in the idempotence kernels (the -y protocol itself is decided in fixproblem)"],
    "outside": ["whole-run convergence of e2fsck -fy followed by -fn (the property proper): only self-contained kernels are decided; for the pass 3 / 4 / 5 kernels the "
                "second run is decided on the state the first run provably leaves, ASSUMING passes 1-2 of the second run rebuild the same tables from the disk",
                "pass 3: directories on a cycle of parents (never reported on this tree: C02 finding), real e2fsck_reconnect_file / fix_dotdot (cut), reconnect failures",
                "expand_directory: indirect-mapped directories and index blocks (metadata callbacks), directories without block 0 (pass 2 repairs those; expand_dir_proc would "
                "zero-fill logical block 0 instead of building a directory block), allocator failure, huge_file",
                "process_bad_inode: deallocate_inode (cut in badinode_fix), the real device / symlink sub-checks (symbolic verdict, assumed equal in both runs), > 128-byte inodes; "
                "rehash_quota: the entry stages and write_directory are cut (the new size is a symbolic block count), indirect / extent-tree blocks freed by the punch (not part of i_size) are not modelled",
                "pass 4: EA-inode reference consolidation, > 128-byte inodes, failing reconnects; pass 5: bigalloc, BLOCK_UNINIT reconstruction by the loader (assumed to "
                "mark no block that pass 1 does not mark)"],
}
CT_GROW_UW = ["main.%d:2000" % i for i in range(5)] + ["alloc_size_dir.0:2000", "alloc_size_dir.1:60", "ref_hash_of_leaf.0:60",
              "calculate_tree.0:60", "calculate_tree.1:60", "calculate_tree.2:60"]
HARNESSES = [
    dict(name="fixproblem", src="fixproblem.c",
         funcs=["fix_problem", "find_latch"],
         cut_statics={"e2fsck/problem.c": ["find_problem"]},
         configs=[{"MODE": 1}, {"MODE": 2}, {"MODE": 0, "_tier": "thorough"}, {"MODE": 3, "_tier": "thorough"}]
                 + [{"MODE": m, "NONINTERF": None, "_tier": "thorough"} for m in (0, 1, 2, 3)],
         cbmc_flags=["--object-bits", "11"],
         unwind=2, unwindset=["find_problem.0:9", "find_problem.2:9", "find_problem.1:426", "vf_load_table.0:426", "find_latch.0:16", "ask.0:5", "vf_run.0:16", "vf_run.1:16", "vf_check.0:16", "vf_check.1:16"]
                 + ["main.%d:426" % i for i in range(4)],
         backends=["default", "kissat"],
         bound="every entry of the real problem_table (symbolic), every latch register state, all option/flag words, "
               "up to 4 symbolic user replies; recursion depth <= 3"),
    dict(name="dirblock", src="dirblock.c", extra_src=["lib/ext2fs/dir_iterate.c"],
         funcs=["salvage_directory", "check_dot", "check_dotdot", "ext2fs_get_rec_len", "ext2fs_set_rec_len"],
         configs=[{"BLK": 24, "_tier": "thorough"}],
         unwind=4, unwindset=["vf_pass.0:16", "main.0:40", "main.1:40", "main.2:40", "main.3:40", "strnlen.0:40", "strncmp.0:4", "memmove.0:40"],
         backends=["default", "kissat"],
         bound="one directory block of 24 bytes, every byte symbolic; directory inode number and s_inodes_count symbolic"),
    dict(name="dot", src="dot.c", extra_src=["lib/ext2fs/dir_iterate.c"],
         funcs=["check_dot", "ext2fs_get_rec_len", "ext2fs_set_rec_len"],
         configs=[{"KERNEL": 0, "OFF": 0, "BLK": 48}],
         unwind=4, unwindset=["main.%d:50" % i for i in range(5)] + ["strncmp.0:4"],
         backends=["default", "kissat"],
         bound="block of 48 bytes, every byte symbolic (entry valid per the caller's test); inode number and feature word symbolic"),
    dict(name="dotdot", src="dot.c", extra_src=["lib/ext2fs/dir_iterate.c"],
         funcs=["check_dotdot", "ext2fs_get_rec_len"],
         configs=[{"KERNEL": 1, "OFF": 12, "BLK": 48}, {"KERNEL": 1, "OFF": 16, "BLK": 48}],
         unwind=4, unwindset=["main.%d:50" % i for i in range(5)],
         backends=["default", "kissat"],
         bound="block of 48 bytes, every byte symbolic (entry at offset 12 / 16 valid per the caller's test)"),
    dict(name="salvage", src="salvage.c", extra_src=["lib/ext2fs/dir_iterate.c"],
         funcs=["salvage_directory", "ext2fs_get_rec_len", "ext2fs_set_rec_len"],
         configs=[{"BLK": 32}, {"BLK": 32, "TAIL": None}],
         unwind=4, unwindset=["main.%d:54" % i for i in range(6)] + ["ref_reclen.0:12", "ref_namelen.0:12", "ref_nonzero.0:34",
                                                                      "strnlen.0:34", "memmove.0:34", "memset.0:10"],
         backends=["default", "kissat"],
         bound="block of 32 bytes, every byte symbolic; offset and prev symbolic under the loop invariant; with and without checksum tail"),
    dict(name="check_name", src="names.c",
         funcs=["check_name"],
         configs=[{"KERNEL": 0}],
         unwind=4, unwindset=["main.%d:26" % i for i in range(6)] + ["check_name.0:14"],
         backends=["default", "kissat"],
         bound="names of 0..12 bytes, all bytes symbolic"),
    dict(name="check_filetype", src="names.c", extra_src=["e2fsck/util.c"],
         funcs=["check_filetype", "ext2_file_type", "e2fsck_read_inode"],
         configs=[{"KERNEL": 1}],
         unwind=4, unwindset=["main.%d:26" % i for i in range(6)],
         backends=["default", "kissat"],
         bound="all 2^16 inode modes, all type bytes, all feature words, every combination of pass-1 map membership"),
    dict(name="find_problem", src="find_problem.c",
         funcs=["find_problem"],
         configs=[{"PART": 1}, {"PART": 0, "LO": 0, "HI": 300}, {"PART": 0, "LO": 300}],
         cbmc_flags=["--object-bits", "11"],
         unwind=4, unwindset=["find_problem.0:430", "main.0:430", "main.1:430", "main.2:430"],
         backends=["default", "kissat"],
         bound="the whole real problem_table (every entry, concrete index loop); one symbolic absent code (all 2^32 values)"),
    dict(name="extra", src="extra.c",
         funcs=["check_inode_extra_space", "check_inode_extra_negative_epoch"],
         cut_statics={"e2fsck/pass1.c": ["check_ea_in_inode"]},
         unwind=4, unwindset=["main.%d:258" % i for i in range(8)],
         backends=["default", "kissat"],
         bound="one 256-byte inode, every byte symbolic; ctx->now and s_want_extra_isize symbolic"),
    dict(name="bmapend", src="bmapend.c",
         funcs=["check_block_end"],
         configs=[{"KIND": 1, "ANSWER": 1}, {"KIND": 1, "ANSWER": 0}],
         unwind=4, unwindset=["main.%d:22" % i for i in range(8)] + ["vf_test.0:22", "vf_mark.0:22", "check_block_end.0:10", "check_block_end.1:10"],
         backends=["default", "kissat"],
         bound="2 groups of 8 clusters, first data block 0/1, logical end anywhere in the last group, all bits and fs->flags symbolic"),
    dict(name="bmapend_ino", src="bmapend.c",
         funcs=["check_inode_end"],
         configs=[{"KIND": 0, "ANSWER": 1}, {"KIND": 0, "ANSWER": 0}],
         unwind=4, unwindset=["main.%d:22" % i for i in range(8)] + ["vf_test.0:22", "vf_mark.0:22", "check_inode_end.0:10", "check_inode_end.1:10"],
         backends=["default", "kissat"],
         bound="2 groups of 8 inodes, logical end anywhere in the last group, all bits and fs->flags symbolic"),
    dict(name="extwrite", src="extwrite.c",
         funcs=["rewrite_extent_replay"],
         configs=[{"NL": 1, "MAXLEN": 70000}, {"NL": 2, "MAXLEN": 33000}, {"NL": 1, "MAXLEN": 131072, "_tier": "thorough"}, {"NL": 2, "MAXLEN": 70000, "_tier": "thorough"}],
         unwind=4, unwindset=["main.%d:14" % i for i in range(4)] + ["ext2fs_extent_insert.0:14", "rewrite_extent_replay.0:13"],
         backends=["default", "kissat", "z3"],
         bound="list of 1 extent up to 70000 blocks (3 pieces; thorough 2^17) / 2 extents up to 33000 blocks (thorough 70000), lblk < 2^32, pblk < 2^47, either state, "
               "other flag bits symbolic, empty entries allowed; probe block symbolic"),
    dict(name="calctree", src="calctree.c", extra_src=["lib/ext2fs/dir_iterate.c"],
         funcs=["calculate_tree", "alloc_blocks", "set_root_node", "set_int_node", "get_next_block"],
         cut_statics={"e2fsck/rehash.c": ["alloc_size_dir"]},
         cbmc_flags=["--max-field-sensitivity-array-size", "8192"],
         configs=[{"NLEAF": n} for n in (1, 4, 5, 28, 29)] + [{"NLEAF": 50, "_tier": "thorough"}]
                 + [{"NLEAF": n, "GROW": None, "_unwindset": CT_GROW_UW} for n in (5, 29)],
         unwind=9, unwindset=["main.0:60", "main.1:60", "main.2:9", "ref_hash_of_leaf.0:60", "calculate_tree.0:60", "calculate_tree.1:60", "calculate_tree.2:60"],
         backends=["default", "kissat"],
         bound="GROW configs: the output area is exactly root + leaves and is MOVED (old area poisoned) when the first interior node is appended; "
               "block size 64 (root 4 entries, interior node 7), 1/4/5/28/29 (thorough: 50, two second-level nodes) leaf blocks: one-, two- and three-level trees; leaf hashes, "
               "inode numbers, hash version symbolic"),
]
P5_UW = ["main.%d:200" % i for i in range(48)] + ["fix_problem.%d:18" % i for i in range(4)] + ["vf_bit.0:18", "vf_get_range.0:9",
         "ext2fs_test_inode_bitmap_range.0:9", "vf_reset_record.0:18", "vf_reset_record.1:4", "ext2fs_bitcount.0:5", "ext2fs_bitcount.1:3", "ext2fs_bitcount.2:5",
         "io_channel_discard.0:26"]
HARNESSES.append(
    dict(name="p5blocks", src="../C02/p5blocks.c", extra_src=["lib/ext2fs/blknum.c", "lib/ext2fs/bitops.c"],
         funcs=["check_block_bitmaps", "print_bitmap_problem", "ext2fs_bg_free_blocks_count", "ext2fs_bg_free_blocks_count_set", "ext2fs_bg_flags_clear",
                "ext2fs_free_blocks_count_set", "ext2fs_blocks_count", "ext2fs_bitcount"],
         configs=[{"ANSWER": 1, "NG": 2, "DSZ": 32, "FDB": 1, "LAST": 2, "DISCARD": None},
                  {"ANSWER": 1, "NG": 2, "DSZ": 32, "FDB": 1, "LAST": 2, "SECOND": None, "DISCARD": None},
                  {"ANSWER": 1, "NG": 2, "DSZ": 32, "FDB": 0, "LAST": 2, "SECOND": None, "_tier": "thorough"},
                  {"ANSWER": 1, "NG": 2, "DSZ": 32, "FDB": 1, "LAST": 5, "DISCARD": None, "_tier": "thorough"},
                  {"ANSWER": 1, "NG": 2, "DSZ": 32, "FDB": 0, "LAST": 2, "_tier": "thorough"},
                  {"ANSWER": 1, "NG": 2, "DSZ": 64, "FDB": 0, "LAST": 8, "DISCARD": None, "_tier": "thorough"},
                  {"ANSWER": 1, "NG": 2, "DSZ": 32, "FDB": 1, "LAST": 5, "SECOND": None, "DISCARD": None, "_tier": "thorough"}],
         cbmc_flags=["--max-field-sensitivity-array-size", "256"],
         unwind=4, unwindset=P5_UW + ["check_block_bitmaps.0:18", "check_block_bitmaps.1:2", "check_block_bitmaps.2:4"],
         backends=["default", "kissat"], cap_quick=300,
         bound="2 groups of 8 blocks (the last 5 / 2 long), first data block 1 / 0, every bit of both bitmaps, every descriptor byte, "
               "superblock count, ro_compat and fs->flags symbolic; e2fsck -y, then flush + reload + second run"))
HARNESSES.append(
    dict(name="p5inodes", src="../C02/p5inodes.c", extra_src=["lib/ext2fs/blknum.c"],
         funcs=["check_inode_bitmaps", "print_bitmap_problem", "ext2fs_bg_free_inodes_count", "ext2fs_bg_free_inodes_count_set", "ext2fs_bg_used_dirs_count_set",
                "ext2fs_bg_flags_clear"],
         configs=[{"ANSWER": 1, "NG": 2, "IPG": 4, "DSZ": 32, "CSUM": 1}, {"ANSWER": 1, "NG": 2, "IPG": 4, "DSZ": 32, "CSUM": 1, "SECOND": None},
                  {"ANSWER": 1, "NG": 2, "IPG": 8, "DSZ": 32, "CSUM": 1, "_tier": "thorough"}, {"ANSWER": 1, "NG": 2, "IPG": 8, "DSZ": 32, "CSUM": 1, "SECOND": None, "_tier": "thorough"},
                  {"ANSWER": 1, "NG": 2, "IPG": 8, "DSZ": 32, "CSUM": 0, "_tier": "thorough"}, {"ANSWER": 1, "NG": 3, "IPG": 4, "DSZ": 64, "CSUM": 1, "_tier": "thorough"}],
         cbmc_flags=["--object-bits", "10", "--max-field-sensitivity-array-size", "256"],
         unwind=4, unwindset=P5_UW + ["check_inode_bitmaps.0:18", "check_inode_bitmaps.1:2", "check_inode_bitmaps.2:4"],
         backends=["default", "kissat"], cap_quick=300,
         bound="2 groups of 4 inodes (thorough: 8), every bit of inode_used_map / inode_dir_map / fs->inode_map, every descriptor byte, "
               "s_free_inodes_count and fs->flags symbolic; with and without group-descriptor checksums; e2fsck -y, flush + reload, second run"))
P4_UW = ["main.%d:16" % i for i in range(12)] + ["fix_problem.0:15", "vf_bit.0:15", "ext2fs_unmark_generic_bmap.0:15", "vf_reset.0:15", "e2fsck_pass4.0:15"]
HARNESSES.append(
    dict(name="p4links", src="../C02/p4links.c",
         funcs=["e2fsck_pass4", "disconnect_inode"],
         configs=[{"ANSWER": 1}],
         unwind=4, unwindset=P4_UW,
         backends=["default", "kissat"],
         bound="13 inodes (2 and 11..13 checked), membership in the four pass-1 maps, both 32-bit counters, i_mode / i_links_count / i_blocks / i_flags "
               "of every inode, dir_nlink and fs->flags symbolic; 128-byte inodes, no EA-inode table; e2fsck -y, then a second run on the recomputed counters"))
P3_UW = ["main.%d:9" % i for i in range(24)] + ["fix_problem.0:7", "vf_bit.0:9", "ext2fs_mark_generic_bmap.0:9", "ext2fs_clear_inode_bitmap.0:9",
         "e2fsck_dir_info_get_parent.0:7", "e2fsck_dir_info_get_dotdot.0:7", "e2fsck_reconnect_file.0:7", "fix_dotdot.0:7",
         "ref_chain.0:7", "ref_chain.1:7", "ref_chain.2:8", "vf_run_pass3.0:9", "vf_run_pass3.1:7", "check_directory.0:8"]
HARNESSES.append(
    dict(name="p3dirs", src="../C02/p3dirs.c",
         funcs=["check_directory"],
         cut_statics={"e2fsck/pass3.c": ["e2fsck_reconnect_file", "fix_dotdot"]},
         configs=[{"ANSWER": 1, "ND": 5}, {"ANSWER": 1, "ND": 5, "SECOND": None}, {"ANSWER": 1, "ND": 6, "_tier": "thorough"}, {"ANSWER": 1, "ND": 6, "SECOND": None, "_tier": "thorough"}],
         unwind=4, unwindset=P3_UW,
         backends=["default", "kissat"],
         bound="table of 6 directories (root, lost+found, 4 more): parent (none or any table directory), '..' (any 32-bit value) and inode_dir_map "
               "membership symbolic for each; every parent function on 6 nodes, loops included; e2fsck -y, then a second run over the repaired table"))
import importlib.util as _ilu, os as _os
def _flush_primary():
    """ext2fs_flush2 under MASTER_SB_ONLY (how e2fsck writes its repairs): every PRIMARY descriptor block reaches the place a normal
    open reads it, with meta_bg too (source harness/C20/flush_backups.c)"""
    p = _os.path.join(_os.path.dirname(_os.path.abspath(__file__)), "..", "C20", "spec.py")
    sp = _ilu.spec_from_file_location("spec_C20_for_C01", p)
    m = _ilu.module_from_spec(sp)
    sp.loader.exec_module(m)
    for h in m.HARNESSES:
        if h["name"] == "flush_backups":
            d = dict(h)
            d["name"] = "flush_primary"
            d["src"] = "../C20/flush_backups.c"
            d["configs"] = [c for c in h["configs"] if c.get("MAXG") == 10 and c.get("DESC_SHIFT") == 3 and "LATE" not in c]
            return [d]
    raise RuntimeError("C20 flush_backups harness missing")
HARNESSES += _flush_primary()

HARNESSES.append(
    dict(name="expanddir", src="expanddir.c", extra_src=["lib/ext2fs/i_block.c", "lib/ext2fs/blknum.c"],
         funcs=["e2fsck_expand_directory", "expand_dir_proc", "ext2fs_iblk_add_blocks", "ext2fs_inode_size_set"],
         configs=[{"RATIO": 4, "NUM": 1}, {"RATIO": 4, "NUM": 2}, {"RATIO": 1, "NUM": 2}],
         unwind=4, unwindset=["main.%d:34" % i for i in range(24)] + ["ext2fs_block_iterate3.0:7", "ext2fs_new_block2.0:3", "ext2fs_new_block2.1:9",
                              "ext2fs_block_alloc_stats2.0:9", "ext2fs_write_dir_block4.0:33", "ext2fs_zero_blocks2.0:33", "ext2fs_mark_generic_bmap.0:9",
                              "ref_clusters.0:7", "ref_clusters.1:9"],
         backends=["default", "kissat"],
         bound="8 clusters of 4 blocks (bigalloc) / 1 block, 1 KiB blocks; extent-mapped directory of 1..4 blocks at symbolic physical blocks, "
               "1 or 2 blocks requested, block_found_map arbitrary elsewhere, allocator's choice symbolic"))
HARNESSES.append(
    dict(name="badinode_fix", src="badinode_fix.c", extra_src=["lib/ext2fs/blknum.c"],
         funcs=["e2fsck_process_bad_inode", "ext2fs_file_acl_block", "ext2fs_file_acl_block_set", "ext2fs_blocks_count"],
         cut_statics={"e2fsck/pass2.c": ["deallocate_inode"]},
         unwind=4, unwindset=["main.%d:130" % i for i in range(6)] + ["fix_problem.0:16", "e2fsck_read_inode.0:130", "e2fsck_write_inode.0:130"],
         backends=["default", "kissat"], cap_quick=300,
         bound="one 128-byte inode, every byte symbolic; feature words, creator OS, first data block, 64-bit block count, block size 1-64 KiB and the "
               "verdicts of pass 1's device/symlink sub-checks symbolic; e2fsck -y, then a second run of the real function on the written image"))
HARNESSES.append(
    dict(name="rehash_quota", src="rehash_quota.c",
         funcs=["e2fsck_rehash_dir", "free_out_dir"],
         cut_statics={"e2fsck/rehash.c": ["duplicate_search_and_fix", "copy_dir_entries", "calculate_tree", "write_directory"]},
         configs=[{"ISIZE": 256}],
         unwind=5, unwindset=["e2fsck_rehash_dir.0:4", "e2fsck_rehash_dir.1:5"],
         backends=["default", "kissat"], cap_quick=300,
         bound="directory of 4 blocks (block size 64) rebuilt into 0..8 blocks; inode number (all 2^32-1), revision, s_first_ino, the three quota inode "
               "numbers, orphan-file inode number, i_flags, features, options, dir_size symbolic"))
MANIFEST = {
    "text": "Kernel-level slice (partial). Bounded-exhaustive: (1) the fix_problem() protocol over every entry of the real problem_table, every "
            "latch state and flag word: 'no' un-marks valid unless PR_NO_OK, 'yes' sets PROBLEMS_FIXED unless PR_NOT_A_FIX, -n never fixes and "
            "never asks, -y answers yes to everything not PR_FORCE_NO, display flags/counters never change the outcome; (2) repair idempotence of "
            "check_dot, check_dotdot, check_name, check_filetype on fully symbolic entries; (3) an inductive step of the salvage loop proving it "
            "terminates with a chain of valid entries; (4) check_inode_extra_space on a fully symbolic 256-byte inode: idempotent, writes iff it changed, "
            "touches only i_extra_isize and epoch bits -- but the epoch repair can hit bytes beyond i_extra_isize (genuine finding, label [fits]). "
            "(5) pass-5 padding repair (check_block_end / check_inode_end): padding set, the RIGHT bitmap dirtied, clean after flush+reload, nothing touched under 'no'; "
            "(6) rewrite_extent_replay writes exactly the (lblk -> pblk, state) relation of the list in pieces within the on-disk limits; "
            "(7) calculate_tree at block size 64 builds a well-formed 1/2/3-level htree index (headers, order, hashes) for 1..29 leaves. "
            "(8) pass 5 count / bitmap repair (check_block_bitmaps, check_inode_bitmaps, answer yes): afterwards fs->block_map / inode_map equal what passes 1-4 found, every group "
            "and superblock count equals the counted value, the *_UNINIT flags are cleared where needed, the bitmap is marked dirty iff replaced, the super dirty when a count changed, "
            "no other descriptor byte changes; what the next run loads (bitmap written iff dirty) equals the found usage, and on exactly that state the kernel raises nothing and "
            "changes nothing (SECOND queries); (9) pass 4 (e2fsck_pass4 + disconnect_inode, yes): every checked inode ends cleared, or referenced with i_links_count == references; "
            "a second run on the recomputed counters raises nothing and writes nothing; (10) pass 3 (check_directory over the table, yes): every parentless directory is reconnected "
            "(parent = '..' = lost+found), every wrong '..' rewritten, afterwards no chain dangles, and a second run is silent. "
            "(11) e2fsck_expand_directory + expand_dir_proc (lost+found full / pass 3A), cluster ratio 1 and 4: exactly the requested blocks are appended as fresh empty directory "
            "blocks at bigalloc-aligned positions, i_size = mapped blocks * block size, i_blocks = clusters occupied by the final mapping (what pass 1 of the next run recomputes; a "
            "block inside an already owned cluster adds nothing), quota charged the same bytes, each new cluster allocated, accounted and marked exactly once (expanddir). "
            "(12) e2fsck_process_bad_inode under -y on a fully symbolic 128-byte inode (badinode_fix): every field named by a raised problem is zero in the image handed to "
            "e2fsck_write_inode, every other byte unchanged, the write happens exactly once iff a field problem was raised, never after a deallocation; the written image violates "
            "no format predicate and a second run of the real function on it raises nothing and writes nothing; (13) e2fsck_rehash_dir (rehash_quota): when the rebuilt directory "
            "is smaller, quota_data_sub is called once with exactly old size - new size for every directory pass 1 charged (root and every inode >= first_ino except the project-quota "
            "file, the orphan file and EA inodes), and never otherwise (nothing freed, -n, other reserved inodes). "
            "Whole-run convergence of e2fsck -fy / -fn is outside.",
    "note": "Trusted: CBMC's C semantics; fix_problem stubbed to 'yes' in the kernels; the caller's dirent validity test restated from the format; "
            "find_problem cut to a slot-copying stub in fixproblem; the real find_problem is decided over the whole real table in harness find_problem "
            "(right entry for every code, NULL otherwise, codes unique). check_ea_in_inode cut in harness extra (not separately decided). "
            "deallocate_inode cut in badinode_fix; write_directory and the entry stages cut in rehash_quota (decided in C05 rebuild / dupfix, C01 calctree).",
}
