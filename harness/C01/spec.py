META = {
    "assumptions": ["allocation failure out of scope (--no-malloc-may-fail)",
                    "fix_problem is stubbed to answer yes in the idempotence kernels (the -y protocol itself is decided in fixproblem)"],
    "outside": ["whole-run convergence of e2fsck -fy followed by -fn (the property proper): only self-contained kernels are decided"],
}
HARNESSES = [
    dict(name="fixproblem", src="fixproblem.c",
         funcs=["fix_problem", "find_latch"],
         cut_statics={"e2fsck/problem.c": ["find_problem"]},
         configs=[{"MODE": 1}, {"MODE": 2}, {"MODE": 0, "_tier": "thorough"}, {"MODE": 3, "_tier": "thorough"}]
                 + [{"MODE": m, "NONINTERF": None, "_tier": "thorough"} for m in (0, 1, 2, 3)],
         cbmc_flags=["--object-bits", "11"],
         unwind=2, unwindset=["find_problem.0:9", "find_problem.2:9", "find_problem.1:426", "vf_load_table.0:426", "find_latch.0:16", "ask.0:5", "vf_run.0:16", "vf_run.1:16", "vf_check.0:16", "vf_check.1:16"]
                 + ["main.%d:426" % i for i in range(4)],
         backends=["default", "kissat"],
         bound="every entry of the real problem_table (symbolic), every latch register state, all option/flag words, "
               "up to 4 symbolic user replies; recursion depth <= 3"),
    dict(name="dirblock", src="dirblock.c", extra_src=["lib/ext2fs/dir_iterate.c"],
         funcs=["salvage_directory", "check_dot", "check_dotdot", "ext2fs_get_rec_len", "ext2fs_set_rec_len"],
         configs=[{"BLK": 24, "_tier": "thorough"}],
         unwind=4, unwindset=["vf_pass.0:16", "main.0:40", "main.1:40", "main.2:40", "main.3:40", "strnlen.0:40", "strncmp.0:4", "memmove.0:40"],
         backends=["default", "kissat"],
         bound="one directory block of 24 bytes, every byte symbolic; directory inode number and s_inodes_count symbolic"),
    dict(name="dot", src="dot.c", extra_src=["lib/ext2fs/dir_iterate.c"],
         funcs=["check_dot", "ext2fs_get_rec_len", "ext2fs_set_rec_len"],
         configs=[{"KERNEL": 0, "OFF": 0, "BLK": 48}],
         unwind=4, unwindset=["main.%d:50" % i for i in range(5)] + ["strncmp.0:4"],
         backends=["default", "kissat"],
         bound="block of 48 bytes, every byte symbolic (entry valid per the caller's test); inode number and feature word symbolic"),
    dict(name="dotdot", src="dot.c", extra_src=["lib/ext2fs/dir_iterate.c"],
         funcs=["check_dotdot", "ext2fs_get_rec_len"],
         configs=[{"KERNEL": 1, "OFF": 12, "BLK": 48}, {"KERNEL": 1, "OFF": 16, "BLK": 48}],
         unwind=4, unwindset=["main.%d:50" % i for i in range(5)],
         backends=["default", "kissat"],
         bound="block of 48 bytes, every byte symbolic (entry at offset 12 / 16 valid per the caller's test)"),
    dict(name="salvage", src="salvage.c", extra_src=["lib/ext2fs/dir_iterate.c"],
         funcs=["salvage_directory", "ext2fs_get_rec_len", "ext2fs_set_rec_len"],
         configs=[{"BLK": 32}, {"BLK": 32, "TAIL": None}],
         unwind=4, unwindset=["main.%d:54" % i for i in range(6)] + ["ref_reclen.0:12", "ref_namelen.0:12", "ref_nonzero.0:34",
                                                                      "strnlen.0:34", "memmove.0:34", "memset.0:10"],
         backends=["default", "kissat"],
         bound="block of 32 bytes, every byte symbolic; offset and prev symbolic under the loop invariant; with and without checksum tail"),
    dict(name="check_name", src="names.c",
         funcs=["check_name"],
         configs=[{"KERNEL": 0}],
         unwind=4, unwindset=["main.%d:26" % i for i in range(6)] + ["check_name.0:14"],
         backends=["default", "kissat"],
         bound="names of 0..12 bytes, all bytes symbolic"),
    dict(name="check_filetype", src="names.c", extra_src=["e2fsck/util.c"],
         funcs=["check_filetype", "ext2_file_type", "e2fsck_read_inode"],
         configs=[{"KERNEL": 1}],
         unwind=4, unwindset=["main.%d:26" % i for i in range(6)],
         backends=["default", "kissat"],
         bound="all 2^16 inode modes, all type bytes, all feature words, every combination of pass-1 map membership"),
    dict(name="find_problem", src="find_problem.c",
         funcs=["find_problem"],
         configs=[{"PART": 1}, {"PART": 0, "LO": 0, "HI": 300}, {"PART": 0, "LO": 300}],
         cbmc_flags=["--object-bits", "11"],
         unwind=4, unwindset=["find_problem.0:430", "main.0:430", "main.1:430", "main.2:430"],
         backends=["default", "kissat"],
         bound="the whole real problem_table (every entry, concrete index loop); one symbolic absent code (all 2^32 values)"),
    dict(name="extra", src="extra.c",
         funcs=["check_inode_extra_space", "check_inode_extra_negative_epoch"],
         cut_statics={"e2fsck/pass1.c": ["check_ea_in_inode"]},
         unwind=4, unwindset=["main.%d:258" % i for i in range(8)],
         backends=["default", "kissat"],
         bound="one 256-byte inode, every byte symbolic; ctx->now and s_want_extra_isize symbolic"),
]
MANIFEST = {
    "text": "Kernel-level slice (partial). Bounded-exhaustive: (1) the fix_problem() protocol over every entry of the real problem_table, every "
            "latch state and flag word: 'no' un-marks valid unless PR_NO_OK, 'yes' sets PROBLEMS_FIXED unless PR_NOT_A_FIX, -n never fixes and "
            "never asks, -y answers yes to everything not PR_FORCE_NO, display flags/counters never change the outcome; (2) repair idempotence of "
            "check_dot, check_dotdot, check_name, check_filetype on fully symbolic entries; (3) an inductive step of the salvage loop proving it "
            "terminates with a chain of valid entries; (4) check_inode_extra_space on a fully symbolic 256-byte inode: idempotent, writes iff it changed, "
            "touches only i_extra_isize and epoch bits -- but the epoch repair can hit bytes beyond i_extra_isize (genuine finding, label [fits]). "
            "Whole-run convergence of e2fsck -fy / -fn is outside.",
    "note": "Trusted: CBMC's C semantics; fix_problem stubbed to 'yes' in the kernels; the caller's dirent validity test restated from the format; "
            "find_problem cut to a slot-copying stub in fixproblem; the real find_problem is decided over the whole real table in harness find_problem "
            "(right entry for every code, NULL otherwise, codes unique). check_ea_in_inode cut in harness extra (not separately decided).",
}
