/*
 * C01/dot: repair idempotence of check_dot() / check_dotdot() (pass2.c), the repair
 * kernels of the first two entries of every directory block 0.
 *
 * The entry is symbolic (whole block symbolic) and satisfies what check_dir_block()
 * has established before it calls the kernel (rec_len >= 12, multiple of 4, inside the
 * block, name fits).  Every question is answered yes.  After the repair
 *  - the entry (and, when "." was split, the new entry behind it) still satisfies the
 *    format rule, so the caller's next iteration does not find it corrupted,
 *  - running the same kernel again raises no problem, returns 0 and changes nothing.
 * KERNEL 0: check_dot at offset 0;  KERNEL 1: check_dotdot at offset OFF (12 or 16).
 */
#include "e2fsck/pass2.c"

#ifndef BLK
#define BLK 48
#endif
#ifndef OFF
#define OFF 0
#endif

struct vf_in {
	unsigned char buf[BLK];
	__u32 ino;
	__u32 feature_incompat;
};
VF_DECLARE_INPUT(struct vf_in, IN)
#include "vf_input.inc"

static struct e2fsck_struct vf_ctx;
static struct struct_ext2_filsys vf_fs;
static struct ext2_super_block vf_sb;
static unsigned char vf_buf[BLK + 8] __attribute__((aligned(8)));
static int vf_nprob, vf_nset;

/* STUB: fix_problem() records and answers yes (the -y protocol is decided in C01/fixproblem) */
int fix_problem(e2fsck_t ctx, problem_t code, struct problem_context *pctx)
{ (void) ctx; (void) pctx; (void) code; vf_nprob++; return 1; }
/* STUB: e2fsck_dir_info_set_dotdot() records the call and succeeds */
int e2fsck_dir_info_set_dotdot(e2fsck_t ctx, ext2_ino_t ino, ext2_ino_t dotdot)
{ (void) ctx; (void) ino; (void) dotdot; vf_nset++; return 0; }

/* the on-disk format's rule for one directory entry at offset off */
static int ref_dirent_ok(unsigned int off)
{
	unsigned int rec_len = vf_buf[off + 4] | (vf_buf[off + 5] << 8);
	unsigned int name_len = vf_buf[off + 6];
	return rec_len >= 12 && !(rec_len & 3) && off + rec_len <= BLK && 8 + name_len <= rec_len;
}

static int vf_kernel(void)
{
	struct problem_context pctx;
	memset(&pctx, 0, sizeof(pctx)); pctx.blkcount = -1; pctx.group = -1;
#if KERNEL == 0
	return check_dot(&vf_ctx, (struct ext2_dir_entry *) (vf_buf + OFF), IN.ino, &pctx);
#else
	return check_dotdot(&vf_ctx, (struct ext2_dir_entry *) (vf_buf + OFF), IN.ino, &pctx);
#endif
}

int main(void)
{
	int i, r1, r2, n1;
	unsigned int rl, rl0;
	unsigned char after1[BLK];

	VF_INPUT(IN);
	vf_fs.super = &vf_sb;
	vf_fs.blocksize = BLK;
	vf_sb.s_feature_incompat = IN.feature_incompat;
	vf_ctx.fs = &vf_fs;
	for (i = 0; i < BLK; i++)
		vf_buf[i] = IN.buf[i];
	/* ASSUME: check_dir_block() calls the kernel only on an entry that passed its validity test */
	ASSUME(ref_dirent_ok(OFF));
	/* ASSUME: the directory inode number is non-zero */
	ASSUME(IN.ino != 0);

	rl0 = vf_buf[OFF + 4] | (vf_buf[OFF + 5] << 8);
	r1 = vf_kernel();
	n1 = vf_nprob;
	PROP(r1 == (n1 != 0), "the kernel reports 'modified' exactly when it raised a problem");
	PROP(ref_dirent_ok(OFF), "the repaired entry still satisfies the format rule");
#if KERNEL == 0
	rl = vf_buf[4] | (vf_buf[5] << 8);
	if (rl != rl0) {
		PROP(rl == 12 && rl0 > 24, "'.' is split only when it has more than 12 spare bytes, and shrinks to 12");
		if (!(vf_buf[20] == '.' && vf_buf[21] == '.' && vf_buf[22] == 0))
			PROP(ref_dirent_ok(12) && (vf_buf[16] | (vf_buf[17] << 8)) == rl0 - 12 &&
			     !vf_buf[12] && !vf_buf[13] && !vf_buf[14] && !vf_buf[15],
			     "the entry split off '.' is a valid empty entry covering exactly the rest");
	}
#endif
	for (i = 0; i < BLK; i++)
		after1[i] = vf_buf[i];
	vf_nprob = 0;
	r2 = vf_kernel();
	PROP(vf_nprob == 0, "second run on the repaired entry raises no problem");
	PROP(r2 == 0, "second run reports nothing modified");
	for (i = 0; i < BLK; i++)
		PROP(after1[i] == vf_buf[i], "second run does not modify the block");
	VF_END();
	return 0;
}
