/*
 * C01/rehash_quota: quota accounting of the REAL e2fsck_rehash_dir() (rehash.c, pass 3A) when the
 * rebuilt directory comes out SMALLER than it was.  What e2fsck accumulates in ctx->qctx is written
 * to the quota files at the end of the -y run; if the bytes freed by the rebuild are not taken off
 * the owner's usage, the next run reports "[QUOTA WARNING] Usage inconsistent".
 *
 * Heavy stages are cut (scaffolding of C05/rehashsel): ext2fs_block_iterate3 ("reads" an empty
 * entry list with symbolic dir_size), duplicate_search_and_fix, copy_dir_entries, calculate_tree
 * and write_directory.  The write_directory stub does what the real one documents: it sets the
 * inode's size to (blocks of the rebuilt directory) * blocksize -- a SYMBOLIC number of blocks,
 * smaller, equal or larger than before -- (the real one then punches the tail).
 *
 * Reference rule, from the quota accounting contract (pass 1 check_blocks(), and identically the
 * library's quota_compute_usage(), charge an inode's blocks to its owner iff it is the root
 * directory or an ordinary inode, i.e. number >= EXT2_FIRST_INODE; the other reserved inodes,
 * the project-quota file, the orphan file and EA inodes are never charged):
 *   quota_data_sub(ctx->qctx, <the rebuilt inode>, ino, old size - new size) is called exactly once
 *   iff the directory was written, got smaller, and pass 1 charged it; never otherwise.
 */
struct e2fsck_struct; struct struct_ext2_filsys; struct fill_dir_struct; struct name_cmp_ctx; struct out_dir; struct ext2_inode;
static int duplicate_search_and_fix(struct e2fsck_struct *ctx, struct struct_ext2_filsys *fs, unsigned int ino,
				    struct fill_dir_struct *fd, const struct name_cmp_ctx *cmp_ctx);
static long copy_dir_entries(struct e2fsck_struct *ctx, struct fill_dir_struct *fd, struct out_dir *outdir);
static long calculate_tree(struct struct_ext2_filsys *fs, struct out_dir *outdir, unsigned int ino, unsigned int parent, struct ext2_inode *inode);
static long write_directory(struct e2fsck_struct *ctx, struct struct_ext2_filsys *fs, struct out_dir *outdir, unsigned int ino,
			    struct ext2_inode *inode, int compress);
#include "e2fsck/rehash.c"

#define BS 64
#ifndef ISIZE
#define ISIZE 256
#endif
#define OLDBLKS (ISIZE / BS)

struct vf_in {
	__u32 ino, i_flags, feature_compat, feature_incompat;
	__u32 rev_level, first_ino, prj_quota_inum, usr_quota_inum, grp_quota_inum, orphan_file_inum;
	int options;
	__u32 dir_size;
	unsigned char newblks;
	__u32 uid, gid;
};
VF_DECLARE_INPUT(struct vf_in, IN)
#include "vf_input.inc"

static struct e2fsck_struct vf_ctx;
static struct struct_ext2_filsys vf_fs;
static struct ext2_super_block vf_sb;
static char vf_qctx_obj;
static struct ext2_inode *vf_inode;		/* the in-memory inode e2fsck_rehash_dir works on */
static int vf_nwrite, vf_nsub, vf_sub_ok, vf_nrebuild;
static unsigned long long vf_sub_bytes;

/* STUB: e2fsck_read_inode_full(): a directory inode of ISIZE bytes with symbolic flags and owner */
void e2fsck_read_inode_full(e2fsck_t ctx, unsigned long ino, struct ext2_inode *inode, const int bufsize, const char *proc)
{
	static struct ext2_inode_large z;
	(void) ctx; (void) ino; (void) bufsize; (void) proc;
	*(struct ext2_inode_large *) inode = z;
	inode->i_size = ISIZE;
	inode->i_flags = IN.i_flags;
	inode->i_mode = 040755;
	inode->i_uid = IN.uid & 0xffff;
	inode->i_gid = IN.gid & 0xffff;
	vf_inode = inode;
}
/* STUB: ext2fs_block_iterate3(): "reads the directory": no entries (the entry stages are cut), symbolic dir_size */
errcode_t ext2fs_block_iterate3(ext2_filsys fs, ext2_ino_t ino, int flags, char *block_buf,
				int (*func)(ext2_filsys, blk64_t *, e2_blkcnt_t, blk64_t, int, void *), void *priv)
{
	struct fill_dir_struct *fd = priv;
	(void) fs; (void) ino; (void) flags; (void) block_buf; (void) func;
	fd->num_array = 0;
	fd->dir_size = IN.dir_size;
	return 0;
}
#ifndef VF_REPLAY
/* STUB: qsort_r() / qsort(): nothing to sort (no entries) */
void qsort_r(void *base, size_t nel, size_t width, int (*compar)(const void *, const void *, void *), void *arg)
{ (void) base; (void) nel; (void) width; (void) compar; (void) arg; }
void qsort(void *base, size_t nel, size_t width, int (*compar)(const void *, const void *))
{ (void) base; (void) nel; (void) width; (void) compar; }
char *gettext(const char *s) { return (char *) s; }
#endif
/* STUB: duplicate_search_and_fix / copy_dir_entries / calculate_tree are cut (own harnesses: C05 dupfix, rebuild, C01 calctree): succeed */
static int duplicate_search_and_fix(e2fsck_t ctx, ext2_filsys fs, ext2_ino_t ino, struct fill_dir_struct *fd, const struct name_cmp_ctx *cmp_ctx)
{ (void) ctx; (void) fs; (void) ino; (void) fd; (void) cmp_ctx; return 0; }
static errcode_t copy_dir_entries(e2fsck_t ctx, struct fill_dir_struct *fd, struct out_dir *outdir)
{ (void) ctx; (void) fd; (void) outdir; return 0; }
static errcode_t calculate_tree(ext2_filsys fs, struct out_dir *outdir, ext2_ino_t ino, ext2_ino_t parent, struct ext2_inode *inode)
{ (void) fs; (void) outdir; (void) ino; (void) parent; (void) inode; return 0; }
/* STUB: write_directory() is cut (own harness: C05 rebuild): the rebuilt directory has IN.newblks blocks; as the real one
 * (ext2fs_inode_size_set(outdir->num * blocksize), then ext2fs_punch of the tail) it leaves the new size in the caller's inode */
static errcode_t write_directory(e2fsck_t ctx, ext2_filsys fs, struct out_dir *outdir, ext2_ino_t ino, struct ext2_inode *inode, int compress)
{
	(void) ctx; (void) fs; (void) outdir; (void) compress;
	if (ino != IN.ino || inode != vf_inode)
		vf_sub_ok = -1;
	inode->i_size = (__u32) IN.newblks * BS;
	inode->i_size_high = 0;
	vf_nwrite++;
	return 0;
}
/* STUB: quota_type2inum(): the superblock's quota inode numbers (s_usr_quota_inum, s_grp_quota_inum, s_prj_quota_inum) */
ext2_ino_t quota_type2inum(enum quota_type q, struct ext2_super_block *sb)
{
	(void) sb;
	return q == USRQUOTA ? IN.usr_quota_inum : q == GRPQUOTA ? IN.grp_quota_inum : q == PRJQUOTA ? IN.prj_quota_inum : 0;
}
/* STUB: quota_data_sub() records what is taken off whose usage */
void quota_data_sub(quota_ctx_t q, struct ext2_inode_large *i, ext2_ino_t ino, qsize_t s)
{
	if (vf_sub_ok == 0)
		vf_sub_ok = ((void *) q == (void *) &vf_qctx_obj) && ((void *) i == (void *) vf_inode) && ino == IN.ino && vf_nwrite == 1;
	vf_sub_bytes = (unsigned long long) s;
	vf_nsub++;
}
/* STUB: extent-rebuild hooks after the write: succeed */
errcode_t e2fsck_rebuild_extents_later(e2fsck_t ctx, ext2_ino_t ino) { (void) ctx; (void) ino; vf_nrebuild++; return 0; }
errcode_t e2fsck_check_rebuild_extents(e2fsck_t ctx, ext2_ino_t ino, struct ext2_inode *inode, struct problem_context *pctx)
{ (void) ctx; (void) ino; (void) inode; (void) pctx; vf_nrebuild++; return 0; }

/* first non-reserved inode number: 11 on revision 0, s_first_ino otherwise (ext2_fs.h / Documentation: "s_first_ino: first non-reserved inode") */
static unsigned int ref_first_ordinary(void) { return IN.rev_level == 0 ? 11 : IN.first_ino; }
/* did pass 1 charge this directory's blocks to its owner's quota? */
static int ref_charged(void)
{
	int reserved = IN.ino < ref_first_ordinary();
	int root = IN.ino == 2;
	if (reserved && !root)
		return 0;			/* bad blocks, quota, journal, resize ... inodes are owned by the fs */
	if (IN.ino == IN.prj_quota_inum)
		return 0;			/* the project quota file lives among the ordinary inodes and is not charged */
	if (IN.ino == IN.orphan_file_inum)
		return 0;			/* nor is the orphan file */
	if (IN.i_flags & 0x00200000)		/* EXT4_EA_INODE_FL: charged to the referencing inodes instead */
		return 0;
	return 1;
}

int main(void)
{
	struct problem_context pctx;
	errcode_t r;
	unsigned long long oldb = ISIZE, newb;

	VF_INPUT(IN);
	memset(&pctx, 0, sizeof(pctx));
	/* ASSUME: inode number >= 1; revision 0 or 1, s_first_ino >= 11 (ext2fs_open / check_super_block enforce it) */
	ASSUME(IN.ino >= 1 && IN.rev_level <= 1 && IN.first_ino >= 11);
	/* BOUND: directory of ISIZE bytes at block size 64 rebuilt into 0..8 blocks (smaller, equal, larger) */
	ASSUME(IN.newblks <= 8);
	vf_fs.super = &vf_sb;
	vf_fs.blocksize = BS;
	vf_sb.s_feature_compat = IN.feature_compat;
	/* ASSUME: no inline-data directory (those are skipped at once) */
	vf_sb.s_feature_incompat = IN.feature_incompat & ~EXT4_FEATURE_INCOMPAT_INLINE_DATA;
	vf_sb.s_rev_level = IN.rev_level;
	vf_sb.s_first_ino = IN.first_ino;
	vf_sb.s_usr_quota_inum = IN.usr_quota_inum;
	vf_sb.s_grp_quota_inum = IN.grp_quota_inum;
	vf_sb.s_prj_quota_inum = IN.prj_quota_inum;
	vf_sb.s_orphan_file_inum = IN.orphan_file_inum;
	vf_ctx.fs = &vf_fs;
	vf_ctx.options = IN.options;
	vf_ctx.qctx = (quota_ctx_t) &vf_qctx_obj;

	r = e2fsck_rehash_dir(&vf_ctx, IN.ino, &pctx);

	newb = (unsigned long long) IN.newblks * BS;
	PROP(r == 0, "e2fsck_rehash_dir succeeds when its steps do");
	if (IN.options & E2F_OPT_NO) {
		PROP(vf_nwrite == 0 && vf_nsub == 0, "-n: nothing is written, no quota adjustment");
	} else {
		PROP(vf_nwrite == 1, "the directory is written once");
		PROP(vf_sub_ok >= 0, "harness: write_directory got the inode that was read");
		if (newb < oldb && ref_charged()) {
			PROP(vf_nsub == 1, "a directory charged by pass 1 (root or inode >= first_ino) that shrank: quota_data_sub is called once");
			PROP(vf_sub_ok == 1, "quota_data_sub gets ctx->qctx, the rebuilt inode (its owner ids) and its number, after the write");
			PROP(vf_sub_bytes == oldb - newb, "exactly the freed bytes (old size - new size) are taken off the usage");
		} else if (newb >= oldb) {
			PROP(vf_nsub == 0, "nothing freed: no quota_data_sub");
		} else {
			PROP(vf_nsub == 0, "an inode pass 1 did not charge (other reserved, project-quota, orphan file, EA inode) is not credited");
		}
		PROP(vf_nrebuild == 1, "the extent-rebuild check follows");
	}
	VF_END();
	return 0;
}
