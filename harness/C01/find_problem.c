/*
 * C01/find_problem: the table lookup that C01/fixproblem cuts.
 *
 * The REAL find_problem() over the REAL problem_table:
 *  PART 0 (entries LO..HI-1, concrete index loop): for every entry i,
 *         find_problem(problem_table[i].e2p_code) == &problem_table[i].  Because the search returns the
 *         FIRST match, this also proves that no earlier entry carries the same code: problem codes are
 *         unique (a duplicate would shadow an entry and its flags).  No code in the table is 0 (the
 *         terminator).
 *  PART 1: for a symbolic code that equals no entry's code, find_problem returns NULL.
 */
#include "e2fsck/problem.c"

#define VF_NTAB ((int)(sizeof(problem_table) / sizeof(problem_table[0])) - 1)
#ifndef LO
#define LO 0
#endif
#ifndef HI
#define HI VF_NTAB
#endif

struct vf_in { problem_t code; };
VF_DECLARE_INPUT(struct vf_in, IN)
#include "vf_input.inc"

/* STUB: none of the externs of problem.c is reached by find_problem() */

int main(void)
{
	int i;

	VF_INPUT(IN);
#if PART == 0
	/* BOUND: table entries LO..HI-1 (the queries together cover the whole table; a compile-time check ties HI to the table size) */
	PROP(HI <= VF_NTAB && LO >= 0, "harness: range inside the table");
	for (i = LO; i < HI && i < VF_NTAB; i++) {
		PROP(problem_table[i].e2p_code != 0, "no table entry has code 0 (the terminator)");
		PROP(find_problem(problem_table[i].e2p_code) == &problem_table[i],
		     "find_problem returns the entry carrying the code (codes are unique)");
	}
	PROP(problem_table[VF_NTAB].e2p_code == 0, "the table ends with the zero terminator");
#else
	for (i = 0; i < VF_NTAB; i++)
		ASSUME(problem_table[i].e2p_code != IN.code);
	PROP(find_problem(IN.code) == 0, "find_problem returns NULL for a code that is not in the table");
#endif
	VF_END();
	return 0;
}
