/*
 * C01/fixproblem: the fix_problem() protocol over the REAL problem_table, for a
 * symbolic problem (every entry of the table), every latch-register state, every
 * ctx->options / fs->flags / ctx->flags word and every sequence of user replies.
 *
 * The exit status of e2fsck is assembled from EXT2_FLAG_VALID and
 * E2F_FLAG_PROBLEMS_FIXED (unix.c:main), so "repair run claims success => nothing
 * was left unfixed" rests on these facts, asserted here:
 *  - a prompted problem that is answered "no" and is not PR_NO_OK un-marks the fs valid;
 *  - a prompted problem answered "yes" sets E2F_FLAG_PROBLEMS_FIXED unless PR_NOT_A_FIX;
 *  - fix_problem never MARKS the fs valid and touches no other flag bit;
 *  - under -n nothing is ever answered yes, nothing is "fixed", no latch turns to YES,
 *    and every prompted problem without PR_NO_OK un-marks valid;
 *  - under -y every prompted problem that is not PR_FORCE_NO is answered yes;
 *  - display-only attributes (PR_PREEN_NOHDR, PR_NO_NOMSG, PR_PREEN_NOMSG, the
 *    occurrence counter and max_count) never change answer, flags or latch state
 *    (two runs from the same state);
 *  - the recursion (latch question, PR_AFTER_CODE chains) is at most 3 frames deep
 *    (unwinding assertion).
 * MODE: 0 interactive, 1 -n, 2 -y, 3 -p
 */
struct e2fsck_problem;
static struct e2fsck_problem *find_problem(unsigned int code);	/* cut, see stub below */
#include "e2fsck/problem.c"

#define VF_NTAB   ((int)(sizeof(problem_table) / sizeof(problem_table[0])) - 1)
#define VF_NLATCH ((int)(sizeof(pr_latch_info) / sizeof(pr_latch_info[0])) - 1)
#define VF_NLATCH_MAX 16
#define VF_NREPLY 4

struct vf_in {
	unsigned int idx;		/* which table entry is raised */
	int options;			/* other option bits */
	unsigned int fsflags;
	int ctxflags;
	unsigned char latch[VF_NLATCH_MAX];	/* latch register pre-state */
	unsigned char reply[VF_NREPLY];	/* what the user types, k-th question */
	int max_a, max_b, count_b;	/* [options] max_count_problems / occurrence counter, run A / B */
	int flip;			/* display-only flag bits toggled in run B */
};
VF_DECLARE_INPUT(struct vf_in, IN)
#include "vf_input.inc"

/*
 * STUB: find_problem() is cut (its own harness: find_problem.c): the specification stub copies the
 * entry with that code out of the REAL problem_table into a private slot and returns the slot, so that
 * fix_problem works on a small object.  The message text is replaced by "m" (only printed).
 */
#define VF_NSLOT 7
#define VF_NTAB_MAX 440
static struct e2fsck_problem vf_slot[VF_NSLOT];
static int vf_nslot;
/* scalar columns of the real table, copied once by vf_load_table() */
static problem_t vf_tcode[VF_NTAB_MAX], vf_tsecond[VF_NTAB_MAX];
static int vf_tflags[VF_NTAB_MAX];
static char vf_tprompt[VF_NTAB_MAX];
static void vf_load_table(void)
{
	int i;
	for (i = 0; i < VF_NTAB; i++) {
		vf_tcode[i] = problem_table[i].e2p_code;
		vf_tsecond[i] = problem_table[i].second_code;
		vf_tflags[i] = problem_table[i].flags;
		vf_tprompt[i] = problem_table[i].prompt;
	}
}
static struct e2fsck_problem *find_problem(unsigned int code)
{
	int k, i, n = vf_nslot;
	problem_t c = 0, sc = 0;
	int fl = 0;
	char pr = 0;

	for (k = 0; k < VF_NSLOT; k++)
		if (k < n && vf_slot[k].e2p_code == code)
			return &vf_slot[k];
	for (i = 0; i < VF_NTAB; i++)
		if (vf_tcode[i] == code) {
			c = code; sc = vf_tsecond[i]; fl = vf_tflags[i]; pr = vf_tprompt[i];
		}
	if (!c)
		return 0;
	for (k = 0; k < VF_NSLOT; k++)
		if (k == n) {
			vf_slot[k].e2p_code = c;
			vf_slot[k].e2p_description = "m";
			vf_slot[k].prompt = pr;
			vf_slot[k].flags = fl;
			vf_slot[k].second_code = sc;
			vf_slot[k].count = 0;
			vf_slot[k].max_count = 0;
			vf_nslot = n + 1;
			return &vf_slot[k];
		}
	PROP(0, "harness: closure of a problem exceeds the slots");
	return 0;
}

static struct e2fsck_struct vf_ctx;
static struct struct_ext2_filsys vf_fs;
static int vf_nask, vf_max;

/* STUB: gettext() returns its argument (no translation catalogue) */
char *gettext(const char *s) { return (char *) s; }
/* STUB: profile_get_*(): no [problems] overrides in e2fsck.conf: booleans/strings keep their default; max_count takes the symbolic value vf_max */
long profile_get_boolean(profile_t p, const char *a, const char *b, const char *c, int def, int *ret)
{ (void) p; (void) a; (void) b; (void) c; *ret = def; return 0; }
long profile_get_integer(profile_t p, const char *a, const char *b, const char *c, int def, int *ret)
{ (void) p; (void) a; (void) b; (void) c; (void) def; *ret = vf_max; return 0; }
long profile_get_string(profile_t p, const char *a, const char *b, const char *c, const char *def, char **ret)
{ (void) p; (void) a; (void) b; (void) c; (void) def; *ret = 0; return 0; }
#ifndef VF_REPLAY
/* STUB: sprintf() (builds the profile key, which the profile stubs ignore) writes an empty string */
int sprintf(char *str, const char *fmt, ...) { (void) fmt; str[0] = 0; return 0; }
#endif
/* STUB: print_e2fsck_message() only prints */
void print_e2fsck_message(FILE *f, e2fsck_t ctx, const char *msg, struct problem_context *pctx, int first, int recurse)
{ (void) f; (void) ctx; (void) msg; (void) pctx; (void) first; (void) recurse; }
/* STUB: fatal_error() never returns (real one exits with FSCK_ERROR): the path ends here */
void fatal_error(e2fsck_t ctx, const char *msg)
{ (void) ctx; (void) msg; __CPROVER_assume(0); }
/* STUB: preenhalt() as in util.c: returns unless preening, otherwise the run ends with FSCK_UNCORRECTED: path ends */
void preenhalt(e2fsck_t ctx)
{
	if (!(ctx->options & E2F_OPT_PREEN))
		return;
	__CPROVER_assume(0);
}
/* STUB: ask() as in util.c: -n => 0, -y => 1, -p => default, otherwise the user's k-th reply (symbolic) */
int ask(e2fsck_t ctx, const char *string, int def)
{
	int k, r = 0;
	(void) string;
	if (ctx->options & E2F_OPT_NO)
		return 0;
	if (ctx->options & E2F_OPT_YES)
		return 1;
	if (ctx->options & E2F_OPT_PREEN)
		return def;
	for (k = 0; k < VF_NREPLY; k++)
		if (k == vf_nask)
			r = IN.reply[k] & 1;
	vf_nask++;
	return r;
}

#if MODE == 1
#define VF_MODEBITS E2F_OPT_NO
#elif MODE == 2
#define VF_MODEBITS E2F_OPT_YES
#elif MODE == 3
#define VF_MODEBITS E2F_OPT_PREEN
#else
#define VF_MODEBITS 0
#endif

struct vf_obs { int ret; unsigned int fsflags; int ctxflags; int nask; unsigned char latch[VF_NLATCH_MAX]; };

static void vf_run(struct vf_obs *o, problem_t code)
{
	struct problem_context pctx;
	int i;

	clear_problem_context(&pctx);
	vf_fs.flags = IN.fsflags;
	vf_ctx.flags = IN.ctxflags;
	vf_nask = 0;
	for (i = 0; i < VF_NLATCH; i++)
		pr_latch_info[i].flags = IN.latch[i] & PRL_VARIABLE;
	o->ret = fix_problem(&vf_ctx, code, &pctx);
	o->fsflags = vf_fs.flags;
	o->ctxflags = vf_ctx.flags;
	o->nask = vf_nask;
	for (i = 0; i < VF_NLATCH; i++)
		o->latch[i] = pr_latch_info[i].flags;
}

static void vf_check(problem_t code, int f, int p)	/* code, flags, prompt of the entry in the real table */
{
	struct vf_obs a, b;
	struct e2fsck_problem *e;
	int i;

	vf_max = IN.max_a;
	vf_run(&a, code);

	if (p != PROMPT_NONE && !(f & PR_AFTER_CODE)) {
		if (!(f & PR_NO_OK))
			PROP(a.ret != 0 || !(a.fsflags & EXT2_FLAG_VALID),
			     "answer no to a problem without PR_NO_OK un-marks the fs valid");
		if (!(f & PR_NOT_A_FIX))
			PROP(a.ret == 0 || (a.ctxflags & E2F_FLAG_PROBLEMS_FIXED),
			     "answer yes to a prompted problem sets E2F_FLAG_PROBLEMS_FIXED");
		PROP(a.ret == 0 || a.ret == 1, "a prompted problem is answered 0 or 1");
	}
	PROP(!(a.fsflags & ~IN.fsflags) && !((a.fsflags ^ IN.fsflags) & ~EXT2_FLAG_VALID),
	     "fix_problem only ever clears EXT2_FLAG_VALID in fs->flags");
	PROP(!((a.ctxflags ^ IN.ctxflags) & ~E2F_FLAG_PROBLEMS_FIXED) && !(IN.ctxflags & ~a.ctxflags),
	     "fix_problem only ever sets E2F_FLAG_PROBLEMS_FIXED in ctx->flags");
#if MODE == 1
	PROP(a.ret <= 0 || p == PROMPT_NONE, "-n: no prompted problem is answered yes");
	PROP(a.ctxflags == IN.ctxflags, "-n: nothing is recorded as fixed");
	PROP(a.nask == 0, "-n: the user is never consulted");
	for (i = 0; i < VF_NLATCH; i++)
		PROP(!(a.latch[i] & PRL_YES), "-n: no latch turns to YES");
	if (p != PROMPT_NONE && !(f & PR_NO_OK))
		PROP(!(a.fsflags & EXT2_FLAG_VALID), "-n: every prompted problem without PR_NO_OK un-marks valid");
#endif
#if MODE == 2
	if (p != PROMPT_NONE && !(f & (PR_FORCE_NO | PR_AFTER_CODE)))
		PROP(a.ret == 1, "-y: every prompted problem not PR_FORCE_NO is answered yes");
	PROP(a.nask == 0, "-y: the user is never consulted");
	for (i = 0; i < VF_NLATCH; i++)
		PROP(!(a.latch[i] & PRL_NO), "-y: no latch turns to NO");
#endif
#if MODE == 3
	PROP(a.nask == 0, "-p: the user is never consulted");
	PROP((f & PR_PREEN_OK) || p == PROMPT_NONE, "-p: a prompted problem without PR_PREEN_OK ends the run");
#endif

#ifdef NONINTERF
	/* run B: same state, same replies; display-only attributes changed */
	e = &vf_slot[0];	/* the slot of the raised problem */
	PROP(e->e2p_code == code, "harness: slot 0 holds the raised problem");
	e->flags = (e->flags & ~PR_CONFIG) ^ (IN.flip & (PR_PREEN_NOHDR | PR_NO_NOMSG | PR_PREEN_NOMSG | PR_MSG_ONLY));
	e->count = IN.count_b;
	vf_max = IN.max_b;
	vf_run(&b, code);
	PROP(a.ret == b.ret, "display flags / counters do not change the answer");
	PROP(a.fsflags == b.fsflags && a.ctxflags == b.ctxflags, "display flags / counters do not change valid / fixed");
	PROP(a.nask == b.nask, "display flags / counters do not change how often the user is asked");
	for (i = 0; i < VF_NLATCH; i++)
		PROP(a.latch[i] == b.latch[i], "display flags / counters do not change the latch register");
#endif
}

int main(void)
{
	int i, f = 0, p = 0;
	problem_t code = 0;

	VF_INPUT(IN);
	/* BOUND: every entry of the real problem_table (symbolic index, dispatched to a concrete entry per path) */
	ASSUME(IN.idx < (unsigned) VF_NTAB);
	ASSUME(IN.count_b >= 0 && IN.count_b < 0x7fffffff);
	vf_ctx.fs = &vf_fs;
	vf_ctx.device_name = "dev";
	/* ASSUME: no log file / problem log (ctx->logf, ctx->problem_logf NULL): they only print */
	/* ASSUME: at most one of -p / -n / -y (unix.c:PRS rejects combinations); one query per mode */
	vf_ctx.options = (IN.options & ~(E2F_OPT_NO | E2F_OPT_YES | E2F_OPT_PREEN)) | VF_MODEBITS;
#if MODE == 1
	/* ASSUME: (inductive) under -n no latch is in state PRL_YES; re-established by the PROP "-n: no latch turns to YES" */
	for (i = 0; i < VF_NLATCH; i++)
		ASSUME(!(IN.latch[i] & PRL_YES));
#endif
	PROP(VF_NTAB <= VF_NTAB_MAX, "harness: table fits");
	vf_load_table();
#if MODE == 2
	/* ASSUME: (inductive) under -y no latch is in state PRL_NO; re-established by the PROP "-y: no latch turns to NO" */
	for (i = 0; i < VF_NLATCH; i++)
		ASSUME(!(IN.latch[i] & PRL_NO));
#endif
	for (i = 0; i < VF_NTAB; i++)
		if ((unsigned) i == IN.idx) {
			code = vf_tcode[i];
			f = vf_tflags[i];
			p = vf_tprompt[i];
		}
	vf_check(code, f, p);
	VF_END();
	return 0;
}
