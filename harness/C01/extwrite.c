/*
 * C01/extwrite: the writer side of the extent-tree rebuild, the REAL
 * rewrite_extent_replay() (extents.c): what e2fsck writes is what it read (otherwise the
 * next run finds a different file: lost or shifted blocks).
 *
 * The extent API (open2 / insert / fix_parents / free), i_blocks and quota calls are
 * recording stubs.  The in-memory list holds NL symbolic extents (lblk, pblk, length up to
 * MAXLEN, initialised / uninitialised, arbitrary other flag bits, empty entries allowed) in
 * logical order.  For a symbolic probe block L the sequence of extents handed to
 * ext2fs_extent_insert() maps L exactly as the list did (same physical block, same state,
 * unmapped alike); every piece is non-empty and within the on-disk length limit of its
 * state (32768 initialised, 32767 uninitialised), carries no flag but UNINIT, and the pieces
 * are in increasing logical order without overlap; each insert is INSERT_AFTER followed by
 * fix_parents; the inode is written once and the handle freed once.
 */
#include "e2fsck/extents.c"

#ifndef NL
#define NL 2
#endif
#ifndef MAXLEN
#define MAXLEN 131072
#endif
#define MAXREC (NL * (MAXLEN / 32767 + 1) + 1)

struct vf_in {
	unsigned long long lblk[NL], pblk[NL];
	__u32 len[NL], flags[NL];
	unsigned long long probe;
	__u32 blocks_freed;
};
VF_DECLARE_INPUT(struct vf_in, IN)
#include "vf_input.inc"

static struct e2fsck_struct vf_ctx;
static struct struct_ext2_filsys vf_fs;
static struct ext2fs_extent vf_list[NL];
static struct ext2fs_extent vf_rec[MAXREC];
static int vf_nrec, vf_overflow, vf_badflags, vf_nfix, vf_nopen, vf_nfree, vf_nwrite, vf_order_err;
static char vf_handle_obj;

/* STUB: extent API: open succeeds; insert records the extent; fix_parents must follow every insert */
errcode_t ext2fs_extent_open2(ext2_filsys fs, ext2_ino_t ino, struct ext2_inode *inode, ext2_extent_handle_t *h)
{ (void) fs; (void) ino; (void) inode; vf_nopen++; *h = (ext2_extent_handle_t) &vf_handle_obj; return 0; }
errcode_t ext2fs_extent_insert(ext2_extent_handle_t h, int flags, struct ext2fs_extent *e)
{
	int i;
	(void) h;
	if (flags != EXT2_EXTENT_INSERT_AFTER || vf_nfix != vf_nrec)
		vf_order_err = 1;
	if (vf_nrec >= MAXREC) { vf_overflow = 1; return 0; }
	for (i = 0; i < MAXREC; i++)
		if (i == vf_nrec)
			vf_rec[i] = *e;
	vf_nrec++;
	return 0;
}
errcode_t ext2fs_extent_fix_parents(ext2_extent_handle_t h) { (void) h; vf_nfix++; if (vf_nfix != vf_nrec) vf_order_err = 1; return 0; }
void ext2fs_extent_free(ext2_extent_handle_t h) { (void) h; vf_nfree++; }
/* STUB: block accounting and quota: succeed, i_blocks constant */
errcode_t ext2fs_iblk_sub_blocks(ext2_filsys fs, struct ext2_inode *inode, blk64_t n) { (void) fs; (void) inode; (void) n; return 0; }
blk64_t ext2fs_get_stat_i_blocks(ext2_filsys fs, struct ext2_inode *inode) { (void) fs; (void) inode; return 8; }
void quota_data_sub(quota_ctx_t q, struct ext2_inode_large *i, ext2_ino_t ino, qsize_t s) { (void) q; (void) i; (void) ino; (void) s; }
void quota_data_add(quota_ctx_t q, struct ext2_inode_large *i, ext2_ino_t ino, qsize_t s) { (void) q; (void) i; (void) ino; (void) s; }
void e2fsck_write_inode(e2fsck_t ctx, unsigned long ino, struct ext2_inode *inode, const char *proc)
{ (void) ctx; (void) ino; (void) inode; (void) proc; vf_nwrite++; }

int main(void)
{
	static struct ext2_inode_large inode;
	struct extent_list list;
	static struct extent_list lz;
	errcode_t r;
	int i, in_mapped = 0, in_un = 0, out_mapped = 0, out_un = 0, have_prev = 0;
	unsigned long long in_p = 0, out_p = 0, prev_end = 0;

	VF_INPUT(IN);
	vf_ctx.fs = &vf_fs;
	vf_fs.blocksize = 1024;
	/* ASSUME: the list is what load_extents / find_blocks build: logical order, no overlap, below 2^32; BOUND: lengths up to MAXLEN */
	for (i = 0; i < NL; i++) {
		ASSUME(IN.len[i] <= MAXLEN);
		ASSUME(IN.lblk[i] < (1ULL << 32) && IN.lblk[i] + IN.len[i] <= (1ULL << 32));
		ASSUME(IN.pblk[i] < (1ULL << 47));
		vf_list[i].e_lblk = IN.lblk[i];
		vf_list[i].e_pblk = IN.pblk[i];
		vf_list[i].e_len = IN.len[i];
		vf_list[i].e_flags = IN.flags[i];
		if (IN.len[i]) {
			if (have_prev)
				ASSUME(IN.lblk[i] >= prev_end);
			prev_end = IN.lblk[i] + IN.len[i];
			have_prev = 1;
			if (IN.probe >= IN.lblk[i] && IN.probe - IN.lblk[i] < IN.len[i]) {
				in_mapped++;
				in_p = IN.pblk[i] + (IN.probe - IN.lblk[i]);
				in_un = (IN.flags[i] & EXT2_EXTENT_FLAGS_UNINIT) != 0;
			}
		}
	}
	list = lz;
	list.ino = 12;
	list.extents = vf_list;
	list.count = NL;
	list.size = NL;
	list.blocks_freed = IN.blocks_freed;
	inode.i_flags = EXT4_EXTENTS_FL;

	r = rewrite_extent_replay(&vf_ctx, &list, &inode);

	PROP(r == 0, "rewrite_extent_replay succeeds when the extent API does");
	PROP(!vf_overflow, "harness: number of pieces within the record bound");
	PROP(!vf_order_err && vf_nfix == vf_nrec, "every piece is inserted AFTER the current one and followed by fix_parents");
	PROP(vf_nopen == 1 && vf_nfree == 1 && vf_nwrite == 1, "handle opened and freed once, inode written once");
	prev_end = 0;
	for (i = 0; i < MAXREC; i++) {
		int un;
		if (i >= vf_nrec)
			break;
		un = (vf_rec[i].e_flags & EXT2_EXTENT_FLAGS_UNINIT) != 0;
		PROP(!(vf_rec[i].e_flags & ~EXT2_EXTENT_FLAGS_UNINIT), "a written piece carries no flag but UNINIT");
		PROP(vf_rec[i].e_len >= 1 && vf_rec[i].e_len <= (un ? 32767U : 32768U), "every written piece is within the on-disk length limit of its state");
		PROP(i == 0 || vf_rec[i].e_lblk >= prev_end, "written pieces are in increasing logical order without overlap");
		prev_end = vf_rec[i].e_lblk + vf_rec[i].e_len;
		if (IN.probe >= vf_rec[i].e_lblk && IN.probe - vf_rec[i].e_lblk < vf_rec[i].e_len) {
			out_mapped++;
			out_p = vf_rec[i].e_pblk + (IN.probe - vf_rec[i].e_lblk);
			out_un = un;
		}
	}
	PROP(in_mapped == out_mapped, "a logical block is written as mapped iff the list maps it");
	if (in_mapped) {
		PROP(in_p == out_p, "every logical block is written with the physical block the list gives it");
		PROP(in_un == out_un, "every logical block is written with the state (initialised / uninitialised) the list gives it");
	}
	VF_END();
	return 0;
}
