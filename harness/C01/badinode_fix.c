/*
 * C01/badinode_fix: the REPAIR side of the REAL e2fsck_process_bad_inode() (pass2.c) under
 * e2fsck -y (every question answered yes), and its idempotence: a second run of the real
 * function on the inode image the first run wrote must raise nothing and write nothing.
 * (The detector side -- which problem is raised for which field -- is harness C02/badinode.)
 *
 * The 128-byte on-disk inode is fully symbolic (every byte), so are the superblock words the
 * function reads.  e2fsck_read_inode() delivers the current "disk" image, e2fsck_write_inode()
 * stores into it (and counts): so what the second run sees is exactly what was written.
 *
 * Reference, from the problem descriptions (problem.c: every message of these codes ends in
 * "should be zero" / "Clear") and the on-disk inode format (byte offsets, not struct members):
 *   PR_2_FILE_ACL_ZERO, PR_2_FILE_ACL_BAD    name i_file_acl: bytes 104..107 (+ 118..119 when 64bit)
 *   PR_2_DIR_SIZE_HIGH_ZERO                  names i_size_high: bytes 108..111
 *   PR_2_FADDR_ZERO                          names i_faddr: bytes 112..115
 *   PR_2_FRAG_ZERO / PR_2_FSIZE_ZERO         name the Hurd bytes 116 / 117
 *   PR_2_BLOCKS_HI_ZERO                      names l_i_blocks_hi: bytes 116..117
 *   PR_2_I_FILE_ACL_HI_ZERO                  names l_i_file_acl_high: bytes 118..119
 *   bad mode / device / fifo / socket / symlink: the inode is deallocated, not patched.
 * After "yes": every byte of a named field is 0 in the image handed to e2fsck_write_inode(), every
 * other byte is the one read; the write happens exactly once iff a field problem was raised (never
 * for a clean inode, never after a deallocation); the written image violates none of the format
 * predicates; and the real function, run again on it, is silent.
 */
struct e2fsck_struct;
static void deallocate_inode(struct e2fsck_struct *ctx, unsigned int ino, char *block_buf);
#include "e2fsck/pass2.c"
#include "env.c"

struct vf_in {
	unsigned char ino[128];
	__u32 feature_compat, feature_incompat, feature_ro_compat;
	__u32 creator_os, first_data_block, blocks_count, blocks_count_hi, log_block_size;
	__u32 inum, dir;
	unsigned char dev_ok, symlink_ok;
};
VF_DECLARE_INPUT(struct vf_in, IN)
#include "vf_input.inc"

static struct e2fsck_struct vf_ctx;
static struct struct_ext2_filsys vf_fs;
static struct ext2_super_block vf_sb;
static char vf_badmap;
static unsigned char vf_disk[128];
static int vf_nprob, vf_nwrite, vf_write_ok, vf_nunmark, vf_unmark_ok, vf_nread, vf_ndealloc, vf_dealloc_ok, vf_write_after_dealloc;
#define VF_NCODES 14
static const problem_t vf_codes[VF_NCODES] = {
	PR_2_FILE_ACL_ZERO, PR_2_BAD_MODE, PR_2_BAD_CHAR_DEV, PR_2_BAD_BLOCK_DEV, PR_2_BAD_FIFO, PR_2_BAD_SOCKET,
	PR_2_INVALID_SYMLINK, PR_2_FADDR_ZERO, PR_2_FRAG_ZERO, PR_2_FSIZE_ZERO, PR_2_BLOCKS_HI_ZERO,
	PR_2_I_FILE_ACL_HI_ZERO, PR_2_FILE_ACL_BAD, PR_2_DIR_SIZE_HIGH_ZERO };
static int vf_raised[VF_NCODES];

/* STUB: fix_problem() records the code and answers yes (e2fsck -y; the protocol itself is decided in C01/fixproblem) */
int fix_problem(e2fsck_t ctx, problem_t code, struct problem_context *pctx)
{
	int k;
	(void) ctx; (void) pctx;
	vf_nprob++;
	for (k = 0; k < VF_NCODES; k++)
		if (vf_codes[k] == code)
			vf_raised[k]++;
	return 1;
}
/* STUB: clear_problem_context() as in problem.c */
void clear_problem_context(struct problem_context *pctx)
{
	static struct problem_context z;
	*pctx = z;
	pctx->blkcount = -1;
	pctx->group = -1;
}
/* STUB: e2fsck_read_inode() delivers the 128 bytes currently on the "disk" (initially all symbolic) */
void e2fsck_read_inode(e2fsck_t ctx, unsigned long ino, struct ext2_inode *inode, const char *proc)
{
	int i;
	(void) ctx; (void) ino; (void) proc;
	for (i = 0; i < 128; i++)
		((unsigned char *) inode)[i] = vf_disk[i];
	vf_nread++;
}
/* STUB: e2fsck_write_inode() stores the 128 bytes it is handed to the "disk" and counts */
void e2fsck_write_inode(e2fsck_t ctx, unsigned long ino, struct ext2_inode *inode, const char *proc)
{
	int i;
	(void) ctx; (void) proc;
	for (i = 0; i < 128; i++)
		vf_disk[i] = ((unsigned char *) inode)[i];
	vf_write_ok = ino == IN.inum;
	if (vf_ndealloc)
		vf_write_after_dealloc = 1;
	vf_nwrite++;
}
/* STUB: pass 1's device-inode and symlink sub-checks answer with a symbolic verdict, the same in both runs */
/* ASSUME: the verdict of e2fsck_pass1_check_device_inode / _check_symlink does not depend on the fields repaired here (their own idempotence is outside) */
int e2fsck_pass1_check_device_inode(ext2_filsys fs, struct ext2_inode *inode)
{ (void) fs; (void) inode; return IN.dev_ok & 1; }
int e2fsck_pass1_check_symlink(ext2_filsys fs, ext2_ino_t ino, struct ext2_inode *inode, char *buf)
{ (void) fs; (void) ino; (void) inode; (void) buf; return IN.symlink_ok & 1; }
/* STUB: deallocate_inode() is cut (releases blocks and clears the inode; not decided here): records the call */
static void deallocate_inode(e2fsck_t ctx, ext2_ino_t ino, char *block_buf)
{
	(void) block_buf;
	vf_ndealloc++;
	vf_dealloc_ok = ctx == &vf_ctx && ino == IN.inum;
}
/* STUB: ext2fs_unmark_generic_bmap() records the un-marking of the inode in the bad-inode map */
int ext2fs_unmark_generic_bmap(ext2fs_generic_bitmap bmap, __u64 arg)
{
	vf_nunmark++;
	vf_unmark_ok = ((void *) bmap == (void *) &vf_badmap) && arg == IN.inum;
	return 1;
}
/* STUB: fatal_error() ends the path */
void fatal_error(e2fsck_t ctx, const char *msg) { (void) ctx; (void) msg; __CPROVER_assume(0); }
#ifndef VF_REPLAY
char *gettext(const char *s) { return (char *) s; }
#endif

static unsigned int ref_le16(const unsigned char *b, int o) { return b[o] | (b[o + 1] << 8); }
static unsigned long long ref_le32(const unsigned char *b, int o)
{
	return (unsigned long long) b[o] | ((unsigned long long) b[o + 1] << 8) |
	       ((unsigned long long) b[o + 2] << 16) | ((unsigned long long) b[o + 3] << 24);
}
/* number of format predicates an inode image (not a deallocation candidate) violates: 0 <=> the next run has nothing to say */
static int ref_dirty(const unsigned char *b)
{
	int xattr = (IN.feature_compat & 0x0008) != 0;		/* COMPAT_EXT_ATTR */
	int is64 = (IN.feature_incompat & 0x0080) != 0;		/* INCOMPAT_64BIT */
	int largedir = (IN.feature_incompat & 0x4000) != 0;	/* INCOMPAT_LARGEDIR */
	int huge = (IN.feature_ro_compat & 0x0008) != 0;	/* RO_COMPAT_HUGE_FILE */
	unsigned int os = IN.creator_os;
	unsigned long long acl_high = ref_le16(b, 118);
	unsigned long long acl = ref_le32(b, 104) | (is64 ? acl_high << 32 : 0);
	unsigned long long blocks = IN.blocks_count | (is64 ? (unsigned long long) IN.blocks_count_hi << 32 : 0);
	int n = 0;

	n += acl != 0 && !xattr;
	n += acl != 0 && (acl < IN.first_data_block || acl >= blocks);
	n += ref_le32(b, 112) != 0;
	n += os == 1 && b[116] != 0;
	n += os == 1 && b[117] != 0;
	n += os == 0 && !huge && ref_le16(b, 116) != 0;
	n += os == 0 && !is64 && acl_high != 0;
	n += (ref_le16(b, 0) & 0xF000) == 0x4000 && ref_le32(b, 108) != 0 && !largedir &&
	     ref_le32(b, 28) < (1ULL << (29 - (10 + IN.log_block_size)));
	return n;
}

int main(void)
{
	int r, k, i, is64, nfield, dealloc_kind, named[128];
	unsigned int type;

	VF_INPUT(IN);
	/* ASSUME: block size 1 KiB .. 64 KiB (s_log_block_size <= 6, checked by ext2fs_open) */
	ASSUME(IN.log_block_size <= 6);
	vf_fs.super = &vf_sb;
	vf_fs.blocksize = 1024;
	vf_sb.s_feature_compat = IN.feature_compat;
	vf_sb.s_feature_incompat = IN.feature_incompat;
	vf_sb.s_feature_ro_compat = IN.feature_ro_compat;
	vf_sb.s_creator_os = IN.creator_os;
	vf_sb.s_first_data_block = IN.first_data_block;
	vf_sb.s_blocks_count = IN.blocks_count;
	vf_sb.s_blocks_count_hi = IN.blocks_count_hi;
	vf_sb.s_log_block_size = IN.log_block_size;
	vf_ctx.fs = &vf_fs;
	vf_ctx.inode_bad_map = (ext2fs_inode_bitmap) &vf_badmap;
	for (i = 0; i < 128; i++)
		vf_disk[i] = IN.ino[i];

	/* ---- first run: e2fsck -y ---- */
	r = e2fsck_process_bad_inode(&vf_ctx, IN.dir, IN.inum, (char *) 0);

	is64 = (IN.feature_incompat & 0x0080) != 0;
	type = ref_le16(IN.ino, 0) & 0xF000;
	dealloc_kind = vf_raised[1] + vf_raised[2] + vf_raised[3] + vf_raised[4] + vf_raised[5] + vf_raised[6];
	nfield = vf_raised[0] + vf_raised[7] + vf_raised[8] + vf_raised[9] + vf_raised[10] + vf_raised[11] + vf_raised[12] + vf_raised[13];
	PROP(vf_nprob == dealloc_kind + nfield, "only the fourteen bad-inode problems are raised");
	PROP(vf_nread == 1, "the inode is read once");

	if (dealloc_kind) {
		/* unknown type / rejected device, fifo, socket, symlink: the inode goes away */
		PROP(dealloc_kind == 1 && vf_ndealloc == 1 && vf_dealloc_ok, "a bad mode / device / symlink inode answered yes is deallocated once, the right inode");
		PROP(r == 1, "the directory entry of a deallocated inode is dropped (return 1)");
		PROP(vf_nwrite == 0 && !vf_write_after_dealloc, "no stale in-memory copy is written over a deallocated inode");
		for (i = 0; i < 128; i++)
			PROP(vf_disk[i] == IN.ino[i], "process_bad_inode itself leaves the image of a deallocated inode to deallocate_inode");
		VF_END();
		return 0;
	}
	PROP(vf_ndealloc == 0 && r == 0, "an inode of a valid, accepted type is kept");
	if (type == 0x8000 || type == 0x4000)
		PROP(dealloc_kind == 0, "regular files and directories are never deallocated here");

	/* which bytes the raised problems name */
	for (i = 0; i < 128; i++)
		named[i] = 0;
	if (vf_raised[0] || vf_raised[12]) {
		named[104] = named[105] = named[106] = named[107] = 1;
		if (is64)
			named[118] = named[119] = 1;
	}
	if (vf_raised[13])
		named[108] = named[109] = named[110] = named[111] = 1;
	if (vf_raised[7])
		named[112] = named[113] = named[114] = named[115] = 1;
	if (vf_raised[8])
		named[116] = 1;
	if (vf_raised[9])
		named[117] = 1;
	if (vf_raised[10])
		named[116] = named[117] = 1;
	if (vf_raised[11])
		named[118] = named[119] = 1;

	if (nfield) {
		PROP(vf_nwrite == 1, "a repair answered yes is written: e2fsck_write_inode is called exactly once");
		PROP(vf_write_ok, "the repaired inode is written under its own number");
	} else
		PROP(vf_nwrite == 0, "a clean inode is not written");
	for (i = 0; i < 128; i++) {
		if (named[i])
			PROP(vf_disk[i] == 0, "every byte of a field named by a raised problem is zero in the written image");
		else
			PROP(vf_disk[i] == IN.ino[i], "bytes of fields no raised problem names are unchanged");
	}
	PROP(ref_dirty(vf_disk) == 0, "the image on disk after the run violates none of the format predicates");
	if (ref_dirty(IN.ino))
		PROP(nfield > 0, "a violated format predicate is raised (and hence repaired)");
	PROP(vf_nunmark == 1 && vf_unmark_ok, "a fully repaired (or clean) inode is taken off the bad-inode map");

	/* ---- second run of the real function on what the first one left on disk ---- */
	vf_nprob = vf_nwrite = vf_nunmark = vf_nread = 0;
	r = e2fsck_process_bad_inode(&vf_ctx, IN.dir, IN.inum, (char *) 0);
	PROP(vf_nprob == 0, "second run: no problem is raised on the repaired image");
	PROP(vf_nwrite == 0 && vf_ndealloc == 0 && r == 0, "second run: nothing is written or deallocated");
	PROP(vf_nunmark == 1, "second run: the inode is clean");
	VF_END();
	return 0;
}
