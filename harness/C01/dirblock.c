/*
 * C01/dirblock: repair idempotence of the directory-block kernels of pass 2.
 *
 * One symbolic directory block of BLK bytes is run through the entry loop of
 * check_dir_block() with every question answered yes (e2fsck -y):
 *   the caller's validity test of a dirent (restated here from the on-disk format:
 *   rec_len >= 12, multiple of 4, inside the block, name fits),
 *   the REAL salvage_directory() when it fails, the REAL check_dot() on the first and
 *   the REAL check_dotdot() on the second entry, the "link to '.'" test on the others,
 *   and the final-rec_len fix-up.
 * Then the same loop is run a second time on the repaired block with a recording
 * fix_problem: it must raise NOTHING and must not modify the block (a repaired block
 * checks clean: one run is enough).  Termination of the salvage loop within the
 * stated number of iterations is an unwinding assertion.
 */
#include "e2fsck/pass2.c"

#ifndef BLK
#define BLK 36
#endif
#ifdef TAIL
#define VF_FSBLK (BLK + 12)	/* metadata_csum: the last 12 bytes are the checksum tail, max_block_size = blocksize - 12 */
#else
#define VF_FSBLK BLK
#endif
#define VF_ITER (BLK / 4 + BLK / 8 + 2)

struct vf_in {
	unsigned char buf[BLK];
	__u32 ino;
	__u32 inodes_count;
	__u32 feature_incompat;
};
VF_DECLARE_INPUT(struct vf_in, IN)
#include "vf_input.inc"

static struct e2fsck_struct vf_ctx;
static struct struct_ext2_filsys vf_fs;
static struct ext2_super_block vf_sb;
static unsigned char vf_buf[VF_FSBLK + 8] __attribute__((aligned(8)));
static int vf_nprob;
static problem_t vf_last;

/* STUB: fix_problem() records the code and answers yes (the -y protocol is decided in C01/fixproblem) */
int fix_problem(e2fsck_t ctx, problem_t code, struct problem_context *pctx)
{
	(void) ctx; (void) pctx;
	vf_nprob++;
	vf_last = code;
	return 1;
}
/* STUB: e2fsck_dir_info_set_dotdot() succeeds (dir_info database is outside) */
int e2fsck_dir_info_set_dotdot(e2fsck_t ctx, ext2_ino_t ino, ext2_ino_t dotdot)
{ (void) ctx; (void) ino; (void) dotdot; return 0; }

#ifndef VF_REPLAY
/* STUB: strnlen() (CBMC has no model): byte loop */
size_t strnlen(const char *s, size_t n)
{
	size_t i;
	for (i = 0; i < n && i < 256; i++)
		if (!s[i])
			return i;
	return n;
}
#endif

/* the on-disk format's rule for one directory entry at offset off of a block of max bytes */
static int ref_dirent_bad(unsigned int off, unsigned int max, unsigned int rec_len, unsigned int name_len)
{
	if (rec_len < 12 || (rec_len & 3))
		return 1;
	if (off + rec_len > max)
		return 1;
	if (8 + name_len > rec_len)	/* header + name; rounding to 4 is implied by rec_len % 4 == 0 */
		return 1;
	return 0;
}

/* the entry loop of check_dir_block() (pass2.c), non-inline, non-htree, not encrypted/casefolded */
static void vf_pass(ext2_ino_t ino)
{
	unsigned int offset = 0, rec_len = 0, max = BLK;
	int dot_state = 0, dir_modified = 0, it;
	struct ext2_dir_entry *dirent = 0, *prev = 0;
	struct problem_context pctx;
	char *buf = (char *) vf_buf;

	memset(&pctx, 0, sizeof(pctx)); pctx.blkcount = -1; pctx.group = -1;
	/* BOUND: at most VF_ITER iterations of the entry loop (unwinding assertion: it terminates within that) */
	for (it = 0; ; it++) {
		dirent = (struct ext2_dir_entry *) (buf + offset);
		if (max - offset < EXT2_DIR_ENTRY_HEADER_LEN)
			rec_len = 12;
		else
			(void) ext2fs_get_rec_len(&vf_fs, dirent, &rec_len);
		if (ref_dirent_bad(offset, max, rec_len, ext2fs_dirent_name_len(dirent))) {
			fix_problem(&vf_ctx, PR_2_DIR_CORRUPTED, &pctx);
			salvage_directory(&vf_fs, dirent, prev, &offset, max, 0);
			dir_modified++;
			goto cont;
		}
		if (dot_state == 0) {
			if (check_dot(&vf_ctx, dirent, ino, &pctx))
				dir_modified++;
		} else if (dot_state == 1) {
			if (check_dotdot(&vf_ctx, dirent, ino, &pctx))
				dir_modified++;
		} else if (dirent->inode == ino) {
			if (fix_problem(&vf_ctx, PR_2_LINK_DOT, &pctx)) {
				dirent->inode = 0;
				dir_modified++;
			}
		}
		prev = dirent;
		if (dir_modified)
			(void) ext2fs_get_rec_len(&vf_fs, dirent, &rec_len);
		offset += rec_len;
		dot_state++;
cont:
		if (!(offset < max))
			break;
	}
	if (offset != max) {
		pctx.num = rec_len + offset - max;
		if (fix_problem(&vf_ctx, PR_2_FINAL_RECLEN, &pctx)) {
			dirent->rec_len = pctx.num;
			dir_modified++;
		}
	}
}

int main(void)
{
	int i;
	unsigned char after1[BLK];

	VF_INPUT(IN);
	vf_fs.super = &vf_sb;
	vf_fs.blocksize = VF_FSBLK;
	vf_sb.s_inodes_count = IN.inodes_count;
	vf_sb.s_feature_incompat = IN.feature_incompat;
	vf_ctx.fs = &vf_fs;
	/* ASSUME: the directory's inode number is a legal one (pass 1 only queues blocks of in-range inodes) */
	ASSUME(IN.ino >= 2 && IN.ino <= IN.inodes_count);
	for (i = 0; i < BLK; i++)
		vf_buf[i] = IN.buf[i];

	vf_nprob = 0;
	vf_pass(IN.ino);
	for (i = 0; i < BLK; i++)
		after1[i] = vf_buf[i];

	vf_nprob = 0;
	vf_pass(IN.ino);
	PROP(vf_nprob == 0, "second run over the repaired directory block raises no problem");
	for (i = 0; i < BLK; i++)
		PROP(after1[i] == vf_buf[i], "second run does not modify the repaired block");
	VF_END();
	return 0;
}
