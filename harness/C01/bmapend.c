/*
 * C01/bmapend: repair idempotence AND persistence of the pass-5 bitmap padding repair:
 * the REAL check_block_end() (KIND 1) and check_inode_end() (KIND 0) of pass5.c.
 *
 * The bitmap API (fudge end, test, mark, start) is a small set model; the bitmap content,
 * the position of the bitmap's logical end inside the last group(s) and fs->flags (including the
 * *_TAIL_PROBLEM flag the loader sets) are symbolic.
 *  ANSWER 1 (yes): afterwards every padding bit behind the logical end is set, the bits up to the
 *     end and the end itself are untouched, and whenever a problem was raised the dirty flag of
 *     THAT bitmap (BB for blocks, IB for inodes) is set, so the flush writes it.  Then the
 *     flush + reload is modelled (the TAIL_PROBLEM flag is cleared iff that bitmap was dirty: the
 *     writer always pads correctly) and the kernel is run again: it raises nothing.
 *  ANSWER 0 (no): no bit changes, nothing is dirtied, the fs is un-marked valid iff a problem
 *     was raised.
 */
#include "e2fsck/pass5.c"

#define PERGROUP 8
#define NGROUPS 2
#define NPOS 20		/* positions 0 .. 19 cover start (0/1) + 16 */

struct vf_in {
	unsigned char bit[NPOS];
	unsigned int flags;
	unsigned int endpos;		/* logical end of the bitmap */
	unsigned char first_data_block;
};
VF_DECLARE_INPUT(struct vf_in, IN)
#include "vf_input.inc"

static struct e2fsck_struct vf_ctx;
static struct struct_ext2_filsys vf_fs;
static struct ext2_super_block vf_sb;
static struct { __u64 start, end, real_end; unsigned char bit[NPOS]; } vf_bm;
static int vf_nprob, vf_range_err;

/* STUB: fix_problem() records and answers ANSWER */
int fix_problem(e2fsck_t ctx, problem_t code, struct problem_context *pctx)
{ (void) ctx; (void) pctx; (void) code; vf_nprob++; return ANSWER; }
/* STUB: clear_problem_context() as in problem.c */
void clear_problem_context(struct problem_context *p) { memset(p, 0, sizeof(*p)); p->blkcount = -1; p->group = -1; }

/* STUB: bitmap API = set model: fudge end swaps the logical end (error beyond real_end), test/mark inside [start, end] */
static errcode_t vf_fudge(__u64 end, __u64 *old)
{
	if (end > vf_bm.real_end)
		return EXT2_ET_FUDGE_BLOCK_BITMAP_END;
	if (old)
		*old = vf_bm.end;
	vf_bm.end = end;
	return 0;
}
errcode_t ext2fs_fudge_block_bitmap_end2(ext2fs_block_bitmap b, blk64_t end, blk64_t *oend)
{ (void) b; return vf_fudge(end, oend); }
errcode_t ext2fs_fudge_inode_bitmap_end(ext2fs_inode_bitmap b, ext2_ino_t end, ext2_ino_t *oend)
{ __u64 o = 0; errcode_t r; (void) b; r = vf_fudge(end, &o); if (oend) *oend = (ext2_ino_t) o; return r; }
__u64 ext2fs_get_generic_bmap_start(ext2fs_generic_bitmap b) { (void) b; return vf_bm.start; }
static int vf_test(__u64 a)
{
	int i, r = 0;
	if (a < vf_bm.start || a > vf_bm.end) { vf_range_err = 1; return 0; }
	for (i = 0; i < NPOS; i++)
		if ((__u64) i == a)
			r = vf_bm.bit[i];
	return r;
}
static int vf_mark(__u64 a)
{
	int i, r = 0;
	if (a < vf_bm.start || a > vf_bm.end) { vf_range_err = 1; return 0; }
	for (i = 0; i < NPOS; i++)
		if ((__u64) i == a) {
			r = vf_bm.bit[i];
			vf_bm.bit[i] = 1;
		}
	return r;
}
int ext2fs_test_generic_bmap(ext2fs_generic_bitmap b, __u64 a) { (void) b; return vf_test(a); }
int ext2fs_mark_generic_bmap(ext2fs_generic_bitmap b, __u64 a) { (void) b; return vf_mark(a); }
int ext2fs_test_generic_bitmap(ext2fs_generic_bitmap b, blk_t a) { (void) b; return vf_test(a); }
int ext2fs_mark_generic_bitmap(ext2fs_generic_bitmap b, blk_t a) { (void) b; return vf_mark(a); }

#if KIND == 1
#define VF_DIRTY EXT2_FLAG_BB_DIRTY
#define VF_OTHER EXT2_FLAG_IB_DIRTY
#define VF_TAIL  EXT2_FLAG_BBITMAP_TAIL_PROBLEM
#define VF_KERNEL() check_block_end(&vf_ctx)
#else
#define VF_DIRTY EXT2_FLAG_IB_DIRTY
#define VF_OTHER EXT2_FLAG_BB_DIRTY
#define VF_TAIL  EXT2_FLAG_IBITMAP_TAIL_PROBLEM
#define VF_KERNEL() check_inode_end(&vf_ctx)
#endif

int main(void)
{
	static char dummy_map;
	int i, n1;
	unsigned int f1;

	VF_INPUT(IN);
	vf_fs.super = &vf_sb;
	vf_ctx.fs = &vf_fs;
	vf_fs.group_desc_count = NGROUPS;
	vf_sb.s_inodes_per_group = PERGROUP;
	vf_sb.s_clusters_per_group = PERGROUP;
	vf_sb.s_blocks_per_group = PERGROUP;
	vf_fs.block_map = (ext2fs_block_bitmap) &dummy_map;
	vf_fs.inode_map = (ext2fs_inode_bitmap) &dummy_map;
#if KIND == 1
	ASSUME(IN.first_data_block <= 1);
	vf_bm.start = IN.first_data_block;
#else
	vf_bm.start = 1;		/* inode numbers start at 1 */
#endif
	vf_bm.real_end = vf_bm.start + PERGROUP * NGROUPS - 1;
	/* BOUND: 2 groups of 8 positions; the logical end lies anywhere in the last group (or is the real end) */
	ASSUME(IN.endpos >= vf_bm.start + PERGROUP && IN.endpos <= vf_bm.real_end);
	vf_bm.end = IN.endpos;
	for (i = 0; i < NPOS; i++) {
		ASSUME(IN.bit[i] <= 1);
		vf_bm.bit[i] = IN.bit[i];
	}
	/* ASSUME: the run starts with clean dirty flags for the bitmaps (pass 5 marks them itself) */
	vf_fs.flags = IN.flags & ~(EXT2_FLAG_BB_DIRTY | EXT2_FLAG_IB_DIRTY);
	f1 = vf_fs.flags;

	VF_KERNEL();
	n1 = vf_nprob;

	PROP(!vf_range_err, "no bitmap access outside [start, fudged end]");
	PROP(vf_bm.end == IN.endpos, "the bitmap's logical end is restored");
	for (i = 0; i < NPOS; i++)
		if ((__u64) i <= IN.endpos || (__u64) i > vf_bm.real_end)
			PROP(vf_bm.bit[i] == IN.bit[i], "bits up to the logical end are untouched");
#if ANSWER == 1
	for (i = 0; i < NPOS; i++)
		if ((__u64) i > IN.endpos && (__u64) i <= vf_bm.real_end)
			PROP(vf_bm.bit[i] == 1, "after the repair every padding bit is set");
	if (n1)
		PROP(vf_fs.flags & VF_DIRTY, "a repaired bitmap is marked dirty (its own dirty flag), so the flush writes it");
	else
		PROP(!(vf_fs.flags & (VF_DIRTY | VF_OTHER)), "no problem: nothing dirtied");
	PROP(((vf_fs.flags ^ f1) & ~(EXT2_FLAG_BB_DIRTY | EXT2_FLAG_IB_DIRTY | EXT2_FLAG_CHANGED)) == 0, "no other fs flag changes");
	/* flush + reload: the writer pads correctly, so the loader's TAIL_PROBLEM flag goes away iff this bitmap was written */
	if (vf_fs.flags & VF_DIRTY)
		vf_fs.flags &= ~VF_TAIL;
	vf_fs.flags &= ~(EXT2_FLAG_BB_DIRTY | EXT2_FLAG_IB_DIRTY);
	vf_nprob = 0;
	VF_KERNEL();
	PROP(vf_nprob == 0, "second run (after flush and reload) raises no problem");
	PROP(!(vf_fs.flags & (EXT2_FLAG_BB_DIRTY | EXT2_FLAG_IB_DIRTY)), "second run dirties nothing");
#else
	for (i = 0; i < NPOS; i++)
		PROP(vf_bm.bit[i] == IN.bit[i], "answer no: no bit changes");
	PROP(!(vf_fs.flags & (EXT2_FLAG_BB_DIRTY | EXT2_FLAG_IB_DIRTY)), "answer no: nothing is dirtied");
	PROP(((vf_fs.flags ^ f1) & ~EXT2_FLAG_VALID) == 0 && (!n1 || !(vf_fs.flags & EXT2_FLAG_VALID)),
	     "answer no: only EXT2_FLAG_VALID is cleared, and it is cleared when a problem was raised");
#endif
	VF_END();
	return 0;
}
