/*
 * C01/names: repair idempotence of check_name() and check_filetype() (pass2.c), the
 * per-entry repair kernels for the name bytes and the file-type byte of a dirent.
 *
 * The entry (inode, name_len, file type, name bytes) is symbolic, the target inode's
 * mode and its membership in the pass-1 maps are symbolic.  Every question is answered
 * yes.  After the repair: running the kernel again raises no problem, returns 0 and
 * changes nothing; independently, the name contains no '/' or NUL and the type byte
 * equals the type the on-disk format assigns to the inode's mode (0 when the inode is
 * in the bad-inode map or the filesystem has no filetype feature).
 */
#include "e2fsck/pass2.c"

#define NAMEMAX 12
struct vf_in {
	__u32 inode;
	__u8 name_len, file_type;
	char name[NAMEMAX];
	__u16 mode;
	unsigned char in_dir, in_reg, in_bad, have_bad;
	__u32 feature_incompat;
};
VF_DECLARE_INPUT(struct vf_in, IN)
#include "vf_input.inc"

static struct e2fsck_struct vf_ctx;
static struct struct_ext2_filsys vf_fs;
static struct ext2_super_block vf_sb;
static unsigned char vf_ent[8 + NAMEMAX + 4] __attribute__((aligned(8)));
static int vf_nprob;
static char vf_dirmap, vf_regmap, vf_badmap;	/* only their addresses are used */

/* STUB: fix_problem() records and answers yes */
int fix_problem(e2fsck_t ctx, problem_t code, struct problem_context *pctx)
{ (void) ctx; (void) pctx; (void) code; vf_nprob++; return 1; }
/* STUB: ext2fs_test_generic_bmap(): membership of the dirent's inode in the three pass-1 maps is a symbolic input */
int ext2fs_test_generic_bmap(ext2fs_generic_bitmap bmap, __u64 arg)
{
	(void) arg;
	if ((void *) bmap == (void *) &vf_dirmap) return IN.in_dir & 1;
	if ((void *) bmap == (void *) &vf_regmap) return IN.in_reg & 1;
	return IN.in_bad & 1;
}
/* STUB: ext2fs_read_inode() (called by the real e2fsck_read_inode of util.c) succeeds with an inode whose mode is the symbolic IN.mode */
errcode_t ext2fs_read_inode(ext2_filsys fs, ext2_ino_t ino, struct ext2_inode *inode)
{
	static struct ext2_inode z;
	(void) fs; (void) ino;
	*inode = z;
	inode->i_mode = IN.mode;
	return 0;
}
#if KERNEL == 1
#include "env.c"
#ifndef VF_REPLAY
/* STUB: gettext() returns its argument */
char *gettext(const char *s) { return (char *) s; }
#endif
#endif

/* Documentation/filesystems/ext4: file type code of a dirent for an inode mode */
static int ref_ftype(unsigned int mode)
{
	switch (mode & 0170000) {
	case 0100000: return 1;	/* regular */
	case 0040000: return 2;	/* directory */
	case 0020000: return 3;	/* char dev */
	case 0060000: return 4;	/* block dev */
	case 0010000: return 5;	/* fifo */
	case 0140000: return 6;	/* socket */
	case 0120000: return 7;	/* symlink */
	}
	return 0;
}

int main(void)
{
	struct ext2_dir_entry *d = (struct ext2_dir_entry *) vf_ent;
	struct problem_context pctx;
	unsigned char after1[sizeof(vf_ent)];
	int i, r1, r2, want;

	VF_INPUT(IN);
	memset(&pctx, 0, sizeof(pctx));
	vf_fs.super = &vf_sb;
	vf_sb.s_feature_incompat = IN.feature_incompat;
	vf_ctx.fs = &vf_fs;
	vf_ctx.inode_dir_map = (ext2fs_inode_bitmap) &vf_dirmap;
	vf_ctx.inode_reg_map = (ext2fs_inode_bitmap) &vf_regmap;
	vf_ctx.inode_bad_map = (IN.have_bad & 1) ? (ext2fs_inode_bitmap) &vf_badmap : 0;
	/* BOUND: names of at most 12 bytes */
	ASSUME(IN.name_len <= NAMEMAX);
	d->inode = IN.inode;
	d->rec_len = 8 + NAMEMAX;
	d->name_len = IN.name_len | (IN.file_type << 8);
	for (i = 0; i < NAMEMAX; i++)
		d->name[i] = IN.name[i];

#if KERNEL == 0
	r1 = check_name(&vf_ctx, d, &pctx);
#else
	r1 = check_filetype(&vf_ctx, d, 2, &pctx);
#endif
	PROP(r1 == (vf_nprob != 0), "the kernel reports 'modified' exactly when it raised a problem");
#if KERNEL == 0
	for (i = 0; i < NAMEMAX; i++)
		if (i < IN.name_len)
			PROP(d->name[i] != '/' && d->name[i] != 0, "repaired name has no '/' and no NUL");
	PROP(d->name_len == (IN.name_len | (IN.file_type << 8)) && d->inode == IN.inode, "check_name only touches name bytes");
#else
	if (!(IN.feature_incompat & 0x0002))
		want = 0;
	else if (IN.in_dir & 1)
		want = 2;
	else if (IN.in_reg & 1)
		want = 1;
	else if ((IN.have_bad & 1) && (IN.in_bad & 1))
		want = 0;
	else
		want = ref_ftype(IN.mode);
	PROP((d->name_len >> 8) == want, "repaired file type equals the format's type of the inode");
	PROP((d->name_len & 0xff) == IN.name_len && d->inode == IN.inode, "check_filetype only touches the type byte");
#endif
	for (i = 0; i < (int) sizeof(vf_ent); i++)
		after1[i] = vf_ent[i];
	vf_nprob = 0;
#if KERNEL == 0
	r2 = check_name(&vf_ctx, d, &pctx);
#else
	r2 = check_filetype(&vf_ctx, d, 2, &pctx);
#endif
	PROP(vf_nprob == 0 && r2 == 0, "second run on the repaired entry raises no problem");
	for (i = 0; i < (int) sizeof(vf_ent); i++)
		PROP(after1[i] == vf_ent[i], "second run does not modify the entry");
	VF_END();
	return 0;
}
