/*
 * C01/salvage: one inductive step of the salvage loop of check_dir_block() (pass2.c).
 *
 * Loop invariant Inv(offset, prev): the entries before `offset` tile [0, offset), `prev`
 * is the last of them (prev + prev->rec_len == offset) and is valid by the format rule.
 * From EVERY block content and every (offset, prev) satisfying Inv with an invalid
 * entry at `offset`, one call of the REAL salvage_directory() either
 *   (a) advances offset, leaves prev valid with prev + prev->rec_len == the new offset
 *       (clipped to the block), and touches nothing but prev->rec_len, or
 *   (b) keeps offset and makes the entry there valid, or
 *   (c) keeps offset and strictly decreases the number of non-zero bytes behind it
 *       (the 8-byte-entry squeeze), touching nothing before offset.
 * Hence the loop terminates and what it leaves behind is a chain of entries that are
 * all valid: a second e2fsck run raises no PR_2_DIR_CORRUPTED on the repaired block.
 */
#include "e2fsck/pass2.c"

#ifndef BLK
#define BLK 32
#endif
#ifdef TAIL
#define VF_FSBLK (BLK + 12)	/* metadata_csum: max_block_size = blocksize - 12 */
#else
#define VF_FSBLK BLK
#endif

struct vf_in {
	unsigned char buf[BLK];
	unsigned int offset, prevoff;
	unsigned char have_prev;
	__u32 inodes_count;
};
VF_DECLARE_INPUT(struct vf_in, IN)
#include "vf_input.inc"

static struct struct_ext2_filsys vf_fs;
static struct ext2_super_block vf_sb;
static unsigned char vf_buf[VF_FSBLK + 8] __attribute__((aligned(8)));

#ifndef VF_REPLAY
/* STUB: strnlen() (CBMC has no model): byte loop */
size_t strnlen(const char *s, size_t n)
{
	size_t i;
	for (i = 0; i < n && i < 256; i++)
		if (!s[i])
			return i;
	return n;
}
#endif

static unsigned int ref_reclen(const unsigned char *b, unsigned int off)
{
	unsigned int i, v = 0;
	for (i = 0; i + 8 <= BLK; i += 4)
		if (i == off)
			v = b[i + 4] | (b[i + 5] << 8);
	return v;
}
static unsigned int ref_namelen(const unsigned char *b, unsigned int off)
{
	unsigned int i, v = 0;
	for (i = 0; i + 8 <= BLK; i += 4)
		if (i == off)
			v = b[i + 6];
	return v;
}
/* the on-disk format's rule for one directory entry at offset off */
static int ref_dirent_ok(const unsigned char *b, unsigned int off)
{
	unsigned int rec_len, name_len;
	if (BLK - off < 8)
		return 0;
	rec_len = ref_reclen(b, off);
	name_len = ref_namelen(b, off);
	return rec_len >= 12 && !(rec_len & 3) && off + rec_len <= BLK && 8 + name_len <= rec_len;
}
static int ref_nonzero(const unsigned char *b, unsigned int from)
{
	int i, n = 0;
	for (i = 0; i < BLK; i++)
		if ((unsigned) i >= from && b[i])
			n++;
	return n;
}

int main(void)
{
	unsigned int offset, i;
	struct ext2_dir_entry *prev = 0;
	int m0, m1;

	VF_INPUT(IN);
	vf_fs.super = &vf_sb;
	vf_fs.blocksize = VF_FSBLK;
	vf_sb.s_inodes_count = IN.inodes_count;
	for (i = 0; i < BLK; i++)
		vf_buf[i] = IN.buf[i];
	offset = IN.offset;
	/* ASSUME: offsets are multiples of 4 inside the block (they are sums of rec_len values that passed the % 4 test) */
	ASSUME(offset < BLK && !(offset & 3));
	/* ASSUME: Inv: prev is NULL exactly at offset 0; otherwise prev is valid and ends at offset */
	if (offset == 0) {
		ASSUME(!IN.have_prev);
	} else {
		ASSUME(IN.have_prev == 1);
		ASSUME(IN.prevoff < offset && !(IN.prevoff & 3));
		ASSUME(ref_dirent_ok(IN.buf, IN.prevoff));
		ASSUME(IN.prevoff + ref_reclen(IN.buf, IN.prevoff) == offset);
		prev = (struct ext2_dir_entry *) (vf_buf + IN.prevoff);
	}
	/* ASSUME: salvage_directory() is only called on an entry that failed the caller's validity test */
	ASSUME(!ref_dirent_ok(IN.buf, offset));
	m0 = ref_nonzero(IN.buf, offset);

	salvage_directory(&vf_fs, (struct ext2_dir_entry *) (vf_buf + offset), prev, &offset, BLK, 0);

	PROP(offset >= IN.offset, "salvage never moves backwards");
	if (offset > IN.offset) {
		unsigned int end;
		PROP(IN.have_prev, "offset only advances by absorbing into a previous entry");
		PROP(offset <= BLK || offset == VF_FSBLK, "new offset is inside the block or the block size");
		PROP(!(offset & 3), "new offset is a multiple of 4");
		end = offset <= BLK ? offset : BLK;
		PROP(ref_dirent_ok(vf_buf, IN.prevoff) && IN.prevoff + ref_reclen(vf_buf, IN.prevoff) == end,
		     "the absorbing entry stays valid and ends exactly at the new offset");
		for (i = 0; i < BLK; i++)
			if (!(IN.have_prev && (i == IN.prevoff + 4 || i == IN.prevoff + 5)))
				PROP(vf_buf[i] == IN.buf[i], "absorbing changes nothing but prev->rec_len");
	} else {
		m1 = ref_nonzero(vf_buf, offset);
		PROP(ref_dirent_ok(vf_buf, offset) || m1 < m0,
		     "without advancing, the entry becomes valid or the non-zero bytes behind offset strictly decrease");
		for (i = 0; i < BLK; i++)
			if (i < offset)
				PROP(vf_buf[i] == IN.buf[i], "in-place salvage changes nothing before offset");
	}
	for (i = BLK; i < VF_FSBLK + 8; i++)
		PROP(vf_buf[i] == 0, "nothing is written behind max_block_size");
	VF_END();
	return 0;
}
