/*
 * C01/expanddir: a repair made AFTER pass 1 must leave what pass 1 of the next run accepts: the REAL
 * e2fsck_expand_directory() and its block-iterator callback expand_dir_proc() (e2fsck/pass3.c), used
 * when lost+found is full ("No room in lost+found directory.  Expand? yes") and by the pass-3A
 * directory rebuild, with the real ext2fs_iblk_add_blocks() / ext2fs_inode_size_set().
 *
 * Cluster ratio RATIO (1 = no bigalloc, 4 = bigalloc) compile-time, 1 KiB blocks, 8 clusters.
 * The directory is extent-mapped with 1..4 blocks (logical 0..n-1, symbolic physical blocks laid out as
 * bigalloc requires: same logical cluster <=> same physical cluster, same offset inside it);
 * ctx->block_found_map arbitrary outside the directory's clusters; NUM (1 / 2) blocks are requested.
 * ext2fs_block_iterate3(BLOCK_FLAG_APPEND) is a driver stub (mapped blocks, then empty slots while the
 * callback keeps changing them), ext2fs_new_block2() a cluster-model allocator (symbolic choice of a free,
 * cluster-aligned block), block writes and allocation statistics recording stubs.
 *
 * Independent reference: the clusters the directory owns = the distinct clusters of its mapped blocks.
 *   afterwards the mapping gained exactly NUM blocks at the next logical positions, all distinct, inside the
 *   filesystem, aligned as bigalloc requires; each is written exactly once as a fresh empty directory block;
 *   i_size = number of mapped blocks * block size;
 *   i_blocks = (clusters owned afterwards) * cluster size / 512 -- which is what pass 1 of the next run
 *       recomputes from the mapping -- and grew by exactly the NEWLY allocated clusters (a block taken from
 *       a cluster the directory already owns adds nothing);
 *   the quota is charged exactly the same number of bytes; every newly allocated cluster is entered in the
 *   allocation statistics once and marked in block_found_map; no other cluster changes.
 */
#ifndef RATIO
#define RATIO 4
#endif
#ifndef NUM
#define NUM 1
#endif
#if RATIO == 1
#define CBITS 0
#elif RATIO == 4
#define CBITS 2
#endif
#define NC 8			/* clusters */
#define NBLK (NC * RATIO)
#define MAXL 6			/* logical blocks the driver offers */
#define BS 1024
#define DIRINO 11

#include "e2fsck/pass3.c"
#include "env.c"

struct vf_in {
	unsigned char nmapped;
	__u32 phys[4];
	unsigned char cfound[NC];
	__u32 alloc[NUM];
	__u32 size0, flags0;
};
VF_DECLARE_INPUT(struct vf_in, IN)
#include "vf_input.inc"

static struct e2fsck_struct vf_ctx;
static struct struct_ext2_filsys vf_fs;
static struct ext2_super_block vf_sb;
static struct ext2_inode_large vf_inode;
static char vf_foundmap;
static blk64_t vf_map[MAXL];
static unsigned char vf_cfound[NC], vf_cmark[NC], vf_cstats[NC];
static unsigned char vf_wrote_dir[NBLK], vf_zeroed[NBLK];
static int vf_nalloc, vf_bad, vf_overrun, vf_nwrite_inode, vf_nquota, vf_serial, vf_ndirbuf;
static long long vf_quota;

/* STUB: fix_problem() is not reached by this kernel */
int fix_problem(e2fsck_t ctx, problem_t code, struct problem_context *pctx) { (void) ctx; (void) code; (void) pctx; vf_bad++; return 1; }
void e2fsck_read_bitmaps(e2fsck_t ctx) { (void) ctx; }
/* STUB: ext2fs_check_directory() succeeds (the inode is a directory) */
errcode_t ext2fs_check_directory(ext2_filsys fs, ext2_ino_t ino) { (void) fs; if (ino != DIRINO) vf_bad++; return 0; }
/* STUB: ext2fs_block_iterate3(BLOCK_FLAG_APPEND) on an extent-mapped file without index blocks: the mapped blocks in logical order,
 *       then, as block_iterate_extents does, empty slots behind the last block for as long as the callback maps them; BLOCK_ABORT stops */
errcode_t ext2fs_block_iterate3(ext2_filsys fs, ext2_ino_t ino, int flags, char *block_buf,
				int (*func)(ext2_filsys fs, blk64_t *blocknr, e2_blkcnt_t blockcnt, blk64_t ref_blk, int ref_offset, void *priv_data),
				void *priv_data)
{
	int l, r, stop = 0;
	blk64_t b;
	(void) block_buf;
	if (ino != DIRINO || flags != BLOCK_FLAG_APPEND)
		vf_bad++;
	for (l = 0; l < MAXL; l++) {
		if (stop)
			continue;
		b = vf_map[l];
		r = func(fs, &b, l, 0, 0, priv_data);
		if (r & BLOCK_CHANGED)
			vf_map[l] = b;
		else if (b != vf_map[l])
			vf_bad++;
		if ((r & BLOCK_ABORT) || (l >= (int) IN.nmapped && !(r & BLOCK_CHANGED)))
			stop = 1;
	}
	if (!stop)
		vf_overrun = 1;
	return 0;
}
/* STUB: ext2fs_new_block2() = cluster-model allocator: the k-th call returns the symbolic block IN.alloc[k], constrained to what the real
 *       allocator guarantees: inside the filesystem, first block of a cluster that is free in the map it was given; the map is not changed */
errcode_t ext2fs_new_block2(ext2_filsys fs, blk64_t goal, ext2fs_block_bitmap map, blk64_t *ret)
{
	int k, c;
	__u32 b = 0;
	(void) fs;
	if ((void *) map != (void *) &vf_foundmap || (goal & (RATIO - 1)))
		vf_bad++;
	for (k = 0; k < NUM; k++)
		if (k == vf_nalloc)
			b = IN.alloc[k];
	if (vf_nalloc >= NUM)
		vf_bad++;
	vf_nalloc++;
	ASSUME(b < NBLK && (b & (RATIO - 1)) == 0);
	for (c = 0; c < NC; c++)
		if (c == (int) (b >> CBITS))
			ASSUME(!vf_cfound[c]);
	*ret = b;
	return 0;
}
/* STUB: ext2fs_block_alloc_stats2() counts (cluster, +1) */
void ext2fs_block_alloc_stats2(ext2_filsys fs, blk64_t blk, int inuse)
{
	int c;
	(void) fs;
	if (inuse != 1 || blk >= NBLK)
		vf_bad++;
	for (c = 0; c < NC; c++)
		if ((blk64_t) c == (blk >> CBITS))
			vf_cstats[c]++;
}
/* STUB: ext2fs_new_dir_block(fs, 0, 0) hands out a heap buffer tagged "fresh empty directory block" */
errcode_t ext2fs_new_dir_block(ext2_filsys fs, ext2_ino_t dir_ino, ext2_ino_t parent_ino, char **block)
{
	char *p = malloc(16);
	(void) fs;
	if (dir_ino != 0 || parent_ino != 0)
		vf_bad++;
	p[0] = (char) (++vf_serial);
	p[1] = 'D';
	vf_ndirbuf++;
	*block = p;
	return 0;
}
/* STUB: ext2fs_write_dir_block4() records the block written and checks it is the buffer just made, for this directory */
errcode_t ext2fs_write_dir_block4(ext2_filsys fs, blk64_t block, void *buf, int flags, ext2_ino_t ino)
{
	int p;
	(void) fs;
	if (flags != 0 || ino != DIRINO || ((char *) buf)[0] != (char) vf_serial || ((char *) buf)[1] != 'D' || block >= NBLK)
		vf_bad++;
	for (p = 0; p < NBLK; p++)
		if ((blk64_t) p == block)
			vf_wrote_dir[p]++;
	return 0;
}
/* STUB: ext2fs_zero_blocks2() records the blocks zeroed */
errcode_t ext2fs_zero_blocks2(ext2_filsys fs, blk64_t blk, int num, blk64_t *ret_blk, int *ret_count)
{
	int p;
	(void) fs; (void) ret_blk; (void) ret_count;
	if (num != 1 || blk >= NBLK)
		vf_bad++;
	for (p = 0; p < NBLK; p++)
		if ((blk64_t) p == blk)
			vf_zeroed[p]++;
	return 0;
}
/* STUB: block_found_map = one bit per cluster; marking a block marks its cluster (and is counted) */
int ext2fs_mark_generic_bmap(ext2fs_generic_bitmap b, __u64 a)
{
	int c, r = 0;
	if ((void *) b != (void *) &vf_foundmap || a >= NBLK)
		vf_bad++;
	for (c = 0; c < NC; c++)
		if ((__u64) c == (a >> CBITS)) {
			r = vf_cfound[c];
			vf_cfound[c] = 1;
			vf_cmark[c]++;
		}
	return r;
}
/* STUB: inode table of one inode */
errcode_t ext2fs_read_inode_full(ext2_filsys fs, ext2_ino_t ino, struct ext2_inode *inode, int bufsize)
{
	(void) fs;
	if (ino != DIRINO || bufsize != (int) sizeof(struct ext2_inode_large))
		vf_bad++;
	*(struct ext2_inode_large *) inode = vf_inode;
	return 0;
}
void e2fsck_write_inode_full(e2fsck_t ctx, unsigned long ino, struct ext2_inode *inode, int bufsize, const char *proc)
{
	(void) ctx; (void) proc;
	if (ino != DIRINO || bufsize != (int) sizeof(struct ext2_inode_large))
		vf_bad++;
	vf_inode = *(struct ext2_inode_large *) inode;
	vf_nwrite_inode++;
}
/* STUB: quota_data_add() records the bytes charged */
void quota_data_add(quota_ctx_t qctx, struct ext2_inode_large *inode, ext2_ino_t ino, qsize_t space)
{
	(void) qctx; (void) inode;
	if (ino != DIRINO)
		vf_bad++;
	vf_nquota++;
	vf_quota += space;
}

/* independent reference: number of distinct clusters among the mapped blocks */
static int ref_clusters(const blk64_t *map, unsigned char *owned)
{
	int c, l, n = 0;
	for (c = 0; c < NC; c++) {
		owned[c] = 0;
		for (l = 0; l < MAXL; l++)
			if (map[l] != 0 && (map[l] >> CBITS) == (blk64_t) c)
				owned[c] = 1;
		n += owned[c];
	}
	return n;
}

int main(void)
{
	int l, m, c, p, n0, n1, nmap1 = 0;
	unsigned char owned0[NC], owned1[NC];
	blk64_t map0[MAXL];
	errcode_t rc;

	VF_INPUT(IN);
	/* BOUND: directory of 1..4 mapped blocks (block 0 present: pass 2 has repaired holes), NUM more requested, no guaranteed size */
	ASSUME(IN.nmapped >= 1 && IN.nmapped <= 4);
	for (l = 0; l < MAXL; l++) {
		vf_map[l] = 0;
		for (m = 0; m < 4; m++)
			if (m == l && l < (int) IN.nmapped)
				vf_map[l] = IN.phys[m];
		map0[l] = vf_map[l];
	}
	for (l = 0; l < 4; l++)
		if (l < (int) IN.nmapped) {
			/* ASSUME: what pass 1 has accepted: blocks inside the filesystem, not block 0, at the offset in the cluster that bigalloc requires,
			 *         one physical cluster per logical cluster, all distinct */
			ASSUME(IN.phys[l] >= 1 && IN.phys[l] < NBLK);
			ASSUME((IN.phys[l] & (RATIO - 1)) == ((__u32) l & (RATIO - 1)));
			for (m = 0; m < 4; m++)
				if (m < l)
					ASSUME(((l >> CBITS) == (m >> CBITS)) == ((IN.phys[l] >> CBITS) == (IN.phys[m] >> CBITS)));
		}
	n0 = ref_clusters(map0, owned0);
	for (c = 0; c < NC; c++) {
		ASSUME(IN.cfound[c] <= 1);
		/* ASSUME: pass 1 marked the directory's clusters and the cluster holding block 0 (superblock / boot block) in block_found_map */
		ASSUME(!owned0[c] || IN.cfound[c]);
		vf_cfound[c] = IN.cfound[c];
	}
	ASSUME(IN.cfound[0] == 1);
	vf_fs.super = &vf_sb;
	vf_fs.blocksize = BS;
	vf_fs.cluster_ratio_bits = CBITS;
	vf_fs.flags = IN.flags0 | EXT2_FLAG_RW;
	vf_sb.s_log_block_size = 0;
	vf_sb.s_log_cluster_size = CBITS;
	vf_sb.s_blocks_count = NBLK;
	/* BOUND: no huge_file feature (i_blocks in 512-byte units, 32 bits) */
	vf_sb.s_feature_ro_compat = RATIO > 1 ? EXT4_FEATURE_RO_COMPAT_BIGALLOC : 0;
	vf_ctx.fs = &vf_fs;
	vf_ctx.block_found_map = (ext2fs_block_bitmap) &vf_foundmap;
	vf_inode.i_mode = LINUX_S_IFDIR | 0700;
	vf_inode.i_flags = EXT4_EXTENTS_FL;
	vf_inode.i_size = IN.size0;
	/* ASSUME: i_blocks is what pass 1 of THIS run verified: the clusters the mapping occupies, in 512-byte sectors */
	vf_inode.i_blocks = (__u32) n0 * RATIO * (BS / 512);

	rc = e2fsck_expand_directory(&vf_ctx, DIRINO, NUM, 0);

	PROP(rc == 0, "expanding succeeds when the allocator succeeds");
	PROP(vf_bad == 0 && !vf_overrun, "the callees get the directory's own inode / map / buffers, and the iteration ends by itself");
	n1 = ref_clusters(vf_map, owned1);
	for (l = 0; l < MAXL; l++) {
		int want = l < (int) IN.nmapped + NUM;
		nmap1 += vf_map[l] != 0;
		PROP((vf_map[l] != 0) == want, "exactly NUM blocks are appended directly behind the last block");
		if (l < (int) IN.nmapped)
			PROP(vf_map[l] == map0[l], "existing blocks keep their mapping");
		else if (want) {
			PROP(vf_map[l] < NBLK && (vf_map[l] & (RATIO - 1)) == ((blk64_t) l & (RATIO - 1)),
			     "an added block lies in the filesystem at the offset inside its cluster that bigalloc requires");
			for (m = 0; m < MAXL; m++)
				if (m < l) {
					PROP(vf_map[m] != vf_map[l], "no physical block is mapped twice");
					PROP(((l >> CBITS) == (m >> CBITS)) == ((vf_map[l] >> CBITS) == (vf_map[m] >> CBITS)),
					     "one physical cluster per logical cluster (what pass 1 of the next run demands)");
				}
			for (p = 0; p < NBLK; p++)
				if ((blk64_t) p == vf_map[l])
					PROP(vf_wrote_dir[p] == 1 && vf_zeroed[p] == 0, "every added block is written once as a fresh empty directory block");
		}
	}
	for (p = 0; p < NBLK; p++) {
		int added = 0;
		for (l = 0; l < MAXL; l++)
			if (l >= (int) IN.nmapped && vf_map[l] == (blk64_t) p && vf_map[l] != 0)
				added = 1;
		if (!added)
			PROP(vf_wrote_dir[p] == 0 && vf_zeroed[p] == 0, "no other block is written");
	}
	PROP(vf_ndirbuf == NUM, "one directory block image per added block");
	PROP(vf_nwrite_inode == 1, "the inode is written once");
	PROP((vf_inode.i_size | ((unsigned long long) vf_inode.i_size_high << 32)) == (unsigned long long) nmap1 * BS, "i_size = mapped blocks * block size (grew by exactly the added blocks)");
	PROP(vf_inode.i_blocks == (__u32) n1 * RATIO * (BS / 512),
	     "i_blocks = clusters occupied by the final mapping * cluster size / 512: what pass 1 of the next run computes");
	PROP(vf_inode.i_blocks == (__u32) (n0 + (n1 - n0)) * RATIO * (BS / 512) && n1 >= n0,
	     "i_blocks grew by the newly allocated clusters only (a block inside an already owned cluster adds nothing)");
	PROP(vf_nquota == 1 && vf_quota == (long long) (n1 - n0) * RATIO * BS, "the quota is charged exactly the bytes of the newly allocated clusters");
	for (c = 0; c < NC; c++) {
		int fresh = owned1[c] && !owned0[c];
		PROP(vf_cstats[c] == fresh, "allocation statistics: +1 exactly once for every newly allocated cluster");
		if (fresh)
			PROP(!IN.cfound[c], "a newly allocated cluster was free in block_found_map");
		PROP(vf_cfound[c] == (IN.cfound[c] || fresh), "block_found_map: the new clusters are marked, nothing else changes");
		if (!owned1[c])
			PROP(vf_cmark[c] == 0, "clusters the directory does not own are not touched");
	}
	PROP(vf_nalloc == n1 - n0, "the allocator is asked exactly once per new cluster");
	VF_END();
	return 0;
}
