META = {
    "assumptions": ["allocation failure out of scope (--no-malloc-may-fail)"],
    "outside": ["trees of more than 3 extents", "positions >= 2^32", "ext2fs_convert_subcluster_bitmap on the rbtree back end (the marks would be an operation history)"],
}
BM_SRC = ["lib/ext2fs/gen_bitmap64.c", "lib/ext2fs/bitops.c", "lib/ext2fs/gen_bitmap.c"]
OPS = {"MARK":1,"UNMARK":2,"TEST":3,"MARK_RANGE":4,"UNMARK_RANGE":5,"TEST_RANGE":6,"SET_RANGE":7,
       "GET_RANGE":8,"FFZ":9,"FFS":10,"CLEAR":11,"RESIZE":12,"COPY":13,"COMPARE":14,"FUDGE_END":15}

def ba_cfgs():
    c = []
    for name, op in OPS.items():
        for start in (0, 1):
            d = {"OP": op, "START": start, "N": 16, "CBMAX": 1}
            if name == "RESIZE":
                for g in (0, 8, -8):
                    c.append(dict(d, GROW=g))
            else:
                c.append(d)
    return c

READONLY = ("TEST", "TEST_RANGE", "GET_RANGE", "FFZ", "FFS", "FUDGE_END")
KOF = {0: 0, 1: 1, 2: 2, 3: 2, 4: 3, 5: 3}

def rb_unwind(k, n=16):
    """loop bounds derived from the tree size: a tree of k extents has height <= 2 for k <= 3
    and the post-state (k+1 nodes) height <= 3; harness loops run over the N positions"""
    hl = ["main.%d:%d" % (i, n + 12) for i in range(6)]
    for f, cnt in (("vf_extract", 2), ("vf_model", 4), ("ref_copy", 1)):
        hl += ["%s.%d:%d" % (f, i, n + 12) for i in range(cnt)]
    hl += ["vf_post_invariant.0:8", "vf_post_invariant.1:8", "vf_live.0:8", "vf_inject.0:5",
           "rb_set_bmap_range.0:%d" % (n + 2), "rb_set_bmap_range.1:%d" % (n + 2),
           "rb_get_bmap_range.1:%d" % (n + 2), "rb_get_bmap_range.2:%d" % (k + 2),
           "rb_free_tree.0:%d" % (k + 3), "rb_copy_bmap.0:%d" % (k + 2),
           "ext2fs_compare_generic_bmap.0:%d" % (n + 2)]
    return hl

def legacy_cfgs():
    c = []
    for name, op in OPS.items():
        for start in (0, 1):
            d = {"OP": op, "START": start, "N": 16, "CBMAX": 0}
            if name == "RESIZE":
                for g in (0, 8, -8):
                    c.append(dict(d, GROW=g))
            else:
                c.append(d)
    return c

def rb_cfgs():
    c = []
    for name, op in OPS.items():
        for shape in range(6):
            k = KOF[shape]
            d = {"OP": op, "SHAPE": shape, "START": 1 if shape % 2 else 0, "N": 16, "CBMAX": 1,
                 "_unwind": min(k + 2, 4), "_unwindset": rb_unwind(k)}
            # quick: every operation on the empty and the one-extent tree, read-only operations on all shapes
            d["_tier"] = "quick" if (k <= 1 or name in READONLY) else "thorough"
            if name == "SET_RANGE":
                # the full step (real rb_insert_extent under rb_set_bmap_range) ran out of memory at every
                # shape (18 GB, thorough run): it is decided compositionally instead -- rb_setrange (run
                # decomposition, rb_insert_extent cut) + rb[OP=MARK_RANGE] (the insert itself)
                continue
                # every 1->0 transition of the source buffer is one rb_insert_extent: 4 positions
                d["N"] = 4
                d["_unwindset"] = rb_unwind(k, 4)
                d["_tier"] = "thorough"
            if name == "RESIZE":
                for g in (0, 8, -8):
                    c.append(dict(d, GROW=g))
            else:
                c.append(d)
    return c

HARNESSES = [
    dict(name="rb", src="rb.c", extra_src=BM_SRC + ["lib/ext2fs/blkmap64_ba.c", "lib/ext2fs/rbtree.c"],
         funcs=["ext2fs_alloc_generic_bmap", "rb_new_bmap", "ext2fs_rb_insert_color", "ext2fs_rb_erase"],
         configs=rb_cfgs(), cap_quick=240,
         bound="N=16 positions, start in {0,1}, pad 0..3, cluster_bits 0..1; trees of k<=3 extents in all 6 "
               "red-black-valid shapes, extents and the three cursors symbolic under Inv"),
    dict(name="rb_setrange", src="rb_setrange.c",
         cut_statics={"lib/ext2fs/blkmap64_rb.c": ["rb_insert_extent"]},
         extra_src=["lib/ext2fs/bitops.c"],
         funcs=["rb_set_bmap_range"],
         unwind=4, unwindset=["rb_set_bmap_range.0:26", "rb_set_bmap_range.1:26", "rb_set_bmap_range.2:26",
                              "rb_insert_extent.0:12"] + ["main.%d:26" % i for i in range(8)],
         configs=[{"NB": 8}, {"NB": 16, "_tier": "thorough"}],
         backends=["z3", "default", "kissat"],
         bound="8-bit (thorough: 16-bit) source buffer, num 1..NB, start below 4096, bitmap start 0..8; rb_insert_extent cut (recording stub)"),
    dict(name="legacy32", src="legacy.c",
         extra_src=["lib/ext2fs/gen_bitmap64.c", "lib/ext2fs/bitops.c", "lib/ext2fs/blkmap64_ba.c",
                    "lib/ext2fs/blkmap64_rb.c", "lib/ext2fs/rbtree.c"],
         funcs=["ext2fs_make_generic_bitmap", "ext2fs_mark_generic_bitmap"],
         configs=legacy_cfgs(), unwind=40,
         bound="N=16 positions, start in {0,1}, pad 0..3; every byte of the bit array symbolic; no cluster granularity (32-bit bitmaps have none)"),
    dict(name="ba_find", src="ba_find.c", extra_src=["lib/ext2fs/bitops.c"],
         funcs=["ba_find_first_zero"],
         configs=[{"WANT": 0}, {"WANT": 1}],
         unwind=10, unwindset=["main.%d:257" % i for i in range(5)], backends=["kissat", "default", "cadical"],
         bound="256-bit array (four aligned 64-bit words), every bit symbolic; any range [a, b]; bitmap start 0 or 1"),
    dict(name="subcluster", src="subcluster.c", extra_src=BM_SRC + ["lib/ext2fs/blknum.c", "lib/ext2fs/blkmap64_ba.c", "lib/ext2fs/blkmap64_rb.c", "lib/ext2fs/rbtree.c"],
         funcs=["ext2fs_convert_subcluster_bitmap", "ext2fs_allocate_subcluster_bitmap", "ext2fs_allocate_block_bitmap"],
         configs=[{"CRB": 2, "NG": 2, "BPG": 8}, {"CRB": 1, "NG": 2, "BPG": 8}, {"CRB": 1, "NG": 3, "BPG": 4}],
         unwind=20, unwindset=["strlen.0:40", "strcpy.0:40"], backends=["default", "kissat"], cap_quick=300,
         bound="bit-array back end; 2 groups x 8 blocks (ratio 2 and 4) and 3 groups x 4 blocks (ratio 2); every subset of the "
               "valid blocks marked; blocks_count anywhere in the last group; s_first_data_block 0"),
    dict(name="ba", src="ba.c", extra_src=BM_SRC + ["lib/ext2fs/blkmap64_rb.c", "lib/ext2fs/rbtree.c"],
         funcs=["ext2fs_alloc_generic_bmap", "ba_new_bmap"],
         configs=ba_cfgs(), unwind=40,
         bound="N=16 positions, start in {0,1}, pad 0..3, cluster_bits 0..1; every byte of the bit array symbolic"),
]
MANIFEST = {
    "text": "Bounded-exhaustive inductive step: from an arbitrary representation state of each back end "
            "(within the size bounds) one operation of each kind with fully symbolic arguments is compared "
            "against a set model, including the full post-state; histories of any length follow by induction "
            "on the representation invariant, which is itself asserted after the step.",
    "note": "Trusted: CBMC's C semantics, the harness's set model, bounds (positions, tree size) as listed in "
            "evidence/C16.json.",
}
