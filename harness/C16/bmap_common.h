/*
 * bmap_common.h -- the set model and the one-step driver shared by the three
 * bitmap back-end harnesses (bitarray, rbtree, legacy 32-bit).
 *
 * Pattern I (inductive step): pre-state = ARBITRARY content of the back end's
 * representation (injected by vf_inject() from the symbolic input), model M[] :=
 * its decoding; ONE operation through the public generic entry points with
 * symbolic arguments; result and full post-state compared with the model.
 *
 * Positions are relative: M[i] is bit (START + i).  N, START are concrete per
 * query (they fix allocation sizes); end = real_end - pad with pad symbolic so the
 * padding region [end+1, real_end] is exercised; cluster_bits symbolic in
 * [0, CBMAX] for the block-bitmap entry points.
 */
#ifndef N
#define N 16
#endif
#ifndef START
#define START 0
#endif
#ifndef CBMAX
#define CBMAX 0
#endif
#ifndef GROW
#define GROW 0		/* resize: new_real_end = real_end + GROW (bits, multiple of 8, may be <0) */
#endif
#define NMAX (N + (GROW > 0 ? GROW : 0))
#define NBYTES ((N + 7) / 8 + 1)

#define OP_MARK 1
#define OP_UNMARK 2
#define OP_TEST 3
#define OP_MARK_RANGE 4
#define OP_UNMARK_RANGE 5
#define OP_TEST_RANGE 6
#define OP_SET_RANGE 7
#define OP_GET_RANGE 8
#define OP_FFZ 9
#define OP_FFS 10
#define OP_CLEAR 11
#define OP_RESIZE 12
#define OP_COPY 13
#define OP_COMPARE 14
#define OP_FUDGE_END 15

static unsigned char M[NMAX];		/* model before */
static unsigned char E[NMAX];		/* expected after */
static unsigned char P[NMAX];		/* real after */

#define REAL_END ((__u64) START + N - 1)

static void ref_copy(unsigned char *d, const unsigned char *s)
{
	int i;
	for (i = 0; i < NMAX; i++)
		d[i] = s[i];
}

/* cluster-level range conversion exactly as the API documents it: blocks
 * [block, block+num) -> clusters [b, e) */
static void ref_b2c(__u64 block, unsigned int num, int cb, __u64 *b, __u64 *e)
{
	*b = block >> cb;
	*e = (block + num + ((1ULL << cb) - 1)) >> cb;
}
