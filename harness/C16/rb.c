/*
 * C16/rb: red-black-tree-of-extents back end (blkmap64_rb.c + rbtree.c) behind the
 * generic entry points, ONE operation from an ARBITRARY valid tree of k <= 3
 * extents (concrete shape per query, symbolic extents and cursors).
 *
 * Representation invariant Inv (assumed before, asserted after):
 *   BST by start; extents count >= 1, sorted, disjoint and NON-ADJACENT, inside
 *   [0, real_end-start]; parent links consistent; root black, no red-red edge,
 *   equal black heights; wcursor/rcursor/rcursor_next are NULL or live nodes and
 *   (rcursor && rcursor_next) => rcursor_next is rcursor's in-order successor.
 */
#include "lib/ext2fs/blkmap64_rb.c"
#include "env.c"
#define BTYPE EXT2FS_BMAP64_RBTREE
#define SET_RANGE_ON_CLEAR
#include "bmap_common.h"

#ifndef SHAPE
#define SHAPE 0
#endif
/* SHAPE: 0 empty | 1 root | 2 root+left(red) | 3 root+right(red) | 4 root+2 red | 5 root+2 black */
#if SHAPE == 0
#define K 0
#elif SHAPE == 1
#define K 1
#elif SHAPE == 2 || SHAPE == 3
#define K 2
#else
#define K 3
#endif

struct vf_in {
	__u64 st[3], cnt[3];		/* extents of bitmap 0 in increasing order */
	__u64 st2, cnt2;		/* bitmap 1 (compare): one extent, cnt2==0 -> empty */
	unsigned char wc, rc, rn;	/* cursor selectors */
	unsigned char buf[NBYTES + 1];
	__u64 a, b, probe;
	unsigned int n;
	unsigned char pad, pad2, cb;
};
VF_DECLARE_INPUT(struct vf_in, IN)
#include "vf_input.inc"

static void vf_link(struct rb_node *n, struct rb_node *parent, int color)
{
#ifdef E2FSPROGS_VERIF
	n->rb_par = parent;
	n->rb_col = color;
#else
	n->rb_parent_color = (uintptr_t) parent | (uintptr_t) color;
#endif
}

static struct bmap_rb_extent *vf_node(__u64 st, __u64 cnt)
{
	struct bmap_rb_extent *e = malloc(sizeof(*e));
	ASSUME(e != 0);
	e->start = st;
	e->count = cnt;
	e->node.rb_left = e->node.rb_right = 0;
	vf_link(&e->node, 0, RB_RED);
	return e;
}

static void vf_inject(ext2fs_generic_bitmap gb, int k)
{
	ext2fs_generic_bitmap_64 b = (ext2fs_generic_bitmap_64) gb;
	struct ext2fs_rb_private *bp = (struct ext2fs_rb_private *) b->private;
	struct bmap_rb_extent *e[3] = { 0, 0, 0 };
	int i;

	if (k == 1) {
		if (IN.cnt2) {
			ASSUME(IN.cnt2 <= N && IN.st2 < N && IN.st2 + IN.cnt2 <= N);
			e[0] = vf_node(IN.st2, IN.cnt2);
			vf_link(&e[0]->node, 0, RB_BLACK);
			bp->root.rb_node = &e[0]->node;
		}
		return;
	}
	for (i = 0; i < K; i++) {
		ASSUME(IN.cnt[i] >= 1 && IN.cnt[i] <= N && IN.st[i] < N);
		ASSUME(IN.st[i] + IN.cnt[i] <= N);
		if (i > 0)
			ASSUME(IN.st[i - 1] + IN.cnt[i - 1] < IN.st[i]);	/* non-adjacent */
		e[i] = vf_node(IN.st[i], IN.cnt[i]);
	}
#if SHAPE == 1
	vf_link(&e[0]->node, 0, RB_BLACK);
	bp->root.rb_node = &e[0]->node;
#elif SHAPE == 2
	vf_link(&e[1]->node, 0, RB_BLACK);
	vf_link(&e[0]->node, &e[1]->node, RB_RED);
	e[1]->node.rb_left = &e[0]->node;
	bp->root.rb_node = &e[1]->node;
#elif SHAPE == 3
	vf_link(&e[0]->node, 0, RB_BLACK);
	vf_link(&e[1]->node, &e[0]->node, RB_RED);
	e[0]->node.rb_right = &e[1]->node;
	bp->root.rb_node = &e[0]->node;
#elif SHAPE == 4 || SHAPE == 5
	vf_link(&e[1]->node, 0, RB_BLACK);
	vf_link(&e[0]->node, &e[1]->node, SHAPE == 4 ? RB_RED : RB_BLACK);
	vf_link(&e[2]->node, &e[1]->node, SHAPE == 4 ? RB_RED : RB_BLACK);
	e[1]->node.rb_left = &e[0]->node;
	e[1]->node.rb_right = &e[2]->node;
	bp->root.rb_node = &e[1]->node;
#endif
	/* cursors: NULL or any live node; rcursor_next: NULL or successor when rcursor is set */
#ifdef WC	/* concrete cursor configuration for this query */
	ASSUME(IN.wc == WC && IN.rc == RC && IN.rn == RN);
#endif
	ASSUME(IN.wc <= K && IN.rc <= K && IN.rn <= K);
#ifdef WC
	bp->wcursor = WC ? e[WC - 1] : 0;
	bp->rcursor = RC ? e[RC - 1] : 0;
	bp->rcursor_next = RN ? e[RN - 1] : 0;
	return;
#endif
	bp->wcursor = IN.wc ? e[IN.wc - 1] : 0;
	bp->rcursor = IN.rc ? e[IN.rc - 1] : 0;
	if (IN.rc) {
		ASSUME(IN.rn == 0 || IN.rn == IN.rc + 1);
	}
	bp->rcursor_next = IN.rn ? e[IN.rn - 1] : 0;
}

static void vf_model(int k, unsigned char *m)
{
	int i, j;
	for (i = 0; i < NMAX; i++)
		m[i] = 0;
	if (k == 1) {
		for (i = 0; i < N; i++)
			if (IN.cnt2 && (__u64) i >= IN.st2 && (__u64) i < IN.st2 + IN.cnt2)
				m[i] = 1;
		return;
	}
	for (j = 0; j < K; j++)
		for (i = 0; i < N; i++)
			if ((__u64) i >= IN.st[j] && (__u64) i < IN.st[j] + IN.cnt[j])
				m[i] = 1;
}

/* ---- independent read-back: explicit in-order walk, depth <= 3, <= 5 nodes */
#define MAXN 6
static struct rb_node *W[MAXN];
static __u64 WS[MAXN], WC_[MAXN];	/* extents copied out once per node */
static int WN, vf_bad;

static int vf_walk(struct rb_node *n, struct rb_node *parent, int depth, int parent_red)
{
	int bl, br, red;
	if (!n)
		return 1;
	if (depth > 3) { vf_bad = 1; return 0; }		/* deeper than any RB tree of <= 5 nodes */
	if (ext2fs_rb_parent(n) != parent) vf_bad = 2;
	red = ext2fs_rb_is_red(n);
	if (red && parent_red) vf_bad = 3;
	if (!parent && red) vf_bad = 4;
	bl = depth < 3 ? vf_walk(n->rb_left, n, depth + 1, red) : (n->rb_left ? (vf_bad = 1, 0) : 1);
	if (WN < MAXN) {
		W[WN] = n;
		WS[WN] = node_to_extent(n)->start;
		WC_[WN] = node_to_extent(n)->count;
		WN++;
	} else vf_bad = 5;
	br = depth < 3 ? vf_walk(n->rb_right, n, depth + 1, red) : (n->rb_right ? (vf_bad = 1, 0) : 1);
	if (bl != br) vf_bad = 6;
	return bl + (red ? 0 : 1);
}

static void vf_extract(ext2fs_generic_bitmap gb, unsigned char *out, int nbits)
{
	ext2fs_generic_bitmap_64 b = (ext2fs_generic_bitmap_64) gb;
	struct ext2fs_rb_private *bp = (struct ext2fs_rb_private *) b->private;
	int i, j;
	WN = 0; vf_bad = 0;
	vf_walk(bp->root.rb_node, 0, 1, 0);
	for (i = 0; i < nbits; i++) {
		out[i] = 0;
		for (j = 0; j < WN; j++)
			if ((__u64) i >= WS[j] && (__u64) i < WS[j] + WC_[j])
				out[i] = 1;
	}
}

static int vf_live(struct bmap_rb_extent *c)
{
	int j;
	if (!c) return 1;
	for (j = 0; j < WN; j++)
		if (node_to_extent(W[j]) == c) return 1;
	return 0;
}

static void vf_post_invariant(ext2fs_generic_bitmap gb)
{
	ext2fs_generic_bitmap_64 b = (ext2fs_generic_bitmap_64) gb;
	struct ext2fs_rb_private *bp = (struct ext2fs_rb_private *) b->private;
	__u64 span = b->real_end - b->start + 1;
	int j;
	WN = 0; vf_bad = 0;
	vf_walk(bp->root.rb_node, 0, 1, 0);
	PROP(vf_bad == 0, "Inv: parent links, red-black colouring and black heights");
	for (j = 0; j < WN; j++) {
		PROP(WC_[j] >= 1 && WS[j] < span && WS[j] + WC_[j] <= span, "Inv: extent non-empty and inside the bitmap");
		if (j > 0)
			PROP(WS[j - 1] + WC_[j - 1] < WS[j], "Inv: extents sorted, disjoint and non-adjacent");
	}
	/* rcursor_next is only ever dereferenced while rcursor is set (rb_test_bit); with
	 * rcursor == NULL it may be stale (rb_truncate, rb_free_extent leave it) */
	PROP(vf_live(bp->wcursor) && vf_live(bp->rcursor) && (!bp->rcursor || vf_live(bp->rcursor_next)),
	     "Inv: no cursor that can be dereferenced points to a freed node");
	if (bp->rcursor && bp->rcursor_next) {
		int ok = 0;
		for (j = 0; j + 1 < WN; j++)
			if (node_to_extent(W[j]) == bp->rcursor && node_to_extent(W[j + 1]) == bp->rcursor_next)
				ok = 1;
		PROP(ok, "Inv: rcursor_next is rcursor's successor");
	}
}

#include "bmap_driver.h"
