/*
 * C16/ba: bit-array back end (blkmap64_ba.c) behind the generic 64-bit entry
 * points (gen_bitmap64.c), one operation from an ARBITRARY bit array.
 * Real units: gen_bitmap64.c (separate unit), blkmap64_ba.c (included: its
 * private struct is needed to inject the pre-state), bitops.c.
 */
#include "lib/ext2fs/blkmap64_ba.c"
#include "env.c"
#define BTYPE EXT2FS_BMAP64_BITARRAY
#define RANGE_ALIGNED
#include "bmap_common.h"

struct vf_in {
	unsigned char bits[2][(NMAX + 7) / 8 + 1];	/* pre-state of bitmap 0 (and 1 for compare) */
	unsigned char buf[NBYTES + 1];			/* set_range source / get_range initial garbage */
	__u64 a, b, probe;
	unsigned int n;
	unsigned char pad, pad2, cb;
};
VF_DECLARE_INPUT(struct vf_in, IN)
#include "vf_input.inc"

static void vf_inject(ext2fs_generic_bitmap gb, int k)
{
	ext2fs_generic_bitmap_64 b = (ext2fs_generic_bitmap_64) gb;
	ext2fs_ba_private bp = (ext2fs_ba_private) b->private;
	int i;
	for (i = 0; i < (N + 7) / 8; i++)
		bp->bitarray[i] = IN.bits[k][i];
}

static void vf_model(int k, unsigned char *m)
{
	int i;
	for (i = 0; i < NMAX; i++)
		m[i] = i < N ? (IN.bits[k][i >> 3] >> (i & 7)) & 1 : 0;
}

static void vf_extract(ext2fs_generic_bitmap gb, unsigned char *out, int nbits)
{
	ext2fs_generic_bitmap_64 b = (ext2fs_generic_bitmap_64) gb;
	ext2fs_ba_private bp = (ext2fs_ba_private) b->private;
	int i, avail = (int) (b->real_end - b->start) + 1;
	for (i = 0; i < nbits; i++)
		out[i] = i < avail ? (((unsigned char) bp->bitarray[i >> 3]) >> (i & 7)) & 1 : 0;
}

static void vf_post_invariant(ext2fs_generic_bitmap gb)
{
	(void) gb;
}

#include "bmap_driver.h"
