/*
 * C16/legacy: the legacy 32-bit bitmap implementation (gen_bitmap.c) behind the
 * same generic entry points (gen_bitmap64.c dispatches on the magic number), one
 * operation from an ARBITRARY bit array.
 */
#include "lib/ext2fs/gen_bitmap.c"
#include "env.c"
#define RANGE_ALIGNED
#define LEGACY32
#define VF_CUSTOM_NEW
#include "bmap_common.h"

struct vf_in {
	unsigned char bits[2][(NMAX + 7) / 8 + 1];
	unsigned char buf[NBYTES + 1];
	__u64 a, b, probe;
	unsigned int n;
	unsigned char pad, pad2, cb;
};
VF_DECLARE_INPUT(struct vf_in, IN)
#include "vf_input.inc"

static struct struct_ext2_filsys vf_fs;

static ext2fs_generic_bitmap vf_new(__u64 end, __u64 real_end)
{
	ext2fs_generic_bitmap bm = 0;
	errcode_t rc = ext2fs_make_generic_bitmap(EXT2_ET_MAGIC_BLOCK_BITMAP, &vf_fs, START, (__u32) end,
						  (__u32) real_end, 0, 0, &bm);
	ASSUME(rc == 0 && bm != 0);
	return bm;
}

static void vf_inject(ext2fs_generic_bitmap gb, int k)
{
	ext2fs_generic_bitmap_32 b = (ext2fs_generic_bitmap_32) gb;
	int i;
	for (i = 0; i < (N + 7) / 8; i++)
		b->bitmap[i] = IN.bits[k][i];
}

static void vf_model(int k, unsigned char *m)
{
	int i;
	for (i = 0; i < NMAX; i++)
		m[i] = i < N ? (IN.bits[k][i >> 3] >> (i & 7)) & 1 : 0;
}

static void vf_extract(ext2fs_generic_bitmap gb, unsigned char *out, int nbits)
{
	ext2fs_generic_bitmap_32 b = (ext2fs_generic_bitmap_32) gb;
	int i, avail = (int) (b->real_end - b->start) + 1;
	for (i = 0; i < nbits; i++)
		out[i] = i < avail ? (((unsigned char) b->bitmap[i >> 3]) >> (i & 7)) & 1 : 0;
}

static void vf_post_invariant(ext2fs_generic_bitmap gb)
{
	(void) gb;
}

#define vf_fs vf_fs_unused_by_driver
#include "bmap_driver.h"
