/*
 * bmap_driver.h -- one operation + reference semantics.  The including file
 * provides:
 *   BTYPE                         EXT2FS_BMAP64_* back end
 *   vf_inject(bm, k)              overwrite bitmap k's representation from IN
 *   vf_model(k, M)                decode the same input into the model
 *   vf_extract(bm, P, nbits)      read the representation back, independently of
 *                                 the back end's own query functions
 *   vf_post_invariant(bm)         representation invariant after the operation
 */

static struct struct_ext2_filsys vf_fs;

#ifndef VF_CUSTOM_NEW
static ext2fs_generic_bitmap vf_new(__u64 end, __u64 real_end)
{
	ext2fs_generic_bitmap bm = 0;
	errcode_t rc;

	rc = ext2fs_alloc_generic_bmap(&vf_fs, EXT2_ET_MAGIC_BLOCK_BITMAP64, BTYPE,
				       START, end, real_end, 0, &bm);
	ASSUME(rc == 0 && bm != 0);
	return bm;
}
#endif

int main(void)
{
	ext2fs_generic_bitmap bm, bm2 = 0;
	__u64 end, rel_end;
	int cb, i, ret = 0;
	errcode_t rc = 0;

	VF_INPUT(IN);
	/* BOUND: pad = real_end - end in [0,3]; cluster_bits in [0,CBMAX] */
	ASSUME(IN.pad <= 3);
	ASSUME(IN.cb <= CBMAX);
	cb = IN.cb;
	memset(&vf_fs, 0, sizeof(vf_fs));
	vf_fs.cluster_ratio_bits = cb;
	end = REAL_END - IN.pad;
	rel_end = end - START;

	bm = vf_new(end, REAL_END);
	vf_inject(bm, 0);
	vf_model(0, M);
	ref_copy(E, M);

#if OP == OP_MARK || OP == OP_UNMARK || OP == OP_TEST
	{
		__u64 arg = IN.a, c = arg >> cb;
		int valid = (c >= START && c <= end);
		int old = valid ? M[c - START] : 0;
#if OP == OP_MARK
		ret = ext2fs_mark_generic_bmap(bm, arg);
		if (valid) E[c - START] = 1;
#elif OP == OP_UNMARK
		ret = ext2fs_unmark_generic_bmap(bm, arg);
		if (valid) E[c - START] = 0;
#else
		ret = ext2fs_test_generic_bmap(bm, arg);
#endif
		PROP((ret != 0) == (old != 0), "mark/unmark/test returns the previous/current membership");
	}
#elif OP == OP_MARK_RANGE || OP == OP_UNMARK_RANGE || OP == OP_TEST_RANGE
	{
		__u64 block = IN.a, b, e;
		unsigned int num = IN.n, n;
		int valid, allclear = 1;
		/* BOUND: block numbers below 2^32 (block+num does not wrap 64 bit) */
		ASSUME(block < (1ULL << 32));
		ASSUME(num >= 1 && num <= (unsigned) (4 * N));
		ref_b2c(block, num, cb, &b, &e);
		n = (unsigned int) (e - b);
		valid = (b >= START && b <= end && b + n - 1 <= end);
#if OP == OP_TEST_RANGE
		/* ASSUME: test_range is asked about at least 2 blocks (num==1 is the single-bit test path, covered by OP_TEST) */
		ASSUME(num >= 2);
#endif
		if (valid)
			for (i = 0; i < N; i++)
				if ((__u64) i + START >= b && (__u64) i + START < e) {
					if (M[i]) allclear = 0;
#if OP == OP_MARK_RANGE
					E[i] = 1;
#elif OP == OP_UNMARK_RANGE
					E[i] = 0;
#endif
				}
#if OP == OP_MARK_RANGE
		ext2fs_mark_block_bitmap_range2(bm, block, num);
#elif OP == OP_UNMARK_RANGE
		ext2fs_unmark_block_bitmap_range2(bm, block, num);
#else
		ret = ext2fs_test_block_bitmap_range2(bm, block, num);
		if (valid)
			PROP(ret == allclear, "test_range: 1 iff every bit of the range is clear");
#ifndef LEGACY32	/* the 32-bit implementation only warns on an invalid range; its answer is unspecified */
		else
			PROP(ret == EINVAL, "test_range: out-of-range request is refused");
#endif
#endif
	}
#elif OP == OP_SET_RANGE || OP == OP_GET_RANGE
	{
		/* ASSUME: set/get_range callers pass a range inside [start, real_end] (the generic layer does not check; rw_bitmaps.c computes it from the geometry) */
		__u64 s = IN.a;
		unsigned int num = IN.n;
		unsigned char buf[NBYTES + 1];
		ASSUME(s >= START && s <= REAL_END && num >= 1 && num <= N && s + num - 1 <= REAL_END);
#ifdef RANGE_ALIGNED
		/* ASSUME: bitarray/legacy back ends copy whole bytes: (start - bitmap start) is a multiple of 8, as rw_bitmaps.c always passes */
		ASSUME(((s - START) & 7) == 0);
		/* ASSUME: ... and whole bytes: num is a multiple of 8 (block_nbytes << 3 in rw_bitmaps.c); bits of the last byte beyond num are copied too */
		ASSUME((num & 7) == 0);
#endif
		for (i = 0; i < NBYTES + 1; i++)
			buf[i] = IN.buf[i];
#if OP == OP_SET_RANGE
#ifdef SET_RANGE_ON_CLEAR
		/* ASSUME: rbtree set_range is specified on a range that is currently clear (bitmap loading); on a non-clear range it ORs where bitarray overwrites -- divergence documented in DESIGN.md, not claimed */
		for (i = 0; i < N; i++)
			if ((__u64) i + START >= s && (__u64) i + START < s + num)
				ASSUME(M[i] == 0);
#endif
		for (i = 0; i < N; i++)
			if ((__u64) i + START >= s && (__u64) i + START < s + num) {
				unsigned int k = (unsigned int) (i + START - s);
				E[i] = (buf[k >> 3] >> (k & 7)) & 1;
			}
		rc = ext2fs_set_generic_bmap_range(bm, s, num, buf);
		PROP(rc == 0, "set_range succeeds");
#else
		rc = ext2fs_get_generic_bmap_range(bm, s, num, buf);
		PROP(rc == 0, "get_range succeeds");
		for (i = 0; i < N; i++)
			if ((__u64) i + START >= s && (__u64) i + START < s + num) {
				unsigned int k = (unsigned int) (i + START - s);
				PROP(((buf[k >> 3] >> (k & 7)) & 1) == M[i], "get_range returns the set's bits");
			}
#endif
	}
#elif OP == OP_FFZ || OP == OP_FFS
	{
		__u64 s = IN.a, e = IN.b, cs = s >> cb, ce = e >> cb, out = ~0ULL, want = 0;
		int found = 0;
		ASSUME(s < (1ULL << 32) && e < (1ULL << 32));
		if (cs < START || ce > end || s > e) {
#if OP == OP_FFZ
			rc = ext2fs_find_first_zero_generic_bmap(bm, s, e, &out);
#else
			rc = ext2fs_find_first_set_generic_bmap(bm, s, e, &out);
#endif
			PROP(rc == EINVAL, "find_first: invalid range is refused");
		} else {
			for (i = 0; i < N; i++)
				if (!found && (__u64) i + START >= cs && (__u64) i + START <= ce &&
				    M[i] == (OP == OP_FFS)) {
					found = 1;
					want = ((__u64) i + START) << cb;
					if (want < s)
						want = s;
				}
#if OP == OP_FFZ
			rc = ext2fs_find_first_zero_generic_bmap(bm, s, e, &out);
#else
			rc = ext2fs_find_first_set_generic_bmap(bm, s, e, &out);
#endif
			if (found) {
				PROP(rc == 0, "find_first: a matching bit exists and is reported");
				PROP(out == want, "find_first: reports the FIRST matching position");
			} else
				PROP(rc == ENOENT, "find_first: ENOENT iff no matching bit in range");
		}
	}
#elif OP == OP_CLEAR
	ext2fs_clear_generic_bmap(bm);
	for (i = 0; i < NMAX; i++)
		E[i] = 0;
#elif OP == OP_RESIZE
	{
		__u64 new_real_end = REAL_END + GROW, new_end = IN.a;
		/* ASSUME: resize keeps start <= new_end <= new_real_end (callers: resize2fs, ext2fs_resize_*_bitmap2) */
		ASSUME(new_end >= START && new_end <= new_real_end);
		rc = ext2fs_resize_generic_bmap(bm, new_end, new_real_end);
		PROP(rc == 0, "resize succeeds");
		PROP(ext2fs_get_generic_bmap_end(bm) == new_end, "resize: new end recorded");
		for (i = 0; i < NMAX; i++)
			if ((__u64) i > rel_end || (__u64) i + START > new_end)
				E[i] = 0;
		vf_extract(bm, P, NMAX);
		/* only [start, new_end] is observable through the API: padding content is representation-specific */
		for (i = 0; i < NMAX; i++)
			if ((__u64) i + START <= new_end)
				PROP(P[i] == E[i], "resize: kept bits unchanged, new bits clear");
		vf_post_invariant(bm);
		VF_END();
		return 0;
	}
#elif OP == OP_COPY
	rc = ext2fs_copy_generic_bmap(bm, &bm2);
	PROP(rc == 0 && bm2 != 0, "copy succeeds");
	vf_extract(bm2, P, NMAX);
	for (i = 0; i < N; i++)
		PROP(P[i] == M[i], "copy has the same members");
	PROP(ext2fs_get_generic_bmap_end(bm2) == end && ext2fs_get_generic_bmap_start(bm2) == START,
	     "copy has the same bounds");
	vf_post_invariant(bm2);
#elif OP == OP_COMPARE
	{
		int same = 1;
		__u64 end2;
		ASSUME(IN.pad2 <= 3);
		end2 = REAL_END - IN.pad2;
		bm2 = vf_new(end2, REAL_END);
		vf_inject(bm2, 1);
		vf_model(1, P);
		if (end2 != end)
			same = 0;
		for (i = 0; i < N; i++)
			if ((__u64) i <= rel_end && M[i] != P[i])
				same = 0;
		rc = ext2fs_compare_generic_bmap(12345, bm, bm2);
		PROP(rc == (same ? 0 : 12345), "compare: equal iff same bounds and same members in [start,end]");
	}
#elif OP == OP_FUDGE_END
	{
		__u64 ne = IN.a, oend = ~0ULL;
#ifdef LEGACY32
		/* ASSUME: 32-bit bitmaps take 32-bit positions */
		ASSUME(ne < (1ULL << 32));
#endif
		rc = ext2fs_fudge_generic_bmap_end(bm, 777, ne, &oend);
		if (ne > REAL_END)
			PROP(rc == 777 && ext2fs_get_generic_bmap_end(bm) == end, "fudge_end beyond real_end refused");
		else
		{
			PROP(rc == 0 && oend == end && ext2fs_get_generic_bmap_end(bm) == ne, "fudge_end sets end, returns old");
			end = ne;
		}
	}
#else
#error "OP not set"
#endif

	/* full post-state against the model, every position incl. padding */
	vf_extract(bm, P, NMAX);
	for (i = 0; i < N; i++)
		PROP(P[i] == E[i], "post-state equals the reference set at every position");
	vf_post_invariant(bm);
	/* and the back end's own membership query agrees at an arbitrary position */
	{
		__u64 p = IN.probe;
		if (p >= START && p <= end) {
			int t = ext2fs_test_generic_bmap(bm, p << cb);
			PROP((t != 0) == (E[p - START] != 0), "test() after the operation agrees with the reference set");
		}
	}
	VF_END();
	return 0;
}
