/*
 * C16/ba_find: ba_find_first_zero() / ba_find_first_set() (blkmap64_ba.c) at a size
 * that reaches their word-at-a-time fast path: a bit array of NBITS = 256 bits
 * (four aligned 64-bit words), every bit symbolic, any sub-range [a, b], bitmap
 * start 0 or 1.  The `ba` harness (16 positions) never enters the 64-bit loop.
 * Reference: the first position in [a, b] whose bit is 0 (resp. 1), by a plain scan.
 */
#include "lib/ext2fs/blkmap64_ba.c"
#include "env.c"

#ifndef NBITS
#define NBITS 256
#endif
struct vf_in {
	unsigned char bits[NBITS / 8];
	__u64 a, b;
	unsigned char start;
};
VF_DECLARE_INPUT(struct vf_in, IN)
#include "vf_input.inc"

static struct ext2fs_struct_generic_bitmap_64 vf_bm;
static struct ext2fs_ba_private_struct vf_priv;
static char vf_bits[NBITS / 8 + 8] __attribute__((aligned(8)));

int main(void)
{
	__u64 out = 0xdeadbeef, want = 0;
	int i, found = 0;
	errcode_t rc;

	VF_INPUT(IN);
	ASSUME(IN.start <= 1);
	ASSUME(IN.a >= IN.start && IN.a <= IN.b && IN.b <= (__u64) IN.start + NBITS - 1);
	for (i = 0; i < NBITS / 8; i++)
		vf_bits[i] = (char) IN.bits[i];
	vf_priv.bitarray = vf_bits;
	vf_bm.magic = EXT2_ET_MAGIC_GENERIC_BITMAP64;
	vf_bm.start = IN.start;
	vf_bm.end = (__u64) IN.start + NBITS - 1;
	vf_bm.real_end = vf_bm.end;
	vf_bm.private = &vf_priv;

	for (i = 0; i < NBITS; i++) {
		int bit = (IN.bits[i >> 3] >> (i & 7)) & 1;
		__u64 pos = (__u64) i + IN.start;
		if (!found && pos >= IN.a && pos <= IN.b && bit == WANT) {
			found = 1;
			want = pos;
		}
	}
#if WANT == 0
	rc = ba_find_first_zero(&vf_bm, IN.a, IN.b, &out);
#else
	rc = ba_find_first_set(&vf_bm, IN.a, IN.b, &out);
#endif
	if (found)
		PROP(rc == 0 && out == want, "find_first returns the first matching position of the range");
	else
		PROP(rc == ENOENT && out == 0xdeadbeef, "find_first reports ENOENT (and leaves *out alone) when the range has no matching bit");
	for (i = 0; i < NBITS / 8; i++)
		PROP(vf_bits[i] == (char) IN.bits[i], "searching does not modify the bit array");
	VF_END();
	return 0;
}
