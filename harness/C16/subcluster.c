/*
 * C16/subcluster: the bigalloc bounds computation of bitmaps.c and the
 * block-granular -> cluster-granular conversion of gen_bitmap64.c.
 *
 * Real units: bitmaps.c (included), gen_bitmap64.c, blkmap64_ba.c, blkmap64_rb.c,
 * rbtree.c, bitops.c, gen_bitmap.c.
 *
 * Step: a file system of NG groups of BPG blocks with cluster ratio 2^CRB and a
 * symbolic blocks_count in the last group.  The real
 * ext2fs_allocate_subcluster_bitmap() builds the per-BLOCK bitmap, an ARBITRARY
 * subset of its valid blocks is marked through the public entry point, then the real
 * ext2fs_convert_subcluster_bitmap() turns it into the per-CLUSTER bitmap.
 * Reference (format): cluster c is in use iff some block of [c << CRB, (c+1) << CRB)
 * was marked; bounds of both bitmaps as the superblock prescribes.
 */
#include "lib/ext2fs/bitmaps.c"
#include "env.c"

#ifndef CRB
#define CRB 2
#endif
#ifndef NG
#define NG 2
#endif
#ifndef BPG
#define BPG 8
#endif
#ifndef BTYPE
#define BTYPE EXT2FS_BMAP64_BITARRAY
#endif
#define NB (NG * BPG)

struct vf_in {
	unsigned int marks;	/* bit i: block i is marked in the block-granular bitmap */
	unsigned int short_by;	/* blocks_count = NB - short_by */
	unsigned int probe;
};
VF_DECLARE_INPUT(struct vf_in, IN)
#include "vf_input.inc"

/* STUB: ext2fs_write_bitmaps is only stored as a callback pointer by the allocators, never called here */
errcode_t ext2fs_write_bitmaps(ext2_filsys fs)
{
	(void) fs;
	return 0;
}

/* STUB: no E2FSPROGS_BITMAP_STATS in the environment (ext2fs_free_generic_bmap only prints statistics with it) */
char *ext2fs_safe_getenv(const char *arg)
{
	(void) arg;
	return 0;
}

static struct ext2_super_block vf_sb;
static struct struct_ext2_filsys vf_fs;

int main(void)
{
	ext2fs_block_bitmap bm = 0, orig;
	ext2fs_generic_bitmap_64 b64;
	errcode_t rc;
	unsigned int i, c, bc;
	unsigned char refc[NB >> CRB];

	VF_INPUT(IN);
	/* BOUND: NG groups of BPG blocks, cluster ratio 2^CRB; blocks_count anywhere in the last group (at least one full cluster of it) */
	ASSUME(IN.short_by < BPG - (1u << CRB));
	bc = NB - IN.short_by;

	vf_sb.s_first_data_block = 0;	/* ASSUME: bigalloc file systems have s_first_data_block 0 (mke2fs enforces it) */
	vf_sb.s_blocks_count = bc;
	vf_sb.s_blocks_per_group = BPG;
	vf_sb.s_clusters_per_group = BPG >> CRB;
	vf_sb.s_log_cluster_size = CRB;
	vf_sb.s_feature_ro_compat = EXT4_FEATURE_RO_COMPAT_BIGALLOC;
	vf_fs.magic = EXT2_ET_MAGIC_EXT2FS_FILSYS;
	vf_fs.super = &vf_sb;
	vf_fs.flags = EXT2_FLAG_64BITS;
	vf_fs.group_desc_count = NG;
	vf_fs.cluster_ratio_bits = CRB;
	vf_fs.default_bitmap_type = BTYPE;

	rc = ext2fs_allocate_subcluster_bitmap(&vf_fs, "sub", &bm);
	PROP(rc == 0 && bm != 0, "subcluster bitmap allocated");
	b64 = (ext2fs_generic_bitmap_64) bm;
	PROP(ext2fs_get_bitmap_granularity(bm) == 0, "subcluster bitmap is per block (granularity 0)");
	PROP(b64->start == 0 && b64->end == bc - 1 && b64->real_end == NB - 1,
	     "subcluster bitmap bounds: [first_data_block, blocks_count-1], real_end = groups*blocks_per_group-1");

	for (c = 0; c < (NB >> CRB); c++)
		refc[c] = 0;
	for (i = 0; i < NB; i++)
		if (((IN.marks >> i) & 1) && i < bc) {
			ext2fs_mark_block_bitmap2(bm, i);
			for (c = 0; c < (NB >> CRB); c++)
				if (c == (i >> CRB))
					refc[c] = 1;
		}

	orig = bm;
	rc = ext2fs_convert_subcluster_bitmap(&vf_fs, &bm);
	PROP(rc == 0, "conversion succeeds");
	PROP(bm != orig, "conversion returns a new bitmap");
	b64 = (ext2fs_generic_bitmap_64) bm;
	PROP(ext2fs_get_bitmap_granularity(bm) == CRB, "converted bitmap has the cluster granularity of the file system");
	PROP(b64->start == 0 && b64->end == ((bc - 1) >> CRB) && b64->real_end == (NB >> CRB) - 1,
	     "cluster bitmap bounds: clusters of [first_data_block, blocks_count-1], real_end = groups*clusters_per_group-1");

	for (c = 0; c <= ((bc - 1) >> CRB); c++)
		PROP((ext2fs_test_block_bitmap2(bm, (blk64_t) c << CRB) != 0) == (refc[c] != 0),
		     "cluster in use iff some block of it was marked");
	/* any block of a cluster answers for the cluster */
	ASSUME(IN.probe < bc);
	for (c = 0; c < (NB >> CRB); c++)
		if (c == (IN.probe >> CRB))
			PROP((ext2fs_test_block_bitmap2(bm, IN.probe) != 0) == (refc[c] != 0),
			     "every block number of a cluster tests as its cluster");

	/* a bitmap that already has the file system's granularity is left alone */
	orig = bm;
	rc = ext2fs_convert_subcluster_bitmap(&vf_fs, &bm);
	PROP(rc == 0 && bm == orig, "second conversion is the identity");
	VF_END();
	return 0;
}
