/*
 * C16/rb_setrange: rb_set_bmap_range() decomposes the source bit buffer into
 * maximal runs of ones and hands each to rb_insert_extent() (assume-guarantee:
 * rb_insert_extent is CUT here -- it is the subject of the rb MARK_RANGE
 * queries -- and replaced by a recording stub).  For EVERY buffer content,
 * start and length: the recorded runs are exactly the set bits of the buffer,
 * each position once, in increasing order, translated by (start - bitmap start).
 * The full-step SET_RANGE query on the real insert did not fit (solver memory).
 */
#include "lib/ext2fs/blkmap64_rb.c"
#include "env.c"
#ifndef NB
#define NB 8
#endif
#define MAXCALLS (NB / 2 + 2)

struct vf_in {
	unsigned char buf[NB / 8 + 1];
	__u64 start, bstart;
	unsigned int num;
};
VF_DECLARE_INPUT(struct vf_in, IN)
#include "vf_input.inc"

static int vf_ncalls, vf_overflow;
static __u64 vf_cs[MAXCALLS], vf_cc[MAXCALLS];

/* STUB: rb_insert_extent records its arguments (its own behaviour: rb[OP=MARK_RANGE] queries) */
static int rb_insert_extent(__u64 start, __u64 count, struct ext2fs_rb_private *bp)
{
	(void) bp;
	int k;
	for (k = 0; k < MAXCALLS; k++)
		if (k == vf_ncalls) {
			vf_cs[k] = start;
			vf_cc[k] = count;
		}
	if (vf_ncalls >= MAXCALLS)
		vf_overflow = 1;
	vf_ncalls++;
	return 0;
}

static struct ext2fs_struct_generic_bitmap_64 vf_bm;
static struct ext2fs_rb_private vf_bp;

int main(void)
{
	unsigned char buf[NB / 8 + 1];
	int i, k;
	errcode_t rc;

	VF_INPUT(IN);
	ASSUME(IN.num >= 1 && IN.num <= NB);
	ASSUME(IN.bstart <= 8 && IN.start >= IN.bstart && IN.start < 4096);
	for (i = 0; i < NB / 8 + 1; i++)
		buf[i] = IN.buf[i];
	vf_bm.start = IN.bstart;
	vf_bm.end = vf_bm.real_end = ~1ULL;
	vf_bm.private = &vf_bp;
	rc = rb_set_bmap_range(&vf_bm, IN.start, IN.num, buf);
	PROP(rc == 0 && !vf_overflow, "set_range succeeds");
	for (k = 0; k < MAXCALLS; k++)
		if (k < vf_ncalls) {
			PROP(vf_cc[k] >= 1, "every inserted run is non-empty");
			if (k > 0)
				PROP(vf_cs[k] > vf_cs[k - 1] + vf_cc[k - 1], "runs are maximal, disjoint and in increasing order");
		}
	for (i = 0; i < NB; i++) {
		int want = ((unsigned) i < IN.num) && ((buf[i >> 3] >> (i & 7)) & 1);
		int got = 0;
		__u64 pos = IN.start - IN.bstart + i;
		for (k = 0; k < MAXCALLS; k++)
			if (k < vf_ncalls && pos >= vf_cs[k] && pos < vf_cs[k] + vf_cc[k])
				got++;
		PROP(got == want, "bit i of the buffer is inserted exactly once iff it is set and below num");
	}
	VF_END();
	return 0;
}
