/*
 * C07/orphan: creating the orphan file (mke2fs -O orphan_file): the real
 * ext2fs_create_orphan_file() + mkorphan_proc() (+ ext2fs_truncate_orphan_file,
 * ext2fs_do_orphan_file_block_csum) of orphan.c, with real i_block.c / blknum.c
 * accounting helpers, on a cluster-aware allocator MODEL (bigalloc: cluster ratio
 * RATIO, compile time 1 or 4) and a driver in place of ext2fs_block_iterate3()
 * that presents the data block slots 0..n-1 of an empty file (plus one optional
 * mapping-metadata slot) the way BLOCK_FLAG_APPEND does.
 *
 * Afterwards: every slot got its own block, written exactly once, inside a
 * cluster allocated by this call; every allocated cluster was free before and is
 * accounted exactly once; the file uses ceil(slots / RATIO) clusters and the
 * inode's i_blocks == clusters * cluster size / 512; every data block carries
 * the orphan block magic in its tail (and the checksum the library's own
 * verifier computes, with metadata_csum); i_size == n * blocksize; mode, link
 * count, EXTENTS flag; s_orphan_file_inum and the orphan_file feature are set.
 */
#include "lib/ext2fs/orphan.c"

#ifndef RATIO
#define RATIO 1
#endif
#if RATIO == 1
#define CB 0
#elif RATIO == 4
#define CB 2
#else
#error "RATIO must be 1 or 4"
#endif
#ifndef NMAX
#define NMAX 6			/* data blocks of the orphan file */
#endif
#define NC 8			/* clusters in the model */
#define VF_BS 1024u
#define NSLOT (NMAX + 1)	/* data slots + one metadata slot */

struct vf_in {
	__u32 num_blocks;
	unsigned char used;			/* pre-state: cluster c in use iff bit c (cluster 0 always) */
	unsigned char pick[NSLOT];		/* the allocator's choice at its k-th call */
	unsigned char fail_at;			/* the k-th allocation fails (>= NSLOT: none) */
	unsigned char meta_at;			/* a metadata slot precedes data slot meta_at (0 or >= n: none) */
	unsigned char extents, metadata_csum, huge_file, have_ino, super_only;
	__u32 newino, oldino, old_size, csum_seed;
	__u32 iter_i_blocks, iter_i_block0;	/* what the block iterator leaves in the on-disk inode */
};
VF_DECLARE_INPUT(struct vf_in, IN)
#include "vf_input.inc"

static struct struct_ext2_filsys vf_fs;
static struct ext2_super_block vf_sb;
static struct struct_io_channel vf_io;
static struct ext2_inode vf_disk;		/* the on-disk orphan inode */
static ext2_ino_t vf_ino;			/* the inode number the file must end up in */

static unsigned char vf_used[NC], vf_used0[NC];
static int vf_bad, vf_nalloc, vf_nstats, vf_double, vf_punched, vf_ialloc, vf_winode, vf_wnew;
static int vf_nslots, vf_ndata, vf_nmeta, vf_iter_calls, vf_not_changed, vf_no_abort;
static unsigned long long vf_slot_blk[NSLOT];
static int vf_slot_is_data[NSLOT];
static int vf_nw, vf_w_overflow;
static unsigned long long vf_w_blk[NSLOT];
static int vf_w_count[NSLOT], vf_w_magic_ok[NSLOT], vf_w_csum_ok[NSLOT], vf_w_zero_head[NSLOT];
static struct ext2_inode vf_final;

/* STUB: ext2fs_crc32c_le is a cheap deterministic mix (C14 covers the real CRC): it folds in the bytes of short inputs (rotate-xor) (inode number,
 * generation, block number) and only the length of long ones (the block body) */
__u32 ext2fs_crc32c_le(__u32 crc, unsigned char const *p, size_t len)
{
	__u32 w = 0;
	size_t i;
	if (len > 8)
		return ((crc << 5) | (crc >> 27)) ^ (__u32) len;
	for (i = 0; i < 8; i++)
		if (i < len)
			w ^= (__u32) p[i] << (8 * (i & 3)) ^ (i >= 4 ? 0x5a5a5a5au : 0);
	return ((crc << 3) | (crc >> 29)) ^ w;
}

/* STUB: inode I/O goes to one in-memory inode; ext2fs_new_inode hands out a symbolic free inode number */
errcode_t ext2fs_read_inode(ext2_filsys fs, ext2_ino_t ino, struct ext2_inode *inode)
{
	(void) fs;
	if (ino != vf_ino)
		vf_bad = 1;
	*inode = vf_disk;
	return 0;
}
errcode_t ext2fs_write_inode(ext2_filsys fs, ext2_ino_t ino, struct ext2_inode *inode)
{
	(void) fs;
	if (ino != vf_ino)
		vf_bad = 1;
	vf_disk = *inode;
	vf_winode++;
	return 0;
}
errcode_t ext2fs_write_new_inode(ext2_filsys fs, ext2_ino_t ino, struct ext2_inode *inode)
{
	(void) fs;
	if (ino != vf_ino)
		vf_bad = 1;
	vf_disk = *inode;
	vf_final = *inode;
	vf_wnew++;
	return 0;
}
errcode_t ext2fs_new_inode(ext2_filsys fs, ext2_ino_t dir, int mode, ext2fs_inode_bitmap map, ext2_ino_t *ret)
{
	(void) fs;
	if (dir != EXT2_ROOT_INO || mode != (LINUX_S_IFREG | 0600) || map != 0 || IN.have_ino)
		vf_bad = 1;
	*ret = IN.newino;
	return 0;
}
void ext2fs_inode_alloc_stats2(ext2_filsys fs, ext2_ino_t ino, int inuse, int isdir)
{
	(void) fs;
	if (ino != vf_ino || inuse != 1 || isdir != 0)
		vf_bad = 1;
	vf_ialloc++;
}
/* STUB: ext2fs_punch (old orphan file being truncated) is recorded */
errcode_t ext2fs_punch(ext2_filsys fs, ext2_ino_t ino, struct ext2_inode *inode, char *block_buf, blk64_t start, blk64_t end)
{
	(void) fs; (void) inode; (void) block_buf;
	if (ino != vf_ino || start != 0 || end != ~0ULL)
		vf_bad = 1;
	vf_punched++;
	return 0;
}

/* STUB: allocator model.  ext2fs_new_block2() returns the first block of a FREE cluster chosen by the input (any free cluster; the real
 * allocator returns cluster-aligned blocks) or fails at the k-th call; it must be called with map == NULL.  ext2fs_block_alloc_stats2()
 * accounts the cluster of the block: +1 only, never a cluster already in use. */
errcode_t ext2fs_new_block2(ext2_filsys fs, blk64_t goal, ext2fs_block_bitmap map, blk64_t *ret)
{
	int k = vf_nalloc++, c;
	unsigned pick = 0;
	(void) fs; (void) goal;
	if (map != 0 || k >= NSLOT)
		vf_bad = 1;
	if (k == IN.fail_at)
		return EXT2_ET_BLOCK_ALLOC_FAIL;
	for (c = 0; c < NSLOT; c++)
		if (c == k)
			pick = IN.pick[c];
	ASSUME(pick < NC);
	for (c = 0; c < NC; c++)
		if ((unsigned) c == pick)
			ASSUME(!vf_used[c]);
	*ret = (blk64_t) pick << CB;
	return 0;
}
void ext2fs_block_alloc_stats2(ext2_filsys fs, blk64_t blk, int inuse)
{
	int c;
	(void) fs;
	if (inuse != 1 || (blk >> CB) >= NC)
		vf_bad = 1;
	for (c = 0; c < NC; c++)
		if ((blk64_t) c == (blk >> CB)) {
			if (vf_used[c])
				vf_double = 1;
			vf_used[c] = 1;
		}
	vf_nstats++;
}

/* STUB: io_channel_write_blk64 records block, count, whether the buffer's tail carries the orphan block magic, whether its checksum is the
 * one the library's verifier (ext2fs_do_orphan_file_block_csum with the final inode's generation) computes for THAT block, and the first word */
errcode_t io_channel_write_blk64(io_channel ch, unsigned long long blk, int count, const void *data)
{
	const struct ext4_orphan_block_tail *tail =
		(const struct ext4_orphan_block_tail *) ((const char *) data + VF_BS - sizeof(struct ext4_orphan_block_tail));
	if (ch != &vf_io)
		vf_bad = 1;
	if (vf_nw >= NSLOT) {
		vf_w_overflow = 1;
		return 0;
	}
	vf_w_blk[vf_nw] = blk;
	vf_w_count[vf_nw] = count;
	vf_w_magic_ok[vf_nw] = tail->ob_magic == EXT4_ORPHAN_BLOCK_MAGIC;
	vf_w_csum_ok[vf_nw] = tail->ob_checksum ==
		ext2fs_do_orphan_file_block_csum(&vf_fs, vf_ino, 0 /* generation of a fresh inode */, blk, (char *) data);
	vf_w_zero_head[vf_nw] = *(const __u32 *) data == 0;
	vf_nw++;
	return 0;
}

/* STUB: ext2fs_block_iterate3() is a driver: for an empty file and BLOCK_FLAG_APPEND it presents data slots blockcnt 0, 1, 2, ... with
 * *blocknr == 0 until the callback aborts, and (optionally) one metadata slot (blockcnt -1) before data slot meta_at >= 1; it leaves
 * symbolic garbage in the on-disk inode's i_blocks / i_block[0] as the real iterator updates the inode itself */
errcode_t ext2fs_block_iterate3(ext2_filsys fs, ext2_ino_t ino, int flags, char *block_buf,
				int (*func)(ext2_filsys, blk64_t *, e2_blkcnt_t, blk64_t, int, void *), void *priv)
{
	int s, r, stop = 0;
	blk64_t b;
	(void) block_buf;
	vf_iter_calls++;
	if (fs != &vf_fs || ino != vf_ino || flags != BLOCK_FLAG_APPEND)
		vf_bad = 1;
	for (s = 0; s < NMAX + 1 && !stop; s++) {
		if (s >= 1 && s == IN.meta_at && vf_nslots < NSLOT) {
			b = 0;
			r = func(fs, &b, BLOCK_COUNT_IND, 0, 0, priv);
			if (!(r & BLOCK_CHANGED) && !(r & BLOCK_ABORT))
				vf_not_changed = 1;
			vf_slot_blk[vf_nslots] = b;
			vf_slot_is_data[vf_nslots] = 0;
			vf_nslots++;
			vf_nmeta++;
			if (r & BLOCK_ABORT)
				break;
		}
		if (s >= NMAX) {
			vf_no_abort = 1;	/* the callback asked for more than NMAX data blocks */
			break;
		}
		b = 0;
		r = func(fs, &b, s, 0, 0, priv);
		if (r & BLOCK_ABORT)
			stop = 1;
		if (r & BLOCK_CHANGED) {
			vf_slot_blk[vf_nslots] = b;
			vf_slot_is_data[vf_nslots] = 1;
			vf_nslots++;
			vf_ndata++;
		} else if (!stop)
			vf_not_changed = 1;
	}
	vf_disk.i_blocks = IN.iter_i_blocks;
	vf_disk.i_block[0] = IN.iter_i_block0;
	return 0;
}

int main(void)
{
	errcode_t rc;
	int c, s, t, nclus = 0, slots;
	__u32 n;

	VF_INPUT(IN);
	/* BOUND: orphan file of 1..NMAX blocks, 1 KiB blocks, cluster ratio RATIO, 8 clusters */
	ASSUME(IN.num_blocks >= 1 && IN.num_blocks <= NMAX);
	ASSUME(IN.extents <= 1 && IN.metadata_csum <= 1 && IN.huge_file <= 1 && IN.have_ino <= 1 && IN.super_only <= 1);
	ASSUME(IN.newino >= 12 && IN.oldino >= 12);
	n = IN.num_blocks;
	for (c = 0; c < NC; c++) {
		vf_used0[c] = (c == 0) ? 1 : (IN.used >> c) & 1;
		vf_used[c] = vf_used0[c];
	}
	vf_sb.s_magic = EXT2_SUPER_MAGIC;
	vf_sb.s_log_block_size = 0;
	vf_sb.s_log_cluster_size = CB;
	vf_sb.s_first_data_block = 0;
	vf_sb.s_blocks_count = NC * RATIO;
	vf_sb.s_rev_level = EXT2_DYNAMIC_REV;
	vf_sb.s_inode_size = 256;
	vf_sb.s_feature_incompat = IN.extents ? EXT3_FEATURE_INCOMPAT_EXTENTS : 0;
	vf_sb.s_feature_ro_compat = (CB ? EXT4_FEATURE_RO_COMPAT_BIGALLOC : 0) |
		(IN.metadata_csum ? EXT4_FEATURE_RO_COMPAT_METADATA_CSUM : 0) |
		(IN.huge_file ? EXT4_FEATURE_RO_COMPAT_HUGE_FILE : 0);
	vf_sb.s_orphan_file_inum = IN.have_ino ? IN.oldino : 0;
	vf_ino = IN.have_ino ? IN.oldino : IN.newino;
	/* ASSUME: the inode the file goes into is all zero on disk (fresh inode table) unless it is an existing orphan file, which then has a symbolic size */
	if (IN.have_ino) {
		vf_disk.i_size = IN.old_size;
		vf_disk.i_mode = LINUX_S_IFREG | 0600;
		vf_disk.i_links_count = 1;
	}
	vf_io.magic = EXT2_ET_MAGIC_IO_CHANNEL;
	vf_fs.magic = EXT2_ET_MAGIC_EXT2FS_FILSYS;
	vf_fs.super = &vf_sb;
	vf_fs.io = &vf_io;
	vf_fs.blocksize = VF_BS;
	vf_fs.cluster_ratio_bits = CB;
	vf_fs.csum_seed = IN.csum_seed;
	vf_fs.now = 1000;
	vf_fs.flags = EXT2_FLAG_RW | (IN.super_only ? EXT2_FLAG_SUPER_ONLY : 0);

	rc = ext2fs_create_orphan_file(&vf_fs, n);

	PROP(!vf_bad, "callees get the orphan inode, map == NULL, +1 accounting, BLOCK_FLAG_APPEND");
	PROP(!vf_double, "no cluster is accounted twice / no cluster in use is handed out");
	PROP(vf_iter_calls == 1 && !vf_no_abort && !vf_w_overflow, "one block iteration, stopped by the callback after num_blocks data blocks");
	if (IN.fail_at < vf_nalloc) {
		PROP(rc == EXT2_ET_BLOCK_ALLOC_FAIL, "an allocation failure is reported");
		PROP(!(vf_sb.s_feature_compat & EXT4_FEATURE_COMPAT_ORPHAN_FILE), "a failed creation does not announce an orphan file");
		return 0;
	}
	PROP(rc == 0, "creation succeeds when every callee succeeds");
	PROP(!vf_not_changed, "every slot is given a block");
	PROP(vf_ndata == (int) n, "exactly num_blocks data blocks are created");
	slots = vf_nslots;

	/* every slot: its own block, written once, inside a cluster allocated by this call */
	PROP(vf_nw == slots, "one block write per slot");
	for (s = 0; s < NSLOT; s++) {
		int in_new = 0;
		if (s >= slots)
			continue;
		PROP(vf_w_blk[s] == vf_slot_blk[s] && vf_w_count[s] == 1, "the block handed back to the iterator is the block written");
		for (c = 0; c < NC; c++)
			if ((vf_slot_blk[s] >> CB) == (unsigned) c && vf_used[c] && !vf_used0[c])
				in_new = 1;
		PROP(in_new, "every block of the file lies in a cluster allocated (and accounted) by this call");
		for (t = 0; t < NSLOT; t++)
			if (t < s)
				PROP(vf_slot_blk[t] != vf_slot_blk[s], "slots get distinct blocks");
		if (vf_slot_is_data[s]) {
			PROP(vf_w_magic_ok[s] && vf_w_zero_head[s], "data blocks are empty orphan blocks with the magic in the tail");
			if (IN.metadata_csum)
				PROP(vf_w_csum_ok[s], "with metadata_csum the tail checksum is the one computed for that block");
		} else
			PROP(!vf_w_magic_ok[s] && vf_w_zero_head[s], "mapping metadata blocks are initialised from the zero buffer");
	}

	/* accounting */
	for (c = 0; c < NC; c++)
		nclus += vf_used[c] - vf_used0[c];
	PROP(nclus == vf_nstats && vf_nstats == vf_nalloc, "each allocated cluster is accounted exactly once");
	PROP(nclus == (slots + RATIO - 1) / RATIO, "the file occupies ceil(blocks / cluster ratio) clusters");
	PROP(vf_wnew == 1, "the inode is written once at the end");
	PROP(vf_final.i_blocks == (__u32) nclus * RATIO * (VF_BS / 512) && vf_final.osd2.linux2.l_i_blocks_hi == 0,
	     "i_blocks == allocated clusters * cluster size / 512");
	PROP(vf_final.i_size == n * VF_BS && vf_final.i_size_high == 0, "i_size == num_blocks * blocksize");
	PROP(vf_final.i_links_count == 1 && vf_final.i_mode == (LINUX_S_IFREG | 0600), "regular file, mode 0600, one link");
	PROP(((vf_final.i_flags & EXT4_EXTENTS_FL) != 0) == (IN.extents != 0), "extent-mapped iff the extents feature is on");
	PROP(vf_final.i_generation == 0, "generation as used for the block checksums");
	PROP(vf_final.i_mtime == 1000 && vf_final.i_ctime == 1000 && vf_final.i_atime == 1000, "timestamps set");

	/* superblock */
	PROP(vf_sb.s_orphan_file_inum == vf_ino, "s_orphan_file_inum names the inode");
	PROP(vf_sb.s_feature_compat & EXT4_FEATURE_COMPAT_ORPHAN_FILE, "orphan_file feature set");
	PROP(!(vf_sb.s_feature_ro_compat & EXT4_FEATURE_RO_COMPAT_ORPHAN_PRESENT), "orphan_present not set on an empty orphan file");
	PROP((vf_fs.flags & EXT2_FLAG_DIRTY) && !(vf_fs.flags & EXT2_FLAG_SUPER_ONLY), "superblock dirty, group descriptors will be written too");
	if (IN.have_ino)
		PROP(vf_ialloc == 0 && vf_punched == (IN.old_size != 0), "an existing orphan inode is reused, its old blocks released first");
	else
		PROP(vf_ialloc == 1 && vf_punched == 0, "a new inode is allocated and accounted once");
	VF_END();
	return 0;
}
