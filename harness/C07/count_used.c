/*
 * C07/count_used: ext2fs_count_used_blocks(fs, start, end) -- the function
 * ext2fs_reserve_super_and_bgd2() (per-group overhead in ext2fs_initialize) and
 * mke2fs (s_overhead_clusters, via ext2fs_count_used_clusters) use to count the
 * blocks in use in the INCLUSIVE range [start, end] -- equals the number of
 * set bits of that range, for an ARBITRARY bitmap content and range.
 *
 * Real stack: gen_bitmap64.c dispatch + bit-array back end (C16 decides that back
 * end against the set model; here its representation is injected directly).
 *
 * The query is split (as C20 does for its known finding):
 *   default   ranges/bitmaps where the scan does not stop one block short
 *   -DEDGE    start == end with that block in use, or the pattern
 *             "in use, free, in use" ending exactly at `end'
 */
#include "lib/ext2fs/blkmap64_ba.c"
#include "env.c"

#ifndef N
#define N 8
#endif
#ifndef START
#define START 1
#endif

struct vf_in {
	unsigned char bits[(N + 7) / 8];
	unsigned long long s, e;
};
VF_DECLARE_INPUT(struct vf_in, IN)
#include "vf_input.inc"

static struct struct_ext2_filsys vf_fs;
static struct ext2_super_block vf_sb;

static int ref_bit(int i)
{
	return (IN.bits[i >> 3] >> (i & 7)) & 1;
}

int main(void)
{
	ext2fs_generic_bitmap bm = 0;
	ext2fs_generic_bitmap_64 b64;
	ext2fs_ba_private bp;
	errcode_t rc;
	blk64_t got = 0;
	unsigned long long want = 0;
	int i, edge;

	VF_INPUT(IN);
	vf_fs.super = &vf_sb;
	/* BOUND: bitmap of N=8 blocks starting at block START, cluster ratio 1 */
	rc = ext2fs_alloc_generic_bmap(&vf_fs, EXT2_ET_MAGIC_BLOCK_BITMAP64, EXT2FS_BMAP64_BITARRAY,
				       START, START + N - 1, START + N - 1, 0, &bm);
	ASSUME(rc == 0 && bm != 0);
	b64 = (ext2fs_generic_bitmap_64) bm;
	bp = (ext2fs_ba_private) b64->private;
	for (i = 0; i < (N + 7) / 8; i++)
		bp->bitarray[i] = IN.bits[i];
	vf_fs.block_map = bm;

	ASSUME(IN.s >= START && IN.s <= IN.e && IN.e <= START + N - 1);
	for (i = 0; i < N; i++)
		if ((unsigned long long) i + START >= IN.s && (unsigned long long) i + START <= IN.e)
			want += ref_bit(i);

	/* the two shapes on which the scan `while (start < end)' ends one block early */
	edge = 0;
	for (i = 0; i < N; i++) {
		if ((unsigned long long) i + START != IN.e || !ref_bit(i))
			continue;
		if (IN.s == IN.e)
			edge = 1;
		else if (i >= 2 && (unsigned long long) i - 2 + START >= IN.s && !ref_bit(i - 1) && ref_bit(i - 2))
			edge = 1;
	}
#ifdef EDGE
	ASSUME(edge);
#else
	ASSUME(!edge);
#endif

	rc = ext2fs_count_used_blocks(&vf_fs, IN.s, IN.e, &got);
	PROP(rc == 0, "count_used_blocks succeeds on an in-range request");
#ifdef EDGE
	PROP(got == want, "count_used_blocks counts a used block at `end' that follows a free one (or start == end)");
#else
	PROP(got == want, "count_used_blocks == number of set bits in [start, end]");
#endif
	VF_END();
	return 0;
}
