/*
 * c07_geom.h -- a symbolic, already-initialised filesystem geometry for the
 * C07 kernels that run AFTER ext2fs_initialize() fixed the geometry
 * (reserve_super_and_bgd, group tiling, table allocation).
 *
 * Discrete shape is compile time (guide rule 2):
 *   LOGBS       s_log_block_size (0: 1 KiB, 2: 4 KiB)
 *   DESC_SHIFT  descriptor size 32 << DESC_SHIFT (0: no 64bit feature)
 *   BPG         (optional) concrete blocks per group; symbolic if undefined
 * Everything else (group count, size of the last group, feature bits,
 * s_first_meta_bg, reserved GDT blocks, sparse_super2 backup groups, inode
 * table size) is symbolic.
 */
#ifndef LOGBS
#define LOGBS 0
#endif
#ifndef DESC_SHIFT
#define DESC_SHIFT 0
#endif
#define VF_BS (1024u << LOGBS)
#define VF_FIRST (LOGBS == 0 ? 1u : 0u)		/* s_first_data_block without bigalloc */
#define VF_DPB (VF_BS / (32u << DESC_SHIFT))	/* descriptors per block */

struct vf_geom {
	__u32 ngroups, bpg, last_group_blocks;
	__u32 first_meta_bg, reserved_gdt, itb;
	unsigned char meta_bg, sparse, sparse2;
	__u32 backup_bgs[2];
};

static struct struct_ext2_filsys vf_fs;
static struct ext2_super_block vf_sb;
static __u32 vf_desc_blocks;
static unsigned long long vf_blocks_count;

#ifdef BPG
#define VF_BPG ((__u32) BPG)
#else
static __u32 vf_bpg;
#define VF_BPG vf_bpg
#endif

/* maxg: bound on the number of groups of this query (0: none) */
static void vf_geom_setup(const struct vf_geom *vf_g, __u32 maxg)
{
	ASSUME(vf_g->ngroups >= 1);
	if (maxg)
		ASSUME(vf_g->ngroups <= maxg);
#ifdef BPG
	ASSUME(vf_g->bpg == BPG);
#else
	vf_bpg = vf_g->bpg;
#endif
	/* ASSUME: blocks per group as mke2fs accepts it: 256 .. 8*blocksize, multiple of 8 */
	ASSUME(vf_g->bpg >= 256 && vf_g->bpg <= 8 * VF_BS && (vf_g->bpg & 7) == 0);
	ASSUME(vf_g->last_group_blocks >= 1 && vf_g->last_group_blocks <= VF_BPG);
	ASSUME(vf_g->meta_bg <= 1 && vf_g->sparse <= 1 && vf_g->sparse2 <= 1);
	vf_desc_blocks = (vf_g->ngroups + VF_DPB - 1) / VF_DPB;
	/* ASSUME: s_first_meta_bg <= descriptor blocks (ext2fs_open2 enforces it); reserved GDT blocks <= pointers per block and only without meta_bg (ext2fs_initialize clears them) */
	ASSUME(vf_g->first_meta_bg <= vf_desc_blocks);
	if (!vf_g->meta_bg)
		ASSUME(vf_g->first_meta_bg == 0);
	ASSUME(vf_g->reserved_gdt <= VF_BS / 4);
	if (vf_g->meta_bg)
		ASSUME(vf_g->reserved_gdt == 0);
	if (vf_g->sparse2)
		ASSUME(vf_g->backup_bgs[0] < vf_g->ngroups && vf_g->backup_bgs[1] < vf_g->ngroups);
	ASSUME(vf_g->itb >= 1 && vf_g->itb < VF_BPG);
	vf_blocks_count = (unsigned long long) VF_FIRST +
		(unsigned long long) (vf_g->ngroups - 1) * VF_BPG + vf_g->last_group_blocks;
	/* BOUND: 32-bit block numbers unless the 64bit feature is on (DESC_SHIFT > 0) */
#if DESC_SHIFT == 0
	ASSUME(vf_blocks_count <= 0xffffffffull);
#endif

	vf_sb.s_magic = EXT2_SUPER_MAGIC;
	vf_sb.s_log_block_size = LOGBS;
	vf_sb.s_log_cluster_size = LOGBS;
	vf_sb.s_first_data_block = VF_FIRST;
	vf_sb.s_blocks_per_group = VF_BPG;
	vf_sb.s_clusters_per_group = VF_BPG;
	vf_sb.s_blocks_count = (__u32) vf_blocks_count;
	vf_sb.s_blocks_count_hi = (__u32) (vf_blocks_count >> 32);
	vf_sb.s_rev_level = EXT2_DYNAMIC_REV;
	vf_sb.s_inode_size = 128;
	vf_sb.s_desc_size = (DESC_SHIFT != 0) ? (32u << DESC_SHIFT) : 0;
	vf_sb.s_first_meta_bg = vf_g->first_meta_bg;
	vf_sb.s_reserved_gdt_blocks = vf_g->reserved_gdt;
	vf_sb.s_feature_incompat = (vf_g->meta_bg ? EXT2_FEATURE_INCOMPAT_META_BG : 0) |
		((DESC_SHIFT != 0) ? EXT4_FEATURE_INCOMPAT_64BIT : 0);
	vf_sb.s_feature_ro_compat = vf_g->sparse ? EXT2_FEATURE_RO_COMPAT_SPARSE_SUPER : 0;
	vf_sb.s_feature_compat = vf_g->sparse2 ? EXT4_FEATURE_COMPAT_SPARSE_SUPER2 : 0;
	vf_sb.s_backup_bgs[0] = vf_g->backup_bgs[0];
	vf_sb.s_backup_bgs[1] = vf_g->backup_bgs[1];
	vf_sb.s_state = EXT2_VALID_FS;

	vf_fs.magic = EXT2_ET_MAGIC_EXT2FS_FILSYS;
	vf_fs.super = &vf_sb;
	vf_fs.blocksize = VF_BS;
	vf_fs.cluster_ratio_bits = 0;
	vf_fs.group_desc_count = vf_g->ngroups;
	vf_fs.desc_blocks = vf_desc_blocks;
	vf_fs.inode_blocks_per_group = vf_g->itb;
	vf_fs.flags = EXT2_FLAG_RW;
}

/* independent: is g == b^k for some k >= 0 (repeated multiplication, 64 bit) */
static int ref_is_power(unsigned long long g, unsigned long long b)
{
	unsigned long long p = 1;
	int i;
	for (i = 0; i < 21; i++) {	/* 3^21 > 2^32 */
		if (p == g)
			return 1;
		if (p > g)
			return 0;
		p *= b;
	}
	return 0;
}

/* the on-disk format's rule for "group g carries a superblock copy" (Documentation/filesystems/ext4/blockgroup.rst) */
static int ref_has_super(const struct vf_geom *vf_g, __u32 g)
{
	if (g == 0)
		return 1;
	if (vf_g->sparse2)
		return g == vf_g->backup_bgs[0] || g == vf_g->backup_bgs[1];
	if (!vf_g->sparse)
		return 1;
	if (g == 1)
		return 1;
	return ref_is_power(g, 3) || ref_is_power(g, 5) || ref_is_power(g, 7);
}

/*
 * The format's layout of the head of group g, as a predicate on ONE block b:
 * is b the superblock copy / a (reserved) descriptor block of group g?
 *   - superblock copy: first block of a backup group;
 *   - old layout (no meta_bg, or descriptor block index of g's meta group <
 *     s_first_meta_bg): in backup groups the descriptor blocks (all of them
 *     plus the reserved ones; with meta_bg only the first s_first_meta_bg)
 *     follow the superblock;
 *   - meta_bg layout: the first, second and last group of each meta group
 *     carry ONE descriptor block, behind the superblock copy if there is one.
 */
static int ref_is_sb_or_gdt(const struct vf_geom *vf_g, __u32 g, unsigned long long b)
{
	unsigned long long gb = (unsigned long long) VF_FIRST + (unsigned long long) g * VF_BPG;
	int hs = ref_has_super(vf_g, g);
	unsigned long long old = vf_g->meta_bg ? vf_g->first_meta_bg :
		(unsigned long long) vf_desc_blocks + vf_g->reserved_gdt;

	if (hs && b == gb)
		return 1;
	if (!vf_g->meta_bg || g / VF_DPB < vf_g->first_meta_bg)
		return hs && b > gb && b <= gb + old;
	if (g % VF_DPB == 0 || g % VF_DPB == 1 || g % VF_DPB == VF_DPB - 1)
		return b == gb + (hs ? 1 : 0);
	return 0;
}

/* number of blocks the format puts at the head of group g (not clipped to the filesystem end) */
static __u32 ref_sb_gdt_blocks(const struct vf_geom *vf_g, __u32 g)
{
	int hs = ref_has_super(vf_g, g);
	__u32 n = hs ? 1 : 0;

	if (!vf_g->meta_bg || g / VF_DPB < vf_g->first_meta_bg) {
		if (hs)
			n += vf_g->meta_bg ? vf_g->first_meta_bg : vf_desc_blocks + vf_g->reserved_gdt;
	} else if (g % VF_DPB == 0 || g % VF_DPB == 1 || g % VF_DPB == VF_DPB - 1)
		n += 1;
	return n;
}
