META = {
    "assumptions": ["allocation failure out of scope (--no-malloc-may-fail)"],
    "outside": [
        "misc/mke2fs.c as a whole: PRS option validation, journal / quota / orphan file / root / lost+found / resize inode creation, "
        "-d population, -n, byte-for-byte reproducibility, e2fsck -fn verdict on the produced image (whole tool)",
        "ext2fs_allocate_tables beyond 3 groups x 16 blocks, RAID stride placement (fs->stride != 0), bigalloc, pre-existing table "
        "locations (resize2fs / e2fsck callers), arbitrary pre-state bitmaps (only superblock/descriptor heads + one bad block); "
        "mke2fs packed_allocate_tables (harness packed_tables.c written, no verdict within 300 s at 3 groups x 16 blocks: not registered; while building it the double accounting with -G 1 was found by reading and shown with the built tools: DESIGN.md A.4 observed)",
        "write_inode_tables with metadata_csum (write_reserved_inodes is cut) and the sync_kludge flushes; the zeroing itself "
        "(ext2fs_zero_blocks2) is a recording stub",
        "ext2fs_initialize beyond 4 groups x 256 blocks; bigalloc; the 'blocks_per_group -= 8' retry for oversized inode requests; "
        "non-zero reserved block count (floating-point recomputation); 4 KiB / 64bit shapes only in the thorough tier",
        "ext2fs_reserve_super_and_bgd2's composition (real marking + real count) is decided piecewise (reserve_sb with a logging bitmap, "
        "count_used on an 8-bit bit array), not as one query; bigalloc block-0 marking not covered",
        "journal: the allocator (ext2fs_fallocate), ext2fs_bmap2, inode and block I/O behind write_journal_inode are recording stubs; "
        "external journal devices (ext2fs_add_journal_device, write_journal_file on a mounted fs), mke2fs figure_journal_size / -J parsing",
        "orphan file: the real ext2fs_block_iterate3 / extent and indirect mapping code (driver stub), the real allocator (cluster model), "
        "the real CRC (mixing stub), files of more than 6 blocks, an orphan inode that is not zero on disk",
        "res_gdt.c ext2fs_create_resize_inode beyond 1 KiB blocks / 10 groups / 2 reserved GDT blocks and its existing-inode verification without sparse_super (no verdict in 300 s), mkquota.c, mk_hugefiles.c, create_inode.c, lib/e2p/feature.c",
    ],
}
BM_SRC = ["lib/ext2fs/gen_bitmap64.c", "lib/ext2fs/bitops.c", "lib/ext2fs/gen_bitmap.c",
          "lib/ext2fs/blkmap64_rb.c", "lib/ext2fs/rbtree.c"]

# (LOGBS, DESC_SHIFT): 1 KiB / 4 KiB blocks, 32-byte descriptors (no 64bit) / 64-byte descriptors (64bit)
SHAPES = [{"LOGBS": 0, "DESC_SHIFT": 0, "BPG": 8192}, {"LOGBS": 0, "DESC_SHIFT": 0, "BPG": 264},
          {"LOGBS": 2, "DESC_SHIFT": 0, "BPG": 32768}, {"LOGBS": 2, "DESC_SHIFT": 1, "BPG": 32768},
          {"LOGBS": 2, "DESC_SHIFT": 0, "BPG": 24568, "_tier": "thorough"},
          {"LOGBS": 0, "DESC_SHIFT": 1, "BPG": 8192, "_tier": "thorough"}]

def INIT_UW(maxg):
    # initialize.c back edges: .0 "blocks_per_group -= 8" retry (never: see BOUND), .1 "ipg--" (never with <= MAXG groups),
    # .2 "ipg += 8" (at most twice), .3 last-group trim retry (at most once), .4 per-group loop
    return ["ext2fs_initialize.0:1", "ext2fs_initialize.1:1", "ext2fs_initialize.2:3", "ext2fs_initialize.3:2",
            "ext2fs_initialize.4:%d" % (maxg + 1), "main.1:%d" % (maxg + 1), "test_root.0:4",
            "strcpy.0:24", "strcat.0:24", "strcat.1:24", "strlen.0:8"]

def AT_UW(bpg, maxg):
    nb = 1 + bpg * maxg
    return ["main.%d:%d" % (i, nb + 1) for i in range(13)] + \
           ["ref_marked_in_group.0:%d" % (nb + 1), "ext2fs_test_block_bitmap_range2.0:%d" % (nb + 1),
            "ext2fs_mark_generic_bmap.0:%d" % (nb + 1), "ext2fs_mark_block_bitmap_range2.0:%d" % (nb + 1),
            "vf_spec_get_free.0:%d" % (nb + 1), "ext2fs_allocate_tables.0:%d" % (maxg + 1),
            "ext2fs_allocate_group_table.0:5"]

RI_UW = ["ext2fs_create_resize_inode.0:11", "ext2fs_create_resize_inode.1:4", "ref_is_power.0:5"] + ["main.%d:257" % i for i in range(24)]

def PT_UW(bpg, maxg):
    nb = 1 + bpg * maxg
    return ["main.%d:%d" % (i, nb + 1) for i in range(24)] + \
           ["%s.0:%d" % (f, nb + 1) for f in ("ref_marked_in_group", "ext2fs_test_block_bitmap_range2", "ext2fs_mark_generic_bmap",
                                              "ext2fs_mark_block_bitmap_range2", "ext2fs_find_first_zero_generic_bmap")] + \
           ["packed_allocate_tables.%d:%d" % (i, maxg + 1) for i in range(3)] + \
           ["ext2fs_get_free_blocks2.0:%d" % (2 * nb + 2), "ext2fs_block_alloc_stats_range.0:5"]

import importlib.util as _ilu, os as _os
def _list_backups():
    """ext2fs_list_backups() -- the generator ext2fs_create_resize_inode() walks to lay out the reserved GDT blocks of every backup
    group -- enumerates exactly the backup groups, in order (source harness/C20/list_backups.c)"""
    p = _os.path.join(_os.path.dirname(_os.path.abspath(__file__)), "..", "C20", "spec.py")
    sp = _ilu.spec_from_file_location("spec_C20_for_C07", p)
    m = _ilu.module_from_spec(sp)
    sp.loader.exec_module(m)
    for h in m.HARNESSES:
        if h["name"] == "list_backups":
            d = dict(h)
            d["src"] = "../C20/list_backups.c"
            return [d]
    raise RuntimeError("C20 list_backups harness missing")

def _sbwrite():
    """write_backup_super() -- every backup superblock ext2fs_flush2 writes carries its own group number AND a checksum over the
    bytes as written (source harness/C14/sbwrite_t.c, backup-path configs only): a backup whose checksum does not match cannot be
    opened with e2fsck -b, i.e. it is not a backup 'where the format prescribes'"""
    p = _os.path.join(_os.path.dirname(_os.path.abspath(__file__)), "..", "C14", "spec.py")
    sp = _ilu.spec_from_file_location("spec_C14_for_C07", p)
    m = _ilu.module_from_spec(sp)
    sp.loader.exec_module(m)
    for h in m.HARNESSES:
        if h["name"] == "sbwrite_t":
            d = dict(h)
            d["src"] = "../C14/sbwrite_t.c"
            d["configs"] = [c for c in h["configs"] if c.get("MODE") == 1]
            return [d]
    raise RuntimeError("C14 sbwrite_t harness missing")

HARNESSES = [
    dict(name="reserve_sb", src="reserve_sb.c",
         extra_src=["lib/ext2fs/closefs.c", "lib/ext2fs/blknum.c"],
         funcs=["ext2fs_reserve_super_and_bgd", "ext2fs_super_and_bgd_loc2", "ext2fs_bg_has_super",
                "ext2fs_group_first_block2", "ext2fs_group_blocks_count"],
         configs=SHAPES,
         unwind=4, unwindset=["test_root.0:22", "ref_is_power.0:22", "main.1:5"],
         backends=["kissat"],
         bound="any group of any geometry: 1..2^32-1 groups, blocks per group 256..8*blocksize (multiple of 8), "
               "block size 1 KiB / 4 KiB, descriptor size 32 / 64, meta_bg + s_first_meta_bg, reserved GDT blocks, "
               "sparse_super / sparse_super2 + backup groups, short last group: all symbolic"),
    dict(name="group_tiling", src="group_tiling.c",
         funcs=["ext2fs_group_first_block2", "ext2fs_group_last_block2", "ext2fs_group_blocks_count",
                "ext2fs_group_of_blk2"],
         configs=SHAPES,
         unwind=4, backends=["z3", "kissat"],
         bound="any group / block of any geometry (as reserve_sb)"),
    dict(name="init_geom", src="init_geom.c",
         extra_src=["lib/ext2fs/closefs.c", "lib/ext2fs/blknum.c"],
         funcs=["ext2fs_initialize", "calc_reserved_gdt_blocks", "ext2fs_super_and_bgd_loc2", "ext2fs_bg_has_super",
                "ext2fs_group_blocks_count", "ext2fs_bg_free_blocks_count_set"],
         configs=[{"LOGBS": 0, "BPG": 256, "ISIZE": 128, "IS64": 0, "MAXG": 4},
                  # the two isolated defects of the unchanged tree (see harness comments / final report)
                  {"LOGBS": 0, "BPG": 256, "ISIZE": 128, "IS64": 0, "MAXG": 4, "AUTO_META_RSV": None},
                  # SS2_ONE_GROUP (one-group sparse_super2 geometry accepted although the group cannot hold its metadata)
                  # is NOT registered: ext2fs_initialize accepts it, but mke2fs then fails in table allocation and
                  # produces no filesystem, so C07 ("every configuration mke2fs ACCEPTS") is not violated; the query
                  # demanded more than the property states (see DESIGN.md part A, observations).
                  {"LOGBS": 0, "BPG": 256, "ISIZE": 256, "IS64": 1, "MAXG": 4, "_tier": "thorough"},
                  {"LOGBS": 2, "BPG": 32768, "ISIZE": 256, "IS64": 1, "MAXG": 3, "_unwindset": INIT_UW(3), "_tier": "thorough"}],
         unwind=3, unwindset=INIT_UW(4),
         backends=["kissat"], cap_quick=300,
         cap_thorough=1200,
         bound="1..4 groups of 256 blocks (1 KiB blocks, 128-byte inodes, 32-byte descriptors); block count, requested inode "
               "count (below the blocks_per_group-retry threshold), features {sparse_super, sparse_super2 + num_backup_sb, meta_bg, "
               "flex_bg + log_groups_per_flex, resize_inode, gdt_csum}, explicit s_reserved_gdt_blocks, revision: symbolic; "
               "r_blocks_count 0, s_first_meta_bg 0, bigalloc off"),
    dict(name="alloc_tables", src="alloc_tables.c", extra_src=["lib/ext2fs/blknum.c"],
         funcs=["ext2fs_allocate_tables", "ext2fs_allocate_group_table", "flexbg_offset",
                "ext2fs_bg_free_blocks_count_set", "ext2fs_free_blocks_count_add"],
         configs=[dict(FLEX=f, LGPF=l, BPG=16, MAXG=3, NG=ng, ITB=itb, _unwindset=AT_UW(16, 3), _tier=t)
                  for f, l, ng, itb, t in ((1, 0, 3, 2, "quick"), (0, 0, 3, 2, "quick"), (1, 1, 3, 2, "quick"),
                                           (1, 2, 3, 1, "thorough"), (1, 1, 2, 3, "thorough"))],
         # (FLEX=0, LGPF=1) is NOT registered: s_log_groups_per_flex != 0 without the flex_bg feature is rejected by mke2fs PRS
         # ("Flex_bg feature not enabled, so flex_bg size may not be specified"); on that input ext2fs_initialize skips the
         # pre-charge (it keys on s_log_groups_per_flex only) and ext2fs_allocate_group_table never charges (it needs the feature):
         # free counts end 2 + itb per group too high -- a library-level observation, outside "configurations mke2fs accepts".
         unwind=4, backends=["kissat"], cap_quick=300,
         bound="3 (thorough: also 2) groups of 16 blocks behind block 0, last group 8..16 blocks, inode table 2 (1, 3) blocks; "
               "flex_bg x s_log_groups_per_flex in {(1,0), (0,0), (1,1)} quick, (1,2) thorough; pre-state bitmap: per group "
               "a head of 0..4 blocks in use + one further block anywhere, accounting invariant of ext2fs_initialize; "
               "BLOCK_UNINIT flags symbolic; bitmap = set model, block search = specification decided by get_free"),
    dict(name="get_free", src="get_free.c", extra_src=["lib/ext2fs/blknum.c"],
         funcs=["ext2fs_get_free_blocks2"],
         configs=[{"NBLK": 10}],
         unwind=4, unwindset=["main.1:12", "vf_spec_get_free.0:12", "ext2fs_test_block_bitmap_range2.0:12",
                              "ext2fs_get_free_blocks2.0:24"],
         backends=["kissat", "default"],
         bound="filesystem of 2..10 blocks behind block 0, every bitmap content, start/finish in [0, blocks_count], count 0..10"),
    dict(name="itable_zero", src="itable_zero.c", extra_src=["lib/ext2fs/blknum.c"],
         cut_statics={"misc/mke2fs.c": ["write_reserved_inodes"]},
         funcs=["write_inode_tables", "ext2fs_inode_table_loc", "ext2fs_bg_itable_unused", "ext2fs_bg_flags_set"],
         configs=[{"LOGBS": lb, "ISIZE": isz, "MAXG": 3} for lb, isz in ((0, 256), (2, 256), (1, 128))] +
                 [{"LOGBS": lb, "ISIZE": isz, "MAXG": 3, "_tier": "thorough"} for lb, isz in ((0, 128), (1, 256), (2, 128))],
         unwind=5, unwindset=["write_inode_tables.0:4"],
         backends=["kissat", "default"],
         bound="1..3 groups, inodes per group 8..64, block size 1k/2k/4k x inode size 128/256 (per query), table locations < 2^31 "
               "(disjoint, possibly adjacent), bg_itable_unused / lazy_itable_init / itable_zeroed / gdt_csum symbolic"),
    dict(name="journal", src="journal.c", extra_src=["lib/ext2fs/blknum.c"],
         funcs=["ext2fs_add_journal_inode3", "write_journal_inode", "ext2fs_create_journal_superblock2",
                "get_midpoint_journal_block", "ext2fs_inode_size_set"],
         configs=[{"LOGBS": 0}, {"LOGBS": 2}],
         unwind=6, unwindset=["main.%d:17" % i for i in range(1, 8)] + ["ext2fs_fallocate.0:16"],
         backends=["kissat"],
         bound="num_journal_blocks, num_fc_blocks < 2^30 symbolic; flags (lazy init, v1 superblock), explicit / default goal, "
               "extents, fast_commit, pre-existing i_blocks / i_flags, allocator result (i_block[], i_blocks), UUID symbolic; "
               "1..4 groups of 8192 blocks for the midpoint goal; block size 1 KiB / 4 KiB"),
    dict(name="journal_params", src="journal_params.c", extra_src=["lib/ext2fs/blknum.c"],
         funcs=["ext2fs_get_journal_params", "ext2fs_default_journal_size"],
         configs=[{}], unwind=3, backends=["kissat", "z3"],
         bound="every block count below 2^48 (journal device: below 2^32), journal_dev and fast_commit symbolic, pairs of sizes for monotonicity"),
    dict(name="orphan", src="orphan.c", extra_src=["lib/ext2fs/i_block.c", "lib/ext2fs/blknum.c"],
         funcs=["ext2fs_create_orphan_file", "mkorphan_proc", "ext2fs_do_orphan_file_block_csum", "ext2fs_truncate_orphan_file",
                "ext2fs_iblk_add_blocks", "ext2fs_iblk_set", "ext2fs_inode_size_set"],
         configs=[{"RATIO": 4}, {"RATIO": 1}],
         unwind=10, backends=["kissat", "default"],
         bound="orphan file of 1..6 blocks (1 KiB), cluster ratio 4 / 1 (per query), 8 clusters with symbolic pre-state, allocator choice "
               "symbolic (any free cluster), k-th allocation may fail, one optional mapping-metadata slot, extents / metadata_csum / "
               "huge_file / existing-vs-new orphan inode / old size / csum seed symbolic"),
    dict(name="resize_inode", src="resize_inode.c", extra_src=["lib/ext2fs/i_block.c", "lib/ext2fs/blknum.c"],
         funcs=["ext2fs_create_resize_inode", "ext2fs_list_backups", "ext2fs_iblk_add_blocks", "ext2fs_iblk_set", "ext2fs_inode_size_set"],
         configs=[{"MODE": 0, "SPARSE": 1}, {"MODE": 0, "SPARSE": 0}, {"MODE": 0, "SPARSE": 2, "DB": 255},
                  {"MODE": 1, "SPARSE": 2},
                  {"MODE": 1, "SPARSE": 2, "DB": 255, "_tier": "thorough"},
                  {"MODE": 1, "SPARSE": 1, "FDB": 0, "DB": 3, "_tier": "thorough"}],
         # {"MODE": 1, "SPARSE": 0} (existing inode, every group a backup: 9 entries per block) is not registered: no verdict within 300 s.
         unwind=4, unwindset=RI_UW,
         backends=["kissat", "default"], cap_quick=300,
         bound="1 KiB blocks (256 addresses per block), 8192 blocks per group, 1..10 groups, 0..2 reserved GDT blocks, desc_blocks 1 / 3 / 255 "
               "(255: the double-indirect slot index wraps), s_first_data_block 1 / 0, no sparse / sparse_super / sparse_super2 with symbolic "
               "s_backup_bgs; pre-state: no resize inode, or an existing one with symbolic inode, double-indirect block and reserved GDT block contents"),
    dict(name="count_used", src="count_used.c", extra_src=BM_SRC,
         funcs=["ext2fs_count_used_blocks", "ext2fs_find_first_set_generic_bmap",
                "ext2fs_find_first_zero_generic_bmap", "ba_find_first_set", "ba_find_first_zero"],
         configs=[{"N": 8}, {"N": 8, "EDGE": None}],
         unwind=4, unwindset=["main.1:2", "main.2:9", "main.3:9", "ext2fs_count_used_blocks.0:6"] +
                   ["ba_find_first_%s.%d:9" % (w, i) for w in ("set", "zero") for i in range(5)],
         backends=["default"],
         bound="bit-array bitmap of 8 blocks (first block 1), every content, every range start <= end"),
]
# NOT registered yet (kissat: no verdict within 300 s at BPG=16; needs shrinking): harness packed_tables.c
_PENDING = [
    dict(name="packed_tables", src="packed_tables.c",
         extra_src=["lib/ext2fs/alloc.c", "lib/ext2fs/alloc_stats.c", "lib/ext2fs/blknum.c"],
         funcs=["packed_allocate_tables", "ext2fs_new_block2", "ext2fs_new_block3", "ext2fs_get_free_blocks2", "ext2fs_clear_block_uninit",
                "ext2fs_block_alloc_stats2", "ext2fs_block_alloc_stats_range", "ext2fs_group_of_blk2", "ext2fs_group_last_block2"],
         configs=[dict(LGPF=l, BPG=16, MAXG=3, NG=ng, ITB=itb, _unwindset=PT_UW(16, 3), _tier=t)
                  for l, ng, itb, t in ((1, 3, 2, "quick"), (2, 3, 1, "quick"), (1, 2, 3, "quick"), (4, 3, 3, "thorough"))],
         # (LGPF=0, i.e. mke2fs -O flex_bg -G 1 -E packed_meta_blocks=1) is NOT registered: GENUINE DEFECT of the unchanged tree.
         # ext2fs_initialize pre-charges 2 + inode_blocks_per_group blocks to every group when s_log_groups_per_flex == 0 and
         # packed_allocate_tables charges the same tables again through ext2fs_block_alloc_stats*: PROP "bg_free_blocks_count ==
         # group size - blocks of the group marked" fails (each group 2 + itb too low, s_free_blocks_count likewise).  Reproduced with
         # the built tools: mke2fs -t ext4 -O flex_bg,^has_journal,^resize_inode -G 1 -E packed_meta_blocks=1 img 8M; e2fsck -fn img ->
         # "Free blocks count wrong for group #0 (1973, counted=2007)", exit 4.
         unwind=4, backends=["kissat"], cap_quick=300,
         bound="3 (also 2) groups of 16 blocks behind block 0, last group 8..16 blocks, inode table 2 (1, 3) blocks, flex_bg with "
               "s_log_groups_per_flex 1 / 2 (4 thorough); pre-state bitmap: per group a head of 0..4 blocks in use + one further block "
               "anywhere, accounting invariant of ext2fs_initialize, BLOCK_UNINIT flags symbolic; bitmap = set model, allocator entry points real"),
]
def _clamptime():
    """reproducible output of mke2fs -d: every source timestamp is clamped to the fixed clock, 0 included (source harness/C18/clamptime.c)"""
    p = _os.path.join(_os.path.dirname(_os.path.abspath(__file__)), "..", "C18", "spec.py")
    sp = _ilu.spec_from_file_location("spec_C18_for_C07", p)
    m = _ilu.module_from_spec(sp)
    sp.loader.exec_module(m)
    for h in m.HARNESSES:
        if h["name"] == "clamptime":
            d = dict(h)
            d["src"] = "../C18/clamptime.c"
            return [d]
    raise RuntimeError("C18 clamptime harness missing")
HARNESSES += _list_backups()
HARNESSES += _sbwrite()
HARNESSES += _clamptime()

MANIFEST = {
    "text": "Bounded-exhaustive checks of the library kernels mke2fs composes: within each harness's stated bounds "
            "the verdict covers every geometry / group / block. The whole-tool statement (e2fsck-clean image for every "
            "accepted option combination) is outside.",
    "note": "Trusted: CBMC's C semantics, the harness's restatement of the on-disk layout rules, the bitmap set model "
            "(C16). Bounds and stubs listed in evidence/C07.json.",
}
