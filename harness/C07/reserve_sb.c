/*
 * C07/reserve_sb: ext2fs_reserve_super_and_bgd() + ext2fs_super_and_bgd_loc2()
 * mark in the block bitmap EXACTLY the blocks the on-disk format assigns to the
 * superblock copy and the (reserved) group descriptor blocks of group g -- for an
 * arbitrary group of an arbitrary geometry (pattern T: the bitmap is a logging
 * stub, the subject is WHICH blocks are handed to it).
 *
 * Asked for ONE symbolic block b of the filesystem: b is marked  <=>  the format
 * says b is superblock/descriptor space of group g (clipped to the filesystem
 * end).  Nothing outside the filesystem is marked.  The returned free count is
 * group size - 2 bitmaps - inode table - (unclipped) head blocks.
 */
#include "lib/ext2fs/alloc_sb.c"
#include "c07_geom.h"

struct vf_in {
	struct vf_geom g;
	__u32 group;
	unsigned long long b;
};
VF_DECLARE_INPUT(struct vf_in, IN)
#include "vf_input.inc"

#define MAXLOG 4
static int vf_nlog, vf_log_overflow, vf_foreign_bitmap;
static unsigned long long vf_lstart[MAXLOG], vf_llen[MAXLOG];
static struct ext2fs_struct_generic_bitmap_base vf_bmap_obj;

static void vf_log(ext2fs_generic_bitmap bm, unsigned long long s, unsigned long long n)
{
	if (bm != (ext2fs_generic_bitmap) &vf_bmap_obj)
		vf_foreign_bitmap = 1;
	if (vf_nlog >= MAXLOG) {
		vf_log_overflow = 1;
		return;
	}
	vf_lstart[vf_nlog] = s;
	vf_llen[vf_nlog] = n;
	vf_nlog++;
}
/* STUB: ext2fs_mark_generic_bmap / ext2fs_mark_block_bitmap_range2 log (start, length); the bitmap back ends are C16's subject */
int ext2fs_mark_generic_bmap(ext2fs_generic_bitmap bm, __u64 arg)
{
	vf_log(bm, arg, 1);
	return 0;
}
void ext2fs_mark_block_bitmap_range2(ext2fs_block_bitmap bm, blk64_t block, unsigned int num)
{
	vf_log((ext2fs_generic_bitmap) bm, block, num);
}

int main(void)
{
	int ret, k, marked = 0, want;
	long long want_ret;
	__u32 gblocks;

	VF_INPUT(IN);
	/* BOUND: any number of groups up to 2^32-1 (block numbers 32 bit unless DESC_SHIFT > 0), any group */
	vf_geom_setup(&IN.g, 0);
	ASSUME(IN.group < IN.g.ngroups);
	/* ASSUME: every group has room for its superblock copy and one descriptor block (ext2fs_initialize drops a last group smaller than its overhead + 50) */
	ASSUME(IN.g.last_group_blocks >= 2);

	ret = ext2fs_reserve_super_and_bgd(&vf_fs, IN.group, (ext2fs_block_bitmap) &vf_bmap_obj);

	PROP(!vf_log_overflow && !vf_foreign_bitmap, "marks go to the bitmap passed in, at most 4 calls");
	for (k = 0; k < MAXLOG; k++) {
		if (k >= vf_nlog)
			continue;
		PROP(vf_lstart[k] + vf_llen[k] <= vf_blocks_count && vf_lstart[k] + vf_llen[k] >= vf_lstart[k],
		     "no block beyond the end of the filesystem is marked");
		if (IN.b >= vf_lstart[k] && IN.b - vf_lstart[k] < vf_llen[k])
			marked = 1;
	}
	ASSUME(IN.b < vf_blocks_count);
	want = ref_is_sb_or_gdt(&IN.g, IN.group, IN.b);
	PROP(marked == want, "block is marked iff the format makes it superblock/descriptor space of this group");

	gblocks = (IN.group == IN.g.ngroups - 1) ? IN.g.last_group_blocks : VF_BPG;
	want_ret = (long long) gblocks - 2 - IN.g.itb - ref_sb_gdt_blocks(&IN.g, IN.group);
	PROP(ret == (int) want_ret, "returned free count = group size - bitmaps - inode table - superblock/descriptor blocks");
	VF_END();
	return 0;
}
