/*
 * C07/get_free: the real ext2fs_get_free_blocks2() (alloc.c) against its
 * specification vf_spec_get_free() (c07_bmodel.h), which harness alloc_tables uses
 * in its place: same verdict and same block for EVERY bitmap content, start,
 * finish and count -- including the wrap-around mode (finish <= start).
 */
#include "lib/ext2fs/alloc.c"

#ifndef NBLK
#define NBLK 10
#endif
#define VF_FIRST 1u
#define NB (VF_FIRST + NBLK)

struct vf_in {
	unsigned char bits[(NB + 7) / 8];
	__u32 blocks;
	unsigned long long start, finish;
	int num;
	unsigned char nullmap;
};
VF_DECLARE_INPUT(struct vf_in, IN)
#include "vf_input.inc"

static struct struct_ext2_filsys vf_fs;
static struct ext2_super_block vf_sb;
#include "c07_bmodel.h"

int main(void)
{
	errcode_t rc, want;
	blk64_t got = 0, exp = 0;
	unsigned p;

	VF_INPUT(IN);
	/* BOUND: filesystem of 2..NBLK blocks behind s_first_data_block 1, cluster ratio 1; start, finish inside [0, blocks_count], count 0..NBLK */
	ASSUME(IN.blocks >= VF_FIRST + 2 && IN.blocks <= NB);
	ASSUME(IN.start <= IN.blocks && IN.finish <= IN.blocks);
	ASSUME(IN.num >= 0 && IN.num <= NBLK);
	vf_blocks_count = IN.blocks;
	vf_sb.s_magic = EXT2_SUPER_MAGIC;
	vf_sb.s_first_data_block = VF_FIRST;
	vf_sb.s_blocks_count = IN.blocks;
	vf_sb.s_blocks_per_group = 8192;
	vf_fs.magic = EXT2_ET_MAGIC_EXT2FS_FILSYS;
	vf_fs.super = &vf_sb;
	vf_fs.blocksize = 1024;
	vf_fs.block_map = &vf_bmap_obj;
	for (p = 0; p < NB; p++)
		M[p] = (p < IN.blocks) ? (IN.bits[p >> 3] >> (p & 7)) & 1 : 0;

	want = vf_spec_get_free(IN.start, IN.finish, IN.num, &exp);
	/* ASSUME: not one of the argument/bitmap combinations on which the real search loop never terminates (nothing free on a wrapped search that cannot meet `finish'); alloc_tables asserts no such call is made */
	ASSUME(!vf_hang);
	rc = ext2fs_get_free_blocks2(&vf_fs, IN.start, IN.finish, IN.num, (IN.nullmap & 1) ? 0 : &vf_bmap_obj, &got);
	PROP(!vf_bad_call, "only in-range ranges of fs->block_map are tested");
	PROP(rc == want, "same verdict as the specification");
	if (!rc)
		PROP(got == exp, "same block as the specification (first fit in search order)");
	VF_END();
	return 0;
}
