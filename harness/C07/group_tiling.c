/*
 * C07/group_tiling: the group arithmetic every mke2fs step relies on
 * (blknum.c: ext2fs_group_first_block2, ext2fs_group_last_block2,
 * ext2fs_group_blocks_count, ext2fs_group_of_blk2) tiles
 * [s_first_data_block, s_blocks_count) without gap or overlap -- for EVERY
 * geometry and EVERY group / block, not for the geometries of the m_* tests.
 *
 * Reference: the definition of a block group (group g = blocks
 * first + g*bpg .. first + (g+1)*bpg - 1, the last group ends with the filesystem).
 */
#include "lib/ext2fs/blknum.c"
#include "c07_geom.h"

struct vf_in {
	struct vf_geom g;
	__u32 group;
	unsigned long long b;
};
VF_DECLARE_INPUT(struct vf_in, IN)
#include "vf_input.inc"

int main(void)
{
	unsigned long long first, last, nfirst;
	int cnt;
	__u32 gof;

	VF_INPUT(IN);
	/* BOUND: any number of groups up to 2^32-1 (block numbers 32 bit unless DESC_SHIFT > 0) */
	vf_geom_setup(&IN.g, 0);
	ASSUME(IN.group < IN.g.ngroups);

	first = ext2fs_group_first_block2(&vf_fs, IN.group);
	last = ext2fs_group_last_block2(&vf_fs, IN.group);
	cnt = ext2fs_group_blocks_count(&vf_fs, IN.group);

	PROP(first == (unsigned long long) VF_FIRST + (unsigned long long) IN.group * VF_BPG,
	     "group starts at first_data_block + g * blocks_per_group");
	PROP(last >= first && last < vf_blocks_count, "group is non-empty and ends inside the filesystem");
	PROP(cnt > 0 && (unsigned long long) cnt == last - first + 1, "ext2fs_group_blocks_count == last - first + 1");
	if (IN.group + 1 < IN.g.ngroups) {
		nfirst = ext2fs_group_first_block2(&vf_fs, IN.group + 1);
		PROP(nfirst == last + 1, "next group starts right after this one");
		PROP((__u32) cnt == VF_BPG, "only the last group may be short");
	} else {
		PROP(last == vf_blocks_count - 1, "last group ends with the filesystem");
		PROP((__u32) cnt == IN.g.last_group_blocks, "last group has the remaining blocks");
	}
	PROP(IN.group != 0 || first == vf_sb.s_first_data_block, "group 0 starts at s_first_data_block");

	/* inverse: every block of the filesystem belongs to exactly the group whose range contains it */
	ASSUME(IN.b >= VF_FIRST && IN.b < vf_blocks_count);
	gof = ext2fs_group_of_blk2(&vf_fs, IN.b);
	PROP(gof < IN.g.ngroups, "group of a block of the filesystem exists");
	PROP((gof == IN.group) == (IN.b >= first && IN.b <= last), "ext2fs_group_of_blk2 inverts the group ranges");
	VF_END();
	return 0;
}
