/*
 * C07/init_geom: the geometry ext2fs_initialize() (and calc_reserved_gdt_blocks)
 * derives from a SYMBOLIC parameter superblock is self-consistent whenever the
 * call succeeds: group count, descriptor blocks, inodes per group, inode table
 * size, inode count, trimming of a short last group, per-group and total free
 * block accounting.  The whole real function runs, including the last-group
 * retry and the per-group loop; only the bitmap allocators, the per-group
 * "reserve superblock + descriptors" callee and the checksum setter are stubs.
 *
 * Compile time per query: LOGBS (block size), BPG (requested blocks per group),
 * ISIZE (inode size), IS64 (64bit feature / 64-byte descriptors), MAXG.
 * Symbolic: block count, requested inode count, reserved blocks, feature bits
 * (sparse_super, sparse_super2, meta_bg, flex_bg, resize_inode, gdt_csum),
 * s_reserved_gdt_blocks, s_first_meta_bg, s_log_groups_per_flex, backup groups,
 * revision.
 */
#include "lib/ext2fs/initialize.c"

#ifndef LOGBS
#define LOGBS 0
#endif
#ifndef BPG
#define BPG 256
#endif
#ifndef ISIZE
#define ISIZE 128
#endif
#ifndef IS64
#define IS64 0
#endif
#ifndef MAXG
#define MAXG 4
#endif
#define VF_BS (1024u << LOGBS)
#define VF_FIRST (LOGBS == 0 ? 1u : 0u)

struct vf_in {
	__u32 blocks, inodes, r_blocks;
	__u32 rsv_gdt, first_meta_bg, log_flex;
	unsigned char sparse, sparse2, meta_bg, flex_bg, resize_inode, gdt_csum, rev1;
	unsigned char nbackup;		/* mke2fs -E num_backup_sb: 0, 1, 2 */
};
VF_DECLARE_INPUT(struct vf_in, IN)
#include "vf_input.inc"

/* ---- environment -------------------------------------------------------- */
static struct struct_io_channel vf_io;
static struct struct_io_manager vf_mgr;
static struct ext2fs_struct_generic_bitmap_base vf_bmap_obj, vf_imap_obj;
static int vf_reserve_calls, vf_reserve_order_ok = 1, vf_bad_bitmap;

/* STUB: io manager open() hands out a static channel; set_blksize succeeds */
static errcode_t stub_open(const char *name, int flags, io_channel *ch)
{
	(void) name; (void) flags;
	vf_io.magic = EXT2_ET_MAGIC_IO_CHANNEL;
	vf_io.manager = &vf_mgr;
	*ch = &vf_io;
	return 0;
}
static errcode_t stub_set_blksize(io_channel ch, int bs) { ch->block_size = bs; return 0; }
/* STUB: ext2fs_safe_getenv() returns NULL (no SOURCE_DATE_EPOCH / E2FSPROGS_FAKE_TIME); time() is fixed */
char *ext2fs_safe_getenv(const char *arg) { (void) arg; return 0; }
#ifndef VF_REPLAY
time_t time(time_t *t) { if (t) *t = 1000; return 1000; }
#endif
#ifndef VF_REPLAY
/* STUB: malloc() hands out, in call order, five static objects of the right TYPE (filsys, device name, superblock,
 * name buffer, one descriptor block): a byte-array superblock would make every geometry field an array read.
 * free() does nothing.  memset() of one of these objects is a whole-object zero assignment.  (Native replay uses libc.) */
static struct struct_ext2_filsys vf_fs_obj, vf_fs_zero;
static struct ext2_super_block vf_super_obj, vf_super_zero;
static char vf_name_obj[8], vf_buf_obj[128];
static unsigned char vf_gd_obj[VF_BS] __attribute__((aligned(8)));
static int vf_malloc_calls, vf_malloc_bad;
void *malloc(size_t size)
{
	switch (vf_malloc_calls++) {
	case 0: if (size != sizeof(vf_fs_obj)) vf_malloc_bad = 1; return &vf_fs_obj;
	case 1: if (size > sizeof(vf_name_obj)) vf_malloc_bad = 1; return vf_name_obj;
	case 2: if (size != sizeof(vf_super_obj)) vf_malloc_bad = 1; return &vf_super_obj;
	case 3: if (size > sizeof(vf_buf_obj)) vf_malloc_bad = 1; return vf_buf_obj;
	case 4: if (size > sizeof(vf_gd_obj)) vf_malloc_bad = 1; return vf_gd_obj;
	}
	vf_malloc_bad = 1;
	return 0;
}
void free(void *p) { (void) p; }
void *memset(void *s, int c, size_t n)
{
	if (s == (void *) &vf_fs_obj && c == 0 && n == sizeof(vf_fs_obj))
		vf_fs_obj = vf_fs_zero;
	else if (s == (void *) &vf_super_obj && c == 0 && n == sizeof(vf_super_obj))
		vf_super_obj = vf_super_zero;
	else if (s == (void *) vf_gd_obj && c == 0 && n <= sizeof(vf_gd_obj))
		__CPROVER_array_set(vf_gd_obj, (unsigned char) 0);
	else
		vf_malloc_bad = 1;
	return s;
}
#else
static int vf_malloc_bad;
#endif
/* STUB: bitmap allocators succeed and return an opaque object (the bitmap back ends are C16's subject) */
errcode_t ext2fs_allocate_subcluster_bitmap(ext2_filsys fs, const char *d, ext2fs_block_bitmap *ret)
{
	(void) fs; (void) d;
	*ret = &vf_bmap_obj;
	return 0;
}
errcode_t ext2fs_allocate_inode_bitmap(ext2_filsys fs, const char *d, ext2fs_inode_bitmap *ret)
{
	(void) fs; (void) d;
	*ret = &vf_imap_obj;
	return 0;
}
/* STUB: ext2fs_free() (error path only) does nothing */
void ext2fs_free(ext2_filsys fs) { (void) fs; }
/* STUB: ext2fs_group_desc_csum_set() does nothing (C14 covers it) */
void ext2fs_group_desc_csum_set(ext2_filsys fs, dgrp_t group) { (void) fs; (void) group; }
/* STUB: ext2fs_reserve_super_and_bgd2(fs, g, bmap, &n) reports n = number of superblock + descriptor blocks the
 * real ext2fs_super_and_bgd_loc2() places in group g, clipped to the group (harnesses reserve_sb + count_used decide
 * the real callee); it must be called once per group in ascending order with fs->block_map */
errcode_t ext2fs_reserve_super_and_bgd2(ext2_filsys fs, dgrp_t group, ext2fs_block_bitmap bmap, blk_t *desc_blocks)
{
	blk_t used = 0;
	blk_t gb = ext2fs_group_blocks_count(fs, group);

	if (group != (dgrp_t) vf_reserve_calls)
		vf_reserve_order_ok = 0;
	if (bmap != &vf_bmap_obj)
		vf_bad_bitmap = 1;
	vf_reserve_calls++;
	ext2fs_super_and_bgd_loc2(fs, group, 0, 0, 0, &used);
	*desc_blocks = used > gb ? gb : used;
	return 0;
}

int main(void)
{
	static struct ext2_super_block param;
	ext2_filsys fs = 0;
	struct ext2_super_block *sb;
	errcode_t rc;
	unsigned long long blocks, span, ninodes, sum_free = 0;
	__u32 G, bpg, ipg, itb, dpb, L, g, rsv;
	int flexacct;

	VF_INPUT(IN);
	/* BOUND: at most MAXG block groups of BPG blocks */
	ASSUME(IN.blocks >= 1 && IN.blocks <= VF_FIRST + (unsigned) MAXG * BPG);
	ASSUME(IN.sparse <= 1 && IN.sparse2 <= 1 && IN.meta_bg <= 1 && IN.flex_bg <= 1 &&
	       IN.resize_inode <= 1 && IN.gdt_csum <= 1 && IN.rev1 <= 1);
	ASSUME(IN.nbackup <= 2 && IN.log_flex <= 5);
	/* ASSUME: an explicit s_reserved_gdt_blocks comes with resize_inode and is at most one indirect block of pointers (mke2fs -E resize= computes it that way) */
	/* ASSUME: meta_bg and resize_inode are not requested together (mke2fs PRS rejects the combination) */
	ASSUME(!(IN.meta_bg && IN.resize_inode));
	ASSUME(IN.rsv_gdt == 0 || (IN.resize_inode && IN.rsv_gdt <= VF_BS / 4));
	/* ASSUME: feature bits other than those listed are clear; old revision (mke2fs -r 0) has no features and default inode size */
	if (!IN.rev1)
		ASSUME(!IN.sparse2 && !IN.meta_bg && !IN.flex_bg && !IN.resize_inode && !IN.gdt_csum && ISIZE == 128 && !IS64);
	/* ASSUME: reserved blocks below the block count (ext2fs_initialize rejects the rest anyway, kept symbolic below the bound) */
	/* BOUND: the requested inode count does not force the "blocks_per_group -= 8" retry (checked: the unwinding assertion of that back edge proves it is never taken under this assumption) */
	{
		__u32 g1 = (IN.blocks - VF_FIRST + BPG - 1) / BPG;
		ASSUME(IN.blocks > VF_FIRST);
		ASSUME(IN.inodes <= (g1 > 1 ? g1 - 1 : 1) * 8 * VF_BS);
	}

	param.s_log_block_size = LOGBS;
	param.s_blocks_per_group = BPG;
	param.s_blocks_count = IN.blocks;
	param.s_r_blocks_count = 0;	/* BOUND: no reserved blocks (the recomputation after trimming is floating point) */
	param.s_inodes_count = IN.inodes;
	param.s_rev_level = IN.rev1 ? EXT2_DYNAMIC_REV : EXT2_GOOD_OLD_REV;
	param.s_inode_size = ISIZE;
	param.s_reserved_gdt_blocks = IN.rsv_gdt;
	param.s_first_meta_bg = 0;	/* ASSUME: s_first_meta_bg 0, as mke2fs passes it (only the MKE2FS_FIRST_META_BG test hook sets it) */
	param.s_log_groups_per_flex = IN.flex_bg ? IN.log_flex : 0;
	param.s_feature_compat = (IN.resize_inode ? EXT2_FEATURE_COMPAT_RESIZE_INODE : 0) |
		(IN.sparse2 ? EXT4_FEATURE_COMPAT_SPARSE_SUPER2 : 0);
	param.s_feature_incompat = (IN.meta_bg ? EXT2_FEATURE_INCOMPAT_META_BG : 0) |
		(IN.flex_bg ? EXT4_FEATURE_INCOMPAT_FLEX_BG : 0) | (IS64 ? EXT4_FEATURE_INCOMPAT_64BIT : 0);
	param.s_feature_ro_compat = (IN.sparse ? EXT2_FEATURE_RO_COMPAT_SPARSE_SUPER : 0) |
		(IN.gdt_csum ? EXT4_FEATURE_RO_COMPAT_GDT_CSUM : 0);
	/* ASSUME: sparse_super2 backup groups as mke2fs passes them (-E num_backup_sb=0|1|2): {0,0}, {1,0}, {1,~0} */
	if (IN.sparse2) {
		param.s_backup_bgs[0] = IN.nbackup >= 1 ? 1 : 0;
		param.s_backup_bgs[1] = IN.nbackup >= 2 ? ~0u : 0;
	}

	vf_mgr.magic = EXT2_ET_MAGIC_IO_MANAGER;
	vf_mgr.open = stub_open;
	vf_mgr.set_blksize = stub_set_blksize;

	rc = ext2fs_initialize("vf", 0, &param, &vf_mgr, &fs);
	if (rc) {
		/* rejected configurations are outside the claim, but the reason must be one of the documented ones */
		PROP(rc == EXT2_ET_INVALID_ARGUMENT || rc == EXT2_ET_TOOSMALL || rc == EXT2_ET_TOO_MANY_INODES ||
		     rc == EXT2_ET_RES_GDT_BLOCKS, "rejection uses a documented error code");
		return 0;
	}
	PROP(fs != 0 && fs->super != 0, "success returns a filesystem handle");
	PROP(!vf_malloc_bad, "harness allocation model matches the allocation sequence of ext2fs_initialize");
	sb = fs->super;
	blocks = sb->s_blocks_count | (IS64 ? (unsigned long long) sb->s_blocks_count_hi << 32 : 0);
	G = fs->group_desc_count;
	bpg = sb->s_blocks_per_group;
	ipg = sb->s_inodes_per_group;
	itb = fs->inode_blocks_per_group;
	rsv = sb->s_reserved_gdt_blocks;

	/* --- requested geometry is honoured */
	PROP(fs->blocksize == VF_BS && sb->s_log_block_size == LOGBS && sb->s_first_data_block == VF_FIRST,
	     "block size and first data block as requested");
	PROP(bpg == BPG && sb->s_clusters_per_group == bpg, "blocks per group as requested");
	PROP(sb->s_inode_size == ISIZE, "inode size as requested");
	PROP(blocks <= IN.blocks && blocks > VF_FIRST, "block count never grows and is not empty");
	PROP(sb->s_r_blocks_count < blocks || sb->s_r_blocks_count == 0, "reserved blocks below the block count");

	/* --- groups cover the blocks exactly */
	span = blocks - VF_FIRST;
	PROP(G >= 1 && G <= MAXG, "group count within the bound");
	PROP((unsigned long long) (G - 1) * bpg < span && span <= (unsigned long long) G * bpg,
	     "group_desc_count == ceil((blocks - first_data_block) / blocks_per_group)");
	L = (__u32) (span - (unsigned long long) (G - 1) * bpg);
	PROP(blocks == IN.blocks || L == bpg, "the block count is only ever reduced to a whole number of groups");

	/* --- descriptor blocks */
	dpb = VF_BS / (IS64 ? 64 : 32);
	PROP(sb->s_desc_size == (IS64 ? 64 : 0), "descriptor size");
	PROP((fs->desc_blocks - 1) * dpb < G && G <= fs->desc_blocks * dpb, "desc_blocks == ceil(groups / descriptors per block)");

	/* --- inodes */
	PROP(ipg >= 8 && (ipg & 7) == 0, "inodes per group is a positive multiple of 8");
	PROP(ipg <= 8 * VF_BS, "one bitmap block holds the inode bitmap of a group");
	PROP(ipg % (VF_BS / ISIZE) == 0, "inodes per group fills whole inode table blocks");
	PROP((unsigned long long) itb * VF_BS >= (unsigned long long) ipg * ISIZE &&
	     (unsigned long long) (itb - 1) * VF_BS < (unsigned long long) ipg * ISIZE,
	     "inode table blocks per group == ceil(inodes per group * inode size / block size)");
	ninodes = (unsigned long long) ipg * G;
	PROP(ninodes <= 0xffffffffull && sb->s_inodes_count == ninodes, "s_inodes_count == inodes per group * groups, no 32-bit wrap");
	PROP(sb->s_inodes_count >= sb->s_first_ino + 1 && sb->s_first_ino == 11, "room for the reserved inodes and one more");
#if (1024 << LOGBS) / ISIZE >= 8
	PROP(sb->s_inodes_count >= IN.inodes, "at least as many inodes as requested");
#else
	/* fewer than 8 inodes per block: rounding up to whole table blocks and then DOWN to a multiple of 8 can end below the request */
	/* with fewer than 8 inodes per block the count is rounded DOWN to a multiple of 8 (mke2fs -b 1024 -I 256 -N 20
	 * gives 16): -N is a request that mke2fs documents as adjustable, so this is recorded as an observation in
	 * DESIGN.md and not asserted */
#endif
	PROP(sb->s_free_inodes_count == sb->s_inodes_count, "all inodes free");

	/* --- reserved GDT blocks / meta_bg switch */
	PROP(rsv <= VF_BS / 4, "reserved GDT blocks fit the resize inode's indirect block");
	/* the automatic switch with an EXPLICIT reservation is isolated in its own query (-DAUTO_META_RSV) */
#ifdef AUTO_META_RSV
	ASSUME(IN.rsv_gdt != 0 && !IN.meta_bg && (sb->s_feature_incompat & EXT2_FEATURE_INCOMPAT_META_BG));
#else
	ASSUME(!(IN.rsv_gdt != 0 && !IN.meta_bg && (sb->s_feature_incompat & EXT2_FEATURE_INCOMPAT_META_BG)));
#endif
#ifdef AUTO_META_RSV
	PROP(rsv == 0, "automatic switch to meta_bg also drops an explicitly requested s_reserved_gdt_blocks");
#endif
	if (sb->s_feature_incompat & EXT2_FEATURE_INCOMPAT_META_BG)
		PROP(IN.meta_bg || (rsv == 0 && !(sb->s_feature_compat & EXT2_FEATURE_COMPAT_RESIZE_INODE)),
		     "automatic switch to meta_bg drops resize_inode and the reserved GDT blocks");
	else
		PROP((unsigned long long) rsv + fs->desc_blocks <= (unsigned long long) bpg * 3 / 4,
		     "without meta_bg the descriptor area stays below 3/4 of a group");

	/* --- sparse_super2 backup groups normalised */
	if (IN.sparse2)
		PROP(sb->s_backup_bgs[0] < G && sb->s_backup_bgs[1] < G &&
		     (sb->s_backup_bgs[0] <= sb->s_backup_bgs[1] || sb->s_backup_bgs[1] == 0),
		     "sparse_super2 backup groups exist and are ordered");

	/* a one-group sparse_super2 filesystem with fewer than 2 backups is isolated in its own query (-DSS2_ONE_GROUP):
	 * the size check of the last group forgets that group 0 always carries superblock + descriptors */
#ifdef SS2_ONE_GROUP
	ASSUME(IN.sparse2 && G == 1 && IN.nbackup < 2);
#else
	ASSUME(!(IN.sparse2 && G == 1 && IN.nbackup < 2));
#endif
	/* --- every group holds its own metadata; free block accounting */
	PROP(vf_reserve_calls == (int) G && vf_reserve_order_ok && !vf_bad_bitmap,
	     "superblock/descriptor space reserved once per group, in order, in fs->block_map");
	flexacct = sb->s_log_groups_per_flex != 0;
	for (g = 0; g < MAXG; g++) {
		blk_t head = 0;
		__u32 gblocks, need;
		if (g >= G)
			continue;
		gblocks = (g == G - 1) ? L : bpg;
		ext2fs_super_and_bgd_loc2(fs, g, 0, 0, 0, &head);
		need = head + 2 + itb;
#ifdef SS2_ONE_GROUP
		PROP(gblocks >= need, "a single group (sparse_super2, < 2 backups) is large enough for superblock, descriptors, bitmaps and inode table");
#else
		PROP(gblocks >= need, "every group is large enough for its superblock copy, descriptors, bitmaps and inode table");
#endif
		/* the 50-block margin is ext2fs_initialize's own rule; it counts bitmaps, inode table and (in a backup group) superblock +
		 * descriptors, but not the single meta_bg descriptor block of a group without superblock copy */
		if (g == G - 1 && L != bpg)
			PROP(gblocks >= need + 50 - (ext2fs_bg_has_super(fs, g) ? 0 : head),
			     "a short last group keeps at least 50 blocks beyond its metadata");
		PROP(ext2fs_bg_free_blocks_count(fs, g) == gblocks - head - (flexacct ? 0 : 2 + itb),
		     "group free blocks == group size - metadata accounted at this stage");
		PROP(ext2fs_bg_free_inodes_count(fs, g) == ipg && ext2fs_bg_used_dirs_count(fs, g) == 0,
		     "group free inodes == inodes per group, no directories");
		sum_free += gblocks - head - (flexacct ? 0 : 2 + itb);
	}
	PROP((sb->s_free_blocks_count | (IS64 ? (unsigned long long) sb->s_free_blocks_hi << 32 : 0)) == sum_free,
	     "s_free_blocks_count == sum of the group free counts");
	VF_END();
	return 0;
}
