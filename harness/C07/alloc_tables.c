/*
 * C07/alloc_tables: ext2fs_allocate_tables() -> ext2fs_allocate_group_table() ->
 * flexbg_offset() (all real) place the block bitmap,
 * inode bitmap and inode table of every group
 *   (a) inside the filesystem (without flex packing: inside their own group), on
 *       blocks that were free before -- hence disjoint from superblock / descriptor /
 *       reserved GDT blocks and from anything else already in use -- and pairwise
 *       disjoint;
 *   (b) with the ACCOUNTING contract between ext2fs_initialize() and this step
 *       kept: afterwards, for every group, bg_free_blocks_count == group size -
 *       blocks of that group marked in the block bitmap, and s_free_blocks_count
 *       is their sum.  (ext2fs_initialize pre-charges 2 bitmaps + inode table to
 *       each group exactly when s_log_groups_per_flex == 0; harness init_geom
 *       decides that side.)
 *   (c) the block bitmap afterwards == before + exactly the allocated tables.
 *
 * Inductive step from an ARBITRARY block bitmap (superblock/descriptor heads, bad
 * blocks, anything) that satisfies the accounting invariant.  The bitmap is the
 * set model (STUB below; the back ends are C16's subject); block search is the
 * specification of ext2fs_get_free_blocks2() (harness get_free decides the real function against it).
 *
 * Per query: FLEX (flex_bg feature), LGPF (s_log_groups_per_flex), BPG, MAXG.
 */
#include "lib/ext2fs/alloc_tables.c"

#ifndef FLEX
#define FLEX 0
#endif
#ifndef LGPF
#define LGPF 0
#endif
#if LGPF && !FLEX
/* ASSUME: s_log_groups_per_flex != 0 only together with the flex_bg feature (mke2fs PRS rejects -G without flex_bg) */
#error "LGPF != 0 requires FLEX"
#endif
#ifndef BPG
#define BPG 16
#endif
#ifndef MAXG
#define MAXG 3
#endif
#define VF_FIRST 1u				/* 1 KiB blocks: s_first_data_block 1 */
#define NB (VF_FIRST + MAXG * BPG)		/* block numbers 0 .. NB-1 */

struct vf_in {
	__u32 ngroups, last_group_blocks, itb;
#ifdef ARBITRARY
	unsigned char bits[(NB + 7) / 8];
#else
	__u32 head[MAXG], bad;
#endif
	unsigned char uninit[MAXG];
};
VF_DECLARE_INPUT(struct vf_in, IN)
#include "vf_input.inc"

static struct struct_ext2_filsys vf_fs;
static struct ext2_super_block vf_sb;
static unsigned char vf_gd[MAXG * 32] __attribute__((aligned(8)));
#include "c07_bmodel.h"

/* STUB: ext2fs_get_free_blocks2() is its specification vf_spec_get_free() (first fit in the real function's search order);
 * harness get_free decides the real function against this specification */
errcode_t ext2fs_get_free_blocks2(ext2_filsys fs, blk64_t start, blk64_t finish, int num, ext2fs_block_bitmap map, blk64_t *ret)
{
	if (fs != &vf_fs || (map && map != &vf_bmap_obj))
		vf_bad_call = 1;
	return vf_spec_get_free(start, finish, num, ret);
}
/* STUB: ext2fs_group_desc_csum_set() does nothing (C14 covers it) */
void ext2fs_group_desc_csum_set(ext2_filsys fs, dgrp_t group) { (void) fs; (void) group; }

/* concrete group count / inode table size per query (optional): the search arguments become mostly concrete */
#ifdef NG
#define VF_NG ((__u32) NG)
#else
#define VF_NG IN.ngroups
#endif
#ifdef ITB
#define VF_ITB ((__u32) ITB)
#else
#define VF_ITB IN.itb
#endif

static __u32 vf_gsize(__u32 g)
{
	return g == VF_NG - 1 ? IN.last_group_blocks : BPG;
}
static __u32 ref_marked_in_group(const unsigned char *m, __u32 g)
{
	__u32 p, n = 0;
	for (p = 0; p < NB; p++)
		if (p >= VF_FIRST + g * BPG && p < VF_FIRST + g * BPG + vf_gsize(g))
			n += m[p];
	return n;
}

int main(void)
{
	errcode_t rc;
	__u32 g, h, p, k, pre = (LGPF == 0) ? 1 : 0;
	unsigned long long sum = 0;
	unsigned long long tb[MAXG][3], tl[MAXG][3];	/* start / length of block bitmap, inode bitmap, inode table */

	VF_INPUT(IN);
	/* BOUND: 1..MAXG groups of BPG blocks (last group 8..BPG), 1 KiB blocks, 32-byte descriptors, inode table 1..3 blocks, no RAID stride, bigalloc off */
	ASSUME(IN.ngroups >= 1 && IN.ngroups <= MAXG);
#ifdef NG
	ASSUME(IN.ngroups == NG);
#endif
#ifdef ITB
	ASSUME(IN.itb == ITB);
#endif
	ASSUME(IN.last_group_blocks >= 8 && IN.last_group_blocks <= BPG);
	ASSUME(IN.itb >= 1 && IN.itb <= 3);
	vf_blocks_count = VF_FIRST + (unsigned long long) (VF_NG - 1) * BPG + IN.last_group_blocks;

	vf_sb.s_magic = EXT2_SUPER_MAGIC;
	vf_sb.s_first_data_block = VF_FIRST;
	vf_sb.s_blocks_per_group = BPG;
	vf_sb.s_clusters_per_group = BPG;
	vf_sb.s_blocks_count = (__u32) vf_blocks_count;
	vf_sb.s_rev_level = EXT2_DYNAMIC_REV;
	vf_sb.s_inode_size = 128;
	vf_sb.s_feature_incompat = FLEX ? EXT4_FEATURE_INCOMPAT_FLEX_BG : 0;
	vf_sb.s_log_groups_per_flex = LGPF;
	vf_fs.magic = EXT2_ET_MAGIC_EXT2FS_FILSYS;
	vf_fs.super = &vf_sb;
	vf_fs.blocksize = 1024;
	vf_fs.group_desc_count = VF_NG;
	vf_fs.desc_blocks = 1;
	vf_fs.inode_blocks_per_group = VF_ITB;
	vf_fs.group_desc = (struct opaque_ext2_group_desc *) vf_gd;
	vf_fs.block_map = &vf_bmap_obj;
	vf_fs.stride = 0;

#ifdef ARBITRARY
	/* pre-state: arbitrary bitmap content inside the filesystem, block 0 (boot block, outside every group) unused */
	for (p = 0; p < NB; p++) {
		M0[p] = (p >= VF_FIRST && p < vf_blocks_count) ? (IN.bits[p >> 3] >> (p & 7)) & 1 : 0;
		M[p] = M0[p];
	}
#else
	/* BOUND: pre-state bitmap = per group a prefix of 0..4 blocks (superblock copy + descriptors + reserved GDT, as
	 * ext2fs_reserve_super_and_bgd marks them) plus at most one further block in use anywhere (a bad block) */
	for (g = 0; g < MAXG; g++)
		ASSUME(IN.head[g] <= 4);
	for (p = 0; p < NB; p++) {
		int m = 0;
		for (g = 0; g < MAXG; g++)
			if (g < VF_NG && p >= VF_FIRST + g * BPG && p < VF_FIRST + g * BPG + IN.head[g])
				m = 1;
		if (p == IN.bad)
			m = 1;
		M0[p] = (p >= VF_FIRST && p < vf_blocks_count) ? m : 0;
		M[p] = M0[p];
	}
#endif
	/* ASSUME: accounting invariant as ext2fs_initialize (+ handle_bad_blocks) leaves it: bg_free_blocks_count == group size -
	 * blocks marked in the group - (2 bitmaps + inode table, pre-charged exactly when s_log_groups_per_flex == 0);
	 * no table allocated yet; s_free_blocks_count is the sum */
	for (g = 0; g < MAXG; g++) {
		__u32 used;
		if (g >= VF_NG)
			continue;
		used = ref_marked_in_group(M0, g) + (pre ? 2 + VF_ITB : 0);
		ASSUME(used <= vf_gsize(g));
		ext2fs_bg_free_blocks_count_set(&vf_fs, g, vf_gsize(g) - used);
		ext2fs_bg_flags_set(&vf_fs, g, (IN.uninit[g] & 1) ? EXT2_BG_BLOCK_UNINIT : 0);
		sum += vf_gsize(g) - used;
	}
	ext2fs_free_blocks_count_set(&vf_sb, sum);

	rc = ext2fs_allocate_tables(&vf_fs);
	PROP(!vf_bad_call, "every bitmap request is inside the filesystem and goes to fs->block_map");
	PROP(!vf_hang, "no block search is started with arguments on which ext2fs_get_free_blocks2 would not terminate");
	if (rc) {
		/* no room: outside the claim */
		PROP(rc == EXT2_ET_BLOCK_ALLOC_FAIL, "the only failure is 'could not allocate block'");
		return 0;
	}

	/* (a) placement */
	for (g = 0; g < MAXG; g++) {
		if (g >= VF_NG)
			continue;
		tb[g][0] = ext2fs_block_bitmap_loc(&vf_fs, g); tl[g][0] = 1;
		tb[g][1] = ext2fs_inode_bitmap_loc(&vf_fs, g); tl[g][1] = 1;
		tb[g][2] = ext2fs_inode_table_loc(&vf_fs, g);  tl[g][2] = VF_ITB;
		for (k = 0; k < 3; k++) {
			PROP(tb[g][k] >= VF_FIRST && tb[g][k] + tl[g][k] <= vf_blocks_count, "table lies inside the filesystem");
#if !(FLEX && LGPF)
			PROP(tb[g][k] >= VF_FIRST + g * BPG && tb[g][k] + tl[g][k] <= VF_FIRST + g * BPG + vf_gsize(g),
			     "without flex_bg packing a group's tables lie inside the group");
#endif
			for (p = 0; p < NB; p++)
				if (p >= tb[g][k] && p - tb[g][k] < tl[g][k])
					PROP(!M0[p], "table blocks were free before (not superblock/descriptor/reserved/in-use blocks)");
			for (h = 0; h < MAXG; h++) {
				__u32 k2;
				if (h > g || h >= VF_NG)
					continue;
				for (k2 = 0; k2 < 3; k2++) {
					if (h == g && k2 >= k)
						continue;
					PROP(tb[g][k] + tl[g][k] <= tb[h][k2] || tb[h][k2] + tl[h][k2] <= tb[g][k],
					     "tables are pairwise disjoint");
				}
			}
		}
	}
	/* (c) the bitmap gained exactly the tables */
	for (p = 0; p < NB; p++) {
		int in_table = 0;
		for (g = 0; g < MAXG; g++)
			for (k = 0; k < 3; k++)
				if (g < VF_NG && p >= tb[g][k] && p - tb[g][k] < tl[g][k])
					in_table = 1;
		PROP(M[p] == (M0[p] || in_table), "block bitmap afterwards == before + exactly the allocated tables");
	}
	/* (b) accounting */
	sum = 0;
	for (g = 0; g < MAXG; g++) {
		__u32 marked;
		if (g >= VF_NG)
			continue;
		marked = ref_marked_in_group(M, g);
		PROP(ext2fs_bg_free_blocks_count(&vf_fs, g) == vf_gsize(g) - marked,
		     "bg_free_blocks_count == group size - blocks of the group marked in the block bitmap");
		sum += vf_gsize(g) - marked;
#if FLEX && LGPF
		if (marked != ref_marked_in_group(M0, g))
			PROP(!(ext2fs_bg_flags(&vf_fs, g) & EXT2_BG_BLOCK_UNINIT), "a group that received packed tables is not BLOCK_UNINIT");
#endif
	}
	PROP(ext2fs_free_blocks_count(&vf_sb) == sum, "s_free_blocks_count == sum of the group free counts");
	VF_END();
	return 0;
}
