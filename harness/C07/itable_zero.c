/*
 * C07/itable_zero: mke2fs write_inode_tables() (misc/mke2fs.c, static) zeroes
 * every inode-table block that holds an inode in use -- with lazy_itable_init
 * only the used head of each table may be skipped, never a block that holds
 * one of the first (s_inodes_per_group - bg_itable_unused) inodes of a group
 * (in group 0: the reserved inodes); without lazy_itable_init the whole table
 * of every group -- and it zeroes nothing outside the inode tables.
 *
 * The real function runs on a symbolic group descriptor table (table locations,
 * bg_itable_unused, flags); ext2fs_zero_blocks2() is a recording stub.  The
 * reference is stated per INODE (symbolic group g, symbolic index k), not by
 * re-computing the block count.
 */
#include "config.h"
#include "ext2fs/ext2_fs.h"
#include "ext2fs/ext2fs.h"
static void write_reserved_inodes(ext2_filsys fs);	/* cut (cut_statics): specification stub below */
#define main vf_real_main
#include "misc/mke2fs.c"
#undef main

#ifndef LOGBS
#define LOGBS 0
#endif
#ifndef ISIZE
#define ISIZE 256
#endif
#ifndef MAXG
#define MAXG 3
#endif
#define VF_BS (1024u << LOGBS)
#define MAXLOG (MAXG + 1)

struct vf_in {
	__u32 ngroups, ipg;
	__u32 loc[MAXG], unused[MAXG];
	unsigned short flags[MAXG];
	unsigned char lazy, zeroed, gdt_csum;
	__u32 g, k;			/* the inode asked about */
	__u32 j; unsigned long long b;	/* the zeroed block asked about */
};
VF_DECLARE_INPUT(struct vf_in, IN)
#include "vf_input.inc"

static struct struct_ext2_filsys vf_fs;
static struct ext2_super_block vf_sb;
static unsigned char vf_gd[MAXG * 32] __attribute__((aligned(8)));

static int vf_nlog, vf_log_overflow, vf_reserved_written;
static unsigned long long vf_lstart[MAXLOG];
static long long vf_llen[MAXLOG];

/* STUB: ext2fs_zero_blocks2() records (start, count) and succeeds */
errcode_t ext2fs_zero_blocks2(ext2_filsys fs, blk64_t blk, int num, blk64_t *ret_blk, int *ret_count)
{
	(void) fs; (void) ret_blk; (void) ret_count;
	if (vf_nlog >= MAXLOG) {
		vf_log_overflow = 1;
		return 0;
	}
	vf_lstart[vf_nlog] = blk;
	vf_llen[vf_nlog] = num;
	vf_nlog++;
	return 0;
}
#ifndef VF_REPLAY
/* STUB: gettext() returns its argument */
char *gettext(const char *msgid) { return (char *) msgid; }
#endif
/* STUB: progress display and the descriptor checksum setter do nothing; write_reserved_inodes (cut) is recorded */
void ext2fs_numeric_progress_init(ext2_filsys fs, struct ext2fs_numeric_progress_struct *p, const char *l, __u64 m)
{ (void) fs; (void) p; (void) l; (void) m; }
void ext2fs_numeric_progress_update(ext2_filsys fs, struct ext2fs_numeric_progress_struct *p, __u64 v)
{ (void) fs; (void) p; (void) v; }
void ext2fs_numeric_progress_close(ext2_filsys fs, struct ext2fs_numeric_progress_struct *p, const char *m)
{ (void) fs; (void) p; (void) m; }
void ext2fs_group_desc_csum_set(ext2_filsys fs, dgrp_t group) { (void) fs; (void) group; }
static void write_reserved_inodes(ext2_filsys fs) { (void) fs; vf_reserved_written++; }

int main(void)
{
	__u32 g, itb;
	int j, covered = 0, inside = 0;
	unsigned long long t;

	VF_INPUT(IN);
	/* BOUND: 1..MAXG groups, inodes per group a multiple of 8 up to 64, 32-byte descriptors, table locations below 2^31 */
	ASSUME(IN.ngroups >= 1 && IN.ngroups <= MAXG);
	ASSUME(IN.ipg >= 8 && IN.ipg <= 64 && (IN.ipg & 7) == 0);
	ASSUME(IN.lazy <= 1 && IN.zeroed <= 1 && IN.gdt_csum <= 1);
	itb = (IN.ipg * ISIZE + VF_BS - 1) / VF_BS;

	vf_sb.s_magic = EXT2_SUPER_MAGIC;
	vf_sb.s_log_block_size = LOGBS;
	vf_sb.s_log_cluster_size = LOGBS;
	vf_sb.s_rev_level = EXT2_DYNAMIC_REV;
	vf_sb.s_inode_size = ISIZE;
	vf_sb.s_first_ino = 11;
	vf_sb.s_inodes_per_group = IN.ipg;
	vf_sb.s_inodes_count = IN.ipg * IN.ngroups;
	/* OUTSIDE: metadata_csum (write_reserved_inodes rewrites the reserved inodes afterwards) */
	vf_sb.s_feature_ro_compat = IN.gdt_csum ? EXT4_FEATURE_RO_COMPAT_GDT_CSUM : 0;
	vf_fs.magic = EXT2_ET_MAGIC_EXT2FS_FILSYS;
	vf_fs.super = &vf_sb;
	vf_fs.blocksize = VF_BS;
	vf_fs.group_desc_count = IN.ngroups;
	vf_fs.desc_blocks = 1;
	vf_fs.inode_blocks_per_group = itb;
	vf_fs.group_desc = (struct opaque_ext2_group_desc *) vf_gd;

	for (g = 0; g < MAXG; g++) {
		__u32 h;
		if (g >= IN.ngroups)
			continue;
		/* ASSUME: inode tables are inside a 2^31-block device and pairwise disjoint (ext2fs_allocate_tables); they may be adjacent */
		ASSUME(IN.loc[g] >= 1 && IN.loc[g] < 0x7fff0000u);
		for (h = 0; h < MAXG; h++)
			if (h < g)
				ASSUME(IN.loc[h] + itb <= IN.loc[g] || IN.loc[g] + itb <= IN.loc[h]);
		/* ASSUME: bg_itable_unused as ext2fs_initialize leaves it: 0 without group descriptor checksums, at most
		 * inodes_per_group otherwise, and in group 0 the reserved inodes (s_first_ino) are never counted unused */
		ASSUME(IN.unused[g] <= IN.ipg);
		if (!IN.gdt_csum)
			ASSUME(IN.unused[g] == 0);
		if (g == 0)
			ASSUME(IN.unused[g] + 11 <= IN.ipg || IN.ipg < 11);
		if (g == 0 && IN.ipg < 11)
			ASSUME(IN.unused[g] == 0);
		ext2fs_inode_table_loc_set(&vf_fs, g, IN.loc[g]);
		ext2fs_bg_itable_unused_set(&vf_fs, g, IN.unused[g]);
		ext2fs_bg_flags_set(&vf_fs, g, IN.flags[g] & (EXT2_BG_INODE_UNINIT | EXT2_BG_BLOCK_UNINIT));
	}

	write_inode_tables(&vf_fs, IN.lazy, IN.zeroed);

	PROP(!vf_log_overflow, "at most one zeroing request per group");

	/* (1) the block holding inode k of group g is zeroed, if that inode is in use (or always, without lazy init) */
	ASSUME(IN.g < IN.ngroups && IN.k < IN.ipg);
	t = 0;
	for (g = 0; g < MAXG; g++)
		if (g == IN.g) {
			t = (unsigned long long) IN.loc[g] + ((unsigned long long) IN.k * ISIZE) / VF_BS;
			if (IN.lazy && IN.k >= IN.ipg - IN.unused[g])
				covered = 1;		/* lazily initialised by the kernel: need not be zeroed */
			PROP(((ext2fs_bg_flags(&vf_fs, g) & EXT2_BG_INODE_ZEROED) != 0) == (!IN.lazy || IN.zeroed),
			     "INODE_ZEROED is set exactly when the whole table is known to be zero");
		}
	if (IN.zeroed)
		covered = 1;			/* the device is known to read back zeroes */
	for (j = 0; j < MAXLOG; j++)
		if (j < vf_nlog && vf_llen[j] > 0 && t >= vf_lstart[j] && t - vf_lstart[j] < (unsigned long long) vf_llen[j])
			covered = 1;
	PROP(covered, "the inode-table block of every inode in use is zeroed");

	/* (2) nothing but inode-table blocks is zeroed */
	for (j = 0; j < MAXLOG; j++) {
		if (j >= vf_nlog || (__u32) j != IN.j)
			continue;
		PROP(vf_llen[j] > 0, "zeroing requests are non-empty");
		ASSUME(IN.b >= vf_lstart[j] && IN.b - vf_lstart[j] < (unsigned long long) vf_llen[j]);
		for (g = 0; g < MAXG; g++)
			if (g < IN.ngroups && IN.b >= IN.loc[g] && IN.b < (unsigned long long) IN.loc[g] + itb)
				inside = 1;
		PROP(inside, "every zeroed block belongs to an inode table");
	}
	if (IN.zeroed)
		PROP(vf_nlog == 0, "nothing is written when the device is known to be zero");
	VF_END();
	return 0;
}
