/*
 * C07/journal: creating the internal journal (mke2fs -j / -O has_journal):
 * the real ext2fs_add_journal_inode3() -> write_journal_inode() ->
 * ext2fs_create_journal_superblock2() + get_midpoint_journal_block()
 * (mkjournal.c) with symbolic journal parameters (num_journal_blocks,
 * num_fc_blocks), flags, goal and features.  Allocation, inode I/O, block
 * mapping and block I/O are recording stubs (pattern P); the subject is WHAT
 * is handed to them and that the four places that state the journal's length
 * agree:
 *     blocks allocated (ext2fs_fallocate range)  ==  i_size / blocksize
 *     ==  journal superblock s_maxlen  ==  num_journal_blocks + num_fc_blocks
 * (jbd2 format: s_maxlen counts ALL blocks of the journal file, the fast-commit
 * area s_num_fc_blks is its tail), plus the journal superblock fields, the
 * inode fields and the s_jnl_blocks backup in the filesystem superblock.
 */
#include "lib/ext2fs/mkjournal.c"

#ifndef LOGBS
#define LOGBS 0
#endif
#ifndef MAXG
#define MAXG 4
#endif
#define VF_BS (1024u << LOGBS)

struct vf_in {
	__u32 njb, nfc;				/* jparams */
	unsigned char lazyinit, v1super, goal_given, extents, fast_commit, log_flex;
	unsigned long long goal;
	__u32 pre_i_blocks, pre_i_flags;	/* journal inode as read */
	__u32 alloc_i_block[15], alloc_i_blocks;/* what the allocator leaves in the inode */
	unsigned long long zblk;		/* physical block of logical block 0 */
	unsigned char uuid[16];
	__u32 ngroups, gfree[MAXG], last_group_blocks;
	__u32 pre_compat, pre_incompat;
};
VF_DECLARE_INPUT(struct vf_in, IN)
#include "vf_input.inc"

static struct struct_ext2_filsys vf_fs;
static struct ext2_super_block vf_sb;
static struct struct_io_channel vf_io;
static unsigned char vf_gd[MAXG * 32] __attribute__((aligned(8)));

/* event order: 1 read_bitmaps, 2 read_inode, 3 fallocate, 4 write_new_inode, 5 bmap2, 6 write_blk */
static int vf_seq, vf_order_ok = 1, vf_bad;
static int vf_n_falloc, vf_n_winode, vf_n_bmap, vf_n_wblk;
static int vf_fa_flags; static ext2_ino_t vf_fa_ino; static unsigned long long vf_fa_goal, vf_fa_start, vf_fa_len;
static struct ext2_inode vf_fa_inode, vf_w_inode;
static ext2_ino_t vf_w_ino;
static unsigned long long vf_wb_blk; static int vf_wb_count;
static journal_superblock_t vf_jsb;

static void vf_step(int want_prev)
{
	if (vf_seq != want_prev)
		vf_order_ok = 0;
	vf_seq = want_prev + 1;
}
/* STUB: ext2fs_read_bitmaps succeeds; ext2fs_read_inode returns a journal inode that is zero but for symbolic i_blocks / i_flags */
errcode_t ext2fs_read_bitmaps(ext2_filsys fs) { (void) fs; vf_step(0); return 0; }
errcode_t ext2fs_read_inode(ext2_filsys fs, ext2_ino_t ino, struct ext2_inode *inode)
{
	static struct ext2_inode zero;
	(void) fs;
	vf_step(1);
	if (ino != EXT2_JOURNAL_INO)
		vf_bad = 1;
	*inode = zero;
	inode->i_blocks = IN.pre_i_blocks;
	inode->i_flags = IN.pre_i_flags;
	return 0;
}
/* STUB: ext2fs_fallocate records its arguments and a snapshot of the inode, then leaves a symbolic block map / i_blocks in the inode (C09 covers the allocator) */
errcode_t ext2fs_fallocate(ext2_filsys fs, int flags, ext2_ino_t ino, struct ext2_inode *inode,
			   blk64_t goal, blk64_t start, blk64_t len)
{
	int i;
	(void) fs;
	vf_step(2);
	vf_n_falloc++;
	vf_fa_flags = flags; vf_fa_ino = ino; vf_fa_goal = goal; vf_fa_start = start; vf_fa_len = len;
	vf_fa_inode = *inode;
	for (i = 0; i < 15; i++)
		inode->i_block[i] = IN.alloc_i_block[i];
	inode->i_blocks = IN.alloc_i_blocks;
	return 0;
}
/* STUB: ext2fs_write_new_inode records the inode; ext2fs_bmap2 maps logical block 0 to a symbolic physical block; io_channel_write_blk64 records block, count and the journal superblock image */
errcode_t ext2fs_write_new_inode(ext2_filsys fs, ext2_ino_t ino, struct ext2_inode *inode)
{
	(void) fs;
	vf_step(3);
	vf_n_winode++;
	vf_w_ino = ino;
	vf_w_inode = *inode;
	return 0;
}
errcode_t ext2fs_bmap2(ext2_filsys fs, ext2_ino_t ino, struct ext2_inode *inode, char *block_buf,
		       int bmap_flags, blk64_t block, int *ret_flags, blk64_t *phys_blk)
{
	(void) fs; (void) inode; (void) block_buf; (void) ret_flags;
	vf_step(4);
	vf_n_bmap++;
	if (ino != EXT2_JOURNAL_INO || bmap_flags != 0 || block != 0)
		vf_bad = 1;
	*phys_blk = IN.zblk;
	return 0;
}
errcode_t io_channel_write_blk64(io_channel ch, unsigned long long blk, int count, const void *data)
{
	vf_step(5);
	vf_n_wblk++;
	if (ch != &vf_io)
		vf_bad = 1;
	vf_wb_blk = blk;
	vf_wb_count = count;
	vf_jsb = *(const journal_superblock_t *) data;
	return 0;
}
/* STUB: ext2fs_check_mount_point must not be consulted (mke2fs passes EXT2_MKJOURNAL_NO_MNT_CHECK) */
errcode_t ext2fs_check_mount_point(const char *device, int *mount_flags, char *mtpt, int mtlen)
{
	(void) device; (void) mtpt; (void) mtlen;
	vf_bad = 1;
	*mount_flags = 0;
	return 0;
}

static __u32 ref_be32(__u32 v)	/* the journal is big-endian on disk */
{
	const unsigned char *p = (const unsigned char *) &v;
	return ((__u32) p[0] << 24) | ((__u32) p[1] << 16) | ((__u32) p[2] << 8) | p[3];
}

int main(void)
{
	struct ext2fs_journal_params jp;
	errcode_t rc;
	unsigned long long total, size, blocks_count;
	int flags, i, k;
	__u32 g;

	VF_INPUT(IN);
	/* BOUND: journal and fast-commit areas below 2^30 blocks each (ext2fs_get_journal_params yields at most 262144 + 4096; mke2fs -J size= at most 10240000) */
	ASSUME(IN.njb < (1u << 30) && IN.nfc < (1u << 30));
	ASSUME(IN.lazyinit <= 1 && IN.v1super <= 1 && IN.goal_given <= 1 && IN.extents <= 1 && IN.fast_commit <= 1);
	/* ASSUME: fast-commit blocks only with the fast_commit feature (ext2fs_get_journal_params, mke2fs figure_journal_size) */
	if (!IN.fast_commit)
		ASSUME(IN.nfc == 0);
	ASSUME(IN.goal != ~0ULL);
	/* BOUND: 1..MAXG groups of 8192 blocks (only get_midpoint_journal_block looks at them), s_log_groups_per_flex 0..2 */
	ASSUME(IN.ngroups >= 1 && IN.ngroups <= MAXG && IN.log_flex <= 2);
	ASSUME(IN.last_group_blocks >= 1 && IN.last_group_blocks <= 8192);
	blocks_count = (LOGBS == 0) + (unsigned long long) (IN.ngroups - 1) * 8192 + IN.last_group_blocks;
	/* ASSUME: the filesystem is larger than a minimal journal (mke2fs refuses a journal that does not fit; on a 2-block
	 * filesystem get_midpoint_journal_block's "(blocks - first_data_block) / 2" falls below s_first_data_block) */
	ASSUME(blocks_count > 1024);

	vf_sb.s_magic = EXT2_SUPER_MAGIC;
	vf_sb.s_log_block_size = LOGBS;
	vf_sb.s_log_cluster_size = LOGBS;
	vf_sb.s_first_data_block = (LOGBS == 0);
	vf_sb.s_blocks_per_group = 8192;
	vf_sb.s_clusters_per_group = 8192;
	vf_sb.s_blocks_count = (__u32) blocks_count;
	vf_sb.s_rev_level = EXT2_DYNAMIC_REV;
	vf_sb.s_inode_size = 256;
	vf_sb.s_log_groups_per_flex = IN.log_flex;
	/* ASSUME: an internal journal is created on a filesystem that is not itself a journal device and has no journal yet */
	vf_sb.s_feature_compat = (IN.fast_commit ? EXT4_FEATURE_COMPAT_FAST_COMMIT : 0) |
		(IN.pre_compat & (EXT2_FEATURE_COMPAT_DIR_INDEX | EXT2_FEATURE_COMPAT_EXT_ATTR | EXT2_FEATURE_COMPAT_RESIZE_INODE));
	vf_sb.s_feature_incompat = (IN.extents ? EXT3_FEATURE_INCOMPAT_EXTENTS : 0) |
		(IN.pre_incompat & (EXT2_FEATURE_INCOMPAT_FILETYPE | EXT4_FEATURE_INCOMPAT_FLEX_BG));
	for (i = 0; i < 16; i++)
		vf_sb.s_uuid[i] = IN.uuid[i];
	vf_io.magic = EXT2_ET_MAGIC_IO_CHANNEL;
	vf_fs.magic = EXT2_ET_MAGIC_EXT2FS_FILSYS;
	vf_fs.super = &vf_sb;
	vf_fs.io = &vf_io;
	vf_fs.blocksize = VF_BS;
	vf_fs.group_desc_count = IN.ngroups;
	vf_fs.desc_blocks = 1;
	vf_fs.group_desc = (struct opaque_ext2_group_desc *) vf_gd;
	vf_fs.now = 1000;
	vf_fs.flags = EXT2_FLAG_RW;
	for (g = 0; g < MAXG; g++)
		if (g < IN.ngroups)
			ext2fs_bg_free_blocks_count_set(&vf_fs, g, IN.gfree[g] & 0x1fff);

	jp.num_journal_blocks = IN.njb;
	jp.num_fc_blocks = IN.nfc;
	flags = EXT2_MKJOURNAL_NO_MNT_CHECK | (IN.lazyinit ? EXT2_MKJOURNAL_LAZYINIT : 0) |
		(IN.v1super ? EXT2_MKJOURNAL_V1_SUPER : 0);

	rc = ext2fs_add_journal_inode3(&vf_fs, &jp, IN.goal_given ? IN.goal : ~0ULL, flags);

	PROP(!vf_bad, "stubs were called with the journal inode / block 0 / the filesystem's channel, mount point not consulted");
	if (IN.njb < 1024) {
		PROP(rc == EXT2_ET_JOURNAL_TOO_SMALL && vf_seq == 0, "a journal below JBD2_MIN_JOURNAL_BLOCKS is refused before anything happens");
		return 0;
	}
	if (IN.pre_i_blocks > 0) {
		PROP(rc == EEXIST && vf_n_falloc == 0 && vf_n_winode == 0 && vf_n_wblk == 0, "an existing journal inode is not overwritten");
		PROP(!(vf_sb.s_feature_compat & EXT3_FEATURE_COMPAT_HAS_JOURNAL) && vf_sb.s_journal_inum == 0, "failure leaves the superblock alone");
		return 0;
	}
	PROP(rc == 0, "journal creation succeeds when every callee succeeds");
	PROP(vf_order_ok && vf_seq == 6 && vf_n_falloc == 1 && vf_n_winode == 1 && vf_n_bmap == 1 && vf_n_wblk == 1,
	     "allocate, write inode, map block 0, write journal superblock: once each, in this order");

	total = (unsigned long long) IN.njb + IN.nfc;
	size = total * VF_BS;

	/* --- allocation request */
	PROP(vf_fa_ino == EXT2_JOURNAL_INO && vf_fa_start == 0, "blocks are allocated to inode 8 from logical block 0");
	PROP(vf_fa_len == total, "the allocated range covers journal AND fast-commit blocks");
	PROP(vf_fa_flags == (EXT2_FALLOCATE_FORCE_INIT | (IN.lazyinit ? 0 : EXT2_FALLOCATE_ZERO_BLOCKS)),
	     "blocks are initialised extents, zeroed unless lazy_journal_init");
	if (IN.goal_given)
		PROP(vf_fa_goal == IN.goal, "an explicit journal location is used as the goal");
	else {
		/* default goal: first block of an existing group (the midpoint heuristic picks among them) */
		int okgoal = 0;
		for (g = 0; g < MAXG; g++)
			if (g < IN.ngroups && vf_fa_goal == (LOGBS == 0) + (unsigned long long) g * 8192)
				okgoal = 1;
		PROP(okgoal, "the default goal is the first block of an existing group");
	}

	/* --- inode */
	PROP(vf_w_ino == EXT2_JOURNAL_INO, "inode 8 is written");
	PROP(vf_w_inode.i_size == (__u32) size && vf_w_inode.i_size_high == (__u32) (size >> 32),
	     "i_size == (journal + fast-commit blocks) * blocksize");
	PROP(vf_fa_inode.i_size == (__u32) size && vf_fa_inode.i_size_high == (__u32) (size >> 32),
	     "the size is already set when the blocks are allocated");
	PROP(vf_w_inode.i_links_count == 1 && vf_w_inode.i_mode == (LINUX_S_IFREG | 0600), "regular file, mode 0600, one link");
	PROP(((vf_w_inode.i_flags & EXT4_EXTENTS_FL) != 0) == (IN.extents || (IN.pre_i_flags & EXT4_EXTENTS_FL)),
	     "extent-mapped iff the extents feature is on");
	PROP(vf_w_inode.i_blocks == IN.alloc_i_blocks, "the inode written is the one the allocator filled in");
	PROP(vf_w_inode.i_mtime == 1000 && vf_w_inode.i_ctime == 1000, "timestamps set");
	if (size >= 0x80000000ull)
		PROP(vf_sb.s_feature_ro_compat & EXT2_FEATURE_RO_COMPAT_LARGE_FILE, "a journal of 2 GiB or more sets large_file");

	/* --- journal superblock, written to the journal's first block */
	PROP(vf_wb_blk == IN.zblk && vf_wb_count == 1, "the journal superblock goes to the block logical block 0 maps to");
	PROP(ref_be32(vf_jsb.s_header.h_magic) == 0xc03b3998u, "jbd2 magic");
	PROP(ref_be32(vf_jsb.s_header.h_blocktype) == (IN.v1super ? 3u : 4u), "superblock v2 (v1 on request)");
	PROP(ref_be32(vf_jsb.s_blocksize) == VF_BS, "s_blocksize == filesystem block size");
	PROP(ref_be32(vf_jsb.s_maxlen) == total, "s_maxlen counts all blocks of the journal file");
	PROP(ref_be32(vf_jsb.s_num_fc_blks) == IN.nfc, "s_num_fc_blks == fast-commit blocks");
	PROP(ref_be32(vf_jsb.s_first) == 1 && ref_be32(vf_jsb.s_sequence) == 1 && ref_be32(vf_jsb.s_nr_users) == 1,
	     "first log block 1, sequence 1, one user");
	for (i = 0; i < 16; i++)
		PROP(vf_jsb.s_uuid[i] == IN.uuid[i], "internal journal carries the filesystem UUID");
	PROP(vf_jsb.s_start == 0 && vf_jsb.s_feature_incompat == 0 && vf_jsb.s_feature_compat == 0, "empty journal, no journal features yet");

	/* --- filesystem superblock */
	for (k = 0; k < 15; k++)
		PROP(vf_sb.s_jnl_blocks[k] == IN.alloc_i_block[k] && vf_w_inode.i_block[k] == IN.alloc_i_block[k],
		     "s_jnl_blocks backs up the journal inode's i_block");
	PROP(vf_sb.s_jnl_blocks[15] == vf_w_inode.i_size_high && vf_sb.s_jnl_blocks[16] == vf_w_inode.i_size,
	     "s_jnl_blocks[15..16] back up i_size_high / i_size");
	PROP(vf_sb.s_jnl_backup_type == EXT3_JNL_BACKUP_BLOCKS, "backup type");
	PROP(vf_sb.s_journal_inum == EXT2_JOURNAL_INO && vf_sb.s_journal_dev == 0, "s_journal_inum == 8, no journal device");
	for (i = 0; i < 16; i++)
		PROP(vf_sb.s_journal_uuid[i] == 0, "no external journal UUID");
	PROP(vf_sb.s_feature_compat & EXT3_FEATURE_COMPAT_HAS_JOURNAL, "has_journal set");
	PROP(!(vf_sb.s_feature_incompat & EXT3_FEATURE_INCOMPAT_RECOVER), "needs_recovery not set");
	PROP((vf_fs.flags & (EXT2_FLAG_DIRTY | EXT2_FLAG_CHANGED)) == (EXT2_FLAG_DIRTY | EXT2_FLAG_CHANGED), "superblock marked dirty");
	VF_END();
	return 0;
}
