/*
 * C07/resize_inode: ext2fs_create_resize_inode() (lib/ext2fs/res_gdt.c, real, with the
 * real ext2fs_list_backups) builds -- or verifies and completes -- inode 7 so that it
 * maps EXACTLY the reserved GDT blocks the format prescribes:
 *
 *   i_block[DIND] -> double-indirect block D;
 *   D[(desc_blocks + k) mod apb] = P_k = sb_blk + 1 + desc_blocks + k   (k-th reserved GDT block
 *                                   of the primary group, k < s_reserved_gdt_blocks);
 *   block P_k lists, in ascending order of the backup groups g_0 < g_1 < ..., the
 *   copies P_k + g_j * s_blocks_per_group; every other entry stays as it was (0 when fresh);
 *   i_blocks counts D + every listed block once (in 512-byte units), i_size is the
 *   fixed "maximum double-indirect file" value, mode regular 0600, one link.
 *
 * One step from an ARBITRARY on-disk pre-state (MODE 1: an existing inode 7 with a symbolic
 * double-indirect block and symbolic content of the reserved GDT blocks; MODE 0: no
 * resize inode yet):  the call succeeds iff the pre-state does not contradict the
 * layout above (a contradicting entry => EXT2_ET_RESIZE_INODE_CORRUPT), and on success
 * the post-state is exactly that layout, nothing else having been written or allocated.
 *
 * The backup groups of the reference come from the format rule (group 1 and the powers
 * of 3, 5, 7 with sparse_super; every group without; s_backup_bgs[] with sparse_super2),
 * not from ext2fs_list_backups.
 *
 * Per query: MODE (0 new / 1 existing), SPARSE (0 none / 1 sparse_super / 2 sparse_super2),
 * DB (fs->desc_blocks), FDB (s_first_data_block), MAXG.
 */
#include "lib/ext2fs/res_gdt.c"

#ifndef MODE
#define MODE 0
#endif
#ifndef SPARSE
#define SPARSE 1
#endif
#ifndef DB
#define DB 1
#endif
#ifndef FDB
#define FDB 1
#endif
#ifndef MAXG
#define MAXG 10
#endif
#define VF_BS 1024u
#define APB 256u
#define BPG 8192u
#define MAXRSV 2
#define MAXBK 9			/* backup groups listed per reserved GDT block: at most MAXG - 1 */
#define SBBLK 1u		/* 1 KiB blocks: the superblock sits in block 1 whatever s_first_data_block says */

struct vf_in {
	__u32 ngroups, rsv, bgs[2];
	__u32 new_dind;				/* MODE 0: what the allocator hands out */
	struct ext2_inode ino;			/* MODE 1: the inode 7 found on disk */
	__u32 dind[APB];			/* MODE 1: content of the double-indirect block */
	__u32 gdt[MAXRSV][APB];			/* MODE 1: content of the reserved GDT blocks of group 0 */
};
VF_DECLARE_INPUT(struct vf_in, IN)
#include "vf_input.inc"

static struct struct_ext2_filsys vf_fs;
static struct ext2_super_block vf_sb;

/* the disk: block D and the MAXRSV primary reserved GDT blocks */
static __u32 vf_dind[APB], vf_gdt[MAXRSV][APB];
static __u32 vf_dind_blk;
static int vf_stray_read, vf_stray_write, vf_nalloc, vf_ninode_w, vf_dind_w, vf_gdt_w[MAXRSV], vf_bad_goal;
static struct ext2_inode vf_w_inode;

static __u32 vf_prim(__u32 k) { return SBBLK + 1 + DB + k; }

/* STUB: ext2fs_read_inode() hands out the symbolic on-disk inode 7 (all zero in MODE 0) */
errcode_t ext2fs_read_inode(ext2_filsys fs, ext2_ino_t ino, struct ext2_inode *inode)
{
	if (fs != &vf_fs || ino != EXT2_RESIZE_INO)
		vf_stray_read = 1;
	*inode = IN.ino;
	return 0;
}
/* STUB: ext2fs_write_new_inode() records the inode written to slot 7 */
errcode_t ext2fs_write_new_inode(ext2_filsys fs, ext2_ino_t ino, struct ext2_inode *inode)
{
	if (fs != &vf_fs || ino != EXT2_RESIZE_INO)
		vf_stray_write = 1;
	vf_w_inode = *inode;
	vf_ninode_w++;
	return 0;
}
/* STUB: ext2fs_read_ind_block()/ext2fs_write_ind_block() (I/O + byte order layer) read / write the three modelled blocks; any other block number is recorded as stray */
errcode_t ext2fs_read_ind_block(ext2_filsys fs, blk_t blk, void *buf)
{
	unsigned k, hit = 0;
	(void) fs;
	if (blk == vf_dind_blk) {
		memcpy(buf, vf_dind, VF_BS);
		hit = 1;
	}
	for (k = 0; k < MAXRSV; k++)
		if (!hit && blk == vf_prim(k)) {
			memcpy(buf, vf_gdt[k], VF_BS);
			hit = 1;
		}
	if (!hit)
		vf_stray_read = 1;
	return 0;
}
errcode_t ext2fs_write_ind_block(ext2_filsys fs, blk_t blk, void *buf)
{
	unsigned k, hit = 0;
	(void) fs;
	if (blk == vf_dind_blk) {
		memcpy(vf_dind, buf, VF_BS);
		vf_dind_w++;
		hit = 1;
	}
	for (k = 0; k < MAXRSV; k++)
		if (!hit && blk == vf_prim(k)) {
			memcpy(vf_gdt[k], buf, VF_BS);
			vf_gdt_w[k]++;
			hit = 1;
		}
	if (!hit)
		vf_stray_write = 1;
	return 0;
}
/* STUB: ext2fs_alloc_block() returns a symbolic free block (C01/C11 cover the allocator); the goal is checked */
errcode_t ext2fs_alloc_block(ext2_filsys fs, blk_t goal, char *block_buf, blk_t *ret)
{
	(void) fs; (void) block_buf;
	if (goal != SBBLK + DB + vf_sb.s_reserved_gdt_blocks + 2 + vf_fs.inode_blocks_per_group)
		vf_bad_goal = 1;
	vf_nalloc++;
	vf_dind_blk = IN.new_dind;
	*ret = IN.new_dind;
	return 0;
}

/* reference: is g a group that carries a backup superblock + descriptors (g >= 1)?  Written from the format rule. */
static int ref_is_power(__u32 g, __u32 base)
{
	unsigned long long v = base;
	int i;
	for (i = 0; i < 4; i++) {		/* base^1 .. base^4 >= 81 > MAXG */
		if (v == g)
			return 1;
		v *= base;
	}
	return 0;
}
static int ref_is_backup(__u32 g)
{
	if (g == 0 || g >= IN.ngroups)
		return 0;
#if SPARSE == 2
	return g == IN.bgs[0] || g == IN.bgs[1];
#elif SPARSE == 1
	return g == 1 || ref_is_power(g, 3) || ref_is_power(g, 5) || ref_is_power(g, 7);
#else
	return 1;
#endif
}

int main(void)
{
	errcode_t rc;
	__u32 k, j, g, p, nbk = 0, bk[MAXBK], slot[MAXRSV], added = 0;
	int corrupt = 0;
	unsigned long long want_size = ((unsigned long long) APB * APB + APB + EXT2_NDIR_BLOCKS) * VF_BS;

	VF_INPUT(IN);
	/* BOUND: 1 KiB blocks (256 addresses per block), 8192 blocks per group, 1..MAXG groups, 0..2 reserved GDT blocks, desc_blocks = DB, 128-byte inodes, huge_file off */
	ASSUME(IN.ngroups >= 1 && IN.ngroups <= MAXG);
	ASSUME(IN.rsv <= MAXRSV);
#if SPARSE == 2
	/* ASSUME: s_backup_bgs[] as ext2fs_initialize / resize2fs normalise them: inside the filesystem, [0] < [1] unless [1] == 0 */
	ASSUME(IN.bgs[0] < IN.ngroups && IN.bgs[1] < IN.ngroups);
	ASSUME(IN.bgs[1] == 0 || IN.bgs[0] < IN.bgs[1]);
#endif

	vf_sb.s_magic = EXT2_SUPER_MAGIC;
	vf_sb.s_first_data_block = FDB;
	vf_sb.s_log_block_size = 0;
	vf_sb.s_log_cluster_size = 0;
	vf_sb.s_blocks_per_group = BPG;
	vf_sb.s_rev_level = EXT2_DYNAMIC_REV;
	vf_sb.s_inode_size = 128;
	vf_sb.s_reserved_gdt_blocks = IN.rsv;
	vf_sb.s_feature_compat = EXT2_FEATURE_COMPAT_RESIZE_INODE | (SPARSE == 2 ? EXT4_FEATURE_COMPAT_SPARSE_SUPER2 : 0);
	vf_sb.s_feature_ro_compat = (SPARSE == 1) ? EXT2_FEATURE_RO_COMPAT_SPARSE_SUPER : 0;
	vf_sb.s_backup_bgs[0] = IN.bgs[0];
	vf_sb.s_backup_bgs[1] = IN.bgs[1];
	vf_fs.magic = EXT2_ET_MAGIC_EXT2FS_FILSYS;
	vf_fs.super = &vf_sb;
	vf_fs.blocksize = VF_BS;
	vf_fs.group_desc_count = IN.ngroups;
	vf_fs.desc_blocks = DB;
	vf_fs.inode_blocks_per_group = 4;
	vf_fs.now = 1000;

#if MODE == 0
	{
		static const struct ext2_inode zero;
		IN.ino = zero;
	}
	/* ASSUME: the allocator returns a block that is not one of the reserved GDT blocks (they are marked in use by ext2fs_initialize) and not 0 */
	ASSUME(IN.new_dind > SBBLK + 1 + DB + MAXRSV);
#else
	/* ASSUME (MODE 1): the inode found has a double-indirect block outside the descriptor area, i_blocks with room to grow, not a huge_file inode */
	ASSUME(IN.ino.i_block[EXT2_DIND_BLOCK] > SBBLK + 1 + DB + MAXRSV);
	ASSUME(IN.ino.i_blocks < 0x10000000u);
	vf_dind_blk = IN.ino.i_block[EXT2_DIND_BLOCK];
	for (p = 0; p < APB; p++) {
		vf_dind[p] = IN.dind[p];
		for (k = 0; k < MAXRSV; k++)
			vf_gdt[k][p] = IN.gdt[k][p];
	}
#endif

	/* reference list of backup groups, ascending */
	for (g = 0; g < MAXG; g++)
		if (ref_is_backup(g)) {
			for (j = 0; j < MAXBK; j++)
				if (j == nbk)
					bk[j] = g;
			nbk++;
		}

	/* reference verdict on the pre-state (MODE 1), evaluated in the order the blocks are visited */
	for (k = 0; k < MAXRSV; k++) {
		slot[k] = (DB + k) % APB;
#if MODE == 1
		if (k < IN.rsv && !corrupt) {
			__u32 d = IN.dind[slot[k]];
			if (d == 0)
				added += 1 + nbk;
			else if (d != vf_prim(k))
				corrupt = 1;
			else
				for (j = 0; j < MAXBK; j++)
					if (j < nbk && !corrupt) {
						if (IN.gdt[k][j] == 0)
							added++;
						else if (IN.gdt[k][j] != vf_prim(k) + bk[j] * BPG)
							corrupt = 1;
					}
		}
#else
		if (k < IN.rsv)
			added += 1 + nbk;
#endif
	}

	rc = ext2fs_create_resize_inode(&vf_fs);

	PROP(!vf_stray_read && !vf_stray_write, "only inode 7, the double-indirect block and the primary reserved GDT blocks are read or written");
	PROP(!vf_bad_goal, "the double-indirect block is requested right behind group 0's metadata");
#if MODE == 0
	PROP(vf_nalloc == 1, "exactly one block (the double-indirect block) is allocated for a new resize inode");
	PROP(rc == 0, "creating a resize inode from scratch succeeds");
#else
	PROP(vf_nalloc == 0, "nothing is allocated when the resize inode exists");
	PROP((rc == EXT2_ET_RESIZE_INODE_CORRUPT) == (corrupt != 0), "a resize inode that contradicts the prescribed layout is refused, any other is accepted");
	PROP(rc == 0 || rc == EXT2_ET_RESIZE_INODE_CORRUPT, "no other failure");
#endif
	if (rc)
		return 0;

	/* post-state == the prescribed layout */
	for (k = 0; k < MAXRSV; k++) {
		if (k >= IN.rsv) {
			PROP(vf_gdt_w[k] == 0, "no block beyond s_reserved_gdt_blocks is written");
			continue;
		}
		PROP(vf_dind[slot[k]] == vf_prim(k), "double-indirect slot (desc_blocks + k) mod apb names the k-th reserved GDT block of group 0");
		for (j = 0; j < MAXBK; j++)
			if (j < nbk)
				PROP(vf_gdt[k][j] == vf_prim(k) + bk[j] * BPG,
				     "entry j of the k-th reserved GDT block names its copy in the j-th backup group");
	}
	for (p = 0; p < APB; p++) {
		int is_slot = 0;
		for (k = 0; k < MAXRSV; k++)
			if (k < IN.rsv && p == slot[k])
				is_slot = 1;
		if (!is_slot)
			PROP(vf_dind[p] == (MODE ? IN.dind[p] : 0), "every other double-indirect slot is untouched (0 when new)");
		for (k = 0; k < MAXRSV; k++)
			if (p >= nbk) {
#if MODE == 1
				PROP(vf_gdt[k][p] == ((k < IN.rsv && IN.dind[slot[k]] == 0) ? 0 : IN.gdt[k][p]),
				     "entries behind the last backup group are untouched (0 in a newly added block)");
#else
				PROP(vf_gdt[k][p] == 0, "entries behind the last backup group are 0 in a new block");
#endif
			}
	}
	/* the inode */
	if (added || MODE == 0) {
		PROP(vf_ninode_w == 1, "the inode is written once when anything was added");
		PROP(vf_w_inode.i_block[EXT2_DIND_BLOCK] == vf_dind_blk, "i_block[DIND] names the double-indirect block");
		PROP(vf_w_inode.i_blocks == (MODE ? IN.ino.i_blocks : VF_BS / 512) + added * (VF_BS / 512),
		     "i_blocks counts the double-indirect block and every listed block once (512-byte units)");
		PROP(vf_w_inode.i_mtime == 1000 && vf_w_inode.i_atime == 1000, "timestamps set from the filesystem clock");
		for (p = 0; p < EXT2_N_BLOCKS; p++)
			if (p != EXT2_DIND_BLOCK)
				PROP(vf_w_inode.i_block[p] == (MODE ? IN.ino.i_block[p] : 0), "no other i_block slot is used");
#if MODE == 0
		PROP(vf_w_inode.i_mode == (LINUX_S_IFREG | 0600) && vf_w_inode.i_links_count == 1, "regular file, mode 0600, one link");
		PROP(vf_w_inode.i_size == (__u32) want_size && vf_w_inode.i_size_high == (__u32) (want_size >> 32),
		     "i_size = (apb^2 + apb + 12) * blocksize");
		PROP(vf_dind_w == 1, "the new double-indirect block is written");
#endif
	} else {
		PROP(vf_ninode_w == 0 && vf_dind_w == 0 && vf_gdt_w[0] == 0 && vf_gdt_w[1] == 0, "a complete resize inode is left alone: nothing is written");
	}
	VF_END();
	return 0;
}
