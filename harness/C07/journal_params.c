/*
 * C07/journal_params: ext2fs_get_journal_params() / ext2fs_default_journal_size()
 * (mkjournal.c) -- the journal geometry mke2fs uses when no size is given -- for
 * EVERY filesystem size: the journal has at least JBD2_MIN_JOURNAL_BLOCKS blocks,
 * journal + fast-commit area fit the filesystem (internal journal: the journal
 * proper takes at most half of it; journal device: they fill it exactly), the
 * fast-commit area exists iff the fast_commit feature is on and has the
 * documented 1 : EXT2_JOURNAL_TO_FC_BLKS_RATIO proportion, and a larger
 * filesystem never gets a smaller journal.
 */
#include "lib/ext2fs/mkjournal.c"

struct vf_in {
	unsigned long long blocks, blocks2;
	unsigned char journal_dev, fast_commit;
};
VF_DECLARE_INPUT(struct vf_in, IN)
#include "vf_input.inc"

static struct struct_ext2_filsys vf_fs;
static struct ext2_super_block vf_sb;

static void vf_set_blocks(unsigned long long b)
{
	vf_sb.s_blocks_count = (__u32) b;
	vf_sb.s_blocks_count_hi = (__u32) (b >> 32);
}

int main(void)
{
	struct ext2fs_journal_params p, p2;
	errcode_t rc, rc2;
	unsigned long long j, fc;

	VF_INPUT(IN);
	ASSUME(IN.journal_dev <= 1 && IN.fast_commit <= 1);
	/* BOUND: block counts below 2^48 (64bit feature on); a journal DEVICE below 2^32 blocks (ext2fs_get_journal_params keeps its size in a 32-bit blk_t) */
	ASSUME(IN.blocks >= 1 && IN.blocks < (1ull << 48) && IN.blocks2 >= IN.blocks && IN.blocks2 < (1ull << 48));
	if (IN.journal_dev)
		ASSUME(IN.blocks2 < (1ull << 32));
	vf_sb.s_magic = EXT2_SUPER_MAGIC;
	vf_sb.s_rev_level = EXT2_DYNAMIC_REV;
	vf_sb.s_feature_incompat = EXT4_FEATURE_INCOMPAT_64BIT | (IN.journal_dev ? EXT3_FEATURE_INCOMPAT_JOURNAL_DEV : 0);
	vf_sb.s_feature_compat = IN.fast_commit ? EXT4_FEATURE_COMPAT_FAST_COMMIT : 0;
	vf_fs.magic = EXT2_ET_MAGIC_EXT2FS_FILSYS;
	vf_fs.super = &vf_sb;
	vf_fs.blocksize = 4096;

	vf_set_blocks(IN.blocks);
	rc = ext2fs_get_journal_params(&p, &vf_fs);
	vf_set_blocks(IN.blocks2);
	rc2 = ext2fs_get_journal_params(&p2, &vf_fs);

	PROP(rc == 0 || rc == EXT2_ET_JOURNAL_TOO_SMALL, "the only refusal is 'journal too small'");
	PROP((rc != 0) == (IN.blocks < (IN.journal_dev ? 1024u : 2048u)),
	     "refused exactly below 1024 blocks (journal device) / 2048 blocks (internal journal)");
	PROP(rc2 == 0 || rc != 0, "a larger filesystem is never refused when a smaller one is accepted");
	if (rc == 0) {
		j = p.num_journal_blocks;
		fc = p.num_fc_blocks;
		PROP(j >= 1024, "at least JBD2_MIN_JOURNAL_BLOCKS journal blocks");
		PROP((fc != 0) == (IN.fast_commit != 0) || (IN.journal_dev && IN.fast_commit && IN.blocks == 1024),
		     "a fast-commit area exists iff the fast_commit feature is on");
		if (IN.journal_dev) {
			PROP(j + fc == IN.blocks, "a journal device is used completely");
			if (IN.fast_commit) {
				PROP(64 * fc <= j + 65, "fast-commit area at most 1/64 of the journal (rounded up)");
				PROP(j <= 64 * fc || j == 1024, "fast-commit area at least 1/64 of the journal unless the journal is at its minimum");
			}
		} else {
			PROP(j <= IN.blocks / 2 && j <= 262144, "an internal journal takes at most half of the filesystem and at most 262144 blocks");
			PROP(j + fc < IN.blocks, "journal and fast-commit area fit the filesystem");
			PROP((j & (j - 1)) == 0, "default journal sizes are powers of two");
			if (IN.fast_commit)
				PROP(fc * EXT2_JOURNAL_TO_FC_BLKS_RATIO == j, "fast-commit area == journal / EXT2_JOURNAL_TO_FC_BLKS_RATIO");
			if (rc2 == 0)
				PROP(p2.num_journal_blocks >= j && p2.num_fc_blocks >= fc, "a larger filesystem never gets a smaller journal");
		}
	}
	VF_END();
	return 0;
}
