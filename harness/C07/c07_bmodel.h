/*
 * c07_bmodel.h -- the block bitmap as a set model over block numbers 0..NB-1 and
 * the SPECIFICATION of ext2fs_get_free_blocks2() over that model.
 * The including harness defines NB, VF_FIRST (s_first_data_block) and sets
 * vf_blocks_count.
 */
static struct ext2fs_struct_generic_bitmap_base vf_bmap_obj;
static unsigned char M0[NB], M[NB];		/* before / current */
static int vf_bad_call, vf_hang;
static unsigned long long vf_blocks_count;

/* STUB: the block bitmap is a set model over block numbers 0..NB-1: test_range == "all clear", mark, mark_range; granularity 1 block.
 * A request outside [0, blocks_count) or on a foreign bitmap is recorded as an error (the real back ends warn and refuse). */
int ext2fs_get_bitmap_granularity(ext2fs_generic_bitmap bm) { (void) bm; return 0; }
int ext2fs_test_block_bitmap_range2(ext2fs_block_bitmap bm, blk64_t block, unsigned int num)
{
	unsigned p;
	int clear = 1;
	if (bm != &vf_bmap_obj || block + num > vf_blocks_count || num == 0)
		vf_bad_call = 1;
	for (p = 0; p < NB; p++)
		if (p >= block && p - block < num && M[p])
			clear = 0;
	return clear;
}
int ext2fs_mark_generic_bmap(ext2fs_generic_bitmap bm, __u64 arg)
{
	unsigned p;
	int old = 0;
	if (bm != &vf_bmap_obj || arg >= vf_blocks_count)
		vf_bad_call = 1;
	for (p = 0; p < NB; p++)
		if (p == arg) {
			old = M[p];
			M[p] = 1;
		}
	return old;
}
void ext2fs_mark_block_bitmap_range2(ext2fs_block_bitmap bm, blk64_t block, unsigned int num)
{
	unsigned p;
	if (bm != &vf_bmap_obj || block + num > vf_blocks_count)
		vf_bad_call = 1;
	for (p = 0; p < NB; p++)
		if (p >= block && p - block < num)
			M[p] = 1;
}

/*
 * Specification of ext2fs_get_free_blocks2(fs, start, finish, num, map, &ret) for cluster ratio 1, written as ONE pass
 * over the block numbers (the real function re-tests `num' blocks at every candidate):
 *   the search starts at start (s_first_data_block if 0) and visits candidates b in increasing order, a candidate needs
 *   b + num <= blocks_count;
 *   finish > start ("no wrap"): candidates end before `finish' (if the search started below it) and at the end of the
 *     filesystem: then EXT2_ET_BLOCK_ALLOC_FAIL;
 *   finish <= start or finish == 0 ("wrap", finish := start): after the end of the filesystem the search continues at
 *     s_first_data_block up to finish - 1 (or, if the search can never meet `finish', cyclically over all candidates).
 *   Result: the first candidate whose num blocks are all clear.
 * vf_hang records argument/bitmap combinations on which the real loop never reaches `finish' (wrap mode with nothing
 * free and finish <= s_first_data_block or finish beyond the last candidate).
 */
static errcode_t vf_spec_get_free(unsigned long long start, unsigned long long finish, int num, blk64_t *ret)
{
	unsigned long long b0 = start ? start : VF_FIRST;
	unsigned long long fin = finish ? finish : start;
	unsigned long long n = num ? (unsigned long long) (unsigned int) num : 1;
	int nowrap = fin > start;
	/* wrap mode: `finish' is never met (at or below the first data block, or beyond the last candidate): the wrapped search cycles over all candidates */
	int cyclic = fin <= VF_FIRST || fin + n > vf_blocks_count + 1;
	unsigned long long r1 = 0, r2 = 0, run = 0;
	int f1 = 0, f2 = 0;
	unsigned p;

	for (p = 0; p < NB; p++) {
		unsigned long long b;
		if (p < vf_blocks_count && !M[p])
			run++;
		else
			run = 0;
		if (run < n || p + 1 < n)
			continue;
		b = p + 1 - n;			/* blocks b .. p are clear, b + n <= blocks_count */
		if (!f1 && b >= b0 && (b0 >= fin || b < fin)) {
			f1 = 1;
			r1 = b;
		}
		if (!f2 && b >= VF_FIRST && (cyclic || b < fin)) {
			f2 = 1;
			r2 = b;
		}
	}
	if (f1) {
		*ret = r1;
		return 0;
	}
	if (nowrap)
		return EXT2_ET_BLOCK_ALLOC_FAIL;
	if (f2) {
		*ret = r2;
		return 0;
	}
	/* nothing free on the wrapped path: the real loop only stops when b == finish */
	if (cyclic)
		vf_hang = 1;
	return EXT2_ET_BLOCK_ALLOC_FAIL;
}
