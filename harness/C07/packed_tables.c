/*
 * C07/packed_tables: mke2fs packed_allocate_tables() (misc/mke2fs.c, static; chosen by
 * mke2fs when flex_bg && -E packed_meta_blocks) together with the REAL allocator entry
 * points it drives -- ext2fs_new_block2/3, ext2fs_get_free_blocks2,
 * ext2fs_clear_block_uninit (alloc.c), ext2fs_block_alloc_stats2 /
 * ext2fs_block_alloc_stats_range (alloc_stats.c) -- lays out all block bitmaps, then
 * all inode bitmaps, then all inode tables:
 *   (a) every table inside the filesystem, on blocks that were free before (so never
 *       on superblock / descriptor / reserved GDT / bad blocks), pairwise disjoint,
 *       recorded in the group descriptors;
 *   (p) PACKED: in the order bb[0] < .. < bb[n-1] < ib[0] < .. < ib[n-1] <= it[0] < .. < it[n-1],
 *       and no free block is skipped: below the last inode bitmap no block stays free,
 *       and between the last inode bitmap and the last inode table no window of
 *       inode_blocks_per_group free blocks stays unused;
 *   (c) the block bitmap afterwards == before + exactly the tables;
 *   (b) ACCOUNTING: bg_free_blocks_count == group size - blocks marked in the group,
 *       s_free_blocks_count == their sum, BLOCK_UNINIT cleared where tables landed.
 *
 * Inductive step from a pre-state bitmap under the accounting invariant of
 * ext2fs_initialize (as harness alloc_tables).  The bitmap is the set model.
 * Per query: LGPF (s_log_groups_per_flex), NG, ITB, BPG, MAXG.
 */
#include "config.h"
#include "ext2fs/ext2_fs.h"
#include "ext2fs/ext2fs.h"
#define main vf_real_main
#include "misc/mke2fs.c"
#undef main
#include "env.c"

#ifndef LGPF
#define LGPF 1
#endif
#ifndef BPG
#define BPG 16
#endif
#ifndef MAXG
#define MAXG 3
#endif
#define VF_FIRST 1u
#define NB (VF_FIRST + MAXG * BPG)

struct vf_in {
	__u32 ngroups, last_group_blocks, itb;
	__u32 head[MAXG], bad;
	unsigned char uninit[MAXG];
};
VF_DECLARE_INPUT(struct vf_in, IN)
#include "vf_input.inc"

static struct struct_ext2_filsys vf_fs;
static struct ext2_super_block vf_sb;
static unsigned char vf_gd[MAXG * 32] __attribute__((aligned(8)));
#include "c07_bmodel.h"

/* STUB: set model, further entry points: unmark (never expected here), find_first_zero == lowest clear block of [start, end] or ENOENT */
int ext2fs_unmark_generic_bmap(ext2fs_generic_bitmap bm, __u64 arg)
{
	(void) bm; (void) arg;
	vf_bad_call = 1;
	return 0;
}
void ext2fs_unmark_block_bitmap_range2(ext2fs_block_bitmap bm, blk64_t block, unsigned int num)
{
	(void) bm; (void) block; (void) num;
	vf_bad_call = 1;
}
errcode_t ext2fs_find_first_zero_generic_bmap(ext2fs_generic_bitmap bm, __u64 start, __u64 end, __u64 *out)
{
	unsigned p;
	int found = 0;
	if (bm != &vf_bmap_obj || start > end || end >= vf_blocks_count)
		vf_bad_call = 1;
	for (p = 0; p < NB; p++)
		if (!found && p >= start && p <= end && !M[p]) {
			found = 1;
			*out = p;
		}
	return found ? 0 : ENOENT;
}
#ifndef VF_REPLAY
/* STUB: gettext() returns its argument */
char *gettext(const char *msgid) { return (char *) msgid; }
#endif
/* STUB: ext2fs_group_desc_csum_set() does nothing (C14 covers it) */
void ext2fs_group_desc_csum_set(ext2_filsys fs, dgrp_t group) { (void) fs; (void) group; }

#ifdef NG
#define VF_NG ((__u32) NG)
#else
#define VF_NG IN.ngroups
#endif
#ifdef ITB
#define VF_ITB ((__u32) ITB)
#else
#define VF_ITB IN.itb
#endif

static __u32 vf_gsize(__u32 g)
{
	return g == VF_NG - 1 ? IN.last_group_blocks : BPG;
}
static __u32 ref_marked_in_group(const unsigned char *m, __u32 g)
{
	__u32 p, n = 0;
	for (p = 0; p < NB; p++)
		if (p >= VF_FIRST + g * BPG && p < VF_FIRST + g * BPG + vf_gsize(g))
			n += m[p];
	return n;
}

int main(void)
{
	errcode_t rc;
	__u32 g, h, p, k, q, pre = (LGPF == 0) ? 1 : 0;
	unsigned long long sum = 0, prev;
	unsigned long long tb[MAXG][3], tl[MAXG][3];	/* start / length of block bitmap, inode bitmap, inode table */

	VF_INPUT(IN);
	/* BOUND: 1..MAXG groups of BPG blocks (last group 8..BPG), 1 KiB blocks, 32-byte descriptors, inode table 1..3 blocks, flex_bg on, bigalloc off, no get_alloc_block hook */
	ASSUME(IN.ngroups >= 1 && IN.ngroups <= MAXG);
#ifdef NG
	ASSUME(IN.ngroups == NG);
#endif
#ifdef ITB
	ASSUME(IN.itb == ITB);
#endif
	ASSUME(IN.last_group_blocks >= 8 && IN.last_group_blocks <= BPG);
	ASSUME(IN.itb >= 1 && IN.itb <= 3);
	vf_blocks_count = VF_FIRST + (unsigned long long) (VF_NG - 1) * BPG + IN.last_group_blocks;

	vf_sb.s_magic = EXT2_SUPER_MAGIC;
	vf_sb.s_first_data_block = VF_FIRST;
	vf_sb.s_blocks_per_group = BPG;
	vf_sb.s_clusters_per_group = BPG;
	vf_sb.s_blocks_count = (__u32) vf_blocks_count;
	vf_sb.s_rev_level = EXT2_DYNAMIC_REV;
	vf_sb.s_inode_size = 128;
	vf_sb.s_feature_incompat = EXT4_FEATURE_INCOMPAT_FLEX_BG;
	vf_sb.s_log_groups_per_flex = LGPF;
	vf_fs.magic = EXT2_ET_MAGIC_EXT2FS_FILSYS;
	vf_fs.super = &vf_sb;
	vf_fs.blocksize = 1024;
	vf_fs.group_desc_count = VF_NG;
	vf_fs.desc_blocks = 1;
	vf_fs.inode_blocks_per_group = VF_ITB;
	vf_fs.group_desc = (struct opaque_ext2_group_desc *) vf_gd;
	vf_fs.block_map = &vf_bmap_obj;

	/* BOUND: pre-state bitmap = per group a prefix of 0..4 blocks (superblock copy + descriptors + reserved GDT) plus at most one further block in use anywhere (a bad block) */
	for (g = 0; g < MAXG; g++)
		ASSUME(IN.head[g] <= 4);
	for (p = 0; p < NB; p++) {
		int m = 0;
		for (g = 0; g < MAXG; g++)
			if (g < VF_NG && p >= VF_FIRST + g * BPG && p < VF_FIRST + g * BPG + IN.head[g])
				m = 1;
		if (p == IN.bad)
			m = 1;
		M0[p] = (p >= VF_FIRST && p < vf_blocks_count) ? m : 0;
		M[p] = M0[p];
	}
	/* ASSUME: accounting invariant as ext2fs_initialize (+ handle_bad_blocks) leaves it: bg_free_blocks_count == group size - blocks marked
	 * in the group - (2 bitmaps + inode table, pre-charged exactly when s_log_groups_per_flex == 0); s_free_blocks_count is the sum */
	for (g = 0; g < MAXG; g++) {
		__u32 used;
		if (g >= VF_NG)
			continue;
		used = ref_marked_in_group(M0, g) + (pre ? 2 + VF_ITB : 0);
		ASSUME(used <= vf_gsize(g));
		ext2fs_bg_free_blocks_count_set(&vf_fs, g, vf_gsize(g) - used);
		ext2fs_bg_flags_set(&vf_fs, g, (IN.uninit[g] & 1) ? EXT2_BG_BLOCK_UNINIT : 0);
		sum += vf_gsize(g) - used;
	}
	ext2fs_free_blocks_count_set(&vf_sb, sum);

	rc = packed_allocate_tables(&vf_fs);
	PROP(!vf_bad_call, "every bitmap request is inside the filesystem, goes to fs->block_map and nothing is unmarked");
	if (rc) {
		/* no room: outside the claim */
		PROP(rc == EXT2_ET_BLOCK_ALLOC_FAIL, "the only failure is 'could not allocate block'");
		return 0;
	}

	/* (a) placement */
	for (g = 0; g < MAXG; g++) {
		if (g >= VF_NG)
			continue;
		tb[g][0] = ext2fs_block_bitmap_loc(&vf_fs, g); tl[g][0] = 1;
		tb[g][1] = ext2fs_inode_bitmap_loc(&vf_fs, g); tl[g][1] = 1;
		tb[g][2] = ext2fs_inode_table_loc(&vf_fs, g);  tl[g][2] = VF_ITB;
		for (k = 0; k < 3; k++) {
			PROP(tb[g][k] >= VF_FIRST && tb[g][k] + tl[g][k] <= vf_blocks_count, "table lies inside the filesystem");
			for (p = 0; p < NB; p++)
				if (p >= tb[g][k] && p - tb[g][k] < tl[g][k])
					PROP(!M0[p], "table blocks were free before (not superblock/descriptor/reserved/bad blocks)");
		}
	}
	/* (p) packed order: all block bitmaps, then all inode bitmaps, then all inode tables, ascending and non-overlapping */
	prev = 0;
	for (k = 0; k < 3; k++)
		for (g = 0; g < MAXG; g++) {
			if (g >= VF_NG)
				continue;
			PROP(tb[g][k] >= prev && tb[g][k] >= VF_FIRST, "tables follow each other in ascending order: block bitmaps, inode bitmaps, inode tables");
			prev = tb[g][k] + tl[g][k];
		}
	for (g = 0; g < MAXG; g++)
		if (g == VF_NG - 1) {
			unsigned long long last_ib = tb[g][1], last_it = tb[g][2];
			for (p = 0; p < NB; p++) {
				int window_free = 1;
				if (p >= VF_FIRST && p < last_ib)
					PROP(M[p], "no free block is skipped below the last inode bitmap");
				for (q = 0; q < 3; q++)
					if (q < VF_ITB && (p + q >= vf_blocks_count || p + q >= NB || M[p + q >= NB ? 0 : p + q]))
						window_free = 0;
				if (p > last_ib && p < last_it)
					PROP(!window_free, "no window of free blocks large enough for an inode table is skipped");
			}
		}
	/* (c) the bitmap gained exactly the tables */
	for (p = 0; p < NB; p++) {
		int in_table = 0;
		for (g = 0; g < MAXG; g++)
			for (k = 0; k < 3; k++)
				if (g < VF_NG && p >= tb[g][k] && p - tb[g][k] < tl[g][k])
					in_table = 1;
		PROP(M[p] == (M0[p] || in_table), "block bitmap afterwards == before + exactly the allocated tables");
	}
	/* (b) accounting */
	sum = 0;
	for (g = 0; g < MAXG; g++) {
		__u32 marked;
		if (g >= VF_NG)
			continue;
		marked = ref_marked_in_group(M, g);
		PROP(ext2fs_bg_free_blocks_count(&vf_fs, g) == vf_gsize(g) - marked,
		     "bg_free_blocks_count == group size - blocks of the group marked in the block bitmap");
		sum += vf_gsize(g) - marked;
		if (marked != ref_marked_in_group(M0, g))
			PROP(!(ext2fs_bg_flags(&vf_fs, g) & EXT2_BG_BLOCK_UNINIT), "a group that received packed tables is not BLOCK_UNINIT");
	}
	PROP(ext2fs_free_blocks_count(&vf_sb) == sum, "s_free_blocks_count == sum of the group free counts");
	VF_END();
	(void) h;
	return 0;
}
