/*
 * C19/rawconv: lib/ext2fs/qcow2.c, the qcow2 -> raw converter's kernels.
 * KERNEL 1  qcow2_read_header(): returns a header exactly when 72 bytes could be read and they start
 *           with the big-endian magic "QFI\xfb" and version 2; the bytes are returned unchanged.
 * KERNEL 2  qcow2_write_raw_image() up to its first allocation: which headers are refused
 *           (encrypted, cluster_bits outside 9..31, unaligned L1 table, L1 larger than the image can
 *           need) and that every header the writer (initialize_qcow2_image) produces is accepted.
 * KERNEL 3  qcow2_copy_data(): count bytes from off_in of the qcow2 file arrive at off_out of the raw
 *           file, with reads that return any part of the request (-DPARTIAL_WRITE: writes too).
 */
#include "config.h"
#include "ext2fs/ext2_fs.h"
#include "ext2fs/ext2fs.h"
#ifndef KERNEL
#define KERNEL 1
#endif
#if KERNEL == 2
/* STUB: ext2fs_get_memzero as called from qcow2_write_raw_image: records the size and fails, ending the run after the header checks */
static errcode_t stub_get_memzero(unsigned long size, void *ptr);
#define ext2fs_get_memzero stub_get_memzero
#endif
#include "lib/ext2fs/qcow2.c"
#undef ext2fs_get_memzero

#define NB 8		/* BOUND: KERNEL 3: files of 8 bytes, COUNT bytes copied */
#ifndef COUNT
#define COUNT 4
#endif

struct vf_in {
	unsigned char hdr[sizeof(struct ext2_qcow2_hdr)];
	int short_read;
	unsigned long long blocks;		/* KERNEL 2: writer-style header */
	unsigned char src[NB];
	unsigned int off_in, off_out;
	unsigned char rpart[4], wpart[8];
};
VF_DECLARE_INPUT(struct vf_in, IN)
#include "vf_input.inc"

static long long vf_pos[2];		/* file positions: [0] qcow2 fd 5, [1] raw fd 6 */
static unsigned char vf_out[NB], vf_outw[NB];
static int vf_bad, vf_nread, vf_nwrite;
static unsigned long vf_alloc_size;
static int vf_nalloc;
static char *vf_buf;
static unsigned int vf_chunk;		/* bytes delivered by the last read */

/* STUB: ext2fs_llseek(): SEEK_SET on the two model files */
ext2_loff_t ext2fs_llseek(int fd, ext2_loff_t offset, int whence)
{
	if (whence != SEEK_SET || (fd != 5 && fd != 6))
		vf_bad = 1;
	vf_pos[fd == 6] = offset;
	return offset;
}
#if KERNEL == 1
/* STUB: read(): delivers the 72 symbolic header bytes, or fewer (short file) */
ssize_t read(int fd, void *buf, size_t n)
{
	unsigned int i;
	(void) fd;
	if (n != sizeof(struct ext2_qcow2_hdr) || vf_pos[0] != 0)
		vf_bad = 1;
	if (IN.short_read)
		return 10;
	for (i = 0; i < sizeof(struct ext2_qcow2_hdr); i++)
		((unsigned char *) buf)[i] = IN.hdr[i];
	return sizeof(struct ext2_qcow2_hdr);
}
#endif
#if KERNEL == 2
static errcode_t stub_get_memzero(unsigned long size, void *ptr)
{
	(void) ptr;
	if (!vf_nalloc)
		vf_alloc_size = size;
	vf_nalloc++;
	return EXT2_ET_NO_MEMORY;
}
#endif
#if KERNEL == 3
/* STUB: read()/write() on byte-array files; read delivers 1..n bytes (symbolic), write all or (PARTIAL_WRITE) 1..n */
ssize_t read(int fd, void *buf, size_t n)
{
	unsigned int take, k, p;
	if (fd != 5 || n == 0 || n > COUNT)
		vf_bad = 1;
	take = 1 + IN.rpart[vf_nread % 4] % COUNT;
	vf_nread++;
	if (take > n)
		take = n;
	for (k = 0; k < COUNT; k++)
		for (p = 0; p < NB; p++)
			if (k < take && (long long) p == vf_pos[0] + k)
				((unsigned char *) buf)[k] = IN.src[p];
	vf_pos[0] += take;
	vf_buf = buf;
	vf_chunk = take;
	return take;
}
ssize_t write(int fd, const void *buf, size_t n)
{
	unsigned int take = n, k, p;
	const unsigned char *b = buf;
	if (fd != 6 || n == 0)
		vf_bad = 1;
	/* the request must lie inside what the last read delivered */
	PROP((const char *) buf >= vf_buf && (const char *) buf + n <= vf_buf + vf_chunk, "write request lies inside the bytes just read");
#ifdef PARTIAL_WRITE
	take = 1 + IN.wpart[vf_nwrite % 8] % COUNT;
	if (take > n)
		take = n;
#endif
	vf_nwrite++;
	for (k = 0; k < COUNT; k++)
		for (p = 0; p < NB; p++)
			if (k < take && (long long) p == vf_pos[1] + k) {
				vf_out[p] = b[k];
				vf_outw[p]++;
			}
	vf_pos[1] += take;
	return take;
}
#endif

static unsigned long long ref_be(const unsigned char *p, int n)
{
	unsigned long long v = 0;
	int i;
	for (i = 0; i < n; i++)
		v = (v << 8) | p[i];
	return v;
}

int main(void)
{
	unsigned int i;
	VF_INPUT(IN);
#if KERNEL == 1
	{
		struct ext2_qcow2_hdr *h = qcow2_read_header(5);
		int ok = !IN.short_read && ref_be(IN.hdr, 4) == 0x514649fbULL && ref_be(IN.hdr + 4, 4) == 2;
		PROP(!vf_bad, "reads 72 bytes from offset 0");
		PROP((h != NULL) == ok, "header accepted exactly when complete, magic QFI\\xfb and version 2");
		if (h)
			for (i = 0; i < sizeof(*h); i++)
				PROP(((unsigned char *) h)[i] == IN.hdr[i], "header bytes returned unchanged");
	}
#elif KERNEL == 2
	{
		static union { unsigned char b[sizeof(struct ext2_qcow2_hdr)]; struct ext2_qcow2_hdr h; } u;
		unsigned long long cb, size, l1_size, l1_off, crypt;
		int ret, want_corrupt;
		for (i = 0; i < sizeof(u.b); i++)
			u.b[i] = IN.hdr[i];
#ifdef WRITER_STYLE
		/* ASSUME: WRITER_STYLE: the header fields e2image writes for a filesystem of 1..2^32 blocks of 2^cb bytes, cb in 10..16 */
		cb = ref_be(IN.hdr + 20, 4);
		ASSUME(cb >= 10 && cb <= 16);
		ASSUME(IN.blocks >= 1 && IN.blocks <= (1ULL << 32));
		ASSUME(ref_be(IN.hdr + 24, 8) == IN.blocks << cb);
		ASSUME(ref_be(IN.hdr + 32, 4) == 0);
		ASSUME(ref_be(IN.hdr + 36, 4) == (IN.blocks + (1ULL << (cb - 3)) - 1) >> (cb - 3));
		ASSUME(ref_be(IN.hdr + 40, 8) == 1ULL << cb);
#endif
		cb = ref_be(IN.hdr + 20, 4);
		size = ref_be(IN.hdr + 24, 8);
		crypt = ref_be(IN.hdr + 32, 4);
		l1_size = ref_be(IN.hdr + 36, 4);
		l1_off = ref_be(IN.hdr + 40, 8);
		ret = qcow2_write_raw_image(5, 6, &u.h);
#ifdef WRITER_STYLE
		PROP(ret == EXT2_ET_NO_MEMORY && vf_nalloc == 1 && vf_alloc_size == 1ULL << cb, "a header as e2image writes it passes validation; L2 buffer is one cluster");
#else
		want_corrupt = cb < 9 || cb > 31 || (l1_off & ((1ULL << cb) - 1)) != 0 ||
			(cb >= 9 && cb <= 31 && l1_size > (unsigned int)((size >> (2 * cb - 3)) + (1ULL << cb)));
		if (crypt)
			PROP(ret == -QCOW_ENCRYPTED && vf_nalloc == 0, "encrypted image refused before anything is allocated or written");
		else if (want_corrupt)
			PROP(ret == -QCOW_CORRUPTED && vf_nalloc == 0, "implausible geometry refused before anything is allocated or written");
		else
			PROP(ret == EXT2_ET_NO_MEMORY && vf_nalloc == 1 && vf_alloc_size == 1ULL << cb, "plausible header: goes on to allocate one cluster");
#endif
		PROP(!vf_bad && vf_pos[1] == 0, "raw file not touched during validation");
	}
#else
	{
		static char buf[COUNT];
		int ret;
		/* ASSUME: source and destination ranges inside the 8-byte model files */
		ASSUME(IN.off_in <= NB - COUNT && IN.off_out <= NB - COUNT);
		ret = qcow2_copy_data(5, 6, IN.off_in, IN.off_out, buf, COUNT);
		PROP(ret == 0 && !vf_bad, "copy succeeds, right descriptors");
		for (i = 0; i < NB; i++) {
			if (i >= IN.off_out && i < IN.off_out + COUNT)
				PROP(vf_outw[i] == 1 && vf_out[i] == IN.src[i - IN.off_out + IN.off_in], "each byte of the cluster arrives once, at its place");
			else
				PROP(vf_outw[i] == 0, "nothing written outside the destination cluster");
		}
	}
#endif
	VF_END();
	return 0;
}
