/*
 * C19/l2item: misc/e2image.c:add_l2_item() + get_free_table() -- where the writer records
 * "filesystem block blk lives at image offset data".  One step from a symbolic cache state
 * (one L2 table in use for a symbolic L1 slot with symbolic content, one table free), read back
 * the way the qcow2 format and lib/ext2fs/qcow2.c:qcow2_write_raw_image() read it:
 *   guest cluster = l1_index * (cluster_size/8) + l2_index,
 *   L1[l1_index] = big-endian (L2 table offset | COPIED), L2[l2_index] = big-endian (data offset | COPIED).
 */
#include "config.h"
#include "ext2fs/ext2_fs.h"
#include "ext2fs/ext2fs.h"
#define main vf_real_main
#include "misc/e2image.c"
#undef main
#include "env.c"
#ifndef VF_REPLAY
char *gettext(const char *m) { return (char *) m; }
#endif

#ifndef CB
#define CB 10
#endif
#define L2E (1u << (CB - 3))	/* entries per L2 table */
#define NL1 4			/* BOUND: 4 L1 slots (blk < 4 * L2E) */

struct vf_in {
	unsigned long long blk, data, next, next_offset, used_offset;
	unsigned int used_l1;
	int have_used;
	unsigned long long l1[NL1];
	unsigned long long used_data[L2E];
};
VF_DECLARE_INPUT(struct vf_in, IN)
#include "vf_input.inc"

static unsigned long long ref_be64(unsigned long long v)	/* value of the 8 bytes of v read big endian */
{
	const unsigned char *p = (const unsigned char *) &v;
	unsigned long long r = 0;
	int i;
	for (i = 0; i < 8; i++)
		r = (r << 8) | p[i];
	return r;
}

int main(void)
{
	static struct ext2_qcow2_image img;
	static struct ext2_qcow2_l2_cache cache;
	static struct ext2_qcow2_l2_table t_used, t_free;
	static __u64 d_used[L2E], d_free[L2E], l1[NL1];
	struct ext2_qcow2_l2_table *t;
	unsigned int i, want_l1, want_l2;
	int ret, fresh;

	VF_INPUT(IN);
	ASSUME(IN.blk < (unsigned long long) NL1 * L2E);
	ASSUME(IN.used_l1 < NL1);
	/* ASSUME: image offsets below 2^62 (bits 62/63 are the COMPRESSED/COPIED flags of the format) */
	ASSUME(IN.data < (1ULL << 62) && IN.next < (1ULL << 62) && IN.next_offset < (1ULL << 62) && IN.used_offset < (1ULL << 62));
	/* BOUND: main.*: L2E entries per table */
	for (i = 0; i < L2E; i++)
		d_used[i] = IN.used_data[i];
	for (i = 0; i < NL1; i++)
		l1[i] = IN.l1[i];
	img.cluster_bits = CB;
	img.cluster_size = 1u << CB;
	img.l2_size = L2E;
	img.l1_size = NL1;
	img.l1_table = l1;
	img.l2_cache = &cache;
	t_used.data = d_used; t_used.l1_index = IN.used_l1; t_used.offset = IN.used_offset;
	t_free.data = d_free;
	/* Inv: tables on the free list are zeroed (init_l2_cache allocates them zeroed, put_used_table clears them) */
	cache.next_offset = IN.next_offset;
	cache.free_head = &t_free;
	cache.free = 1;
	if (IN.have_used) {
		cache.used_head = cache.used_tail = &t_used;
		cache.count = 2;
	} else {
		cache.count = 1;
	}
	want_l1 = (unsigned int)(IN.blk / L2E);
	want_l2 = (unsigned int)(IN.blk % L2E);
	fresh = !IN.have_used || IN.used_l1 != want_l1;

	ret = add_l2_item(&img, IN.blk, IN.data, IN.next);

	PROP(ret == fresh, "returns 1 exactly when a new L2 table was started");
	t = cache.used_tail;
	PROP(t != NULL && t->l1_index == want_l1, "the table in use afterwards is the one of blk's L1 slot");
	if (fresh) {
		PROP(t->offset == IN.next_offset && cache.next_offset == IN.next, "new table placed at the reserved offset; next reservation recorded");
		PROP(ref_be64(l1[want_l1]) == (IN.next_offset | (1ULL << 63)), "L1 slot points (big endian, COPIED) at the new table");
		if (IN.have_used) {
			PROP(cache.used_head == &t_used && t_used.next == t && cache.free == 0, "previous table stays queued for writing, in order");
			for (i = 0; i < L2E; i++)
				PROP(d_used[i] == IN.used_data[i], "previous table content untouched");
		}
	} else {
		PROP(t == &t_used && t->offset == IN.used_offset && cache.next_offset == IN.next_offset && cache.free == 1, "same table reused, no reservation consumed");
	}
	for (i = 0; i < NL1; i++)
		if (!(fresh && i == want_l1))
			PROP(l1[i] == IN.l1[i], "no other L1 slot changes");
	for (i = 0; i < L2E; i++) {
		if (i == want_l2)
			PROP(ref_be64(t->data[i]) == (IN.data | (1ULL << 63)), "L2 entry of blk holds (big endian, COPIED) the data offset");
		else
			PROP(t->data[i] == (fresh ? 0 : IN.used_data[i]), "no other L2 entry changes (new table starts empty)");
	}
	/* reader's inverse: the slot found maps back to blk */
	PROP((unsigned long long) t->l1_index * L2E + want_l2 == IN.blk, "reader's (l1_index * l2_size + l2_index) gives blk back");
	VF_END();
	return 0;
}
