/*
 * C19/discover: the per-inode metadata discovery step of misc/e2image.c:write_raw_image_file()
 * (with the real process_dir_block / process_file_block callbacks, use_inode_shortcuts and the
 * real ext2fs_inode_has_valid_blocks2 / ext2fs_file_acl_block).
 *
 * The inode scan is a stub that delivers ONE fully symbolic inode (number and all 128 bytes), then
 * the end marker.  Every ext2fs_mark_block_bitmap2() on meta_block_map is recorded.  The block
 * iterator is a stub that records which callback it was given and feeds that callback two symbolic
 * (block, blockcnt) pairs (blockcnt < 0 = mapping metadata: indirect / extent tree block).
 *
 * Claim (what an image that "preserves all metadata" needs from this loop):
 *   - an unused inode (i_links_count == 0) marks nothing;
 *   - the xattr block (i_file_acl, 48 bit) of every in-use inode is marked, whatever the inode's type
 *     (fast symlinks, device nodes, fifos, sockets and inline-data files can own one);
 *   - the mapped blocks are visited iff the inode has valid block entries: for directories,
 *     symlinks, the journal, the quota files and the orphan file every block the iterator reports is
 *     marked; for other inodes only mapping metadata (blockcnt < 0), or everything with -a, and the
 *     iterator is only needed when the inode is extent mapped, has indirect blocks, or -a;
 *   - the count of marked blocks (meta_blocks_count) equals the number of marks; nothing else is marked.
 */
#include "config.h"
#include "ext2fs/ext2_fs.h"
#include "ext2fs/ext2fs.h"
static void mark_table_blocks(ext2_filsys fs);
static void output_meta_data_blocks(ext2_filsys fs, int fd, int flags);
static void output_qcow2_meta_data_blocks(ext2_filsys fs, int fd);
#define main vf_real_main
#include "misc/e2image.c"
#undef main
#include "env.c"
#ifndef VF_REPLAY
char *gettext(const char *m) { return (char *) m; }
#endif

#ifndef ALL_DATA
#define ALL_DATA 0	/* -a: one query per value */
#endif

struct vf_in {
	unsigned char raw[128];		/* the inode */
	__u32 ino;
	__u32 journal_inum, prj_quota_inum, orphan_inum;
	__u32 incompat;
	unsigned long long blk[2];
	long long cnt[2];
};
VF_DECLARE_INPUT(struct vf_in, IN)
#include "vf_input.inc"

#define MAXMARK 6
static unsigned long long vf_mark[MAXMARK];
static int vf_nmark, vf_bad, vf_scan_calls, vf_iter_calls, vf_iter_kind, vf_out_calls, vf_tables;
static int vf_dummy_map, vf_dummy_scan;
static union { unsigned char b[128]; struct ext2_inode s; } vf_ino;

/* STUB: ext2fs_allocate_block_bitmap()/ext2fs_free_block_bitmap(): an opaque handle */
errcode_t ext2fs_allocate_block_bitmap(ext2_filsys fs, const char *descr, ext2fs_block_bitmap *ret)
{
	(void) fs; (void) descr;
	*ret = (ext2fs_block_bitmap) &vf_dummy_map;
	return 0;
}
void ext2fs_free_block_bitmap(ext2fs_block_bitmap bitmap) { (void) bitmap; }
/* STUB: ext2fs_mark_generic_bmap(): records the block */
int ext2fs_mark_generic_bmap(ext2fs_generic_bitmap bitmap, __u64 arg)
{
	if (bitmap != (ext2fs_generic_bitmap) &vf_dummy_map)
		vf_bad = 1;
	if (vf_nmark < MAXMARK)
		vf_mark[vf_nmark] = arg;
	vf_nmark++;
	return 0;
}
/* STUB: mark_table_blocks() (cut): superblock / descriptor / bitmap / inode table discovery, counted only */
static void mark_table_blocks(ext2_filsys fs) { (void) fs; vf_tables++; }
/* STUB: output_meta_data_blocks()/output_qcow2_meta_data_blocks() (cut; see rawout, geom, l2item, l2cache): counted only */
static void output_meta_data_blocks(ext2_filsys fs, int fd, int flags) { (void) fs; (void) fd; (void) flags; vf_out_calls++; }
static void output_qcow2_meta_data_blocks(ext2_filsys fs, int fd) { (void) fs; (void) fd; vf_out_calls++; }
/* STUB: inode scan: one symbolic inode, then ino = 0 */
errcode_t ext2fs_open_inode_scan(ext2_filsys fs, int buffer_blocks, ext2_inode_scan *ret_scan)
{
	(void) fs; (void) buffer_blocks;
	*ret_scan = (ext2_inode_scan) &vf_dummy_scan;
	return 0;
}
void ext2fs_close_inode_scan(ext2_inode_scan scan) { (void) scan; }
errcode_t ext2fs_get_next_inode(ext2_inode_scan scan, ext2_ino_t *ino, struct ext2_inode *inode)
{
	if (scan != (ext2_inode_scan) &vf_dummy_scan)
		vf_bad = 1;
	if (vf_scan_calls++ == 0) {
		*ino = IN.ino;
		*inode = vf_ino.s;
	} else {
		*ino = 0;
	}
	return 0;
}
/* STUB: quota_type2inum(): user/group quota inodes 3/4, project quota from the superblock (lib/support/quotaio.c) */
ext2_ino_t quota_type2inum(enum quota_type qtype, struct ext2_super_block *sb)
{
	return qtype == USRQUOTA ? 3 : qtype == GRPQUOTA ? 4 : qtype == PRJQUOTA ? sb->s_prj_quota_inum : 0;
}
/* STUB: ext2fs_block_iterate3(): records the callback, checks that the inode shortcut serves this inode, reports two symbolic blocks */
errcode_t ext2fs_block_iterate3(ext2_filsys fs, ext2_ino_t ino, int flags, char *block_buf,
				int (*func)(ext2_filsys fs, blk64_t *blocknr, e2_blkcnt_t blockcnt,
					    blk64_t ref_blk, int ref_offset, void *priv_data),
				void *priv_data)
{
	struct ext2_inode tmp;
	blk64_t b;
	int k;
	vf_iter_calls++;
	if (ino != IN.ino || !(flags & BLOCK_FLAG_READ_ONLY) || !block_buf)
		vf_bad = 1;
	vf_iter_kind = (func == process_dir_block) ? 1 : (func == process_file_block) ? 2 : 3;
	/* the library would fetch the inode through fs->read_inode: it must get the scanned inode */
	if (!fs->read_inode || fs->read_inode(fs, ino, &tmp) != 0 || tmp.i_mode != vf_ino.s.i_mode || tmp.i_block[0] != vf_ino.s.i_block[0])
		vf_bad = 1;
	for (k = 0; k < 2; k++) {
		b = IN.blk[k];
		if (func(fs, &b, IN.cnt[k], 0, 0, priv_data) != 0 || b != IN.blk[k])
			vf_bad = 1;	/* read-only iteration: no abort, no change */
	}
	return 0;
}

static unsigned int ref_le16(const unsigned char *p) { return p[0] | (p[1] << 8); }
static unsigned int ref_le32(const unsigned char *p) { return ref_le16(p) | (ref_le16(p + 2) << 16); }

int main(void)
{
	static struct struct_ext2_filsys fs_s;
	static struct ext2_super_block sb;
	unsigned long long acl, want[MAXMARK];
	unsigned int i, mode, type;
	int nwant = 0, in_use, valid, special, need_iter, k;

	VF_INPUT(IN);
	/* BOUND: main.0: 128 inode bytes */
	for (i = 0; i < 128; i++)
		vf_ino.b[i] = IN.raw[i];
	ASSUME(IN.ino != 0);
	fs_s.super = &sb;
	fs_s.blocksize = 1024;
	sb.s_feature_incompat = IN.incompat;
	sb.s_journal_inum = IN.journal_inum;
	sb.s_prj_quota_inum = IN.prj_quota_inum;
	sb.s_orphan_file_inum = IN.orphan_inum;
	all_data = ALL_DATA;

	write_raw_image_file(&fs_s, 7, E2IMAGE_RAW, 0, 0);

	PROP(!vf_bad, "callee contracts (map handle, scan handle, read-only iteration of the scanned inode through the shortcut)");
	PROP(vf_tables == 1 && vf_out_calls == 1 && vf_scan_calls == 2, "tables marked once, whole scan consumed, output written once");
	PROP(fs_s.read_inode == 0 && fs_s.get_blocks == 0 && fs_s.check_directory == 0, "inode shortcuts removed afterwards");

	/* reference, from the on-disk inode layout */
	mode = ref_le16(IN.raw);
	type = mode & 0170000;
	in_use = ref_le16(IN.raw + 26) != 0;					/* i_links_count */
	acl = ref_le32(IN.raw + 104);						/* i_file_acl */
	if (IN.incompat & EXT4_FEATURE_INCOMPAT_64BIT)
		acl |= (unsigned long long) ref_le16(IN.raw + 118) << 32;	/* l_i_file_acl_high */
	/* TRUSTED: "has valid block entries" is the library's own definition (lib/ext2fs/valid_blk.c), used here as the oracle */
	valid = ext2fs_inode_has_valid_blocks2(&fs_s, &vf_ino.s);
	special = type == 0040000 || type == 0120000 || IN.ino == IN.journal_inum || IN.ino == 3 || IN.ino == 4 ||
		IN.ino == IN.prj_quota_inum || IN.ino == IN.orphan_inum;
	need_iter = special || (ref_le32(IN.raw + 32) & 0x80000 /* EXTENTS_FL */) || ref_le32(IN.raw + 40 + 12 * 4) ||
		ref_le32(IN.raw + 40 + 13 * 4) || ref_le32(IN.raw + 40 + 14 * 4) || ALL_DATA;
	if (in_use) {
		if (acl)
			want[nwant++] = acl;
		if (valid && need_iter)
			for (k = 0; k < 2; k++)
				if (special || IN.cnt[k] < 0 || ALL_DATA)
					want[nwant++] = IN.blk[k];
	}
	if (!in_use)
		PROP(vf_nmark == 0 && vf_iter_calls == 0, "an unused inode marks nothing");
	if (in_use && acl)
		PROP(vf_nmark >= 1 && vf_mark[0] == acl, "the xattr block of an in-use inode is marked whatever the inode's type");
	if (in_use && !valid)
		PROP(vf_iter_calls == 0, "an inode without valid block entries is not iterated (i_block holds a target, device number or inline data)");
	if (in_use && valid && need_iter)
		PROP(vf_iter_calls == 1 && vf_iter_kind == (special ? 1 : 2), "an inode with valid blocks is iterated once, all-blocks callback for dir/symlink/journal/quota/orphan");
	PROP(vf_nmark == nwant, "number of marks");
	for (k = 0; k < MAXMARK; k++)
		if (k < nwant && k < vf_nmark)
			PROP(vf_mark[k] == want[k], "exactly the expected blocks are marked, in order");
	PROP(meta_blocks_count == (blk64_t) nwant, "meta_blocks_count equals the number of marked blocks");
	VF_END();
	return 0;
}
