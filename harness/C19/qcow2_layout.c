/*
 * C19/qcow2_layout: the whole qcow2 writer, misc/e2image.c:output_qcow2_meta_data_blocks(), REAL down to
 * write()/llseek (initialize_qcow2_image, init_refcount, init_l1_table, init_l2_cache, write_header,
 * update_refcount, add_l2_item, get_free_table, flush_l2_cache, put_used_table, sync_refcount,
 * generic_write, seek_set/seek_relative, check_zero_block, free_qcow2_image) on a scaled geometry:
 *   block = cluster = 32 bytes (cluster_bits 5): 4 entries per L2 table, 16 refcounts per refcount block
 *   (a new refcount block every 16 clusters), 4 refcount blocks per refcount table cluster (64 clusters:
 *   the image stays below that, so the known init_refcount sizing defect is not touched).
 * Filesystem of NBLK blocks; which are imaged is symbolic, which of them are all-zero is a per-query mask.
 *
 * Default (light) model: the write() stub records which clusters of the image file each write touches.
 *   Claim: injective allocation -- no cluster of the file is written twice (header, L1, refcount table, each
 *   refcount block, each L2 table and each data cluster own their clusters exclusively).
 * -DREADER: the image file is a word array; an independent reader of the qcow2 format (QEMU
 *   docs/interop/qcow2.txt) checks over the final file: no word written twice; every written cluster has
 *   refcount exactly 1 and no cluster a refcount other than 0 or 1; guest block b is mapped (L1[b / 4] -> L2
 *   table, L2[b % 4] -> cluster, both COPIED, big endian) iff it is imaged and not all-zero, and the cluster
 *   it maps to holds the bytes of block b; header as in harness geom.
 */
#include "config.h"
#include "ext2fs/ext2_fs.h"
#include "ext2fs/ext2fs.h"
/* STUB: ext2fs_get_mem / get_memzero / get_arrayzero / free_mem as called from e2image.c: separate zeroed static objects
 * handed out by call sequence, with plain pointer assignment (planned hook H3: the library inlines move the pointer with
 * memcpy; with malloc or one byte arena the propositional reduction needs > 10 GB here) */
static errcode_t stub_get_mem(unsigned long size, void *ptr);
static errcode_t stub_get_array(unsigned long count, unsigned long size, void *ptr);
static errcode_t stub_free_mem(void *ptr);
#define ext2fs_get_mem stub_get_mem
#define ext2fs_get_memzero stub_get_mem
#define ext2fs_get_arrayzero stub_get_array
#define ext2fs_free_mem stub_free_mem
#define main vf_real_main
#include "misc/e2image.c"
#undef main
#undef ext2fs_get_mem
#undef ext2fs_get_memzero
#undef ext2fs_get_arrayzero
#undef ext2fs_free_mem
#include "env.c"
#ifndef VF_REPLAY
char *gettext(const char *m) { return (char *) m; }
#endif

#define CB 5
#define CSZ 32
#ifndef NBLK
#define NBLK 10		/* BOUND: filesystem blocks */
#endif
#ifndef NCL
#define NCL 40		/* BOUND: model file of 40 clusters (worst case of NBLK=16: 9 + 16 + 4 + 4 + 2 = 35) */
#endif
#define NW (NCL * CSZ / 8)
#define NL1 ((NBLK + 3) / 4)

static int vf_bad;
struct vf_in {
	unsigned int imaged, zero;	/* bit b: block b is in meta_block_map / reads back all-zero */
};
VF_DECLARE_INPUT(struct vf_in, IN)
#include "vf_input.inc"

static unsigned long long vf_word[NW];		/* READER: the image file, 8-byte words in file byte order */
static unsigned char vf_wcnt[NW], vf_ccnt[NCL];
static long long vf_pos;
static int vf_dummy_map, vf_dummy_io;

/* allocation by call sequence (the order in output_qcow2_meta_data_blocks is fixed): separate, typed, zeroed static objects */
static struct ext2_qcow2_image vf_o_img;
static struct ext2_qcow2_hdr vf_o_hdr;
static __u64 vf_o_rt[CSZ / 8], vf_o_l1[NL1], vf_o_data[NL1][CSZ / 8];
static __u16 vf_o_rb[CSZ / 2];
static struct ext2_qcow2_l2_cache vf_o_cache;
static struct ext2_qcow2_l2_table vf_o_tab[NL1];
static char vf_o_hbuf[3 * CSZ], vf_o_buf[CSZ];
static unsigned int vf_nalloc;
static errcode_t stub_get_mem(unsigned long size, void *ptr)
{
	unsigned int k = vf_nalloc++;
	void *p = NULL;
	unsigned long want = 0;
	if (k == 0) { p = &vf_o_img; want = sizeof(vf_o_img); }
	else if (k == 1) { p = &vf_o_hdr; want = sizeof(vf_o_hdr); }
	else if (k == 2) { p = vf_o_rt; want = sizeof(vf_o_rt); }
	else if (k == 3) { p = vf_o_rb; want = sizeof(vf_o_rb); }
	else if (k == 4) { p = vf_o_l1; want = sizeof(vf_o_l1); }
	else if (k == 5) { p = &vf_o_cache; want = sizeof(vf_o_cache); }
	else if (k < 6 + 2 * NL1) {
		if ((k - 6) % 2 == 0) { p = &vf_o_tab[(k - 6) / 2]; want = sizeof(vf_o_tab[0]); }
		else { p = vf_o_data[(k - 6) / 2]; want = sizeof(vf_o_data[0]); }
	}
	else if (k == 6 + 2 * NL1) { p = vf_o_hbuf; want = sizeof(vf_o_hbuf); }
	else if (k == 7 + 2 * NL1) { p = vf_o_buf; want = sizeof(vf_o_buf); }
	if (!p || size != want) {
		vf_bad = 1;
		return EXT2_ET_NO_MEMORY;
	}
	*(void **) ptr = p;
	return 0;
}
static errcode_t stub_get_array(unsigned long count, unsigned long size, void *ptr) { return stub_get_mem(count * size, ptr); }
static errcode_t stub_free_mem(void *ptr) { *(void **) ptr = NULL; return 0; }

/* STUB: ext2fs_llseek(): position of the model image file */
ext2_loff_t ext2fs_llseek(int fd, ext2_loff_t offset, int whence)
{
	if (fd != 7)
		vf_bad = 1;
	if (whence == SEEK_SET)
		vf_pos = offset;
	else if (whence == SEEK_CUR)
		vf_pos += offset;
	else
		vf_bad = 1;
	return vf_pos;
}
/* STUB: write(): light model: counts the clusters a write touches; READER: stores 8-byte words and counts them */
ssize_t write(int fd, const void *buf, size_t n)
{
	unsigned int w, i;
	unsigned long long v;
	if (fd != 7 || (n & 7) || (vf_pos & 7) || n > 3 * CSZ || vf_pos < 0 || vf_pos + (long long) n > (long long) NW * 8)
		vf_bad = 1;
#ifdef READER
	for (w = 0; w < 3 * CSZ / 8; w++) {
		if (w * 8 >= n)
			continue;
		memcpy(&v, (const char *) buf + w * 8, 8);
		for (i = 0; i < NW; i++)		/* no symbolic array index */
			if ((long long) i * 8 == vf_pos + (long long) w * 8) {
				vf_word[i] = v;
				if (vf_wcnt[i] < 3)
					vf_wcnt[i]++;
			}
	}
#else
	(void) v; (void) buf;
	for (w = 0; w < 3; w++)
		for (i = 0; i < NCL; i++)
			if (w * CSZ < n && (long long) i * CSZ == (vf_pos & ~(long long)(CSZ - 1)) + (long long) w * CSZ)
				if (vf_ccnt[i] < 3)
					vf_ccnt[i]++;
#endif
	vf_pos += n;
	return n;
}
/* STUB: ext2fs_test_generic_bmap(): membership in meta_block_map = bit of the symbolic mask */
int ext2fs_test_generic_bmap(ext2fs_generic_bitmap bmap, __u64 arg)
{
	if (bmap != (ext2fs_generic_bitmap) &vf_dummy_map || arg >= NBLK)
		vf_bad = 1;
#ifdef ACTIVE
	/* concrete answers where the configuration fixes them (a symbolic expression with known bits is not a constant for symex) */
	if (!((ACTIVE >> (arg / 4)) & 1))
		return 0;
	if (arg % 4 == 0)
		return 1;
#endif
	return (IN.imaged >> arg) & 1;
}
/* STUB: io_channel_read_blk64(): block b reads as 32 bytes 0x40+b, or all-zero */
errcode_t io_channel_read_blk64(io_channel io, unsigned long long blk, int count, void *data)
{
	unsigned char *b = data;
	unsigned int i;
	if (io != (io_channel) &vf_dummy_io || count != 1 || blk >= NBLK)
		vf_bad = 1;
	for (i = 0; i < CSZ; i++)
		b[i] = ((IN.zero >> blk) & 1) ? 0 : (unsigned char)(0x40 + blk);
	return 0;
}

#ifdef READER
/* ---- independent reader */
static unsigned long long ref_word_at(unsigned long long pos)	/* file word at byte offset pos (8-aligned), 0 beyond the model */
{
	unsigned int i;
	unsigned long long r = 0;
	for (i = 0; i < NW; i++)
		if ((unsigned long long) i * 8 == pos)
			r = vf_word[i];
	return r;
}
static unsigned long long ref_be64(unsigned long long v)	/* the 8 file bytes of v as a big-endian number */
{
	const unsigned char *p = (const unsigned char *) &v;
	unsigned long long r = 0;
	int i;
	for (i = 0; i < 8; i++)
		r = (r << 8) | p[i];
	return r;
}
static unsigned int ref_be16_in(unsigned long long v, unsigned int k)	/* k-th 16-bit big-endian field of the word */
{
	const unsigned char *p = (const unsigned char *) &v;
	return (p[2 * k] << 8) | p[2 * k + 1];
}
#endif

int main(void)
{
	static struct struct_ext2_filsys fs_s;
	static struct ext2_super_block sb;
	unsigned int b, c, k;

	VF_INPUT(IN);
	fs_s.super = &sb;
	fs_s.blocksize = CSZ;
	fs_s.io = (io_channel) &vf_dummy_io;
	sb.s_blocks_count = NBLK;
	sb.s_first_data_block = 0;
	meta_block_map = (ext2fs_block_bitmap) &vf_dummy_map;
#ifdef ZERO
	IN.zero = ZERO;		/* compile-time mask of all-zero blocks */
#endif
#ifdef ACTIVE
	/* BOUND: -DACTIVE=mask (one query per value): L1 slot r is either untouched (no imaged block in blocks 4r..4r+3) or its first
	 * block 4r is imaged and blocks 4r+1..4r+3 are symbolic: when a new L2 table starts is then known during symbolic
	 * execution (table pointers stay concrete; symex 150 s -> seconds); the file offsets remain symbolic */
	{
		unsigned int r, m = 0;
		for (r = 0; r < NL1; r++)
			if ((ACTIVE >> r) & 1)
				m |= (1u << (4 * r)) | (IN.imaged & (0xeu << (4 * r)));
		IN.imaged = m;
	}
#endif
	/* ASSUME: at least one imaged non-zero block (the superblock always is): with none, flush_l2_cache() aborts on assert(table) */
	ASSUME((IN.imaged & ~IN.zero & ((1u << NBLK) - 1)) != 0);
	/* meta_blocks_count as write_raw_image_file leaves it: the number of blocks in the map */
	meta_blocks_count = 0;
	for (b = 0; b < NBLK; b++)
		meta_blocks_count += (IN.imaged >> b) & 1;

	output_qcow2_meta_data_blocks(&fs_s, 7);

	PROP(!vf_bad, "writes are 8-byte aligned, inside the model file, to the image descriptor; allocations in the expected sequence");
	/* BOUND: main.*: NW words / NCL clusters / NBLK blocks */
#ifndef READER
	(void) k;
	for (c = 0; c < NCL; c++)
		PROP(vf_ccnt[c] <= 1, "injective allocation: no cluster of the image file is written twice");
#else
	{
	unsigned long long l1_off, rt_off, l1_size, size;
	for (k = 0; k < NW; k++)
		PROP(vf_wcnt[k] <= 1, "injective allocation: no part of the image file is written twice");

	/* header */
	PROP(ref_be64(vf_word[0]) == ((0x514649fbULL << 32) | 2), "header: magic and version 2");
	size = ref_be64(vf_word[3]);
	PROP(size == (unsigned long long) NBLK * CSZ && (ref_be64(vf_word[2]) & 0xffffffffULL) == CB, "header: size and cluster_bits");
	l1_size = (ref_be64(vf_word[4]) & 0xffffffffULL);		/* bytes 36..39 */
	l1_off = ref_be64(vf_word[5]);
	rt_off = ref_be64(vf_word[6]);
	PROP(l1_size == NL1 && l1_off % CSZ == 0 && rt_off % CSZ == 0 && l1_off < rt_off, "header: L1 size, aligned table offsets");
	PROP((ref_be64(vf_word[7]) >> 32) == 1, "header: one refcount table cluster");

	/* refcounts */
	for (c = 0; c < NCL; c++) {
		unsigned long long rb = ref_be64(ref_word_at(rt_off + 8 * (c / 16)));	/* refcount block of cluster c */
		unsigned int rc = 0, written = 0;
		if (rb != 0)
			rc = ref_be16_in(ref_word_at(rb + 2 * (c % 16) / 8 * 8), (c % 16) % 4);
		for (k = 0; k < CSZ / 8; k++)
			if (vf_wcnt[c * (CSZ / 8) + k])
				written = 1;
		PROP(rc <= 1, "refcounts are 0 or 1");
		if (written)
			PROP(rc == 1 && rb % CSZ == 0, "every written cluster has refcount 1 (in a cluster-aligned refcount block)");
	}
	/* mapping */
	for (b = 0; b < NBLK; b++) {
		int want = ((IN.imaged >> b) & 1) && !((IN.zero >> b) & 1);
		unsigned long long l1e = ref_be64(ref_word_at(l1_off + 8 * (b / 4)));
		unsigned long long l2e = 0, t = l1e & ~(3ULL << 62);
		if (t != 0)
			l2e = ref_be64(ref_word_at(t + 8 * (b % 4)));
		if (want) {
			unsigned long long d = l2e & ~(3ULL << 62);
			PROP((l1e >> 62) == 2 && t % CSZ == 0 && t != 0, "imaged block: L1 slot points (COPIED, aligned) to an L2 table");
			PROP((l2e >> 62) == 2 && d % CSZ == 0 && d != 0, "imaged block: L2 entry points (COPIED, aligned) to a data cluster");
			for (k = 0; k < CSZ / 8; k++)
				PROP(ref_word_at(d + 8 * k) == 0x0101010101010101ULL * (0x40 + b), "imaged block: the mapped cluster holds the block's bytes");
		} else {
			PROP(l2e == 0, "a block that is not imaged (or all-zero) is unmapped");
		}
	}
	}
#endif
	VF_END();
	return 0;
}
