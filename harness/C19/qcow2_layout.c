/*
 * C19/qcow2_layout: the per-block step of the qcow2 writer, misc/e2image.c:output_qcow2_meta_data_blocks():
 * the REAL loop (refcounting of the qcow2 metadata, then per filesystem block: update_refcount, the "new refcount
 * block" shuffles, add_l2_item / get_free_table with the reservation of the next L2 cluster, the offset bookkeeping,
 * seek_set) on a scaled geometry:
 *   block = cluster = 32 bytes (cluster_bits 5): 4 entries per L2 table, 16 refcounts per refcount block (a new
 *   refcount block every 16 clusters), 4 refcount blocks per refcount table cluster (64 clusters: the image stays
 *   below that, so the known init_refcount sizing defect is not touched).
 * Cut to specification stubs (each has its own harness): initialize_qcow2_image (geom; the state it produces for this
 * geometry is set up on static objects), write_header, generic_write (l2cache/rawout), flush_l2_cache (l2cache),
 * sync_refcount, free_qcow2_image, check_zero_block.  The stubs feed a model of the image file: per cluster, how often it
 * was written, by which owner (header, L1, refcount table, refcount block, L2 table, data of block b), and the refcount
 * the refcount blocks give it (read from the refcount block's bytes at the moment it is written out).
 * Which blocks are imaged is symbolic under -DACTIVE; which are all-zero is the per-query mask -DZERO.
 * Claim:
 *   - injective allocation: no cluster of the image file is written twice (one owner per cluster);
 *   - every written cluster has refcount exactly 1, no cluster a refcount other than 0 or 1;
 *   - a data cluster exists for exactly the imaged non-zero blocks; at flush time each L1 slot holds (big endian, COPIED)
 *     the offset its L2 table is written at, and L2 entry k of slot s points at the data cluster of block 4s + k, or is empty.
 * Observation (not asserted): with no imaged non-zero block at all flush_l2_cache() aborts on assert(table); excluded by
 * an assumption because the superblock is always imaged.
 */
#include "config.h"
#include "ext2fs/ext2_fs.h"
#include "ext2fs/ext2fs.h"
/* STUB: ext2fs_get_mem / ext2fs_free_mem as called from e2image.c (the img struct and the block buffer): static objects, plain
 * pointer assignment (planned hook H3) */
static errcode_t stub_get_mem(unsigned long size, void *ptr);
static errcode_t stub_free_mem(void *ptr);
#define ext2fs_get_mem stub_get_mem
#define ext2fs_free_mem stub_free_mem
struct ext2_qcow2_image;
static errcode_t initialize_qcow2_image(int fd, ext2_filsys fs, struct ext2_qcow2_image *image);
static void write_header(int fd, void *hdr, int hdr_size, int wrt_size);
static void generic_write(int fd, void *buf, int blocksize, blk64_t block);
static void flush_l2_cache(struct ext2_qcow2_image *image);
static int sync_refcount(int fd, struct ext2_qcow2_image *img);
static void free_qcow2_image(struct ext2_qcow2_image *img);
static int check_zero_block(char *buf, int blocksize);
#define main vf_real_main
#include "misc/e2image.c"
#undef main
#undef ext2fs_get_mem
#undef ext2fs_free_mem
#include "env.c"
#ifndef VF_REPLAY
char *gettext(const char *m) { return (char *) m; }
#endif

#define CB 5
#define CSZ 32
#ifndef NBLK
#define NBLK 10		/* BOUND: filesystem blocks */
#endif
#ifndef NCL
#define NCL 40		/* BOUND: model file of 40 clusters (worst case of NBLK=16: 9 + 16 + 4 + 4 + 2 = 35) */
#endif
#define NL1 ((NBLK + 3) / 4)

static int vf_bad;
struct vf_in {
	unsigned int imaged, zero;	/* bit b: block b is in meta_block_map / reads back all-zero */
};
VF_DECLARE_INPUT(struct vf_in, IN)
#include "vf_input.inc"

static long long vf_pos;
static int vf_dummy_map, vf_dummy_io;
enum { K_NONE, K_HEADER, K_L1, K_RTABLE, K_RBLOCK, K_L2, K_DATA };
static unsigned char vf_ccnt[NCL], vf_kind[NCL], vf_dblk[NCL], vf_refcnt[NCL];
static int vf_flushed, vf_synced, vf_freed, vf_hdr_written;

/* the writer's state, as initialize_qcow2_image() lays it out for NBLK blocks of 32 bytes (harness geom decides that function):
 * header clusters 0-2, L1 table cluster 3, refcount table cluster 4, (gap 5), first L2 table cluster 6, first refcount block 7 */
static struct ext2_qcow2_image vf_o_img;
static struct ext2_qcow2_hdr vf_o_hdr;
static __u64 vf_o_rt[CSZ / 8], vf_o_l1[NL1], vf_o_data[NL1][CSZ / 8];
static __u16 vf_o_rb[CSZ / 2];
static struct ext2_qcow2_l2_cache vf_o_cache;
static struct ext2_qcow2_l2_table vf_o_tab[NL1];
static char vf_o_buf[CSZ];
static unsigned int vf_nalloc;
static errcode_t stub_get_mem(unsigned long size, void *ptr)
{
	unsigned int k = vf_nalloc++;
	if (k == 0 && size == sizeof(vf_o_img))
		*(void **) ptr = &vf_o_img;
	else if (k == 1 && size == CSZ)
		*(void **) ptr = vf_o_buf;
	else {
		vf_bad = 1;
		return EXT2_ET_NO_MEMORY;
	}
	return 0;
}
static errcode_t stub_free_mem(void *ptr) { *(void **) ptr = NULL; return 0; }

/* STUB: initialize_qcow2_image() (cut; harness geom): the state it produces for this geometry, on static objects */
static errcode_t initialize_qcow2_image(int fd, ext2_filsys fs, struct ext2_qcow2_image *image)
{
	unsigned int i;
	if (image != &vf_o_img || fs->blocksize != CSZ)
		vf_bad = 1;
	image->fd = fd;
	image->hdr = &vf_o_hdr;
	image->cluster_size = CSZ;
	image->cluster_bits = CB;
	image->l2_size = CSZ / 8;
	image->l1_size = NL1;
	image->l1_table = vf_o_l1;
	image->l1_offset = 3 * CSZ;
	image->l2_offset = 6 * CSZ;
	image->refcount.refcount_table = vf_o_rt;
	image->refcount.refcount_table_offset = 4 * CSZ;
	image->refcount.refcount_table_clusters = 1;
	image->refcount.refcount_block_offset = 7 * CSZ;
	image->refcount.refcount_block = vf_o_rb;
	image->l2_cache = &vf_o_cache;
	vf_o_cache.count = vf_o_cache.free = NL1;
	vf_o_cache.next_offset = 6 * CSZ;
	for (i = 0; i < NL1; i++) {
		vf_o_tab[i].data = vf_o_data[i];
		vf_o_tab[i].next = (i + 1 < NL1) ? &vf_o_tab[i + 1] : NULL;
	}
	vf_o_cache.free_head = &vf_o_tab[0];
	return 0;
}
/* no symbolic array index: mark cluster c (found by comparison) as written with the given owner */
static void vf_touch(long long pos, int kind, unsigned int blk)
{
	unsigned int i;
	if (pos < 0 || (pos & (CSZ - 1)) || pos >= (long long) NCL * CSZ)
		vf_bad = 1;
	for (i = 0; i < NCL; i++)
		if ((long long) i * CSZ == pos) {
			if (vf_ccnt[i] < 3)
				vf_ccnt[i]++;
			vf_kind[i] = kind;
			vf_dblk[i] = blk;
		}
}
/* reads a refcount block as it is written out: entry e == big-endian 1 gives cluster (index * 16 + e) one reference */
static void vf_account_refblock(unsigned int table_index)
{
	unsigned int e, i;
	for (e = 0; e < CSZ / 2; e++) {
		unsigned int v = ((vf_o_rb[e] & 0xff) << 8) | (vf_o_rb[e] >> 8);	/* big endian on a little-endian host */
		for (i = 0; i < NCL; i++)
			if (i == table_index * (CSZ / 2) + e)
				vf_refcnt[i] += v;
		if (v && table_index * (CSZ / 2) + e >= NCL)
			vf_bad = 1;
	}
}
/* STUB: write_header() (cut): the header occupies clusters 0..2 */
static void write_header(int fd, void *hdr, int hdr_size, int wrt_size)
{
	(void) fd;
	if (hdr != &vf_o_hdr || hdr_size != (int) sizeof(struct ext2_qcow2_hdr) || wrt_size != 3 * CSZ)
		vf_bad = 1;
	vf_touch(0, K_HEADER, 0); vf_touch(CSZ, K_HEADER, 0); vf_touch(2 * CSZ, K_HEADER, 0);
	vf_pos = 3 * CSZ;
	vf_hdr_written++;
}
/* STUB: generic_write() (cut; real one in l2cache/rawout): the model file records which cluster is written and what it is:
 * a refcount block (buffer identity; its content is accounted), a data block (block number), or the L1 table at the end */
static void generic_write(int fd, void *buf, int blocksize, blk64_t block)
{
	if (fd != 7)
		vf_bad = 1;
	if (buf == vf_o_rb && blocksize == CSZ) {
		vf_touch(vf_pos, K_RBLOCK, 0);
		vf_account_refblock(vf_o_img.refcount.refcount_table_index);
	} else if (buf == vf_o_buf && blocksize == CSZ && block < NBLK) {
		if ((unsigned char) vf_o_buf[0] != 0x40 + block)
			vf_bad = 1;		/* the buffer holds the block just read */
		vf_touch(vf_pos, K_DATA, (unsigned int) block);
	} else if (buf == vf_o_l1 && blocksize == NL1 * 8 && vf_pos == 3 * CSZ) {
		vf_touch(vf_pos, K_L1, 0);
	} else
		vf_bad = 1;
	vf_pos += blocksize;
}
/* STUB: flush_l2_cache() (cut; harness l2cache): every table in use is written at its recorded offset; its entries are checked
 * against the model file: entry k of the table for L1 slot s maps block 4s + k */
static void flush_l2_cache(struct ext2_qcow2_image *image)
{
	struct ext2_qcow2_l2_table *t = image->l2_cache->used_head;
	unsigned int n, k, i;
	for (n = 0; n < NL1; n++) {
		if (n >= image->l2_cache->count - image->l2_cache->free)
			break;
		if (!t) { vf_bad = 1; break; }
		vf_touch((long long) t->offset, K_L2, t->l1_index);
		/* the L1 slot points at this table */
		for (i = 0; i < NL1; i++)
			if (i == t->l1_index)
				PROP(__builtin_bswap64(vf_o_l1[i]) == (t->offset | (1ULL << 63)), "L1 slot holds (big endian, COPIED) the offset its L2 table is written at");
		for (k = 0; k < CSZ / 8; k++) {
			unsigned long long e = __builtin_bswap64(t->data[k]);
			unsigned int b = t->l1_index * (CSZ / 8) + k;
			int mapped = 0;
			for (i = 0; i < NCL; i++)
				if (e == (((unsigned long long) i * CSZ) | (1ULL << 63)) && vf_kind[i] == K_DATA && vf_dblk[i] == b && vf_ccnt[i] == 1)
					mapped = 1;
			if (b < NBLK && ((IN.imaged >> b) & 1) && !((IN.zero >> b) & 1))
				PROP(mapped, "L2 entry of an imaged block points (big endian, COPIED) at the cluster its data was written to");
			else
				PROP(e == 0, "L2 entry of a block that is not imaged (or all-zero) is empty");
		}
		t = t->next;
	}
	vf_flushed++;
}
/* STUB: sync_refcount() (cut): the current refcount block goes to its offset, the refcount table to its cluster */
static int sync_refcount(int fd, struct ext2_qcow2_image *img)
{
	(void) fd;
	vf_touch(4 * CSZ, K_RTABLE, 0);
	vf_touch((long long) img->refcount.refcount_block_offset, K_RBLOCK, 0);
	vf_account_refblock(img->refcount.refcount_table_index);
	vf_synced++;
	return 0;
}
static void free_qcow2_image(struct ext2_qcow2_image *img) { if (img != &vf_o_img) vf_bad = 1; vf_freed++; }
/* STUB: check_zero_block() (cut): by the content the read stub produced */
static int check_zero_block(char *buf, int blocksize) { (void) blocksize; return buf[0] == 0; }

/* STUB: ext2fs_llseek(): position of the model image file */
ext2_loff_t ext2fs_llseek(int fd, ext2_loff_t offset, int whence)
{
	if (fd != 7)
		vf_bad = 1;
	if (whence == SEEK_SET)
		vf_pos = offset;
	else if (whence == SEEK_CUR)
		vf_pos += offset;
	else
		vf_bad = 1;
	return vf_pos;
}
/* STUB: ext2fs_test_generic_bmap(): membership in meta_block_map = bit of the symbolic mask */
int ext2fs_test_generic_bmap(ext2fs_generic_bitmap bmap, __u64 arg)
{
	if (bmap != (ext2fs_generic_bitmap) &vf_dummy_map || arg >= NBLK)
		vf_bad = 1;
#ifdef ACTIVE
	/* concrete answers where the configuration fixes them (a symbolic expression with known bits is not a constant for symex) */
	if (!((ACTIVE >> (arg / 4)) & 1))
		return 0;
	if (arg % 4 == 0)
		return 1;
#endif
	return (IN.imaged >> arg) & 1;
}
/* STUB: io_channel_read_blk64(): block b reads as bytes 0x40+b, or all-zero (first byte is enough for the stubs) */
errcode_t io_channel_read_blk64(io_channel io, unsigned long long blk, int count, void *data)
{
	unsigned char *b = data;
	if (io != (io_channel) &vf_dummy_io || count != 1 || blk >= NBLK)
		vf_bad = 1;
	b[0] = ((IN.zero >> blk) & 1) ? 0 : (unsigned char)(0x40 + blk);
	return 0;
}

int main(void)
{
	static struct struct_ext2_filsys fs_s;
	static struct ext2_super_block sb;
	unsigned int b, c, k;

	VF_INPUT(IN);
	fs_s.super = &sb;
	fs_s.blocksize = CSZ;
	fs_s.io = (io_channel) &vf_dummy_io;
	sb.s_blocks_count = NBLK;
	sb.s_first_data_block = 0;
	meta_block_map = (ext2fs_block_bitmap) &vf_dummy_map;
#ifdef ZERO
	IN.zero = ZERO;		/* compile-time mask of all-zero blocks */
#endif
#ifdef ACTIVE
	/* BOUND: -DACTIVE=mask (one query per value): L1 slot r is either untouched (no imaged block in blocks 4r..4r+3) or its first
	 * block 4r is imaged and blocks 4r+1..4r+3 are symbolic: when a new L2 table starts is then known during symbolic
	 * execution (table pointers stay concrete; symex 150 s -> seconds); the file offsets remain symbolic */
	{
		unsigned int r, m = 0;
		for (r = 0; r < NL1; r++)
			if ((ACTIVE >> r) & 1)
				m |= (1u << (4 * r)) | (IN.imaged & (0xeu << (4 * r)));
		IN.imaged = m;
	}
#endif
	/* ASSUME: at least one imaged non-zero block (the superblock always is): with none, flush_l2_cache() aborts on assert(table) */
	ASSUME((IN.imaged & ~IN.zero & ((1u << NBLK) - 1)) != 0);
	/* meta_blocks_count as write_raw_image_file leaves it: the number of blocks in the map */
	meta_blocks_count = 0;
	for (b = 0; b < NBLK; b++)
		meta_blocks_count += (IN.imaged >> b) & 1;

	output_qcow2_meta_data_blocks(&fs_s, 7);

	PROP(!vf_bad, "callee contracts: cluster-aligned positions inside the model file, known buffers, allocations in sequence");
	PROP(vf_hdr_written == 1 && vf_flushed == 1 && vf_synced == 1 && vf_freed == 1, "header, L2 flush, refcount sync, cleanup: once each");
	/* BOUND: main.*: NCL clusters / NBLK blocks */
	for (c = 0; c < NCL; c++) {
		PROP(vf_ccnt[c] <= 1, "injective allocation: no cluster of the image file is written twice (one owner per cluster)");
		PROP(vf_refcnt[c] <= 1, "refcounts are 0 or 1");
		if (vf_ccnt[c])
			PROP(vf_refcnt[c] == 1, "every written cluster has refcount 1");
	}
	for (b = 0; b < NBLK; b++) {
		int want = ((IN.imaged >> b) & 1) && !((IN.zero >> b) & 1), n = 0;
		for (c = 0; c < NCL; c++)
			if (vf_kind[c] == K_DATA && vf_dblk[c] == b && vf_ccnt[c])
				n++;
		PROP(n == want, "a data cluster exists for exactly the imaged non-zero blocks, one each");
	}
	(void) k;
	VF_END();
	return 0;
}
