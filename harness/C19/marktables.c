/*
 * C19/marktables: misc/e2image.c:mark_table_blocks() -- which filesystem-level metadata blocks go
 * into the image -- with the real ext2fs_descriptor_block_loc2() (openfs.c), ext2fs_bg_has_super()
 * (closefs.c) and the real group descriptor accessors (blknum.c) over a real descriptor array.
 *
 * Geometry: 1 KiB blocks, 64bit feature with 512-byte descriptors (2 per block), NDB descriptor
 * blocks => 2*NDB groups of 8192 blocks, 16 inodes of 128 bytes per group (2 inode table blocks).
 * Per query: meta_bg on/off, s_first_meta_bg, sparse_super, gdt_csum/metadata_csum, MMP.
 * Symbolic: the MMP block (4 places), every group's bitmap / inode table location (16 places inside the group, or 0),
 * flags and bg_itable_unused.
 *
 * Claim: exactly these blocks are marked in meta_block_map, each once, and meta_blocks_count is their number:
 *   - the primary superblock (s_first_data_block);
 *   - every primary descriptor block j = 0..desc_blocks-1 at its on-disk place: first_data_block + 1 + j
 *     in the classic layout and for j < s_first_meta_bg, else (meta_bg) the first block of group
 *     j * descriptors-per-block, one further if that group carries a superblock backup;
 *   - the MMP block if the feature is on;
 *   - per group: the inode table (unless INODE_UNINIT; shortened by the whole blocks of bg_itable_unused
 *     when group descriptor checksums are in use; everything when writing to a block device), the block
 *     bitmap unless BLOCK_UNINIT, the inode bitmap unless INODE_UNINIT; a zero location marks nothing.
 *   Reserved GDT blocks are not table blocks here (they are reached through the resize inode's mapping).
 */
#include "config.h"
#include "ext2fs/ext2_fs.h"
#include "ext2fs/ext2fs.h"
#define main vf_real_main
#include "misc/e2image.c"
#undef main
#include "env.c"
#ifndef VF_REPLAY
char *gettext(const char *m) { return (char *) m; }
#endif

#ifndef NDB
#define NDB 3			/* BOUND: descriptor blocks */
#endif
#define DPB 2			/* descriptors per block (512-byte descriptors, 1 KiB blocks) */
#define NG (NDB * DPB)
#define BPG 8192
#define ITB 2
#define MAXMARK (1 + NDB + 1 + NG * (ITB + 2) + 4)
#ifndef OUTPUT_IS_BLK
#define OUTPUT_IS_BLK 0
#endif
#ifndef METABG
#define METABG 1
#endif
#ifndef FIRST_META_BG
#define FIRST_META_BG 1
#endif
#ifndef CSUM
#define CSUM 1
#endif
#ifndef SPARSE
#define SPARSE 1
#endif
#ifndef MMP
#define MMP 1
#endif

struct vf_in {
	__u32 feature_compat, feature_incompat, feature_ro_compat;
	__u32 first_meta_bg;
	unsigned char mmp_off;
	unsigned char bb_off[NG], ib_off[NG], it_off[NG];	/* location = first block of the group + 16 + (off & 15) */
	unsigned char bb_zero[NG], ib_zero[NG], it_zero[NG];	/* location field is 0 */
	__u16 flags[NG], unused[NG];
};
VF_DECLARE_INPUT(struct vf_in, IN)
#include "vf_input.inc"

static unsigned int vf_nmark, vf_extra;
static int vf_bad, vf_dummy_map;
static unsigned char vf_gd[NDB * 1024] __attribute__((aligned(8)));
/* reference slots (fixed layout, filled before the call) and how often each was marked */
static unsigned long long vf_want[MAXMARK];
static unsigned char vf_present[MAXMARK], vf_cnt[MAXMARK];
static unsigned int vf_nslot;
static __u32 vf_bb[NG], vf_ib[NG], vf_it[NG];

static void vf_log(ext2fs_generic_bitmap b, unsigned long long blk)
{
	unsigned int p;
	int hit = 0;
	if (b != (ext2fs_generic_bitmap) &vf_dummy_map)
		vf_bad = 1;
	for (p = 0; p < MAXMARK; p++)		/* no symbolic array index, no log: count per expected slot */
		if (p < vf_nslot && vf_present[p] && vf_want[p] == blk) {
			vf_cnt[p]++;
			hit = 1;
		}
	if (!hit)
		vf_extra++;
	vf_nmark++;
}
/* STUB: ext2fs_mark_generic_bmap() / ext2fs_mark_block_bitmap_range2(): every marked block is matched against the expected set */
int ext2fs_mark_generic_bmap(ext2fs_generic_bitmap b, __u64 arg) { vf_log(b, arg); return 0; }
void ext2fs_mark_block_bitmap_range2(ext2fs_block_bitmap b, blk64_t blk, unsigned int num)
{
	unsigned int k;
	for (k = 0; k < NDB + ITB + 2; k++)
		if (k < num)
			vf_log((ext2fs_generic_bitmap) b, blk + k);
	if (num > NDB + ITB + 2)
		vf_bad = 1;
}

int main(void)
{
	static struct struct_ext2_filsys fs_s;
	static struct ext2_super_block sb;
	unsigned int g, j, k, s, nwant = 0;
	int csum, metabg;

	VF_INPUT(IN);
	fs_s.super = &sb;
	fs_s.blocksize = 1024;
	fs_s.group_desc_count = NG;
	fs_s.desc_blocks = NDB;
	fs_s.inode_blocks_per_group = ITB;
	fs_s.group_desc = (void *) vf_gd;
	sb.s_first_data_block = 1;
	sb.s_blocks_per_group = BPG;
	sb.s_clusters_per_group = BPG;
	sb.s_inodes_per_group = 16;
	sb.s_inode_size = 128;
	sb.s_rev_level = EXT2_DYNAMIC_REV;
	sb.s_blocks_count = NG * BPG + 1;
	sb.s_desc_size = 512;
	/* ASSUME: 64bit feature on (512-byte descriptors), no bigalloc; every other feature bit symbolic */
	/* discrete configuration is compile-time (guide rule 2): METABG, FIRST_META_BG, CSUM (0 none, 1 gdt_csum, 2 metadata_csum),
	 * SPARSE (sparse_super), MMP */
	sb.s_feature_incompat = EXT4_FEATURE_INCOMPAT_64BIT | (METABG ? EXT2_FEATURE_INCOMPAT_META_BG : 0) | (MMP ? EXT4_FEATURE_INCOMPAT_MMP : 0);
	sb.s_feature_ro_compat = (CSUM == 1 ? EXT4_FEATURE_RO_COMPAT_GDT_CSUM : CSUM == 2 ? EXT4_FEATURE_RO_COMPAT_METADATA_CSUM : 0) |
		(SPARSE ? EXT2_FEATURE_RO_COMPAT_SPARSE_SUPER : 0);
	sb.s_feature_compat = 0;
	IN.first_meta_bg = FIRST_META_BG;
	sb.s_first_meta_bg = IN.first_meta_bg;
	/* BOUND: locations: each group's bitmaps and inode table lie in its own blocks 16..31 (+1 for the table's second block),
	 * pairwise distinct, or the field is 0; MMP block in 13..16.  (48-bit arbitrary locations cost 50 s per query.) */
	sb.s_mmp_block = 13 + (IN.mmp_off & 3);
	/* BOUND: main.*: NG groups */
	for (g = 0; g < NG; g++) {
		struct ext4_group_desc *d = (struct ext4_group_desc *)(vf_gd + g * 512);
		vf_bb[g] = IN.bb_zero[g] ? 0 : 1 + g * BPG + 16 + (IN.bb_off[g] & 15);
		vf_ib[g] = IN.ib_zero[g] ? 0 : 1 + g * BPG + 16 + (IN.ib_off[g] & 15);
		vf_it[g] = IN.it_zero[g] ? 0 : 1 + g * BPG + 16 + (IN.it_off[g] & 15);
		d->bg_block_bitmap = vf_bb[g];
		d->bg_inode_bitmap = vf_ib[g];
		d->bg_inode_table = vf_it[g];
		d->bg_flags = IN.flags[g];
		d->bg_itable_unused = IN.unused[g];
		ASSUME(IN.unused[g] <= 16);
	}
	meta_block_map = (ext2fs_block_bitmap) &vf_dummy_map;
	meta_blocks_count = 0;
	output_is_blk = OUTPUT_IS_BLK;

	/* ---- reference: slots in a fixed layout, each present or not */
	metabg = (sb.s_feature_incompat & EXT2_FEATURE_INCOMPAT_META_BG) != 0;
	csum = (sb.s_feature_ro_compat & (EXT4_FEATURE_RO_COMPAT_GDT_CSUM | EXT4_FEATURE_RO_COMPAT_METADATA_CSUM)) != 0;
	s = 0;
	vf_want[s] = 1; vf_present[s] = 1; s++;					/* primary superblock */
	for (j = 0; j < NDB; j++) {						/* primary descriptor blocks */
		unsigned long long loc;
		if (!metabg || j < IN.first_meta_bg)
			loc = 1 + 1 + j;
		else
			loc = 1 + (unsigned long long)(j * DPB) * BPG + (ext2fs_bg_has_super(&fs_s, j * DPB) ? 1 : 0);
		PROP(loc == ext2fs_descriptor_block_loc2(&fs_s, 1, j), "reference descriptor location agrees with ext2fs_descriptor_block_loc2 (C20)");
		vf_want[s] = loc; vf_present[s] = 1; s++;
	}
	vf_want[s] = 13 + (IN.mmp_off & 3); vf_present[s] = (sb.s_feature_incompat & EXT4_FEATURE_INCOMPAT_MMP) != 0; s++;
	for (g = 0; g < NG; g++) {
		unsigned long long bb = vf_bb[g], ib = vf_ib[g], it = vf_it[g];
		int ino_uninit = (IN.flags[g] & EXT2_BG_INODE_UNINIT) != 0, blk_uninit = (IN.flags[g] & EXT2_BG_BLOCK_UNINIT) != 0;
		unsigned int nit = ITB;
		if (!OUTPUT_IS_BLK && csum)
			nit -= IN.unused[g] / 8;				/* 8 inodes of 128 bytes per 1 KiB block */
		for (k = 0; k < ITB; k++) {
			vf_want[s] = it + k;
			vf_present[s] = (OUTPUT_IS_BLK || !ino_uninit) && it != 0 && k < nit;
			s++;
		}
		vf_want[s] = bb; vf_present[s] = !blk_uninit && bb != 0; s++;
		vf_want[s] = ib; vf_present[s] = !ino_uninit && ib != 0; s++;
	}
	/* ASSUME: well-formed filesystem: the metadata blocks named above are pairwise distinct */
	for (j = 0; j < s; j++) {
		if (vf_present[j])
			nwant++;
		for (k = j + 1; k < s; k++)
			if (vf_present[j] && vf_present[k])
				ASSUME(vf_want[j] != vf_want[k]);
	}

	vf_nslot = s;
	mark_table_blocks(&fs_s);

	PROP(!vf_bad, "marks go to meta_block_map");
	PROP(vf_extra == 0, "nothing but table blocks is marked");
	PROP(vf_nmark == nwant, "number of marked blocks");
	PROP(meta_blocks_count == (blk64_t) nwant, "meta_blocks_count equals the number of table blocks");
	for (j = 0; j < s; j++)
		if (vf_present[j])
			PROP(vf_cnt[j] == 1, "every table block is marked once (superblock, each primary descriptor block at its place, MMP, bitmaps, inode tables)");
	VF_END();
	return 0;
}
