/*
 * C19/geom: misc/e2image.c:initialize_qcow2_image() + init_refcount() -- the sizing of a
 * qcow2 image, for every filesystem size and every number of blocks to be imaged, against the
 * qcow2 format (QEMU docs/interop/qcow2.txt):
 *   - header: magic "QFI\xfb", version 2, big-endian fields, size = filesystem bytes,
 *     cluster_bits = log2(block size), no backing file / encryption / snapshots;
 *   - one L2 table (one cluster of 8-byte entries) maps cluster_size/8 clusters, so
 *     l1_size = ceil(blocks / (cluster_size/8)): every block has an L1 slot, none is spare;
 *   - L1 table, refcount table, L2 area and first refcount block start cluster aligned, in this
 *     order, without overlap;
 *   - a refcount block (16-bit entries) covers cluster_size/2 clusters, a refcount table cluster
 *     holds cluster_size/8 refcount block pointers: the refcount table the writer allocates
 *     (refcount_table_clusters) must be able to address every cluster the image can grow to:
 *     qcow2 metadata up to the first refcount block + every imaged block + one L2 table per
 *     touched L1 slot + the refcount blocks themselves.  update_refcount() indexes
 *     refcount_table[offset >> (2*cluster_bits - 1)] without a bound check.
 */
#include "config.h"
#include "ext2fs/ext2_fs.h"
#include "ext2fs/ext2fs.h"
/* STUB: ext2fs_get_memzero / ext2fs_get_arrayzero as called from e2image.c: record (count, size), hand out static zeroed storage */
static errcode_t stub_get_arrayzero(unsigned long count, unsigned long size, void *ptr);
static errcode_t stub_get_memzero(unsigned long size, void *ptr);
#define ext2fs_get_arrayzero stub_get_arrayzero
#define ext2fs_get_memzero stub_get_memzero
struct ext2_qcow2_image;
static void init_l1_table(struct ext2_qcow2_image *image);
static void init_l2_cache(struct ext2_qcow2_image *image);
#define main vf_real_main
#include "misc/e2image.c"
#undef main
#undef ext2fs_get_arrayzero
#undef ext2fs_get_memzero
#include "env.c"

#ifndef CB
#define CB 10		/* cluster_bits = log2(fs block size): one query per value */
#endif
#define CS (1ULL << CB)

struct vf_in {
	unsigned long long blocks, meta;
};
VF_DECLARE_INPUT(struct vf_in, IN)
#include "vf_input.inc"

static union { unsigned char b[sizeof(struct ext2_qcow2_hdr)]; struct ext2_qcow2_hdr h; } vf_hdr;
static unsigned long long vf_arr_count[4], vf_arr_size[4];
static int vf_narr, vf_nmem, vf_l1_init, vf_l2_init;
static unsigned long long vf_dummy[8];

static errcode_t stub_get_memzero(unsigned long size, void *ptr)
{
	PROP(size == sizeof(struct ext2_qcow2_hdr), "header allocation is sizeof(struct ext2_qcow2_hdr)");
	vf_nmem++;
	*(void **) ptr = &vf_hdr;
	return 0;
}
static errcode_t stub_get_arrayzero(unsigned long count, unsigned long size, void *ptr)
{
	if (vf_narr < 4) {
		vf_arr_count[vf_narr] = count;
		vf_arr_size[vf_narr] = size;
	}
	vf_narr++;
	*(void **) ptr = vf_dummy;
	return 0;
}
/* STUB: init_l1_table()/init_l2_cache() (cut): allocation of the in-memory L1 table and the L2 cache, counted only */
static void init_l1_table(struct ext2_qcow2_image *image) { (void) image; vf_l1_init++; }
static void init_l2_cache(struct ext2_qcow2_image *image) { (void) image; vf_l2_init++; }
#ifndef VF_REPLAY
char *gettext(const char *m) { return (char *) m; }
#endif

static unsigned long long ref_be(const unsigned char *p, int n)
{
	unsigned long long v = 0;
	int i;
	for (i = 0; i < n; i++)
		v = (v << 8) | p[i];
	return v;
}

int main(void)
{
	static struct struct_ext2_filsys fs_s;
	static struct ext2_super_block sb;
	static struct ext2_qcow2_image img;
	errcode_t ret;
	unsigned long long l1_off, l1_size, rt_off, tc, l2e = CS / 8, w0, w1, cap, h, l2n;
	const unsigned char *b = vf_hdr.b;

	VF_INPUT(IN);
	/* ASSUME: 1 <= blocks <= 2^32 (MAXLOG overrides), blocks to image <= blocks */
#ifndef MAXLOG
#define MAXLOG 32
#endif
	ASSUME(IN.blocks >= 1 && IN.blocks <= (1ULL << MAXLOG));
	ASSUME(IN.meta <= IN.blocks);
	fs_s.super = &sb;
	fs_s.blocksize = CS;
	sb.s_blocks_count = (__u32) IN.blocks;
	sb.s_blocks_count_hi = (__u32)(IN.blocks >> 32);
	sb.s_feature_incompat = EXT4_FEATURE_INCOMPAT_64BIT;
	meta_blocks_count = IN.meta;

	ret = initialize_qcow2_image(7, &fs_s, &img);
	PROP(ret == 0, "initialisation succeeds");
	PROP(vf_nmem == 1 && vf_l1_init == 1 && vf_l2_init == 1, "header, L1 table and L2 cache set up once");

	/* header bytes, read as the format says (big endian, fixed offsets) */
	PROP(ref_be(b + 0, 4) == 0x514649fbULL && ref_be(b + 4, 4) == 2, "header: magic QFI\\xfb, version 2");
	PROP(ref_be(b + 8, 8) == 0 && ref_be(b + 16, 4) == 0 && ref_be(b + 32, 4) == 0 && ref_be(b + 60, 4) == 0 && ref_be(b + 64, 8) == 0,
	     "header: no backing file, no encryption, no snapshots");
	PROP(ref_be(b + 20, 4) == CB, "header: cluster_bits is log2 of the block size");
	PROP(ref_be(b + 24, 8) == IN.blocks * CS, "header: virtual size is the filesystem size in bytes");
	l1_size = ref_be(b + 36, 4);
	l1_off = ref_be(b + 40, 8);
	rt_off = ref_be(b + 48, 8);
	tc = ref_be(b + 56, 4);
	PROP(l1_size * l2e >= IN.blocks, "L1 table has a slot for every block");
	PROP((l1_size - 1) * l2e < IN.blocks, "L1 table has no spare slot");
	PROP(l1_off % CS == 0 && l1_off >= 72, "L1 table cluster aligned, behind the header");
	PROP(rt_off % CS == 0 && rt_off >= l1_off + l1_size * 8, "refcount table cluster aligned, behind the L1 table");
	PROP(tc >= 1 && tc == img.refcount.refcount_table_clusters && rt_off == img.refcount.refcount_table_offset,
	     "refcount table size and place agree between header and writer state");
	PROP(vf_narr == 2 && vf_arr_count[0] * vf_arr_size[0] == tc * CS && vf_arr_count[1] * vf_arr_size[1] == CS,
	     "in-memory refcount table is refcount_table_clusters clusters, refcount block one cluster");
	PROP(img.l2_offset % CS == 0 && img.l2_offset >= rt_off + tc * CS, "L2 area cluster aligned, behind the refcount table");
	PROP(img.refcount.refcount_block_offset % CS == 0 && img.refcount.refcount_block_offset >= img.l2_offset + CS,
	     "first refcount block cluster aligned, behind the first L2 table");
	PROP(img.l1_offset == l1_off && img.l1_size == l1_size && img.l2_size == l2e && img.cluster_size == CS && img.cluster_bits == CB,
	     "writer state agrees with the header");

	/* refcount capacity.  Lower bound of the clusters the image reaches (so a failure is a real overflow):
	 * qcow2 metadata through the first refcount block, the imaged blocks, one L2 table per touched L1 slot
	 * (at most one per imaged block), and the refcount blocks needed for that many clusters */
	h = img.refcount.refcount_block_offset / CS + 1;
	cap = tc * (CS / 8) * (CS / 2);
#if defined(CHECK_CAPACITY) && CHECK_CAPACITY == 1
	/* (a) the imaged blocks packed as densely as possible: the fewest L2 tables any layout can have */
	l2n = (IN.meta + l2e - 1) / l2e;
	w0 = h + IN.meta + l2n;
	w1 = w0 + (w0 - 1) / (CS / 2);
	PROP(w1 <= cap, "refcount table can address the image even when the imaged blocks are packed densely (fewest L2 tables)");
#elif defined(CHECK_CAPACITY)
	/* (b) the imaged blocks spread out: one L2 table per touched L1 slot, at most one per imaged block */
	l2n = IN.meta < l1_size ? IN.meta : l1_size;
	w0 = h + IN.meta + l2n;
	w1 = w0 + (w0 - 1) / (CS / 2);
	PROP(w1 <= cap, "refcount table can address every cluster the image may reach (imaged blocks spread over the L1 slots)");
#else
	(void) h; (void) cap; (void) l2n; (void) w0; (void) w1;
#endif
	VF_END();
	return 0;
}
