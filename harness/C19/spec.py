META = {"assumptions": [], "outside": []}
CUT = {"misc/e2image.c": ["init_l1_table", "init_l2_cache"]}
HARNESSES = [
    dict(name="read_header", src="rawconv.c", funcs=["qcow2_read_header"], configs=[{"KERNEL": 1}],
         unwind=4, unwindset=["main.%d:73" % i for i in range(6)] + ["read.0:73", "ref_be.0:9"], backends=["default", "kissat"], bound="x"),
    dict(name="raw_validate", src="rawconv.c", funcs=["qcow2_write_raw_image"], configs=[{"KERNEL": 2}, {"KERNEL": 2, "WRITER_STYLE": None}],
         unwind=4, unwindset=["main.%d:73" % i for i in range(6)] + ["ref_be.0:9"], backends=["default", "kissat", "z3"], bound="x"),
    dict(name="copy_data", src="rawconv.c", funcs=["qcow2_copy_data"], configs=[{"KERNEL": 3}, {"KERNEL": 3, "PARTIAL_WRITE": None}],
         unwind=6, unwindset=["main.%d:9" % i for i in range(6)] + ["read.0:9", "read.1:9", "write.0:9", "write.1:9", "qcow2_copy_data.0:6", "qcow2_copy_data.1:6"],
         backends=["default", "kissat"], bound="x"),
    dict(name="l2item", src="l2item.c", funcs=["add_l2_item", "get_free_table"],
         configs=[{"CB": 10}, {"CB": 7}], unwind=4, unwindset=["main.%d:130" % i for i in range(10)] + ["ref_be64.0:9"],
         backends=["default", "kissat"], bound="x"),
    dict(name="geom", src="geom.c", funcs=["initialize_qcow2_image", "init_refcount", "align_offset", "get_bits_from_size"],
         cut_statics=CUT, extra_src=["lib/ext2fs/blknum.c"],
         configs=[{"CB": cb} for cb in (10, 11, 12, 16)] + [{"CB": 10, "CHECK_CAPACITY": 1, "MAXLOG": 17}] + [{"CB": cb, "CHECK_CAPACITY": k} for k in (1, 2) for cb in (10, 11, 12, 16)],
         unwind=4, unwindset=["get_bits_from_size.0:18", "ref_be.0:9"], backends=["default", "kissat", "z3"], bound="x"),
]
MANIFEST = {"text": "x", "note": "x"}
