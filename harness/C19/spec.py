META = {
    "assumptions": [
        "allocation failure out of scope (--no-malloc-may-fail); ext2fs_get_memzero/ext2fs_get_arrayzero as called from the encoded "
        "file are recording stubs (macro substitution in the harness), init_l1_table/init_l2_cache cut (allocation only)",
        "ext2fs_llseek/read/write are byte-array file models; reads deliver any non-empty part of a request",
        "filesystems of 1..2^32 blocks, block size 1k/2k/4k/64k (cluster_bits 10/11/12/16), little-endian host",
        "l2item: free L2 tables are zeroed (asserted as post-condition of flush/put_used_table in l2cache), 4 L1 slots, cache of one used + "
        "one free table",
        "l2cache: scaled cluster_bits 6; used-list tail ->next points at the free head (get_free_table never clears it: reachable states only)",
        "qcow2_layout: writer state as initialize_qcow2_image produces it for 16 blocks of 32 bytes (set up by the harness, decided by geom); "
        "initialize/write_header/generic_write/flush_l2_cache/sync_refcount/free/check_zero_block cut to model stubs; at least one imaged "
        "non-zero block. marktables: bitmap / inode table locations inside their own group (16 places each, or 0), MMP block in 13..16, "
        "512-byte descriptors; ext2fs_descriptor_block_loc2 and ext2fs_bg_has_super real (C20)",
        "rawout/discover: fresh regular output file; library callees (bitmap test/mark, io read, inode scan, block iterator, "
        "quota_type2inum, ftruncate64, llseek, write) are recording stubs; mark_table_blocks and the two output writers cut in discover",
    ],
    "outside": [
        "which blocks count as metadata beyond one inode's step and the table blocks of harness marktables (6 groups): "
        "the real inode scan and the real block iterator (what ext2fs_block_iterate3 reports for extent/indirect trees), backup "
        "superblock option; ext2fs_inode_has_valid_blocks2 is used as the oracle for 'has valid blocks'",
        "the raw writer's move mode (-O/-o/-p), progress output, -n, stdout output, check_buf (-c), scramble, install_image; block "
        "content in rawout is a tag (check_zero_block and generic_write cut there)",
        "output_qcow2_meta_data_blocks beyond 16 blocks / 4 L1 slots / one refcount table cluster, L1 slots whose first imaged block is not "
        "their first block, a mid-run flush of a full L2 cache (> 512 tables); sync_refcount's and write_header's bytes; "
        "update_refcount/sync_refcount themselves (only the capacity they index into is checked)",
        "qcow2_write_raw_image's table walk (L1/L2 loop, offset > image_size skip, final size extension) beyond header validation and copy_data",
        "source filesystem never modified (C13), e2fsck/dumpe2fs equality on the image",
    ],
}
CUT = {"misc/e2image.c": ["init_l1_table", "init_l2_cache"]}
HARNESSES = [
    dict(name="read_header", src="rawconv.c", funcs=["qcow2_read_header"], configs=[{"KERNEL": 1}],
         unwind=4, unwindset=["main.%d:73" % i for i in range(6)] + ["read.0:73", "ref_be.0:9"], backends=["default", "kissat"], bound="all 72 header bytes, complete or short read"),
    dict(name="raw_validate", src="rawconv.c", funcs=["qcow2_write_raw_image"], configs=[{"KERNEL": 2}, {"KERNEL": 2, "WRITER_STYLE": None}],
         unwind=4, unwindset=["main.%d:73" % i for i in range(6)] + ["ref_be.0:9"], backends=["default", "kissat", "z3"], bound="all 72 header bytes; WRITER_STYLE: headers as e2image writes them for 1..2^32 blocks, cluster_bits 10..16"),
    dict(name="copy_data", src="rawconv.c", funcs=["qcow2_copy_data"], configs=[{"KERNEL": 3}, {"KERNEL": 3, "PARTIAL_WRITE": None}],
         unwind=6, unwindset=["main.%d:9" % i for i in range(6)] + ["read.0:9", "read.1:9", "write.0:9", "write.1:9", "qcow2_copy_data.0:6", "qcow2_copy_data.1:6"],
         backends=["default", "kissat"], bound="8-byte model files, 4-byte cluster, any source/destination offset, reads (and with PARTIAL_WRITE writes) of 1..4 bytes"),
    dict(name="l2item", src="l2item.c", funcs=["add_l2_item", "get_free_table"],
         configs=[{"CB": 10}, {"CB": 7}], unwind=4, unwindset=["main.%d:130" % i for i in range(10)] + ["ref_be64.0:9"],
         backends=["default", "kissat"], bound="cluster_bits 10 (128-entry L2 tables; 7 = scaled, 16 entries), 4 L1 slots, any block, any table content and offsets < 2^62"),
    dict(name="l2cache", src="l2cache.c", funcs=["flush_l2_cache", "put_used_table", "get_free_table", "generic_write", "seek_set", "seek_relative"],
         configs=[{"OP": 2, "NU": 2, "NF": 0},      # first: reaches every function of funcs= (get -> flush -> put)
                  {"OP": 1, "NU": 2, "NF": 1}, {"OP": 1, "NU": 3, "NF": 0}, {"OP": 1, "NU": 1, "NF": 0}, {"OP": 2, "NU": 1, "NF": 1}],
         unwind=5, unwindset=["main.%d:66" % i for i in range(14)] + ["write.0:66", "flush_l2_cache.0:5", "put_l2_cache.0:5"],
         backends=["default", "kissat"],
         bound="scaled cluster_bits 6 (64-byte cluster, 8 entries), 1..3 tables in use with symbolic content/offset/L1 slot, 0..1 free"),
    dict(name="rawout", src="rawout.c", funcs=["output_meta_data_blocks", "check_block", "seek_relative"],
         cut_statics={"misc/e2image.c": ["check_zero_block", "generic_write"]}, extra_src=["lib/ext2fs/blknum.c"],
         configs=[{"NBLK": 18}, {"NBLK": 18, "FLAGS": 0}, {"NBLK": 34}],
         unwind=4, unwindset=["main.0:36", "main.1:36", "main.2:36", "generic_write.0:36", "output_meta_data_blocks.0:36", "output_meta_data_blocks.1:36", "output_meta_data_blocks.2:36"],
         backends=["default", "kissat"],
         bound="18 and 34 blocks of 64 KiB, every subset imaged, every subset all-zero, s_first_data_block 0/1, ftruncate succeeds or fails; CHECK_ZERO flag on/off per query"),
    dict(name="discover", src="discover.c",
         funcs=["write_raw_image_file", "process_dir_block", "process_file_block", "use_inode_shortcuts", "meta_read_inode",
                "ext2fs_inode_has_valid_blocks2", "ext2fs_file_acl_block"],
         cut_statics={"misc/e2image.c": ["mark_table_blocks", "output_meta_data_blocks", "output_qcow2_meta_data_blocks"]},
         extra_src=["lib/ext2fs/blknum.c", "lib/ext2fs/valid_blk.c"],
         configs=[{"ALL_DATA": 0}, {"ALL_DATA": 1}],
         unwind=4, unwindset=["main.%d:129" % i for i in range(4)] + ["write_raw_image_file.0:4", "write_raw_image_file.1:4", "write_raw_image_file.2:4", "meta_get_blocks.0:16"],
         backends=["default", "kissat"],
         bound="one inode: all 128 bytes and the inode number symbolic; journal/project-quota/orphan inode numbers, 64bit feature, two reported (block, blockcnt) pairs symbolic; -a on/off per query"),
    dict(name="marktables", src="marktables.c", funcs=["mark_table_blocks", "ext2fs_descriptor_block_loc2", "ext2fs_bg_has_super", "ext2fs_inode_table_loc", "ext2fs_bg_flags_test"],
         extra_src=["lib/ext2fs/openfs.c", "lib/ext2fs/closefs.c", "lib/ext2fs/blknum.c"],
         configs=[{"NDB": 3, "METABG": 1, "FIRST_META_BG": f} for f in (0, 1, 2, 3)] +
                 [{"NDB": 3, "METABG": 0, "FIRST_META_BG": 0}, {"NDB": 3, "METABG": 1, "FIRST_META_BG": 1, "SPARSE": 0, "CSUM": 2},
                  {"NDB": 3, "METABG": 1, "FIRST_META_BG": 1, "CSUM": 0, "MMP": 0}, {"NDB": 3, "METABG": 1, "FIRST_META_BG": 1, "OUTPUT_IS_BLK": 1}],
         unwind=4, unwindset=["main.%d:36" % i for i in range(12)] + ["vf_log.0:36", "ext2fs_mark_block_bitmap_range2.0:9",
                    "mark_table_blocks.0:8", "mark_table_blocks.1:8", "mark_table_blocks.2:8", "test_root.0:6"],   # same bound for every loop: robust against loop renumbering
         backends=["kissat"],   # measured: kissat 6 s, minisat 70-150 s
         bound="1 KiB blocks, 512-byte descriptors (2 per block), 2-3 descriptor blocks = 4-6 groups of 8192 blocks, 2 inode table "
               "blocks per group; all feature words, s_first_meta_bg, MMP block, every descriptor's locations / flags / itable_unused symbolic"),
    dict(name="qcow2_layout", src="qcow2_layout.c",
         funcs=["output_qcow2_meta_data_blocks", "update_refcount", "add_l2_item", "get_free_table", "seek_set"],
         cut_statics={"misc/e2image.c": ["initialize_qcow2_image", "write_header", "generic_write", "flush_l2_cache", "sync_refcount",
                                         "free_qcow2_image", "check_zero_block"]},
         extra_src=["lib/ext2fs/blknum.c"],
         configs=[{"NBLK": 16, "ZERO": 0, "ACTIVE": 15}, {"NBLK": 16, "ZERO": 0x0220, "ACTIVE": 15}, {"NBLK": 16, "ZERO": 0, "ACTIVE": 13, "_tier": "thorough"}, {"NBLK": 12, "ZERO": 0, "ACTIVE": 7, "_tier": "thorough"}],
         unwind=6,
         unwindset=["main.%d:41" % i for i in range(8)] + ["output_qcow2_meta_data_blocks.0:10", "output_qcow2_meta_data_blocks.1:18",
                    "vf_touch.0:41", "vf_account_refblock.0:41", "vf_account_refblock.1:17", "flush_l2_cache.0:6", "flush_l2_cache.1:41",
                    "flush_l2_cache.2:6", "flush_l2_cache.3:6", "initialize_qcow2_image.0:6"],
         backends=["kissat", "default"],
         bound="cluster = block = 32 bytes (4-entry L2 tables, 16-entry refcount blocks), 16 filesystem blocks = 4 L1 slots; per query: which L1 "
               "slots are touched (their first block imaged, the other three symbolic) and which blocks are all-zero; model file of 40 clusters"),
    dict(name="geom", src="geom.c", funcs=["initialize_qcow2_image", "init_refcount", "align_offset", "get_bits_from_size"],
         cut_statics=CUT, extra_src=["lib/ext2fs/blknum.c"],
         configs=[{"CB": cb} for cb in (10, 11, 12, 16)] + [{"CB": 10, "CHECK_CAPACITY": 1, "MAXLOG": 17}] + [{"CB": cb, "CHECK_CAPACITY": k} for k in (1, 2) for cb in (10, 11, 12, 16)],
         unwind=4, unwindset=["get_bits_from_size.0:18", "ref_be.0:9"], backends=["default", "kissat", "z3"],
         bound="1..2^32 blocks (MAXLOG=17: <= 131072), 0..blocks imaged blocks, cluster_bits 10/11/12/16"),
]
MANIFEST = {
    "text": "Sizing and index arithmetic of the qcow2 writer and reader only: header fields, L1 size, region order/alignment and "
            "refcount-table capacity of initialize_qcow2_image/init_refcount for every filesystem size; add_l2_item's slot "
            "against the format's (and the reader's) index formula; header acceptance of qcow2_read_header and "
            "qcow2_write_raw_image; byte placement of qcow2_copy_data; the L2 cache recycle step (flush/put/get: every table "
            "written once at its offset, recycled tables zero over the whole cluster); the raw writer's sparse accounting on 18/34 "
            "blocks of 64 KiB (final length, each imaged non-zero block at its offset, nothing else); one inode's metadata discovery "
            "step of write_raw_image_file (xattr block of every in-use inode, mapped blocks iff valid, right callback, count). "
            "Table-block discovery, the real block iterator, the qcow2 writer's sequencing and the reader's table walk are outside.",
    "note": "Trusted: CBMC's C semantics, recording allocation stubs, byte-array file models, the harness's restatement of the "
            "qcow2 format. Failing on the unchanged tree: geom CB=10 CHECK_CAPACITY (refcount table too small for 1 KiB-block "
            "images near 64 MiB, unchecked index in update_refcount) and copy_data PARTIAL_WRITE (retry writes c1 instead of c bytes).",
}
