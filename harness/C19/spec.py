META = {
    "assumptions": [
        "allocation failure out of scope (--no-malloc-may-fail); ext2fs_get_memzero/ext2fs_get_arrayzero as called from the encoded "
        "file are recording stubs (macro substitution in the harness), init_l1_table/init_l2_cache cut (allocation only)",
        "ext2fs_llseek/read/write are byte-array file models; reads deliver any non-empty part of a request",
        "filesystems of 1..2^32 blocks, block size 1k/2k/4k/64k (cluster_bits 10/11/12/16), little-endian host",
        "l2item: free L2 tables are zeroed (established by init_l2_cache/put_used_table), 4 L1 slots, cache of one used + one free table "
        "(flush_l2_cache not reached)",
    ],
    "outside": [
        "which blocks count as metadata: mark_table_blocks, process_dir_block, process_file_block, write_raw_image_file (the substance of C19)",
        "the raw writer output_meta_data_blocks (sparse skipping, -ra, move mode), scramble, install_image",
        "output_qcow2_meta_data_blocks' sequencing of update_refcount/add_l2_item/generic_write, flush_l2_cache ordering and file offsets, "
        "update_refcount/sync_refcount themselves (only the capacity they index into is checked)",
        "qcow2_write_raw_image's table walk (L1/L2 loop, offset > image_size skip, final size extension) beyond header validation and copy_data",
        "source filesystem never modified (C13), e2fsck/dumpe2fs equality on the image",
    ],
}
CUT = {"misc/e2image.c": ["init_l1_table", "init_l2_cache"]}
HARNESSES = [
    dict(name="read_header", src="rawconv.c", funcs=["qcow2_read_header"], configs=[{"KERNEL": 1}],
         unwind=4, unwindset=["main.%d:73" % i for i in range(6)] + ["read.0:73", "ref_be.0:9"], backends=["default", "kissat"], bound="all 72 header bytes, complete or short read"),
    dict(name="raw_validate", src="rawconv.c", funcs=["qcow2_write_raw_image"], configs=[{"KERNEL": 2}, {"KERNEL": 2, "WRITER_STYLE": None}],
         unwind=4, unwindset=["main.%d:73" % i for i in range(6)] + ["ref_be.0:9"], backends=["default", "kissat", "z3"], bound="all 72 header bytes; WRITER_STYLE: headers as e2image writes them for 1..2^32 blocks, cluster_bits 10..16"),
    dict(name="copy_data", src="rawconv.c", funcs=["qcow2_copy_data"], configs=[{"KERNEL": 3}, {"KERNEL": 3, "PARTIAL_WRITE": None}],
         unwind=6, unwindset=["main.%d:9" % i for i in range(6)] + ["read.0:9", "read.1:9", "write.0:9", "write.1:9", "qcow2_copy_data.0:6", "qcow2_copy_data.1:6"],
         backends=["default", "kissat"], bound="8-byte model files, 4-byte cluster, any source/destination offset, reads (and with PARTIAL_WRITE writes) of 1..4 bytes"),
    dict(name="l2item", src="l2item.c", funcs=["add_l2_item", "get_free_table"],
         configs=[{"CB": 10}, {"CB": 7}], unwind=4, unwindset=["main.%d:130" % i for i in range(10)] + ["ref_be64.0:9"],
         backends=["default", "kissat"], bound="cluster_bits 10 (128-entry L2 tables; 7 = scaled, 16 entries), 4 L1 slots, any block, any table content and offsets < 2^62"),
    dict(name="geom", src="geom.c", funcs=["initialize_qcow2_image", "init_refcount", "align_offset", "get_bits_from_size"],
         cut_statics=CUT, extra_src=["lib/ext2fs/blknum.c"],
         configs=[{"CB": cb} for cb in (10, 11, 12, 16)] + [{"CB": 10, "CHECK_CAPACITY": 1, "MAXLOG": 17}] + [{"CB": cb, "CHECK_CAPACITY": k} for k in (1, 2) for cb in (10, 11, 12, 16)],
         unwind=4, unwindset=["get_bits_from_size.0:18", "ref_be.0:9"], backends=["default", "kissat", "z3"],
         bound="1..2^32 blocks (MAXLOG=17: <= 131072), 0..blocks imaged blocks, cluster_bits 10/11/12/16"),
]
MANIFEST = {
    "text": "Sizing and index arithmetic of the qcow2 writer and reader only: header fields, L1 size, region order/alignment and "
            "refcount-table capacity of initialize_qcow2_image/init_refcount for every filesystem size; add_l2_item's slot "
            "against the format's (and the reader's) index formula; header acceptance of qcow2_read_header and "
            "qcow2_write_raw_image; byte placement of qcow2_copy_data. Which blocks are imaged, the writers' sequencing and the "
            "reader's table walk are outside.",
    "note": "Trusted: CBMC's C semantics, recording allocation stubs, byte-array file models, the harness's restatement of the "
            "qcow2 format. Failing on the unchanged tree: geom CB=10 CHECK_CAPACITY (refcount table too small for 1 KiB-block "
            "images near 64 MiB, unchecked index in update_refcount) and copy_data PARTIAL_WRITE (retry writes c1 instead of c bytes).",
}
