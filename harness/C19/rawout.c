/*
 * C19/rawout: misc/e2image.c:output_meta_data_blocks() -- the raw (-r) writer and its sparse
 * accounting, executed on a filesystem of NBLK blocks of 64 KiB (so that 16 skipped blocks are
 * exactly the 1 MiB threshold of the skip logic).  Which blocks are in meta_block_map and which of
 * them read back all-zero is symbolic.
 *
 * Model output file: a position, a length and, per block, whether it was written.  Block content is
 * a tag (block number, zero flag) placed by the read stub and recognised by the write stub.
 * Claim:
 *   - final file length == blocks_count * blocksize (the image has the size of the filesystem);
 *   - block b is written iff it is in the map, >= s_first_data_block and (with CHECK_ZERO) not all-zero;
 *     it is written once, whole, at offset b * blocksize with its own content;
 *   - nothing else is written (the rest of a fresh file reads as zero).
 */
#include "config.h"
#include "ext2fs/ext2_fs.h"
#include "ext2fs/ext2fs.h"
/* STUB: ext2fs_get_mem / ext2fs_get_memzero / ext2fs_free_mem as called from e2image.c: static 64-byte buffers (only stubs look into them) */
static errcode_t stub_get_mem(unsigned long size, void *ptr);
static errcode_t stub_free_mem(void *ptr);
#define ext2fs_get_mem stub_get_mem
#define ext2fs_get_memzero stub_get_mem
#define ext2fs_free_mem stub_free_mem
static int check_zero_block(char *buf, int blocksize);
static void generic_write(int fd, void *buf, int blocksize, blk64_t block);
#define main vf_real_main
#include "misc/e2image.c"
#undef main
#undef ext2fs_get_mem
#undef ext2fs_get_memzero
#undef ext2fs_free_mem
#include "env.c"
#ifndef VF_REPLAY
char *gettext(const char *m) { return (char *) m; }
#endif

#ifndef NBLK
#define NBLK 18		/* BOUND: 18 blocks of 64 KiB: runs of up to 18 skipped blocks, 16 = exactly 1 MiB */
#endif
#define BSZ 65536
#ifndef FLAGS
#define FLAGS E2IMAGE_CHECK_ZERO_FLAG
#endif

struct vf_in {
	unsigned int imaged, zero;	/* bit b: block b is in meta_block_map / reads back all-zero */
	unsigned int first_data_block;
	int ftrunc_fails;
};
VF_DECLARE_INPUT(struct vf_in, IN)
#include "vf_input.inc"

static long long vf_pos, vf_len;
static int vf_bad, vf_nbuf;
static unsigned char vf_written[NBLK];
static unsigned char vf_bufs[2][64];
static int vf_dummy_map, vf_dummy_io;

static errcode_t stub_get_mem(unsigned long size, void *ptr)
{
	if (size != BSZ || vf_nbuf >= 2)
		vf_bad = 1;
	*(void **) ptr = vf_bufs[vf_nbuf++ & 1];
	return 0;
}
static errcode_t stub_free_mem(void *ptr) { *(void **) ptr = NULL; return 0; }

/* STUB: ext2fs_llseek(): position of the model output file */
ext2_loff_t ext2fs_llseek(int fd, ext2_loff_t offset, int whence)
{
	if (fd != 7)
		vf_bad = 1;
	if (whence == SEEK_SET)
		vf_pos = offset;
	else if (whence == SEEK_CUR)
		vf_pos += offset;
	else
		vf_bad = 1;
	return vf_pos;
}
/* STUB: ftruncate64(): sets the model file length (or fails: the writer then falls back to writing one zero byte) */
int ftruncate64(int fd, off64_t len)
{
	if (fd != 7)
		vf_bad = 1;
	if (IN.ftrunc_fails)
		return -1;
	vf_len = len;
	return 0;
}
/* STUB: ext2fs_test_generic_bmap(): membership in meta_block_map = bit of the symbolic mask */
int ext2fs_test_generic_bmap(ext2fs_generic_bitmap bmap, __u64 arg)
{
	if (bmap != (ext2fs_generic_bitmap) &vf_dummy_map || arg >= NBLK)
		vf_bad = 1;
	return (IN.imaged >> arg) & 1;
}
/* STUB: io_channel_read_blk64(): block content = tag (block number + 1, zero flag) */
errcode_t io_channel_read_blk64(io_channel io, unsigned long long blk, int count, void *data)
{
	unsigned char *b = data;
	if (io != (io_channel) &vf_dummy_io || count != 1 || blk >= NBLK)
		vf_bad = 1;
	b[0] = (unsigned char)(blk + 1);
	b[1] = (IN.zero >> blk) & 1;
	return 0;
}
/* STUB: check_zero_block() (cut; real one verified by reading: byte loop): all-zero iff the tag says so */
static int check_zero_block(char *buf, int blocksize)
{
	if (blocksize != BSZ)
		vf_bad = 1;
	return buf[1];
}
/* STUB: generic_write() (cut; encoded in l2cache): a whole block (or the single zero byte of the ftruncate fallback) at the current position */
static void generic_write(int fd, void *buf, int blocksize, blk64_t block)
{
	unsigned char *b = buf;
	unsigned int k;
	if (fd != 7)
		vf_bad = 1;
	if (blocksize == 1) {		/* fallback: one zero byte */
		if (b[0] != 0 || block != NO_BLK)
			vf_bad = 1;
		vf_pos += 1;
		if (vf_pos > vf_len)
			vf_len = vf_pos;
		return;
	}
	if (blocksize != BSZ)
		vf_bad = 1;
	for (k = 0; k < NBLK; k++)
		if (b[0] == k + 1) {
			PROP(block == k, "block number passed to the writer is the block read");
			PROP(vf_pos == (long long) k * BSZ, "block written at offset block * blocksize");
			PROP(!vf_written[k], "block written once");
			vf_written[k] = 1;
		}
	if (b[0] == 0 || b[0] > NBLK)
		vf_bad = 1;		/* not a block that was read */
	vf_pos += BSZ;
	if (vf_pos > vf_len)
		vf_len = vf_pos;
}
#ifndef VF_REPLAY
/* STUB: signal(): no-op */
typedef void (*vf_sighandler_t)(int);
vf_sighandler_t signal(int sig, vf_sighandler_t h) { (void) sig; (void) h; return 0; }
#endif

int main(void)
{
	static struct struct_ext2_filsys fs_s;
	static struct ext2_super_block sb;
	unsigned int b;

	VF_INPUT(IN);
	/* ASSUME: s_first_data_block is 0 or 1 */
	ASSUME(IN.first_data_block <= 1);
	fs_s.super = &sb;
	fs_s.blocksize = BSZ;
	fs_s.io = (io_channel) &vf_dummy_io;
	sb.s_blocks_count = NBLK;
	sb.s_first_data_block = IN.first_data_block;
	meta_block_map = (ext2fs_block_bitmap) &vf_dummy_map;
	/* ASSUME: plain -r run: no move mode (-O/-o with -p), no progress, no -n, output is a fresh regular file (not stdout) */

	output_meta_data_blocks(&fs_s, 7, FLAGS);

	PROP(!vf_bad, "callee contracts (descriptor, block size, map, block range)");
	PROP(vf_len == (long long) NBLK * BSZ, "final file length is blocks_count * blocksize");
	/* BOUND: main.0: NBLK blocks */
	for (b = 0; b < NBLK; b++) {
		int want = ((IN.imaged >> b) & 1) && b >= IN.first_data_block &&
			!((FLAGS & E2IMAGE_CHECK_ZERO_FLAG) && ((IN.zero >> b) & 1));
		PROP(vf_written[b] == want, "a block is written iff it is imaged, not before the first data block and not all-zero");
	}
	VF_END();
	return 0;
}
