/*
 * C19/l2cache: the L2 table cache recycle step of the qcow2 writer,
 * misc/e2image.c: flush_l2_cache() / put_used_table() / get_free_table()
 * (with the real seek_set / seek_relative / generic_write underneath).
 *
 * Symbolic cache: NU tables on the used list (symbolic L1 slot, file offset and content),
 * NF zeroed tables on the free list.
 * OP 1  flush_l2_cache(): every used table is written exactly once, in list order, one whole
 *       cluster, at its recorded offset, with its content; the file position is restored; all
 *       tables end up on the free list, and every free table is all-zero over the WHOLE cluster
 *       (that is the invariant add_l2_item relies on: a recycled buffer must not carry mappings
 *       of the L1 slot it served before).
 * OP 2  get_free_table() (flushes first when nothing is free): the table handed out is all-zero
 *       over the whole cluster and is the new tail of the used list.
 */
#include "config.h"
#include "ext2fs/ext2_fs.h"
#include "ext2fs/ext2fs.h"
#define main vf_real_main
#include "misc/e2image.c"
#undef main
#include "env.c"
#ifndef VF_REPLAY
char *gettext(const char *m) { return (char *) m; }
#endif

#ifndef CB
#define CB 6		/* BOUND: scaled cluster_bits 6: 64-byte cluster, 8 entries per L2 table */
#endif
#define CSZ (1u << CB)
#define L2E (CSZ / 8)
#ifndef NU
#define NU 2		/* tables on the used list */
#endif
#ifndef NF
#define NF 1		/* tables on the free list */
#endif
#ifndef OP
#define OP 1
#endif
#define NT (NU + NF)

struct vf_in {
	unsigned long long data[NU ? NU : 1][L2E];
	unsigned long long offset[NU ? NU : 1];
	unsigned int l1[NU ? NU : 1];
	long long pos0;
};
VF_DECLARE_INPUT(struct vf_in, IN)
#include "vf_input.inc"

static long long vf_pos;
static int vf_nwrite, vf_bad;
static long long vf_wpos[NT + 1];
static unsigned char vf_wdata[NT + 1][CSZ];

/* STUB: ext2fs_llseek(): position of the model image file (SEEK_SET / SEEK_CUR) */
ext2_loff_t ext2fs_llseek(int fd, ext2_loff_t offset, int whence)
{
	if (fd != 7)
		vf_bad = 1;
	if (whence == SEEK_SET)
		vf_pos = offset;
	else if (whence == SEEK_CUR)
		vf_pos += offset;
	else
		vf_bad = 1;
	return vf_pos;
}
/* STUB: write(): logs (position, bytes) of each request, accepts everything */
ssize_t write(int fd, const void *buf, size_t n)
{
	unsigned int i;
	if (fd != 7 || n != CSZ)
		vf_bad = 1;
	if (vf_nwrite < NT + 1) {
		vf_wpos[vf_nwrite] = vf_pos;
		for (i = 0; i < CSZ; i++)
			vf_wdata[vf_nwrite][i] = ((const unsigned char *) buf)[i];
	}
	vf_nwrite++;
	vf_pos += n;
	return n;
}

int main(void)
{
	static struct ext2_qcow2_image img;
	static struct ext2_qcow2_l2_cache cache;
	static struct ext2_qcow2_l2_table tab[NT];
	static union { __u64 e[L2E]; unsigned char b[CSZ]; } d[NT];
	struct ext2_qcow2_l2_table *t;
	unsigned int i, k, n;

	VF_INPUT(IN);
	/* ASSUME: table offsets are non-zero (the L2 area lies behind the header) and below 2^62; position < 2^62 */
	ASSUME(IN.pos0 >= 0 && IN.pos0 < (1LL << 62));
	img.fd = 7;
	img.cluster_bits = CB;
	img.cluster_size = CSZ;
	img.l2_size = L2E;
	img.l2_cache = &cache;
	cache.count = NT;
	cache.free = NF;
	/* BOUND: main.*: NT tables of L2E entries / CSZ bytes */
	for (k = 0; k < NT; k++)
		tab[k].data = d[k].e;
	for (k = 0; k < NU; k++) {
		ASSUME(IN.offset[k] != 0 && IN.offset[k] < (1ULL << 62));
		for (i = 0; i < L2E; i++)
			d[k].e[i] = IN.data[k][i];
		tab[k].offset = IN.offset[k];
		tab[k].l1_index = IN.l1[k];
		/* get_free_table() never clears ->next: the tail of the used list still points at the table that was
		 * behind it on the free list, i.e. at the current free head (reachable states only) */
		tab[k].next = (k + 1 < NT) ? &tab[k + 1] : NULL;
	}
	if (NU) {
		cache.used_head = &tab[0];
		cache.used_tail = &tab[NU - 1];
	}
	/* Inv: free tables are zeroed (static storage) */
	for (k = NU; k < NT; k++)
		tab[k].next = (k + 1 < NT) ? &tab[k + 1] : NULL;
	if (NF)
		cache.free_head = &tab[NU];
	vf_pos = IN.pos0;

#if OP == 1
	flush_l2_cache(&img);
	t = NULL;
#else
	get_free_table(&img, &t);
#endif
	PROP(!vf_bad, "writes are whole clusters to the image descriptor");
#if OP == 1 || NF == 0
	/* a flush happened */
	PROP(vf_nwrite == NU, "every used table written exactly once");
	for (k = 0; k < NU; k++) {
		PROP(vf_wpos[k] == (long long) IN.offset[k], "k-th write at the k-th table's recorded offset");
		for (i = 0; i < CSZ; i++)
			PROP(vf_wdata[k][i] == ((const unsigned char *) IN.data[k])[i], "k-th write carries the k-th table's content");
	}
	PROP(vf_pos == IN.pos0, "file position restored");
#else
	PROP(vf_nwrite == 0 && vf_pos == IN.pos0, "a free table is available: nothing written");
#endif
#if OP == 1
	PROP(cache.free == NT, "after the flush every table is free");
#if NF == 0
	PROP(cache.used_head == NULL && cache.used_tail == NULL, "after the flush of a full cache the used list is empty");
#endif
#else
	PROP(t != NULL && cache.used_tail == t, "the table handed out is the tail of the used list");
	PROP(cache.free == (NF ? NF - 1 : NT - 1), "free count");
	for (i = 0; i < CSZ; i++)
		PROP(((unsigned char *) t->data)[i] == 0, "the table handed out is all-zero over the whole cluster");
#endif
	/* every table on the free list is all-zero over the whole cluster, and the list has cache.free members */
	n = 0;
	for (t = cache.free_head; t != NULL && n <= NT; t = t->next) {
		for (i = 0; i < CSZ; i++)
			PROP(((unsigned char *) t->data)[i] == 0, "free tables are all-zero over the whole cluster");
		n++;
	}
	PROP(n == cache.free, "free list length equals the free count");
	VF_END();
	return 0;
}
