/*
 * C05/extlist: the extent-tree rebuild (e2fsck -E bmap2extent / pass 1E) reads the old
 * tree into a list with the REAL load_extents() (extents.c).  The tree walk
 * (ext2fs_extent_open/get/free) is stubbed to deliver NEXT symbolic nodes: each is a
 * leaf extent (lblk, pblk, len, initialised/uninitialised), an index node, or the
 * second visit of an index node.
 *
 * For a symbolic probe logical block L: the list maps L to the SAME physical block and
 * the SAME initialised/uninitialised state as the tree's leaves do (or leaves it
 * unmapped alike).  The list is in strictly increasing logical order without overlap,
 * no e_len wrapped (merging is bounded by the 32-bit length), every leaf was read, every
 * index block (and nothing else) is released exactly once.
 * OUTSIDE: that merged lengths fit the ON-DISK limit is not load_extents' contract:
 * rewrite_extent_replay() splits at EXT_INIT_MAX_LEN / EXT_UNINIT_MAX_LEN when writing.
 */
#include "e2fsck/extents.c"

#ifndef NEXT
#define NEXT 3
#endif
#define LISTCAP 8

struct vf_in {
	unsigned long long lblk[NEXT], pblk[NEXT];
	__u32 len[NEXT];
	unsigned char uninit[NEXT], kind[NEXT];	/* kind 0 leaf, 1 index node, 2 second visit */
	unsigned long long probe;
	__u32 otherflags;
};
VF_DECLARE_INPUT(struct vf_in, IN)
#include "vf_input.inc"

static struct e2fsck_struct vf_ctx;
static struct struct_ext2_filsys vf_fs;
static struct ext2fs_extent vf_list[LISTCAP];
static int vf_pos, vf_nopen, vf_nfree, vf_nrelease, vf_release_wrong;
static char vf_handle_obj;

static void vf_deliver(int k, struct ext2fs_extent *e)
{
	int i;
	for (i = 0; i < NEXT; i++)
		if (i == k) {
			e->e_lblk = IN.lblk[i];
			e->e_pblk = IN.pblk[i];
			e->e_len = IN.len[i];
			e->e_flags = IN.otherflags & ~7U;
			if (IN.kind[i] == 0)
				e->e_flags |= EXT2_EXTENT_FLAGS_LEAF | (IN.uninit[i] ? EXT2_EXTENT_FLAGS_UNINIT : 0);
			else if (IN.kind[i] == 2)
				e->e_flags |= EXT2_EXTENT_FLAGS_SECOND_VISIT;
		}
}
/* STUB: ext2fs_extent_open/get/free: a walk that delivers the NEXT symbolic nodes in order, then EXT2_ET_EXTENT_NO_NEXT */
errcode_t ext2fs_extent_open(ext2_filsys fs, ext2_ino_t ino, ext2_extent_handle_t *h)
{ (void) fs; (void) ino; vf_nopen++; vf_pos = 0; *h = (ext2_extent_handle_t) &vf_handle_obj; return 0; }
errcode_t ext2fs_extent_get(ext2_extent_handle_t h, int flags, struct ext2fs_extent *e)
{
	(void) h;
	if (flags == EXT2_EXTENT_ROOT)
		vf_pos = 0;
	else
		vf_pos++;
	if (vf_pos >= NEXT)
		return EXT2_ET_EXTENT_NO_NEXT;
	vf_deliver(vf_pos, e);
	return 0;
}
void ext2fs_extent_free(ext2_extent_handle_t h) { (void) h; vf_nfree++; }
/* STUB: ext2fs_block_alloc_stats2() records the release; it must be an index node's block */
void ext2fs_block_alloc_stats2(ext2_filsys fs, blk64_t blk, int inuse)
{
	int i, ok = 0;
	(void) fs;
	vf_nrelease++;
	for (i = 0; i < NEXT; i++)
		if (IN.kind[i] == 1 && IN.pblk[i] == blk)
			ok = 1;
	if (!ok || inuse != -1)
		vf_release_wrong = 1;
}
#ifndef VF_REPLAY
/* STUB: realloc() must not be reached: the list is pre-sized as e2fsck_rebuild_extents() does (NUM_EXTENTS there, 8 here) */
void *realloc(void *p, size_t n) { (void) n; PROP(0, "harness: no reallocation is needed within the bound"); return p; }
#endif

int main(void)
{
	struct extent_list list;
	static struct extent_list lz;
	errcode_t r;
	int i, nleaf = 0, nindex = 0, in_mapped = 0, in_un = 0, out_mapped = 0, out_un = 0;
	unsigned long long in_p = 0, out_p = 0, prev_end = 0;
	int have_prev = 0;

	VF_INPUT(IN);
	vf_ctx.fs = &vf_fs;
	/* ASSUME: the old tree is well-formed in logical space: leaves non-empty, in increasing order, not overlapping, below 2^32 */
	for (i = 0; i < NEXT; i++) {
		ASSUME(IN.kind[i] <= 2 && IN.uninit[i] <= 1);
		ASSUME(IN.pblk[i] < (1ULL << 48));
		if (IN.kind[i] == 0) {
#ifdef MAXLEN
			/* BOUND: leaf lengths up to MAXLEN (the on-disk limit is 32768) */
			ASSUME(IN.len[i] <= MAXLEN);
#endif
			ASSUME(IN.len[i] >= 1 && IN.lblk[i] < (1ULL << 32) && IN.lblk[i] + IN.len[i] <= (1ULL << 32));
			if (have_prev)
				ASSUME(IN.lblk[i] >= prev_end);
			prev_end = IN.lblk[i] + IN.len[i];
			have_prev = 1;
			nleaf++;
			if (IN.probe >= IN.lblk[i] && IN.probe - IN.lblk[i] < IN.len[i]) {
				in_mapped++;
				in_p = IN.pblk[i] + (IN.probe - IN.lblk[i]);
				in_un = IN.uninit[i];
			}
		} else if (IN.kind[i] == 1)
			nindex++;
	}
#ifndef WRAP
	/* ASSUME: the leaves together cover fewer than 2^32 blocks (config WRAP drops this: a file mapping ALL 2^32 logical blocks) */
	{
		unsigned long long total = 0;
		for (i = 0; i < NEXT; i++)
			if (IN.kind[i] == 0)
				total += IN.len[i];
		ASSUME(total < (1ULL << 32));
	}
#endif
	list = lz;
	list.ino = 12;
	list.extents = vf_list;
	list.size = LISTCAP;

	r = load_extents(&vf_ctx, &list);

	PROP(r == 0, "load_extents succeeds on a walk that ends with EXT2_ET_EXTENT_NO_NEXT");
	PROP(vf_nopen == 1 && vf_nfree == 1, "the handle is opened once and freed once");
	PROP(list.ext_read == (unsigned) nleaf && list.count <= (unsigned) nleaf, "every leaf is read; the list is no longer than the leaves");
	PROP(list.blocks_freed == (unsigned) nindex && vf_nrelease == nindex && !vf_release_wrong,
	     "exactly the index nodes' blocks are released, once each");
	prev_end = 0;
	for (i = 0; i < LISTCAP; i++) {
		if ((unsigned) i >= list.count)
			break;
		PROP(vf_list[i].e_len >= 1, "no list entry is empty (no length wrapped to 0)");
		PROP(i == 0 || vf_list[i].e_lblk >= prev_end, "list entries are in increasing logical order without overlap");
		prev_end = vf_list[i].e_lblk + vf_list[i].e_len;
		if (IN.probe >= vf_list[i].e_lblk && IN.probe - vf_list[i].e_lblk < vf_list[i].e_len) {
			out_mapped++;
			out_p = vf_list[i].e_pblk + (IN.probe - vf_list[i].e_lblk);
			out_un = (vf_list[i].e_flags & EXT2_EXTENT_FLAGS_UNINIT) != 0;
		}
	}
	PROP(in_mapped == out_mapped, "a logical block is mapped by the list iff the tree maps it");
	if (in_mapped)
		PROP(in_p == out_p, "the list maps every logical block to the same physical block as the tree");
	if (in_mapped)
		PROP(in_un == out_un, "the list keeps every block's initialised / uninitialised state");
	VF_END();
	return 0;
}
