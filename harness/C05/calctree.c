/* (mirror of harness/C01/calctree.c: keep the two files identical)
 * C01/calctree: the htree index e2fsck writes when it rebuilds a directory (pass 3A / -D) is
 * one that e2fsck -fn accepts: the REAL calculate_tree(), alloc_blocks(), set_root_node(),
 * set_int_node(), get_next_block() (rehash.c) at a scaled block size of 64 bytes (root holds 4
 * entries, an interior node 7), NLEAF leaf blocks (compile time), leaf hashes symbolic.
 *
 * An independent reader of the on-disk htree format then walks root -> (level 2 -> (level 3))
 * and checks: root dirents and dx_root_info are the format's; every index block has the fake
 * empty dirent, limit = the format's capacity and 1 <= count <= limit; following exactly `count`
 * children everywhere reaches the leaves 1..NLEAF exactly once and in order; every index block
 * that was appended is used; every entry except the first of a block carries the hash of the
 * first leaf below it; the depth recorded in the root is the depth of the walk.
 */
struct struct_ext2_filsys; struct out_dir;
static long alloc_size_dir(struct struct_ext2_filsys *fs, struct out_dir *outdir, unsigned int blocks);	/* cut */
#include "e2fsck/rehash.c"

#define BS 64
#ifndef NLEAF
#define NLEAF 29
#endif
#define CAP (NLEAF + 1 + NLEAF / 7 + 4)
#define ROOT_LIMIT 4
#define NODE_LIMIT 7

struct vf_in {
	__u32 hash[NLEAF + 2];
	__u32 ino, parent;
	__u32 feature_incompat;
	__u8 def_hash_version;
};
VF_DECLARE_INPUT(struct vf_in, IN)
#include "vf_input.inc"

static struct struct_ext2_filsys vf_fs;
static struct ext2_super_block vf_sb;
static struct ext2_inode vf_inode;
static unsigned char vf_out[CAP * BS] __attribute__((aligned(8)));
static ext2_dirhash_t vf_hashes[CAP];

#ifdef GROW
/*
 * GROW: the output area is EXACTLY root + leaves at entry, so the first interior node makes get_next_block() grow it.
 * STUB: alloc_size_dir() is cut to a specification stub that MOVES the area as realloc may: a fresh area (second static
 * array) receives the used blocks and hashes, the old area is poisoned with 0xA5 and must never be touched again.
 */
static unsigned char vf_out2[CAP * BS] __attribute__((aligned(8)));
static ext2_dirhash_t vf_hashes2[CAP];
static int vf_nmoves;
static errcode_t alloc_size_dir(ext2_filsys fs, struct out_dir *outdir, blk_t blocks)
{
	unsigned int i;
	(void) fs;
	vf_nmoves++;
	PROP(vf_nmoves == 1 && outdir->max == NLEAF + 1 && outdir->buf == (char *) vf_out, "harness: the area is grown once, from root + leaves");
	PROP(blocks > outdir->max, "alloc_size_dir is asked to grow");
	for (i = 0; i < (NLEAF + 1) * BS; i++) {
		vf_out2[i] = vf_out[i];
		vf_out[i] = 0xA5;
	}
	for (i = 0; i <= NLEAF; i++) {
		vf_hashes2[i] = vf_hashes[i];
		vf_hashes[i] = 0xA5A5A5A5U;
	}
	outdir->buf = (char *) vf_out2;
	outdir->hashes = vf_hashes2;
	/* BOUND: the new area holds CAP blocks whatever is requested (the real increment is 50 blocks); main checks that no more were used */
	outdir->max = blocks;
	return 0;
}
#else
/* STUB: alloc_size_dir() is cut: the output area is static and large enough; it must not be needed */
static errcode_t alloc_size_dir(ext2_filsys fs, struct out_dir *outdir, blk_t blocks)
{ (void) fs; (void) outdir; (void) blocks; PROP(0, "harness: the static output area suffices"); return 0; }
#endif
#if defined(GROW) && NLEAF > 4
#define VF_FINAL vf_out2		/* an interior node was appended: the area has moved */
#else
#define VF_FINAL vf_out
#endif

#define ref_byte(off) (VF_FINAL[off])
static __u32 ref_le32(unsigned int off) { return ref_byte(off) | (ref_byte(off + 1) << 8) | (ref_byte(off + 2) << 16) | ((__u32) ref_byte(off + 3) << 24); }
static __u32 ref_le16(unsigned int off) { return ref_byte(off) | (ref_byte(off + 1) << 8); }
static __u32 ref_hash_of_leaf(unsigned int leaf)
{
	unsigned int i; __u32 h = 0;
	for (i = 1; i <= NLEAF; i++)
		if (i == leaf)
			h = IN.hash[i];
	return h;
}

static unsigned int ref_expect;		/* next leaf the walk must reach */
static unsigned int ref_nindex;		/* index blocks visited */
static unsigned int ref_num;		/* blocks in the output */

static void ref_leaf(__u32 blk, int k, __u32 h)
{
	PROP(blk == ref_expect, "leaves are reached exactly once, in order");
	if (k > 0)
		PROP(h == ref_hash_of_leaf(ref_expect), "an index entry carries the first hash of its leaf");
	ref_expect++;
}
/* an interior node at block blk; depth 0: its children are leaves */
static void ref_node(__u32 blk, int depth, int k_in_parent, __u32 h_in_parent);
static void ref_node_body(__u32 blk, int depth)
{
	unsigned int base = blk * BS, k;
	__u32 limit, count;
	PROP(ref_le32(base) == 0 && ref_le16(base + 4) == BS && ref_byte(base + 6) == 0,
	     "an interior node starts with an empty dirent spanning the block");
	limit = ref_le16(base + 8);
	count = ref_le16(base + 10);
	PROP(limit == NODE_LIMIT, "interior node: limit is the format's capacity");
	PROP(count >= 1 && count <= limit, "interior node: 1 <= count <= limit");
	for (k = 0; k < NODE_LIMIT; k++) {
		__u32 h, b;
		if (k >= count)
			break;
		h = ref_le32(base + 8 + 8 * k);
		b = ref_le32(base + 8 + 8 * k + 4);
		if (depth == 0)
			ref_leaf(b, k, h);
		else
			ref_node(b, depth - 1, k, h);
	}
}
static void ref_node(__u32 blk, int depth, int k_in_parent, __u32 h_in_parent)
{
	unsigned int first = ref_expect;
	PROP(blk > NLEAF && blk < ref_num && blk < CAP, "an index entry above the leaf level points at an appended index block");
	if (!(blk > NLEAF && blk < CAP))
		return;
	ref_nindex++;
	if (k_in_parent > 0)
		PROP(h_in_parent == ref_hash_of_leaf(first), "an index entry carries the first hash below its child");
#if NLEAF > 28
	if (depth == 1) { ref_node_body(blk, 1); return; }
#endif
	ref_node_body(blk, 0);
}

int main(void)
{
	struct out_dir outdir;
	static struct out_dir odz;
	errcode_t r;
	unsigned int k, levels, limit, count, want_levels;
	int i;

	VF_INPUT(IN);
	vf_fs.super = &vf_sb;
	vf_fs.blocksize = BS;
	/* ASSUME: no metadata_csum (no dx tail), not an encrypted+casefolded directory */
	vf_sb.s_feature_incompat = IN.feature_incompat;
	vf_sb.s_def_hash_version = IN.def_hash_version;
	vf_inode.i_flags = 0;
	outdir = odz;
	outdir.buf = (char *) vf_out;
	outdir.hashes = vf_hashes;
	outdir.num = NLEAF + 1;		/* block 0 is reserved for the root, leaves are 1..NLEAF (copy_dir_entries) */
#ifdef GROW
	outdir.max = NLEAF + 1;		/* exactly root + leaves: appending an interior node must grow (and move) the area */
#else
	outdir.max = CAP;
#endif
	for (i = 0; i <= NLEAF; i++)
		vf_hashes[i] = IN.hash[i];

	r = calculate_tree(&vf_fs, &outdir, IN.ino, IN.parent, &vf_inode);

	PROP(r == 0, "calculate_tree succeeds");
	PROP(outdir.num <= CAP, "harness: output fits the static area");
	ref_num = outdir.num;
	PROP(outdir.buf == (char *) VF_FINAL, "harness: the tree is read from the area calculate_tree left in outdir");
#if defined(GROW) && NLEAF > 4
	for (i = 0; i < (NLEAF + 1) * BS; i++)
		PROP(vf_out[i] == 0xA5, "nothing is written through a stale pointer into the released area");
#endif
	/* root block: ".", "..", dx_root_info, count/limit */
	PROP(ref_le32(0) == IN.ino && ref_le16(4) == 12 && ref_byte(6) == 1 && ref_byte(8) == '.', "root block starts with '.' of the directory");
	PROP(ref_le32(12) == IN.parent && ref_le16(16) == BS - 12 && ref_byte(18) == 2 && ref_byte(20) == '.' && ref_byte(21) == '.',
	     "then '..' of the parent, spanning the rest of the block");
	PROP(ref_le32(24) == 0 && ref_byte(28) == IN.def_hash_version && ref_byte(29) == 8 && ref_byte(31) == 0,
	     "dx_root_info: reserved 0, hash version of the superblock, info_length 8, flags 0");
	levels = ref_byte(30);
	want_levels = (NLEAF <= ROOT_LIMIT) ? 0 : (NLEAF <= ROOT_LIMIT * NODE_LIMIT) ? 1 : 2;
	PROP(levels == want_levels, "indirect_levels is the smallest depth that holds the leaves");
	limit = ref_le16(32);
	count = ref_le16(34);
	PROP(limit == ROOT_LIMIT, "root: limit is the format's capacity");
	PROP(count <= limit && (count >= 1 || NLEAF == 0), "root: count <= limit");
	ref_expect = 1;
	for (k = 0; k < ROOT_LIMIT; k++) {
		__u32 h, b;
		if (k >= count)
			break;
		h = ref_le32(32 + 8 * k);
		b = ref_le32(32 + 8 * k + 4);
		if (want_levels == 0)
			ref_leaf(b, k, h);
		else
			ref_node(b, want_levels - 1, k, h);
	}
	PROP(ref_expect == NLEAF + 1, "every leaf is reachable from the root");
	PROP(ref_nindex == ref_num - 1 - NLEAF, "every appended index block is part of the tree");
	VF_END();
	return 0;
}
