/*
 * C05/dupfix: e2fsck renames / drops a directory entry during a rebuild ONLY when it really is
 * a duplicate: the REAL duplicate_search_and_fix(), same_name(), mutate_name(), hash_cmp(),
 * name_cmp(), name_cf_cmp() (rehash.c) on a sorted array of NENT entries with symbolic inode,
 * type, name length 1..4 and name bytes, symbolic hashes.  CF 0: case-sensitive directory
 * (comparison context as e2fsck_rehash_dir installs it without EXT4_CASEFOLD_FL); CF 1: casefolded.
 *
 * Reference "same name": CF 0 byte-identical (same length, same bytes); CF 1 equal after folding
 * (ext2fs_casefold_cmp is stubbed as ASCII tolower comparison -- the real UTF-8 tables are outside).
 * With every question answered yes:
 *  - entry 0 is never touched; entry i is touched iff it is live, its name is the same (in the
 *    directory's sense) as its predecessor's and the predecessor kept its name;
 *  - a touched entry with the predecessor's inode is dropped (inode 0, rest kept) through
 *    PR_2_DUPLICATE_DIRENT and the link count is adjusted by -1; otherwise it is renamed through
 *    PR_2_NON_UNIQUE_FILE: inode and type kept, the new name differs (in the directory's sense)
 *    from every other entry's name, and its hash is recomputed from the new name;
 *  - the return value and the number of fix_problem calls equal the number of touched entries;
 *  - NENT 2: afterwards the live names are pairwise different in the directory's sense.
 */
#include "e2fsck/rehash.c"

#ifndef NENT
#define NENT 2
#endif
#ifndef CF
#define CF 0
#endif

struct vf_in {
	__u32 inode[NENT];
	__u8 nlen[NENT], type[NENT];
	unsigned char name[NENT][4];
	__u32 hash[NENT], minor[NENT];
	__u32 sflags; __u8 def_hash_version;
};
VF_DECLARE_INPUT(struct vf_in, IN)
#include "vf_input.inc"

static struct e2fsck_struct vf_ctx;
static struct struct_ext2_filsys vf_fs;
static struct ext2_super_block vf_sb;
static struct ext2_inode vf_inode;
static unsigned char vf_de[NENT][12] __attribute__((aligned(8)));
static struct hash_entry vf_harray[NENT];
static char vf_tbl_obj;
static int vf_nfix, vf_ndup_code, vf_nuniq_code, vf_other_code, vf_nadj, vf_adj_bad, vf_nhash;

static unsigned char ref_fold(unsigned char c) { return (c >= 'A' && c <= 'Z') ? c + 32 : c; }

/* STUB: fix_problem() records the code and answers yes */
int fix_problem(e2fsck_t ctx, problem_t code, struct problem_context *pctx)
{
	(void) ctx; (void) pctx;
	vf_nfix++;
	if (code == PR_2_DUPLICATE_DIRENT) vf_ndup_code++;
	else if (code == PR_2_NON_UNIQUE_FILE) vf_nuniq_code++;
	else vf_other_code++;
	return 1;
}
void clear_problem_context(struct problem_context *p) { memset(p, 0, sizeof(*p)); p->blkcount = -1; p->group = -1; }
/* STUB: e2fsck_adjust_inode_count() records (must be -1 on a live inode) */
errcode_t e2fsck_adjust_inode_count(e2fsck_t ctx, ext2_ino_t ino, int adj)
{ (void) ctx; vf_nadj++; if (adj != -1 || ino == 0) vf_adj_bad = 1; return 0; }
/* STUB: ext2fs_casefold_cmp(): equal iff equal after ASCII tolower; otherwise ordered by folded bytes, then length */
int ext2fs_casefold_cmp(const struct ext2fs_nls_table *t, const unsigned char *s1, size_t l1, const unsigned char *s2, size_t l2)
{
	size_t i;
	(void) t;
	for (i = 0; i < 4; i++) {
		if (i >= l1 || i >= l2)
			break;
		if (ref_fold(s1[i]) != ref_fold(s2[i]))
			return ref_fold(s1[i]) < ref_fold(s2[i]) ? -1 : 1;
	}
	return l1 == l2 ? 0 : (l1 < l2 ? -1 : 1);
}
/* STUB: ext2fs_dirhash2(): deterministic function of the name (the hash functions are C10's) */
static ext2_dirhash_t ref_hash(const unsigned char *n, int len)
{
	ext2_dirhash_t first = n[0], last = 0;
	int k;
	for (k = 0; k < 4; k++)
		if (k == len - 1)
			last = n[k];
	return (first << 16 | last << 8 | (ext2_dirhash_t) len) & ~1U;
}
errcode_t ext2fs_dirhash2(int version, const char *name, int len, const struct ext2fs_nls_table *charset,
			  int hash_flags, const __u32 *seed, ext2_dirhash_t *ret_hash, ext2_dirhash_t *ret_minor_hash)
{
	(void) version; (void) charset; (void) hash_flags; (void) seed;
	vf_nhash++;
	*ret_hash = ref_hash((const unsigned char *) name, len);
	if (ret_minor_hash) *ret_minor_hash = 7;
	return 0;
}
#ifndef VF_REPLAY
/* STUB: <ctype.h> table for isdigit() (glibc reads it through __ctype_b_loc): only the digit class is filled in */
static unsigned short vf_ctype[384];
static const unsigned short *vf_ctype_p;
const unsigned short **__ctype_b_loc(void)
{
	int c;
	for (c = '0'; c <= '9'; c++)
		vf_ctype[128 + c] = 1 << 11;	/* _ISdigit */
	vf_ctype_p = vf_ctype + 128;
	return &vf_ctype_p;
}
char *gettext(const char *s) { return (char *) s; }
/* STUB: memcpy() / memcmp() as bounded byte loops (names are at most 4 bytes; CBMC's built-in variable-length versions misbehave on the dirent overlay) */
void *memcpy(void *dst, const void *src, size_t n)
{
	size_t i;
	for (i = 0; i < 5; i++)
		if (i < n)
			((char *) dst)[i] = ((const char *) src)[i];
	PROP(n <= 5, "harness: memcpy length within the bound of the byte loop");
	return dst;
}
int memcmp(const void *a, const void *b, size_t n)
{
	size_t i;
	PROP(n <= 5, "harness: memcmp length within the bound of the byte loop");
	for (i = 0; i < 5; i++)
		if (i < n && ((const unsigned char *) a)[i] != ((const unsigned char *) b)[i])
			return ((const unsigned char *) a)[i] < ((const unsigned char *) b)[i] ? -1 : 1;
	return 0;
}
#endif

/* the directory's own notion of "same name" (independent of rehash.c) */
static int ref_same(const unsigned char *a, unsigned int la, const unsigned char *b, unsigned int lb)
{
	unsigned int i;
	if (la != lb)
		return 0;
	for (i = 0; i < 4; i++)
		if (i < la && (CF ? ref_fold(a[i]) != ref_fold(b[i]) : a[i] != b[i]))
			return 0;
	return 1;
}

int main(void)
{
	struct fill_dir_struct fd;
	static struct fill_dir_struct fdz;
	struct name_cmp_ctx cc;
	unsigned char orig[NENT][12];
	int i, j, k, r, touched = 0, ndrop = 0, nren = 0;

	VF_INPUT(IN);
	vf_fs.super = &vf_sb;
	vf_sb.s_flags = IN.sflags;
	vf_sb.s_def_hash_version = IN.def_hash_version;
	vf_ctx.fs = &vf_fs;
	cc.casefold = CF;
	cc.tbl = CF ? (const struct ext2fs_nls_table *) &vf_tbl_obj : 0;
	vf_fs.encoding = (const struct ext2fs_nls_table *) &vf_tbl_obj;	/* casefold-enabled filesystem in both configurations */
	/* ASSUME: not an encrypted directory; EXT4_CASEFOLD_FL exactly in the casefolded configuration */
	vf_inode.i_flags = CF ? EXT4_CASEFOLD_FL : 0;
	for (k = 0; k < NENT; k++) {
		/* BOUND: names of 1..4 bytes in 12-byte dirents */
		ASSUME(IN.nlen[k] >= 1 && IN.nlen[k] <= 4);
		vf_de[k][0] = IN.inode[k]; vf_de[k][1] = IN.inode[k] >> 8; vf_de[k][2] = IN.inode[k] >> 16; vf_de[k][3] = IN.inode[k] >> 24;
		vf_de[k][4] = 12; vf_de[k][5] = 0;
		vf_de[k][6] = IN.nlen[k]; vf_de[k][7] = IN.type[k];
		for (j = 0; j < 4; j++)
			vf_de[k][8 + j] = IN.name[k][j];
		vf_harray[k].dir = (struct ext2_dir_entry *) vf_de[k];
		vf_harray[k].ino = IN.inode[k];
		vf_harray[k].hash = IN.hash[k];
		vf_harray[k].minor_hash = IN.minor[k];
		for (j = 0; j < 12; j++)
			orig[k][j] = vf_de[k][j];
	}
	/* ASSUME: the array is sorted by the file's own hash_cmp with the same comparison context (the caller sorts before every search) */
	for (k = 0; k + 1 < NENT; k++)
		ASSUME(hash_cmp(&vf_harray[k], &vf_harray[k + 1], &cc) <= 0);
	fd = fdz;
	fd.harray = vf_harray;
	fd.num_array = NENT;
	fd.max_array = NENT;
	fd.inode = &vf_inode;
	fd.ctx = &vf_ctx;

	r = duplicate_search_and_fix(&vf_ctx, &vf_fs, 12, &fd, &cc);

	for (j = 0; j < 12; j++)
		PROP(vf_de[0][j] == orig[0][j], "the first entry of the sorted array is never touched");
	for (i = 1; i < NENT; i++) {
		int changed = 0, prev_kept_name, expect;
		__u32 ino_now = vf_de[i][0] | (vf_de[i][1] << 8) | (vf_de[i][2] << 16) | ((__u32) vf_de[i][3] << 24);
		for (j = 0; j < 12; j++)
			if (vf_de[i][j] != orig[i][j])
				changed = 1;
		prev_kept_name = (vf_de[i - 1][6] == orig[i - 1][6]);
		for (j = 0; j < 4; j++)
			if (vf_de[i - 1][8 + j] != orig[i - 1][8 + j])
				prev_kept_name = 0;
		expect = IN.inode[i] != 0 && prev_kept_name && ref_same(&orig[i][8], orig[i][6], &orig[i - 1][8], orig[i - 1][6]);
#if CF
		PROP(changed == expect, "casefolded directory: an entry is renamed / dropped iff its name equals its sorted neighbour's after folding");
#else
		PROP(changed == expect, "case-sensitive directory: an entry is renamed / dropped iff its name is byte-identical to its sorted neighbour's");
#endif
		if (!changed)
			continue;
		touched++;
		PROP(vf_de[i][4] == 12 && vf_de[i][5] == 0 && vf_de[i][7] == orig[i][7], "a touched entry keeps its record length and file type");
		if (ino_now == 0) {
			ndrop++;
			PROP(vf_de[i][6] == orig[i][6] && vf_de[i][8] == orig[i][8] && vf_de[i][9] == orig[i][9] &&
			     vf_de[i][10] == orig[i][10] && vf_de[i][11] == orig[i][11], "a dropped duplicate keeps its name");
		} else {
			nren++;
			PROP(ino_now == IN.inode[i], "a renamed entry keeps its inode");
			PROP(vf_de[i][6] >= 1 && vf_de[i][6] <= 4, "the new name fits the entry");
			for (k = 0; k < NENT; k++)
				if (k != i)
					PROP(!ref_same(&vf_de[i][8], vf_de[i][6], &vf_de[k][8], vf_de[k][6]),
					     "the new name differs from every other entry's name in the directory's sense");
			PROP(vf_harray[i].hash == ref_hash(&vf_de[i][8], vf_de[i][6]), "the hash of a renamed entry is recomputed from the new name");
		}
	}
	PROP(r == touched, "the return value is the number of entries fixed");
	PROP(vf_nfix == touched && vf_ndup_code == ndrop && vf_nuniq_code == nren && vf_other_code == 0,
	     "every drop goes through PR_2_DUPLICATE_DIRENT, every rename through PR_2_NON_UNIQUE_FILE, nothing else is asked");
	PROP(vf_nadj == ndrop && !vf_adj_bad && vf_nhash == nren, "the link count is adjusted by -1 exactly for dropped entries; one rehash per rename");
#if NENT == 2
	{
		__u32 i0 = IN.inode[0], i1 = vf_de[1][0] | (vf_de[1][1] << 8) | (vf_de[1][2] << 16) | ((__u32) vf_de[1][3] << 24);
		if (i0 && i1)
			PROP(!ref_same(&vf_de[0][8], vf_de[0][6], &vf_de[1][8], vf_de[1][6]), "afterwards the live names are different in the directory's sense");
	}
#endif
	VF_END();
	return 0;
}
