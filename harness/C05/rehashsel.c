/*
 * C05/rehashsel: protocol of the REAL e2fsck_rehash_dir() (rehash.c): which comparison the
 * rebuild uses and in which order the steps run.  A healthy case-sensitive directory on a
 * casefold-ENABLED filesystem must not have "README" and "readme" treated as duplicates.
 *
 * Heavy callees are recording stubs: ext2fs_block_iterate3 (delivers NUM entries and a symbolic
 * dir_size), qsort_r / qsort (record base, count, comparator, argument), and -- cut --
 * duplicate_search_and_fix, copy_dir_entries, calculate_tree, write_directory.
 * Asserted, for symbolic i_flags, fs->encoding present/absent, dir_index feature, ctx->options,
 * dir_size and duplicate-fix results:
 *  - the name comparison context handed to the sort AND to duplicate_search_and_fix is
 *    case-insensitive iff (fs->encoding != NULL and the inode has EXT4_CASEFOLD_FL), with the
 *    filesystem's table; both get the same context;
 *  - the sort is always hash_cmp (compressed directories carry hash 0, i.e. name order); in a
 *    compressed directory the first two slots (. and ..) stay in front; the by-inode sort is
 *    used exactly for a compressed directory that is going to be written;
 *  - compress is chosen iff no dir_index feature, or less than 2 blocks, or less than one block
 *    of entries (then the directory is re-read once);
 *  - order: read, sort, duplicate search (re-sort after every fix), then copy, tree (iff not
 *    compressed), write with the same compress flag; under -n nothing is copied or written.
 */
struct e2fsck_struct; struct struct_ext2_filsys; struct fill_dir_struct; struct name_cmp_ctx; struct out_dir; struct ext2_inode;
static int duplicate_search_and_fix(struct e2fsck_struct *ctx, struct struct_ext2_filsys *fs, unsigned int ino,
				    struct fill_dir_struct *fd, const struct name_cmp_ctx *cmp_ctx);
static long copy_dir_entries(struct e2fsck_struct *ctx, struct fill_dir_struct *fd, struct out_dir *outdir);
static long calculate_tree(struct struct_ext2_filsys *fs, struct out_dir *outdir, unsigned int ino, unsigned int parent, struct ext2_inode *inode);
static long write_directory(struct e2fsck_struct *ctx, struct struct_ext2_filsys *fs, struct out_dir *outdir, unsigned int ino,
			    struct ext2_inode *inode, int compress);
#include "e2fsck/rehash.c"

#define BS 64
#ifndef ISIZE
#define ISIZE 256
#endif
#define MAXARR (ISIZE / 32)

struct vf_in {
	__u32 i_flags, feature_compat, feature_incompat;
	int options;
	unsigned char have_encoding, num;
	__u32 dir_size;
	unsigned char dupfix[2];
};
VF_DECLARE_INPUT(struct vf_in, IN)
#include "vf_input.inc"

static struct e2fsck_struct vf_ctx;
static struct struct_ext2_filsys vf_fs;
static struct ext2_super_block vf_sb;
static char vf_encoding_obj;
static unsigned char vf_dirents[8][12] __attribute__((aligned(8)));

/* event log */
#define EV_READ 1
#define EV_SORT 2
#define EV_DUP 3
#define EV_INOSORT 4
#define EV_COPY 5
#define EV_TREE 6
#define EV_WRITE 7
#define MAXEV 16
static int vf_ev[MAXEV], vf_nev, vf_evoverflow;
static void vf_event(int e)
{
	int i;
	if (vf_nev >= MAXEV) { vf_evoverflow = 1; return; }
	for (i = 0; i < MAXEV; i++)
		if (i == vf_nev)
			vf_ev[i] = e;
	vf_nev++;
}
static int vf_nread, vf_ndup, vf_bad_ctx, vf_bad_sort, vf_compress_at_read[2], vf_write_compress = -1, vf_tree_calls;
static const void *vf_sort_arg;
static struct fill_dir_struct *vf_fd;

/* STUB: e2fsck_read_inode_full(): a directory inode of ISIZE bytes with symbolic flags */
void e2fsck_read_inode_full(e2fsck_t ctx, unsigned long ino, struct ext2_inode *inode, const int bufsize, const char *proc)
{
	static struct ext2_inode_large z;
	(void) ctx; (void) ino; (void) bufsize; (void) proc;
	*(struct ext2_inode_large *) inode = z;
	inode->i_size = ISIZE;
	inode->i_flags = IN.i_flags;
	inode->i_mode = 040755;
}
/* STUB: ext2fs_block_iterate3(): "reads the directory": IN.num entries (valid 12-byte dirents), symbolic dir_size; records compress at that time */
errcode_t ext2fs_block_iterate3(ext2_filsys fs, ext2_ino_t ino, int flags, char *block_buf,
				int (*func)(ext2_filsys, blk64_t *, e2_blkcnt_t, blk64_t, int, void *), void *priv)
{
	struct fill_dir_struct *fd = priv;
	int k;
	(void) fs; (void) ino; (void) flags; (void) block_buf;
	if (func != fill_dir_block)
		vf_bad_sort = 1;
	vf_fd = fd;
	if (vf_nread < 2)
		vf_compress_at_read[vf_nread] = fd->compress;
	vf_nread++;
	vf_event(EV_READ);
	for (k = 0; k < MAXARR && k < 8; k++)
		if (k < IN.num) {
			fd->harray[k].dir = (struct ext2_dir_entry *) vf_dirents[k];
			fd->harray[k].ino = k + 12;
			fd->harray[k].hash = 2 * k;
			fd->harray[k].minor_hash = 0;
		}
	fd->num_array = IN.num;
	fd->dir_size = IN.dir_size;
	return 0;
}
#ifndef VF_REPLAY
/* STUB: qsort_r() / qsort() record what they are asked to do and leave the order alone (the sort itself is libc's) */
void qsort_r(void *base, size_t nel, size_t width, int (*compar)(const void *, const void *, void *), void *arg)
{
	vf_event(EV_SORT);
	if (compar != (int (*)(const void *, const void *, void *)) hash_cmp || width != sizeof(struct hash_entry))
		vf_bad_sort = 1;
	if (vf_fd->compress && vf_fd->num_array > 1) {
		if (base != (void *) (vf_fd->harray + 2) || nel != vf_fd->num_array - 2)
			vf_bad_sort = 1;
	} else if (base != (void *) vf_fd->harray || nel != vf_fd->num_array)
		vf_bad_sort = 1;
	vf_sort_arg = arg;
}
void qsort(void *base, size_t nel, size_t width, int (*compar)(const void *, const void *))
{
	vf_event(EV_INOSORT);
	if (compar != ino_cmp || width != sizeof(struct hash_entry) || base != (void *) (vf_fd->harray + 2) || nel != vf_fd->num_array - 2)
		vf_bad_sort = 1;
}
char *gettext(const char *s) { return (char *) s; }
#endif
/* STUB: duplicate_search_and_fix() is cut (own harness: dupfix): checks the comparison context, reports "fixed" for the first two calls as IN says */
static int duplicate_search_and_fix(e2fsck_t ctx, ext2_filsys fs, ext2_ino_t ino, struct fill_dir_struct *fd, const struct name_cmp_ctx *cmp_ctx)
{
	int want = (IN.have_encoding & 1) && (IN.i_flags & EXT4_CASEFOLD_FL);
	int r = 0;
	(void) ctx; (void) fs; (void) ino; (void) fd;
	vf_event(EV_DUP);
	if ((cmp_ctx->casefold != 0) != want)
		vf_bad_ctx = 1;
	if (want && cmp_ctx->tbl != (const struct ext2fs_nls_table *) &vf_encoding_obj)
		vf_bad_ctx = 1;
#ifndef VF_REPLAY
	if (vf_sort_arg != (const void *) cmp_ctx)
		vf_bad_ctx = 1;
#endif
	if (vf_ndup < 2)
		r = IN.dupfix[vf_ndup] & 1;
	vf_ndup++;
	return r;
}
/* STUB: copy_dir_entries / calculate_tree / write_directory are cut (own harnesses: rebuild, C01 calctree): record and succeed */
static errcode_t copy_dir_entries(e2fsck_t ctx, struct fill_dir_struct *fd, struct out_dir *outdir)
{ (void) ctx; (void) fd; (void) outdir; vf_event(EV_COPY); return 0; }
static errcode_t calculate_tree(ext2_filsys fs, struct out_dir *outdir, ext2_ino_t ino, ext2_ino_t parent, struct ext2_inode *inode)
{ (void) fs; (void) outdir; (void) ino; (void) parent; (void) inode; vf_event(EV_TREE); vf_tree_calls++; return 0; }
static errcode_t write_directory(e2fsck_t ctx, ext2_filsys fs, struct out_dir *outdir, ext2_ino_t ino, struct ext2_inode *inode, int compress)
{ (void) ctx; (void) fs; (void) outdir; (void) ino; (void) inode; vf_event(EV_WRITE); vf_write_compress = compress; return 0; }
/* STUB: quota and extent-rebuild hooks after the write: succeed */
ext2_ino_t quota_type2inum(enum quota_type q, struct ext2_super_block *sb) { (void) q; (void) sb; return 0; }
void quota_data_sub(quota_ctx_t q, struct ext2_inode_large *i, ext2_ino_t ino, qsize_t s) { (void) q; (void) i; (void) ino; (void) s; }
errcode_t e2fsck_rebuild_extents_later(e2fsck_t ctx, ext2_ino_t ino) { (void) ctx; (void) ino; return 0; }
errcode_t e2fsck_check_rebuild_extents(e2fsck_t ctx, ext2_ino_t ino, struct ext2_inode *inode, struct problem_context *pctx)
{ (void) ctx; (void) ino; (void) inode; (void) pctx; return 0; }

int main(void)
{
	struct problem_context pctx;
	errcode_t r;
	int k, want_compress0, want_compress, i, p, nsort = 0, ndup = 0;

	VF_INPUT(IN);
	memset(&pctx, 0, sizeof(pctx));
	vf_fs.super = &vf_sb;
	vf_fs.blocksize = BS;
	vf_sb.s_feature_compat = IN.feature_compat;
	/* ASSUME: no inline-data directory (those are skipped at once) */
	vf_sb.s_feature_incompat = IN.feature_incompat & ~EXT4_FEATURE_INCOMPAT_INLINE_DATA;
	vf_sb.s_rev_level = 1; vf_sb.s_first_ino = 11;
	vf_fs.encoding = (IN.have_encoding & 1) ? (const struct ext2fs_nls_table *) &vf_encoding_obj : 0;
	vf_ctx.fs = &vf_fs;
	vf_ctx.options = IN.options;
	/* BOUND: directory inode of ISIZE bytes, block size 64; up to MAXARR entries */
	ASSUME(IN.num <= MAXARR && IN.num <= 8);
	for (k = 0; k < 8; k++) {	/* valid 12-byte dirents with distinct one-byte names */
		vf_dirents[k][0] = 20 + k; vf_dirents[k][4] = 12; vf_dirents[k][6] = 1; vf_dirents[k][8] = 'a' + k;
	}

	r = e2fsck_rehash_dir(&vf_ctx, 12, &pctx);

	PROP(r == 0, "e2fsck_rehash_dir succeeds when its steps do");
	PROP(!vf_evoverflow, "harness: event log large enough");
	PROP(!vf_bad_ctx, "names are compared case-insensitively iff the filesystem has an encoding AND the directory has EXT4_CASEFOLD_FL (same context for sort and duplicate search)");
#ifndef VF_REPLAY
	PROP(!vf_bad_sort, "the sort is hash_cmp over the whole array, or behind . and .. in a compressed directory; by-inode sort only behind . and ..");
#endif
	want_compress0 = !(IN.feature_compat & EXT2_FEATURE_COMPAT_DIR_INDEX) || (ISIZE / BS) < 2;
	want_compress = want_compress0 || IN.dir_size < BS - 24;
	PROP(vf_nread == ((!want_compress0 && want_compress) ? 2 : 1), "the directory is read once, or twice when it turns out to hold less than a block of entries");
	PROP(vf_compress_at_read[0] == want_compress0, "first read: compress iff no dir_index or fewer than 2 blocks");
	if (vf_nread == 2)
		PROP(vf_compress_at_read[1] == 1, "second read is in compress mode");
	/* order of events */
	p = 0;
	for (i = 0; i < MAXEV; i++) {
		int e;
		if (i >= vf_nev)
			break;
		e = vf_ev[i];
		if (e == EV_SORT) nsort++;
		if (e == EV_DUP) ndup++;
		if (e == EV_READ) PROP(p == 0 || p == EV_READ, "reads come first");
		if (e == EV_DUP) PROP(p == EV_SORT, "every duplicate search is preceded by a sort");
		if (e == EV_INOSORT || e == EV_COPY) PROP(p == EV_DUP || p == EV_INOSORT, "copy follows the last duplicate search (and the by-inode sort)");
		if (e == EV_TREE) PROP(p == EV_COPY, "tree follows copy");
		if (e == EV_WRITE) PROP(p == EV_COPY || p == EV_TREE, "write follows copy / tree");
		p = e;
	}
#ifndef VF_REPLAY
	PROP(nsort == ndup, "one sort per duplicate search");
#endif
	PROP(ndup == 1 + (IN.dupfix[0] & 1) + ((IN.dupfix[0] & 1) && (IN.dupfix[1] & 1)), "the duplicate search is repeated after every fix");
	if (IN.options & E2F_OPT_NO)
		PROP(vf_write_compress == -1 && p == EV_DUP, "-n: nothing is copied or written");
	else {
		PROP(p == EV_WRITE && vf_write_compress == want_compress, "the directory is written with the compress mode that was used to read it");
		PROP(vf_tree_calls == (want_compress ? 0 : 1), "the index tree is built iff the directory is not compressed");
	}
	VF_END();
	return 0;
}
