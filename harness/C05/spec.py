META = {
    "assumptions": ["allocation failure out of scope (--no-malloc-may-fail)"],
    "outside": ["whole-filesystem file preservation (paths, contents, attributes) across an e2fsck run",
                "htree index construction (calculate_tree), write_directory, extent rebuild, pass 5"],
}
HARNESSES = []
HARNESSES.append(
    dict(name="rebuild", src="rebuild.c", extra_src=["lib/ext2fs/dir_iterate.c"],
         funcs=["fill_dir_block", "copy_dir_entries", "get_next_block"],
         cut_statics={"e2fsck/rehash.c": ["alloc_size_dir"]},
         configs=[{"BLK": 32}, {"BLK": 36, "SWAP": None}, {"BLK": 32, "COMPRESS": None}, {"BLK": 48, "SWAP": None, "_tier": "thorough"}],
         unwind=4, unwindset=["ref_count.0:34", "ref_count.1:12", "fill_dir_block.0:7", "copy_dir_entries.0:6",
                              "main.0:42", "main.1:10", "main.2:10", "main.3:7", "main.4:7", "ext2fs_read_dir_block4.0:42",
                              "memcpy.0:36", "memset.0:42"],
         backends=["default", "kissat"],
         bound="one directory block of 40 bytes, every byte symbolic; slack percentage 0..100; one symbolic transposition of the entry array"))
HARNESSES.append(
    dict(name="fill", src="rebuild.c", extra_src=["lib/ext2fs/dir_iterate.c"],
         funcs=["fill_dir_block"],
         cut_statics={"e2fsck/rehash.c": ["alloc_size_dir"]},
         configs=[{"BLK": 48, "FILLONLY": None}, {"BLK": 48, "FILLONLY": None, "COMPRESS": None}, {"BLK": 64, "FILLONLY": None, "_tier": "thorough"}],
         unwind=4, unwindset=["ref_count.0:58", "ref_count.1:18", "fill_dir_block.0:10", "main.0:66", "main.1:10", "main.2:10",
                              "ext2fs_read_dir_block4.0:66"],
         backends=["default", "kissat"],
         bound="one directory block of 48 (thorough: 64) bytes, every byte symbolic; hash version and flags symbolic"))
MANIFEST = {
    "text": "Kernel-level slice (partial). Bounded-exhaustive on one fully symbolic directory block: fill_dir_block indexes exactly the live entries "
            "(minus . and .. in non-compress mode) with the right inode, size sum and parent; fill_dir_block -> copy_dir_entries preserves the multiset "
            "of (inode, type, name) for every slack percentage and entry order, and every output block is a tiling chain of valid entries. "
            "File preservation across a whole e2fsck run is outside.",
    "note": "Trusted: CBMC's C semantics; hash replaced by a deterministic stub (order only); alloc_size_dir cut to a static area; sorting between the "
            "two steps represented by one symbolic transposition (config SWAP).",
}
