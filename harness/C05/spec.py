META = {
    "assumptions": ["allocation failure out of scope (--no-malloc-may-fail)"],
    "outside": ["whole-filesystem file preservation (paths, contents, attributes) across an e2fsck run",
                "htree index construction (calculate_tree), write_directory, rewrite_extent_replay (writer side of the extent rebuild), pass 5",
                "check_dir_block on a healthy block: htree / checksummed / inline / encrypted / casefolded directories, names longer than 4 bytes, blocks above 56 bytes, "
                "subdirectories already met in an earlier block (dir_info parent pre-set), inodes flagged bad by pass 1",
                "check_ext_attr: EA-inode values (check_large_ea_inode cut), entry hash (stubbed as matching), blocks larger than 96 bytes / more than 3 entries"],
}
HARNESSES = []
HARNESSES.append(
    dict(name="rebuild", src="rebuild.c", extra_src=["lib/ext2fs/dir_iterate.c"],
         funcs=["fill_dir_block", "copy_dir_entries", "get_next_block"],
         cut_statics={"e2fsck/rehash.c": ["alloc_size_dir"]},
         configs=[{"BLK": 32, "SWAP": None}, {"BLK": 32, "COMPRESS": None}, {"BLK": 36, "SWAP": None, "_tier": "thorough"}, {"BLK": 48, "SWAP": None, "_tier": "thorough"}],
         unwind=4, unwindset=["ref_count.0:50", "ref_count.1:14", "fill_dir_block.0:8", "copy_dir_entries.0:7",
                              "main.0:50", "main.1:10", "main.2:10", "main.3:7", "main.4:7", "ext2fs_read_dir_block4.0:50",
                              "memcpy.0:50", "memset.0:50"],
         backends=["default", "kissat"], cap_quick=400,
         bound="one directory block of 40 bytes, every byte symbolic; slack percentage 0..100; one symbolic transposition of the entry array"))
HARNESSES.append(
    dict(name="fill", src="rebuild.c", extra_src=["lib/ext2fs/dir_iterate.c"],
         funcs=["fill_dir_block"],
         cut_statics={"e2fsck/rehash.c": ["alloc_size_dir"]},
         configs=[{"BLK": 48, "FILLONLY": None}, {"BLK": 48, "FILLONLY": None, "COMPRESS": None}, {"BLK": 64, "FILLONLY": None, "_tier": "thorough"}],
         unwind=4, unwindset=["ref_count.0:58", "ref_count.1:18", "fill_dir_block.0:10", "main.0:66", "main.1:10", "main.2:10",
                              "ext2fs_read_dir_block4.0:66"],
         backends=["default", "kissat"],
         bound="one directory block of 48 (thorough: 64) bytes, every byte symbolic; hash version and flags symbolic"))
HARNESSES.append(
    dict(name="extlist", src="extlist.c",
         funcs=["load_extents"],
         configs=[{"NEXT": 2}, {"NEXT": 3, "MAXLEN": 65536}, {"NEXT": 2, "WRAP": None}, {"NEXT": 3, "_tier": "thorough"}, {"NEXT": 4, "MAXLEN": 65536, "_tier": "thorough"}],
         unwind=6, unwindset=["main.%d:10" % i for i in range(6)] + ["vf_deliver.0:6", "ext2fs_block_alloc_stats2.0:6", "load_extents.0:7"],
         backends=["default", "kissat", "z3"],
         bound="a tree walk of 3 (thorough: 4) nodes, each a leaf extent (lblk < 2^32, pblk < 2^48, any 32-bit length, either state), an index node "
               "or a second visit; probe block symbolic"))
def EA_UW(k):
    # k entries: entry loop k+1, region list at most k value nodes + 1 table node
    return ["main.0:130", "ext2fs_read_ext_attr3.0:130", "ref_parse.0:8", "ref_parse.1:8", "ref_parse.2:26", "ref_parse.3:8", "ref_parse.4:8",
            "check_ext_attr.0:%d" % (k + 2), "inc_ea_inode_refs.0:%d" % (k + 2), "region_allocate.0:%d" % (k + 3), "region_free.0:%d" % (k + 3)]
HARNESSES.append(
    dict(name="eablock", src="eablock.c", extra_src=["e2fsck/region.c", "lib/ext2fs/blknum.c"],
         funcs=["check_ext_attr", "region_create", "region_allocate", "region_free", "inc_ea_inode_refs", "mark_block_used"],
         cut_statics={"e2fsck/pass1.c": ["check_large_ea_inode"]},
         cbmc_flags=["--object-bits", "10"],
         configs=[{"BS": 72}, {"BS": 72, "OVERLAP": None}, {"BS": 96, "_tier": "thorough", "_unwindset": EA_UW(3)}, {"BS": 96, "OVERLAP": None, "_tier": "thorough", "_unwindset": EA_UW(3)}],
         unwind=7, unwindset=EA_UW(2),
         backends=["default", "kissat"],
         bound="xattr block of 72 (thorough: 96) bytes, every byte symbolic under the well-formedness predicate; up to 2 (3) entries"))
import importlib.util as _ilu, os as _os
def _extwrite():
    """rewrite_extent_replay() -- the writer half of the extent-tree rebuild (source harness/C01/extwrite.c): the tree written back
    maps every logical block exactly as the list built by load_extents does (harness extlist decides the reader half)"""
    p = _os.path.join(_os.path.dirname(_os.path.abspath(__file__)), "..", "C01", "spec.py")
    sp = _ilu.spec_from_file_location("spec_C01_for_C05", p)
    m = _ilu.module_from_spec(sp)
    sp.loader.exec_module(m)
    for h in m.HARNESSES:
        if h["name"] == "extwrite":
            d = dict(h)
            d["src"] = "../C01/extwrite.c"
            d["configs"] = [c for c in h["configs"] if c.get("_tier") != "thorough"]
            return [d]
    raise RuntimeError("C01 extwrite harness missing")
HARNESSES += _extwrite()

HARNESSES.append(
    dict(name="rehashsel", src="rehashsel.c",
         funcs=["e2fsck_rehash_dir", "free_out_dir"],
         cut_statics={"e2fsck/rehash.c": ["duplicate_search_and_fix", "copy_dir_entries", "calculate_tree", "write_directory"]},
         configs=[{"ISIZE": 256}, {"ISIZE": 64}],
         unwind=5, unwindset=["main.0:10", "main.1:10", "main.2:18", "main.3:18", "vf_event.0:18", "ext2fs_block_iterate3.0:10", "e2fsck_rehash_dir.0:4", "e2fsck_rehash_dir.1:5"],
         backends=["default", "kissat"],
         bound="directory of 256 / 64 bytes at block size 64, up to 8 / 2 entries; i_flags, features, options, encoding present/absent, dir_size, "
               "duplicate-fix results symbolic"))
def DF_UW(n):
    return ["main.%d:14" % i for i in range(12)] + ["ref_same.0:6", "ref_hash.0:6", "ext2fs_casefold_cmp.0:6", "__ctype_b_loc.0:12",
            "duplicate_search_and_fix.0:%d" % (n * n + 2), "duplicate_search_and_fix.1:%d" % (n + 1), "mutate_name.0:6", "mutate_name.1:6",
            "memcmp.0:6", "memcpy.0:6"]
HARNESSES.append(
    dict(name="dupfix", src="dupfix.c",
         funcs=["duplicate_search_and_fix", "same_name", "mutate_name", "hash_cmp", "name_cmp", "name_cf_cmp"],
         configs=[{"NENT": 2, "CF": 0, "_unwindset": DF_UW(2)}, {"NENT": 2, "CF": 1, "_unwindset": DF_UW(2)},
                  {"NENT": 3, "CF": 0, "_unwindset": DF_UW(3), "_tier": "thorough"}, {"NENT": 3, "CF": 1, "_unwindset": DF_UW(3), "_tier": "thorough"}],
         unwind=6, backends=["default", "kissat"],
         bound="2 / 3 entries, names of 1..4 symbolic bytes, inode, type, hashes symbolic; case-sensitive and casefolded directory"))
CT_GROW_UW = ["main.%d:2000" % i for i in range(5)] + ["alloc_size_dir.0:2000", "alloc_size_dir.1:60", "ref_hash_of_leaf.0:60",
              "calculate_tree.0:60", "calculate_tree.1:60", "calculate_tree.2:60"]
HARNESSES.append(
    dict(name="calctree", src="calctree.c", extra_src=["lib/ext2fs/dir_iterate.c"],
         funcs=["calculate_tree", "alloc_blocks", "set_root_node", "set_int_node", "get_next_block"],
         cut_statics={"e2fsck/rehash.c": ["alloc_size_dir"]},
         cbmc_flags=["--max-field-sensitivity-array-size", "8192"],
         configs=[{"NLEAF": n, "GROW": None, "_unwindset": CT_GROW_UW} for n in (5, 29)],
         unwind=9, unwindset=["main.0:60", "main.1:60", "main.2:9", "ref_hash_of_leaf.0:60", "calculate_tree.0:60", "calculate_tree.1:60", "calculate_tree.2:60"],
         backends=["default", "kissat"],
         bound="mirror of C01 calctree, GROW configs only: block size 64, 5 (two-level) and 29 (three-level) leaves, the output area is exactly root + leaves "
               "and is MOVED (old area poisoned with 0xA5) when the first interior node is appended; the rebuilt directory keeps its index: root count/limit "
               "correct in the NEW area, every leaf reachable once and in order, nothing written into the released area"))
HARNESSES.append(
    dict(name="dirhealthy", src="dirhealthy.c", extra_src=["lib/ext2fs/dir_iterate.c"],
         funcs=["check_dir_block", "check_dot", "check_dotdot", "check_name", "check_filetype", "dict_de_cmp", "ext2fs_get_rec_len"],
         configs=[{"BLK": 36, "BLOCKCNT": 0, "FT": 1}, {"BLK": 48, "BLOCKCNT": 0, "FT": 1}, {"BLK": 48, "BLOCKCNT": 1, "FT": 1},
                  {"BLK": 56, "BLOCKCNT": 1, "FT": 0}, {"BLK": 56, "BLOCKCNT": 0, "FT": 1, "_tier": "thorough"}],
         unwind=6, unwindset=["main.%d:60" % i for i in range(4)] + ["ext2fs_read_dir_block4.0:60", "vf_kind.0:9", "e2fsck_read_inode.0:9"] +
                             ["ref_healthy.%d:16" % i for i in range(10)] + ["check_dir_block.0:6", "check_name.0:6", "memcmp.0:6"],
         backends=["default", "kissat"], cap_quick=300,
         bound="one HEALTHY directory block of 36 / 48 / 56 bytes (up to 4 entries), every byte symbolic under the well-formedness predicate; block 0 "
               "(with . and ..) and a later block; with and without the filetype feature; live names of 1..4 arbitrary bytes; inode numbers, counts, "
               "quota inode numbers and pass 1's per-inode knowledge (in use / type) symbolic"))
MANIFEST = {
    "text": "Kernel-level slice (partial). Bounded-exhaustive on one fully symbolic directory block: fill_dir_block indexes exactly the live entries "
            "(minus . and .. in non-compress mode) with the right inode, size sum and parent; fill_dir_block -> copy_dir_entries preserves the multiset "
            "of (inode, type, name) for every slack percentage and entry order, and every output block is a tiling chain of valid entries. "
            "The hash algorithm/seed/name handed to ext2fs_dirhash2 are the format's (unsigned variant iff flagged). load_extents (extent rebuild) keeps every "
            "logical block's physical block and initialised/uninitialised state for a 2-3 node walk with a symbolic probe block. check_ext_attr with the real "
            "region accounting keeps every well-formed 72-byte xattr block (no problem, i_file_acl kept) and reports every value overlap. "
            "duplicate_search_and_fix renames / drops an entry only when it is a duplicate in the directory's own sense (byte-identical without "
            "EXT4_CASEFOLD_FL), and e2fsck_rehash_dir installs the case-insensitive comparison iff the filesystem has an encoding AND the directory has the flag. "
            "check_dir_block (pass 2) on one healthy plain directory block of up to 56 bytes (block 0 and later blocks, with/without filetype) raises no problem "
            "at all, does not modify or write the block and counts every live entry exactly once (icount, subdirectory parent, ..). "
            "File preservation across a whole e2fsck run is outside.",
    "note": "Trusted: CBMC's C semantics; hash replaced by a deterministic stub (order only); alloc_size_dir cut to a static area; sorting between the "
            "two steps represented by one symbolic transposition (config SWAP).",
}
