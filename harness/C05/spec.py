META = {
    "assumptions": ["allocation failure out of scope (--no-malloc-may-fail)"],
    "outside": ["whole-filesystem file preservation (paths, contents, attributes) across an e2fsck run",
                "htree index construction (calculate_tree), write_directory, rewrite_extent_replay (writer side of the extent rebuild), pass 5",
                "check_ext_attr: EA-inode values (check_large_ea_inode cut), entry hash (stubbed as matching), blocks larger than 96 bytes / more than 3 entries"],
}
HARNESSES = []
HARNESSES.append(
    dict(name="rebuild", src="rebuild.c", extra_src=["lib/ext2fs/dir_iterate.c"],
         funcs=["fill_dir_block", "copy_dir_entries", "get_next_block"],
         cut_statics={"e2fsck/rehash.c": ["alloc_size_dir"]},
         configs=[{"BLK": 32}, {"BLK": 36, "SWAP": None}, {"BLK": 32, "COMPRESS": None}, {"BLK": 48, "SWAP": None, "_tier": "thorough"}],
         unwind=4, unwindset=["ref_count.0:50", "ref_count.1:14", "fill_dir_block.0:8", "copy_dir_entries.0:7",
                              "main.0:50", "main.1:10", "main.2:10", "main.3:7", "main.4:7", "ext2fs_read_dir_block4.0:50",
                              "memcpy.0:50", "memset.0:50"],
         backends=["default", "kissat"], cap_quick=400,
         bound="one directory block of 40 bytes, every byte symbolic; slack percentage 0..100; one symbolic transposition of the entry array"))
HARNESSES.append(
    dict(name="fill", src="rebuild.c", extra_src=["lib/ext2fs/dir_iterate.c"],
         funcs=["fill_dir_block"],
         cut_statics={"e2fsck/rehash.c": ["alloc_size_dir"]},
         configs=[{"BLK": 48, "FILLONLY": None}, {"BLK": 48, "FILLONLY": None, "COMPRESS": None}, {"BLK": 64, "FILLONLY": None, "_tier": "thorough"}],
         unwind=4, unwindset=["ref_count.0:58", "ref_count.1:18", "fill_dir_block.0:10", "main.0:66", "main.1:10", "main.2:10",
                              "ext2fs_read_dir_block4.0:66"],
         backends=["default", "kissat"],
         bound="one directory block of 48 (thorough: 64) bytes, every byte symbolic; hash version and flags symbolic"))
HARNESSES.append(
    dict(name="extlist", src="extlist.c",
         funcs=["load_extents"],
         configs=[{"NEXT": 2}, {"NEXT": 3, "MAXLEN": 65536}, {"NEXT": 2, "WRAP": None}, {"NEXT": 3, "_tier": "thorough"}, {"NEXT": 4, "MAXLEN": 65536, "_tier": "thorough"}],
         unwind=6, unwindset=["main.%d:10" % i for i in range(6)] + ["vf_deliver.0:6", "ext2fs_block_alloc_stats2.0:6", "load_extents.0:7"],
         backends=["default", "kissat", "z3"],
         bound="a tree walk of 3 (thorough: 4) nodes, each a leaf extent (lblk < 2^32, pblk < 2^48, any 32-bit length, either state), an index node "
               "or a second visit; probe block symbolic"))
def EA_UW(k):
    # k entries: entry loop k+1, region list at most k value nodes + 1 table node
    return ["main.0:130", "ext2fs_read_ext_attr3.0:130", "ref_parse.0:8", "ref_parse.1:8", "ref_parse.2:26", "ref_parse.3:8", "ref_parse.4:8",
            "check_ext_attr.0:%d" % (k + 2), "inc_ea_inode_refs.0:%d" % (k + 2), "region_allocate.0:%d" % (k + 3), "region_free.0:%d" % (k + 3)]
HARNESSES.append(
    dict(name="eablock", src="eablock.c", extra_src=["e2fsck/region.c", "lib/ext2fs/blknum.c"],
         funcs=["check_ext_attr", "region_create", "region_allocate", "region_free", "inc_ea_inode_refs", "mark_block_used"],
         cut_statics={"e2fsck/pass1.c": ["check_large_ea_inode"]},
         cbmc_flags=["--object-bits", "10"],
         configs=[{"BS": 72}, {"BS": 72, "OVERLAP": None}, {"BS": 96, "_tier": "thorough", "_unwindset": EA_UW(3)}, {"BS": 96, "OVERLAP": None, "_tier": "thorough", "_unwindset": EA_UW(3)}],
         unwind=7, unwindset=EA_UW(2),
         backends=["default", "kissat"],
         bound="xattr block of 72 (thorough: 96) bytes, every byte symbolic under the well-formedness predicate; up to 2 (3) entries"))
import importlib.util as _ilu, os as _os
def _extwrite():
    """rewrite_extent_replay() -- the writer half of the extent-tree rebuild (source harness/C01/extwrite.c): the tree written back
    maps every logical block exactly as the list built by load_extents does (harness extlist decides the reader half)"""
    p = _os.path.join(_os.path.dirname(_os.path.abspath(__file__)), "..", "C01", "spec.py")
    sp = _ilu.spec_from_file_location("spec_C01_for_C05", p)
    m = _ilu.module_from_spec(sp)
    sp.loader.exec_module(m)
    for h in m.HARNESSES:
        if h["name"] == "extwrite":
            d = dict(h)
            d["src"] = "../C01/extwrite.c"
            d["configs"] = [c for c in h["configs"] if c.get("_tier") != "thorough"]
            return [d]
    raise RuntimeError("C01 extwrite harness missing")
HARNESSES += _extwrite()

MANIFEST = {
    "text": "Kernel-level slice (partial). Bounded-exhaustive on one fully symbolic directory block: fill_dir_block indexes exactly the live entries "
            "(minus . and .. in non-compress mode) with the right inode, size sum and parent; fill_dir_block -> copy_dir_entries preserves the multiset "
            "of (inode, type, name) for every slack percentage and entry order, and every output block is a tiling chain of valid entries. "
            "The hash algorithm/seed/name handed to ext2fs_dirhash2 are the format's (unsigned variant iff flagged). load_extents (extent rebuild) keeps every "
            "logical block's physical block and initialised/uninitialised state for a 2-3 node walk with a symbolic probe block. check_ext_attr with the real "
            "region accounting keeps every well-formed 72-byte xattr block (no problem, i_file_acl kept) and reports every value overlap. "
            "File preservation across a whole e2fsck run is outside.",
    "note": "Trusted: CBMC's C semantics; hash replaced by a deterministic stub (order only); alloc_size_dir cut to a static area; sorting between the "
            "two steps represented by one symbolic transposition (config SWAP).",
}
