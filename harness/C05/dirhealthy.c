/*
 * C05/dirhealthy: the REAL check_dir_block() (pass2.c; with check_dot, check_dotdot, check_name,
 * check_filetype, dict_de_cmp) on ONE HEALTHY directory block in a repairing run.
 *
 * The BLK bytes of the block are symbolic under an independent well-formedness predicate written
 * from the on-disk format (ref_healthy): the rec_len chain tiles the block, every name fits its
 * record, live entries name an inode that is in range, in use and of the type recorded in the
 * entry, block 0 starts with "." (own inode) and ".." and no other entry is called "." or "..",
 * no entry links the directory itself or the root, names have no '/' or NUL, no two live entries
 * carry the same name, no subdirectory is linked twice.
 * PROP: fix_problem() is never called (no problem code whatsoever), the block is neither modified
 * nor written, the file system is not marked changed / invalid, the pass is not aborted, and the
 * link-count bookkeeping sees every live entry exactly once, in order (icount increment per entry,
 * fs_total_count, parent of every subdirectory, ".." of the directory itself).
 */
#include "e2fsck/pass2.c"
#include "env.c"

#ifndef BLK
#define BLK 36
#endif
#ifndef BLOCKCNT
#define BLOCKCNT 0
#endif
#ifndef FT
#define FT 1
#endif
#define MAXE 4		/* BOUND: at most BLK/12 = 4 entries */
#define NPOS (BLK / 4)

struct vf_in {
	unsigned char buf[BLK];
	__u32 ino, inodes_count, first_ino, q_usr, q_grp, q_prj, q_orph;
	unsigned char kind[8];
};
VF_DECLARE_INPUT(struct vf_in, IN)
#include "vf_input.inc"

static struct e2fsck_struct vf_ctx;
static struct struct_ext2_filsys vf_fs;
static struct ext2_super_block vf_sb;
static unsigned char vf_buf[2 * BLK + 8] __attribute__((aligned(8)));
static int vf_nwrite;
static unsigned int vf_code;
static char vf_usedmap, vf_dirmap, vf_regmap, vf_badmap, vf_bbmap;
static unsigned int vf_nic, vf_ic[MAXE];			/* log of ext2fs_icount_increment */
static unsigned int vf_nsp, vf_spc[MAXE], vf_spp[MAXE];	/* log of e2fsck_dir_info_set_parent */
static unsigned int vf_ndd, vf_ddi, vf_ddp;			/* log of e2fsck_dir_info_set_dotdot */
static unsigned int vf_ndk;
static const void *vf_dk[MAXE];
static dict_comp_t vf_dcmp;

/* what pass 1 learned about inode `ino`: 0 = not in use, else its EXT2_FT_* type (1 reg, 2 dir, 3 chr, 4 blk, 5 fifo, 6 sock, 7 symlink) */
/* BOUND: the pass-1 knowledge is a symbolic function of the low 3 bits of the inode number */
static unsigned int vf_kind(unsigned int ino)
{
	unsigned int p, k = 0;
	for (p = 0; p < 8; p++)
		if (p == (ino & 7))
			k = IN.kind[p] & 7;
	return k;
}

/* STUB: fix_problem(): a call is the violation; the path ends there (a repairing run would answer yes) */
int fix_problem(e2fsck_t ctx, problem_t code, struct problem_context *pctx)
{
	(void) ctx; (void) pctx;
	vf_code = code;
#ifdef VF_REPLAY
	fprintf(stderr, "fix_problem(0x%06x) called on a healthy block\n", (unsigned) code);
#endif
	PROP(0, "fix_problem is never called for a healthy directory block");
	__CPROVER_assume(0);
	return 1;
}
/* STUB: ext2fs_test_generic_bmap(): pass-1 maps answer from the symbolic per-inode knowledge; bad-inode and bad-block-inode maps exist and are empty; absent maps test 0 */
int ext2fs_test_generic_bmap(ext2fs_generic_bitmap bmap, __u64 arg)
{
	if ((void *) bmap == (void *) &vf_usedmap)
		return vf_kind((unsigned int) arg) != 0;
	if ((void *) bmap == (void *) &vf_dirmap)
		return vf_kind((unsigned int) arg) == 2;
	if ((void *) bmap == (void *) &vf_regmap)
		return vf_kind((unsigned int) arg) == 1;
	return 0;
}
/* STUB: e2fsck_read_inode() delivers the mode of the inode's type (S_IFxxx from the format) */
void e2fsck_read_inode(e2fsck_t ctx, unsigned long ino, struct ext2_inode *inode, const char *proc)
{
	static const __u16 m[8] = { 0, 0100000, 0040000, 0020000, 0060000, 0010000, 0140000, 0120000 };
	unsigned int p, k = vf_kind((unsigned int) ino);
	(void) ctx; (void) proc;
	inode->i_mode = 0;
	for (p = 0; p < 8; p++)
		if (p == k)
			inode->i_mode = m[p] | 0644;
}
/* STUB: ext2_file_type() (e2fsck/util.c) by the S_IFMT table */
int ext2_file_type(unsigned int mode)
{
	switch (mode & 0170000) {
	case 0100000: return 1;
	case 0040000: return 2;
	case 0020000: return 3;
	case 0060000: return 4;
	case 0010000: return 5;
	case 0140000: return 6;
	case 0120000: return 7;
	}
	return 0;
}
/* STUB: ext2fs_read_dir_block4() delivers the symbolic block */
errcode_t ext2fs_read_dir_block4(ext2_filsys fs, blk64_t block, void *buf, int flags, ext2_ino_t ino)
{
	int i;
	(void) fs; (void) block; (void) flags; (void) ino;
	for (i = 0; i < BLK; i++)
		((unsigned char *) buf)[i] = IN.buf[i];
	return 0;
}
/* STUB: ext2fs_write_dir_block4() counts writes */
errcode_t ext2fs_write_dir_block4(ext2_filsys fs, blk64_t block, void *buf, int flags, ext2_ino_t ino)
{ (void) fs; (void) block; (void) buf; (void) flags; (void) ino; vf_nwrite++; return 0; }
/* STUB: no htree info, no encryption policy, directory not queued for rehash, error-handler context ignored */
struct dx_dir_info *e2fsck_get_dx_dir_info(e2fsck_t ctx, ext2_ino_t ino) { (void) ctx; (void) ino; return 0; }
__u32 find_encryption_policy(e2fsck_t ctx, ext2_ino_t ino) { (void) ctx; (void) ino; return NO_ENCRYPTION_POLICY; }
int e2fsck_dir_will_be_rehashed(e2fsck_t ctx, ext2_ino_t ino) { (void) ctx; (void) ino; return 0; }
void e2fsck_rehash_dir_later(e2fsck_t ctx, ext2_ino_t ino) { (void) ctx; (void) ino; PROP(0, "a healthy directory is not queued for rehash"); }
const char *ehandler_operation(const char *op) { (void) op; return 0; }
/* STUB: duplicate-name dictionary as a list of at most 4 keys searched with the REAL comparison function handed to dict_init (dict_de_cmp) */
dict_t *dict_init(dict_t *d, dictcount_t m, dict_comp_t c) { (void) m; vf_dcmp = c; vf_ndk = 0; return d; }
void dict_set_cmp_context(dict_t *d, const void *c) { (void) d; (void) c; }
dnode_t *dict_lookup(dict_t *d, const void *k)
{
	static dnode_t node;
	unsigned int p;
	(void) d;
	PROP(vf_dcmp == dict_de_cmp, "a plain directory uses the byte-wise name comparison");
	for (p = 0; p < MAXE; p++)
		if (p < vf_ndk && dict_de_cmp(0, k, vf_dk[p]) == 0)
			return &node;
	return 0;
}
int dict_alloc_insert(dict_t *d, const void *k, void *v)
{
	unsigned int p;
	(void) d; (void) v;
	PROP(vf_ndk < MAXE, "harness: dictionary capacity");
	for (p = 0; p < MAXE; p++)
		if (p == vf_ndk)
			vf_dk[p] = k;
	vf_ndk++;
	return 1;
}
void dict_free_nodes(dict_t *d) { (void) d; }
/* STUB: ext2fs_icount_increment() logs the inode; every inode's count stays 1 */
errcode_t ext2fs_icount_increment(ext2_icount_t ic, ext2_ino_t ino, __u16 *ret)
{
	unsigned int p;
	(void) ic;
	for (p = 0; p < MAXE; p++)
		if (p == vf_nic)
			vf_ic[p] = ino;
	vf_nic++;
	if (ret)
		*ret = 1;
	return 0;
}
/* STUB: dir_info: set_dotdot / set_parent are logged; get_parent answers what this block pass recorded, else 0 */
/* ASSUME: no subdirectory named in this block has been met in an earlier block (its recorded parent is still 0) */
int e2fsck_dir_info_set_dotdot(e2fsck_t ctx, ext2_ino_t ino, ext2_ino_t dotdot)
{ (void) ctx; vf_ndd++; vf_ddi = ino; vf_ddp = dotdot; return 0; }
int e2fsck_dir_info_get_parent(e2fsck_t ctx, ext2_ino_t ino, ext2_ino_t *parent)
{
	unsigned int p;
	(void) ctx;
	*parent = 0;
	for (p = 0; p < MAXE; p++)
		if (p < vf_nsp && vf_spc[p] == ino)
			*parent = vf_spp[p];
	return 0;
}
int e2fsck_dir_info_set_parent(e2fsck_t ctx, ext2_ino_t ino, ext2_ino_t parent)
{
	unsigned int p;
	(void) ctx;
	for (p = 0; p < MAXE; p++)
		if (p == vf_nsp) {
			vf_spc[p] = ino;
			vf_spp[p] = parent;
		}
	vf_nsp++;
	return 0;
}
/* STUB: group descriptor flags: nothing uninitialised, no unused inode-table tail */
__u32 ext2fs_bg_itable_unused(ext2_filsys fs, dgrp_t group) { (void) fs; (void) group; return 0; }
int ext2fs_bg_flags_test(ext2_filsys fs, dgrp_t group, __u16 f) { (void) fs; (void) group; (void) f; return 0; }
/* STUB: fatal_error() ends the path */
void fatal_error(e2fsck_t ctx, const char *msg) { (void) ctx; (void) msg; PROP(0, "fatal_error is not reached for a healthy block"); __CPROVER_assume(0); }
#ifndef VF_REPLAY
char *gettext(const char *s) { return (char *) s; }
/* STUB: memcmp() as a bounded byte loop (names are at most 4 bytes) */
int memcmp(const void *a, const void *b, size_t n)
{
	size_t i;
	PROP(n <= 5, "harness: memcmp length within the bound of the byte loop");
	for (i = 0; i < 5; i++)
		if (i < n && ((const unsigned char *) a)[i] != ((const unsigned char *) b)[i])
			return ((const unsigned char *) a)[i] < ((const unsigned char *) b)[i] ? -1 : 1;
	return 0;
}
#endif

/* ---- independent model: what a healthy directory block is, from the on-disk format ---- */
static unsigned int ref_n, ref_ino[MAXE];	/* inodes of the live entries in block order */
static unsigned int ref_nsub, ref_sub[MAXE];	/* subdirectories linked from this block, in order */
static unsigned int ref_dotdot;
static unsigned char ref_ent[NPOS], ref_live[NPOS], ref_plain[NPOS];

static unsigned int ref_le32(const unsigned char *p) { return p[0] | (p[1] << 8) | (p[2] << 16) | ((unsigned int) p[3] << 24); }

static int ref_ino_ok(unsigned int ino)
{
	if (ino != 2 && ino < IN.first_ino)		/* reserved inodes other than the root are never linked */
		return 0;
	if (ino > IN.inodes_count)
		return 0;
	if (ino == IN.q_usr || ino == IN.q_grp || ino == IN.q_prj || ino == IN.q_orph)
		return 0;
	return vf_kind(ino) != 0;			/* in use */
}

static int ref_healthy(const unsigned char *b)
{
	unsigned int o, o2, next = 0, idx = 0, rl, nl, ft, ino, i, p, kind;
	int ok = 1, same;

	for (o = 0; o + 12 <= BLK; o += 4) {
		if (o != next)
			continue;
		ino = ref_le32(b + o);
		rl = b[o + 4] | (b[o + 5] << 8);
		nl = b[o + 6];
		ft = b[o + 7];
		if (rl < 12 || (rl & 3) || o + rl > BLK || ((8 + nl + 3) & ~3u) > rl)
			ok = 0;
		if (!ok)
			break;
		next = o + rl;
		ref_ent[o / 4] = 1;
		if (BLOCKCNT == 0 && idx == 0) {
			/* "." : own inode, NUL padded; e2fsck wants the record no longer than 24 bytes */
			if (ino != IN.ino || nl != 1 || b[o + 8] != '.' || b[o + 9] != 0 || rl > 24)
				ok = 0;
		} else if (BLOCKCNT == 0 && idx == 1) {
			/* ".." : NUL padded, names some directory */
			if (ino == 0 || nl != 2 || b[o + 8] != '.' || b[o + 9] != '.' || b[o + 10] != 0)
				ok = 0;
			ref_dotdot = ino;
		} else if (ino) {
			ref_plain[o / 4] = 1;
			/* BOUND: names of live entries have 1..4 bytes */
			if (nl < 1 || nl > 4)
				ok = 0;
			for (i = 0; i < 4; i++)
				if (i < nl && (b[o + 8 + i] == '/' || b[o + 8 + i] == 0))
					ok = 0;
			if (nl == 1 && b[o + 8] == '.')
				ok = 0;
			if (nl == 2 && b[o + 8] == '.' && b[o + 9] == '.')
				ok = 0;
			if (ino == IN.ino || ino == 2)		/* no hard link to the directory itself or to the root */
				ok = 0;
		}
		if (ino) {
			ref_live[o / 4] = 1;
			kind = vf_kind(ino);
			if (!ref_ino_ok(ino))
				ok = 0;
			if (ft != (FT ? kind : 0))		/* file type byte: the inode's type, or 0 without the feature */
				ok = 0;
			if (BLOCKCNT == 0 && idx < 2 && kind != 2)
				ok = 0;
			for (p = 0; p < MAXE; p++)
				if (p == ref_n)
					ref_ino[p] = ino;
			ref_n++;
			if (ref_plain[o / 4] && kind == 2) {
				for (p = 0; p < MAXE; p++)
					if (p == ref_nsub)
						ref_sub[p] = ino;
				ref_nsub++;
			}
		}
		idx++;
	}
	if (next != BLK)
		ok = 0;
	if (!ok)
		return 0;
	/* no two live entries with the same name; no directory linked twice */
	for (o = 0; o + 12 <= BLK; o += 4)
		for (o2 = o + 12; o2 + 12 <= BLK; o2 += 4) {
			if (!ref_ent[o / 4] || !ref_ent[o2 / 4] || !ref_live[o / 4] || !ref_live[o2 / 4])
				continue;
			same = b[o + 6] == b[o2 + 6];
			for (i = 0; i < 4; i++)
				if (i < b[o + 6] && b[o + 8 + i] != b[o2 + 8 + i])
					same = 0;
			if (same)
				ok = 0;
			if (ref_plain[o / 4] && ref_plain[o2 / 4] && ref_le32(b + o) == ref_le32(b + o2) &&
			    vf_kind(ref_le32(b + o)) == 2)
				ok = 0;
		}
	return ok;
}

int main(void)
{
	struct check_dir_struct cd;
	struct ext2_db_entry2 db;
	static struct check_dir_struct cdz;
	int i, r;
	unsigned int p;

	VF_INPUT(IN);
	vf_fs.super = &vf_sb;
	vf_fs.blocksize = BLK;
	vf_fs.flags = EXT2_FLAG_VALID;
	vf_sb.s_inodes_count = IN.inodes_count;
	vf_sb.s_first_ino = IN.first_ino;
	vf_sb.s_usr_quota_inum = IN.q_usr;
	vf_sb.s_grp_quota_inum = IN.q_grp;
	vf_sb.s_prj_quota_inum = IN.q_prj;
	vf_sb.s_orphan_file_inum = IN.q_orph;
	vf_sb.s_rev_level = 1;
	vf_sb.s_inodes_per_group = 0x10000;
	/* ASSUME: plain leaf block with or without the filetype feature: no metadata_csum, inline_data, largedir, casefold, encryption, htree index */
#if FT
	vf_sb.s_feature_incompat = EXT2_FEATURE_INCOMPAT_FILETYPE;
#endif
	/* BOUND: at most 65535 inodes (one group), first non-reserved inode 3..; the directory is a used directory in range */
	ASSUME(IN.inodes_count <= 0xffff && IN.first_ino >= 3 && IN.first_ino <= IN.inodes_count);
	ASSUME(IN.ino >= 2 && ref_ino_ok(IN.ino) && vf_kind(IN.ino) == 2);
	/* ASSUME: no inode is flagged bad by pass 1 or lies in a bad block, no EA-inode reference table, no pending restart */
	vf_ctx.fs = &vf_fs;
	vf_ctx.inode_used_map = (ext2fs_inode_bitmap) &vf_usedmap;
	vf_ctx.inode_dir_map = (ext2fs_inode_bitmap) &vf_dirmap;
	vf_ctx.inode_reg_map = (ext2fs_inode_bitmap) &vf_regmap;
	vf_ctx.inode_bad_map = (ext2fs_inode_bitmap) &vf_badmap;
	vf_ctx.inode_bb_map = (ext2fs_inode_bitmap) &vf_bbmap;
	cd = cdz;
	cd.buf = (char *) vf_buf;
	cd.ctx = &vf_ctx;
	db.ino = IN.ino;
	db.blk = 100;
	db.blockcnt = BLOCKCNT;

	/* ASSUME: the block is healthy in the sense of ref_healthy() */
	ASSUME(ref_healthy(IN.buf));

	r = check_dir_block(&vf_fs, &db, &cd);

	PROP(r == 0 && vf_ctx.flags == 0, "a healthy block does not abort or restart the pass");
	PROP(vf_nwrite == 0, "a healthy block is never written");
	PROP(vf_fs.flags == EXT2_FLAG_VALID, "a healthy block leaves the file system unchanged and valid");
	for (i = 0; i < BLK; i++)
		PROP(vf_buf[i] == IN.buf[i], "a healthy block's buffer is not modified");
	PROP(vf_nic == ref_n && vf_ctx.fs_total_count == ref_n && vf_ctx.fs_links_count == 0,
	     "every live entry is counted exactly once");
	for (p = 0; p < MAXE; p++)
		PROP(p >= ref_n || vf_ic[p] == ref_ino[p], "the link count of each entry's own inode is incremented, in block order");
	PROP(vf_nsp == ref_nsub, "every subdirectory entry records a parent exactly once");
	for (p = 0; p < MAXE; p++)
		PROP(p >= ref_nsub || (vf_spc[p] == ref_sub[p] && vf_spp[p] == IN.ino), "the parent recorded for a subdirectory is this directory");
#if BLOCKCNT == 0
	PROP(vf_ndd == 1 && vf_ddi == IN.ino && vf_ddp == ref_dotdot, "the .. entry of block 0 is recorded as the directory's parent link");
#else
	PROP(vf_ndd == 0, "a later block records no .. for the directory");
#endif
	VF_END();
	return 0;
}
