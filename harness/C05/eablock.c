/*
 * C05/eablock: e2fsck never clears a healthy extended-attribute block.
 *
 * The REAL check_ext_attr() (pass1.c) with the REAL region accounting (e2fsck/region.c)
 * is run on a symbolic xattr block of BS bytes delivered by a stubbed
 * ext2fs_read_ext_attr3().  Independent well-formedness predicate from the on-disk format
 * (Documentation/filesystems/ext4: attributes): header magic, h_blocks 1; entries from
 * offset 32, each 16 bytes + name padded to 4, name index != 0, no EA inode; a 4-byte zero
 * terminator inside the block; every non-empty value 4-aligned, padded size inside the block,
 * behind the entry table and its terminator, and no two values overlap.
 *   WF (default): a well-formed block raises NO problem (fix_problem never called), the inode's
 *       i_file_acl is kept, the inode is not rewritten, the block is accounted (refcount
 *       h_refcount-1 stored, block marked in block_found_map and block_ea_map), return 1.
 *   OVERLAP: a block that is well-formed except that some value overlaps the entry table, its
 *       terminator or another value is reported (PR_1_EA_ALLOC_COLLISION) and, answered yes,
 *       i_file_acl is cleared.
 * check_large_ea_inode() is cut (EA-inode values are excluded by the predicate); the entry hash is
 * taken as matching (C15 decides the hash).
 */
struct e2fsck_struct; struct ext2_ext_attr_entry; struct problem_context;
static unsigned int check_large_ea_inode(struct e2fsck_struct *ctx, struct ext2_ext_attr_entry *entry,
					 struct problem_context *pctx, unsigned long long *quota_blocks);	/* cut */
#include "e2fsck/pass1.c"

#ifndef BS
#define BS 96
#endif
#define KMAX ((BS - 36) / 16)

struct vf_in {
	unsigned char buf[BS];
	__u32 file_acl;
};
VF_DECLARE_INPUT(struct vf_in, IN)
#include "vf_input.inc"

static struct e2fsck_struct vf_ctx;
static struct struct_ext2_filsys vf_fs;
static struct ext2_super_block vf_sb;
static struct ext2_inode vf_inode;
static unsigned char vf_blk[BS + 8] __attribute__((aligned(8)));
static char vf_eamap, vf_foundmap, vf_refcount;
static int vf_nprob, vf_ncollision, vf_nwrite, vf_nstore, vf_store_ok, vf_mark_found, vf_mark_ea, vf_mark_other;

/* STUB: fix_problem() records and answers yes */
int fix_problem(e2fsck_t ctx, problem_t code, struct problem_context *pctx)
{ (void) ctx; (void) pctx; vf_nprob++; if (code == PR_1_EA_ALLOC_COLLISION) vf_ncollision++; return 1; }
/* STUB: clear_problem_context() as in problem.c */
void clear_problem_context(struct problem_context *p) { memset(p, 0, sizeof(*p)); p->blkcount = -1; p->group = -1; }
/* STUB: ext2fs_read_ext_attr3() delivers the symbolic block (checksum / byte order are C14's / C15's) */
errcode_t ext2fs_read_ext_attr3(ext2_filsys fs, blk64_t block, void *buf, ext2_ino_t inum)
{
	int i;
	(void) fs; (void) block; (void) inum;
	for (i = 0; i < BS; i++)
		((unsigned char *) buf)[i] = IN.buf[i];
	return 0;
}
/* STUB: the entry hash is taken as matching what is stored (hash functions: C15) */
__u32 ext2fs_ext_attr_hash_entry(struct ext2_ext_attr_entry *entry, void *data) { (void) data; return entry->e_hash; }
__u32 ext2fs_ext_attr_hash_entry_signed(struct ext2_ext_attr_entry *entry, void *data) { (void) data; return entry->e_hash; }
/* STUB: check_large_ea_inode() is cut: no problem, no quota (EA-inode values are outside) */
static problem_t check_large_ea_inode(e2fsck_t ctx, struct ext2_ext_attr_entry *entry, struct problem_context *pctx, blk64_t *quota_blocks)
{ (void) ctx; (void) entry; (void) pctx; *quota_blocks = 0; return 0; }
/* STUB: bitmaps: the block has not been seen before; marks are recorded per map */
int ext2fs_test_generic_bmap(ext2fs_generic_bitmap bmap, __u64 arg) { (void) bmap; (void) arg; return 0; }
int ext2fs_mark_generic_bmap(ext2fs_generic_bitmap bmap, __u64 arg)
{
	if ((void *) bmap == (void *) &vf_foundmap && arg == IN.file_acl) vf_mark_found++;
	else if ((void *) bmap == (void *) &vf_eamap && arg == IN.file_acl) vf_mark_ea++;
	else vf_mark_other++;
	return 0;
}
/* STUB: EA refcount store: records that (block, h_refcount - 1) is stored in ctx->refcount */
errcode_t ea_refcount_store(ext2_refcount_t rc, ea_key_t key, ea_value_t count)
{
	__u32 href = IN.buf[4] | (IN.buf[5] << 8) | (IN.buf[6] << 16) | ((__u32) IN.buf[7] << 24);
	vf_nstore++;
	if ((void *) rc == (void *) &vf_refcount && key == IN.file_acl && href >= 1 && count == (ea_value_t) (href - 1))
		vf_store_ok++;
	return 0;
}
errcode_t ea_refcount_fetch(ext2_refcount_t rc, ea_key_t key, ea_value_t *ret) { (void) rc; (void) key; *ret = 0; return 0; }
errcode_t ea_refcount_create(size_t size, ext2_refcount_t *ret) { (void) size; *ret = (ext2_refcount_t) &vf_refcount; return 0; }
/* STUB: e2fsck_write_inode() counts the writes */
void e2fsck_write_inode(e2fsck_t ctx, unsigned long ino, struct ext2_inode *inode, const char *proc)
{ (void) ctx; (void) ino; (void) inode; (void) proc; vf_nwrite++; }
#ifndef VF_REPLAY
char *gettext(const char *s) { return (char *) s; }
#endif

/* ---- independent reader of the xattr block ---- */
static int ref_struct_ok;	/* header + entry table + terminator + per-value range/alignment */
static int ref_overlap;		/* some value overlaps the table, the terminator or another value */

static void ref_parse(const unsigned char *b)
{
	unsigned int o, next = 32, n = 0, j, table_end = 0, done = 0;
	unsigned int voff[KMAX + 1], vlen[KMAX + 1];
	__u32 magic = b[0] | (b[1] << 8) | (b[2] << 16) | ((__u32) b[3] << 24);
	__u32 nblocks = b[8] | (b[9] << 8) | (b[10] << 16) | ((__u32) b[11] << 24);
	__u32 href = b[4] | (b[5] << 8) | (b[6] << 16) | ((__u32) b[7] << 24);
	int ok = (magic == 0xEA020000U && nblocks == 1 && href >= 1);	/* a block in use is referenced at least once */

	for (j = 0; j <= KMAX; j++)
		voff[j] = vlen[j] = 0;
	for (o = 32; o + 4 <= BS; o += 4) {
		unsigned int nl, idx, vo, inum, vs, elen;
		if (o != next || done)
			continue;
		if (!(b[o] | b[o + 1] | b[o + 2] | b[o + 3])) {	/* terminator */
			table_end = o + 4;
			done = 1;
			continue;
		}
		if (o + 16 > BS) { ok = 0; done = 1; continue; }
		nl = b[o]; idx = b[o + 1];
		vo = b[o + 2] | (b[o + 3] << 8);
		inum = b[o + 4] | (b[o + 5] << 8) | (b[o + 6] << 16) | ((__u32) b[o + 7] << 24);
		vs = b[o + 8] | (b[o + 9] << 8) | (b[o + 10] << 16) | ((__u32) b[o + 11] << 24);
		elen = (16 + nl + 3) & ~3U;
		if (o + elen > BS || idx == 0 || inum != 0 || n >= KMAX)
			ok = 0;
		/* e2fsck also range-checks the offset of an EMPTY value (the kernel does not): part of its contract, mirrored here */
		if (vs > BS || vo + vs > BS || (vs && ((vo & 3) || vo + ((vs + 3) & ~3U) > BS)))
			ok = 0;
		if (!ok) { done = 1; continue; }
		for (j = 0; j < KMAX; j++)
			if (j == n) {
				voff[j] = vo;
				vlen[j] = (vs + 3) & ~3U;
			}
		n++;
		next = o + elen;
	}
	if (!done)
		ok = 0;		/* no terminator inside the block */
	ref_struct_ok = ok;
	ref_overlap = 0;
	for (j = 0; j < KMAX; j++) {
		unsigned int k;
		if (j >= n || !vlen[j])
			continue;
		if (voff[j] < table_end)
			ref_overlap = 1;
		for (k = 0; k < KMAX; k++)
			if (k < j && vlen[k] && voff[j] < voff[k] + vlen[k] && voff[k] < voff[j] + vlen[j])
				ref_overlap = 1;
	}
}

int main(void)
{
	struct problem_context pctx;
	struct ea_quota q;
	static unsigned char scratch[BS + 8] __attribute__((aligned(8)));
	int r;

	VF_INPUT(IN);
	memset(&pctx, 0, sizeof(pctx));
	vf_fs.super = &vf_sb;
	vf_fs.blocksize = BS;
	vf_sb.s_feature_compat = EXT2_FEATURE_COMPAT_EXT_ATTR;
	vf_sb.s_first_data_block = 1;
	vf_sb.s_blocks_count = 0x10000;
	vf_ctx.fs = &vf_fs;
	vf_ctx.ext_attr_ver = 2;
	vf_ctx.block_ea_map = (ext2fs_block_bitmap) &vf_eamap;
	vf_ctx.block_found_map = (ext2fs_block_bitmap) &vf_foundmap;
	vf_ctx.refcount = (ext2_refcount_t) &vf_refcount;
	/* ASSUME: i_file_acl names a block inside the filesystem (otherwise the inode is marked bad before the block is read) */
	ASSUME(IN.file_acl >= 1 && IN.file_acl < 0x10000);
	vf_inode.i_file_acl = IN.file_acl;
	pctx.ino = 12;
	pctx.inode = &vf_inode;
	(void) scratch;

	ref_parse(IN.buf);
	/* ASSUME: header, entry table, terminator and each value's own range are well-formed; OVERLAP: some value overlaps; default: none does */
	ASSUME(ref_struct_ok);
#ifdef OVERLAP
	ASSUME(ref_overlap);
#else
	ASSUME(!ref_overlap);
#endif

	r = check_ext_attr(&vf_ctx, &pctx, (char *) vf_blk, &q);

#ifdef OVERLAP
	PROP(vf_ncollision > 0, "a value overlapping the entry table, its terminator or another value is reported as allocation collision");
	PROP(r == 0 && vf_inode.i_file_acl == 0 && vf_nwrite == 1, "answered yes, the colliding block is detached from the inode");
#else
	PROP(vf_nprob == 0, "a well-formed xattr block raises no problem");
	PROP(r == 1 && vf_inode.i_file_acl == IN.file_acl && vf_nwrite == 0, "a well-formed xattr block is kept: i_file_acl unchanged, inode not rewritten");
	PROP(vf_nstore == 1 && vf_store_ok == 1, "the block's reference count h_refcount - 1 is recorded");
	PROP(vf_mark_found == 1 && vf_mark_ea == 1 && vf_mark_other == 0, "the block is marked in use and as seen EA block, nothing else");
	PROP(q.blocks == 1 && q.inodes == 0, "quota charge is one block, no inodes");
#endif
	VF_END();
	return 0;
}
