/*
 * C05/rebuild: the directory rebuild of e2fsck -D / pass 3A keeps every entry.
 *
 * One symbolic directory block (BLK bytes, every byte symbolic, accepted by
 * fill_dir_block as well-formed) is indexed by the REAL fill_dir_block() and written
 * out by the REAL copy_dir_entries() (rehash.c).  For a symbolic probe tuple
 * (inode, file type, name) the number of live entries equal to the probe is the same
 * in the input block and in the output blocks: the multisets of (ino, type, name) are
 * equal ("." and ".." are implicit in non-compress mode and excluded on both sides).
 * Every output block is a chain of valid entries that tiles the block exactly.
 */
struct struct_ext2_filsys;
struct out_dir;
/* cut: alloc_size_dir() (memory management only) -- see the stub below */
static long alloc_size_dir(struct struct_ext2_filsys *fs, struct out_dir *outdir, unsigned int blocks);
#include "e2fsck/rehash.c"

#ifndef BLK
#define BLK 40
#endif
#define NAMEMAX (BLK - 8)
#define MAXENT 8
#define OUTBLK_MAX 6

struct vf_in {
	unsigned char buf[BLK];
	/* the probe */
	__u32 p_ino;
	__u8 p_type, p_len;
	unsigned char p_name[NAMEMAX];
	unsigned int slack_pct;
	__u32 def_hash_version, sflags, i_size_extra;
	unsigned char swap_a, swap_b;
};
VF_DECLARE_INPUT(struct vf_in, IN)
#include "vf_input.inc"

static struct e2fsck_struct vf_ctx;
static struct struct_ext2_filsys vf_fs;
static struct ext2_super_block vf_sb;
static struct ext2_inode vf_inode;
static unsigned char vf_dirbuf[BLK + 8] __attribute__((aligned(8)));
static struct hash_entry vf_harray[MAXENT];

/* STUB: ext2fs_read_dir_block4() delivers the symbolic block (checksum / byte order handling is C14's) */
errcode_t ext2fs_read_dir_block4(ext2_filsys fs, blk64_t block, void *buf, int flags, ext2_ino_t ino)
{
	int i;
	(void) fs; (void) block; (void) flags; (void) ino;
	for (i = 0; i < BLK; i++)
		((unsigned char *) buf)[i] = IN.buf[i];
	return 0;
}
/*
 * STUB: ext2fs_dirhash2() is replaced by a deterministic function of the first name byte and the length (it only
 * decides the order) that CHECKS what it is handed (pattern T): the hash algorithm is the format's -- the superblock's
 * s_def_hash_version, promoted to the unsigned variant (+3) iff it is legacy/half_md4/tea and s_flags has
 * EXT2_FLAGS_UNSIGNED_HASH --, the seed is s_hash_seed, the name is the entry's name with its own length, no charset
 * and no casefold flag for a plain directory.  (The hash functions themselves are C10's.)
 */
static int vf_nhash;
errcode_t ext2fs_dirhash2(int version, const char *name, int len, const struct ext2fs_nls_table *charset,
			  int hash_flags, const __u32 *seed, ext2_dirhash_t *ret_hash, ext2_dirhash_t *ret_minor_hash)
{
	int want = vf_sb.s_def_hash_version;
	const unsigned char *n = (const unsigned char *) name;

	if (want <= 2 /* EXT2_HASH_TEA */ && (vf_sb.s_flags & 0x0002 /* EXT2_FLAGS_UNSIGNED_HASH */))
		want += 3;
	vf_nhash++;
	PROP(version == want, "the hash algorithm handed to ext2fs_dirhash2 is s_def_hash_version, unsigned variant iff flagged");
	PROP(seed == vf_sb.s_hash_seed, "the hash seed handed to ext2fs_dirhash2 is s_hash_seed");
	PROP(charset == vf_fs.encoding && hash_flags == 0, "plain directory: no casefold flag");
	PROP(n >= vf_dirbuf + 8 && n < vf_dirbuf + BLK && len == n[-2] && len > 0,
	     "the name handed to ext2fs_dirhash2 is an entry's name with that entry's name_len");
	*ret_hash = ((unsigned char) name[0] << 8) & ~1U;
	if (ret_minor_hash)
		*ret_minor_hash = len;
	return 0;
}
/* STUB: profile_get_uint() returns the default */
long profile_get_uint(profile_t p, const char *a, const char *b, const char *c, unsigned int def, unsigned int *ret)
{ (void) p; (void) a; (void) b; (void) c; *ret = def; return 0; }

/*
 * STUB: alloc_size_dir() is cut: it hands out one static area large enough for the blocks requested
 * (the real one mallocs / reallocs `blocks` blocks and keeps the contents; a symbolic allocation size is
 * what CBMC cannot afford).  Contents are kept because the area never moves.
 */
#define VF_OUTCAP 6
static unsigned char vf_out[VF_OUTCAP * BLK] __attribute__((aligned(8)));
static ext2_dirhash_t vf_outhashes[VF_OUTCAP];
static errcode_t alloc_size_dir(ext2_filsys fs, struct out_dir *outdir, blk_t blocks)
{
	(void) fs;
	/* BOUND: the area holds 6 blocks whatever is requested (the real increment is 50 blocks); main checks that no more were used */
	PROP(blocks > outdir->max, "alloc_size_dir is only asked to grow");
	if (!outdir->max)
		outdir->num = 0;
	outdir->buf = (char *) vf_out;
	outdir->hashes = vf_outhashes;
	outdir->max = blocks;
	return 0;
}

#ifndef VF_REPLAY
/* STUB: memcpy() as a bounded byte loop (the only variable-length copy reached is the name copy, <= NAMEMAX bytes) */
void *memcpy(void *dst, const void *src, size_t n)
{
	size_t i;
	for (i = 0; i < NAMEMAX + 1; i++)
		if (i < n)
			((char *) dst)[i] = ((const char *) src)[i];
	PROP(n <= NAMEMAX + 1, "harness: memcpy length within the bound of the byte loop");
	return dst;
}
#endif

#ifndef VF_REPLAY
/* STUB: realloc() must not be reached: the entry array is pre-sized (BOUND) and the output area is static */
void *realloc(void *p, size_t n)
{
	(void) n;
	PROP(0, "harness: no reallocation is needed within the bound");
	return p;
}
#endif

static int vf_any;		/* ref_count counts every live entry, not only those equal to the probe */
static unsigned int vf_sum;	/* ref_count: sum over counted entries of the minimal record length (8 + name, rounded up to 4) */
static __u32 vf_dotdot;	/* ref_count: inode of the last ".." entry */
static int vf_tiles;	/* set by ref_count: the chain of the block just walked ends exactly at BLK with valid entries */

/*
 * independent reader of one directory block (on-disk format): number of live entries equal to the
 * probe; skip_dots: "." and ".." are not counted.  Offsets are concrete (dispatch over 4-aligned positions).
 */
static int ref_count(const unsigned char *b, int skip_dots)
{
	unsigned int o, next = 0, rl, nl, ino, k;
	int n = 0, ok = 1, same;

	for (o = 0; o + 8 <= BLK; o += 4) {
		if (o != next)
			continue;
		ino = b[o] | (b[o + 1] << 8) | (b[o + 2] << 16) | ((unsigned) b[o + 3] << 24);
		rl = b[o + 4] | (b[o + 5] << 8);
		nl = b[o + 6];
		if (rl < 8 || (rl & 3) || o + rl > BLK || 8 + nl > rl)
			ok = 0;
		next = o + rl;
		if (!ok || !ino)
			continue;
		if (skip_dots && nl == 1 && b[o + 8] == '.')
			continue;
		if (skip_dots && nl == 2 && b[o + 8] == '.' && b[o + 9] == '.') {
			vf_dotdot = ino;
			continue;
		}
		same = (ino == IN.p_ino && nl == IN.p_len && b[o + 7] == IN.p_type);
		for (k = 0; k < NAMEMAX; k++)
			if (k < nl && o + 8 + k < BLK && b[o + 8 + k] != IN.p_name[k])
				same = 0;
		if (same || vf_any) {
			n++;
			vf_sum += (8 + nl + 3) & ~3U;
		}
	}
	vf_tiles = ok && next == BLK;
	return n;
}

int main(void)
{
	struct fill_dir_struct fd;
	struct out_dir outdir;
	blk64_t blk = 100;
	int r, nin, nout, i;
	unsigned int b;
	errcode_t err;
	static struct fill_dir_struct fdz;
	static struct out_dir odz;

	VF_INPUT(IN);
	vf_fs.super = &vf_sb;
	vf_fs.blocksize = BLK;
	vf_sb.s_def_hash_version = IN.def_hash_version;
	vf_sb.s_flags = IN.sflags;
	vf_ctx.fs = &vf_fs;
	/* ASSUME: indexed_dir_slack_percentage 0..100 (copy_dir_entries clamps anything else to 20) */
	ASSUME(IN.slack_pct <= 100);
	vf_ctx.htree_slack_percentage = IN.slack_pct;
	/* ASSUME: no metadata_csum tail, not an encrypted+casefolded directory (hash stored in the dirent) */
	vf_inode.i_flags = 0;
	ASSUME(IN.i_size_extra < 0x1000000);
	vf_inode.i_size = BLK + IN.i_size_extra;
	fd = fdz;
	fd.ctx = &vf_ctx;
	fd.buf = (char *) vf_dirbuf;
	fd.inode = &vf_inode;
	fd.ino = 12;
	fd.dir = 12;
	fd.harray = vf_harray;
	/* BOUND: the entry array is pre-sized for 8 entries (a 40-byte block holds at most 5) */
	fd.max_array = MAXENT;
#ifdef COMPRESS
	fd.compress = 1;
#endif

	r = fill_dir_block(&vf_fs, &blk, 0, 0, 0, &fd);
	/* ASSUME: the block is well-formed in fill_dir_block's own judgement (otherwise the rebuild is abandoned) */
	ASSUME(r == 0 && fd.err == 0);
	PROP(fd.num_array <= BLK / 12, "harness: number of live entries bounded by block size");
#ifdef COMPRESS
	nin = ref_count(vf_dirbuf, 0);
#else
	nin = ref_count(vf_dirbuf, 1);
#endif
	PROP(vf_tiles, "a block accepted by fill_dir_block is a tiling chain of valid entries");

#ifdef FILLONLY
	vf_any = 1; vf_sum = 0;
#ifdef COMPRESS
	PROP((blk_t) ref_count(vf_dirbuf, 0) == fd.num_array, "fill_dir_block indexes exactly the live entries");
#else
	PROP((blk_t) ref_count(vf_dirbuf, 1) == fd.num_array, "fill_dir_block indexes exactly the live entries other than . and ..");
	PROP(fd.parent == vf_dotdot, "fill_dir_block records the inode of '..' as parent");
#endif
	PROP(fd.dir_size == vf_sum, "dir_size is the sum of the minimal record lengths of the indexed entries");
#ifndef COMPRESS
	PROP((blk_t) vf_nhash == fd.num_array, "every indexed entry was hashed exactly once");
#endif
	for (i = 0; i < MAXENT; i++)
		if ((blk_t) i < fd.num_array) {
			PROP((unsigned char *) vf_harray[i].dir >= vf_dirbuf && (unsigned char *) vf_harray[i].dir < vf_dirbuf + BLK &&
			     vf_harray[i].ino == vf_harray[i].dir->inode && vf_harray[i].ino != 0,
			     "every index slot points at a live entry of the block and carries its inode");
			if (i > 0)
				PROP((char *) vf_harray[i].dir > (char *) vf_harray[i - 1].dir, "index slots point at distinct entries in block order");
		}
	VF_END();
	return 0;
#endif
	/* the caller sorts the array between the two steps: any order must do; one symbolic transposition */
#ifdef SWAP
	for (i = 0; i < BLK / 12; i++) {
		int j;
		for (j = i + 1; j < BLK / 12; j++)
			if (i == IN.swap_a && j == IN.swap_b && (blk_t) i < fd.num_array && (blk_t) j < fd.num_array) {
				struct hash_entry t = vf_harray[i];
				vf_harray[i] = vf_harray[j];
				vf_harray[j] = t;
			}
	}
#endif

	outdir = odz;
	err = copy_dir_entries(&vf_ctx, &fd, &outdir);
	PROP(err == 0, "copy_dir_entries succeeds on a well-formed block");
	PROP(outdir.num <= VF_OUTCAP, "harness: output blocks used fit the static area");
	nout = 0;
#ifdef COMPRESS
	for (b = 0; b < OUTBLK_MAX; b++) {
#else
	for (b = 1; b < OUTBLK_MAX; b++) {
#endif
		if (b >= outdir.num)
			break;
		nout += ref_count((unsigned char *) outdir.buf + b * BLK, 0);
		PROP(vf_tiles || fd.num_array == 0, "every output block is a tiling chain of valid entries");
	}
	PROP(nin == nout, "multiset of (inode, type, name) preserved by fill_dir_block -> copy_dir_entries");
	VF_END();
	return 0;
}
