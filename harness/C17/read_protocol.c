/*
 * C17/read_protocol: the multi-block CACHED read path of unix_read_blk64() at the
 * REAL geometry (CACHE_SIZE 8, WRITE_DIRECT_SIZE 4), pattern P (assume-guarantee).
 *
 * The full inductive harness (cache.c) cannot decide cached reads of 3-4 blocks
 * (no verdict in 1200 s).  Here the three callees are cut and replaced by
 * specification stubs whose own behaviour cache.c establishes at count 1:
 *   find_cached_block(b): answers from a symbolic "which blocks are cached" mask
 *   raw_read_blk(b, n)  : delivers DEVICE bytes and ASSERTS that none of the n blocks
 *                         is cached (a cached block may be dirty: the device copy is stale)
 *   reuse_cache(e, b)   : the block becomes cached
 * What is decided is the control protocol of the real unix_read_blk64 body for EVERY
 * cached/uncached pattern of the request: each requested block is taken from the cache
 * iff it is cached, read from the device (in one run of consecutive uncached blocks)
 * otherwise, exactly once, in order, and is cached afterwards.
 */
#define NBLK 8
#define BS 2
#ifndef CNT
#define CNT 4
#endif
#include "config.h"
#include "ext2_fs.h"
#include "ext2fs.h"
struct unix_private_data;
struct unix_cache;
static struct unix_cache *find_cached_block(struct unix_private_data *data, unsigned long long block,
					    struct unix_cache **eldest);
static errcode_t raw_read_blk(io_channel channel, struct unix_private_data *data, unsigned long long block,
			      int count, void *bufv);
static errcode_t reuse_cache(io_channel channel, struct unix_private_data *data, struct unix_cache *cache,
			     unsigned long long block);
#include "lib/ext2fs/unix_io.c"

struct vf_in {
	unsigned char mask;		/* bit b: block b is in the cache */
	unsigned char block;
};
VF_DECLARE_INPUT(struct vf_in, IN)
#include "vf_input.inc"

static struct struct_io_channel vf_chan;
static struct unix_private_data vf_data;
static struct unix_cache vf_ent[NBLK], vf_victim;
static char vf_cbuf[NBLK][BS], vf_vbuf[BS];
static unsigned vf_mask;
static int vf_raw_reads[NBLK], vf_reuse[NBLK], vf_raw_calls;

/* STUB: find_cached_block answers from the mask; a hit returns the entry whose buffer holds 'C',block */
static struct unix_cache *find_cached_block(struct unix_private_data *data, unsigned long long block,
					    struct unix_cache **eldest)
{
	int b;
	(void) data;
	for (b = 0; b < NBLK; b++)
		if ((unsigned long long) b == block && (vf_mask & (1u << b)))
			return &vf_ent[b];
	if (eldest)
		*eldest = &vf_victim;
	return 0;
}

/* STUB: raw_read_blk delivers device bytes 'D',block and checks it is never asked for a cached block */
static errcode_t raw_read_blk(io_channel channel, struct unix_private_data *data, unsigned long long block,
			      int count, void *bufv)
{
	char *out = bufv;
	int k, b;
	(void) channel; (void) data;
	vf_raw_calls++;
	PROP(count >= 1 && count <= CNT && block + count <= NBLK, "device read stays inside the request");
	for (k = 0; k < CNT; k++)
		if (k < count)
			for (b = 0; b < NBLK; b++)
				if ((unsigned long long) b == block + k) {
					PROP(!(vf_mask & (1u << b)),
					     "a block that is in the cache is never fetched from the device (its cached copy may be newer)");
					vf_raw_reads[b]++;
					out[k * BS] = 'D';
					out[k * BS + 1] = (char) b;
				}
	return 0;
}

/* STUB: reuse_cache makes the block cached */
static errcode_t reuse_cache(io_channel channel, struct unix_private_data *data, struct unix_cache *cache,
			     unsigned long long block)
{
	int b;
	(void) channel; (void) data;
	PROP(cache == &vf_victim, "the entry offered by find_cached_block is the one reused");
	for (b = 0; b < NBLK; b++)
		if ((unsigned long long) b == block) {
			vf_reuse[b]++;
			vf_mask |= 1u << b;
		}
	return 0;
}

int main(void)
{
	static char out[CNT * BS];
	errcode_t rc;
	int b, k;
	unsigned pre;

	VF_INPUT(IN);
	ASSUME(IN.block + CNT <= NBLK);
	pre = vf_mask = IN.mask;
	vf_chan.magic = EXT2_ET_MAGIC_IO_CHANNEL;
	vf_chan.block_size = BS;
	vf_chan.private_data = &vf_data;
	vf_data.magic = EXT2_ET_MAGIC_UNIX_IO_CHANNEL;
	for (b = 0; b < NBLK; b++) {
		vf_ent[b].buf = vf_cbuf[b];
		vf_cbuf[b][0] = 'C';
		vf_cbuf[b][1] = (char) b;
		vf_ent[b].in_use = 1;
		vf_ent[b].block = b;
	}
	vf_victim.buf = vf_vbuf;

	rc = unix_read_blk64(&vf_chan, IN.block, CNT, out);
	PROP(rc == 0, "read succeeds");
	for (k = 0; k < CNT; k++)
		for (b = 0; b < NBLK; b++)
			if (b == IN.block + k) {
				int was_cached = (pre >> b) & 1;
				PROP(out[k * BS] == (was_cached ? 'C' : 'D') && out[k * BS + 1] == (char) b,
				     "block k of the request comes from the cache iff it was cached, else from the device, in order");
				PROP(vf_raw_reads[b] == (was_cached ? 0 : 1), "an uncached block is read from the device exactly once");
				PROP((vf_mask >> b) & 1, "every requested block is cached afterwards");
				PROP(vf_reuse[b] == (was_cached ? 0 : 1), "a cache entry is (re)used exactly for the blocks that were not cached");
			}
	for (b = 0; b < NBLK; b++)
		if (b < IN.block || b >= IN.block + CNT)
			PROP(vf_raw_reads[b] == 0 && vf_reuse[b] == 0, "blocks outside the request are not touched");
	VF_END();
	return 0;
}
