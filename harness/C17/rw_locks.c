/*
 * C17/rw_locks: the body every bitmap-loader thread runs, read_bitmaps_range_start()
 * (rw_bitmaps.c), for an ARBITRARY group range [start, start+1] (any start with start*8128 < 2^32):
 *   - lock discipline: every update of the SHARED bitmaps
 *     (ext2fs_set_block/inode_bitmap_range2) happens with the loader mutex held, and
 *     the mutex is released on every path, error paths included;
 *   - footprint: group g's bits go to [base + g*per_group, +per_group) -- so threads
 *     with disjoint group ranges (rw_partition.c) update disjoint bit ranges;
 *   - the per-thread scratch buffers are private (allocated and freed inside).
 * Together with rw_partition.c this is the decided part of "thread count does not
 * change the result"; absence of data races itself is argued from these two facts,
 * not decided (CBMC does not explore the interleavings at this size).
 */
#include <pthread.h>
#define pthread_mutex_lock stub_mutex_lock
#define pthread_mutex_unlock stub_mutex_unlock
#include "lib/ext2fs/rw_bitmaps.c"

#define BSZ 1024
#define PER_GROUP 8128		/* bits per group: 1016 bytes, so the tail check scans 8 bytes */

struct vf_in {
	__u32 start;
	unsigned char two;		/* range is [start, start + two] */
	unsigned char first_data_block;
	unsigned char cluster_bits;
	unsigned char bad_tail[2][2];	/* [group][0 block / 1 inode]: padding byte cleared */
	unsigned char read_fails[2][2];
	unsigned char zero_loc[2][2];	/* bitmap location 0 (uninit) */
	int flags;
};
VF_DECLARE_INPUT(struct vf_in, IN)
#include "vf_input.inc"

static int vf_locked, vf_lock_calls, vf_unlock_calls;
static int vf_nset[2];
static unsigned long long vf_set_start[2][2];
static unsigned int vf_set_cnt[2][2];
static int vf_unlocked_update;

int stub_mutex_lock(pthread_mutex_t *m) { (void) m; PROP(!vf_locked, "mutex is not taken twice"); vf_locked = 1; vf_lock_calls++; return 0; }
int stub_mutex_unlock(pthread_mutex_t *m) { (void) m; PROP(vf_locked, "unlock only when held"); vf_locked = 0; vf_unlock_calls++; return 0; }

static void vf_record(int kind, unsigned long long start, unsigned int cnt)
{
	int k;
	if (!vf_locked)
		vf_unlocked_update = 1;
	for (k = 0; k < 2; k++)
		if (k == vf_nset[kind]) {
			vf_set_start[kind][k] = start;
			vf_set_cnt[kind][k] = cnt;
		}
	vf_nset[kind]++;
}
/* STUB: the shared-bitmap setters record their arguments and whether the mutex is held */
errcode_t ext2fs_set_block_bitmap_range2(ext2fs_block_bitmap b, blk64_t start, size_t num, void *in)
{ (void) b; (void) in; vf_record(0, start, (unsigned) num); return 0; }
errcode_t ext2fs_set_inode_bitmap_range2(ext2fs_inode_bitmap b, __u64 start, size_t num, void *in)
{ (void) b; (void) in; vf_record(1, start, (unsigned) num); return 0; }

static __u32 vf_cur_group(dgrp_t g) { return g - IN.start; }
/* STUB: bitmap locations: block 100+2g / 101+2g, or 0 when the group is uninitialised */
blk64_t ext2fs_block_bitmap_loc(ext2_filsys fs, dgrp_t g) { (void) fs; return IN.zero_loc[vf_cur_group(g) & 1][0] ? 0 : 100 + 2 * (g - IN.start); }
blk64_t ext2fs_inode_bitmap_loc(ext2_filsys fs, dgrp_t g) { (void) fs; return IN.zero_loc[vf_cur_group(g) & 1][1] ? 0 : 101 + 2 * (g - IN.start); }
blk64_t ext2fs_blocks_count(struct ext2_super_block *sb) { (void) sb; return 1000; }
int ext2fs_bg_flags_test(ext2_filsys fs, dgrp_t g, __u16 f) { (void) fs; (void) g; (void) f; return 0; }
int ext2fs_group_desc_csum_verify(ext2_filsys fs, dgrp_t g) { (void) fs; (void) g; return 1; }
int ext2fs_block_bitmap_csum_verify(ext2_filsys fs, dgrp_t g, char *b, int n) { (void) fs; (void) g; (void) b; (void) n; return 1; }
int ext2fs_inode_bitmap_csum_verify(ext2_filsys fs, dgrp_t g, char *b, int n) { (void) fs; (void) g; (void) b; (void) n; return 1; }
/* STUB: the device read delivers a bitmap block whose padding is all ones unless bad_tail says otherwise */
errcode_t io_channel_read_blk64(io_channel ch, unsigned long long blk, int cnt, void *data)
{
	unsigned char *p = data;
	int g = (int) ((blk - 100) / 2) & 1, kind = (int) ((blk - 100) & 1), i;
	(void) ch; (void) cnt;
	if (IN.read_fails[g][kind])
		return EXT2_ET_SHORT_READ;
	for (i = PER_GROUP / 8; i < BSZ; i++)
		p[i] = 0xff;
	if (IN.bad_tail[g][kind])
		p[BSZ - 1] = 0x7f;
	return 0;
}
errcode_t io_channel_alloc_buf(io_channel ch, int count, void *ptr)
{
	void *p = malloc(BSZ);
	(void) ch; (void) count;
	ASSUME(p != 0);
	*(void **) ptr = p;
	return 0;
}

static struct struct_ext2_filsys vf_fs;
static struct ext2_super_block vf_sb;
static struct struct_io_channel vf_io;
static pthread_mutex_t vf_mutex;

int main(void)
{
	errcode_t rc;
	int tail = 0, g, expect_tail = 0, flags;
	__u32 end;

	VF_INPUT(IN);
	ASSUME(IN.two <= 1 && IN.start < 0xfffffff0u);
	ASSUME(IN.first_data_block <= 1 && IN.cluster_bits <= 4);
	/* ASSUME: inode numbers are 32 bit: (groups) * (inodes per group) < 2^32 (ext2fs_open2 / mke2fs enforce it) */
	ASSUME(((unsigned long long) IN.start + 2) * PER_GROUP < (1ULL << 32));
	end = IN.start + IN.two;
	flags = IN.flags & (EXT2FS_BITMAPS_BLOCK | EXT2FS_BITMAPS_INODE);
	vf_fs.magic = EXT2_ET_MAGIC_EXT2FS_FILSYS;
	vf_fs.super = &vf_sb;
	vf_fs.io = &vf_io;
	vf_fs.blocksize = BSZ;
	vf_fs.cluster_ratio_bits = IN.cluster_bits;
	vf_fs.group_desc_count = 0xffffffffu;
	vf_sb.s_first_data_block = IN.first_data_block;
	vf_sb.s_clusters_per_group = PER_GROUP;
	vf_sb.s_blocks_per_group = PER_GROUP << IN.cluster_bits;
	vf_sb.s_inodes_per_group = PER_GROUP;
	vf_sb.s_log_cluster_size = IN.cluster_bits;

	rc = read_bitmaps_range_start(&vf_fs, flags, IN.start, end, &vf_mutex, &tail);

	PROP(!vf_unlocked_update, "every update of the shared bitmaps happens with the loader mutex held");
	PROP(!vf_locked && vf_lock_calls == vf_unlock_calls, "the mutex is released on every path");
	for (g = 0; g < 2; g++) {
		int kind;
		for (kind = 0; kind < 2; kind++)
			if (g < vf_nset[kind]) {
				unsigned long long base = kind == 0 ?
					((unsigned long long) IN.first_data_block >> IN.cluster_bits) : 1;
				PROP(vf_set_start[kind][g] == base + ((unsigned long long) IN.start + g) * PER_GROUP &&
				     vf_set_cnt[kind][g] == PER_GROUP,
				     "group g's bits are stored at base + g*per_group, per_group bits: disjoint group ranges give disjoint updates");
			}
	}
	if (rc == 0) {
		PROP(vf_nset[0] == ((flags & EXT2FS_BITMAPS_BLOCK) ? (int) IN.two + 1 : 0) &&
		     vf_nset[1] == ((flags & EXT2FS_BITMAPS_INODE) ? (int) IN.two + 1 : 0),
		     "on success every group of the range was loaded exactly once per requested bitmap");
		for (g = 0; g <= IN.two; g++) {
			if ((flags & EXT2FS_BITMAPS_BLOCK) && !IN.zero_loc[g][0] && IN.bad_tail[g][0])
				expect_tail |= EXT2_FLAG_BBITMAP_TAIL_PROBLEM;
			if ((flags & EXT2FS_BITMAPS_INODE) && !IN.zero_loc[g][1] && IN.bad_tail[g][1])
				expect_tail |= EXT2_FLAG_IBITMAP_TAIL_PROBLEM;
		}
		PROP(tail == expect_tail, "tail-problem flags report exactly the groups with bad padding");
	}
	VF_END();
	return 0;
}
