/*
 * C17/raw: raw_read_blk() / raw_write_blk() of unix_io.c against the byte-array
 * device (pattern D): the direct pread/pwrite path, the lseek+read/write path and
 * the BOUNCE-BUFFER path (O_DIRECT alignment rules, IO_FLAG_FORCE_BOUNCE), for
 * every block number, channel offset (including offsets that are not a multiple
 * of the alignment) and data content; count concrete per query (positive block
 * counts and negative byte counts).
 *   read : the caller's buffer receives exactly dev[location, location+size)
 *   write: exactly those device bytes are replaced, every other byte is unchanged
 */
#define pread64 vf_pread64
#define pwrite64 vf_pwrite64
#define fsync vf_fsync
#define fallocate vf_fallocate
#define ftruncate vf_ftruncate
#define ext2fs_llseek vf_llseek
#define lseek vf_lseek
#define read vf_read
#define write vf_write
#define close vf_close
#define fstat vf_fstat
#define ioctl vf_ioctl
#define posix_fadvise vf_posix_fadvise
#include "lib/ext2fs/unix_io.c"
#include "lib/ext2fs/io_manager.c"

#define BS 4
#define NBLK 6
#define F (NBLK * BS)
#define MAXIO 16
#ifndef CNT
#define CNT 1
#endif
#ifndef ALIGN
#define ALIGN 0
#endif
#define OP_READ 1
#define OP_WRITE 2

struct vf_in {
	unsigned char dev[F];
	unsigned char data[MAXIO];
	unsigned long long block;
	unsigned char offset;		/* data->offset: the "offset=" channel option */
	unsigned char bufskew;		/* misalignment of the caller's buffer */
};
VF_DECLARE_INPUT(struct vf_in, IN)
#include "vf_input.inc"
#include "posixfile.h"

static struct struct_io_channel vf_chan;
static struct unix_private_data vf_data;
static unsigned char vf_bounce[16] __attribute__((aligned(16)));
static unsigned char vf_user[MAXIO + 8] __attribute__((aligned(16)));

int main(void)
{
	errcode_t rc;
	int i, count = CNT;
	unsigned int size = count < 0 ? (unsigned) -count : (unsigned) count * BS;
	unsigned long loc;
	unsigned char *buf;

	VF_INPUT(IN);
	for (i = 0; i < F; i++)
		vf_dev[i] = IN.dev[i];
	vf_dev_size = F;
	vf_chan.magic = EXT2_ET_MAGIC_IO_CHANNEL;
	vf_chan.block_size = BS;
	vf_chan.align = ALIGN;
	vf_chan.private_data = &vf_data;
	vf_data.magic = EXT2_ET_MAGIC_UNIX_IO_CHANNEL;
	vf_data.dev = 3;
#ifdef FORCE_BOUNCE
	vf_data.flags = IO_FLAG_FORCE_BOUNCE;
#endif
	vf_data.bounce = vf_bounce;
	/* BOUND: channel offset 0..7 bytes, caller buffer skew 0..3 bytes, 6 blocks of 4 bytes */
	ASSUME(IN.offset <= 7 && IN.bufskew <= 3);
#if ALIGN == 0 && !defined(FORCE_BOUNCE)
	ASSUME(IN.bufskew == 0);
#endif
	vf_data.offset = IN.offset;
	buf = vf_user + IN.bufskew;
	loc = (unsigned long) IN.block * BS + IN.offset;
	/* ASSUME: the request lies inside the device; with a bounce buffer the device length is a multiple of the alignment unit (block devices / preallocated images) */
	ASSUME(IN.block < NBLK && loc + size <= F);

#if OP == OP_READ
	for (i = 0; i < MAXIO; i++)
		buf[i] = IN.data[i];
	rc = raw_read_blk(&vf_chan, &vf_data, IN.block, count, buf);
	PROP(rc == 0, "raw read succeeds");
	for (i = 0; i < MAXIO; i++) {
		unsigned long p;
		if ((unsigned) i < size) {
			for (p = 0; p < F; p++)
				if (p == loc + i)
					PROP(buf[i] == IN.dev[p], "raw read delivers exactly the device bytes of the request");
		} else
			PROP(buf[i] == IN.data[i], "raw read does not touch the caller's buffer beyond the request");
	}
	for (i = 0; i < F; i++)
		PROP(vf_dev[i] == IN.dev[i], "raw read does not modify the device");
#else
	for (i = 0; i < MAXIO; i++)
		buf[i] = IN.data[i];
	rc = raw_write_blk(&vf_chan, &vf_data, IN.block, count, buf, 0);
	PROP(rc == 0, "raw write succeeds");
	for (i = 0; i < F; i++) {
		if ((unsigned long) i >= loc && (unsigned long) i < loc + size) {
			int k;
			for (k = 0; k < MAXIO; k++)
				if ((unsigned long) k == i - loc)
					PROP(vf_dev[i] == IN.data[k], "raw write stores exactly the caller's bytes");
		} else
			PROP(vf_dev[i] == IN.dev[i], "raw write leaves every other device byte unchanged");
	}
#endif
	VF_END();
	return 0;
}
