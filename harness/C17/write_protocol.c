/*
 * C17/write_protocol: the multi-block CACHED write path of unix_write_blk64() at the
 * REAL geometry (CACHE_SIZE 8, WRITE_DIRECT_SIZE 4), pattern P (assume-guarantee),
 * companion of read_protocol.c.  Callees cut to specification stubs:
 *   find_cached_block(b): answers from a symbolic mask; offers one victim entry
 *   reuse_cache(e, b)   : b becomes cached in e (may fail: symbolic, FAULT config)
 *   raw_write_blk(b, n) : the write-through device write; records its range
 * Decided for every cached/uncached pattern and request of 1..4 blocks: every block
 * of the request ends up in a cache entry holding exactly the caller's bytes for
 * that block, marked dirty iff the channel is not write-through; in write-through
 * mode the device receives the whole request in one write BEFORE the cache is
 * updated and its failure is returned; a failed eviction is returned to the caller.
 */
#define NBLK 8
#define BS 2
#ifndef CNT
#define CNT 4
#endif
#include "config.h"
#include "ext2_fs.h"
#include "ext2fs.h"
struct unix_private_data;
struct unix_cache;
static struct unix_cache *find_cached_block(struct unix_private_data *data, unsigned long long block,
					    struct unix_cache **eldest);
static errcode_t raw_write_blk(io_channel channel, struct unix_private_data *data, unsigned long long block,
			       int count, const void *bufv, int flags);
static errcode_t reuse_cache(io_channel channel, struct unix_private_data *data, struct unix_cache *cache,
			     unsigned long long block);
#include "lib/ext2fs/unix_io.c"

struct vf_in {
	unsigned char mask;
	unsigned char block;
	unsigned char data[CNT * BS];
	unsigned char evict_fails_at;	/* FAULT: the k-th reuse_cache fails (255: never) */
	long raw_rc;			/* result of the write-through device write */
};
VF_DECLARE_INPUT(struct vf_in, IN)
#include "vf_input.inc"

static struct struct_io_channel vf_chan;
static struct unix_private_data vf_data;
static struct unix_cache vf_ent[NBLK];		/* entry b holds block b once cached */
static char vf_cbuf[NBLK][BS];
static unsigned vf_mask;
static int vf_raw_calls, vf_reuse_calls, vf_raw_before_cache = 1;
static unsigned long long vf_raw_block;
static int vf_raw_count, vf_raw_data_ok = 1;

static struct unix_cache *find_cached_block(struct unix_private_data *data, unsigned long long block,
					    struct unix_cache **eldest)
{
	int b;
	(void) data;
	for (b = 0; b < NBLK; b++)
		if ((unsigned long long) b == block && (vf_mask & (1u << b)))
			return &vf_ent[b];
	/* the victim offered for block b is entry b itself (any free/oldest entry: its identity is irrelevant here) */
	if (eldest)
		for (b = 0; b < NBLK; b++)
			if ((unsigned long long) b == block)
				*eldest = &vf_ent[b];
	return 0;
}

static errcode_t reuse_cache(io_channel channel, struct unix_private_data *data, struct unix_cache *cache,
			     unsigned long long block)
{
	int b;
	(void) channel; (void) data;
	if (vf_reuse_calls++ == IN.evict_fails_at) {
		cache->write_err = 1;
		return EXT2_ET_SHORT_WRITE;
	}
	for (b = 0; b < NBLK; b++)
		if ((unsigned long long) b == block) {
			PROP(cache == &vf_ent[b], "the entry offered by find_cached_block is the one reused");
			vf_mask |= 1u << b;
			cache->in_use = 1;
			cache->dirty = 0;
			cache->block = block;
		}
	return 0;
}

static errcode_t raw_write_blk(io_channel channel, struct unix_private_data *data, unsigned long long block,
			       int count, const void *bufv, int flags)
{
	const unsigned char *p = bufv;
	int i;
	(void) channel; (void) data; (void) flags;
	vf_raw_calls++;
	vf_raw_block = block;
	vf_raw_count = count;
	if (vf_reuse_calls != 0)
		vf_raw_before_cache = 0;
	for (i = 0; i < CNT * BS; i++)
		if (p[i] != IN.data[i])
			vf_raw_data_ok = 0;
	return IN.raw_rc;
}

int main(void)
{
	static unsigned char in[CNT * BS];
	errcode_t rc;
	int b, k, i;

	VF_INPUT(IN);
#ifndef BLOCK
#define BLOCK 2
#endif
	/* the start block is concrete per query so that cache-entry pointers stay concrete (the cached/uncached pattern, the data and the fault schedule are symbolic) */
	ASSUME(IN.block == BLOCK);
	ASSUME(IN.block + CNT <= NBLK);
#ifndef FAULT
	ASSUME(IN.evict_fails_at == 255 && IN.raw_rc == 0);
#else
	ASSUME(IN.raw_rc == 0 || IN.raw_rc == EXT2_ET_SHORT_WRITE);
#endif
	vf_mask = IN.mask;
	vf_chan.magic = EXT2_ET_MAGIC_IO_CHANNEL;
	vf_chan.block_size = BS;
	vf_chan.private_data = &vf_data;
#ifdef WITH_WRITETHROUGH
	vf_chan.flags = CHANNEL_FLAGS_WRITETHROUGH;
#endif
	vf_data.magic = EXT2_ET_MAGIC_UNIX_IO_CHANNEL;
	for (b = 0; b < NBLK; b++) {
		vf_ent[b].buf = vf_cbuf[b];
		vf_cbuf[b][0] = 'O';
		vf_cbuf[b][1] = (char) b;
		vf_ent[b].in_use = (IN.mask >> b) & 1;
		vf_ent[b].block = b;
	}
	for (i = 0; i < CNT * BS; i++)
		in[i] = IN.data[i];

	rc = unix_write_blk64(&vf_chan, BLOCK, CNT, in);

#ifdef WITH_WRITETHROUGH
	PROP(vf_raw_calls == 1 && vf_raw_block == BLOCK && vf_raw_count == CNT && vf_raw_data_ok,
	     "write-through: the device receives exactly the request, in one write");
	PROP(vf_raw_before_cache, "write-through: the device write precedes the cache update");
#else
	PROP(vf_raw_calls == 0, "write-back: no device write for a cached-size request");
#endif
	if (IN.evict_fails_at < vf_reuse_calls)
		PROP(rc != 0, "a failed eviction is reported to the caller");
#ifdef WITH_WRITETHROUGH
	else if (IN.raw_rc != 0)
		PROP(rc == IN.raw_rc, "a failed write-through device write is reported to the caller");
#endif
	else {
		PROP(rc == 0, "write succeeds");
		for (k = 0; k < CNT; k++)
			for (b = 0; b < NBLK; b++)
				if (b == BLOCK + k) {
					PROP((vf_mask >> b) & 1, "every written block is cached afterwards");
					PROP((unsigned char) vf_cbuf[b][0] == IN.data[k * BS] &&
					     (unsigned char) vf_cbuf[b][1] == IN.data[k * BS + 1],
					     "the cache entry of block k holds exactly the caller's bytes for block k");
#ifdef WITH_WRITETHROUGH
					PROP(!vf_ent[b].dirty, "write-through: entries stay clean");
#else
					PROP(vf_ent[b].dirty, "write-back: entries are marked dirty");
#endif
				}
	}
	for (b = 0; b < NBLK; b++)
		if (b < BLOCK || b >= BLOCK + CNT)
			PROP((unsigned char) vf_cbuf[b][0] == 'O' && vf_cbuf[b][1] == (char) b,
			     "entries of blocks outside the request keep their content");
	VF_END();
	return 0;
}
