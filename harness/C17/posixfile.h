/*
 * posixfile.h -- the device as a byte array; deterministic POSIX file calls over
 * it.  This is the trusted environment model of C17/C04/C12/C13 harnesses.
 *
 * STUB: pread64/pwrite64/lseek+read/write move bytes between the caller's buffer and vf_dev[]; a request beyond the device end is short
 * STUB: fallocate(ZERO_RANGE|PUNCH_HOLE) zeroes the range; fsync/ftruncate/close succeed; fstat reports the device size
 * Fault knobs (used only by the fault harnesses): from the k-th pwrite64/write call on every write fails with EIO; or a bad sector
 * (every write touching a byte range fails, all others succeed).
 */
#include <errno.h>
#include <sys/stat.h>

#ifndef VF_DEVCAP
#define VF_DEVCAP F
#endif
static unsigned char vf_dev[VF_DEVCAP];
static long vf_dev_size;
static long vf_pos;
static int vf_closed, vf_fsyncs, vf_nwrites;
static int vf_fail_write_at = -1;	/* every device write from this index on fails (pwrite and its lseek+write retry alike), -1: none */
static long vf_bad_lo = -1, vf_bad_hi = -1;	/* bad sector: every write touching device bytes [lo, hi) fails with EIO (persistently), others succeed */
static int vf_bad_hits;				/* number of device writes that failed on the bad sector */
static int vf_write_seen_rdonly;	/* set if a write reaches a descriptor opened read-only */
static int vf_rdonly;

/* All array indices below are CONCRETE loop counters (the symbolic offset only
 * appears in comparisons): symbolic array indexing made these queries 50x slower. */
static long vf_do_read(void *buf, unsigned long n, long off)
{
	unsigned long i;
	long p, cnt = 0;
	unsigned char *b = buf;
	if (off < 0) { errno = EINVAL; return -1; }
#ifdef VF_INRANGE
	/* every request of this harness lies inside the device: CHECKED here, so the
	 * short-read path is cut by a verified fact and the return value is a constant */
	PROP(n <= MAXIO && off + (long) n <= vf_dev_size, "env: device request inside the device");
	for (i = 0; i < n; i++)
		for (p = 0; p < VF_DEVCAP; p++)
			if (p == off + (long) i)
				b[i] = vf_dev[p];
	return (long) n;
#endif
	for (i = 0; i < n && i < MAXIO; i++) {
		if (off + (long) i >= vf_dev_size)
			break;
		for (p = 0; p < VF_DEVCAP; p++)
			if (p == off + (long) i)
				b[i] = vf_dev[p];
		cnt++;
	}
	return cnt;
}

static long vf_do_write(const void *buf, unsigned long n, long off)
{
	unsigned long i;
	long p, cnt = 0;
	const unsigned char *b = buf;
	if (vf_rdonly) vf_write_seen_rdonly = 1;
	if (vf_fail_write_at >= 0 && vf_nwrites++ >= vf_fail_write_at) { errno = EIO; return -1; }
	if (vf_bad_lo >= 0 && off < vf_bad_hi && off + (long) n > vf_bad_lo) { vf_bad_hits++; errno = EIO; return -1; }
	if (off < 0) { errno = EINVAL; return -1; }
#ifdef VF_INRANGE
	PROP(n <= MAXIO && off + (long) n <= vf_dev_size, "env: device request inside the device");
	for (i = 0; i < n; i++)
		for (p = 0; p < VF_DEVCAP; p++)
			if (p == off + (long) i)
				vf_dev[p] = b[i];
	return (long) n;
#endif
	for (i = 0; i < n && i < MAXIO; i++) {
		if (off + (long) i >= VF_DEVCAP)
			break;
		for (p = 0; p < VF_DEVCAP; p++)
			if (p == off + (long) i)
				vf_dev[p] = b[i];
		cnt++;
	}
	if (off + cnt > vf_dev_size)
		vf_dev_size = off + cnt;
	return cnt;
}

ssize_t vf_pread64(int fd, void *buf, size_t n, __off64_t off)
{
	(void) fd;
	return vf_do_read(buf, n, (long) off);
}

ssize_t vf_pwrite64(int fd, const void *buf, size_t n, __off64_t off)
{
	(void) fd;
	return vf_do_write(buf, n, (long) off);
}

ext2_loff_t vf_llseek(int fd, ext2_loff_t off, int whence)
{
	(void) fd;
	if (whence != SEEK_SET || off < 0) { errno = EINVAL; return -1; }
	vf_pos = (long) off;
	return off;
}

__off_t vf_lseek(int fd, __off_t off, int whence)
{
	return (__off_t) vf_llseek(fd, off, whence);
}

ssize_t vf_read(int fd, void *buf, size_t n)
{
	long r = vf_do_read(buf, n, vf_pos);
	(void) fd;
	if (r > 0) vf_pos += r;
	return r;
}

ssize_t vf_write(int fd, const void *buf, size_t n)
{
	long r = vf_do_write(buf, n, vf_pos);
	(void) fd;
	if (r > 0) vf_pos += r;
	return r;
}

int vf_fsync(int fd) { (void) fd; vf_fsyncs++; return 0; }
int vf_close(int fd) { (void) fd; vf_closed++; return 0; }

int vf_fallocate(int fd, int mode, __off_t off, __off_t len)
{
	long i;
	(void) fd; (void) mode;
	if (vf_rdonly) vf_write_seen_rdonly = 1;
	for (i = 0; i < VF_DEVCAP; i++)
		if (i >= off && i < off + len && i < vf_dev_size)
			vf_dev[i] = 0;
	return 0;
}

int vf_ftruncate(int fd, __off_t len)
{
	long i;
	(void) fd;
	if (vf_rdonly) vf_write_seen_rdonly = 1;
	if (len > VF_DEVCAP) { errno = EFBIG; return -1; }
	for (i = 0; i < VF_DEVCAP; i++)
		if (i >= vf_dev_size && i < len)
			vf_dev[i] = 0;
	vf_dev_size = len;
	return 0;
}

int vf_fstat(int fd, struct stat *st)
{
	(void) fd;
	memset(st, 0, sizeof(*st));
	st->st_size = vf_dev_size;
	st->st_mode = S_IFREG | 0600;
	return 0;
}

int vf_ioctl(int fd, unsigned long req, ...)
{
	(void) fd; (void) req;
	errno = ENOTTY;
	return -1;
}

int vf_posix_fadvise(int fd, __off_t off, __off_t len, int advice)
{
	(void) fd; (void) off; (void) len; (void) advice;
	return 0;
}
