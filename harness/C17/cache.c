/*
 * C17/cache: the unix_io block cache, ONE channel operation from an ARBITRARY
 * valid cache state (pattern I).
 *
 * Device = byte array dev[F].  The user-visible content ("model") of block b is
 *     M(b) = buf of the in-use cache entry holding b, if any, else dev[b].
 * Representation invariant Inv (assumed before, asserted after):
 *   in-use entries hold distinct blocks < NBLK, have a buffer, access_time <=
 *   data->access_time, and a CLEAN in-use entry equals the device (dirty entries
 *   may differ: they are what flush must write).
 * Coherence: a read returns M; a write makes M' = M[range := data]; after
 * flush/close/set_blksize dev == M; every op preserves Inv.
 *
 * Real code: unix_io.c (included: statics), io_manager.c.  Environment: POSIX
 * file calls over dev[] (posixfile.h), all succeed (faults: faults.c harness).
 */
#define pread64 vf_pread64
#define pwrite64 vf_pwrite64
#define fsync vf_fsync
#define fallocate vf_fallocate
#define ftruncate vf_ftruncate
#define ext2fs_llseek vf_llseek
#define lseek vf_lseek
#define read vf_read
#define write vf_write
#define close vf_close
#define fstat vf_fstat
#define ioctl vf_ioctl
#define posix_fadvise vf_posix_fadvise
#include "lib/ext2fs/unix_io.c"
#include "lib/ext2fs/io_manager.c"

#ifndef BS
#define BS 2
#endif
#ifndef NBLK
#define NBLK 12
#endif
#define F (NBLK * BS)
#ifndef CNT
#define CNT 1
#endif
#define MAXIO (8 * BS)

#define OP_READ 1
#define OP_WRITE 2
#define OP_WRITE_BYTE 3
#define OP_FLUSH 4
#define OP_ZEROOUT 5
#define OP_DISCARD 6
#define OP_SET_BLKSIZE 7
#define OP_CLOSE 8
#define OP_CACHE_OFF 9

struct vf_entry {
	unsigned char buf[BS];
	unsigned char block, in_use, dirty;
	int at;
};
struct vf_in {
	unsigned char dev[F];
	struct vf_entry e[CACHE_SIZE];
	int access_time;
	unsigned long long block;	/* operation arguments */
	unsigned int nbytes, offset;
	unsigned char data[MAXIO];
	unsigned char writethrough, nocache;
	unsigned char probe;
	unsigned char failk;
};
VF_DECLARE_INPUT(struct vf_in, IN)
#include "vf_input.inc"

#include "posixfile.h"

static struct struct_io_channel vf_chan;
static struct unix_private_data vf_data;
static unsigned char Mb[F], Eb[F], Pb[F];
static unsigned char vf_bufs[CACHE_SIZE][BS];

/* decode the user-visible content from (cache, device); concrete array indices only */
static void vf_decode(unsigned char *m)
{
	int i, j;
	for (i = 0; i < F; i++) {
		m[i] = vf_dev[i];
		for (j = 0; j < CACHE_SIZE; j++)
			if (vf_data.cache[j].in_use && vf_data.cache[j].block == (unsigned) (i / BS))
				m[i] = (unsigned char) vf_data.cache[j].buf[i % BS];
	}
}

static int vf_inv(void)
{
	int i, j, p;
	for (i = 0; i < CACHE_SIZE; i++) {
		struct unix_cache *c = &vf_data.cache[i];
		if (!c->in_use)
			continue;
		if (c->block >= NBLK || !c->buf) return 1;
		if (c->access_time > vf_data.access_time) return 2;
		for (j = i + 1; j < CACHE_SIZE; j++)
			if (vf_data.cache[j].in_use && vf_data.cache[j].block == c->block) return 3;
		if (!c->dirty)
			for (p = 0; p < F; p++)
				if (c->block == (unsigned) (p / BS) && (unsigned char) c->buf[p % BS] != vf_dev[p]) return 4;
	}
	return 0;
}

int main(void)
{
	io_channel ch = &vf_chan;
	errcode_t rc = 0;
	int i, k;
	static unsigned char out[MAXIO + 2];

	VF_INPUT(IN);
	for (i = 0; i < F; i++)
		vf_dev[i] = IN.dev[i];
	vf_dev_size = F;
	/* vf_chan / vf_data are zero-initialised statics: no memset, so the fields stay constants */
	vf_chan.magic = EXT2_ET_MAGIC_IO_CHANNEL;
	vf_chan.manager = unix_io_manager;
	vf_chan.block_size = BS;
	vf_chan.private_data = &vf_data;
	vf_chan.refcount = 1;
#ifdef WITH_WRITETHROUGH	/* configuration bits are compile-time so they constant-propagate */
	vf_chan.flags = CHANNEL_FLAGS_WRITETHROUGH;
#else
	vf_chan.flags = 0;
#endif
	vf_data.magic = EXT2_ET_MAGIC_UNIX_IO_CHANNEL;
	vf_data.dev = 3;
#ifdef WITH_NOCACHE
	vf_data.flags = IO_FLAG_NOCACHE;
#else
	vf_data.flags = 0;
#endif
	/* BOUND: access_time below 2^30 (the counter is an int that only grows) */
	ASSUME(IN.access_time >= 0 && IN.access_time < (1 << 30));
	vf_data.access_time = IN.access_time;
	for (i = 0; i < CACHE_SIZE; i++) {
		struct unix_cache *c = &vf_data.cache[i];
#if OP == OP_SET_BLKSIZE || OP == OP_CLOSE
		c->buf = malloc(BS);		/* these operations free the buffers */
		ASSUME(c->buf != 0);
#else
		c->buf = (char *) vf_bufs[i];	/* one object for all buffers: cheaper pointer reasoning */
#endif
		for (k = 0; k < BS; k++)
			c->buf[k] = IN.e[i].buf[k];
		ASSUME(IN.e[i].in_use <= 1 && IN.e[i].dirty <= 1);
		c->in_use = IN.e[i].in_use;
		c->dirty = IN.e[i].dirty;
		c->block = IN.e[i].block;
		c->access_time = IN.e[i].at;
		ASSUME(c->access_time >= 0);
#ifdef WITH_WRITETHROUGH
		/* ASSUME: CHANNEL_FLAGS_WRITETHROUGH is set on a channel whose cache holds no dirty block (no e2fsprogs tool toggles it; with the flag set entries are never made dirty) */
		ASSUME(!c->dirty);
#endif
#ifdef WITH_NOCACHE
		/* ASSUME: a channel with the cache disabled has an empty cache (IO_FLAG_NOCACHE at open; toggling with set_option on a populated cache is outside the claim) */
		ASSUME(!c->in_use);
#endif
		/* an unused entry is never dirty (alloc_cache/reuse_cache/flush keep it so) */
		if (!c->in_use) ASSUME(!c->dirty);
	}
	ASSUME(vf_inv() == 0);			/* Inv on the pre-state */
#ifdef FAULT
	/* fault schedule: the device starts failing at the k-th write call of this operation (EIO from then on, k symbolic) */
#ifdef BADSECTOR
	/* ... or a bad sector: every device write touching block IN.failk fails (persistently), all other writes succeed */
	ASSUME(IN.failk < NBLK);
	vf_bad_lo = (long) IN.failk * BS;
	vf_bad_hi = vf_bad_lo + BS;
#define VF_FAULT_HAPPENED (vf_bad_hits > 0)
#else
	ASSUME(IN.failk <= 2);
	vf_fail_write_at = IN.failk;
#define VF_FAULT_HAPPENED (vf_nwrites > vf_fail_write_at)
#endif
#endif
	vf_decode(Mb);
	for (i = 0; i < F; i++)
		Eb[i] = Mb[i];

#if OP == OP_READ || OP == OP_WRITE
	{
		unsigned long long block = IN.block;
		int count = CNT;		/* concrete per query so sizes constant-propagate */
		unsigned int nb = count < 0 ? (unsigned) -count : (unsigned) count * BS;
		/* ASSUME: the request lies inside the device (callers address existing blocks) */
		ASSUME(block < NBLK && block * BS + nb <= F);
#if OP == OP_READ
		for (i = 0; i < (int) nb; i++) out[i] = IN.data[i] ^ 0x5a;
		rc = unix_read_blk64(ch, block, count, out);
		PROP(rc == 0, "read succeeds");
		for (i = 0; i < (int) nb; i++)
			PROP(out[i] == Mb[block * BS + i], "read returns the most recently written bytes");
#else
		for (i = 0; i < (int) nb; i++) {
			out[i] = IN.data[i];
			Eb[block * BS + i] = IN.data[i];
		}
		rc = unix_write_blk64(ch, block, count, out);
#ifdef FAULT
		if (VF_FAULT_HAPPENED) {
			/* the failing device write happened: the caller must learn about it */
			PROP(rc != 0, "a failed device write is reported to the caller");
			VF_END();
			return 0;
		}
#endif
		PROP(rc == 0, "write succeeds");
#endif
	}
#elif OP == OP_WRITE_BYTE
	{
		unsigned int off = IN.offset, sz = IN.nbytes;
		ASSUME(sz >= 1 && sz <= MAXIO && off < F && off + sz <= F);
		for (i = 0; i < MAXIO; i++) {
			out[i] = IN.data[i];
			if (i < (int) sz) Eb[off + i] = IN.data[i];
		}
		rc = unix_write_byte(ch, off, (int) sz, out);
		PROP(rc == 0, "write_byte succeeds");
	}
#elif OP == OP_FLUSH
	rc = unix_flush(ch);
#ifdef FAULT
	if (VF_FAULT_HAPPENED) {
		PROP(rc != 0, "a failed device write is reported to the caller");
		vf_decode(Pb);
		for (i = 0; i < F; i++)
			PROP(Pb[i] == Mb[i], "a failed flush loses no data (the block stays cached and dirty)");
		VF_END();
		return 0;
	}
#endif
	PROP(rc == 0, "flush succeeds");
	for (i = 0; i < F; i++)
		PROP(vf_dev[i] == Mb[i], "after flush the backing file holds exactly the written bytes");
	/* blocks evicted earlier (reuse_cache) reached the device by a bare pwrite: only an fsync issued by
	 * EVERY flush makes them durable, whether or not this flush itself had anything left to write */
	PROP(vf_fsyncs == 1, "flush always ends with an fsync of the device");
#elif OP == OP_CACHE_OFF
	rc = unix_set_option(ch, "cache", "off");
	PROP(rc == 0, "cache=off succeeds");
	for (i = 0; i < F; i++)
		PROP(vf_dev[i] == Mb[i], "cache=off: dirty data reaches the device before the cache is bypassed");
#elif OP == OP_ZEROOUT || OP == OP_DISCARD
	{
		unsigned long long block = IN.block, cnt = IN.nbytes;
		ASSUME(block < NBLK && cnt >= 1 && block + cnt <= NBLK);
#if OP == OP_ZEROOUT
		for (i = 0; i < F; i++)
			if ((unsigned) i >= block * BS && (unsigned) i < (block + cnt) * BS)
				Eb[i] = 0;
		rc = unix_zeroout(ch, block, cnt);
		PROP(rc == 0, "zeroout succeeds");
#else
		rc = unix_discard(ch, block, cnt);
		PROP(rc == 0, "discard succeeds");
		/* discarded blocks have no defined content: only coherence is required,
		 * outside the range nothing may change */
		vf_decode(Pb);
		for (i = 0; i < F; i++)
			if (!((unsigned) i >= block * BS && (unsigned) i < (block + cnt) * BS))
				PROP(Pb[i] == Mb[i], "discard leaves other blocks unchanged");
		PROP(vf_inv() == 0, "Inv preserved (cache coherent with device)");
		VF_END();
		return 0;
#endif
	}
#elif OP == OP_SET_BLKSIZE
	rc = unix_set_blksize(ch, 2 * BS);
	PROP(rc == 0, "set_blksize succeeds");
	for (i = 0; i < F; i++)
		PROP(vf_dev[i] == Mb[i], "set_blksize flushes: device holds the written bytes");
	for (i = 0; i < CACHE_SIZE; i++)
		PROP(!vf_data.cache[i].in_use, "set_blksize empties the cache");
	VF_END();
	return 0;
#elif OP == OP_CLOSE
	{
		io_channel hc = malloc(sizeof(*hc));
		struct unix_private_data *hd = malloc(sizeof(*hd));
		ASSUME(hc && hd);
		*hd = vf_data;
		*hc = vf_chan;
		hc->private_data = hd;
		hc->name = 0;
		rc = unix_close(hc);
#ifdef FAULT
		if (VF_FAULT_HAPPENED) {
			/* the last chance to learn that a dirty block never reached the device */
			PROP(rc != 0, "a failed device write is reported to the caller");
			PROP(vf_closed == 1, "close closes the descriptor once");
			VF_END();
			return 0;
		}
#endif
		PROP(rc == 0, "close succeeds");
		for (i = 0; i < F; i++)
			PROP(vf_dev[i] == Mb[i], "after close the backing file holds exactly the written bytes");
		PROP(vf_closed == 1, "close closes the descriptor once");
		VF_END();
		return 0;
	}
#else
#error OP
#endif
	vf_decode(Pb);
	for (i = 0; i < F; i++)
		PROP(Pb[i] == Eb[i], "user-visible content after the operation equals the model");
	PROP(vf_inv() == 0, "Inv preserved (cache coherent with device)");
#ifdef FOLLOWUP_READ
	/* and a following single-block read through the real code agrees */
	{
		unsigned long long p = IN.probe;
		if (p < NBLK) {
			rc = unix_read_blk64(ch, p, 1, out);
			PROP(rc == 0, "follow-up read succeeds");
			for (k = 0; k < BS; k++)
				PROP(out[k] == Eb[p * BS + k], "follow-up read of any block returns the model's bytes");
		}
	}
#endif
	VF_END();
	return 0;
}
