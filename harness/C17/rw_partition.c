/*
 * C17/rw_partition: ext2fs_rw_bitmaps() -- how the groups are divided among the
 * loader threads and how the per-thread results are merged (pattern P).
 *
 * pthread_create is a recording stub (the thread body, read_bitmaps_range_start,
 * is cut here and checked by rw_locks.c): for EVERY group count (32 bit),
 * requested thread count and flex_bg geometry the recorded ranges must be
 * ordered, pairwise disjoint and cover [0, group_desc_count-1]
 * exactly; the merged tail flags must be the OR over ALL threads; the first
 * failing thread's error is returned; the channel cache is switched back on.
 * When the threaded path is not taken the single range [0, count-1] is loaded.
 */
#include <pthread.h>
#define pthread_create stub_pthread_create
#define pthread_join stub_pthread_join
#define pthread_attr_init stub_pthread_attr_init
#define pthread_attr_destroy stub_pthread_attr_destroy
#define sysconf stub_sysconf
#include "config.h"
#include "ext2_fs.h"
#include "ext2fs.h"
/* prototype of the cut static (run.py renames its definition to vf_cut_...) */
typedef pthread_mutex_t vf_mutex_t;
static errcode_t read_bitmaps_range_start(ext2_filsys fs, int flags, dgrp_t start, dgrp_t end,
					  vf_mutex_t *mutex, int *tail_flags);
#include "lib/ext2fs/rw_bitmaps.c"

#define MAXT 4

struct vf_in {
	__u32 group_desc_count;
	int num_threads;
	unsigned char log_flex;		/* s_log_groups_per_flex */
	unsigned char flex_bg, chan_threads, image_file;
	int tf[MAXT];			/* per-thread tail flags */
	long rv[MAXT];			/* per-thread return value */
	int fsflags;
	int nproc;
};
VF_DECLARE_INPUT(struct vf_in, IN)
#include "vf_input.inc"

static int vf_nthreads;
static dgrp_t vf_start[MAXT + 1], vf_end[MAXT + 1];
static int vf_cache_state = 1, vf_cache_toggles;
static int vf_direct_calls;
static dgrp_t vf_direct_start, vf_direct_end;

/* STUB: pthread_create records the range it is given and plays the thread's outcome (symbolic tail flags / error) */
int stub_pthread_create(pthread_t *t, const pthread_attr_t *a, void *(*fn)(void *), void *arg)
{
	struct read_bitmaps_thread_info *rbt = arg;
	int i = vf_nthreads;
	(void) a; (void) fn;
	if (i < MAXT) {
		vf_start[i] = rbt->rbt_grp_start;
		vf_end[i] = rbt->rbt_grp_end;
		rbt->rbt_tail_flags = IN.tf[i];
		rbt->rbt_retval = IN.rv[i];
	}
	vf_nthreads++;
	*t = (pthread_t) (i + 1);
	return 0;
}
int stub_pthread_join(pthread_t t, void **r) { (void) t; (void) r; return 0; }
int stub_pthread_attr_init(pthread_attr_t *a) { (void) a; return 0; }
int stub_pthread_attr_destroy(pthread_attr_t *a) { (void) a; return 0; }
long stub_sysconf(int n) { (void) n; return IN.nproc; }

/* STUB: the thread body / single-threaded loader: records the range (its own harness: rw_locks.c) */
static errcode_t read_bitmaps_range_start(ext2_filsys fs, int flags, dgrp_t start, dgrp_t end,
					  vf_mutex_t *mutex, int *tail_flags)
{
	(void) fs; (void) flags; (void) mutex;
	vf_direct_calls++;
	vf_direct_start = start;
	vf_direct_end = end;
	*tail_flags = IN.tf[0];
	return IN.rv[0];
}

/* STUB: bitmap allocation/free succeed (C16 covers the bitmaps) */
static int vf_dummy_bitmap;
errcode_t ext2fs_allocate_inode_bitmap(ext2_filsys fs, const char *d, ext2fs_inode_bitmap *ret)
{
	(void) fs; (void) d;
	*ret = (ext2fs_inode_bitmap) &vf_dummy_bitmap;
	return 0;
}
errcode_t ext2fs_allocate_block_bitmap(ext2_filsys fs, const char *d, ext2fs_block_bitmap *ret)
{
	(void) fs; (void) d;
	*ret = (ext2fs_block_bitmap) &vf_dummy_bitmap;
	return 0;
}
void ext2fs_free_inode_bitmap(ext2fs_inode_bitmap b) { (void) b; }
void ext2fs_free_block_bitmap(ext2fs_block_bitmap b) { (void) b; }
/* STUB: io_channel_set_options records cache=off / cache=on */
errcode_t io_channel_set_options(io_channel ch, const char *opts)
{
	(void) ch;
	vf_cache_toggles++;
	vf_cache_state = (opts[6] == 'o' && opts[7] == 'n') ? 1 : 0;	/* "cache=on" / "cache=off" */
	return 0;
}

static struct struct_ext2_filsys vf_fs;
static struct ext2_super_block vf_sb;
static struct struct_io_channel vf_io;
static char vf_name[2] = "x";

int main(void)
{
	errcode_t rc;
	int i, expect_flags, any_err = 0;
	long first_err = 0;

	VF_INPUT(IN);
	ASSUME(IN.group_desc_count >= 1);
	ASSUME(IN.log_flex <= 31);
	/* BOUND: at most MAXT=4 threads are actually started (min(requested or nproc, group count) <= 4) */
	ASSUME(IN.nproc >= -1 && IN.nproc <= MAXT);
	ASSUME(IN.num_threads <= MAXT || IN.group_desc_count <= MAXT);
	/* ASSUME: tail flags are the two TAIL_PROBLEM bits, thread errors are 0 or positive codes */
	for (i = 0; i < MAXT; i++) {
		ASSUME((IN.tf[i] & ~(EXT2_FLAG_BBITMAP_TAIL_PROBLEM | EXT2_FLAG_IBITMAP_TAIL_PROBLEM)) == 0);
		ASSUME(IN.rv[i] >= 0);
	}
	vf_fs.magic = EXT2_ET_MAGIC_EXT2FS_FILSYS;
	vf_fs.super = &vf_sb;
	vf_fs.io = &vf_io;
	vf_fs.device_name = vf_name;
	vf_fs.blocksize = 1024;
	vf_fs.group_desc_count = IN.group_desc_count;
	vf_fs.flags = (IN.fsflags & ~EXT2_FLAG_IMAGE_FILE) | (IN.image_file ? EXT2_FLAG_IMAGE_FILE : 0);
	vf_sb.s_log_groups_per_flex = IN.log_flex;
	vf_sb.s_feature_incompat = IN.flex_bg ? EXT4_FEATURE_INCOMPAT_FLEX_BG : 0;
	vf_sb.s_blocks_per_group = 8192;
	vf_sb.s_clusters_per_group = 8192;
	vf_sb.s_inodes_per_group = 8192;
	vf_io.flags = IN.chan_threads ? CHANNEL_FLAGS_THREADS : 0;

	rc = ext2fs_rw_bitmaps(&vf_fs, EXT2FS_BITMAPS_INODE, IN.num_threads);

	if (vf_nthreads == 0) {
		/* single-threaded path */
		PROP(vf_direct_calls == 1 && vf_direct_start == 0 && vf_direct_end == IN.group_desc_count - 1,
		     "unthreaded load covers exactly [0, group_desc_count-1]");
		PROP(vf_cache_toggles == 0, "unthreaded load leaves the cache setting alone");
	} else {
		PROP(vf_direct_calls == 0, "threaded load does not also load inline");
		PROP(vf_nthreads <= MAXT, "thread count within the stated bound");
		PROP(vf_start[0] == 0, "first range starts at group 0");
		PROP(vf_end[vf_nthreads - 1] == IN.group_desc_count - 1, "last range ends at the last group");
		for (i = 0; i < MAXT; i++)
			if (i < vf_nthreads) {
				/* a thread may get an EMPTY range [e+1, e] (group count <= thread count): harmless, it loads nothing */
				PROP(vf_start[i] <= vf_end[i] + 1, "every range is well-formed (possibly empty)");
				if (i + 1 < vf_nthreads)
					PROP(vf_start[i + 1] == vf_end[i] + 1,
					     "ranges are contiguous: no group loaded twice, none skipped");
			}
		PROP(vf_cache_toggles == 2 && vf_cache_state == 1, "cache switched off for the load and back on afterwards");
	}
	/* merged outcome */
	expect_flags = vf_fs.flags;	/* placeholder, recomputed below */
	{
		int tf = 0, n = vf_nthreads ? vf_nthreads : 1;
		for (i = 0; i < MAXT; i++)
			if (i < n) {
				tf |= IN.tf[i];
				if (IN.rv[i] && !any_err) { any_err = 1; first_err = IN.rv[i]; }
			}
		if (any_err)
			PROP(rc == first_err, "the first failing thread's error is returned");
		else {
			int before = (IN.fsflags & ~EXT2_FLAG_IMAGE_FILE) | (IN.image_file ? EXT2_FLAG_IMAGE_FILE : 0);
			PROP(rc == 0, "success when no thread failed");
			expect_flags = (before & ~EXT2_FLAG_IBITMAP_TAIL_PROBLEM) | tf;
			PROP(vf_fs.flags == expect_flags,
			     "fs flags after loading = flags of a single-threaded load (tail problems of ALL threads merged)");
		}
	}
	VF_END();
	return 0;
}
