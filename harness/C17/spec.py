META = {
    "assumptions": ["allocation failure out of scope (--no-malloc-may-fail)",
                    "the POSIX file model in harness/C17/posixfile.h is the trusted environment (no kernel page cache / O_DIRECT semantics)"],
    "outside": ["data races of the threaded bitmap loader (argued from partition + lock discipline, not decided)",
                "block sizes > 2 bytes in the cache harness", "more than one device fault per operation",
                "test_io and undo_io wrappers (undo_io: see C12)"],
}
OPS = {"READ": 1, "WRITE": 2, "WRITE_BYTE": 3, "FLUSH": 4, "ZEROOUT": 5, "DISCARD": 6, "SET_BLKSIZE": 7,
       "CLOSE": 8, "CACHE_OFF": 9}

def uw(cs, extra=()):
    l = ["vf_do_read.0:26", "vf_do_write.0:26", "vf_do_read.1:18", "vf_do_write.1:18", "vf_fallocate.0:26", "vf_ftruncate.0:26",
         "raw_read_blk.0:2", "raw_read_blk.1:2", "raw_write_blk.0:2", "raw_write_blk.1:2",
         "vf_inv.0:27", "vf_inv.1:27", "vf_inv.2:27",
         "vf_decode.0:27", "vf_decode.1:27", "vf_decode.2:27"] + ["main.%d:26" % i for i in range(16)]
    l += ["find_cached_block.0:%d" % (cs + 1), "flush_cached_blocks.0:%d" % (cs + 1),
         "flush_cached_blocks.1:%d" % (cs + 1), "flush_cached_blocks.2:%d" % (cs + 2),
         "alloc_cache.0:%d" % (cs + 1), "free_cache.0:%d" % (cs + 1)]
    return l + list(extra)

def withcnt(d, cnt):
    """loops of the cached multi-block paths run at most count times"""
    d = dict(d)
    n = abs(cnt) + 1
    d["_unwindset"] = d["_unwindset"] + ["unix_read_blk64.%d:%d" % (i, n) for i in range(3)] \
        + ["unix_write_blk64.0:%d" % n]
    d["CNT"] = cnt
    return d

def cache_cfgs():
    c = []
    T = {"_tier": "thorough"}
    # back ends: measured -- the direct / whole-cache paths are kissat's (15-40 s vs > 300 s for minisat),
    # the cached single-block paths minisat's
    real = {"VF_INRANGE": None, "_unwindset": uw(8), "_backends": ["kissat", "default"]}   # the real geometry: CACHE_SIZE 8, WRITE_DIRECT_SIZE 4
    small = {"E2FSPROGS_VERIF_CACHE_SIZE": 4, "E2FSPROGS_VERIF_WRITE_DIRECT_SIZE": 2, "NBLK": 6, "VF_INRANGE": None, "_unwindset": uw(4), "_backends": ["default", "kissat"]}
    tiny = {"E2FSPROGS_VERIF_CACHE_SIZE": 3, "E2FSPROGS_VERIF_WRITE_DIRECT_SIZE": 2, "NBLK": 5, "VF_INRANGE": None, "_unwindset": uw(3)}
    for op in ("READ", "WRITE"):
        # direct paths (count > WRITE_DIRECT_SIZE, byte counts) at the real geometry
        for cnt in (5, -3):
            c.append(dict(withcnt(real, cnt), OP=OPS[op]))
        c.append(dict(withcnt(real, -4), OP=OPS[op], **T))
        c.append(dict(withcnt(real, 6), OP=OPS[op], **T))
        # cached single block: scaled geometry in quick, real geometry in thorough
        c.append(dict(withcnt(small, 1), OP=OPS[op]))
        c.append(dict(withcnt(real, 1), OP=OPS[op], **T))
        # cached multi-block and the direct boundary (count = WRITE_DIRECT_SIZE + 1) at the scaled geometry
        c.append(dict(withcnt(small, 3), OP=OPS[op]))
        c.append(dict(withcnt(tiny, 2), OP=OPS[op], **T))
        c.append(dict(withcnt(small, 2), OP=OPS[op], **T))
        # NOT registered: the multi-block CACHED step at the real geometry (count 2 and 4) and a 3-block cached
        # step at a scaled geometry: no verdict in 1200 s / 8-10 GB on either back end (thorough run).  Those
        # paths are decided compositionally by read_protocol / write_protocol (callees cut) + the count-1 step.
    for op in ("WRITE_BYTE", "FLUSH", "ZEROOUT", "DISCARD", "SET_BLKSIZE", "CLOSE", "CACHE_OFF"):
        c.append(dict(real, OP=OPS[op]))
    c.append(dict(withcnt(small, 1), OP=OPS["WRITE"], WITH_WRITETHROUGH=None))
    c.append(dict(withcnt(real, 1), OP=OPS["WRITE"], WITH_WRITETHROUGH=None, **T))
    c.append(dict(withcnt(small, 2), OP=OPS["WRITE"], WITH_WRITETHROUGH=None, **T))
    # fault schedules: the k-th device write (k symbolic) of the operation fails
    c.append(dict(withcnt(small, 1), OP=OPS["WRITE"], FAULT=None))
    c.append(dict(withcnt(small, 1), OP=OPS["WRITE"], FAULT=None, WITH_WRITETHROUGH=None))
    c.append(dict(withcnt(small, 3), OP=OPS["WRITE"], FAULT=None))
    c.append(dict(small, OP=OPS["FLUSH"], FAULT=None))
    # bad sector: writes touching ONE symbolic block fail, all others succeed (an earlier failure must survive later successes)
    c.append(dict(small, OP=OPS["FLUSH"], FAULT=None, BADSECTOR=None))
    c.append(dict(small, OP=OPS["CLOSE"], FAULT=None))
    c.append(dict(small, OP=OPS["CLOSE"], FAULT=None, BADSECTOR=None))
    c.append(dict(withcnt(small, 1), OP=OPS["WRITE"], FAULT=None, BADSECTOR=None))
    c.append(dict(withcnt(small, 3), OP=OPS["WRITE"], FAULT=None, BADSECTOR=None, **T))
    c.append(dict(withcnt(real, 1), OP=OPS["WRITE"], WITH_NOCACHE=None))
    c.append(dict(withcnt(real, 1), OP=OPS["READ"], WITH_NOCACHE=None))
    return c

def raw_cfgs():
    c = []
    for op in (1, 2):
        for cnt in (1, 2, -3, -5):
            t = {} if cnt in (2, -3) else {"_tier": "thorough"}
            c.append(dict({"OP": op, "CNT": cnt, "ALIGN": 0}, **t))                       # pread/pwrite path
            c.append(dict({"OP": op, "CNT": cnt, "ALIGN": 4}, **t))                       # aligned or bounce, decided by the symbolic skew/offset
            c.append(dict({"OP": op, "CNT": cnt, "ALIGN": 0, "FORCE_BOUNCE": None}, **t)) # IO_FLAG_FORCE_BOUNCE
        c.append({"OP": op, "CNT": 1, "ALIGN": 8, "_tier": "thorough"})                   # alignment larger than the block
    return c

def wp_cfgs():
    c = []
    for cnt, blk, t in ((4, 2, {}), (3, 0, {}), (1, 5, {"_tier": "thorough"}), (2, 6, {"_tier": "thorough"})):
        uw = ["unix_write_blk64.0:%d" % (cnt + 1)]
        d = dict({"CNT": cnt, "BLOCK": blk, "_unwindset": uw}, **t)
        c.append(dict(d, FAULT=None))
        c.append(dict(d, FAULT=None, WITH_WRITETHROUGH=None))
    return c

HARNESSES = [
    dict(name="write_protocol", src="write_protocol.c",
         cut_statics={"lib/ext2fs/unix_io.c": ["find_cached_block", "raw_write_blk", "reuse_cache"]},
         funcs=["unix_write_blk64"], configs=wp_cfgs(), unwind=10, backends=["default"],
         bound="real cache geometry; request of 3 and 4 (thorough: 1, 2) blocks, start block concrete per query, every cached/uncached pattern, "
               "write-back and write-through, eviction / device-write failure symbolic; callees cut to specification stubs"),
    dict(name="rw_locks", src="rw_locks.c",
         funcs=["read_bitmaps_range_start", "bitmap_tail_verify"],
         unwind=4, unwindset=["bitmap_tail_verify.0:10", "io_channel_read_blk64.0:10", "main.0:3", "main.1:3", "main.2:3",
                              "vf_record.0:3", "read_bitmaps_range_start.2:4"],
         backends=["default", "kissat"],
         bound="any 32-bit first group, range of 1 or 2 groups, 1 KiB blocks, 8128 bits per group, cluster ratio 1..16, "
               "block and/or inode bitmap requested; read failures, uninitialised groups and bad padding symbolic per group"),
    dict(name="raw", src="raw.c", funcs=["raw_read_blk"],
         configs=raw_cfgs(), unwind=8,
         unwindset=["vf_do_read.0:26", "vf_do_write.0:26", "vf_do_read.1:18", "vf_do_write.1:18"] +
                   ["main.%d:26" % i for i in range(10)],
         backends=["default", "kissat"],
         bound="block size 4, 6 blocks, channel offset 0..7 (unaligned offsets included), caller-buffer skew 0..3, "
               "alignment 0/4/8, forced bounce; counts 1, 2 blocks and 3, 5 bytes; all data symbolic"),
    dict(name="read_protocol", src="read_protocol.c",
         cut_statics={"lib/ext2fs/unix_io.c": ["find_cached_block", "raw_read_blk", "reuse_cache"]},
         funcs=["unix_read_blk64"],
         configs=[{"CNT": c, "_unwindset": ["unix_read_blk64.%d:%d" % (i, c + 1) for i in range(3)]} for c in (2, 3, 4)],
         unwind=10, backends=["default"],
         bound="real cache geometry; request of 2, 3 and 4 blocks (every cached-path count), any start block, every "
               "cached/uncached pattern (symbolic mask over 8 blocks); callees cut to specification stubs"),
    dict(name="rw_partition", src="rw_partition.c",
         cut_statics={"lib/ext2fs/rw_bitmaps.c": ["read_bitmaps_range_start"]},
         funcs=["ext2fs_rw_bitmaps", "read_bitmaps_range_prepare", "read_bitmaps_range_end"],
         unwind=6, unwindset=["main.0:6", "main.1:6", "main.2:6", "strcpy.0:24", "strcat.0:24", "strcat.1:24", "strlen.0:24"],
         backends=["default", "kissat", "z3"],
         bound="group_desc_count: all 2^32 values; requested threads: any int, at most 4 started; "
               "s_log_groups_per_flex 0..31, flex_bg on/off; per-thread tail flags and error codes symbolic"),
    dict(name="cache", src="cache.c",
         funcs=["unix_read_blk64", "find_cached_block", "reuse_cache",
                "raw_read_blk", "raw_write_blk"],
         configs=cache_cfgs(), unwind=7, backends=["default", "kissat"], cap_quick=300,
         bound="block size 2 bytes, 12 blocks; all 8 (scaled: 4) cache entries symbolic under Inv; one operation, "
               "count concrete per query in {1,2,3,4,5,-3,-4}, block/offset/data symbolic"),
]
MANIFEST = {
    "text": "Bounded-exhaustive inductive step on the block cache: from every cache/device state satisfying the "
            "coherence invariant, one channel operation with symbolic arguments returns/stores the model's bytes "
            "and re-establishes the invariant; flush/close make the device equal the model. Thread partition and "
            "lock discipline of the bitmap loader decided for all geometries; schedule-independence argued from them.",
    "note": "Trusted: the POSIX file model (byte array), CBMC's C semantics. Block size 2, 12 blocks; multi-block "
            "cached paths at a scaled cache geometry (hook H1). Data races are not decided.",
}
