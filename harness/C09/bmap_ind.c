/*
 * C09/bmap_ind: logical -> physical mapping of a BLOCK-MAPPED inode through the REAL
 * ext2fs_bmap2 / block_ind_bmap / block_dind_bmap / block_tind_bmap (bmap.c), lookup and
 * BMAP_SET, for EVERY 64-bit logical block number (pattern D).
 *
 * Reference = indirect addressing of the on-disk format (Documentation/filesystems/ext4/
 * ifork.rst), A = blocksize/4 (256 at 1 KiB blocks; scaled to 4 in the quick tier):
 *   l < 12                          -> i_block[l]
 *   l1 = l - 12        < A          -> i_block[12] : slot l1
 *   l2 = l1 - A        < A*A        -> i_block[13] : slot l2 / A : slot l2 % A
 *   l3 = l2 - A*A      < A*A*A      -> i_block[14] : slot l3 / (A*A) : slot (l3 / A) % A : slot l3 % A
 *   anything beyond (or >= 2^32 - 1) is refused with EXT2_ET_FILE_TOO_BIG.
 * The "disk" is functional: slot j of indirect block number b holds b*256 + j + 16 (one symbolic
 * slot is a hole), so the value that comes back names the whole path taken; the second half of
 * block_buf is poisoned, so an index past the 256-entry block is visible both in the value
 * returned and (BMAP_SET) in the poison check.
 */
#define ext2fs_find_inode_goal stub_find_inode_goal
#define ext2fs_write_inode stub_write_inode
#define ext2fs_read_inode stub_read_inode
#include "lib/ext2fs/bmap.c"
#include "env.c"

#define OP_LOOKUP 1
#define OP_SET 2
#ifndef ABITS
#define ABITS 8			/* log2(addresses per block): 8 = 1 KiB blocks; 2 = scaled 16-byte blocks (fs->blocksize is the only geometry input of the code under test) */
#endif
#define NA (1 << ABITS)
#define A ((__u64) NA)
#define POISON(j) (0xDEAD0000u + (j))

struct vf_in {
	__u64 block;
	__u32 dir[12];
	unsigned char ind, dind, tind;	/* i_block[12..14]: 0 (absent) or a block number 1..7 */
	__u32 hole_blk, hole_slot;	/* one slot of one indirect block is a hole */
	__u32 newblk;
};
VF_DECLARE_INPUT(struct vf_in, IN)
#include "vf_input.inc"

static blk_t vf_bb[2 * NA];	/* block_buf: 2 blocks of 1 KiB, as ext2fs_bmap2 requires */
static int vf_reads, vf_writes, vf_bad, vf_inode_writes;
static unsigned long vf_read_blk_no[4], vf_wr_blk_no;
static int vf_wr_changed, vf_wr_slot;
static blk_t vf_wr_val;
static struct ext2_inode vf_written;

static blk_t vf_content(unsigned long blk, int j)
{
	if (blk == IN.hole_blk && (__u32) j == IN.hole_slot)
		return 0;
	return (blk_t) (blk * 256 + j + 16);
}

/* STUB: io channel read_blk(b) returns the functional indirect block (slot j = b*256+j+16, one symbolic hole); write_blk records which block is written and which slots differ from that content */
static errcode_t vf_read_blk(io_channel ch, unsigned long blk, int count, void *data)
{
	blk_t *w = data;
	int j;
	(void) ch;
	if (count != 1 || w != vf_bb) vf_bad = 1;
	if (vf_reads < 4) vf_read_blk_no[vf_reads] = blk;
	vf_reads++;
	for (j = 0; j < NA; j++)
		w[j] = vf_content(blk, j);
	return 0;
}
static errcode_t vf_write_blk(io_channel ch, unsigned long blk, int count, const void *data)
{
	const blk_t *w = data;
	int j;
	(void) ch;
	if (count != 1 || w != vf_bb) vf_bad = 1;
	vf_writes++;
	vf_wr_blk_no = blk;
	for (j = 0; j < NA; j++)
		if (w[j] != vf_content(blk, j)) {
			vf_wr_changed++;
			vf_wr_slot = j;
			vf_wr_val = w[j];
		}
	return 0;
}
static struct struct_io_manager vf_mgr = {
	.magic = EXT2_ET_MAGIC_IO_MANAGER, .name = "vf",
	.read_blk = vf_read_blk, .write_blk = vf_write_blk,
};
/* STUB: ext2fs_find_inode_goal returns 0 (only a hint for the allocator, which is not reached) */
blk64_t stub_find_inode_goal(ext2_filsys fs, ext2_ino_t ino, struct ext2_inode *inode, blk64_t lblk)
{
	(void) fs; (void) ino; (void) inode; (void) lblk;
	return 0;
}
/* STUB: ext2fs_write_inode stores the inode image */
errcode_t stub_write_inode(ext2_filsys fs, ext2_ino_t ino, struct ext2_inode *inode)
{
	(void) fs; (void) ino;
	vf_written = *inode;
	vf_inode_writes++;
	return 0;
}
errcode_t stub_read_inode(ext2_filsys fs, ext2_ino_t ino, struct ext2_inode *inode)
{
	(void) fs; (void) ino; (void) inode;
	vf_bad = 1;		/* the inode is always passed in */
	return 0;
}

static struct struct_io_channel vf_chan;
static struct struct_ext2_filsys vf_fs;
static struct ext2_super_block vf_sb;
static struct ext2_inode vf_inode;

int main(void)
{
	errcode_t rc;
	blk64_t phys;
	int ret_flags = 77, i, j, level = -1, toobig = 0, dead = 0;
	__u64 l = 0, s[3] = { 0, 0, 0 };
	unsigned long b[4] = { 0, 0, 0, 0 };	/* reference chain: b[0] = i_block slot value, b[k] = block read at depth k */
	blk_t want = 0;
	int depth = 0;

	VF_INPUT(IN);
	/* BOUND: ABITS=8: 1 KiB blocks (256 addresses per block); ABITS=2: scaled geometry of 4 addresses per block (fs->blocksize = 16; not mountable, the mapping code only uses fs->blocksize); i_block[12..14] absent or a block number 1..7; indirect block contents functional with one symbolic hole */
	ASSUME(IN.ind <= 7 && IN.dind <= 7 && IN.tind <= 7);
	for (i = 0; i < 12; i++) vf_inode.i_block[i] = IN.dir[i];
	vf_inode.i_block[12] = IN.ind;
	vf_inode.i_block[13] = IN.dind;
	vf_inode.i_block[14] = IN.tind;
	vf_inode.i_mode = 0100644;
	vf_inode.i_flags = 0;
	vf_sb.s_log_block_size = 0;
	vf_sb.s_blocks_count = 0xFFFFFFFF;
	vf_fs.magic = EXT2_ET_MAGIC_EXT2FS_FILSYS;
	vf_fs.super = &vf_sb;
	vf_fs.blocksize = 4 * NA;
	vf_fs.flags = EXT2_FLAG_RW;
	vf_chan.magic = EXT2_ET_MAGIC_IO_CHANNEL;
	vf_chan.manager = &vf_mgr;
	vf_chan.block_size = 4 * NA;
	vf_fs.io = &vf_chan;
	for (j = 0; j < 2 * NA; j++) vf_bb[j] = POISON(j);

	/* ---- reference: which slots, from the format ---- */
	l = IN.block;
	if (l >= 0xFFFFFFFFULL) toobig = 1;
	else if (l < 12) level = 0;
	else if (l - 12 < A) { level = 1; b[0] = IN.ind; s[0] = l - 12; }
	else if (l - 12 - A < A * A) { level = 2; b[0] = IN.dind; s[0] = (l - 12 - A) >> ABITS; s[1] = (l - 12 - A) & (A - 1); }
	else if (l - 12 - A - A * A < A * A * A) {
		__u64 r = l - 12 - A - A * A;
		level = 3; b[0] = IN.tind; s[0] = r >> (2 * ABITS); s[1] = (r >> ABITS) & (A - 1); s[2] = r & (A - 1);	/* A = 2^ABITS */
	} else toobig = 1;
	/* follow the chain on the functional disk: b[k+1] = content(b[k], s[k]); a zero anywhere ends it */
	if (level >= 1) {
		for (i = 0; i < 3; i++)
			if (i < level) {
				if (b[i] == 0) { dead = 1; break; }
				b[i + 1] = vf_content(b[i], (int) s[i]);
				depth = i + 1;
			}
		want = dead ? 0 : (blk_t) b[level];
	}

#ifdef LEVEL
	/* one query per addressing level (0 direct, 1..3 indirect depth, 4 beyond the range): together they cover every block number */
	ASSUME((toobig ? 4 : level) == LEVEL);
#endif
#if OP == OP_LOOKUP
	phys = 0x1234;
	rc = ext2fs_bmap2(&vf_fs, 12, &vf_inode, (char *) vf_bb, 0, IN.block, &ret_flags, &phys);
	if (toobig) {
		PROP(rc == EXT2_ET_FILE_TOO_BIG, "lookup beyond the triple-indirect range is refused");
		PROP(vf_reads == 0, "refused lookup does no I/O");
	} else {
		PROP(rc == 0, "lookup succeeds");
		PROP(ret_flags == 0, "lookup: no flags for a block-mapped file");
		if (level == 0) {
			for (i = 0; i < 12; i++)
				if (l == (__u64) i)
					PROP(phys == IN.dir[i], "lookup: direct block l is i_block[l]");
			PROP(vf_reads == 0, "lookup: direct block needs no indirect read");
		} else {
			PROP(phys == want, "lookup: result is the slot the format defines (i_block slot, slot per level), 0 for a hole");
			PROP(vf_reads == depth, "lookup: one read per level down to the first hole");
			for (i = 0; i < 3; i++)
				if (i < depth)
					PROP(vf_read_blk_no[i] == b[i], "lookup: reads the indirect blocks along the format's path");
		}
	}
	PROP(vf_writes == 0 && vf_inode_writes == 0, "lookup writes nothing");
	for (i = 0; i < 15; i++)
		PROP(vf_inode.i_block[i] == (i < 12 ? IN.dir[i] : i == 12 ? IN.ind : i == 13 ? IN.dind : IN.tind), "lookup leaves i_block alone");
#elif OP == OP_SET
	phys = IN.newblk;
	rc = ext2fs_bmap2(&vf_fs, 12, &vf_inode, (char *) vf_bb, BMAP_SET, IN.block, 0, &phys);
	if (toobig) {
		PROP(rc == EXT2_ET_FILE_TOO_BIG, "set beyond the triple-indirect range is refused");
		PROP(vf_reads == 0 && vf_writes == 0 && vf_inode_writes == 0, "refused set changes nothing");
	} else if (level == 0) {
		PROP(rc == 0, "set of a direct block succeeds");
		for (i = 0; i < 12; i++)
			PROP(vf_inode.i_block[i] == (l == (__u64) i ? IN.newblk : IN.dir[i]), "set: exactly i_block[l] is replaced");
		PROP(vf_writes == 0 && vf_inode_writes == 1 && vf_written.i_block[0] == vf_inode.i_block[0]
		     && vf_written.i_block[11] == vf_inode.i_block[11], "set of a direct block writes the inode, no indirect block");
	} else {
		/* the leaf-level indirect block is b[level-1]; it must exist */
		int missing = 0;
		for (i = 0; i < 3; i++)
			if (i < level && b[i] == 0 && !missing) missing = 1;
		if (dead && depth < level) missing = 1;
		if (missing) {
			PROP(rc == EXT2_ET_SET_BMAP_NO_IND, "set below a missing indirect block is refused");
			PROP(vf_writes == 0, "refused set writes nothing");
		} else {
			PROP(rc == 0, "set through existing indirect blocks succeeds");
			PROP(vf_writes == 1, "set writes exactly one indirect block");
			for (i = 1; i <= 3; i++)
				if (i == level) {
					PROP(vf_wr_blk_no == b[i - 1], "set: the block written is the leaf-level indirect block of the format's path");
					if (IN.newblk != vf_content(b[i - 1], (int) s[i - 1])) {
						PROP(vf_wr_changed == 1 && (__u64) vf_wr_slot == s[i - 1] && vf_wr_val == IN.newblk,
						     "set: exactly the format's slot is replaced by the new block number");
					} else {
						PROP(vf_wr_changed == 0, "set of the same value changes no slot");
					}
				}
		}
		for (i = 0; i < 15; i++)
			PROP(vf_inode.i_block[i] == (i < 12 ? IN.dir[i] : i == 12 ? IN.ind : i == 13 ? IN.dind : IN.tind), "set of an indirect-mapped block leaves i_block alone");
	}
#else
#error OP
#endif
	PROP(!vf_bad, "I/O uses block_buf's first block, count 1; the inode passed in is used");
	for (j = NA; j < 2 * NA; j++)
		PROP(vf_bb[j] == POISON(j), "no access past the A-entry indirect block (second half of block_buf untouched)");
	VF_END();
	return 0;
}
