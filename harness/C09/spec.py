META = {
    "assumptions": ["allocation failure out of scope (--no-malloc-may-fail)",
                    "fileio: logical->physical mapping is a total table behind ext2fs_bmap2 (stub); the allocator "
                    "hands out a block owned by no file; device I/O always succeeds",
                    "fileio/inline: block size scaled to 4 / 32 bytes through an unphysical s_log_block_size "
                    "(the code under test only uses fs->blocksize and EXT2_BLOCK_SIZE_BITS)",
                    "falloc_helper: the extent tree is a flat sorted list behind the extent API (all calls succeed); ext2fs_new_range "
                    "behaves as alloc.c without callback over a cluster bitmap (run starts at goal or a cluster boundary, <= len, "
                    "FIXED_GOAL / MIN_LENGTH honoured, only free clusters, may fail any time; the superblock's cluster is in use); "
                    "ext2fs_map_cluster_block returns the block implied by any other mapped block of the logical cluster; the file "
                    "before the call satisfies the extent / bigalloc cluster invariant",
                    "setbmap0: memmove inside extent.c is replaced by a word-wise shift of i_block by one 12-byte entry (checked to "
                    "be exactly that); ext2fs_write_inode succeeds; results that need a 5th root entry are excluded",
                    "punchwalk: the extent API behaves as the model in punchwalk.c (goto lands on the holding / next-lowest / lowest "
                    "extent, NEXT_SIB stops at the end of a leaf, NEXT_LEAF crosses, position undefined after delete until goto)",
                    "punch_ind: block numbers are fixed distinct tokens, presence of each slot symbolic; slots >= K "
                    "of every indirect block are zero"],
    "outside": ["histories are covered only through the inductive step on the handle invariant (fileio); of the mapping "
                "layer only bmap.c is encoded (bmap_ind: block-mapped lookup/BMAP_SET; bmap_cluster: extent_bmap + "
                "implied_cluster_alloc over a table); BMAP_ALLOC through indirect blocks is not encoded",
                "extent.c: the real code is decided only at depth 0 (setbmap0: one ext2fs_extent_set_bmap on a root of 0..3 "
                "extents); node splits (extent_node_split, ext2fs_alloc_block), trees of depth >= 1 (index nodes, leaf I/O, "
                "fix_parents going up, leaf removal in ext2fs_extent_delete) are NOT encoded: the real extent.c at depth 1 "
                "under ext2fs_punch_extent (punchext.c, unregistered) did not get through symbolic execution",
                "ext2fs_punch_extent is decided over a leaf-aware MODEL of the extent API (punchwalk), not over extent.c; "
                "the release of emptied leaf blocks and its i_blocks update happen inside extent.c and are not covered; bigalloc "
                "punching beyond punch_ext_blocks' release arithmetic",
                "allocator (alloc.c, alloc_stats.c bitmap/group accounting), mkjournal.c",
                "fallocate.c: only ext_falloc_helper()+claim_range() are decided (falloc_helper), under the contract extent_fallocate() "
                "establishes (left ends at range_start, right starts at range_end+1, the range is a hole) which is ASSUMED, not proved: "
                "the extent walk extent_fallocate(), ext2fs_fallocate()'s argument checks and its block-mapped (bmap2 loop) branch are "
                "not encoded; extents within reach of the on-disk length limit (max_init_len / max_uninit_len arithmetic), ranges "
                "longer than 8 blocks, more than 2 general allocations per call, extent-API / zeroing / i_blocks failures, trees of "
                "depth >= 1 (goto landing on the first extent of a later leaf), the EOF rule of EXT2_FALLOCATE_INIT_BEYOND_EOF "
                "(i_size is symbolic, nothing is asserted about it)",
                "inline_data.c itself (get/set/expand are stubs written from its code), xattr storage",
                "EXT2_FLAG_SHARE_DUP dedup path of ext2fs_file_write, ino == 0 handles, I/O and allocation errors",
                "several files interleaved on a real filesystem, nearly-full filesystems, i_blocks/bitmap agreement "
                "after close (e2fsck-level consistency)",
                "block sizes other than the scaled ones; requests longer than 9 bytes; files beyond 6 blocks; "
                "triple-indirect trees with more than one chain"],
}

def main_loops(n, bound):
    return ["main.%d:%d" % (i, bound) for i in range(n)]

PUNCH_UW = main_loops(48, 66) + ["ind_punch.0:257", "check_zero_block.0:1025", "vf_read_blk.0:257",
                                  "vf_write_blk.0:257", "vf_blockof.0:4", "ext2fs_block_alloc_stats.0:41",
                                  "ext2fs_punch_ind.0:5"]

OPS = {"READ": 1, "WRITE": 2, "LLSEEK": 3, "FLUSH": 4, "SET_SIZE": 5, "CLOSE": 6}
FILEIO_UW = main_loops(40, 34) + ["%s.%d:26" % (f, i) for f in ("vf_decode", "vf_inv", "stub_bmap2", "stub_punch",
                                                               "vf_read_blk64", "vf_write_blk64") for i in range(8)] \
    + ["ext2fs_file_read.0:4", "ext2fs_file_write.0:4"]

def fileio_cfgs():
    c = []
    for ext in (0, 1):
        e = {"WITH_EXTENTS": None} if ext else {}
        for op in ("WRITE", "READ"):       # the two heavy ones: kissat is 2-3x faster than the default back end here
            c.append(dict(e, OP=OPS[op], _backends=["kissat", "default"]))
        for op in ("LLSEEK", "FLUSH", "CLOSE"):
            c.append(dict(e, OP=OPS[op], _backends=["default"]))
        c.append(dict(e, OP=OPS["SET_SIZE"], BUF_INVALID=None, _backends=["default"]))
        c.append(dict(e, OP=OPS["SET_SIZE"], _backends=["default"]))
    return c

HARNESSES = [
    dict(name="bmap_cluster", src="bmap_cluster.c",
         funcs=["ext2fs_bmap2", "extent_bmap", "implied_cluster_alloc", "ext2fs_iblk_add_blocks"],
         extra_src=["lib/ext2fs/i_block.c"],
         configs=[{}], unwind=6,
         unwindset=main_loops(12, 14) + ["vf_inv.0:14", "vf_inv.1:14", "stub_extent_goto.0:14", "stub_extent_get.0:14",
                                          "stub_extent_set_bmap.0:14", "implied_cluster_alloc.0:6"],
         backends=["default", "kissat"],
         bound="bigalloc ratio 4, extent-mapped inode; window of 3 logical clusters (12 blocks) at any cluster-aligned "
               "logical offset < 2^31; mapping table symbolic under the cluster invariant; BMAP_ALLOC of any block of the window"),
    dict(name="bmap_ind", src="bmap_ind.c",
         funcs=["ext2fs_bmap2", "block_ind_bmap", "block_dind_bmap", "block_tind_bmap",
                "ext2fs_file_block_offset_too_big"],
         extra_src=["lib/ext2fs/i_block.c"],
         configs=[{"OP": 1, "ABITS": 2}, {"OP": 2, "ABITS": 2}]
                 + [{"OP": 1, "ABITS": 8, "LEVEL": lv, "_tier": "thorough",
                     "_unwindset": main_loops(16, 514) + ["vf_read_blk.0:258", "vf_write_blk.0:258"]} for lv in (3, 2, 1, 0, 4)],
         unwind=6, unwindset=main_loops(16, 16) + ["vf_read_blk.0:6", "vf_write_blk.0:6"],
         backends=["default", "kissat"],
         bound="quick: 4 addresses per block (fs->blocksize 16), lookup and BMAP_SET; thorough: 1 KiB blocks, lookup, one query per level; logical block: all 2^64 values; i_block[0..11] any value, i_block[12..14] absent or 1..7; "
               "indirect block contents functional (slot j of block b = b*256+j+16) with one symbolic hole; lookup and BMAP_SET"),
    dict(name="punch_ext_blocks", src="punch_ext_blocks.c",
         funcs=["punch_extent_blocks", "ext2fs_blocks_count"],
         extra_src=["lib/ext2fs/blknum.c"],
         configs=[{"CRB": 0}, {"CRB": 2}, {"CRB": 1}], unwind=6, witness_backends=["default"],
         unwindset=main_loops(12, 66) + ["punch_extent_blocks.0:16", "punch_extent_blocks.1:6",
                                          "stub_block_alloc_stats2.0:66", "stub_map_cluster_block.0:8",
                                          "stub_map_cluster_block.1:8"],
         backends=["default"],
         bound="cluster ratio 1, 2, 4; freed range of 1 .. 3 clusters + 1 block starting anywhere in two clusters; "
               "remaining-mapped bits of 5 clusters symbolic; logical cluster number < 2^40"),
    dict(name="inline", src="inline.c",
         funcs=["ext2fs_file_write_inline_data", "ext2fs_file_set_size2", "ext2fs_inode_size_set"],  # first config (write); the read config adds ext2fs_file_read, ext2fs_file_read_inline_data
         extra_src=["lib/ext2fs/blknum.c", "lib/ext2fs/bmap.c", "lib/ext2fs/io_manager.c", "lib/ext2fs/i_block.c"],
         configs=[{"OP": 2}, {"OP": 1}], unwind=6,
         unwindset=main_loops(12, 66) + ["stub_inline_get.0:66", "stub_inline_set.0:66"],
         backends=["default"],
         bound="inline store 60..64 bytes (xattr part 0..4, room 0..4), i_size <= store, request <= 8 bytes, "
               "position any value below 2^32, handle buffer 96 bytes"),
    dict(name="fileio", src="fileio.c",
         funcs=["ext2fs_file_write", "ext2fs_file_flush", "sync_buffer_position", "load_buffer",
                "ext2fs_file_set_size2", "ext2fs_file_zero_past_offset", "ext2fs_inode_size_set",
                "ext2fs_file_block_offset_too_big", "io_channel_read_blk64", "io_channel_write_blk64"],
         extra_src=["lib/ext2fs/blknum.c", "lib/ext2fs/bmap.c", "lib/ext2fs/io_manager.c", "lib/ext2fs/i_block.c"],
         configs=fileio_cfgs(), unwind=6, unwindset=FILEIO_UW,
         backends=["default", "kissat"],
         bound="block size 4 bytes, file window 6 logical blocks (24 bytes), 7 physical blocks, request <= 9 bytes "
               "(crosses two block boundaries); handle state (pos, blockno, physblock, VALID/DIRTY, buffer), mapping, "
               "uninit bits, disk and size symbolic under Inv; one operation per query; block-mapped and extent-flagged inode"),
    dict(name="punch_ind", src="punch_ind.c",
         funcs=["ext2fs_punch", "ext2fs_punch_ind", "ind_punch", "check_zero_block",
                "ext2fs_read_ind_block", "ext2fs_write_ind_block", "ext2fs_iblk_sub_blocks"],
         extra_src=["lib/ext2fs/ind_block.c", "lib/ext2fs/i_block.c"],
         configs=[{"LEVELS": 1, "K": 3}, {"LEVELS": 2, "K": 2}, {"LEVELS": 3, "K": 1, "_tier": "thorough"}],
         stubs=["ext2fs_block_alloc_stats", "ext2fs_write_inode"],
         unwind=6, unwindset=PUNCH_UW,
         cbmc_flags=["--max-field-sensitivity-array-size", "1024"],
         backends=["default"],
         bound="1 KiB blocks; 12 direct slots, first K slots of each indirect block symbolic (present/absent), "
               "others zero; LEVELS=1: direct+indirect (K=3), 2: + double indirect with K=2 children, "
               "3 (thorough tier, K=1): + one triple-indirect chain; start <= end: all 2^64 values"),
]

# ---- preallocation (fallocate.c) ----
FALLOC_UW = ["%s.%d:12" % (f, i) for f in ("vf_fetch", "vf_lower", "vf_above", "vf_inuse", "ext2fs_new_range",
                                           "ext2fs_block_alloc_stats_range", "ext2fs_zero_blocks2", "ext2fs_map_cluster_block",
                                           "ext2fs_extent_replace", "ext2fs_extent_insert", "ref_pre_l", "ref_pre_p",
                                           "ref_pre_pcluster", "ref_pre_lcluster", "vf_post_l", "vf_post_p", "vf_post_pcluster",
                                           "vf_wellformed") for i in range(2)] + main_loops(10, 12)
FALLOC_TINY = {"LBITS": 3, "PBITS": 6, "RLBITS": 3, "LENBITS": 2}

def falloc_helper_cfgs():
    quick, thorough = [], []
    for crb in (2, 0):
        for left, right in ((1, 0), (0, 1), (0, 0), (1, 1)):
            d = dict(FALLOC_TINY, MODE=1, CRB=crb)
            if left: d["HAVE_LEFT"] = None
            if right: d["HAVE_RIGHT"] = None
            if (left and right) or (right and not crb):
                d["_tier"] = "thorough"       # left+right: 85..100 s each; ratio 1 right-only: 36..60 s (moved out of quick for the time budget)
            quick.append(d)
            # with non-adjacent further-left / further-right extents (implied cluster allocation against an extent that is not
            # passed, insert positions); measured 125..220 s each; only the bigalloc ones were run (ratio 1: not yet)
            if crb and not (left and right):
                thorough.append(dict(d, HAVE_FAR=None, _tier="thorough"))
    return quick + thorough

HARNESSES += [
    dict(name="falloc_helper", src="falloc.c",
         funcs=["ext_falloc_helper", "claim_range", "ext2fs_iblk_add_blocks", "ext2fs_blocks_count"],
         extra_src=["lib/ext2fs/i_block.c", "lib/ext2fs/blknum.c"],
         configs=falloc_helper_cfgs(), unwind=6,
         unwindset=FALLOC_UW + ["ext_falloc_helper.0:4"],
         backends=["kissat"], witness_backends=["kissat"], cap_quick=200, cap_thorough=1200,
         bound="one call of ext_falloc_helper from every well-formed file state of left / right extent (each given or NULL; thorough: "
               "plus non-adjacent further-left / further-right extents), either state each, range of 1..8 blocks, all 12 flag "
               "combinations, i_size anywhere, cluster ratio 4 and 1; window start / gaps < 8, lengths 1..4, 128 physical "
               "blocks; the allocator answers symbolically (any free run / failure), at most 2 general allocations; quick: left-only, "
               "right-only, neither; thorough: left+right, and (ratio 4) further extents"),
]
# ---- extent tree edit primitive (extent.c) ----
SETBMAP_UW = main_loops(8, 17) + ["ext2fs_extent_open2.0:17", "ext2fs_write_inode.0:17", "ext2fs_extent_goto2.0:7", "ref_lookup.0:5",
                                  "vf_memmove.0:17", "vf_memmove.1:17", "ext2fs_extent_get.0:4", "ext2fs_extent_fix_parents.0:3",
                                  "ext2fs_extent_free.0:3"]
HARNESSES += [
    dict(name="setbmap0", src="setbmap0.c",
         funcs=["ext2fs_extent_set_bmap", "ext2fs_extent_open2", "ext2fs_extent_get", "ext2fs_extent_goto2", "ext2fs_extent_replace",
                "ext2fs_extent_insert", "ext2fs_extent_delete", "ext2fs_extent_fix_parents", "ext2fs_extent_get_info", "update_path"],
         cut_statics={"lib/ext2fs/extent.c": ["extent_node_split"]},
         configs=[{"NEXT": 2}, {"NEXT": 1}, {"NEXT": 0}, {"NEXT": 0, "EMPTY_UNMAP": None},
                  {"NEXT": 3, "_tier": "thorough"}, {"NEXT": 2, "WRITECHK": None, "_tier": "thorough"},
                  {"NEXT": 2, "WITH_BIG": None, "_tier": "thorough"}, {"NEXT": 2, "NOGOTO": None, "_tier": "thorough"}],
         unwind=6, unwindset=SETBMAP_UW, backends=["default"],
         bound="depth-0 tree in i_block with 0..3 extents (gaps 0..3, lengths 1..4, either state, physical 1..65536), one "
               "ext2fs_extent_set_bmap(L, P, flags) with L in 0..31, P = 0 (unmap) or 1..65535, flags 0 / SET_BMAP_UNINIT, handle "
               "positioned by goto(S), S in 0..31; results needing a 5th extent (node split) excluded"),
]
# ---- punch walk over two leaves (punch.c real, leaf-aware model of the extent API) ----
PUNCHWALK_UW = ["punch_extent_blocks.0:6", "punch_extent_blocks.1:3", "ext2fs_extent_delete.0:7", "ext2fs_extent_replace.0:7",
                "vf_above.0:7", "vf_lower.0:7", "vf_fetch.0:7"] + ["ext2fs_punch_extent.%d:8" % i for i in range(11)] + main_loops(8, 7)
HARNESSES += [
    dict(name="punchwalk", src="punchwalk.c",
         funcs=["ext2fs_punch", "ext2fs_punch_extent", "punch_extent_blocks", "ext2fs_blocks_count"],
         extra_src=["lib/ext2fs/punch.c", "lib/ext2fs/blknum.c"],
         configs=[{"NL0": 1, "NL1": 1}, {"NL0": 2, "NL1": 1, "_tier": "thorough"}, {"NL0": 1, "NL1": 2, "_tier": "thorough"},
                  {"NL0": 2, "NL1": 2, "_tier": "thorough"}],
         unwind=6, unwindset=PUNCHWALK_UW, backends=["kissat"], witness_backends=["kissat"], cap_quick=200, cap_thorough=1200,
         bound="extents spread over two leaves (1+1 quick; 2+1, 1+2, 2+2 thorough), gaps 0..3, lengths 1..4, either state, disjoint "
               "physical ranges; ext2fs_punch(start, end) with start 0..31, end = start+0..15 or ~0; ratio 1"),
]
MANIFEST = {
    "text": "Bounded-exhaustive kernels of the libext2fs file data path: (1) one real file-handle operation "
            "(read/write/llseek/flush/set_size/close) from every handle+mapping+disk state satisfying the buffer "
            "coherence invariant returns/stores exactly the model's bytes and re-establishes the invariant, so "
            "histories of any length follow by induction within the window; (2) inline-data read/write lengths, "
            "copy bounds and store contents against a model store; (3) hole punching of block-mapped files against "
            "the indirect-block format for every 64-bit start/end; (4) bigalloc cluster release arithmetic; (5) one call of the "
            "preallocation kernel ext_falloc_helper() from every small well-formed extent state: per logical / physical probe block, "
            "old mappings and states preserved, the whole range mapped on success and nothing outside it, only newly mapped (or newly "
            "claimed, unmapped) blocks zeroed and every newly visible initialised block zeroed, every new block claimed exactly once from "
            "an allocator answer with i_blocks in step, written extents well formed (length limits, order, cluster invariant); "
            "(6) one real ext2fs_extent_set_bmap() on every small depth-0 extent root: the set block gets exactly the requested "
            "mapping and state, every other block keeps its own, the root stays well formed and the handle consistent; (7) the real "
            "ext2fs_punch_extent() walk over extents in two leaves: exactly the blocks in range are unmapped and released once.",
    "note": "Trusted: CBMC's C semantics, the mapping/allocator/inline-store stubs, the harness reference models. "
            "The real mapping layer (bmap.c/extent.c), the allocator and whole-filesystem consistency are outside.",
}
