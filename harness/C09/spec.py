META = {
    "assumptions": ["allocation failure out of scope (--no-malloc-may-fail)",
                    "fileio: logical->physical mapping is a total table behind ext2fs_bmap2 (stub); the allocator "
                    "hands out a block owned by no file; device I/O always succeeds",
                    "fileio/inline: block size scaled to 4 / 32 bytes through an unphysical s_log_block_size "
                    "(the code under test only uses fs->blocksize and EXT2_BLOCK_SIZE_BITS)",
                    "falloc_helper: the extent tree is a flat sorted list behind the extent API (all calls succeed); ext2fs_new_range "
                    "behaves as alloc.c without callback over a cluster bitmap (run starts at goal or a cluster boundary, <= len, "
                    "FIXED_GOAL / MIN_LENGTH honoured, only free clusters, may fail any time; the superblock's cluster is in use); "
                    "ext2fs_map_cluster_block returns the block implied by any other mapped block of the logical cluster; the file "
                    "before the call satisfies the extent / bigalloc cluster invariant",
                    "setbmap0: memmove inside extent.c is replaced by a word-wise shift of i_block by one 12-byte entry (checked to "
                    "be exactly that); ext2fs_write_inode succeeds; results that need a 5th root entry are excluded",
                    "punchwalk: the extent API behaves as the model in punchwalk.c (goto lands on the holding / next-lowest / lowest "
                    "extent, NEXT_SIB stops at the end of a leaf, NEXT_LEAF crosses, position undefined after delete until goto)",
                    "punch_ind: block numbers are fixed distinct tokens, presence of each slot symbolic; slots >= K "
                    "of every indirect block are zero",
                    "bmap_alloc: the blocks along the target's (and the probe's) path are pairwise distinct and a block on both paths sits "
                    "at the same tree position; the allocator (get_alloc_block callback) always succeeds and hands out blocks on neither "
                    "path; block size scaled to 16 bytes; huge_file + EXT4_HUGE_FILE_FL so that i_blocks counts filesystem blocks",
                    "alloc_search / alloc_stats: the bitmap primitives (find_first_zero / find_first_set / mark / unmark / range) behave as "
                    "gen_bitmap64.c documents over one symbolic word (decided under C16); ext2fs_group_desc_csum_set only records the group; "
                    "alloc_stats ranges "
                    "start at or after s_first_data_block"],
    "outside": ["histories are covered only through the inductive step on the handle invariant (fileio); of the mapping "
                "layer only bmap.c is encoded (bmap_ind: block-mapped lookup/BMAP_SET; bmap_cluster: extent_bmap + "
                "implied_cluster_alloc over a table; bmap_alloc: BMAP_ALLOC / BMAP_ALLOC|BMAP_SET through indirect blocks with 4 addresses per "
                "block); allocation failure in the middle of a multi-block allocation (mapping block allocated, data block refused: the "
                "in-memory inode keeps the new mapping block without i_blocks), BMAP_ZERO, NULL block_buf, big-endian byte swapping "
                "(WORDS_BIGENDIAN) are not encoded",
                "extent.c: the real code is decided only at depth 0 (setbmap0: one ext2fs_extent_set_bmap on a root of 0..3 "
                "extents); node splits (extent_node_split, ext2fs_alloc_block), trees of depth >= 1 (index nodes, leaf I/O, "
                "fix_parents going up, leaf removal in ext2fs_extent_delete) are NOT encoded: the real extent.c at depth 1 "
                "under ext2fs_punch_extent (punchext.c, unregistered) did not get through symbolic execution",
                "ext2fs_punch_extent is decided over a leaf-aware MODEL of the extent API (punchwalk), not over extent.c; "
                "the release of emptied leaf blocks and its i_blocks update happen inside extent.c and are not covered; bigalloc "
                "punching beyond punch_ext_blocks' release arithmetic",
                "allocator: ext2fs_new_block3 / ext2fs_new_range / ext2fs_alloc_range are decided over <= 16 blocks at cluster ratio 1 "
                "(alloc_search), ext2fs_alloc_block3 only with a get_alloc_block callback (bmap_alloc), alloc_stats.c at ratio 1 "
                "(alloc_stats); bigalloc (cluster-granular bitmaps, the inuse*n/ratio arithmetic of ext2fs_block_alloc_stats_range), "
                "64-bit / flex_bg descriptors, ext2fs_new_inode, ext2fs_get_free_blocks2, the get_alloc_block2 / new_range callbacks, "
                "the real bitmap back ends under the allocator, mkjournal.c",
                "fallocate.c: only ext_falloc_helper()+claim_range() are decided (falloc_helper), under the contract extent_fallocate() "
                "establishes (left ends at range_start, right starts at range_end+1, the range is a hole) which is ASSUMED, not proved: "
                "the extent walk extent_fallocate(), ext2fs_fallocate()'s argument checks and its block-mapped (bmap2 loop) branch are "
                "not encoded; extents within reach of the on-disk length limit (max_init_len / max_uninit_len arithmetic), ranges "
                "longer than 8 blocks, more than 2 general allocations per call, extent-API / zeroing / i_blocks failures, trees of "
                "depth >= 1 (goto landing on the first extent of a later leaf), the EOF rule of EXT2_FALLOCATE_INIT_BEYOND_EOF "
                "(i_size is symbolic, nothing is asserted about it)",
                "inline_data.c itself (get/set/expand are stubs written from its code), xattr storage",
                "EXT2_FLAG_SHARE_DUP dedup path of ext2fs_file_write, ino == 0 handles, I/O and allocation errors",
                "several files interleaved on a real filesystem, nearly-full filesystems, i_blocks/bitmap agreement "
                "after close (e2fsck-level consistency)",
                "block sizes other than the scaled ones; requests longer than 9 bytes; files beyond 6 blocks; "
                "triple-indirect trees with more than one chain"],
}

def main_loops(n, bound):
    return ["main.%d:%d" % (i, bound) for i in range(n)]

PUNCH_UW = main_loops(48, 66) + ["ind_punch.0:257", "check_zero_block.0:1025", "vf_read_blk.0:257",
                                  "vf_write_blk.0:257", "vf_blockof.0:4", "ext2fs_block_alloc_stats.0:41",
                                  "ext2fs_punch_ind.0:5"]

OPS = {"READ": 1, "WRITE": 2, "LLSEEK": 3, "FLUSH": 4, "SET_SIZE": 5, "CLOSE": 6}
FILEIO_UW = main_loops(40, 34) + ["%s.%d:26" % (f, i) for f in ("vf_decode", "vf_inv", "stub_bmap2", "stub_punch",
                                                               "vf_read_blk64", "vf_write_blk64") for i in range(8)] \
    + ["ext2fs_file_read.0:4", "ext2fs_file_write.0:4"]

def fileio_cfgs():
    c = []
    for ext in (0, 1):
        e = {"WITH_EXTENTS": None} if ext else {}
        for op in ("WRITE", "READ"):       # the two heavy ones: kissat is 2-3x faster than the default back end here
            c.append(dict(e, OP=OPS[op], _backends=["kissat", "default"]))
        for op in ("LLSEEK", "FLUSH", "CLOSE"):
            c.append(dict(e, OP=OPS[op], _backends=["default"]))
        c.append(dict(e, OP=OPS["SET_SIZE"], BUF_INVALID=None, _backends=["default"]))
        c.append(dict(e, OP=OPS["SET_SIZE"], _backends=["default"]))
    return c

HARNESSES = [
    dict(name="bmap_cluster", src="bmap_cluster.c",
         funcs=["ext2fs_bmap2", "extent_bmap", "implied_cluster_alloc", "ext2fs_iblk_add_blocks"],
         extra_src=["lib/ext2fs/i_block.c"],
         configs=[{}], unwind=6,
         unwindset=main_loops(12, 14) + ["vf_inv.0:14", "vf_inv.1:14", "stub_extent_goto.0:14", "stub_extent_get.0:14",
                                          "stub_extent_set_bmap.0:14", "implied_cluster_alloc.0:6"],
         backends=["default", "kissat"],
         bound="bigalloc ratio 4, extent-mapped inode; window of 3 logical clusters (12 blocks) at any cluster-aligned "
               "logical offset < 2^31; mapping table symbolic under the cluster invariant; BMAP_ALLOC of any block of the window"),
    dict(name="bmap_ind", src="bmap_ind.c",
         funcs=["ext2fs_bmap2", "block_ind_bmap", "block_dind_bmap", "block_tind_bmap",
                "ext2fs_file_block_offset_too_big"],
         extra_src=["lib/ext2fs/i_block.c"],
         configs=[{"OP": 1, "ABITS": 2}, {"OP": 2, "ABITS": 2}]
                 + [{"OP": 1, "ABITS": 8, "LEVEL": lv, "_tier": "thorough",
                     "_unwindset": main_loops(16, 514) + ["vf_read_blk.0:258", "vf_write_blk.0:258"]} for lv in (3, 2, 1, 0, 4)],
         unwind=6, unwindset=main_loops(16, 16) + ["vf_read_blk.0:6", "vf_write_blk.0:6"],
         backends=["default", "kissat"],
         bound="quick: 4 addresses per block (fs->blocksize 16), lookup and BMAP_SET; thorough: 1 KiB blocks, lookup, one query per level; logical block: all 2^64 values; i_block[0..11] any value, i_block[12..14] absent or 1..7; "
               "indirect block contents functional (slot j of block b = b*256+j+16) with one symbolic hole; lookup and BMAP_SET"),
    dict(name="punch_ext_blocks", src="punch_ext_blocks.c",
         funcs=["punch_extent_blocks", "ext2fs_blocks_count"],
         extra_src=["lib/ext2fs/blknum.c"],
         configs=[{"CRB": 0}, {"CRB": 2}, {"CRB": 1}], unwind=6, witness_backends=["default"],
         unwindset=main_loops(12, 66) + ["punch_extent_blocks.0:16", "punch_extent_blocks.1:6",
                                          "stub_block_alloc_stats2.0:66", "stub_map_cluster_block.0:8",
                                          "stub_map_cluster_block.1:8"],
         backends=["default"],
         bound="cluster ratio 1, 2, 4; freed range of 1 .. 3 clusters + 1 block starting anywhere in two clusters; "
               "remaining-mapped bits of 5 clusters symbolic; logical cluster number < 2^40"),
    dict(name="inline", src="inline.c",
         funcs=["ext2fs_file_write_inline_data", "ext2fs_file_set_size2", "ext2fs_inode_size_set"],  # first config (write); the read config adds ext2fs_file_read, ext2fs_file_read_inline_data
         extra_src=["lib/ext2fs/blknum.c", "lib/ext2fs/bmap.c", "lib/ext2fs/io_manager.c", "lib/ext2fs/i_block.c"],
         configs=[{"OP": 2}, {"OP": 1}], unwind=6,
         unwindset=main_loops(12, 66) + ["stub_inline_get.0:66", "stub_inline_set.0:66"],
         backends=["default"],
         bound="inline store 60..64 bytes (xattr part 0..4, room 0..4), i_size <= store, request <= 8 bytes, "
               "position any value below 2^32, handle buffer 96 bytes"),
    dict(name="fileio", src="fileio.c",
         funcs=["ext2fs_file_write", "ext2fs_file_flush", "sync_buffer_position", "load_buffer",
                "ext2fs_file_set_size2", "ext2fs_file_zero_past_offset", "ext2fs_inode_size_set",
                "ext2fs_file_block_offset_too_big", "io_channel_read_blk64", "io_channel_write_blk64"],
         extra_src=["lib/ext2fs/blknum.c", "lib/ext2fs/bmap.c", "lib/ext2fs/io_manager.c", "lib/ext2fs/i_block.c"],
         configs=fileio_cfgs(), unwind=6, unwindset=FILEIO_UW,
         backends=["default", "kissat"],
         bound="block size 4 bytes, file window 6 logical blocks (24 bytes), 7 physical blocks, request <= 9 bytes "
               "(crosses two block boundaries); handle state (pos, blockno, physblock, VALID/DIRTY, buffer), mapping, "
               "uninit bits, disk and size symbolic under Inv; one operation per query; block-mapped and extent-flagged inode"),
    dict(name="punch_ind", src="punch_ind.c",
         funcs=["ext2fs_punch", "ext2fs_punch_ind", "ind_punch", "check_zero_block",
                "ext2fs_read_ind_block", "ext2fs_write_ind_block", "ext2fs_iblk_sub_blocks"],
         extra_src=["lib/ext2fs/ind_block.c", "lib/ext2fs/i_block.c"],
         configs=[{"LEVELS": 1, "K": 3}, {"LEVELS": 2, "K": 2}, {"LEVELS": 3, "K": 1, "_tier": "thorough"}],
         stubs=["ext2fs_block_alloc_stats", "ext2fs_write_inode"],
         unwind=6, unwindset=PUNCH_UW,
         cbmc_flags=["--max-field-sensitivity-array-size", "1024"],
         backends=["default"],
         bound="1 KiB blocks; 12 direct slots, first K slots of each indirect block symbolic (present/absent), "
               "others zero; LEVELS=1: direct+indirect (K=3), 2: + double indirect with K=2 children, "
               "3 (thorough tier, K=1): + one triple-indirect chain; start <= end: all 2^64 values"),
]

# ---- preallocation (fallocate.c) ----
FALLOC_UW = ["%s.%d:12" % (f, i) for f in ("vf_fetch", "vf_lower", "vf_above", "vf_inuse", "ext2fs_new_range",
                                           "ext2fs_block_alloc_stats_range", "ext2fs_zero_blocks2", "ext2fs_map_cluster_block",
                                           "ext2fs_extent_replace", "ext2fs_extent_insert", "ref_pre_l", "ref_pre_p",
                                           "ref_pre_pcluster", "ref_pre_lcluster", "vf_post_l", "vf_post_p", "vf_post_pcluster",
                                           "vf_wellformed") for i in range(2)] + main_loops(10, 12)
FALLOC_TINY = {"LBITS": 3, "PBITS": 6, "RLBITS": 3, "LENBITS": 2}

def falloc_helper_cfgs():
    quick, thorough = [], []
    for crb in (2, 0):
        for left, right in ((1, 0), (0, 1), (0, 0), (1, 1)):
            d = dict(FALLOC_TINY, MODE=1, CRB=crb)
            if left: d["HAVE_LEFT"] = None
            if right: d["HAVE_RIGHT"] = None
            if (left and right) or (right and not crb):
                d["_tier"] = "thorough"       # left+right: 85..100 s each; ratio 1 right-only: 36..60 s (moved out of quick for the time budget)
            quick.append(d)
            # with non-adjacent further-left / further-right extents (implied cluster allocation against an extent that is not
            # passed, insert positions); measured 125..220 s each; only the bigalloc ones were run (ratio 1: not yet)
            if crb and not (left and right):
                thorough.append(dict(d, HAVE_FAR=None, _tier="thorough"))
    return quick + thorough

HARNESSES += [
    dict(name="falloc_helper", src="falloc.c",
         funcs=["ext_falloc_helper", "claim_range", "ext2fs_iblk_add_blocks", "ext2fs_blocks_count"],
         extra_src=["lib/ext2fs/i_block.c", "lib/ext2fs/blknum.c"],
         configs=falloc_helper_cfgs(), unwind=6,
         unwindset=FALLOC_UW + ["ext_falloc_helper.0:4"],
         backends=["kissat"], witness_backends=["kissat"], cap_quick=200, cap_thorough=1200,
         bound="one call of ext_falloc_helper from every well-formed file state of left / right extent (each given or NULL; thorough: "
               "plus non-adjacent further-left / further-right extents), either state each, range of 1..8 blocks, all 12 flag "
               "combinations, i_size anywhere, cluster ratio 4 and 1; window start / gaps < 8, lengths 1..4, 128 physical "
               "blocks; the allocator answers symbolically (any free run / failure), at most 2 general allocations; quick: left-only, "
               "right-only, neither; thorough: left+right, and (ratio 4) further extents"),
]
# ---- extent tree edit primitive (extent.c) ----
SETBMAP_UW = main_loops(8, 17) + ["ext2fs_extent_open2.0:17", "ext2fs_write_inode.0:17", "ext2fs_extent_goto2.0:7", "ref_lookup.0:5",
                                  "vf_memmove.0:17", "vf_memmove.1:17", "ext2fs_extent_get.0:4", "ext2fs_extent_fix_parents.0:3",
                                  "ext2fs_extent_free.0:3"]
HARNESSES += [
    dict(name="setbmap0", src="setbmap0.c",
         funcs=["ext2fs_extent_set_bmap", "ext2fs_extent_open2", "ext2fs_extent_get", "ext2fs_extent_goto2", "ext2fs_extent_replace",
                "ext2fs_extent_insert", "ext2fs_extent_delete", "ext2fs_extent_fix_parents", "ext2fs_extent_get_info", "update_path"],
         cut_statics={"lib/ext2fs/extent.c": ["extent_node_split"]},
         configs=[{"NEXT": 2}, {"NEXT": 1}, {"NEXT": 0}, {"NEXT": 0, "EMPTY_UNMAP": None},
                  {"NEXT": 3, "_tier": "thorough"}, {"NEXT": 2, "WRITECHK": None, "_tier": "thorough"},
                  {"NEXT": 2, "WITH_BIG": None, "_tier": "thorough"}, {"NEXT": 2, "NOGOTO": None, "_tier": "thorough"}],
         unwind=6, unwindset=SETBMAP_UW, backends=["default"],
         bound="depth-0 tree in i_block with 0..3 extents (gaps 0..3, lengths 1..4, either state, physical 1..65536), one "
               "ext2fs_extent_set_bmap(L, P, flags) with L in 0..31, P = 0 (unmap) or 1..65535, flags 0 / SET_BMAP_UNINIT, handle "
               "positioned by goto(S), S in 0..31; results needing a 5th extent (node split) excluded"),
]
# ---- punch walk over two leaves (punch.c real, leaf-aware model of the extent API) ----
PUNCHWALK_UW = ["punch_extent_blocks.0:6", "punch_extent_blocks.1:3", "ext2fs_extent_delete.0:7", "ext2fs_extent_replace.0:7",
                "vf_above.0:7", "vf_lower.0:7", "vf_fetch.0:7"] + ["ext2fs_punch_extent.%d:8" % i for i in range(11)] + main_loops(8, 7)
HARNESSES += [
    dict(name="punchwalk", src="punchwalk.c",
         funcs=["ext2fs_punch", "ext2fs_punch_extent", "punch_extent_blocks", "ext2fs_blocks_count"],
         extra_src=["lib/ext2fs/punch.c", "lib/ext2fs/blknum.c"],
         configs=[{"NL0": 1, "NL1": 1}, {"NL0": 2, "NL1": 1, "_tier": "thorough"}, {"NL0": 1, "NL1": 2, "_tier": "thorough"},
                  {"NL0": 2, "NL1": 2, "_tier": "thorough"}],
         unwind=6, unwindset=PUNCHWALK_UW, backends=["kissat"], witness_backends=["kissat"], cap_quick=200, cap_thorough=1200,
         bound="extents spread over two leaves (1+1 quick; 2+1, 1+2, 2+2 thorough), gaps 0..3, lengths 1..4, either state, disjoint "
               "physical ranges; ext2fs_punch(start, end) with start 0..31, end = start+0..15 or ~0; ratio 1"),
]
# ---- on-demand allocation through indirect blocks (bmap.c + alloc.c ext2fs_alloc_block3) ----
BMAP_ALLOC_UW = main_loops(60, 17) + ["%s.%d:17" % (f, i) for f in ("vf_read_blk", "vf_write_blk", "stub_get_alloc_block",
                                                                      "stub_block_alloc_stats2", "ref_slot", "ref_walk") for i in range(4)]
HARNESSES += [
    dict(name="bmap_alloc", src="bmap_alloc.c",
         funcs=["ext2fs_bmap2", "block_ind_bmap", "block_dind_bmap", "block_tind_bmap", "ext2fs_alloc_block3", "ext2fs_alloc_block",
                "ext2fs_iblk_add_blocks", "ext2fs_find_inode_goal", "io_channel_write_blk64", "ext2fs_file_block_offset_too_big"],
         extra_src=["lib/ext2fs/i_block.c", "lib/ext2fs/blknum.c", "lib/ext2fs/io_manager.c"],
         configs=[{"OP": 1, "LEVEL": 3}, {"OP": 1, "LEVEL": 2}, {"OP": 1, "LEVEL": 1}, {"OP": 1, "LEVEL": 0},
                  {"OP": 2, "LEVEL": 3}, {"OP": 2, "LEVEL": 2}, {"OP": 2, "LEVEL": 1}, {"OP": 2, "LEVEL": 0}, {"OP": 0}],
         stubs=["ext2fs_extent_free"],
         unwind=6, unwindset=BMAP_ALLOC_UW, backends=["default", "kissat"], cap_quick=300, cap_thorough=1200,
         bound="4 addresses per block (fs->blocksize 16), disk of 12 blocks with symbolic contents (every pointer 0 or < 12), i_block[] "
               "symbolic; target and probe: any two different logical blocks of the 96 the triple-indirect range holds; one ext2fs_bmap2 "
               "with BMAP_ALLOC, BMAP_ALLOC|BMAP_SET, or no flag; up to 4 allocations, the allocator always succeeds"),
]
# ---- allocation accounting (alloc_stats.c) ----
HARNESSES += [
    dict(name="alloc_stats", src="alloc_stats.c",
         funcs=["ext2fs_block_alloc_stats2", "ext2fs_bg_free_blocks_count_set", "ext2fs_bg_flags_clear", "ext2fs_free_blocks_count_add",
                "ext2fs_group_of_blk2"],   # first config; OP 2 adds ext2fs_block_alloc_stats_range + ext2fs_group_last_block2, OP 3 ext2fs_inode_alloc_stats2
         extra_src=["lib/ext2fs/blknum.c"],
         stubs=["ext2fs_mark_generic_bmap", "ext2fs_unmark_generic_bmap", "ext2fs_mark_block_bitmap_range2", "ext2fs_unmark_block_bitmap_range2"],
         configs=[{"OP": 1, "INUSE": 1}, {"OP": 1, "INUSE": -1}, {"OP": 2, "INUSE": 1}, {"OP": 2, "INUSE": -1},
                  {"OP": 3, "INUSE": 1}, {"OP": 3, "INUSE": -1}, {"OP": 1, "INUSE": 1, "WITH_CB": None}, {"OP": 2, "INUSE": 1, "WITH_CB": None},
                  {"OP": 2, "INUSE": -1, "WITH_CB": None}],
         # (repaired by fix: 4b276575) {"OP": 2, "INUSE": 1, "WITH_CB": None} FAILED on the pinned tree: the callback registered with
         #   ext2fs_set_block_alloc_stats_range_callback() is called with the loop's consumed cursor (blk = end of range, num = 0)
         #   instead of the range: e.g. blocks_count 4, ext2fs_block_alloc_stats_range(fs, 1, 1, +1) -> callback(fs, 2, 0, 1)
         unwind=6, unwindset=main_loops(12, 15) + ["ext2fs_mark_block_bitmap_range2.0:14", "ext2fs_unmark_block_bitmap_range2.0:14",
                                                   "ext2fs_block_alloc_stats_range.0:6"],
         backends=["default", "kissat"], cap_quick=300,
         bound="2..12 blocks in groups of 4 (range may cross two group boundaries), up to 3 groups of 4 inodes, s_first_data_block 0 / 1, "
               "cluster ratio 1, group checksums on; bitmaps, all group counters / flags, superblock totals and the block / range / "
               "inode number symbolic; one call, direction +1 and -1"),
]
# ---- allocator searches (alloc.c) ----
def alloc_search_uw(nb, cap):
    return main_loops(8, nb + 2) + ["ext2fs_find_first_zero_generic_bmap.0:%d" % (nb + 1), "ext2fs_find_first_set_generic_bmap.0:%d" % (nb + 1),
                                    "ext2fs_new_range.0:%d" % (cap + 2), "ext2fs_new_range.1:%d" % (cap + 2)]

def alloc_search_cfgs():
    # CAP = bound on the iterations of the search loop (find_first_zero queries) above which the harness reports non-termination:
    # 3 needed without MIN_LENGTH or with FIXED_GOAL (CAP 4), NB+3 with MIN_LENGTH alone (CAP NB+4)
    def q(d, nb=8):
        minonly = (d["OP"] == 2 and d["FLAGS"] == 2) or (d["OP"] == 3 and not d["FLAGS"] & 1)
        cap = nb + 4 if minonly else 4
        return dict(d, NB=nb, CAP=cap, _unwindset=alloc_search_uw(nb, cap))
    c = [q({"OP": 1, "CSUM": None}), q({"OP": 1})]
    # new_range: FLAGS 0, FIXED_GOAL (1), FIXED_GOAL|MIN_LENGTH (3); MIN_LENGTH alone (2)
    c += [q({"OP": 2, "FLAGS": 0, "CSUM": None}), q({"OP": 2, "FLAGS": 1, "CSUM": None}), q({"OP": 2, "FLAGS": 3, "CSUM": None}),
          q({"OP": 2, "FLAGS": 2, "CSUM": None}, 6)]
    # (repaired by fix: b638a7fe) q({"OP": 2, "FLAGS": 2, "CSUM": None}, 6) FAILED on the pinned tree: "the free-space search terminates"
    #   counterexample: blocks_count 6, first_data_block 1, only block 3 free, goal 4 (or any goal), len 2, MIN_LENGTH:
    #   find_first_zero(4..5) ENOENT -> start = 1 -> finds 3, run too short -> start = 4 -> ENOENT -> start = 1 -> ... for ever
    # alloc_range always passes MIN_LENGTH: FIXED_GOAL (1), FIXED_GOAL|ZERO (3) and 0 / ZERO (2)
    c += [q({"OP": 3, "FLAGS": 1}), q({"OP": 3, "FLAGS": 3}), q({"OP": 3, "FLAGS": 0}, 6),
          q({"OP": 3, "FLAGS": 2, "_tier": "thorough"}, 6)]
    # (q({"OP": 3, "FLAGS": 0}, 6) failed for the same reason)
    c += [dict(q(d, 16 if d["CAP"] == 4 else 8), _tier="thorough") for d in list(c) if d["OP"] != 3 and "CSUM" in d]
    return c

HARNESSES += [
    dict(name="alloc_search", src="alloc_search.c",
         funcs=["ext2fs_new_block3", "ext2fs_clear_block_uninit", "ext2fs_group_of_blk2", "ext2fs_blocks_count",
                "ext2fs_bg_flags_test", "ext2fs_bg_flags_clear"],   # first config; OP 2 adds ext2fs_new_range, OP 3 ext2fs_alloc_range
         extra_src=["lib/ext2fs/blknum.c"], stubs=["ext2fs_find_first_zero_generic_bmap", "ext2fs_find_first_set_generic_bmap"],
         configs=alloc_search_cfgs(), unwind=6, unwindset=alloc_search_uw(8, 4),
         backends=["default", "kissat"], cap_quick=300, cap_thorough=1200,
         bound="filesystem of 2..8 blocks (thorough: 2..16), 4 blocks per group, s_first_data_block 0 / 1, cluster ratio 1; bitmap "
               "content, 64-bit goal, len 0 .. 2^32-1, BLOCK_UNINIT of every group symbolic; one call of ext2fs_new_block3 / "
               "ext2fs_new_range (flags 0, FIXED_GOAL, FIXED_GOAL|MIN_LENGTH, MIN_LENGTH alone) / "
               "ext2fs_alloc_range (with and without FIXED_GOAL / ZERO_BLOCKS)"),
]
MANIFEST = {
    "text": "Bounded-exhaustive kernels of the libext2fs file data path: (1) one real file-handle operation "
            "(read/write/llseek/flush/set_size/close) from every handle+mapping+disk state satisfying the buffer "
            "coherence invariant returns/stores exactly the model's bytes and re-establishes the invariant, so "
            "histories of any length follow by induction within the window; (2) inline-data read/write lengths, "
            "copy bounds and store contents against a model store; (3) hole punching of block-mapped files against "
            "the indirect-block format for every 64-bit start/end; (4) bigalloc cluster release arithmetic; (5) one call of the "
            "preallocation kernel ext_falloc_helper() from every small well-formed extent state: per logical / physical probe block, "
            "old mappings and states preserved, the whole range mapped on success and nothing outside it, only newly mapped (or newly "
            "claimed, unmapped) blocks zeroed and every newly visible initialised block zeroed, every new block claimed exactly once from "
            "an allocator answer with i_blocks in step, written extents well formed (length limits, order, cluster invariant); "
            "(6) one real ext2fs_extent_set_bmap() on every small depth-0 extent root: the set block gets exactly the requested "
            "mapping and state, every other block keeps its own, the root stays well formed and the handle consistent; (7) the real "
            "ext2fs_punch_extent() walk over extents in two leaves: exactly the blocks in range are unmapped and released once; "
            "(8) one real ext2fs_bmap2() with BMAP_ALLOC (and BMAP_ALLOC|BMAP_SET, and no flag) on every small block-mapped tree "
            "with symbolic disk contents: exactly the missing blocks of the target's path (mapping blocks + data) are allocated through "
            "the real ext2fs_alloc_block3, zeroed before being accounted, linked in the slots the format defines, i_blocks grows by "
            "exactly that number, every other disk block / i_block slot / logical block is untouched, a lookup allocates and writes nothing; "
            "(9) the real free-space searches ext2fs_new_block3 / ext2fs_new_range / ext2fs_alloc_range on every bitmap of <= 8 (16) blocks: "
            "the answer is the first admissible free block / run in cyclic order from the goal, free, inside the filesystem, of the length "
            "the flags demand, and failure is reported exactly when none exists; (10) the real alloc_stats.c: bitmap bits, group free "
            "counts, superblock totals, UNINIT flags and checksum marking move together for one block, one range across group boundaries "
            "and one inode, in both directions.",
    "note": "Trusted: CBMC's C semantics, the mapping/allocator/inline-store stubs, the harness reference models. "
            "The real extent.c beyond depth 0, bigalloc allocation and whole-filesystem consistency are outside. Two defects these harnesses found are repaired "
            "(known_findings.txt: b638a7fe ext2fs_new_range non-termination, 4b276575 range-callback arguments).",
}
