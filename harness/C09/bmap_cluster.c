/*
 * C09/bmap_cluster: allocation of one block of an EXTENT-mapped file on a BIGALLOC filesystem
 * through the REAL ext2fs_bmap2 -> extent_bmap -> implied_cluster_alloc (bmap.c), pattern I/D.
 *
 * Definition (ext4 bigalloc): space is allocated in clusters of R = 4 blocks; all blocks of one
 * logical cluster of a file live in ONE physical cluster at the same in-cluster offset
 * (p % R == l % R).  Hence BMAP_ALLOC of an unmapped logical block l:
 *   - if any other block of l's logical cluster is mapped (to physical cluster C): the result is
 *     C*R + l % R, NO new cluster is allocated, i_blocks does not change;
 *   - otherwise exactly one new cluster is taken from the allocator, result = its base + l % R,
 *     i_blocks grows by one cluster;
 *   - an already mapped block is returned unchanged.
 * The mapping (table: one entry per logical block) satisfies the cluster invariant before and after.
 * The extent tree is a table behind the ext2fs_extent_* calls extent_bmap uses.
 */
#define ext2fs_extent_open2 stub_extent_open2
#define ext2fs_extent_free stub_extent_free
#define ext2fs_extent_goto stub_extent_goto
#define ext2fs_extent_get stub_extent_get
#define ext2fs_extent_set_bmap stub_extent_set_bmap
#define ext2fs_alloc_block3 stub_alloc_block3
#define ext2fs_find_inode_goal stub_find_inode_goal
#define ext2fs_read_inode stub_read_inode
#define ext2fs_write_inode stub_write_inode
#define ext2fs_block_alloc_stats2 stub_block_alloc_stats2
#include "lib/ext2fs/bmap.c"
#include "env.c"

#define CRB 2
#define R (1 << CRB)
#define NLC 3			/* logical clusters in the window */
#define NLB (NLC * R)

struct vf_in {
	__u32 map[NLB];		/* physical block of each logical block of the window, 0 = unmapped */
	__u32 lbase;		/* logical cluster number of the window start */
	__u32 l;		/* window offset of the block to allocate */
	__u32 fresh;		/* what the allocator hands out */
};
VF_DECLARE_INPUT(struct vf_in, IN)
#include "vf_input.inc"

static __u32 vf_map[NLB];
static __u64 vf_l0;
static int vf_cur = -1, vf_allocs, vf_sets, vf_bad, vf_inode_writes, vf_releases;
static char vf_hdl[8];
static struct ext2_inode vf_inode, vf_disk_inode;
static char vf_bb[2 * 64];

/* STUB: the extent tree is a table: ext2fs_extent_goto(l) finds the (one-block) extent of l or returns EXT2_ET_EXTENT_NOT_FOUND; ext2fs_extent_get(CURRENT) reports it; ext2fs_extent_set_bmap(l, p) stores p (extent.c itself: outside) */
errcode_t stub_extent_open2(ext2_filsys fs, ext2_ino_t ino, struct ext2_inode *inode, ext2_extent_handle_t *h)
{
	(void) fs; (void) ino; (void) inode;
	*h = (ext2_extent_handle_t) vf_hdl;
	return 0;
}
void stub_extent_free(ext2_extent_handle_t h) { (void) h; }
errcode_t stub_extent_goto(ext2_extent_handle_t h, blk64_t blk)
{
	int i;
	(void) h;
	vf_cur = -1;
	for (i = 0; i < NLB; i++)
		if (blk == vf_l0 + i && vf_map[i])
			vf_cur = i;
	return vf_cur >= 0 ? 0 : EXT2_ET_EXTENT_NOT_FOUND;
}
errcode_t stub_extent_get(ext2_extent_handle_t h, int flags, struct ext2fs_extent *ex)
{
	int i;
	(void) h;
	if (flags != EXT2_EXTENT_CURRENT || vf_cur < 0) { vf_bad = 1; return EXT2_ET_NO_CURRENT_NODE; }
	for (i = 0; i < NLB; i++)
		if (i == vf_cur) {
			ex->e_lblk = vf_l0 + i;
			ex->e_pblk = vf_map[i];
			ex->e_len = 1;
			ex->e_flags = EXT2_EXTENT_FLAGS_LEAF;
		}
	return 0;
}
errcode_t stub_extent_set_bmap(ext2_extent_handle_t h, blk64_t l, blk64_t p, int flags)
{
	int i, hit = 0;
	(void) h;
	if (flags) vf_bad = 1;
	vf_sets++;
	for (i = 0; i < NLB; i++)
		if (l == vf_l0 + i) { vf_map[i] = (__u32) p; hit = 1; }
	if (!hit) vf_bad = 1;
	return 0;
}
/* STUB: ext2fs_alloc_block3 hands out block IN.fresh of a cluster that no block of the window uses (alloc.c: outside) */
errcode_t stub_alloc_block3(ext2_filsys fs, blk64_t goal, char *bb, blk64_t *ret, struct blk_alloc_ctx *ctx)
{
	(void) fs; (void) goal; (void) bb; (void) ctx;
	vf_allocs++;
	*ret = IN.fresh;
	return 0;
}
blk64_t stub_find_inode_goal(ext2_filsys fs, ext2_ino_t ino, struct ext2_inode *inode, blk64_t lblk)
{
	(void) fs; (void) ino; (void) inode; (void) lblk;
	return 0;
}
/* STUB: ext2fs_read_inode / ext2fs_write_inode load / store one inode image */
errcode_t stub_read_inode(ext2_filsys fs, ext2_ino_t ino, struct ext2_inode *inode)
{
	(void) fs; (void) ino;
	*inode = vf_disk_inode;
	return 0;
}
errcode_t stub_write_inode(ext2_filsys fs, ext2_ino_t ino, struct ext2_inode *inode)
{
	(void) fs; (void) ino;
	vf_disk_inode = *inode;
	vf_inode_writes++;
	return 0;
}
void stub_block_alloc_stats2(ext2_filsys fs, blk64_t blk, int inuse)
{
	(void) fs; (void) blk; (void) inuse;
	vf_releases++;
}

/* cluster invariant of the table */
static int vf_inv(const __u32 *m)
{
	int i, j;
	for (i = 0; i < NLB; i++) {
		if (!m[i]) continue;
		if (m[i] < 16 || m[i] >= 4096) return 1;
		if ((m[i] & (R - 1)) != (unsigned) (i & (R - 1))) return 2;
		for (j = i + 1; j < NLB; j++) {
			if (!m[j]) continue;
			if ((i >> CRB) == (j >> CRB)) {
				if ((m[i] >> CRB) != (m[j] >> CRB)) return 3;
			} else if ((m[i] >> CRB) == (m[j] >> CRB)) return 4;
		}
	}
	return 0;
}

static struct struct_ext2_filsys vf_fs;
static struct ext2_super_block vf_sb;

int main(void)
{
	errcode_t rc;
	blk64_t phys = 0x55;
	int i, c, ret_flags = 9;
	__u32 l, pre = 0, mate = 0, want, iblocks0;

	VF_INPUT(IN);
	vf_sb.s_feature_ro_compat = EXT4_FEATURE_RO_COMPAT_BIGALLOC;
	vf_sb.s_blocks_count = 8192;
	vf_fs.magic = EXT2_ET_MAGIC_EXT2FS_FILSYS;
	vf_fs.super = &vf_sb;
	vf_fs.blocksize = 1024;
	vf_fs.cluster_ratio_bits = CRB;
	vf_fs.flags = EXT2_FLAG_RW;
	vf_inode.i_mode = 0100644;
	vf_inode.i_flags = EXT4_EXTENTS_FL;
	vf_inode.i_blocks = 800;
	iblocks0 = vf_inode.i_blocks;
	vf_disk_inode = vf_inode;

	/* BOUND: cluster ratio 4; window of 3 logical clusters anywhere below logical block 2^31; physical blocks 16..4095; the allocator's block lies in a cluster the window does not use */
	ASSUME(IN.lbase < (1u << 29));
	vf_l0 = (__u64) IN.lbase << CRB;
	ASSUME(IN.l < NLB);
	l = IN.l;
	for (i = 0; i < NLB; i++) vf_map[i] = IN.map[i];
	ASSUME(vf_inv(vf_map) == 0);
	ASSUME(IN.fresh >= 16 && IN.fresh < 4096);
	for (i = 0; i < NLB; i++)
		ASSUME(!IN.map[i] || (IN.map[i] >> CRB) != (IN.fresh >> CRB));

	/* reference */
	for (i = 0; i < NLB; i++) {
		if ((__u32) i == l) pre = IN.map[i];
		else if ((i >> CRB) == (int) (l >> CRB) && IN.map[i]) mate = IN.map[i];
	}
	if (pre) want = pre;
	else if (mate) want = (mate & ~(__u32) (R - 1)) + (l & (R - 1));
	else want = (IN.fresh & ~(__u32) (R - 1)) + (l & (R - 1));

	rc = ext2fs_bmap2(&vf_fs, 12, &vf_inode, vf_bb, BMAP_ALLOC, vf_l0 + l, &ret_flags, &phys);

	PROP(rc == 0, "bigalloc BMAP_ALLOC succeeds");
	PROP(!vf_bad, "extent calls stay inside the window and are well formed");
	PROP(phys == want, "bigalloc: a block of a logical cluster that already has a mapped block reuses that physical cluster at the same offset; else a new cluster");
	PROP(vf_allocs == ((!pre && !mate) ? 1 : 0), "bigalloc: a new cluster is allocated only when no block of the logical cluster is mapped");
	PROP(vf_sets == (pre ? 0 : 1), "the new mapping is stored once");
	PROP(vf_releases == 0, "nothing is released");
	for (i = 0; i < NLB; i++)
		PROP(vf_map[i] == ((__u32) i == l ? want : IN.map[i]), "only the requested logical block changes its mapping");
	PROP(vf_inv(vf_map) == 0, "cluster invariant preserved (one physical cluster per logical cluster, matching offsets)");
	c = (!pre && !mate) ? 1 : 0;
	PROP(vf_inode.i_blocks == iblocks0 + (__u32) c * R * 2, "i_blocks grows by one cluster exactly when a new cluster was allocated");
	PROP(!c || (vf_inode_writes >= 1 && vf_disk_inode.i_blocks == vf_inode.i_blocks), "the inode is written back after an allocation");
	VF_END();
	return 0;
}
