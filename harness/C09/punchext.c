/*
 * NOT REGISTERED in spec.py: CBMC's symbolic execution of the real extent.c at depth 1 (heap leaf buffers, symbolic
 * entry pointers into i_block / leaf buffers, recursion of ext2fs_extent_delete) did not get past the second iteration of
 * the punch loop in 10 minutes for the 1+1 layout.  Kept as the starting point for a later attempt; punchwalk.c is the
 * registered harness for the walk.
 *
 * C09/punchext: hole punching / truncation of an EXTENT-mapped file whose tree has DEPTH 1:
 * the REAL ext2fs_punch() -> ext2fs_punch_extent() -> punch_extent_blocks() (punch.c) on the REAL
 * extent.c (open2 / get / goto2 / replace / insert / delete / fix_parents / update_path).
 *
 * The root (in i_block) holds two index entries; the two leaf blocks live in a small array disk behind
 * io_channel_read_blk64 / write_blk64.  BOUND: block size scaled to 64 bytes (a leaf holds 4 entries)
 * through an unphysical s_log_block_size; leaf 0 has NL0, leaf 1 has NL1 extents (compile time, 1..2),
 * gaps 0..3, lengths 1..3, either state, physical blocks symbolic and pairwise disjoint.
 * One call ext2fs_punch(start, end) with start in 0..31 and end = start + 0..15 or ~0 (truncate).
 *
 * Reference (independent of the walk): a symbolic probe block Q is mapped afterwards (found by reading
 * root, then the leaf blocks ON DISK) iff it was mapped before and lies outside [start, end], to the same
 * physical block in the same state; a symbolic physical probe block PB is released exactly once if it
 * was mapped at a logical block inside the range or is a leaf block that lost all its extents, else never;
 * the number of releases and the count handed to ext2fs_iblk_sub_blocks match; the tree is still well
 * formed (index starts <= first extent of the leaf, leaves non-empty, extents sorted without overlap).
 * OUTSIDE: node splits (extent_node_split cut; not needed: a leaf has room), i_blocks after the release
 * of a leaf block (blocksize / 512 == 0 at the scaled size), bigalloc, depth >= 2.
 */
#include <string.h>
#define memmove vf_memmove
static void *vf_memmove(void *d, const void *s, size_t n);
#include "ext2_fs.h"
#include "ext2fs.h"
struct ext2_extent_handle;
static errcode_t extent_node_split(struct ext2_extent_handle *handle, int expand_allowed);
#include "lib/ext2fs/extent.c"
/* punch.c is a separate unit (extra_src): ext2fsP.h has no include guard */

#ifndef NL0
#define NL0 2
#endif
#ifndef NL1
#define NL1 2
#endif
#define NX (NL0 + NL1)
#define BS 64
#define LEAFBLK 200		/* leaf k is physical block LEAFBLK + k */

struct vf_in {
	unsigned char gap[NX], len[NX], un[NX], p[NX];
	unsigned char start, elen, trunc, Q, PB;
	__u32 iblocks;
};
VF_DECLARE_INPUT(struct vf_in, IN)
#include "vf_input.inc"

static struct struct_ext2_filsys vf_fs;
static struct ext2_super_block vf_sb;
static struct ext2_inode vf_inode;
static struct struct_io_channel vf_io;
static unsigned char vf_disk[2][BS] __attribute__((aligned(8)));
static int vf_bad, vf_split, vf_move_bad, vf_nwrite_inode, vf_nrel, vf_hits, vf_nsub;
static unsigned long long vf_pb, vf_subarg;

/* STUB: memmove inside extent.c (entry shifting of insert / delete): whole 12-byte entries, at most 4, copied through a temporary */
static void *vf_memmove(void *d, const void *s, size_t n)
{
	struct ext3_extent_idx t[4], *D = d;
	const struct ext3_extent_idx *S = s;
	int j;
	if (n > 4 * sizeof(struct ext3_extent_idx) || n % sizeof(struct ext3_extent_idx))
		vf_move_bad = 1;
	for (j = 0; j < 4; j++)
		if ((size_t) j * sizeof(struct ext3_extent_idx) < n)
			t[j] = S[j];
	for (j = 0; j < 4; j++)
		if ((size_t) j * sizeof(struct ext3_extent_idx) < n)
			D[j] = t[j];
	return d;
}
/* STUB: extent_node_split (cut): never needed within the bound; records that it was asked for */
static errcode_t extent_node_split(struct ext2_extent_handle *handle, int expand_allowed)
{
	(void) handle; (void) expand_allowed;
	vf_split = 1;
	return EXT2_ET_CANT_INSERT_EXTENT;
}
/* STUB: ext2fs_write_inode succeeds (the root lives in the caller's inode) */
errcode_t ext2fs_write_inode(ext2_filsys fs, ext2_ino_t ino, struct ext2_inode *inode)
{
	(void) fs; (void) ino; (void) inode;
	vf_nwrite_inode++;
	return 0;
}
errcode_t ext2fs_read_inode(ext2_filsys fs, ext2_ino_t ino, struct ext2_inode *inode) { (void) fs; (void) ino; (void) inode; vf_bad = 1; return EXT2_ET_OP_NOT_SUPPORTED; }
/* STUB: block I/O = the two leaf blocks of the array disk; anything else is reported */
errcode_t io_channel_read_blk64(io_channel c, unsigned long long b, int n, void *d)
{
	int k;
	(void) c;
	if (n != 1 || b < LEAFBLK || b >= LEAFBLK + 2) {
		vf_bad = 1;
		return EXT2_ET_SHORT_READ;
	}
	for (k = 0; k < 2; k++)
		if (b == (unsigned long long) (LEAFBLK + k))
			memcpy(d, vf_disk[k], BS);
	return 0;
}
errcode_t io_channel_write_blk64(io_channel c, unsigned long long b, int n, const void *d)
{
	int k;
	(void) c;
	if (n != 1 || b < LEAFBLK || b >= LEAFBLK + 2) {
		vf_bad = 1;
		return EXT2_ET_SHORT_WRITE;
	}
	for (k = 0; k < 2; k++)
		if (b == (unsigned long long) (LEAFBLK + k))
			memcpy(vf_disk[k], d, BS);
	return 0;
}
/* STUB: no metadata_csum */
int ext2fs_extent_block_csum_verify(ext2_filsys fs, ext2_ino_t ino, struct ext3_extent_header *eh) { (void) fs; (void) ino; (void) eh; return 1; }
errcode_t ext2fs_extent_block_csum_set(ext2_filsys fs, ext2_ino_t ino, struct ext3_extent_header *eh) { (void) fs; (void) ino; (void) eh; return 0; }
/* STUB: ext2fs_block_alloc_stats2 counts the releases and those of the probe block */
void ext2fs_block_alloc_stats2(ext2_filsys fs, blk64_t b, int inuse)
{
	(void) fs;
	if (inuse != -1)
		vf_bad = 1;
	vf_nrel++;
	if (b == vf_pb)
		vf_hits++;
}
/* STUB: ext2fs_iblk_sub_blocks records its argument (i_block.c: decided elsewhere; at the scaled block size blocksize / 512 is 0) */
errcode_t ext2fs_iblk_sub_blocks(ext2_filsys fs, struct ext2_inode *inode, blk64_t n)
{
	(void) fs; (void) inode;
	vf_nsub++;
	vf_subarg = n;
	return 0;
}
errcode_t ext2fs_map_cluster_block(ext2_filsys fs, ext2_ino_t ino, struct ext2_inode *inode, blk64_t l, blk64_t *p)
{ (void) fs; (void) ino; (void) inode; (void) l; *p = 0; vf_bad = 1; return 0; }

struct ref_ext { unsigned l, len, un, p; };
static struct ref_ext ref_pre[NX];

/* the mapping as an independent reader finds it: root in i_block, leaves on disk */
static int vf_post_lookup(unsigned q, unsigned *p, unsigned *un, int *shape_bad)
{
	struct ext3_extent_header *rh = (struct ext3_extent_header *) vf_inode.i_block, *lh;
	struct ext3_extent_idx *ix = (struct ext3_extent_idx *) (vf_inode.i_block + 3);
	struct ext3_extent *ex;
	unsigned i, j, k, raw, l, len, prev_end = 0, have_prev = 0;
	int c = 0;

	if (rh->eh_magic != EXT3_EXT_MAGIC || rh->eh_max != 4 || rh->eh_entries > 2)
		*shape_bad = 1;
	if (rh->eh_depth == 0) {
		if (rh->eh_entries != 0)
			*shape_bad = 1;		/* within the bound a depth-0 root only arises when everything was removed */
		return 0;
	}
	if (rh->eh_depth != 1 || rh->eh_entries == 0)
		*shape_bad = 1;
	for (i = 0; i < 2; i++) {
		if (i >= rh->eh_entries)
			continue;
		if (ix[i].ei_leaf_hi || ix[i].ei_leaf < LEAFBLK || ix[i].ei_leaf >= LEAFBLK + 2) {
			*shape_bad = 1;
			continue;
		}
		for (k = 0; k < 2; k++) {
			if (ix[i].ei_leaf != (unsigned) (LEAFBLK + k))
				continue;
			lh = (struct ext3_extent_header *) vf_disk[k];
			ex = (struct ext3_extent *) (vf_disk[k] + 12);
			if (lh->eh_magic != EXT3_EXT_MAGIC || lh->eh_depth != 0 || lh->eh_max != 4 ||
			    lh->eh_entries == 0 || lh->eh_entries > 4)
				*shape_bad = 1;
			for (j = 0; j < 4; j++) {
				if (j >= lh->eh_entries)
					continue;
				raw = ex[j].ee_len;
				l = ex[j].ee_block;
				len = raw > 32768u ? raw - 32768u : raw;
				if (len == 0 || (have_prev && l < prev_end) || ex[j].ee_start_hi)
					*shape_bad = 1;
				if (j == 0 && ix[i].ei_block > l)
					*shape_bad = 1;		/* index start beyond the first extent of its leaf */
				prev_end = l + len;
				have_prev = 1;
				if (q >= l && q < l + len) {
					c++;
					*p = ex[j].ee_start + (q - l);
					*un = raw > 32768u;
				}
			}
		}
	}
	return c;
}

int main(void)
{
	struct ext3_extent_header *rh = (struct ext3_extent_header *) vf_inode.i_block, *lh;
	struct ext3_extent_idx *ix = (struct ext3_extent_idx *) (vf_inode.i_block + 3);
	struct ext3_extent *ex;
	errcode_t rc;
	unsigned long long start, end;
	unsigned pos = 0, Q, pp = 0, pu = 0, qp = 0, qu = 0, want_rel = 0, want_hits = 0, inr, lo, hi;
	int i, j, k, pre_c = 0, post_c, shape_bad = 0, emptied[2];

	VF_INPUT(IN);
	vf_sb.s_log_block_size = (__u32) (6 - 10);	/* BOUND: 64-byte blocks (EXT2_BLOCK_SIZE_BITS == 6) */
	vf_sb.s_inodes_count = 64;
	vf_sb.s_blocks_count = 4096;
	vf_sb.s_first_data_block = 0;
	vf_fs.magic = EXT2_ET_MAGIC_EXT2FS_FILSYS;
	vf_fs.super = &vf_sb;
	vf_fs.blocksize = BS;
	vf_fs.flags = EXT2_FLAG_RW;
	vf_fs.io = &vf_io;
	vf_inode.i_mode = 0100644;
	vf_inode.i_flags = EXT4_EXTENTS_FL;
	vf_inode.i_size = 0;
	vf_inode.i_blocks = IN.iblocks;

	/* pre-state */
	for (i = 0; i < NX; i++) {
		ASSUME(IN.un[i] <= 1);
		pos += IN.gap[i] & 3;
		ref_pre[i].l = pos;
		ref_pre[i].len = 1 + IN.len[i] % 3;
		ref_pre[i].un = IN.un[i];
		ref_pre[i].p = 1 + (IN.p[i] & 127);
		pos += ref_pre[i].len;
	}
	/* ASSUME: the extents' physical ranges are pairwise disjoint (and below the leaf blocks by construction) */
	for (i = 0; i < NX; i++)
		for (j = i + 1; j < NX; j++)
			ASSUME(ref_pre[i].p + ref_pre[i].len <= ref_pre[j].p || ref_pre[j].p + ref_pre[j].len <= ref_pre[i].p);
	rh->eh_magic = EXT3_EXT_MAGIC;
	rh->eh_entries = 2;
	rh->eh_max = 4;
	rh->eh_depth = 1;
	for (k = 0; k < 2; k++) {
		int n = k ? NL1 : NL0, base = k ? NL0 : 0;
		lh = (struct ext3_extent_header *) vf_disk[k];
		ex = (struct ext3_extent *) (vf_disk[k] + 12);
		lh->eh_magic = EXT3_EXT_MAGIC;
		lh->eh_entries = n;
		lh->eh_max = 4;
		lh->eh_depth = 0;
		for (j = 0; j < n; j++) {
			ex[j].ee_block = ref_pre[base + j].l;
			ex[j].ee_len = (__u16) (ref_pre[base + j].len + (ref_pre[base + j].un ? 32768u : 0));
			ex[j].ee_start = ref_pre[base + j].p;
			ex[j].ee_start_hi = 0;
		}
		/* the index entry starts at the first extent of its leaf, as ext2fs_extent_fix_parents keeps it */
		ix[k].ei_block = ref_pre[base].l;
		ix[k].ei_leaf = LEAFBLK + k;
		ix[k].ei_leaf_hi = 0;
		ix[k].ei_unused = 0;
	}
	/* BOUND: start 0..31, end = start + 0..15 or ~0 (truncate); probes anywhere in 0..63 / 0..255 */
	start = IN.start & 31;
	end = (IN.trunc & 1) ? ~0ULL : start + (IN.elen & 15);
	Q = IN.Q & 63;
	vf_pb = IN.PB;

	/* reference */
	emptied[0] = emptied[1] = 1;
	for (i = 0; i < NX; i++) {
		lo = ref_pre[i].l;
		hi = lo + ref_pre[i].len;		/* exclusive */
		/* blocks of this extent inside [start, end] */
		inr = 0;
		for (j = 0; j < 3; j++)
			if ((unsigned) j < ref_pre[i].len && lo + j >= start && lo + j <= end) {
				inr++;
				if (vf_pb == ref_pre[i].p + j)
					want_hits++;
			}
		want_rel += inr;
		if (inr < ref_pre[i].len)
			emptied[i < NL0 ? 0 : 1] = 0;
		if (Q >= lo && Q < hi) {
			pre_c++;
			pp = ref_pre[i].p + (Q - lo);
			pu = ref_pre[i].un;
		}
	}
	for (k = 0; k < 2; k++)
		if (emptied[k] && vf_pb == (unsigned long long) (LEAFBLK + k))
			want_hits++;

	rc = ext2fs_punch(&vf_fs, 12, &vf_inode, 0, start, end);

	/* ASSUME: no node split was needed (cannot be: a leaf holds at most 2 of 4 entries, the split of an extent adds one) */
	ASSUME(!vf_split);
	PROP(rc == 0, "ext2fs_punch succeeds");
	PROP(!vf_bad, "I/O stays on the leaf blocks, releases are -1, no bigalloc path");
	PROP(!vf_move_bad, "entry shifting moves whole entries");

	post_c = vf_post_lookup(Q, &qp, &qu, &shape_bad);
	PROP(!shape_bad, "the tree on disk is well formed afterwards (headers, leaves non-empty, index starts, extents sorted without overlap)");
	if (pre_c && !(Q >= start && Q <= end)) {
		PROP(post_c == 1, "a mapped block outside the range stays mapped");
		if (post_c == 1) {
			PROP(qp == pp, "a block outside the range keeps its physical block");
			PROP(qu == pu, "a block outside the range keeps its state");
		}
	} else
		PROP(post_c == 0, "blocks inside the range (and holes) are unmapped afterwards");
	PROP(vf_hits == (int) want_hits, "a physical block is released exactly once iff it was mapped inside the range or is a leaf block that lost all its extents");
	PROP(vf_nrel == (int) want_rel + emptied[0] + emptied[1], "the number of releases is the number of blocks mapped inside the range plus the emptied leaves");
	PROP(vf_nsub == 1 && vf_subarg == want_rel, "i_blocks is reduced by exactly the data blocks released");
	PROP(vf_nwrite_inode >= 1, "the inode is written back");
	VF_END();
	return 0;
}
