/*
 * C09/punchwalk: hole punching / truncation of an EXTENT-mapped file whose extents are spread over TWO
 * LEAVES: the REAL ext2fs_punch() -> ext2fs_punch_extent() -> punch_extent_blocks() (punch.c) over a
 * specification model of the extent API that knows leaf boundaries (extent.c itself: see setbmap0 for
 * depth 0; depth >= 1 of the real extent.c did not fit, see spec.py).
 *
 * Model of the API (written from extent.c's documented behaviour):
 *   goto(b): the extent holding b (0), else the next-lowest, else the lowest one (EXT2_ET_EXTENT_NOT_FOUND);
 *            no current node on an empty tree;
 *   get(CURRENT); get(NEXT_LEAF): the next extent in logical order, crossing into the next leaf;
 *   get(NEXT_SIB): the next extent OF THE SAME LEAF, EXT2_ET_EXTENT_NO_NEXT at the last entry of a leaf;
 *   replace: overwrite the current entry; insert(INSERT_AFTER): new entry behind the current one, same
 *   leaf, becomes current; delete: remove the current entry, after which the position is only defined
 *   again by a goto (extent.c leaves it on a neighbour or, if the leaf vanished, on the index level);
 *   fix_parents: keeps the position (EXT2_ET_NO_CURRENT_NODE without one).
 * BOUND: leaf 0 holds NL0, leaf 1 NL1 extents (compile time 1..2), gaps 0..3, lengths 1..4, either state,
 * physical blocks symbolic and pairwise disjoint; start 0..31, end = start + 0..15 or ~0 (truncate).
 *
 * Reference: a probe block Q is mapped afterwards iff it was mapped and lies outside [start, end], to the
 * same physical block in the same state; a physical probe block PB is released exactly once iff it was
 * mapped inside the range; release count == blocks mapped in the range == argument of ext2fs_iblk_sub_blocks;
 * extents stay non-empty, sorted, without overlap; every modification is followed by fix_parents.
 */
#include "ext2_fs.h"
#include "ext2fs.h"

#ifndef NL0
#define NL0 2
#endif
#ifndef NL1
#define NL1 2
#endif
#define NX (NL0 + NL1)
#define NE (NX + 1)		/* one slot for the tail piece when an extent is split */

struct vf_in {
	unsigned char gap[NX], len[NX], un[NX], p[NX];
	unsigned char start, elen, trunc, Q, PB, fixrc;
	__u32 iblocks;
};
VF_DECLARE_INPUT(struct vf_in, IN)
#include "vf_input.inc"

struct vf_ext { unsigned long long l, p; unsigned len; unsigned char un, valid, leaf; };
static struct vf_ext vf_e[NE], ref_pre[NX];
static int vf_cur = -1, vf_posundef, vf_bad, vf_needfix, vf_overflow, vf_nrel, vf_hits, vf_nsub, vf_nwrite_inode, vf_nopen, vf_nfree;
static unsigned long long vf_pb, vf_subarg;
static char vf_handle_obj;
static struct struct_ext2_filsys vf_fs;
static struct ext2_super_block vf_sb;
static struct ext2_inode vf_inode;

static void vf_fetch(int c, struct vf_ext *o)
{
	int i;
	static struct vf_ext z;
	*o = z;
	for (i = 0; i < NE; i++)
		if (i == c)
			*o = vf_e[i];
}
static int vf_lower(unsigned long long b)
{
	int i, r = -1;
	unsigned long long bl = 0;
	for (i = 0; i < NE; i++)
		if (vf_e[i].valid && vf_e[i].l <= b && (r < 0 || vf_e[i].l > bl)) {
			r = i;
			bl = vf_e[i].l;
		}
	return r;
}
/* the valid extent with the smallest start > b (all: smallest start); leaf >= 0: only that leaf */
static int vf_above(unsigned long long b, int all, int leaf)
{
	int i, r = -1;
	unsigned long long bl = 0;
	for (i = 0; i < NE; i++)
		if (vf_e[i].valid && (all || vf_e[i].l > b) && (leaf < 0 || vf_e[i].leaf == leaf) && (r < 0 || vf_e[i].l < bl)) {
			r = i;
			bl = vf_e[i].l;
		}
	return r;
}
static void vf_deliver(int c, struct ext2fs_extent *ex)
{
	struct vf_ext e;
	vf_fetch(c, &e);
	ex->e_lblk = e.l;
	ex->e_pblk = e.p;
	ex->e_len = e.len;
	ex->e_flags = EXT2_EXTENT_FLAGS_LEAF | (e.un ? EXT2_EXTENT_FLAGS_UNINIT : 0);
}
/* STUB: the extent API model described at the top of this file; all calls succeed unless the model says otherwise */
errcode_t ext2fs_extent_open2(ext2_filsys fs, ext2_ino_t ino, struct ext2_inode *inode, ext2_extent_handle_t *h)
{
	(void) fs; (void) ino; (void) inode;
	vf_nopen++;
	vf_cur = -1;
	*h = (ext2_extent_handle_t) &vf_handle_obj;
	return 0;
}
void ext2fs_extent_free(ext2_extent_handle_t h) { (void) h; vf_nfree++; }
errcode_t ext2fs_extent_goto(ext2_extent_handle_t h, blk64_t blk)
{
	struct vf_ext e;
	int c;
	(void) h;
	vf_posundef = 0;
	c = vf_lower(blk);
	if (c < 0) {
		vf_cur = vf_above(0, 1, -1);
		return EXT2_ET_EXTENT_NOT_FOUND;
	}
	vf_cur = c;
	vf_fetch(c, &e);
	return blk < e.l + e.len ? 0 : EXT2_ET_EXTENT_NOT_FOUND;
}
errcode_t ext2fs_extent_get(ext2_extent_handle_t h, int flags, struct ext2fs_extent *ex)
{
	struct vf_ext e;
	int c;
	(void) h;
	if (vf_posundef)
		vf_bad = 1;	/* the walk relies on the position a delete leaves behind */
	if (vf_cur < 0)
		return EXT2_ET_NO_CURRENT_NODE;
	if (flags == EXT2_EXTENT_CURRENT) {
		vf_deliver(vf_cur, ex);
		return 0;
	}
	vf_fetch(vf_cur, &e);
	if (flags == EXT2_EXTENT_NEXT_LEAF || flags == EXT2_EXTENT_NEXT)
		c = vf_above(e.l, 0, -1);
	else if (flags == EXT2_EXTENT_NEXT_SIB)
		c = vf_above(e.l, 0, e.leaf);
	else {
		vf_bad = 1;
		return EXT2_ET_OP_NOT_SUPPORTED;
	}
	if (c < 0)
		return EXT2_ET_EXTENT_NO_NEXT;
	vf_cur = c;
	vf_deliver(c, ex);
	return 0;
}
static void vf_set(struct vf_ext *d, struct ext2fs_extent *ex, int leaf)
{
	d->l = ex->e_lblk;
	d->p = ex->e_pblk;
	d->len = ex->e_len;
	d->un = (ex->e_flags & EXT2_EXTENT_FLAGS_UNINIT) != 0;
	d->valid = 1;
	d->leaf = (unsigned char) leaf;
}
errcode_t ext2fs_extent_replace(ext2_extent_handle_t h, int flags, struct ext2fs_extent *ex)
{
	int i;
	(void) h;
	if (flags || vf_cur < 0 || vf_posundef || vf_needfix)
		vf_bad = 1;
	for (i = 0; i < NE; i++)
		if (i == vf_cur)
			vf_set(&vf_e[i], ex, vf_e[i].leaf);
	vf_needfix = 1;
	return 0;
}
errcode_t ext2fs_extent_insert(ext2_extent_handle_t h, int flags, struct ext2fs_extent *ex)
{
	struct vf_ext e;
	(void) h;
	if (flags != EXT2_EXTENT_INSERT_AFTER || vf_cur < 0 || vf_posundef || vf_needfix)
		vf_bad = 1;
	if (vf_e[NX].valid) {
		vf_overflow = 1;
		return 0;
	}
	vf_fetch(vf_cur, &e);
	vf_set(&vf_e[NX], ex, e.leaf);
	vf_cur = NX;
	vf_needfix = 1;
	return 0;
}
errcode_t ext2fs_extent_delete(ext2_extent_handle_t h, int flags)
{
	int i;
	(void) h;
	if (flags || vf_cur < 0 || vf_posundef || vf_needfix)
		vf_bad = 1;
	for (i = 0; i < NE; i++)
		if (i == vf_cur)
			vf_e[i].valid = 0;
	vf_posundef = 1;
	vf_needfix = 1;
	return 0;
}
errcode_t ext2fs_extent_fix_parents(ext2_extent_handle_t h)
{
	(void) h;
	vf_needfix = 0;
	/* after a delete extent.c answers 0 or EXT2_ET_NO_CURRENT_NODE (the node may be gone): either, chosen by the input */
	if (vf_posundef)
		return (IN.fixrc & 1) ? EXT2_ET_NO_CURRENT_NODE : 0;
	return vf_cur < 0 ? EXT2_ET_NO_CURRENT_NODE : 0;
}
/* STUB: ext2fs_block_alloc_stats2 counts the releases and those of the probe block */
void ext2fs_block_alloc_stats2(ext2_filsys fs, blk64_t b, int inuse)
{
	(void) fs;
	if (inuse != -1)
		vf_bad = 1;
	vf_nrel++;
	if (b == vf_pb)
		vf_hits++;
}
/* STUB: ext2fs_iblk_sub_blocks records its argument (i_block.c: other harnesses) */
errcode_t ext2fs_iblk_sub_blocks(ext2_filsys fs, struct ext2_inode *inode, blk64_t n)
{
	(void) fs; (void) inode;
	vf_nsub++;
	vf_subarg = n;
	return 0;
}
errcode_t ext2fs_write_inode(ext2_filsys fs, ext2_ino_t ino, struct ext2_inode *inode) { (void) fs; (void) ino; (void) inode; vf_nwrite_inode++; return 0; }
/* STUB: not reached for an extent-mapped inode without bigalloc (reported if reached) */
errcode_t ext2fs_read_inode(ext2_filsys fs, ext2_ino_t ino, struct ext2_inode *inode) { (void) fs; (void) ino; (void) inode; vf_bad = 1; return EXT2_ET_OP_NOT_SUPPORTED; }
errcode_t ext2fs_map_cluster_block(ext2_filsys fs, ext2_ino_t ino, struct ext2_inode *inode, blk64_t l, blk64_t *p)
{ (void) fs; (void) ino; (void) inode; (void) l; *p = 0; vf_bad = 1; return 0; }
errcode_t ext2fs_inline_data_ea_remove(ext2_filsys fs, ext2_ino_t ino) { (void) fs; (void) ino; vf_bad = 1; return 0; }
errcode_t ext2fs_read_ind_block(ext2_filsys fs, blk_t b, void *buf) { (void) fs; (void) b; (void) buf; vf_bad = 1; return EXT2_ET_OP_NOT_SUPPORTED; }
errcode_t ext2fs_write_ind_block(ext2_filsys fs, blk_t b, void *buf) { (void) fs; (void) b; (void) buf; vf_bad = 1; return EXT2_ET_OP_NOT_SUPPORTED; }
void ext2fs_block_alloc_stats(ext2_filsys fs, blk_t b, int inuse) { (void) fs; (void) b; (void) inuse; vf_bad = 1; }

int main(void)
{
	errcode_t rc;
	unsigned long long start, end, Q, pos = 0, pp = 0, qp = 0, lo, prev_end = 0;
	unsigned pu = 0, qu = 0, want_rel = 0, want_hits = 0;
	int i, j, pre_c = 0, post_c = 0, ok = 1, c, have_prev = 0;
	struct vf_ext e;

	VF_INPUT(IN);
	vf_sb.s_log_block_size = 0;
	vf_sb.s_blocks_count = 4096;
	vf_sb.s_first_data_block = 0;
	vf_fs.magic = EXT2_ET_MAGIC_EXT2FS_FILSYS;
	vf_fs.super = &vf_sb;
	vf_fs.blocksize = 1024;
	vf_fs.flags = EXT2_FLAG_RW;
	vf_inode.i_mode = 0100644;
	vf_inode.i_flags = EXT4_EXTENTS_FL;
	vf_inode.i_blocks = IN.iblocks;

	for (i = 0; i < NX; i++) {
		ASSUME(IN.un[i] <= 1);
		pos += IN.gap[i] & 3;
		ref_pre[i].l = pos;
		ref_pre[i].len = 1 + (IN.len[i] & 3);
		ref_pre[i].un = IN.un[i];
		ref_pre[i].p = 1 + (IN.p[i] & 127);
		ref_pre[i].valid = 1;
		ref_pre[i].leaf = i < NL0 ? 0 : 1;
		pos += ref_pre[i].len;
		vf_e[i] = ref_pre[i];
	}
	/* ASSUME: the extents' physical ranges are pairwise disjoint */
	for (i = 0; i < NX; i++)
		for (j = i + 1; j < NX; j++)
			ASSUME(ref_pre[i].p + ref_pre[i].len <= ref_pre[j].p || ref_pre[j].p + ref_pre[j].len <= ref_pre[i].p);
	start = IN.start & 31;
	end = (IN.trunc & 1) ? ~0ULL : start + (IN.elen & 15);
	Q = IN.Q & 63;
	vf_pb = IN.PB;

	/* reference */
	for (i = 0; i < NX; i++) {
		lo = ref_pre[i].l;
		for (j = 0; j < 4; j++)
			if ((unsigned) j < ref_pre[i].len && lo + j >= start && lo + j <= end) {
				want_rel++;
				if (vf_pb == ref_pre[i].p + j)
					want_hits++;
			}
		if (Q >= lo && Q < lo + ref_pre[i].len) {
			pre_c++;
			pp = ref_pre[i].p + (Q - lo);
			pu = ref_pre[i].un;
		}
	}

	rc = ext2fs_punch(&vf_fs, 12, &vf_inode, 0, start, end);

	PROP(rc == 0, "ext2fs_punch succeeds");
	PROP(!vf_bad, "the walk uses the extent API as documented (supported moves, a defined position, fix_parents after every change, releases are -1)");
	PROP(!vf_overflow, "harness: at most one extent is split");
	PROP(!vf_needfix, "the last modification is followed by ext2fs_extent_fix_parents");
	PROP(vf_nopen == 1 && vf_nfree == 1, "the handle is opened and freed once");

	/* extents afterwards: walk in logical order */
	c = vf_above(0, 1, -1);
	for (i = 0; i < NE; i++) {
		if (c < 0)
			break;
		vf_fetch(c, &e);
		if (e.len == 0 || e.len > 32768u || (have_prev && e.l < prev_end))
			ok = 0;
		prev_end = e.l + e.len;
		have_prev = 1;
		if (Q >= e.l && Q < e.l + e.len) {
			post_c++;
			qp = e.p + (Q - e.l);
			qu = e.un;
		}
		c = vf_above(e.l, 0, -1);
	}
	PROP(ok, "extents stay non-empty, sorted, without overlap");
	if (pre_c && !(Q >= start && Q <= end)) {
		PROP(post_c == 1, "a mapped block outside the range stays mapped");
		if (post_c == 1) {
			PROP(qp == pp, "a block outside the range keeps its physical block");
			PROP(qu == pu, "a block outside the range keeps its state");
		}
	} else
		PROP(post_c == 0, "blocks inside the range (and holes) are unmapped afterwards");
	PROP(vf_hits == (int) want_hits, "a physical block is released exactly once iff it was mapped inside the range");
	PROP(vf_nrel == (int) want_rel, "the number of releases is the number of blocks mapped inside the range");
	PROP(vf_nsub == 1 && vf_subarg == want_rel, "i_blocks is reduced by exactly the blocks released");
	PROP(vf_nwrite_inode >= 1, "the inode is written back");
	VF_END();
	return 0;
}
