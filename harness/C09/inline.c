/*
 * C09/inline: reads and writes of an INLINE-DATA file through the file handle
 * (ext2fs_file_read -> ext2fs_file_read_inline_data, ext2fs_file_write_inline_data),
 * with the inline store (i_block + system.data xattr) as a model store (pattern D/I).
 *
 * Store: S bytes, S = 60 + ea_size (ext2fs_inline_data_get always reports at least the 60
 * bytes of i_block), i_size <= S, bytes at and beyond i_size are zero.
 * Contract checked:
 *   read : *got == min(wanted, i_size - pos) (0 at/after EOF), bytes == store[pos..], pos advances
 *          by *got, nothing is copied beyond the caller's `wanted` bytes;
 *   write: every memcpy stays inside file->buf (3 * blocksize) and inside the caller's nbytes;
 *          either (inline) rc == 0, *written == nbytes, pos += nbytes, i_size = max(i_size, pos+nbytes)
 *          and the store afterwards holds old[0..pos) ++ data ++ old[pos+nbytes..) for every byte below
 *          the new i_size; or (no room / position beyond the store) ext2fs_inline_data_expand is called
 *          once, the inode is reloaded, EXT2_ET_INLINE_DATA_NO_SPACE is returned and neither the position
 *          nor the store changed (ext2fs_file_write then continues on the block path: harness fileio).
 */
#include <string.h>
static void *vf_memcpy(void *dst, const void *src, unsigned long n);
#define ext2fs_bmap2 stub_bmap2
#define ext2fs_punch stub_punch
#define ext2fs_read_inode stub_read_inode
#define ext2fs_write_inode stub_write_inode
#define ext2fs_inline_data_get stub_inline_get
#define ext2fs_inline_data_set stub_inline_set
#define ext2fs_inline_data_expand stub_inline_expand
#define memcpy vf_memcpy
#include "lib/ext2fs/fileio.c"
#undef memcpy
#include "env.c"

#ifndef BS
#define BS 32			/* file->buf = 3 * BS = 96 bytes >= largest store */
#endif
#define EA_MAX 4
#define SMAX (60 + EA_MAX)
#define NMAX 8			/* longest request */

#define OP_READ 1
#define OP_WRITE 2

struct vf_in {
	unsigned char store[SMAX];
	unsigned char ea, cap;		/* current xattr part, room for the xattr part */
	unsigned int size;		/* i_size */
	unsigned long long pos;
	unsigned int n;
	unsigned char data[NMAX];
};
VF_DECLARE_INPUT(struct vf_in, IN)
#include "vf_input.inc"

static unsigned char vf_store[SMAX];
static unsigned int vf_ssize, vf_cap;
static int vf_sets, vf_expands, vf_reloads, vf_inode_writes, vf_bad_copy, vf_nospace;
static struct ext2_inode vf_disk_inode;
static char vf_fbuf[3 * BS];
static unsigned char vf_user[NMAX + 1];
static unsigned int vf_user_len;	/* bytes of vf_user the callee may touch */

/* every memcpy of fileio.c must stay inside the handle buffer / the caller's buffer */
static int vf_span(const void *p, unsigned long n, const void *base, unsigned long size, int *known)
{
#ifdef VF_REPLAY
	if ((const char *) p < (const char *) base || (const char *) p > (const char *) base + size)
		return 1;
	*known = 1;
	return n <= (unsigned long) ((const char *) base + size - (const char *) p);
#else
	if (!__CPROVER_same_object(p, base))
		return 1;
	*known = 1;
	return (unsigned long) __CPROVER_POINTER_OFFSET(p) <= size
		&& n <= size - (unsigned long) __CPROVER_POINTER_OFFSET(p);
#endif
}
static void *vf_memcpy(void *dst, const void *src, unsigned long n)
{
	int kd = 0, ks = 0, ok;
	ok = vf_span(dst, n, vf_fbuf, sizeof(vf_fbuf), &kd) & vf_span(dst, n, vf_user, vf_user_len, &kd)
	   & vf_span(src, n, vf_fbuf, sizeof(vf_fbuf), &ks) & vf_span(src, n, vf_user, vf_user_len, &ks);
	PROP(ok && kd && ks, "memcpy stays inside file->buf (3*blocksize) and inside the caller's buffer");
	if (!(ok && kd && ks)) {
		vf_bad_copy = 1;
		return dst;
	}
	return (memcpy)(dst, src, n);
}

/* STUB: ext2fs_inline_data_get copies the S = 60 + ea_size bytes of the store to buf and reports S (inline_data.c: outside) */
errcode_t stub_inline_get(ext2_filsys fs, ext2_ino_t ino, struct ext2_inode *inode, void *buf, size_t *size)
{
	unsigned char *b = buf;
	int i;
	(void) fs; (void) ino; (void) inode;
	for (i = 0; i < SMAX; i++)
		if ((unsigned) i < vf_ssize)
			b[i] = vf_store[i];
	if (size)
		*size = vf_ssize;
	return 0;
}
/* STUB: ext2fs_inline_data_set(buf, size), as inline_data.c defines it: size <= 60: i_block[0..size) = buf, xattr part emptied; size > 60: EXT2_ET_INLINE_DATA_NO_SPACE if size != S and size > 60 + room, else store = buf[0..size) */
errcode_t stub_inline_set(ext2_filsys fs, ext2_ino_t ino, struct ext2_inode *inode, void *buf, size_t size)
{
	unsigned char *b = buf;
	int i;
	(void) fs; (void) ino; (void) inode;
	if (size > 60 && size != vf_ssize && size > 60 + vf_cap) {
		vf_nospace++;
		return EXT2_ET_INLINE_DATA_NO_SPACE;
	}
	vf_sets++;
	if (size > SMAX) { vf_bad_copy = 1; return 0; }
	for (i = 0; i < SMAX; i++) {
		if ((size_t) i < size)
			vf_store[i] = b[i];
		else if (i >= 60)
			vf_store[i] = 0;
	}
	vf_ssize = size > 60 ? (unsigned) size : 60;
	return 0;
}
/* STUB: ext2fs_inline_data_expand records the call (conversion to a block: inline_data.c, outside) */
errcode_t stub_inline_expand(ext2_filsys fs, ext2_ino_t ino)
{
	(void) fs; (void) ino;
	vf_expands++;
	return 0;
}
/* STUB: ext2fs_bmap2 on an inline-data inode returns EXT2_ET_INLINE_DATA_NO_BLOCK (bmap.c) */
errcode_t stub_bmap2(ext2_filsys fs, ext2_ino_t ino, struct ext2_inode *inode, char *block_buf,
		     int bmap_flags, blk64_t block, int *ret_flags, blk64_t *phys_blk)
{
	(void) fs; (void) ino; (void) inode; (void) block_buf; (void) bmap_flags; (void) block;
	if (ret_flags) *ret_flags = 0;
	if (phys_blk) *phys_blk = 0;
	return EXT2_ET_INLINE_DATA_NO_BLOCK;
}
errcode_t stub_punch(ext2_filsys fs, ext2_ino_t ino, struct ext2_inode *inode, char *block_buf, blk64_t start, blk64_t end)
{
	(void) fs; (void) ino; (void) inode; (void) block_buf; (void) start; (void) end;
	vf_bad_copy = 1;		/* never reached: sizes only grow */
	return 0;
}
/* STUB: ext2fs_write_inode / ext2fs_read_inode store / load one on-disk inode image */
errcode_t stub_write_inode(ext2_filsys fs, ext2_ino_t ino, struct ext2_inode *inode)
{
	(void) fs; (void) ino;
	vf_disk_inode = *inode;
	vf_inode_writes++;
	return 0;
}
errcode_t stub_read_inode(ext2_filsys fs, ext2_ino_t ino, struct ext2_inode *inode)
{
	(void) fs; (void) ino;
	*inode = vf_disk_inode;
	vf_reloads++;
	return 0;
}

static struct struct_ext2_filsys vf_fs;
static struct ext2_super_block vf_sb;
static struct ext2_file vf_file;

int main(void)
{
	struct ext2_file *f = &vf_file;
	static unsigned char old[SMAX], want[SMAX];
	errcode_t rc;
	int i, p;
	__u64 pos0, size0;

	VF_INPUT(IN);
	vf_sb.s_log_block_size = (__u32) -5;	/* BOUND: block size 32 (EXT2_BLOCK_SIZE_BITS == 5): handle buffer 96 bytes; real: >= 3072 */
	vf_fs.magic = EXT2_ET_MAGIC_EXT2FS_FILSYS;
	vf_fs.super = &vf_sb;
	vf_fs.blocksize = BS;
	vf_fs.flags = EXT2_FLAG_RW;
	f->magic = EXT2_ET_MAGIC_EXT2_FILE;
	f->fs = &vf_fs;
	f->ino = 12;
	f->buf = vf_fbuf;
	f->flags = EXT2_FILE_WRITE;
	f->inode.i_mode = 0100644;
	f->inode.i_flags = EXT4_INLINE_DATA_FL;
	/* BOUND: xattr part of the store 0..4 bytes, room 0..4 bytes, requests <= 8 bytes */
	ASSUME(IN.ea <= EA_MAX && IN.cap <= EA_MAX && IN.ea <= IN.cap);
	vf_ssize = 60 + IN.ea;
	vf_cap = IN.cap;
	/* ASSUME: i_size <= inline store size, store bytes at/after i_size are zero, position below 2^32 */
	ASSUME(IN.size <= vf_ssize);
	ASSUME(IN.pos < (1ULL << 32));
	for (i = 0; i < SMAX; i++) {
		vf_store[i] = (unsigned) i < vf_ssize ? IN.store[i] : 0;
		ASSUME((unsigned) i < IN.size || vf_store[i] == 0);
		old[i] = vf_store[i];
	}
	f->inode.i_size = IN.size;
	vf_disk_inode = f->inode;
	f->pos = IN.pos;
	pos0 = IN.pos;
	size0 = IN.size;
	ASSUME(IN.n <= NMAX);
	vf_user_len = IN.n;

#if OP == OP_READ
	{
		unsigned int got = 999, exp;
		rc = ext2fs_file_read(f, vf_user, IN.n, &got);
		exp = pos0 < size0 ? (unsigned) (size0 - pos0) : 0;
		if (exp > IN.n) exp = IN.n;
		PROP(rc == 0, "inline read succeeds");
		PROP(got == exp, "inline read returns exactly min(wanted, i_size - pos) bytes");
		for (i = 0; i < NMAX; i++)
			for (p = 0; p < SMAX; p++)
				if ((unsigned) i < got && (unsigned) i < exp && (__u64) p == pos0 + i)
					PROP(vf_user[i] == old[p], "inline read returns the stored bytes");
		PROP(f->pos == pos0 + got, "inline read advances the position by the bytes returned");
		PROP(vf_sets == 0 && vf_expands == 0, "inline read does not modify the store");
	}
#elif OP == OP_WRITE
	{
		unsigned int written = 999;
		__u64 nsize = (IN.n > 0 && pos0 + IN.n > size0) ? pos0 + IN.n : size0;
		for (i = 0; i < NMAX; i++) vf_user[i] = IN.data[i];
		for (p = 0; p < SMAX; p++) {
			want[p] = old[p];
			for (i = 0; i < NMAX; i++)
				if ((unsigned) i < IN.n && (__u64) p == pos0 + i)
					want[p] = IN.data[i];
		}
		rc = ext2fs_file_write_inline_data(f, vf_user, IN.n, &written);
		PROP(!vf_bad_copy, "no copy outside the buffers, store never set beyond its capacity");
		if (rc == 0) {
			PROP(written == IN.n, "inline write reports all bytes written");
			PROP(f->pos == pos0 + IN.n, "inline write advances the position by nbytes");
			PROP(EXT2_I_SIZE(&f->inode) == nsize, "inline write extends i_size to max(i_size, pos + nbytes)");
			PROP(vf_expands == 0, "inline write that succeeds does not expand");
			for (p = 0; p < SMAX; p++)
				if ((__u64) p < nsize)
					PROP((unsigned) p < vf_ssize && vf_store[p] == want[p], "inline store after write: old bytes with the data overlaid at pos");
		} else {
			PROP(rc == EXT2_ET_INLINE_DATA_NO_SPACE, "inline write fails only with NO_SPACE");
			PROP(vf_expands == 1 && vf_reloads >= 1, "NO_SPACE: inline data expanded once and the inode reloaded");
			PROP(f->pos == pos0, "NO_SPACE: position unchanged for the block path");
			PROP(vf_sets == 0, "NO_SPACE: the inline store was not modified");
		}
	}
#else
#error OP
#endif
	VF_END();
	return 0;
}
