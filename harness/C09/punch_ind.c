/*
 * C09/punch_ind: hole punching / truncation of a BLOCK-MAPPED file
 * (ext2fs_punch -> ext2fs_punch_ind -> ind_punch, real recursion, real
 * check_zero_block, real ext2fs_read/write_ind_block, real ext2fs_iblk_sub_blocks)
 * against the definition of the indirect-block format (pattern D).
 *
 * Format (Documentation/filesystems/ext4/ifork.rst, "direct/indirect block
 * addressing"), A = blocksize/4 = 256 here:
 *   i_block[0..11]  logical blocks 0..11
 *   i_block[12]     indirect block:        slot j        -> logical 12 + j
 *   i_block[13]     double indirect block: slot c, j     -> logical 12 + A + c*A + j
 *   i_block[14]     triple indirect block: slot d, c, j  -> logical 12 + A + A*A + d*A*A + c*A + j
 * Contract of ext2fs_punch(start, end) (punch.c: "Deallocate all logical _blocks_
 * starting at start to end, inclusive"):
 *   - a data block mapped before is mapped after iff its logical number is outside [start,end];
 *   - every unmapped block is released exactly once through ext2fs_block_alloc_stats(-1);
 *   - an indirect block whose span meets the range and that has no slot left is released
 *     (once) and its parent slot cleared; one that keeps a slot, or lies outside, stays;
 *   - i_blocks drops by (released blocks) * blocksize/512; the inode is written back.
 *
 * The tree shape is compile-time (LEVELS); presence of every slot, start and end are symbolic.
 */
#include "lib/ext2fs/punch.c"
#include "env.c"

#ifndef LEVELS
#define LEVELS 1	/* 1: direct + indirect; 2: + double indirect; 3: + one triple-indirect chain */
#endif
#ifndef K
#define K 2		/* symbolic slots per indirect block; slots >= K are zero */
#endif
#define A 256ULL	/* addresses per block at 1 KiB blocks */

/* BOUND: block numbers are fixed distinct tokens (ind_punch never inspects a block number except for == 0); presence of each slot is symbolic */
#define TOK_DIR(i)	(100 + (i))
#define TOK_A		200
#define TOK_AS(j)	(210 + (j))
#define TOK_D		300
#define TOK_DC(c)	(310 + (c))
#define TOK_DCS(c, j)	(320 + (c) * K + (j))
#define TOK_T		400
#define TOK_TD		401
#define TOK_TDC		402
#define TOK_TDCS(j)	(410 + (j))

struct vf_in {
	unsigned char dir[12];
	unsigned char a, as[K];
	unsigned char d, dc[K], dcs[K][K];
	unsigned char t, td, tdc, tdcs[K];
	unsigned char extra;
	__u64 start, end;
};
VF_DECLARE_INPUT(struct vf_in, IN)
#include "vf_input.inc"

/* the "disk": the first K slots of each indirect block (the rest is zero) */
static blk_t dA[K], dD[K], dDC[K][K], dT[1], dTD[1], dTDC[K];
static blk_t vf_bb[3 * 256];		/* block_buf handed to ext2fs_punch (3 blocks of 1 KiB) */

#define NTOK 40
static blk_t vf_tok[NTOK];
static int vf_freed[NTOK], vf_want[NTOK], vf_ntok;
static int vf_bad_free, vf_bad_io, vf_inode_written;
static struct ext2_inode vf_written;

static int vf_newtok(blk_t t)
{
	vf_tok[vf_ntok] = t;
	return vf_ntok++;
}

/* STUB: ext2fs_block_alloc_stats(fs, blk, -1) records the release of blk (bitmap/group accounting: alloc_stats.c, outside) */
void ext2fs_block_alloc_stats(ext2_filsys fs, blk_t blk, int inuse)
{
	int i, hit = 0;
	(void) fs;
	if (inuse != -1)
		vf_bad_free = 1;
	for (i = 0; i < NTOK; i++)
		if (i < vf_ntok && vf_tok[i] == blk) {
			vf_freed[i]++;
			hit = 1;
		}
	if (!hit)
		vf_bad_free = 1;
}

/* STUB: ext2fs_write_inode stores the inode image for the final comparison */
errcode_t ext2fs_write_inode(ext2_filsys fs, ext2_ino_t ino, struct ext2_inode *inode)
{
	(void) fs; (void) ino;
	vf_written = *inode;
	vf_inode_written++;
	return 0;
}

/* STUB: io channel: read_blk/write_blk of an indirect block move its first K slots from/to the per-block arrays; slots >= K read as zero and must be written as zero */
static blk_t *vf_blockof(unsigned long blk, int *n)
{
	int c;
	*n = K;
	if (blk == TOK_A) return dA;
#if LEVELS >= 2
	if (blk == TOK_D) return dD;
	for (c = 0; c < K; c++)
		if (blk == (unsigned long) TOK_DC(c)) return dDC[c];
#endif
#if LEVELS >= 3
	if (blk == TOK_TDC) return dTDC;
	*n = 1;
	if (blk == TOK_T) return dT;
	if (blk == TOK_TD) return dTD;
#endif
	(void) c;
	return 0;
}

static errcode_t vf_read_blk(io_channel ch, unsigned long blk, int count, void *data)
{
	blk_t *w = data, *src;
	int j, n;
	(void) ch;
	if (count != 1) vf_bad_io = 1;
	src = vf_blockof(blk, &n);
	if (!src) { vf_bad_io = 1; return 0; }
	for (j = 0; j < 256; j++)
		w[j] = (j < n) ? src[j] : 0;
	return 0;
}

static errcode_t vf_write_blk(io_channel ch, unsigned long blk, int count, const void *data)
{
	const blk_t *w = data;
	blk_t *dst;
	int j, n;
	(void) ch;
	if (count != 1) vf_bad_io = 1;
	dst = vf_blockof(blk, &n);
	if (!dst) { vf_bad_io = 1; return 0; }
	for (j = 0; j < 256; j++) {
		if (j < n)
			dst[j] = w[j];
		else if (w[j] != 0)
			vf_bad_io = 1;
	}
	return 0;
}

static struct struct_io_manager vf_mgr = {
	.magic = EXT2_ET_MAGIC_IO_MANAGER, .name = "vf",
	.read_blk = vf_read_blk, .write_blk = vf_write_blk,
};
static struct struct_io_channel vf_chan;
static struct struct_ext2_filsys vf_fs;
static struct ext2_super_block vf_sb;
static struct ext2_inode vf_inode;

/* ---- reference: what must be released, what must remain ---- */
static __u64 ref_start, ref_end;
static int ref_total;

static int ref_in(__u64 l) { return ref_start <= l && l <= ref_end; }
static int ref_meets(__u64 lo, __u64 len) { return !(lo + len - 1 < ref_start || lo > ref_end); }

/* data slot at logical l, currently *slot (token or 0): returns 1 if it remains mapped */
static int ref_data(blk_t *slot, int tokidx, __u64 l)
{
	if (!*slot)
		return 0;
	if (ref_in(l)) {
		vf_want[tokidx] = 1;
		ref_total++;
		*slot = 0;
		return 0;
	}
	return 1;
}

int main(void)
{
	static blk_t eI[15], eA[K], eD[K], eDC[K][K], eT[1], eTD[1], eTDC[K];
	int iDIR[12], iA, iAS[K], iD, iDC[K], iDCS[K][K], iT, iTD, iTDC, iTDCS[K];
	int i, c, j, n, left, npresent = 0;
	errcode_t rc;
	__u32 iblocks_pre;

	VF_INPUT(IN);
	/* tokens */
	for (i = 0; i < 12; i++) iDIR[i] = vf_newtok(TOK_DIR(i));
	iA = vf_newtok(TOK_A);
	for (j = 0; j < K; j++) iAS[j] = vf_newtok(TOK_AS(j));
	iD = vf_newtok(TOK_D);
	for (c = 0; c < K; c++) {
		iDC[c] = vf_newtok(TOK_DC(c));
		for (j = 0; j < K; j++) iDCS[c][j] = vf_newtok(TOK_DCS(c, j));
	}
	iT = vf_newtok(TOK_T); iTD = vf_newtok(TOK_TD); iTDC = vf_newtok(TOK_TDC);
	for (j = 0; j < K; j++) iTDCS[j] = vf_newtok(TOK_TDCS(j));

	/* ---- pre-state: every slot present or absent ---- */
	for (i = 0; i < 12; i++)
		vf_inode.i_block[i] = IN.dir[i] ? TOK_DIR(i) : 0;
	vf_inode.i_block[12] = IN.a ? TOK_A : 0;
	for (j = 0; j < K; j++) dA[j] = IN.as[j] ? TOK_AS(j) : 0;
#if LEVELS >= 2
	vf_inode.i_block[13] = IN.d ? TOK_D : 0;
	for (c = 0; c < K; c++) {
		dD[c] = IN.dc[c] ? TOK_DC(c) : 0;
		for (j = 0; j < K; j++) dDC[c][j] = IN.dcs[c][j] ? TOK_DCS(c, j) : 0;
	}
#endif
#if LEVELS >= 3
	vf_inode.i_block[14] = IN.t ? TOK_T : 0;
	dT[0] = IN.td ? TOK_TD : 0;
	dTD[0] = IN.tdc ? TOK_TDC : 0;
	for (j = 0; j < K; j++) dTDC[j] = IN.tdcs[j] ? TOK_TDCS(j) : 0;
#endif
	/* number of blocks the inode owns (reachable ones) */
	for (i = 0; i < 12; i++) npresent += IN.dir[i] != 0;
	if (IN.a) { npresent++; for (j = 0; j < K; j++) npresent += IN.as[j] != 0; }
#if LEVELS >= 2
	if (IN.d) {
		npresent++;
		for (c = 0; c < K; c++)
			if (IN.dc[c]) { npresent++; for (j = 0; j < K; j++) npresent += IN.dcs[c][j] != 0; }
	}
#endif
#if LEVELS >= 3
	if (IN.t) {
		npresent++;
		if (IN.td) {
			npresent++;
			if (IN.tdc) { npresent++; for (j = 0; j < K; j++) npresent += IN.tdcs[j] != 0; }
		}
	}
#endif
	/* ASSUME: i_blocks counts every block the inode maps (2 sectors per 1 KiB block) plus possibly one xattr block */
	ASSUME(IN.extra <= 1);
	iblocks_pre = 2 * (npresent + IN.extra);
	vf_inode.i_blocks = iblocks_pre;
	vf_inode.i_mode = 0100644;
	vf_inode.i_flags = 0;		/* block mapped: neither EXTENTS_FL nor INLINE_DATA_FL */

	/* BOUND: block size 1024 (256 addresses per indirect block), no bigalloc, no huge_file */
	vf_sb.s_log_block_size = 0;
	vf_sb.s_blocks_count = 100000;
	vf_fs.magic = EXT2_ET_MAGIC_EXT2FS_FILSYS;
	vf_fs.super = &vf_sb;
	vf_fs.blocksize = 1024;
	vf_fs.flags = EXT2_FLAG_RW;
	vf_chan.magic = EXT2_ET_MAGIC_IO_CHANNEL;
	vf_chan.manager = &vf_mgr;
	vf_chan.block_size = 1024;
	vf_fs.io = &vf_chan;

	/* ASSUME: start <= end (ext2fs_punch returns EINVAL otherwise) */
	ASSUME(IN.start <= IN.end);
	ref_start = IN.start;
	ref_end = IN.end;

	/* ---- reference post-state, computed on copies ---- */
	for (i = 0; i < 15; i++) eI[i] = vf_inode.i_block[i];
	for (j = 0; j < K; j++) eA[j] = dA[j];
	for (i = 0; i < 12; i++)
		ref_data(&eI[i], iDIR[i], (__u64) i);
	if (eI[12] && ref_meets(12, A)) {
		left = 0;
		for (j = 0; j < K; j++) left += ref_data(&eA[j], iAS[j], 12 + j);
		if (!left) { vf_want[iA] = 1; ref_total++; eI[12] = 0; }
	}
#if LEVELS >= 2
	for (c = 0; c < K; c++) {
		eD[c] = dD[c];
		for (j = 0; j < K; j++) eDC[c][j] = dDC[c][j];
	}
	if (eI[13] && ref_meets(12 + A, A * A)) {
		n = 0;
		for (c = 0; c < K; c++) {
			if (!eD[c]) continue;
			if (ref_meets(12 + A + c * A, A)) {
				left = 0;
				for (j = 0; j < K; j++)
					left += ref_data(&eDC[c][j], iDCS[c][j], 12 + A + c * A + j);
				if (!left) { vf_want[iDC[c]] = 1; ref_total++; eD[c] = 0; }
			}
			if (eD[c]) n++;
		}
		if (!n) { vf_want[iD] = 1; ref_total++; eI[13] = 0; }
	}
#endif
#if LEVELS >= 3
	eT[0] = dT[0]; eTD[0] = dTD[0];
	for (j = 0; j < K; j++) eTDC[j] = dTDC[j];
	if (eI[14] && ref_meets(12 + A + A * A, A * A * A)) {
		if (eT[0] && ref_meets(12 + A + A * A, A * A)) {
			if (eTD[0] && ref_meets(12 + A + A * A, A)) {
				left = 0;
				for (j = 0; j < K; j++)
					left += ref_data(&eTDC[j], iTDCS[j], 12 + A + A * A + j);
				if (!left) { vf_want[iTDC] = 1; ref_total++; eTD[0] = 0; }
			}
			if (!eTD[0]) { vf_want[iTD] = 1; ref_total++; eT[0] = 0; }
		}
		if (!eT[0]) { vf_want[iT] = 1; ref_total++; eI[14] = 0; }
	}
#endif

	/* ---- the real operation ---- */
	rc = ext2fs_punch(&vf_fs, 12, &vf_inode, (char *) vf_bb, IN.start, IN.end);

	PROP(rc == 0, "punch of a block-mapped file succeeds");
	PROP(!vf_bad_io, "indirect-block I/O only touches the file's own indirect blocks, slots >= K stay zero");
	PROP(!vf_bad_free, "only blocks of the file are released, with inuse == -1");
	for (i = 0; i < 15; i++)
		PROP(vf_inode.i_block[i] == eI[i], "i_block[] after punch: mapped iff outside [start,end]");
	for (j = 0; j < K; j++)
		PROP(dA[j] == eA[j], "indirect block slots after punch: mapped iff outside [start,end]");
#if LEVELS >= 2
	for (c = 0; c < K; c++) {
		PROP(dD[c] == eD[c], "double-indirect block slots after punch: child kept iff non-empty or outside");
		/* a released child's content is no longer part of the file */
		if (eD[c] && eI[13])
			for (j = 0; j < K; j++)
				PROP(dDC[c][j] == eDC[c][j], "double-indirect leaf slots after punch: mapped iff outside [start,end]");
	}
#endif
#if LEVELS >= 3
	PROP(dT[0] == eT[0], "triple-indirect slot after punch");
	if (eT[0] && eI[14]) PROP(dTD[0] == eTD[0], "triple-indirect second-level slot after punch");
	if (eT[0] && eI[14] && eTD[0])
		for (j = 0; j < K; j++)
			PROP(dTDC[j] == eTDC[j], "triple-indirect leaf slots after punch: mapped iff outside [start,end]");
#endif
	for (i = 0; i < NTOK; i++)
		if (i < vf_ntok)
			PROP(vf_freed[i] == vf_want[i], "each block released exactly once iff it is unmapped by the punch");
	PROP(vf_inode.i_blocks == iblocks_pre - 2 * (__u32) ref_total, "i_blocks drops by released blocks * blocksize/512");
	PROP(vf_inode_written >= 1 && vf_written.i_blocks == vf_inode.i_blocks
	     && vf_written.i_block[0] == vf_inode.i_block[0] && vf_written.i_block[12] == vf_inode.i_block[12]
	     && vf_written.i_block[13] == vf_inode.i_block[13] && vf_written.i_block[14] == vf_inode.i_block[14],
	     "the updated inode is written back");
	VF_END();
	return 0;
}
