/*
 * C09/alloc_search: the free-space searches of the REAL lib/ext2fs/alloc.c
 *   OP 1  ext2fs_new_block3(goal)                       (map = fs->block_map, no callbacks)
 *   OP 2  ext2fs_new_range(FLAGS, goal, len)            (FLAGS compile time: FIXED_GOAL 1, MIN_LENGTH 2)
 *   OP 3  ext2fs_alloc_range(FLAGS, goal, len)          (FLAGS compile time: FIXED_GOAL 1, ZERO_BLOCKS 2)
 * over a block bitmap of at most NB blocks whose content is one symbolic word.
 *
 * Reference (written from the documented contract in alloc.c's comments / ext2fs.h, not from the loops):
 *   g      = goal, or s_first_data_block when goal is 0 or beyond the filesystem
 *   need   = 1 (no MIN_LENGTH) or len (MIN_LENGTH)
 *   answer = the FIRST block p in cyclic order g, g+1, .., N-1, first, .., g-1 (only p = g with FIXED_GOAL) such that
 *            [p, p+need) lies inside [first_data_block, blocks_count) and is free; the length returned is the free run at p
 *            cut at len; no such p <=> EXT2_ET_BLOCK_ALLOC_FAIL.
 * The bitmap itself is NOT changed by the search; BLOCK_UNINIT of the group holding the first block returned is cleared
 * (checksum re-set, super + bitmap dirty) when the filesystem has group checksums, no other group descriptor changes
 * except groups that intersect the returned run.
 * Termination: the find_first_zero stub counts its queries (one per iteration of the search loop); more than CAP of them
 * raises vf_runaway and aborts the search.  No terminating search needs more than NB+3: every query that finds a free block
 * which is then rejected moves the cursor at least 2 blocks on, the cursor wraps once, and ENOENT is answered at most twice
 * (without MIN_LENGTH the first free block found is accepted: 3 queries).
 */
#define ext2fs_group_desc_csum_set stub_group_desc_csum_set
#define ext2fs_zero_blocks2 stub_zero_blocks2
#define ext2fs_block_alloc_stats_range stub_block_alloc_stats_range
#define ext2fs_block_alloc_stats2 stub_block_alloc_stats2
#define ext2fs_read_block_bitmap stub_read_block_bitmap
#include "lib/ext2fs/alloc.c"
#include "env.c"

#ifndef NB
#define NB 8		/* blocks in the filesystem at most */
#endif
#define G 4		/* blocks per group */
#define NG ((NB + G - 1) / G + 1)
#ifndef CAP
#define CAP (NB + 4)	/* find_first_zero queries = iterations of the search loop */
#endif
#ifndef FLAGS
#define FLAGS 0
#endif

struct vf_in {
	__u32 map;		/* bit b set = block b in use */
	unsigned char n;	/* blocks_count */
	unsigned char first;	/* s_first_data_block 0 / 1 */
	__u64 goal;
	__u32 len;
	unsigned char uninit[NG];	/* BLOCK_UNINIT flag of each group */
};
VF_DECLARE_INPUT(struct vf_in, IN)
#include "vf_input.inc"

static struct struct_ext2_filsys vf_fs;
static struct ext2_super_block vf_sb;
static struct ext2_group_desc vf_gd[NG];
static struct { int dummy; } vf_mapobj;
static int vf_queries, vf_runaway, vf_einval, vf_badmap;
static int vf_csum_calls, vf_csum_bad;
static unsigned vf_csum_groups;
static int vf_zero_calls, vf_stats_calls, vf_order_bad;
static blk64_t vf_zero_blk, vf_stats_blk;
static int vf_zero_num, vf_stats_inuse;
static blk_t vf_stats_num;

static int vf_used(unsigned b) { return (IN.map >> b) & 1; }

/* STUB: ext2fs_find_first_zero/set_generic_bmap answer from the symbolic word over [s_first_data_block, blocks_count-1] (EINVAL outside it or when start > end, ENOENT when there is none, *out untouched unless 0 is returned: the contract of gen_bitmap64.c decided under C16); find_first_zero counts its queries; defined under the real names (the inline wrappers of bitops.h call them) */
errcode_t ext2fs_find_first_zero_generic_bmap(ext2fs_generic_bitmap bitmap, __u64 start, __u64 end, __u64 *out)
{
	unsigned b;
	if ((void *) bitmap != (void *) &vf_mapobj) vf_badmap = 1;
	if (++vf_queries > CAP) { vf_runaway = 1; return EXT2_ET_BAD_BLOCK_NUM; }
	if (start < IN.first || end > (__u64) IN.n - 1 || start > end) { vf_einval = 1; return EINVAL; }
	for (b = 0; b < NB; b++)
		if (b >= start && b <= end && !vf_used(b)) { *out = b; return 0; }
	return ENOENT;
}
errcode_t ext2fs_find_first_set_generic_bmap(ext2fs_generic_bitmap bitmap, __u64 start, __u64 end, __u64 *out)
{
	unsigned b;
	if ((void *) bitmap != (void *) &vf_mapobj) vf_badmap = 1;
	if (start < IN.first || end > (__u64) IN.n - 1 || start > end) { vf_einval = 1; return EINVAL; }
	for (b = 0; b < NB; b++)
		if (b >= start && b <= end && vf_used(b)) { *out = b; return 0; }
	return ENOENT;
}
/* STUB: ext2fs_group_desc_csum_set records the group (checksum arithmetic is C01's subject) */
void stub_group_desc_csum_set(ext2_filsys fs, dgrp_t group)
{
	if (fs != &vf_fs || group >= NG) { vf_csum_bad = 1; return; }
	vf_csum_calls++;
	vf_csum_groups |= 1u << group;
}
/* STUB: ext2fs_zero_blocks2 / ext2fs_block_alloc_stats_range record their arguments and order (alloc_stats.c is decided by alloc_stats) */
errcode_t stub_zero_blocks2(ext2_filsys fs, blk64_t blk, int num, blk64_t *ret_blk, int *ret_count)
{
	(void) fs; (void) ret_blk; (void) ret_count;
	if (vf_stats_calls) vf_order_bad = 1;
	vf_zero_calls++; vf_zero_blk = blk; vf_zero_num = num;
	return 0;
}
void stub_block_alloc_stats_range(ext2_filsys fs, blk64_t blk, blk_t num, int inuse)
{
	(void) fs;
	vf_stats_calls++; vf_stats_blk = blk; vf_stats_num = num; vf_stats_inuse = inuse;
}
void stub_block_alloc_stats2(ext2_filsys fs, blk64_t blk, int inuse) { (void) fs; (void) blk; (void) inuse; vf_order_bad = 1; }
errcode_t stub_read_block_bitmap(ext2_filsys fs) { (void) fs; vf_order_bad = 1; return 0; }

/* reference: is [p, p+need) inside the filesystem and free */
static int ref_free_run(unsigned p, unsigned need)
{
	__u32 mask;
	if (p < IN.first || p + need > IN.n) return 0;
	mask = ((need >= 32 ? 0 : (1u << need)) - 1u) << p;
	return (IN.map & mask) == 0;
}

int main(void)
{
	errcode_t rc;
	blk64_t pblk = 777, plen = 888;
	unsigned g, need, k, p, rp = 0, rl = 0, j, span, ng;
	int found = 0, run = 1, i;
	const int fixed = (OP != 1) && (FLAGS & 1);
#if OP == 2
	const int minlen = (FLAGS & 2) != 0;
#elif OP == 3
	const int minlen = 1;
#else
	const int minlen = 0;
#endif

	VF_INPUT(IN);
	/* BOUND: 2..NB blocks (NB = 8 quick, 16 thorough), 4 blocks per group, s_first_data_block 0 or 1, cluster ratio 1; bitmap content, goal (64 bit), len (1 .. 2^32-1; 0 for the argument check), BLOCK_UNINIT of every group symbolic */
	ASSUME(IN.n >= 2 && IN.n <= NB && IN.first <= 1);
	ASSUME(IN.map >> NB == 0);
#ifdef LASTFREE
	/* ASSUME: (LASTFREE configs only) the last block of the filesystem is free: see the finding in spec.py, without it ext2fs_new_range(MIN_LENGTH, no FIXED_GOAL) does not terminate */
	ASSUME(!vf_used(IN.n - 1u));
#endif
	vf_sb.s_blocks_count = IN.n;
	vf_sb.s_first_data_block = IN.first;
	vf_sb.s_blocks_per_group = G;
	vf_sb.s_log_block_size = 0;
#ifdef CSUM
	vf_sb.s_feature_ro_compat = EXT4_FEATURE_RO_COMPAT_GDT_CSUM;
#endif
	vf_fs.magic = EXT2_ET_MAGIC_EXT2FS_FILSYS;
	vf_fs.super = &vf_sb;
	vf_fs.blocksize = 1024;
	vf_fs.flags = EXT2_FLAG_RW;
	vf_fs.block_map = (ext2fs_block_bitmap) &vf_mapobj;
	vf_fs.group_desc = (struct opaque_ext2_group_desc *) vf_gd;
	ng = (IN.n - IN.first + G - 1u) / G;
	vf_fs.group_desc_count = ng;
	for (i = 0; i < NG; i++) {
		ASSUME(IN.uninit[i] <= 1);
		vf_gd[i].bg_flags = IN.uninit[i] ? EXT2_BG_BLOCK_UNINIT : 0;
	}

	/* ---- reference ---- */
	g = (IN.goal == 0 || IN.goal >= IN.n) ? IN.first : (unsigned) IN.goal;
	need = minlen ? (IN.len > NB ? NB + 1u : IN.len) : 1u;
	span = IN.n - IN.first;
	for (k = 0; k < NB; k++) {
		if (k >= span || (fixed && k > 0)) continue;
		p = g + k;
		if (p >= IN.n) p = p - IN.n + IN.first;
		if (!found && ref_free_run(p, need)) { found = 1; rp = p; }
	}
	for (j = 0; j < NB; j++)
		if (found && run && j < IN.len && rp + j < IN.n && !vf_used(rp + j)) rl++;
		else run = 0;

#if OP == 1
	rc = ext2fs_new_block3(&vf_fs, IN.goal, NULL, &pblk, NULL);
	plen = 1;
	(void) rl;
#elif OP == 2
	rc = ext2fs_new_range(&vf_fs, FLAGS, IN.goal, IN.len, NULL, &pblk, &plen);
#elif OP == 3
	rc = ext2fs_alloc_range(&vf_fs, FLAGS, IN.goal, IN.len, &pblk);
	plen = IN.len;
#else
#error OP
#endif
	PROP(!vf_runaway, "the free-space search terminates (bounded number of bitmap queries)");
	PROP(!vf_einval && !vf_badmap, "the bitmap is only queried inside [first_data_block, blocks_count-1] with start <= end, on fs->block_map");
#if OP != 1
	if (IN.len == 0) {
		PROP(rc == EXT2_ET_INVALID_ARGUMENT, "a zero-length request is refused");
	} else
#endif
	if (!found) {
		PROP(rc == EXT2_ET_BLOCK_ALLOC_FAIL, "no admissible free block / run: EXT2_ET_BLOCK_ALLOC_FAIL");
	} else {
		PROP(rc == 0, "an admissible free block / run exists: the search succeeds");
		PROP(pblk == rp, "the block returned is the first admissible one in cyclic order from the goal");
		PROP(pblk >= IN.first && pblk + plen <= IN.n && plen >= 1, "the run returned lies inside [first_data_block, blocks_count)");
		for (j = 0; j < NB; j++)
			if (j >= pblk && j < pblk + plen)
				PROP(!vf_used(j), "every block returned is free in the bitmap");
#if OP == 2
		PROP(plen == rl, "new_range: the length is the free run at the start block, cut at len");
		PROP(plen <= IN.len && (!minlen || plen == IN.len), "new_range: length within the flags' rules");
#endif
	}
#if OP == 3
	if (rc == 0) {
		PROP(vf_stats_calls == 1 && vf_stats_blk == pblk && vf_stats_num == IN.len && vf_stats_inuse == 1,
		     "alloc_range: exactly the returned range is marked in use, once");
		PROP(vf_zero_calls == ((FLAGS & 2) ? 1 : 0) && (!(FLAGS & 2) || (vf_zero_blk == pblk && (__u32) vf_zero_num == IN.len)),
		     "alloc_range: the range is zeroed iff ZERO_BLOCKS is given");
	} else
		PROP(vf_stats_calls == 0 && vf_zero_calls == 0, "alloc_range: a failed request marks and zeroes nothing");
#else
	PROP(vf_stats_calls == 0 && vf_zero_calls == 0, "the search itself marks and zeroes nothing");
#endif
	PROP(!vf_order_bad && !vf_csum_bad, "zeroing precedes marking; no single-block accounting, no bitmap reload");
	/* group descriptors */
	for (i = 0; i < NG; i++) {
		int in_run = rc == 0 && (unsigned) i < ng && pblk + plen > IN.first + (unsigned) i * G && pblk < IN.first + ((unsigned) i + 1) * G;
		int first_grp = rc == 0 && pblk >= IN.first + (unsigned) i * G && pblk < IN.first + ((unsigned) i + 1) * G;
		int now = (vf_gd[i].bg_flags & EXT2_BG_BLOCK_UNINIT) != 0;
		PROP((vf_gd[i].bg_flags & ~EXT2_BG_BLOCK_UNINIT) == 0, "no other group flag appears");
#ifdef CSUM
		if (first_grp)
			PROP(!now, "BLOCK_UNINIT of the group of the first block returned is cleared");
		if (!in_run)
			PROP(now == IN.uninit[i], "groups outside the returned run keep BLOCK_UNINIT");
		PROP(now <= IN.uninit[i], "BLOCK_UNINIT is never set by the allocator");
		if (now != IN.uninit[i])
			PROP((vf_csum_groups >> i) & 1 && (vf_fs.flags & EXT2_FLAG_DIRTY) && (vf_fs.flags & EXT2_FLAG_BB_DIRTY),
			     "a cleared BLOCK_UNINIT comes with the group checksum re-set, super and block bitmap dirty");
#else
		(void) in_run; (void) first_grp;
		PROP(now == IN.uninit[i] && vf_csum_calls == 0, "without group checksums the descriptors are left alone");
#endif
	}
	VF_END();
	return 0;
}
