/*
 * C09/setbmap0: the extent-tree edit primitive, the REAL lib/ext2fs/extent.c at DEPTH 0:
 * ext2fs_extent_open2 on an in-memory inode, then ONE call of ext2fs_extent_set_bmap(handle, L, P, flags)
 * with ext2fs_extent_get / goto2 / replace / insert / delete / fix_parents / get_info all real.
 * The tree lives in the inode's i_block (header + up to 4 extents), so there is no block I/O.
 *
 * Pre-state: a well-formed root with NEXT (compile time, 0..3) extents, sorted, not overlapping,
 * lengths 1..4 (WITH_BIG: or within 3 of the on-disk limit), initialised / uninitialised symbolic,
 * physical blocks symbolic; the handle stands where ext2fs_extent_goto(handle, S) leaves it (S symbolic;
 * NOGOTO: freshly opened, no current node).
 *
 * Reference, per symbolic probe block Q (written from the meaning of "set the mapping of ONE block"):
 *   Q == L: afterwards Q maps to P in the requested state (P == 0: Q is unmapped);
 *   Q != L: Q maps exactly as before (same physical block, same state, or unmapped alike).
 * The root is still well formed (magic, depth 0, entries <= max, no empty extent, sorted, no overlap),
 * i_blocks is untouched, the handle is at a valid position whose bookkeeping (left / entries) matches
 * the node, and the inode handed to ext2fs_write_inode last equals the final i_block.
 * OUTSIDE: node splits (a 5th extent; extent_node_split is cut and the case excluded), depth >= 1.
 */
#include <string.h>
#define memmove vf_memmove
static void *vf_memmove(void *d, const void *s, size_t n);
#include "ext2_fs.h"
#include "ext2fs.h"
struct ext2_extent_handle;
static errcode_t extent_node_split(struct ext2_extent_handle *handle, int expand_allowed);
#include "lib/ext2fs/extent.c"

#ifndef NEXT
#define NEXT 2
#endif
#define LBITS 5

struct vf_in {
	unsigned char gap[3], len[3], un[3], big[3];
	unsigned short p[3];
	unsigned char L, Q, S, fl;
	unsigned short P;
	__u32 iblocks;
};
VF_DECLARE_INPUT(struct vf_in, IN)
#include "vf_input.inc"

static struct struct_ext2_filsys vf_fs;
static struct ext2_super_block vf_sb;
static struct ext2_inode vf_inode;
static __u32 vf_written[EXT2_N_BLOCKS];
static int vf_nwrite, vf_bad, vf_split, vf_move_bad;

/* STUB: memmove inside extent.c (entry shifting of insert / delete): the ranges must lie inside the root's entry area in i_block and be one 12-byte entry apart; done word by word on i_block with constant indices */
static void *vf_memmove(void *d, const void *s, size_t n)
{
	char *base = (char *) vf_inode.i_block;
	long od = (char *) d - base, os = (const char *) s - base;
	__u32 old[EXT2_N_BLOCKS];
	int j;
	if (od < 12 || os < 12 || n % 12 || od + (long) n > 60 || os + (long) n > 60 || (od - os != 12 && os - od != 12)) {
		vf_move_bad = 1;
		return d;
	}
	for (j = 0; j < EXT2_N_BLOCKS; j++)
		old[j] = vf_inode.i_block[j];
	for (j = 3; j < EXT2_N_BLOCKS; j++) {
		if (4 * j >= od && 4 * j < od + (long) n) {
			if (od > os)
				vf_inode.i_block[j] = old[j - 3];		/* shift up by one entry (insert) */
			else if (j + 3 < EXT2_N_BLOCKS)
				vf_inode.i_block[j] = old[j + 3];		/* shift down by one entry (delete) */
		}
	}
	return d;
}
/* STUB: extent_node_split (cut): never needed within the bound; records that it was asked for */
static errcode_t extent_node_split(struct ext2_extent_handle *handle, int expand_allowed)
{
	(void) handle; (void) expand_allowed;
	vf_split = 1;
	return EXT2_ET_CANT_INSERT_EXTENT;
}
/* STUB: ext2fs_write_inode keeps a copy of the i_block it is given and succeeds */
errcode_t ext2fs_write_inode(ext2_filsys fs, ext2_ino_t ino, struct ext2_inode *inode)
{
	int i;
	(void) fs; (void) ino;
#ifdef WRITECHK
	for (i = 0; i < EXT2_N_BLOCKS; i++)
		vf_written[i] = inode->i_block[i];
#else
	(void) i;
#endif
	vf_nwrite++;
	return 0;
}
/* STUB: not reachable at depth 0 (reported if reached): inode read, block I/O, checksums, block release */
errcode_t ext2fs_read_inode(ext2_filsys fs, ext2_ino_t ino, struct ext2_inode *inode) { (void) fs; (void) ino; (void) inode; vf_bad = 1; return EXT2_ET_OP_NOT_SUPPORTED; }
errcode_t io_channel_read_blk64(io_channel c, unsigned long long b, int n, void *d) { (void) c; (void) b; (void) n; (void) d; vf_bad = 1; return EXT2_ET_OP_NOT_SUPPORTED; }
errcode_t io_channel_write_blk64(io_channel c, unsigned long long b, int n, const void *d) { (void) c; (void) b; (void) n; (void) d; vf_bad = 1; return EXT2_ET_OP_NOT_SUPPORTED; }
int ext2fs_extent_block_csum_verify(ext2_filsys fs, ext2_ino_t ino, struct ext3_extent_header *eh) { (void) fs; (void) ino; (void) eh; vf_bad = 1; return 1; }
errcode_t ext2fs_extent_block_csum_set(ext2_filsys fs, ext2_ino_t ino, struct ext3_extent_header *eh) { (void) fs; (void) ino; (void) eh; vf_bad = 1; return 0; }
void ext2fs_block_alloc_stats2(ext2_filsys fs, blk64_t b, int inuse) { (void) fs; (void) b; (void) inuse; vf_bad = 1; }

struct ref_ext { unsigned l, len, un; unsigned long long p; };
static struct ref_ext ref_pre[3];

static int ref_lookup(const struct ref_ext *e, int n, unsigned q, unsigned long long *p, unsigned *un)
{
	int i, c = 0;
	for (i = 0; i < n; i++)
		if (q >= e[i].l && q < e[i].l + e[i].len) {
			c++;
			*p = e[i].p + (q - e[i].l);
			*un = e[i].un;
		}
	return c;
}

int main(void)
{
	struct ext3_extent_header *eh = (struct ext3_extent_header *) vf_inode.i_block;
	struct ext3_extent *ex = (struct ext3_extent *) (vf_inode.i_block + 3);
	struct ref_ext post[4];
	ext2_extent_handle_t h = 0;
	errcode_t rc;
	unsigned L, Q, pos = 0, pu = 0, qu = 0, n_post, k, raw;
	unsigned long long P, pp = 0, qp = 0;
	int i, flags, pre_c, post_c, want_c, ok;

	VF_INPUT(IN);
	vf_sb.s_log_block_size = 0;
	vf_sb.s_inodes_count = 64;
	vf_fs.magic = EXT2_ET_MAGIC_EXT2FS_FILSYS;
	vf_fs.super = &vf_sb;
	vf_fs.blocksize = 1024;
	vf_fs.flags = EXT2_FLAG_RW;
	vf_inode.i_mode = 0100644;
	vf_inode.i_flags = EXT4_EXTENTS_FL;
	vf_inode.i_size = 1 << 20;
	vf_inode.i_blocks = IN.iblocks;

	/* BOUND: NEXT extents, first start and gaps 0..3, lengths 1..4 (WITH_BIG: or limit-3 .. limit), physical start 1..65536 */
	eh->eh_magic = EXT3_EXT_MAGIC;
	eh->eh_entries = NEXT;
	eh->eh_max = 4;
	eh->eh_depth = 0;
	eh->eh_generation = 0;
	for (i = 0; i < NEXT; i++) {
		ASSUME(IN.un[i] <= 1 && IN.big[i] <= 1);
		pos += IN.gap[i] & 3;
		ref_pre[i].l = pos;
		ref_pre[i].un = IN.un[i];
#ifdef WITH_BIG
		ref_pre[i].len = IN.big[i] ? (IN.un[i] ? 32767u : 32768u) - (IN.len[i] & 3) : 1 + (IN.len[i] & 3);
#else
		ref_pre[i].len = 1 + (IN.len[i] & 3);
#endif
		ref_pre[i].p = 1 + (unsigned long long) IN.p[i];
		pos += ref_pre[i].len;
		ex[i].ee_block = ref_pre[i].l;
		ex[i].ee_len = (__u16) (ref_pre[i].len + (ref_pre[i].un ? 32768u : 0));
		ex[i].ee_start = (__u32) ref_pre[i].p;
		ex[i].ee_start_hi = 0;
	}
	/* BOUND: L, Q, S anywhere in 0..31 (WITH_BIG: also relative to the end of the last extent); P == 0 unmaps, else any block 1..65535 */
	L = IN.L & 31;
	Q = IN.Q & 31;
#ifdef WITH_BIG
	if ((IN.fl & 0x10) && pos >= 16) L = pos - 16 + (IN.L & 31);
	if ((IN.fl & 0x20) && pos >= 16) Q = pos - 16 + (IN.Q & 31);
	if ((IN.fl & 0x40) && L >= 1) Q = L + (IN.Q & 3) - 1;
#endif
	P = IN.P;
#if NEXT == 0
#ifdef EMPTY_UNMAP
	P = 0;		/* the finding: unmapping a block of an EMPTY tree */
#else
	/* ASSUME: on an empty tree a physical block is given (P == 0 on an empty tree is the separate config EMPTY_UNMAP: known finding) */
	ASSUME(P != 0);
#endif
#endif
	flags = (IN.fl & 1) ? EXT2_EXTENT_SET_BMAP_UNINIT : 0;

	rc = ext2fs_extent_open2(&vf_fs, 12, &vf_inode, &h);
	PROP(rc == 0 && h, "a well-formed depth-0 root opens");
	if (rc || !h)
		return 0;
#ifndef NOGOTO
	(void) ext2fs_extent_goto(h, IN.S & 31);
#endif

	rc = ext2fs_extent_set_bmap(h, L, P, flags);

	/* ASSUME: no node split was needed (the result has at most 4 extents): extent_node_split / ext2fs_alloc_block are OUTSIDE */
	ASSUME(!vf_split);
	PROP(!vf_bad, "no block I/O, checksum or block release at depth 0");
	PROP(!vf_move_bad, "entry shifting moves whole entries inside the node");
	PROP(rc == 0, "set_bmap succeeds when no split is needed");

	/* the root afterwards */
	PROP(eh->eh_magic == EXT3_EXT_MAGIC && eh->eh_depth == 0 && eh->eh_max == 4, "root header keeps magic, depth 0 and capacity");
	n_post = eh->eh_entries;
	PROP(n_post <= 4, "entry count within the node's capacity");
	ok = 1;
	for (i = 0; i < 4; i++) {
		post[i].l = post[i].len = post[i].un = 0;
		post[i].p = 0;
		if ((unsigned) i < n_post) {
			raw = ex[i].ee_len;
			post[i].l = ex[i].ee_block;
			post[i].un = raw > 32768u;
			post[i].len = raw > 32768u ? raw - 32768u : raw;
			post[i].p = ex[i].ee_start + ((unsigned long long) ex[i].ee_start_hi << 32);
			if (post[i].len == 0)
				ok = 0;
			if (i > 0 && post[i - 1].l + post[i - 1].len > post[i].l)
				ok = 0;
		}
	}
	PROP(ok, "the root is well formed: no empty extent, sorted, no overlap");
	PROP(vf_inode.i_blocks == IN.iblocks, "set_bmap itself does not touch i_blocks");
#ifdef WRITECHK
	for (i = 0, ok = 1; i < EXT2_N_BLOCKS; i++)
		if (vf_written[i] != vf_inode.i_block[i])
			ok = 0;
	PROP(vf_nwrite == 0 || ok, "the last inode written holds the final tree");
#endif

	/* per logical block */
	pre_c = ref_lookup(ref_pre, NEXT, Q, &pp, &pu);
	post_c = 0;
	for (i = 0; i < 4; i++)
		if ((unsigned) i < n_post && Q >= post[i].l && Q < post[i].l + post[i].len) {
			post_c++;
			qp = post[i].p + (Q - post[i].l);
			qu = post[i].un;
		}
	if (Q == L) {
		want_c = P != 0;
		PROP(post_c == want_c, "the block that was set is mapped iff a physical block was given");
		if (P != 0 && post_c == 1) {
			PROP(qp == P, "the block that was set maps to the given physical block");
			PROP(qu == (unsigned) ((IN.fl & 1) != 0), "the block that was set has the requested state");
		}
	} else {
		PROP(post_c == pre_c, "every other block is mapped iff it was mapped before");
		if (pre_c == 1 && post_c == 1) {
			PROP(qp == pp, "every other block keeps its physical block");
			PROP(qu == pu, "every other block keeps its state");
		}
	}

	/* handle position */
	{
		struct extent_path *path = h->path;
		char *first = (char *) EXT_FIRST_INDEX(eh);
		PROP(h->level == 0 && h->max_depth == 0, "the handle stays at the root level");
		PROP(path->entries == (int) n_post, "the handle's entry count matches the node header");
		if (path->curr) {
			long off = (char *) path->curr - first;
			k = (unsigned) (off / 12);
			PROP(off >= 0 && off % 12 == 0 && k < n_post, "the handle's current entry lies inside the node");
			PROP(path->left == (int) n_post - 1 - (int) k, "the handle's count of entries to the right matches its position");
		}
	}
	ext2fs_extent_free(h);
	VF_END();
	return 0;
}
