/*
 * C09/punch_ext_blocks: punch_extent_blocks() -- releasing the physical blocks of a range that was
 * just cut out of an extent-mapped file, "respecting cluster boundaries" (bigalloc) -- pattern D.
 *
 * Definition (ext4 bigalloc): the allocation unit is a cluster of R = 2^cluster_ratio_bits blocks;
 * logical block l of a file lives in physical cluster pc(l) with l % R == p % R.  A physical cluster may
 * be released iff, after the edit, NO logical block of the corresponding logical cluster is still mapped.
 * So for the freed range [lfree_start, lfree_start+count) <-> [free_start, free_start+count):
 *   every cluster the range touches is released exactly once iff none of its logical blocks remains
 *   mapped; clusters outside the range are never released; *freed grows by the clusters released;
 *   a range outside [s_first_data_block, blocks_count) is refused with EXT2_ET_BAD_BLOCK_NUM.
 * R == 1: every block of the range is released exactly once.
 */
#define ext2fs_block_alloc_stats2 stub_block_alloc_stats2
#define ext2fs_map_cluster_block stub_map_cluster_block
#include "lib/ext2fs/punch.c"
#include "env.c"

#ifndef CRB
#define CRB 2			/* cluster_ratio_bits */
#endif
#define R (1 << CRB)
#define NC 5			/* clusters in the window */
#define MAXCNT (3 * R + 1)	/* BOUND: up to 3 clusters + 1 block: head part, whole middle clusters, tail part */
#define NBLK 64

struct vf_in {
	unsigned char rem[NC][R];	/* logical block still mapped after the edit? */
	__u64 lbase;			/* logical cluster number of window cluster 0 */
	__u32 free_start, free_count;
	__u32 first_data_block;
	int freed0;
};
VF_DECLARE_INPUT(struct vf_in, IN)
#include "vf_input.inc"

static int vf_rel[NBLK], vf_bad, vf_lookups;
static __u64 vf_l0;		/* logical block number of window block 0 */
static __u32 vf_p0;		/* physical block number of window block 0 (cluster aligned) */

/* STUB: ext2fs_block_alloc_stats2(blk, -1) records the release of block blk (for R > 1: of blk's cluster) */
void stub_block_alloc_stats2(ext2_filsys fs, blk64_t blk, int inuse)
{
	int i;
	(void) fs;
	if (inuse != -1 || blk >= NBLK) { vf_bad = 1; return; }
	for (i = 0; i < NBLK; i++)
		if ((blk64_t) i == blk)
			vf_rel[i]++;
}

/* STUB: ext2fs_map_cluster_block(lblk) = its documented result: a non-zero physical block iff some logical block of lblk's logical cluster is still mapped (implied_cluster_alloc in bmap.c: outside) */
errcode_t stub_map_cluster_block(ext2_filsys fs, ext2_ino_t ino, struct ext2_inode *inode,
				 blk64_t lblk, blk64_t *pblk)
{
	int c, j, any = 0;
	(void) fs; (void) ino; (void) inode;
	vf_lookups++;
	*pblk = 0;
	if (lblk < vf_l0 || lblk >= vf_l0 + NC * R) { vf_bad = 1; return 0; }
	for (c = 0; c < NC; c++)
		if (((lblk - vf_l0) >> CRB) == (blk64_t) c)
			for (j = 0; j < R; j++)
				any |= IN.rem[c][j] != 0;
	if (any)
		*pblk = 7;
	return 0;
}

static struct struct_ext2_filsys vf_fs;
static struct ext2_super_block vf_sb;
static struct ext2_inode vf_inode;

int main(void)
{
	errcode_t rc;
	int freed, c, j, i, want_total = 0;
	__u32 off, fs0, cnt;

	VF_INPUT(IN);
	vf_sb.s_blocks_count = NBLK;
	vf_sb.s_first_data_block = IN.first_data_block;
	ASSUME(IN.first_data_block <= 1);
#if CRB > 0
	vf_sb.s_feature_ro_compat = EXT4_FEATURE_RO_COMPAT_BIGALLOC;
#endif
	vf_fs.magic = EXT2_ET_MAGIC_EXT2FS_FILSYS;
	vf_fs.super = &vf_sb;
	vf_fs.blocksize = 1024;
	vf_fs.cluster_ratio_bits = CRB;
	vf_inode.i_flags = EXT4_EXTENTS_FL;

	fs0 = IN.free_start;
	cnt = IN.free_count;
	/* BOUND: window of NC=5 clusters starting at physical block 8; the freed range starts in window cluster 0 or 1 and is at most 3 clusters + 1 block long; logical cluster numbers below 2^40 */
	vf_p0 = 8;
	ASSUME(IN.lbase < (1ULL << 40));
	vf_l0 = IN.lbase << CRB;
	ASSUME(fs0 >= vf_p0 && fs0 < vf_p0 + 2 * R);
	ASSUME(cnt >= 1 && cnt <= MAXCNT);
	off = fs0 - vf_p0;		/* window offset of the first freed block; logical and physical offsets in a cluster agree */
	/* ASSUME: the freed logical blocks are no longer mapped (punch edits the extent tree before releasing blocks) */
	for (c = 0; c < NC; c++)
		for (j = 0; j < R; j++) {
			__u32 w = c * R + j;
			ASSUME(IN.rem[c][j] <= 1);
			if (w >= off && w < off + cnt)
				ASSUME(IN.rem[c][j] == 0);
		}
	ASSUME(IN.freed0 >= 0 && IN.freed0 < 1000000);
	freed = IN.freed0;

	rc = punch_extent_blocks(&vf_fs, 12, &vf_inode, vf_l0 + off, fs0, cnt, &freed);

	PROP(rc == 0, "in-range release succeeds");
	PROP(!vf_bad, "only blocks inside the window are released / looked up, with inuse == -1");
#if CRB == 0
	for (i = 0; i < NBLK; i++)
		PROP(vf_rel[i] == ((__u32) i >= fs0 && (__u32) i < fs0 + cnt), "no bigalloc: exactly the blocks of the range are released, once each");
	PROP(freed == IN.freed0 + (int) cnt, "no bigalloc: freed grows by the block count");
	(void) want_total;
#else
	for (c = 0; c < NC; c++) {
		int touched = (__u32) (c * R) < off + cnt && (__u32) (c * R + R) > off;
		int any = 0, n = 0;
		for (j = 0; j < R; j++) {
			any |= IN.rem[c][j] != 0;
			n += vf_rel[vf_p0 + c * R + j];
		}
		PROP(n == (touched && !any), "bigalloc: a touched cluster is released exactly once iff none of its logical blocks is still mapped");
		want_total += (touched && !any);
	}
	for (i = 0; i < NBLK; i++)
		if ((__u32) i < vf_p0 || (__u32) i >= vf_p0 + NC * R)
			PROP(vf_rel[i] == 0, "bigalloc: nothing outside the touched clusters is released");
	PROP(freed == IN.freed0 + want_total, "bigalloc: freed grows by the clusters released");
#endif
	VF_END();
	return 0;
}
