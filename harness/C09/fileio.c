/*
 * C09/fileio: the open-file handle of libext2fs (struct ext2_file: one block
 * buffer with VALID/DIRTY flags), ONE real operation from an ARBITRARY valid
 * handle + mapping + disk state (pattern I).
 *
 * User-visible content ("model") of byte p of the file, l = p / BS:
 *     M(p) = file->buf[p % BS]           if the buffer is VALID and holds block l
 *          = disk[map[l]][p % BS]        else if l is mapped and initialised
 *          = 0                           else (hole or uninitialised extent)
 * Representation invariant Inv (assumed before, asserted after):
 *   mapped logical blocks use distinct physical blocks that belong to no other file;
 *   uninit => mapped; DIRTY => VALID and physblock != 0; VALID => blockno < NL and physblock == map[blockno];
 *   a VALID clean buffer equals what the disk/mapping says; M(p) == 0 for every p >= i_size
 *   (libext2fs relies on this: a write past EOF inside the last block reloads the block).
 * Checked: read returns M and exactly min(wanted, size-pos) bytes; write makes
 * M' = M[pos.. := data], size' = max(size, pos+n); flush/close make the disk alone equal M;
 * set_size makes M' = M cut at the new size (zeros beyond); llseek only moves pos; no operation
 * changes a physical block of another file; Inv holds afterwards.
 *
 * Real code: fileio.c (all of the data path), blknum.c (ext2fs_inode_size_set), bmap.c
 * (ext2fs_file_block_offset_too_big only), io_manager.c (io_channel_*_blk64).
 */
#define ext2fs_bmap2 stub_bmap2
#define ext2fs_punch stub_punch
#define ext2fs_read_inode stub_read_inode
#define ext2fs_write_inode stub_write_inode
#include "lib/ext2fs/fileio.c"
#include "env.c"

#ifndef BS
#define BS 4
#endif
#define NL 6			/* logical blocks of the file */
#define NP 8			/* physical blocks 1..NP-1 (0 = unmapped) */
#define FS (NL * BS)
#ifndef MAXW
#define MAXW (2 * BS + 1)	/* longest request: crosses two block boundaries */
#endif

#define OP_READ 1
#define OP_WRITE 2
#define OP_LLSEEK 3
#define OP_FLUSH 4
#define OP_SET_SIZE 5
#define OP_CLOSE 6

struct vf_in {
	unsigned char disk[NP * BS];
	unsigned char map[NL], uninit[NL], other[NP];
	unsigned int size;
	unsigned long long pos;
	unsigned char blockno, physblock, valid, dirty;
	unsigned char buf[BS];
	unsigned int n;
	unsigned char data[MAXW];
	unsigned long long arg;
	unsigned char whence;
};
VF_DECLARE_INPUT(struct vf_in, IN)
#include "vf_input.inc"

static unsigned char vf_disk[NP * BS];
static unsigned char vf_map[NL], vf_uninit[NL];
static int vf_bad_io, vf_bad_map, vf_punches;
static struct ext2_inode vf_disk_inode;
static int vf_inode_writes;

/* STUB: ext2fs_bmap2 is a total mapping table logical -> physical (0 = hole) with an uninit bit per block; BMAP_ALLOC on a hole takes the lowest physical block that is neither mapped nor owned by another file (its disk content is arbitrary); BMAP_SET installs *phys_blk and clears uninit.  The real mapping code (bmap.c/extent.c/alloc.c) is outside this harness */
errcode_t stub_bmap2(ext2_filsys fs, ext2_ino_t ino, struct ext2_inode *inode,
		     char *block_buf, int bmap_flags, blk64_t block,
		     int *ret_flags, blk64_t *phys_blk)
{
	int l, q, m, used;
	(void) fs; (void) ino; (void) inode; (void) block_buf;
	if (ret_flags)
		*ret_flags = 0;
	if (bmap_flags & BMAP_SET) {
		if (block >= NL) { vf_bad_map = 1; return 0; }
		for (l = 0; l < NL; l++)
			if ((blk64_t) l == block) {
				vf_map[l] = (unsigned char) *phys_blk;
				vf_uninit[l] = 0;
			}
		return 0;
	}
	*phys_blk = 0;
	for (l = 0; l < NL; l++)
		if ((blk64_t) l == block) {
			*phys_blk = vf_map[l];
			if (vf_uninit[l] && ret_flags)
				*ret_flags |= BMAP_RET_UNINIT;
		}
	if (*phys_blk == 0 && (bmap_flags & BMAP_ALLOC)) {
		int got = 0;
		if (block >= NL) { vf_bad_map = 1; return 0; }
		for (q = 1; q < NP; q++) {
			used = IN.other[q] != 0;
			for (m = 0; m < NL; m++)
				if (vf_map[m] == q)
					used = 1;
			if (!used && !got)
				got = q;
		}
		if (!got) { vf_bad_map = 1; return EXT2_ET_BLOCK_ALLOC_FAIL; }
		for (l = 0; l < NL; l++)
			if ((blk64_t) l == block)
				vf_map[l] = (unsigned char) got;
		*phys_blk = got;
	}
	return 0;
}

/* STUB: ext2fs_punch(start,end) unmaps the logical blocks in [start,end] of the table (the real punch: harnesses punch_ind / punch_ext) */
errcode_t stub_punch(ext2_filsys fs, ext2_ino_t ino, struct ext2_inode *inode,
		     char *block_buf, blk64_t start, blk64_t end)
{
	int l;
	(void) fs; (void) ino; (void) inode; (void) block_buf;
	vf_punches++;
	for (l = 0; l < NL; l++)
		if (start <= (blk64_t) l && (blk64_t) l <= end) {
			vf_map[l] = 0;
			vf_uninit[l] = 0;
		}
	return 0;
}

/* STUB: ext2fs_write_inode / ext2fs_read_inode store / load one on-disk inode image */
errcode_t stub_write_inode(ext2_filsys fs, ext2_ino_t ino, struct ext2_inode *inode)
{
	(void) fs; (void) ino;
	vf_disk_inode = *inode;
	vf_inode_writes++;
	return 0;
}
errcode_t stub_read_inode(ext2_filsys fs, ext2_ino_t ino, struct ext2_inode *inode)
{
	(void) fs; (void) ino;
	*inode = vf_disk_inode;
	return 0;
}

/* STUB: io manager = byte-array disk of NP blocks of BS bytes; a request for block 0 or >= NP or count != 1 is flagged */
static errcode_t vf_read_blk64(io_channel ch, unsigned long long blk, int count, void *data)
{
	unsigned char *d = data;
	int q, k;
	(void) ch;
	if (count != 1 || blk == 0 || blk >= NP) { vf_bad_io = 1; return 0; }
	for (q = 1; q < NP; q++)
		if ((unsigned long long) q == blk)
			for (k = 0; k < BS; k++)
				d[k] = vf_disk[q * BS + k];
	return 0;
}
static errcode_t vf_write_blk64(io_channel ch, unsigned long long blk, int count, const void *data)
{
	const unsigned char *d = data;
	int q, k;
	(void) ch;
	if (count != 1 || blk == 0 || blk >= NP) { vf_bad_io = 1; return 0; }
	for (q = 1; q < NP; q++)
		if ((unsigned long long) q == blk)
			for (k = 0; k < BS; k++)
				vf_disk[q * BS + k] = d[k];
	return 0;
}
static struct struct_io_manager vf_mgr = {
	.magic = EXT2_ET_MAGIC_IO_MANAGER, .name = "vf",
	.read_blk64 = vf_read_blk64, .write_blk64 = vf_write_blk64,
};
static struct struct_io_channel vf_chan;
static struct struct_ext2_filsys vf_fs;
static struct ext2_super_block vf_sb;
static struct ext2_file vf_file;
static char vf_fbuf[3 * BS];

/* user-visible content from (buffer, table, disk); f == 0: from table and disk alone */
static void vf_decode(unsigned char *m, struct ext2_file *f)
{
	int l, k, q;
	for (l = 0; l < NL; l++)
		for (k = 0; k < BS; k++) {
			unsigned char v = 0;
			if (f && (f->flags & EXT2_FILE_BUF_VALID) && f->blockno == (blk64_t) l)
				v = (unsigned char) f->buf[k];
			else if (vf_map[l] && !vf_uninit[l]) {
				for (q = 1; q < NP; q++)
					if (vf_map[l] == q)
						v = vf_disk[q * BS + k];
			}
			m[l * BS + k] = v;
		}
}

static int vf_inv(struct ext2_file *f)
{
	int l, m, k, q;
	unsigned char cur[FS];
	__u64 size = EXT2_I_SIZE(&f->inode);

	for (l = 0; l < NL; l++) {
		if (vf_map[l] >= NP) return 1;
		if (vf_uninit[l] > 1) return 1;
		if (vf_uninit[l] && !vf_map[l]) return 2;
#ifndef WITH_EXTENTS
		if (vf_uninit[l]) return 2;
#endif
		if (vf_map[l]) {
			for (m = l + 1; m < NL; m++)
				if (vf_map[m] == vf_map[l]) return 3;
			for (q = 1; q < NP; q++)
				if (vf_map[l] == q && IN.other[q]) return 4;
		}
	}
	if (size > FS) return 5;
	if (f->flags & ~(EXT2_FILE_WRITE | EXT2_FILE_BUF_VALID | EXT2_FILE_BUF_DIRTY)) return 6;
	if ((f->flags & EXT2_FILE_BUF_DIRTY) && !(f->flags & EXT2_FILE_BUF_VALID)) return 7;
	/* ext2fs_file_write allocates the block right after dirtying the buffer */
	if ((f->flags & EXT2_FILE_BUF_DIRTY) && !f->physblock) return 7;
	if (f->flags & EXT2_FILE_BUF_VALID) {
		if (f->blockno >= NL) return 8;
		for (l = 0; l < NL; l++)
			if (f->blockno == (blk64_t) l) {
				if (f->physblock != vf_map[l]) return 9;
				if (!(f->flags & EXT2_FILE_BUF_DIRTY))
					for (k = 0; k < BS; k++) {
						unsigned char v = 0;
						if (vf_map[l] && !vf_uninit[l])
							for (q = 1; q < NP; q++)
								if (vf_map[l] == q)
									v = vf_disk[q * BS + k];
						if ((unsigned char) f->buf[k] != v) return 10;
					}
			}
	}
	vf_decode(cur, f);
	for (k = 0; k < FS; k++)
		if ((__u64) k >= size && cur[k] != 0) return 11;
	return 0;
}

int main(void)
{
	static unsigned char Mb[FS], Eb[FS], Pb[FS], out[MAXW + 1];
	struct ext2_file *f = &vf_file;
	errcode_t rc;
	int i, k, p, q;
	__u64 size0, pos0;

	VF_INPUT(IN);
	/* BOUND: block size 4 bytes: fs->blocksize = 4 and s_log_block_size = -8 (mod 2^32) so that EXT2_BLOCK_SIZE_BITS == 2; not a mountable geometry, the code under test is block-size generic */
	vf_sb.s_log_block_size = (__u32) -8;
	vf_sb.s_blocks_count = NP;
	vf_fs.magic = EXT2_ET_MAGIC_EXT2FS_FILSYS;
	vf_fs.super = &vf_sb;
	vf_fs.blocksize = BS;
	vf_fs.flags = EXT2_FLAG_RW;	/* no EXT2_FLAG_SHARE_DUP (mke2fs -d dedup path: outside) */
	vf_chan.magic = EXT2_ET_MAGIC_IO_CHANNEL;
	vf_chan.manager = &vf_mgr;
	vf_chan.block_size = BS;
	vf_fs.io = &vf_chan;

	for (i = 0; i < NP * BS; i++) vf_disk[i] = IN.disk[i];
	for (i = 0; i < NL; i++) { vf_map[i] = IN.map[i]; vf_uninit[i] = IN.uninit[i]; }
	/* ASSUME: at least NL+1 physical blocks are not owned by other files (the allocator stub never runs out; ENOSPC is outside) */
	ASSUME(IN.other[0] == 0);
	for (q = 1; q < NP; q++) ASSUME(IN.other[q] <= 1);
	ASSUME(IN.other[1] + IN.other[2] + IN.other[3] + IN.other[4] + IN.other[5] + IN.other[6] + IN.other[7] <= NP - 1 - NL);

#if OP == OP_CLOSE
	f = malloc(sizeof(*f));
	ASSUME(f != 0);
	*f = vf_file;
	f->buf = malloc(3 * BS);
	ASSUME(f->buf != 0);
#else
	f->buf = vf_fbuf;
#endif
	f->magic = EXT2_ET_MAGIC_EXT2_FILE;
	f->fs = &vf_fs;
	f->ino = 12;
	f->inode.i_mode = 0100644;
#ifdef WITH_EXTENTS
	f->inode.i_flags = EXT4_EXTENTS_FL;
#else
	f->inode.i_flags = 0;
#endif
	f->inode.i_size = IN.size;
	f->inode.i_size_high = 0;
	vf_disk_inode = f->inode;
	ASSUME(IN.valid <= 1 && IN.dirty <= 1);
	f->flags = EXT2_FILE_WRITE | (IN.valid ? EXT2_FILE_BUF_VALID : 0) | (IN.dirty ? EXT2_FILE_BUF_DIRTY : 0);
	f->pos = IN.pos;
	f->blockno = IN.blockno;
	f->physblock = IN.physblock;
	for (k = 0; k < BS; k++) f->buf[k] = (char) IN.buf[k];
#ifdef BUF_INVALID
	/* ASSUME: (BUF_INVALID configurations only) the handle's block buffer is not valid, e.g. freshly opened or just repositioned */
	ASSUME(!IN.valid);
#endif
	/* BOUND: file of at most NL=6 blocks of 4 bytes (i_size <= 24), NP-1=7 physical blocks; position: any 64-bit value below 2^62 */
	ASSUME(IN.pos < (1ULL << 62));
	ASSUME(vf_inv(f) == 0);		/* Inv on the pre-state */
	size0 = EXT2_I_SIZE(&f->inode);
	pos0 = f->pos;
	vf_decode(Mb, f);
	for (i = 0; i < FS; i++) Eb[i] = Mb[i];

#if OP == OP_READ
	{
		unsigned int n = IN.n, got = 12345, want;
		/* BOUND: request length <= MAXW bytes */
		ASSUME(n <= MAXW);
		rc = ext2fs_file_read(f, out, n, &got);
		want = pos0 < size0 ? (unsigned) (size0 - pos0) : 0;
		if (want > n) want = n;
		PROP(rc == 0, "read succeeds");
		PROP(got == want, "read returns exactly min(wanted, size - pos) bytes");
		for (i = 0; i < MAXW; i++)
			for (p = 0; p < FS; p++)
				if ((unsigned) i < want && (__u64) p == pos0 + i)
					PROP(out[i] == Mb[p], "read returns the most recently written bytes (zeros for holes and uninit blocks)");
		PROP(f->pos == pos0 + want, "read advances the position by the bytes returned");
		PROP(EXT2_I_SIZE(&f->inode) == size0, "read leaves the size alone");
	}
#elif OP == OP_WRITE
	{
		unsigned int n = IN.n, written = 12345;
		__u64 nsize;
		ASSUME(n <= MAXW);
		/* BOUND: the write ends inside the NL-block window (pos + n <= 24); it may start beyond EOF */
		ASSUME(pos0 + n <= FS);
		for (i = 0; i < MAXW; i++) {
			out[i] = IN.data[i];
			for (p = 0; p < FS; p++)
				if ((unsigned) i < n && (__u64) p == pos0 + i)
					Eb[p] = IN.data[i];
		}
		nsize = (n > 0 && pos0 + n > size0) ? pos0 + n : size0;
		rc = ext2fs_file_write(f, out, n, &written);
		PROP(rc == 0, "write succeeds");
		PROP(written == n, "write reports all bytes written");
		PROP(f->pos == pos0 + n, "write advances the position by nbytes");
		PROP(EXT2_I_SIZE(&f->inode) == nsize, "write extends the size to max(size, pos + nbytes)");
		PROP(nsize == size0 || (vf_inode_writes >= 1 && EXT2_I_SIZE(&vf_disk_inode) == nsize), "a size change is written to the on-disk inode");
	}
#elif OP == OP_LLSEEK
	{
		__u64 ret = 777, want;
		ASSUME(IN.whence <= 3);
		rc = ext2fs_file_llseek(f, IN.arg, IN.whence, &ret);
		want = IN.whence == EXT2_SEEK_SET ? IN.arg : IN.whence == EXT2_SEEK_CUR ? pos0 + IN.arg : size0 + IN.arg;
		if (IN.whence == 3) {
			PROP(rc == EXT2_ET_INVALID_ARGUMENT && f->pos == pos0, "llseek rejects an unknown whence and keeps the position");
		} else {
			PROP(rc == 0 && ret == want && f->pos == want, "llseek SET/CUR/END computes the position");
		}
	}
#elif OP == OP_FLUSH
	rc = ext2fs_file_flush(f);
	PROP(rc == 0, "flush succeeds");
	PROP(!(f->flags & EXT2_FILE_BUF_DIRTY), "flush leaves no dirty buffer");
	vf_decode(Pb, 0);
	for (i = 0; i < FS; i++)
		PROP(Pb[i] == Mb[i], "after flush the disk alone holds the file's bytes");
#elif OP == OP_SET_SIZE
	{
		__u64 ns = IN.arg;
		/* BOUND: new size inside the window (<= 24 bytes) */
		ASSUME(ns <= FS);
		for (i = 0; i < FS; i++)
			if ((__u64) i >= ns) Eb[i] = 0;
		rc = ext2fs_file_set_size2(f, (ext2_off64_t) ns);
		PROP(rc == 0, "set_size succeeds");
		PROP(EXT2_I_SIZE(&f->inode) == ns, "set_size sets the size");
		PROP(vf_inode_writes >= 1 && EXT2_I_SIZE(&vf_disk_inode) == ns, "set_size writes the size to the on-disk inode");
		PROP(f->pos == pos0, "set_size keeps the position");
		for (i = 0; i < NL; i++)
			if ((__u64) i * BS >= ns && (__u64) i * BS < size0)
				PROP(vf_map[i] == 0, "set_size unmaps every block of the old file that lies wholly beyond the new size");
			else if ((__u64) i * BS >= ns)
				;	/* blocks beyond the old size (preallocation, a flushed buffer) are not set_size's business */
			else
				PROP(vf_map[i] == IN.map[i] || IN.map[i] == 0, "set_size keeps the blocks below the new size");
	}
#elif OP == OP_CLOSE
	rc = ext2fs_file_close(f);
	PROP(rc == 0, "close succeeds");
	vf_decode(Pb, 0);
	for (i = 0; i < FS; i++)
		PROP(Pb[i] == Mb[i], "after close the disk alone holds the file's bytes");
	for (q = 1; q < NP; q++)
		for (k = 0; k < BS; k++)
			PROP(!IN.other[q] || vf_disk[q * BS + k] == IN.disk[q * BS + k], "blocks of other files are never written");
	PROP(!vf_bad_io && !vf_bad_map, "every I/O and mapping request is for a block of this file inside the device");
	VF_END();
	return 0;
#else
#error OP
#endif
	vf_decode(Pb, f);
	for (i = 0; i < FS; i++)
		PROP(Pb[i] == Eb[i], "file content after the operation equals the model");
	for (q = 1; q < NP; q++)
		for (k = 0; k < BS; k++)
			PROP(!IN.other[q] || vf_disk[q * BS + k] == IN.disk[q * BS + k], "blocks of other files are never written");
	PROP(!vf_bad_io && !vf_bad_map, "every I/O and mapping request is for a block of this file inside the device");
	PROP(vf_inv(f) == 0, "Inv preserved (buffer coherent, tail beyond EOF zero, mapping valid)");
#ifdef FOLLOWUP_READ
	/* a following read of any byte range through the real code agrees with the model */
	{
		unsigned int got = 0;
		__u64 ps = IN.arg % (FS + 1), sz = EXT2_I_SIZE(&f->inode);
		rc = ext2fs_file_llseek(f, ps, EXT2_SEEK_SET, 0);
		rc = ext2fs_file_read(f, out, BS + 1, &got);
		PROP(rc == 0, "follow-up read succeeds");
		for (i = 0; i < BS + 1; i++)
			for (p = 0; p < FS; p++)
				if ((unsigned) i < got && (__u64) p == ps + i)
					PROP(out[i] == Eb[p], "follow-up read returns the model's bytes");
		PROP(got == (ps < sz ? (sz - ps < BS + 1 ? sz - ps : BS + 1) : 0), "follow-up read length");
	}
#endif
	VF_END();
	return 0;
}
