/*
 * C09/falloc: preallocation of an EXTENT-mapped file, the REAL static ext_falloc_helper() and
 * claim_range() (MODE 1) and the REAL ext2fs_fallocate() -> extent_fallocate() walk with the
 * helper real (MODE 2) of lib/ext2fs/fallocate.c, cluster ratio 1 (CRB 0) and 4 (CRB 2).
 *
 * The extent tree is a tiny list model behind the extent API (goto / get / replace / insert /
 * delete / fix_parents: flat, sorted by logical block, the semantics of a depth-0 tree); the
 * allocator (ext2fs_new_range), ext2fs_block_alloc_stats_range, ext2fs_zero_blocks2 and
 * ext2fs_map_cluster_block are specification stubs that record what was asked.
 *
 * Reference (per LOGICAL probe block L and per PHYSICAL probe block PB, both symbolic):
 *  (1) a block mapped before is mapped afterwards to the same physical block in the same state;
 *  (2) on success every block of the requested range is mapped; no block outside it is newly mapped;
 *  (3) a physical block lies in a zeroed range only if this call newly mapped it (so no existing
 *      data of this file, no block of anybody else is zeroed), and a newly mapped block that is
 *      visible as INITIALISED has been zeroed (unless the caller asked FORCE_INIT without ZERO_BLOCKS);
 *  (4) a newly mapped block lies in exactly one range that was handed out by the allocator and
 *      claimed (alloc stats), or (bigalloc) in a cluster the file already owned; i_blocks grows by
 *      exactly the claimed clusters; on success no claimed cluster stays unused;
 *  (5) the extents written back are non-empty, within the on-disk length limit of their state, in
 *      logical order without overlap, no physical block mapped twice, and (bigalloc) satisfy the
 *      cluster invariant (p % R == l % R, one physical cluster per logical cluster).
 */
#include "lib/ext2fs/fallocate.c"

#ifndef MODE
#define MODE 1			/* 1: ext_falloc_helper, 2: ext2fs_fallocate */
#endif
#ifndef CRB
#define CRB 0
#endif
#define R (1ULL << CRB)
#define CM (R - 1)
#define NBLK (1ULL << 30)	/* blocks of the filesystem */
#define FIRSTDB 1ULL
#ifndef NLOOP
#define NLOOP 3			/* BOUND: successful/attempted non-fixed allocations per call of the entry point */
#endif
#ifndef RLMAX
#define RLMAX 40000ULL
#endif
#ifndef NPRE
#define NPRE 4			/* extents of the file before the call (each present or absent) */
#endif
#ifndef NINS
#define NINS (NLOOP + 2)
#endif
#define NE (NPRE + NINS)
#define NZ 8
#define NCL 6
#define NFX 6
#define LMAX (1ULL << 32)

struct vf_in {
	unsigned long long l[NPRE], p[NPRE];
	__u32 len[NPRE];
	unsigned char un[NPRE], valid[NPRE];
	unsigned long long rs, rl, goal;
	__u32 flags, isize, isize_hi, iblocks;
	unsigned char a_ok[NLOOP], f_ok[NFX];
	unsigned long long a_start[NLOOP], a_len[NLOOP], f_len[NFX];
	unsigned long long probe_l, probe_p, other;
};
VF_DECLARE_INPUT(struct vf_in, IN)
#include "vf_input.inc"

struct vf_ext { unsigned long long l, p; __u32 len; unsigned char un, valid; };
static struct vf_ext vf_e[NE];
static int vf_n = NPRE, vf_cur = -1, vf_bad, vf_needfix, vf_nmod, vf_overflow;
static unsigned long long vf_zb[NZ], vf_zn[NZ], vf_cb[NCL], vf_cn[NCL];
static int vf_nz, vf_ncl, vf_nal, vf_nfx, vf_have_ret, vf_claim_bad;
static unsigned long long vf_ret_s, vf_ret_n;
static char vf_handle_obj;
static struct struct_ext2_filsys vf_fs;
static struct ext2_super_block vf_sb;
static struct ext2_inode vf_inode;

static unsigned long long vf_cdown(unsigned long long b) { return b & ~CM; }
static unsigned long long vf_cup(unsigned long long b) { return (b + CM) & ~CM; }
static __u32 vf_maxlen(int un) { return un ? 32767U : 32768U; }

/* ---- list model of the extent tree ---- */
static void vf_fetch(int c, struct vf_ext *o)
{
	int i;
	static struct vf_ext z;
	*o = z;
	for (i = 0; i < NE; i++)
		if (i == c)
			*o = vf_e[i];
}
static int vf_find(unsigned long long b)
{
	int i, r = -1;
	for (i = 0; i < NE; i++)
		if (vf_e[i].valid && b >= vf_e[i].l && b - vf_e[i].l < vf_e[i].len)
			r = i;
	return r;
}
static int vf_lower(unsigned long long b)	/* extent with the greatest start <= b */
{
	int i, r = -1;
	unsigned long long bl = 0;
	for (i = 0; i < NE; i++)
		if (vf_e[i].valid && vf_e[i].l <= b && (r < 0 || vf_e[i].l > bl)) {
			r = i;
			bl = vf_e[i].l;
		}
	return r;
}
static int vf_above(unsigned long long b, int strict_from_zero)	/* extent with the smallest start > b (or >= 0 when strict_from_zero) */
{
	int i, r = -1;
	unsigned long long bl = 0;
	for (i = 0; i < NE; i++)
		if (vf_e[i].valid && (strict_from_zero || vf_e[i].l > b) && (r < 0 || vf_e[i].l < bl)) {
			r = i;
			bl = vf_e[i].l;
		}
	return r;
}
static void vf_deliver(int c, struct ext2fs_extent *ex)
{
	struct vf_ext e;
	vf_fetch(c, &e);
	ex->e_lblk = e.l;
	ex->e_pblk = e.p;
	ex->e_len = e.len;
	ex->e_flags = EXT2_EXTENT_FLAGS_LEAF | (e.un ? EXT2_EXTENT_FLAGS_UNINIT : 0);
}

/* STUB: extent API = flat sorted list (depth-0 tree semantics): goto(b) selects the extent holding b (0), else the next-lowest, else the lowest extent (EXT2_ET_EXTENT_NOT_FOUND), no current node on an empty tree; get(CURRENT / NEXT_LEAF); replace overwrites the current entry; insert places a new entry before/after the current one and makes it current; delete removes the current entry; all succeed (extent.c itself, node splits, I/O errors: outside) */
errcode_t ext2fs_extent_open2(ext2_filsys fs, ext2_ino_t ino, struct ext2_inode *inode, ext2_extent_handle_t *h)
{
	(void) fs; (void) ino; (void) inode;
	vf_cur = -1;
	*h = (ext2_extent_handle_t) &vf_handle_obj;
	return 0;
}
void ext2fs_extent_free(ext2_extent_handle_t h) { (void) h; }
errcode_t ext2fs_extent_goto(ext2_extent_handle_t h, blk64_t blk)
{
	int c;
	(void) h;
	c = vf_find(blk);
	if (c >= 0) {
		vf_cur = c;
		return 0;
	}
	c = vf_lower(blk);
	if (c < 0)
		c = vf_above(0, 1);
	vf_cur = c;
	return EXT2_ET_EXTENT_NOT_FOUND;
}
errcode_t ext2fs_extent_get(ext2_extent_handle_t h, int flags, struct ext2fs_extent *ex)
{
	struct vf_ext e;
	int c;
	(void) h;
	if (vf_cur < 0)
		return EXT2_ET_NO_CURRENT_NODE;
	if (flags == EXT2_EXTENT_CURRENT) {
		vf_deliver(vf_cur, ex);
		return 0;
	}
	if (flags != EXT2_EXTENT_NEXT_LEAF) {
		vf_bad = 1;
		return EXT2_ET_OP_NOT_SUPPORTED;
	}
	vf_fetch(vf_cur, &e);
	c = vf_above(e.l, 0);
	if (c < 0)
		return EXT2_ET_EXTENT_NO_NEXT;
	vf_cur = c;
	vf_deliver(c, ex);
	return 0;
}
static void vf_store(int c, struct ext2fs_extent *ex)
{
	int i;
	for (i = 0; i < NE; i++)
		if (i == c) {
			vf_e[i].l = ex->e_lblk;
			vf_e[i].p = ex->e_pblk;
			vf_e[i].len = ex->e_len;
			vf_e[i].un = (ex->e_flags & EXT2_EXTENT_FLAGS_UNINIT) != 0;
			vf_e[i].valid = 1;
		}
}
static void vf_check_rec(struct ext2fs_extent *ex)
{
	int un = (ex->e_flags & EXT2_EXTENT_FLAGS_UNINIT) != 0;
	PROP(ex->e_len >= 1 && ex->e_len <= vf_maxlen(un), "every extent record written is non-empty and within the on-disk length limit of its state");
	PROP(!vf_needfix, "every tree modification is followed by ext2fs_extent_fix_parents before the next one");
}
errcode_t ext2fs_extent_replace(ext2_extent_handle_t h, int flags, struct ext2fs_extent *ex)
{
	(void) h;
	if (flags || vf_cur < 0) {
		vf_bad = 1;
		return EXT2_ET_NO_CURRENT_NODE;
	}
	vf_check_rec(ex);
	vf_store(vf_cur, ex);
	vf_needfix = 1;
	vf_nmod++;
	return 0;
}
errcode_t ext2fs_extent_insert(ext2_extent_handle_t h, int flags, struct ext2fs_extent *ex)
{
	struct vf_ext e;
	int nb;
	(void) h;
	vf_check_rec(ex);
	if (vf_cur < 0) {
		PROP(vf_above(0, 1) < 0, "insert without a current node only into an empty tree");
	} else {
		vf_fetch(vf_cur, &e);
		if (flags == EXT2_EXTENT_INSERT_AFTER) {
			nb = vf_above(e.l, 0);
			PROP(e.l < ex->e_lblk, "INSERT_AFTER: the new extent starts behind the current one");
			if (nb >= 0) {
				vf_fetch(nb, &e);
				PROP(e.l > ex->e_lblk, "INSERT_AFTER: the new extent starts before the current one's successor");
			}
		} else {
			PROP(flags == 0, "insert flags are 0 or EXT2_EXTENT_INSERT_AFTER");
			PROP(e.l > ex->e_lblk, "insert before: the new extent starts before the current one");
			if (e.l > 0) {
				nb = vf_lower(e.l - 1);
				if (nb >= 0) {
					vf_fetch(nb, &e);
					PROP(e.l < ex->e_lblk, "insert before: the new extent starts behind the current one's predecessor");
				}
			}
		}
	}
	if (vf_n >= NE) {
		vf_overflow = 1;
		return 0;
	}
	vf_store(vf_n, ex);
	vf_cur = vf_n;
	vf_n++;
	vf_needfix = 1;
	vf_nmod++;
	return 0;
}
errcode_t ext2fs_extent_delete(ext2_extent_handle_t h, int flags)
{
	struct vf_ext e;
	int i, c;
	(void) h;
	if (flags || vf_cur < 0) {
		vf_bad = 1;
		return EXT2_ET_NO_CURRENT_NODE;
	}
	PROP(!vf_needfix, "every tree modification is followed by ext2fs_extent_fix_parents before the next one");
	vf_fetch(vf_cur, &e);
	c = vf_above(e.l, 0);
	for (i = 0; i < NE; i++)
		if (i == vf_cur)
			vf_e[i].valid = 0;
	if (c < 0 && e.l > 0)
		c = vf_lower(e.l - 1);
	vf_cur = c;
	vf_needfix = 1;
	vf_nmod++;
	return 0;
}
errcode_t ext2fs_extent_fix_parents(ext2_extent_handle_t h) { (void) h; vf_needfix = 0; return 0; }

/* ---- allocator ---- */
/* does the cluster footprint of blocks [s, e) touch a cluster that is in use? */
static int vf_inuse(unsigned long long s, unsigned long long e)
{
	unsigned long long cs = vf_cdown(s), ce = vf_cup(e);
	int i, r = 0;
	if (cs <= FIRSTDB)
		r = 1;			/* ASSUME: the blocks up to s_first_data_block (superblock) are in use */
	if (vf_cdown(IN.other) < ce && vf_cdown(IN.other) + R > cs)
		r = 1;
	for (i = 0; i < NE; i++)
		if (vf_e[i].valid && vf_cdown(vf_e[i].p) < ce && vf_cup(vf_e[i].p + vf_e[i].len) > cs)
			r = 1;
	for (i = 0; i < NCL; i++)
		if (i < vf_ncl && vf_cdown(vf_cb[i]) < ce && vf_cup(vf_cb[i] + vf_cn[i]) > cs)
			r = 1;
	return r;
}
/* STUB: ext2fs_new_range (alloc.c without a new_range callback, over the cluster bitmap): len 0 -> EXT2_ET_INVALID_ARGUMENT; goal 0 or beyond the end -> s_first_data_block; the run starts at the goal or at a cluster boundary, is at most len long and ends at len or at a cluster boundary; FIXED_GOAL: starts at the goal or fails; MIN_LENGTH: exactly len or fails; every cluster of the run is free: holds no block of this file, of a range claimed earlier in this call, of the foreign block `other`, nor the superblock; may fail at any time (EXT2_ET_BLOCK_ALLOC_FAIL) */
errcode_t ext2fs_new_range(ext2_filsys fs, int flags, blk64_t goal, blk64_t len, ext2fs_block_bitmap map, blk64_t *pblk, blk64_t *plen)
{
	unsigned long long s = 0, n = 0;
	int i, k, ok = 0;
	(void) fs; (void) map;
	if (len == 0 || (flags & ~EXT2_NEWRANGE_ALL_FLAGS))
		return EXT2_ET_INVALID_ARGUMENT;
	if (!goal || goal >= NBLK)
		goal = FIRSTDB;
	if (flags & EXT2_NEWRANGE_FIXED_GOAL) {
		k = vf_nfx++;
		if (k >= NFX) {
			vf_overflow = 1;
			return EXT2_ET_BLOCK_ALLOC_FAIL;
		}
		for (i = 0; i < NFX; i++)
			if (i == k) {
				ok = IN.f_ok[i];
				n = IN.f_len[i];
			}
		if (!ok)
			return EXT2_ET_BLOCK_ALLOC_FAIL;
		s = goal;
		if (flags & EXT2_NEWRANGE_MIN_LENGTH)
			n = len;
		if (n < 1 || n > len || !(n == len || ((s + n) & CM) == 0))
			return EXT2_ET_BLOCK_ALLOC_FAIL;
		if (s + n > NBLK || vf_inuse(s, s + n))
			return EXT2_ET_BLOCK_ALLOC_FAIL;
	} else {
		k = vf_nal++;
		/* BOUND: at most NLOOP calls of the general (non fixed-goal) allocator: free space fragmented into at most NLOOP pieces */
		ASSUME(k < NLOOP);
		for (i = 0; i < NLOOP; i++)
			if (i == k) {
				ok = IN.a_ok[i];
				s = IN.a_start[i];
				n = IN.a_len[i];
			}
		if (!ok)
			return EXT2_ET_BLOCK_ALLOC_FAIL;
		ASSUME(s == goal || (s & CM) == 0);
		ASSUME(n >= 1 && n <= len && (n == len || ((s + n) & CM) == 0));
		if (flags & EXT2_NEWRANGE_MIN_LENGTH)
			ASSUME(n == len);
		ASSUME(s < NBLK && s + n <= NBLK);
		ASSUME(!vf_inuse(s, s + n));
	}
	vf_have_ret = 1;
	vf_ret_s = s;
	vf_ret_n = n;
	*pblk = s;
	*plen = n;
	return 0;
}
/* STUB: ext2fs_block_alloc_stats_range records the claim; it must be +1, inside the filesystem and inside the cluster footprint of the range the allocator returned last, which is claimed once (bitmaps, group counters of alloc_stats.c: outside) */
void ext2fs_block_alloc_stats_range(ext2_filsys fs, blk64_t blk, blk_t num, int inuse)
{
	int i;
	(void) fs;
	if (inuse != 1 || !vf_have_ret || num == 0 || blk + num > NBLK ||
	    blk < vf_cdown(vf_ret_s) || blk + num > vf_cup(vf_ret_s + vf_ret_n))
		vf_claim_bad = 1;
	vf_have_ret = 0;
	if (vf_ncl >= NCL) {
		vf_overflow = 1;
		return;
	}
	for (i = 0; i < NCL; i++)
		if (i == vf_ncl) {
			vf_cb[i] = blk;
			vf_cn[i] = num;
		}
	vf_ncl++;
}
/* STUB: ext2fs_zero_blocks2 records (blk, num) and succeeds */
errcode_t ext2fs_zero_blocks2(ext2_filsys fs, blk64_t blk, int num, blk64_t *ret_blk, int *ret_count)
{
	int i;
	(void) fs; (void) ret_blk; (void) ret_count;
	if (num < 0) {
		vf_bad = 1;
		return 0;
	}
	if (vf_nz >= NZ) {
		vf_overflow = 1;
		return 0;
	}
	for (i = 0; i < NZ; i++)
		if (i == vf_nz) {
			vf_zb[i] = blk;
			vf_zn[i] = (unsigned long long) num;
		}
	vf_nz++;
	return 0;
}
/* STUB: ext2fs_map_cluster_block (bmap.c, decided in C09/bmap_cluster): the physical block implied for lblk by any OTHER mapped block of its logical cluster, 0 if none or without bigalloc */
errcode_t ext2fs_map_cluster_block(ext2_filsys fs, ext2_ino_t ino, struct ext2_inode *inode, blk64_t lblk, blk64_t *pblk)
{
	unsigned long long base = lblk & ~CM, b, res = 0;
	int i, j;
	(void) fs; (void) ino; (void) inode;
	*pblk = 0;
	if (CRB == 0)
		return 0;
	for (j = 0; j < (int) R; j++) {
		b = base + j;
		if (b == lblk)
			continue;
		for (i = 0; i < NE; i++)
			if (!res && vf_e[i].valid && b >= vf_e[i].l && b - vf_e[i].l < vf_e[i].len)
				res = vf_e[i].p + (b - vf_e[i].l) - j + (lblk - base);
	}
	*pblk = res;
	return 0;
}
#if MODE == 2
/* STUB: goal search of extent_fallocate on an empty file: ext2fs_find_first_zero_block_bitmap2 returns the goal itself (only a hint to the allocator stub, which may answer anywhere); ext2fs_find_inode_goal a constant */
errcode_t ext2fs_find_first_zero_generic_bmap(ext2fs_generic_bitmap b, __u64 start, __u64 end, __u64 *out)
{
	(void) b; (void) end;
	*out = start;
	return 0;
}
blk64_t ext2fs_find_inode_goal(ext2_filsys fs, ext2_ino_t ino, struct ext2_inode *inode, blk64_t lblk)
{
	(void) fs; (void) ino; (void) inode; (void) lblk;
	return 4096;
}
errcode_t ext2fs_read_inode(ext2_filsys fs, ext2_ino_t ino, struct ext2_inode *inode) { (void) fs; (void) ino; (void) inode; vf_bad = 1; return 0; }
errcode_t ext2fs_write_inode(ext2_filsys fs, ext2_ino_t ino, struct ext2_inode *inode) { (void) fs; (void) ino; (void) inode; vf_bad = 1; return 0; }
errcode_t ext2fs_bmap2(ext2_filsys fs, ext2_ino_t ino, struct ext2_inode *inode, char *bb, int fl, blk64_t b, int *rf, blk64_t *p)
{ (void) fs; (void) ino; (void) inode; (void) bb; (void) fl; (void) b; (void) rf; (void) p; vf_bad = 1; return EXT2_ET_OP_NOT_SUPPORTED; }
#endif

/* ---- reference views ---- */
static int ref_pre_l(unsigned long long L, unsigned long long *p, int *un)
{
	int i, c = 0;
	for (i = 0; i < NPRE; i++)
		if (IN.valid[i] && L >= IN.l[i] && L - IN.l[i] < IN.len[i]) {
			c++;
			*p = IN.p[i] + (L - IN.l[i]);
			*un = IN.un[i];
		}
	return c;
}
static int ref_pre_p(unsigned long long P)
{
	int i, c = 0;
	for (i = 0; i < NPRE; i++)
		if (IN.valid[i] && P >= IN.p[i] && P - IN.p[i] < IN.len[i])
			c++;
	return c;
}
/* (bigalloc) does the file own a block of P's physical cluster / map a block of L's logical cluster before the call? */
static int ref_pre_pcluster(unsigned long long P)
{
	int i, c = 0;
	for (i = 0; i < NPRE; i++)
		if (IN.valid[i] && vf_cdown(IN.p[i]) <= P && P < vf_cup(IN.p[i] + IN.len[i]))
			c++;
	return c;
}
static int ref_pre_lcluster(unsigned long long L)
{
	int i, c = 0;
	for (i = 0; i < NPRE; i++)
		if (IN.valid[i] && vf_cdown(IN.l[i]) <= L && L < vf_cup(IN.l[i] + IN.len[i]))
			c++;
	return c;
}
static int vf_post_l(unsigned long long L, unsigned long long *p, int *un)
{
	int i, c = 0;
	for (i = 0; i < NE; i++)
		if (vf_e[i].valid && L >= vf_e[i].l && L - vf_e[i].l < vf_e[i].len) {
			c++;
			*p = vf_e[i].p + (L - vf_e[i].l);
			*un = vf_e[i].un;
		}
	return c;
}
static int vf_post_p(unsigned long long P, int *un)
{
	int i, c = 0;
	for (i = 0; i < NE; i++)
		if (vf_e[i].valid && P >= vf_e[i].p && P - vf_e[i].p < vf_e[i].len) {
			c++;
			*un = vf_e[i].un;
		}
	return c;
}
static int vf_post_pcluster(unsigned long long P)
{
	int i, c = 0;
	for (i = 0; i < NE; i++)
		if (vf_e[i].valid && vf_cdown(vf_e[i].p) <= P && P < vf_cup(vf_e[i].p + vf_e[i].len))
			c++;
	return c;
}
/* file invariant over a list of extents: returns 0 if well formed */
static int vf_wellformed(const struct vf_ext *e, int n)
{
	int i, j;
	for (i = 0; i < n; i++) {
		if (!e[i].valid)
			continue;
		if (e[i].len < 1 || e[i].len > vf_maxlen(e[i].un))
			return 1;
		if (e[i].l >= LMAX || e[i].l + e[i].len > LMAX)
			return 2;
		if (e[i].p <= FIRSTDB || e[i].p >= NBLK || e[i].p + e[i].len > NBLK)
			return 3;
		if ((e[i].p & CM) != (e[i].l & CM))
			return 4;
		for (j = 0; j < n; j++) {
			unsigned long long ei, pei;
			if (j == i || !e[j].valid || e[j].l < e[i].l)
				continue;
			/* j starts at or behind i */
			ei = e[i].l + e[i].len;
			pei = e[i].p + e[i].len;
			if (e[j].l < ei)
				return 5;	/* logical overlap */
			if (vf_cdown(ei - 1) == vf_cdown(e[j].l)) {
				/* the two share a logical cluster: same physical cluster */
				if (vf_cdown(pei - 1) != vf_cdown(e[j].p))
					return 6;
				if (CRB == 0)
					return 7;	/* unreachable: with ratio 1 sharing means overlap */
			} else if (vf_cdown(e[i].p) < vf_cup(e[j].p + e[j].len) && vf_cdown(e[j].p) < vf_cup(pei))
				return 8;	/* physical cluster footprints intersect */
		}
	}
	return 0;
}

int main(void)
{
	static struct vf_ext pre[NPRE];
	errcode_t err;
	unsigned long long L, PB, rs, rl, pp = 0, qp = 0, clsum = 0;
	int i, flags, pu = 0, qu = 0, pre_c, post_c, prep_c, postp_c, zhit = 0, chit = 0, newly_p, in_range, wf;
#if MODE == 1
	struct ext2fs_extent lx, rx;
	static struct ext2fs_extent xz;
#endif

	VF_INPUT(IN);
	vf_sb.s_blocks_count = (__u32) NBLK;
	vf_sb.s_first_data_block = FIRSTDB;
	vf_sb.s_log_block_size = 0;
	vf_sb.s_blocks_per_group = 8192;
	vf_sb.s_feature_incompat = EXT3_FEATURE_INCOMPAT_EXTENTS;
#if CRB > 0
	vf_sb.s_feature_ro_compat = EXT4_FEATURE_RO_COMPAT_BIGALLOC;
#endif
	vf_fs.magic = EXT2_ET_MAGIC_EXT2FS_FILSYS;
	vf_fs.super = &vf_sb;
	vf_fs.blocksize = 1024;
	vf_fs.cluster_ratio_bits = CRB;
	vf_fs.flags = EXT2_FLAG_RW;
	vf_inode.i_mode = 0100644;
	vf_inode.i_flags = EXT4_EXTENTS_FL;
	/* BOUND: i_blocks before the call below 2^24 sectors (no EOVERFLOW of the 32-bit counter); i_size any 48-bit value */
	ASSUME(IN.iblocks < (1u << 24) && IN.isize_hi < (1u << 16));
	vf_inode.i_blocks = IN.iblocks;
	vf_inode.i_size = IN.isize;
	vf_inode.i_size_high = IN.isize_hi;

	/* ASSUME: flags within EXT2_FALLOCATE_ALL_FLAGS, not FORCE_INIT together with FORCE_UNINIT (ext2fs_fallocate rejects the rest) */
	flags = (int) IN.flags;
	ASSUME(!(flags & ~EXT2_FALLOCATE_ALL_FLAGS));
	ASSUME(!((flags & EXT2_FALLOCATE_FORCE_INIT) && (flags & EXT2_FALLOCATE_FORCE_UNINIT)));
	/* BOUND: request of 1..RLMAX blocks, logical blocks below 2^32, filesystem of 2^30 blocks of 1 KiB, s_first_data_block 1 */
	rs = IN.rs;
	rl = IN.rl;
	ASSUME(rl >= 1 && rl <= RLMAX && rs < LMAX && rs + rl <= LMAX);
	ASSUME(IN.goal < NBLK);
	ASSUME(IN.other < NBLK);

	/* ASSUME: the file's extents before the call are well formed: non-empty, within the length limit of their state, in logical order without overlap, physically disjoint and inside the filesystem; bigalloc: p % R == l % R, extents sharing a logical cluster share the physical cluster, others have disjoint cluster footprints; the foreign block `other` is in none of the file's clusters */
	for (i = 0; i < NPRE; i++) {
		ASSUME(IN.valid[i] <= 1 && IN.un[i] <= 1);
		pre[i].l = IN.l[i];
		pre[i].p = IN.p[i];
		pre[i].len = IN.len[i];
		pre[i].un = IN.un[i];
		pre[i].valid = IN.valid[i];
		/* slots are in logical order */
		if (i > 0 && IN.valid[i] && IN.valid[i - 1])
			ASSUME(IN.l[i - 1] < IN.l[i]);
	}
#if NPRE > 2
	for (i = 2; i < NPRE; i++)
		if (IN.valid[i] && IN.valid[i - 2])
			ASSUME(IN.l[i - 2] < IN.l[i]);
#endif
#if NPRE > 3
	if (IN.valid[0] && IN.valid[3])
		ASSUME(IN.l[0] < IN.l[3]);
#endif
	ASSUME(vf_wellformed(pre, NPRE) == 0);
	ASSUME(ref_pre_pcluster(IN.other) == 0);
	for (i = 0; i < NPRE; i++)
		vf_e[i] = pre[i];

#if MODE == 1
	/* ASSUME: the contract extent_fallocate() establishes for ext_falloc_helper(): slots are FL, left, right, FR; left (if given) ends exactly at range_start, right (if given) starts exactly at range_start + range_len; a further-left extent ends before range_start - 1 when no left is given, a further-right extent starts behind range_start + range_len when no right is given: the range itself is a hole */
#ifdef HAVE_LEFT
	ASSUME(IN.valid[1] == 1 && IN.l[1] + IN.len[1] == rs);
#else
	ASSUME(IN.valid[1] == 0);
	if (IN.valid[0])
		ASSUME(IN.l[0] + IN.len[0] < rs);
#endif
#ifdef HAVE_RIGHT
	ASSUME(IN.valid[2] == 1 && IN.l[2] == rs + rl);
#else
	ASSUME(IN.valid[2] == 0);
	if (IN.valid[3])
		ASSUME(IN.l[3] > rs + rl);
#endif
	if (IN.valid[0])
		ASSUME(IN.l[0] + IN.len[0] <= rs);
	if (IN.valid[3])
		ASSUME(IN.l[3] >= rs + rl);
	lx = xz;
	rx = xz;
	vf_cur = 0;
	vf_deliver(1, &lx);
	vf_deliver(2, &rx);
	vf_cur = -1;

	err = ext_falloc_helper(&vf_fs, flags, 12, &vf_inode, (ext2_extent_handle_t) &vf_handle_obj,
#ifdef HAVE_LEFT
				&lx,
#else
				NULL,
#endif
#ifdef HAVE_RIGHT
				&rx,
#else
				NULL,
#endif
				rs, rl, IN.goal);
#else
	err = ext2fs_fallocate(&vf_fs, flags, 12, &vf_inode, IN.goal, rs, rl);
#endif

	PROP(!vf_overflow, "harness: record capacities suffice");
	PROP(!vf_bad, "extent / zeroing calls are well formed (a current node is selected, supported flags, non-negative count)");
	PROP(!vf_needfix, "the last tree modification is followed by ext2fs_extent_fix_parents");
	PROP(!vf_claim_bad, "every claimed range is +1, inside the filesystem and inside the cluster footprint of the range the allocator just returned");

	/* (5) written extents */
	wf = vf_wellformed(vf_e, NE);
	PROP(wf != 1, "no extent is empty or longer than the on-disk limit of its state");
	PROP(wf != 2 && wf != 3, "extents stay inside the logical and physical address space");
	PROP(wf != 5, "extents are in logical order without overlap");
	PROP(wf != 4 && wf != 6, "bigalloc: p % R == l % R and one physical cluster per logical cluster");
	PROP(wf != 8 && wf != 7, "extents of different logical clusters do not share physical clusters (no physical overlap)");

	/* (1) (2) per logical block */
	L = IN.probe_l;
	ASSUME(L < LMAX);
	pre_c = ref_pre_l(L, &pp, &pu);
	post_c = vf_post_l(L, &qp, &qu);
	in_range = (L >= rs && L - rs < rl);
	PROP(post_c <= 1, "a logical block is mapped by at most one extent");
	if (pre_c) {
		PROP(post_c == 1 && qp == pp, "a block mapped before is mapped to the same physical block afterwards");
		PROP(post_c != 1 || qu == pu, "a block mapped before keeps its initialised / uninitialised state");
	} else {
		PROP(!post_c || in_range, "no block outside the requested range is newly mapped");
		if (post_c && (flags & EXT2_FALLOCATE_FORCE_INIT) && !(CRB > 0 && ref_pre_lcluster(L)))
			PROP(!qu, "FORCE_INIT: newly mapped blocks are initialised (except in a logical cluster the file already mapped)");
		if (post_c && (flags & EXT2_FALLOCATE_FORCE_UNINIT) && !(CRB > 0 && ref_pre_lcluster(L)))
			PROP(qu, "FORCE_UNINIT: newly mapped blocks are uninitialised (except in a logical cluster the file already mapped)");
	}
	if (err == 0 && in_range)
		PROP(post_c == 1, "on success every block of the requested range is mapped");

	/* (3) (4) per physical block */
	PB = IN.probe_p;
	ASSUME(PB < NBLK);
	prep_c = ref_pre_p(PB);
	postp_c = vf_post_p(PB, &qu);
	PROP(postp_c <= 1, "no physical block is mapped twice");
	newly_p = postp_c && !prep_c;
	for (i = 0; i < NZ; i++)
		if (i < vf_nz && PB >= vf_zb[i] && PB - vf_zb[i] < vf_zn[i])
			zhit++;
	for (i = 0; i < NCL; i++)
		if (i < vf_ncl) {
			if (vf_cdown(vf_cb[i]) <= PB && PB < vf_cup(vf_cb[i] + vf_cn[i]))
				chit++;
			clsum += (vf_cup(vf_cb[i] + vf_cn[i]) - vf_cdown(vf_cb[i])) >> CRB;
		}
	PROP(!zhit || newly_p, "ZEROING: only blocks this call newly mapped are zeroed (no existing data, no foreign block)");
	if (newly_p && !qu && !((flags & EXT2_FALLOCATE_FORCE_INIT) && !(flags & EXT2_FALLOCATE_ZERO_BLOCKS)))
		PROP(zhit, "ZEROING: a newly mapped block that is visible as initialised has been zeroed");
	PROP(chit <= 1, "no cluster is claimed twice");
	PROP(!(chit && ref_pre_pcluster(PB)), "no cluster the file already owned is claimed again");
	if (newly_p) {
		PROP(vf_cdown(PB) != vf_cdown(IN.other), "a newly mapped block is not in a foreign block's cluster");
		PROP(chit == 1 || (CRB > 0 && ref_pre_pcluster(PB)), "a newly mapped block was claimed from the allocator (or lies in a cluster the file already owned)");
	}
	if (err == 0 && chit)
		PROP(vf_post_pcluster(PB), "on success every claimed cluster holds a mapped block (no leak)");
	PROP(vf_inode.i_blocks == IN.iblocks + (__u32) (clsum * R * 2), "i_blocks grows by exactly the claimed clusters");
#if MODE == 1
	if (err == 0) {
#ifdef HAVE_LEFT
		/* the caller continues from these structures */
		i = vf_find(rs - 1);
		vf_cur = i;
		{ struct ext2fs_extent t = xz; if (i >= 0) vf_deliver(i, &t);
		  PROP(i >= 0 && t.e_lblk == lx.e_lblk && t.e_pblk == lx.e_pblk && t.e_len == lx.e_len &&
		       ((t.e_flags ^ lx.e_flags) & EXT2_EXTENT_FLAGS_UNINIT) == 0, "*left_ext describes the extent holding the block left of the range"); }
#endif
#ifdef HAVE_RIGHT
		i = vf_find(rs + rl);
		{ struct ext2fs_extent t = xz; if (i >= 0) vf_deliver(i, &t);
		  PROP(i >= 0 && t.e_lblk == rx.e_lblk && t.e_pblk == rx.e_pblk && t.e_len == rx.e_len &&
		       ((t.e_flags ^ rx.e_flags) & EXT2_EXTENT_FLAGS_UNINIT) == 0, "*right_ext describes the extent holding the block right of the range"); }
#endif
	}
#endif
	VF_END();
	return 0;
}
