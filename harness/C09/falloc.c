/*
 * C09/falloc: preallocation of an EXTENT-mapped file: one call of the REAL static
 * ext_falloc_helper() and claim_range() of lib/ext2fs/fallocate.c, cluster ratio 1 (CRB 0) and
 * 4 (CRB 2), left_ext / right_ext given or NULL (compile time), under the contract its only
 * caller extent_fallocate() establishes (ASSUMED here; the walk itself is OUTSIDE).
 *
 * The extent tree is a tiny list model behind the extent API (goto / get / replace / insert /
 * delete / fix_parents: flat, sorted by logical block, the semantics of a depth-0 tree); the
 * allocator (ext2fs_new_range), ext2fs_block_alloc_stats_range, ext2fs_zero_blocks2 and
 * ext2fs_map_cluster_block are specification stubs that record what was asked.
 *
 * Reference (per LOGICAL probe block L and per PHYSICAL probe block PB, both symbolic):
 *  (1) a block mapped before is mapped afterwards to the same physical block in the same state;
 *  (2) on success every block of the requested range is mapped; no block outside it is newly mapped;
 *  (3) a physical block lies in a zeroed range only if this call newly mapped it (so no existing
 *      data of this file, no block of anybody else is zeroed), and a newly mapped block that is
 *      visible as INITIALISED has been zeroed (unless the caller asked FORCE_INIT without ZERO_BLOCKS);
 *  (4) a newly mapped block lies in exactly one range that was handed out by the allocator and
 *      claimed (alloc stats), or (bigalloc) in a cluster the file already owned; i_blocks grows by
 *      exactly the claimed clusters; on success no claimed cluster stays unused;
 *  (5) the extents written back are non-empty, within the on-disk length limit of their state, in
 *      logical order without overlap, no physical block mapped twice, and (bigalloc) satisfy the
 *      cluster invariant (p % R == l % R, one physical cluster per logical cluster).
 */
#include "lib/ext2fs/fallocate.c"

#ifndef MODE
#define MODE 1			/* 1: ext_falloc_helper, 2: ext2fs_fallocate */
#endif
#ifndef CRB
#define CRB 0
#endif
#define R (1ULL << CRB)
#define CM (R - 1)
#ifndef LBITS
#define LBITS 6			/* BOUND: bits of the symbolic part of logical positions / gaps */
#endif
#ifndef PBITS
#define PBITS 9		/* BOUND: bits of symbolic physical block numbers; the filesystem has 2^(PBITS+1) blocks */
#endif
#define NBLK (1ULL << (PBITS + 1))	/* blocks of the filesystem */
#define FIRSTDB 1ULL
#ifndef NLOOP
#define NLOOP 2			/* BOUND: successful/attempted non-fixed allocations per call of the entry point */
#endif
#ifndef RLBITS
#define RLBITS 4		/* BOUND: the requested range has 1 .. 2^RLBITS blocks */
#endif
#ifndef LENBITS
#define LENBITS 4		/* BOUND: extents before the call have 1 .. 2^LENBITS blocks (WITH_BIG: or within 2^LENBITS of the on-disk limit) */
#endif
#define LENM ((1u << LENBITS) - 1)
#ifdef WITH_BIG
#define WB 1
#else
#define WB 0
#endif
#ifndef VW
#define VW (WB ? 18 : LBITS + 4)	/* bits of every block number inside the window */
#endif
#define VM ((1ULL << VW) - 1)
#define LM ((1ULL << LBITS) - 1)
#define PM ((1ULL << PBITS) - 1)
#ifndef NPRE
#define NPRE 4			/* extents of the file before the call (each present or absent) */
#endif
#ifndef NINS
#define NINS (NLOOP + 2)
#endif
#define NE (6 + NLOOP)
#define NZ 8
#define NCL 6
#define NFX 6
#define LMAX (1ULL << 32)

struct vf_in {
	__u32 pos0, gap[NPRE], p[NPRE], len[NPRE];
	unsigned char un[NPRE], valid[NPRE], big[NPRE];
	__u32 rs, rl, goal;
	__u32 flags, isize, iblocks;
	unsigned char a_ok[NLOOP], f_ok[NFX];
	__u32 a_start[NLOOP], a_len[NLOOP], f_len[NFX];
	__u32 probe_l, probe_l2, probe_p, other;
};
VF_DECLARE_INPUT(struct vf_in, IN)
#include "vf_input.inc"

struct vf_ext { unsigned long long l, p, len; unsigned char un, valid; };
/* slots: 0 further-left, 1 left, 2 right, 3 further-right, 4..5 extents inserted before the first general allocation (implied-cluster inserts), 6.. one per general allocation */
static struct vf_ext vf_e[NE];
static struct vf_ext ref_pre[NPRE];	/* the file before the call, decoded from the input */
static unsigned long long vf_other;	/* a block owned by somebody else */
static int vf_cur = -1, vf_bad, vf_needfix, vf_nmod, vf_overflow, vf_wide, vf_nimp, vf_replace_other;
static unsigned long long vf_zb[NZ], vf_zn[NZ], vf_cb[NCL], vf_cn[NCL];
static int vf_nz, vf_ncl, vf_nal, vf_nfx, vf_have_ret, vf_claim_bad;
static unsigned long long vf_ret_s, vf_ret_n;
static char vf_handle_obj;
static struct struct_ext2_filsys vf_fs;
static struct ext2_super_block vf_sb;
static struct ext2_inode vf_inode;
static struct ext2fs_extent vf_lx, vf_rx;	/* the caller's *left_ext / *right_ext */

static unsigned long long vf_cdown(unsigned long long b) { return b & ~CM; }
static unsigned long long vf_cup(unsigned long long b) { return (b + CM) & ~CM; }
static __u32 vf_maxlen(int un) { return un ? 32767U : 32768U; }
/* every block number / count that reaches the model must lie in the window of VW bits (a wrapped value is reported); model arithmetic then runs on VW-bit values */
static unsigned long long vf_w(unsigned long long v)
{
	if (v > VM)
		vf_wide = 1;
	return v & VM;
}

/* ---- list model of the extent tree ---- */
static void vf_fetch(int c, struct vf_ext *o)
{
	int i;
	static struct vf_ext z;
	*o = z;
	for (i = 0; i < NE; i++)
		if (i == c)
			*o = vf_e[i];
}
static int vf_lower(unsigned long long b)	/* extent with the greatest start <= b */
{
	int i, r = -1;
	unsigned long long bl = 0;
	for (i = 0; i < NE; i++)
		if (vf_e[i].valid && vf_e[i].l <= b && (r < 0 || vf_e[i].l > bl)) {
			r = i;
			bl = vf_e[i].l;
		}
	return r;
}
static int vf_above(unsigned long long b, int all)	/* extent with the smallest start > b (all: the smallest start) */
{
	int i, r = -1;
	unsigned long long bl = 0;
	for (i = 0; i < NE; i++)
		if (vf_e[i].valid && (all || vf_e[i].l > b) && (r < 0 || vf_e[i].l < bl)) {
			r = i;
			bl = vf_e[i].l;
		}
	return r;
}
static void vf_deliver(int c, struct ext2fs_extent *ex)
{
	struct vf_ext e;
	vf_fetch(c, &e);
	ex->e_lblk = e.l;
	ex->e_pblk = e.p;
	ex->e_len = (__u32) e.len;
	ex->e_flags = EXT2_EXTENT_FLAGS_LEAF | (e.un ? EXT2_EXTENT_FLAGS_UNINIT : 0);
}

/* STUB: extent API = flat list sorted by logical block (the semantics of a depth-0 tree): goto(b) selects the extent holding b (0), else the next-lowest, else the lowest extent (EXT2_ET_EXTENT_NOT_FOUND), no current node on an empty tree; get(CURRENT / NEXT_LEAF); replace overwrites the current entry; insert places a new entry before/after the current one and makes it current; delete removes the current entry; all succeed (extent.c itself, node splits, I/O errors: outside) */
errcode_t ext2fs_extent_goto(ext2_extent_handle_t h, blk64_t blk)
{
	struct vf_ext e;
	int c;
	(void) h;
	blk = vf_w(blk);
	/* the usual case, kept concrete: the start of the left / right extent */
	if (vf_e[1].valid && blk == vf_e[1].l) {
		vf_cur = 1;
		return 0;
	}
	if (vf_e[2].valid && blk == vf_e[2].l) {
		vf_cur = 2;
		return 0;
	}
	c = vf_lower(blk);
	if (c < 0) {
		vf_cur = vf_above(0, 1);
		return EXT2_ET_EXTENT_NOT_FOUND;
	}
	vf_cur = c;
	vf_fetch(c, &e);
	return blk < e.l + e.len ? 0 : EXT2_ET_EXTENT_NOT_FOUND;
}
errcode_t ext2fs_extent_get(ext2_extent_handle_t h, int flags, struct ext2fs_extent *ex)
{
	struct vf_ext e;
	int c;
	(void) h;
	if (vf_cur < 0)
		return EXT2_ET_NO_CURRENT_NODE;
	if (flags == EXT2_EXTENT_CURRENT) {
		vf_deliver(vf_cur, ex);
		return 0;
	}
	if (flags != EXT2_EXTENT_NEXT_LEAF) {
		vf_bad = 1;
		return EXT2_ET_OP_NOT_SUPPORTED;
	}
	vf_fetch(vf_cur, &e);
	c = vf_above(e.l, 0);
	if (c < 0)
		return EXT2_ET_EXTENT_NO_NEXT;
	vf_cur = c;
	vf_deliver(c, ex);
	return 0;
}
static void vf_check_rec(struct ext2fs_extent *ex)
{
	int un = (ex->e_flags & EXT2_EXTENT_FLAGS_UNINIT) != 0;
	PROP(ex->e_len >= 1 && ex->e_len <= vf_maxlen(un), "every extent record written is non-empty and within the on-disk length limit of its state");
	PROP(!vf_needfix, "every tree modification is followed by ext2fs_extent_fix_parents before the next one");
}
static void vf_set(struct vf_ext *d, struct ext2fs_extent *ex)
{
	d->l = vf_w(ex->e_lblk);
	d->p = vf_w(ex->e_pblk);
	d->len = vf_w(ex->e_len);
	d->un = (ex->e_flags & EXT2_EXTENT_FLAGS_UNINIT) != 0;
	d->valid = 1;
}
errcode_t ext2fs_extent_replace(ext2_extent_handle_t h, int flags, struct ext2fs_extent *ex)
{
	int i;
	(void) h;
	if (flags || vf_cur < 0)
		vf_bad = 1;		/* reported; the model goes on so that no error branch is invented */
	vf_check_rec(ex);
	if (ex == &vf_lx) {
		PROP(vf_cur == 1, "*left_ext is written onto the node of the left extent");
		vf_set(&vf_e[1], ex);
	} else if (ex == &vf_rx) {
		PROP(vf_cur == 2, "*right_ext is written onto the node of the right extent");
		vf_set(&vf_e[2], ex);
	} else {
		vf_replace_other = 1;
		for (i = 0; i < NE; i++)
			if (i == vf_cur)
				vf_set(&vf_e[i], ex);
	}
	vf_needfix = 1;
	vf_nmod++;
	return 0;
}
errcode_t ext2fs_extent_insert(ext2_extent_handle_t h, int flags, struct ext2fs_extent *ex)
{
	struct vf_ext e;
	unsigned long long nl = vf_w(ex->e_lblk);
	int nb, i, slot;
	(void) h;
	vf_check_rec(ex);
	if (vf_cur < 0) {
		PROP(vf_above(0, 1) < 0, "insert without a current node only into an empty tree");
	} else {
		vf_fetch(vf_cur, &e);
		if (flags == EXT2_EXTENT_INSERT_AFTER) {
			nb = vf_above(e.l, 0);
			PROP(e.l < nl, "INSERT_AFTER: the new extent starts behind the current one");
			if (nb >= 0) {
				vf_fetch(nb, &e);
				PROP(e.l > nl, "INSERT_AFTER: the new extent starts before the current one's successor");
			}
		} else {
			PROP(flags == 0, "insert flags are 0 or EXT2_EXTENT_INSERT_AFTER");
			PROP(e.l > nl, "insert before: the new extent starts before the current one");
			if (e.l > 0) {
				nb = vf_lower(e.l - 1);
				if (nb >= 0) {
					vf_fetch(nb, &e);
					PROP(e.l < nl, "insert before: the new extent starts behind the current one's predecessor");
				}
			}
		}
	}
	if (vf_nal == 0) {
		/* before the first general allocation: one of two slots */
		if (vf_nimp >= 2) {
			vf_overflow = 1;
			return 0;
		}
		slot = 4 + vf_nimp;
		for (i = 4; i < 6; i++)
			if (i == slot)
				vf_set(&vf_e[i], ex);
		vf_nimp++;
	} else {
		slot = 6 + vf_nal - 1;		/* concrete: one slot per general allocation */
		if (slot >= NE || vf_e[slot].valid) {
			vf_overflow = 1;
			return 0;
		}
		vf_set(&vf_e[slot], ex);
	}
	vf_cur = slot;
	vf_needfix = 1;
	vf_nmod++;
	return 0;
}
errcode_t ext2fs_extent_delete(ext2_extent_handle_t h, int flags)
{
	int c;
	(void) h;
	if (flags || vf_cur < 0) {
		vf_bad = 1;
		return EXT2_ET_NO_CURRENT_NODE;
	}
	PROP(!vf_needfix, "every tree modification is followed by ext2fs_extent_fix_parents before the next one");
	/* the only deletion of the helper: the right extent after it was merged into the left one */
	PROP(vf_cur == 2, "only the node of the right extent is deleted");
	vf_e[2].valid = 0;
	c = vf_above(vf_e[2].l, 0);
	if (c < 0)
		c = vf_lower(vf_e[2].l);
	vf_cur = c;
	vf_needfix = 1;
	vf_nmod++;
	return 0;
}
errcode_t ext2fs_extent_fix_parents(ext2_extent_handle_t h) { (void) h; vf_needfix = 0; return 0; }

/* ---- allocator ---- */
/* does the cluster footprint of blocks [s, e) touch a cluster that is in use? */
static int vf_inuse(unsigned long long s, unsigned long long e)
{
	unsigned long long cs = vf_cdown(s), ce = vf_cup(e);
	int i, r = 0;
	if (cs <= FIRSTDB)
		r = 1;			/* ASSUME: the blocks up to s_first_data_block (superblock) are in use */
	if (vf_cdown(vf_other) < ce && vf_cdown(vf_other) + R > cs)
		r = 1;
	for (i = 0; i < NE; i++)
		if (vf_e[i].valid && vf_cdown(vf_e[i].p) < ce && vf_cup(vf_e[i].p + vf_e[i].len) > cs)
			r = 1;
	for (i = 0; i < NCL; i++)
		if (i < vf_ncl && vf_cdown(vf_cb[i]) < ce && vf_cup(vf_cb[i] + vf_cn[i]) > cs)
			r = 1;
	return r;
}
/* STUB: ext2fs_new_range (alloc.c without a new_range callback, over the cluster bitmap): len 0 -> EXT2_ET_INVALID_ARGUMENT; goal 0 or beyond the end -> s_first_data_block; the run starts at the goal or at a cluster boundary, is at most len long and ends at len or at a cluster boundary; FIXED_GOAL: starts at the goal or fails; MIN_LENGTH: exactly len or fails; every cluster of the run is free: holds no block of this file, of a range claimed earlier in this call, of the foreign block `other`, nor the superblock; may fail at any time (EXT2_ET_BLOCK_ALLOC_FAIL) */
errcode_t ext2fs_new_range(ext2_filsys fs, int flags, blk64_t goal, blk64_t len, ext2fs_block_bitmap map, blk64_t *pblk, blk64_t *plen)
{
	unsigned long long s = 0, n = 0;
	int i, k, ok = 0;
	(void) fs; (void) map;
	if (len == 0 || (flags & ~EXT2_NEWRANGE_ALL_FLAGS))
		return EXT2_ET_INVALID_ARGUMENT;
	if (!goal || goal >= NBLK)
		goal = FIRSTDB;
	goal &= VM;
	if (len > VM) {
		/* a request longer than the filesystem: cannot be met in full, otherwise the same as the largest request */
		if (flags & EXT2_NEWRANGE_MIN_LENGTH)
			return EXT2_ET_BLOCK_ALLOC_FAIL;
		len = VM;
	}
	len &= VM;
	if (flags & EXT2_NEWRANGE_FIXED_GOAL) {
		k = vf_nfx++;
		if (k >= NFX) {
			vf_overflow = 1;
			return EXT2_ET_BLOCK_ALLOC_FAIL;
		}
		for (i = 0; i < NFX; i++)
			if (i == k) {
				ok = IN.f_ok[i];
				n = 1 + (IN.f_len[i] & ((1ULL << (RLBITS + 1)) - 1));
			}
		if (!ok)
			return EXT2_ET_BLOCK_ALLOC_FAIL;
		s = goal;
		if (flags & EXT2_NEWRANGE_MIN_LENGTH)
			n = len;
		if (n < 1 || n > len || !(n == len || ((s + n) & CM) == 0))
			return EXT2_ET_BLOCK_ALLOC_FAIL;
		if (s + n > NBLK || vf_inuse(s, s + n))
			return EXT2_ET_BLOCK_ALLOC_FAIL;
	} else {
		k = vf_nal++;
		/* BOUND: at most NLOOP calls of the general (non fixed-goal) allocator: free space fragmented into at most NLOOP pieces */
		ASSUME(k < NLOOP);
		for (i = 0; i < NLOOP; i++)
			if (i == k) {
				ok = IN.a_ok[i];
				s = IN.a_start[i] & (2 * PM + 1);
				n = 1 + (IN.a_len[i] & ((1ULL << (RLBITS + 1)) - 1));
			}
		if (!ok)
			return EXT2_ET_BLOCK_ALLOC_FAIL;
		ASSUME(s == goal || (s & CM) == 0);
		ASSUME(n >= 1 && n <= len && (n == len || ((s + n) & CM) == 0));
		if (flags & EXT2_NEWRANGE_MIN_LENGTH)
			ASSUME(n == len);
		ASSUME(s < NBLK && s + n <= NBLK);
		ASSUME(!vf_inuse(s, s + n));
	}
	vf_have_ret = 1;
	vf_ret_s = s;
	vf_ret_n = n;
	*pblk = s;
	*plen = n;
	return 0;
}
/* STUB: ext2fs_block_alloc_stats_range records the claim; it must be +1, inside the filesystem and inside the cluster footprint of the range the allocator returned last, which is claimed once (bitmaps, group counters of alloc_stats.c: outside) */
void ext2fs_block_alloc_stats_range(ext2_filsys fs, blk64_t blk, blk_t num, int inuse)
{
	int i;
	(void) fs;
	blk = vf_w(blk);
	num = (blk_t) vf_w(num);
	if (inuse != 1 || !vf_have_ret || num == 0 || blk + num > NBLK ||
	    blk < vf_cdown(vf_ret_s) || blk + num > vf_cup(vf_ret_s + vf_ret_n))
		vf_claim_bad = 1;
	vf_have_ret = 0;
	if (vf_ncl >= NCL) {
		vf_overflow = 1;
		return;
	}
	for (i = 0; i < NCL; i++)
		if (i == vf_ncl) {
			vf_cb[i] = blk;
			vf_cn[i] = num;
		}
	vf_ncl++;
}
/* STUB: ext2fs_zero_blocks2 records (blk, num) and succeeds */
errcode_t ext2fs_zero_blocks2(ext2_filsys fs, blk64_t blk, int num, blk64_t *ret_blk, int *ret_count)
{
	int i;
	(void) fs; (void) ret_blk; (void) ret_count;
	if (num < 0) {
		vf_bad = 1;
		return 0;
	}
	if (vf_nz >= NZ) {
		vf_overflow = 1;
		return 0;
	}
	for (i = 0; i < NZ; i++)
		if (i == vf_nz) {
			vf_zb[i] = vf_w(blk);
			vf_zn[i] = vf_w((unsigned long long) num);
		}
	vf_nz++;
	return 0;
}
/* STUB: ext2fs_map_cluster_block (bmap.c, decided in C09/bmap_cluster): the physical block implied for lblk by any OTHER mapped block of its logical cluster, 0 if none or without bigalloc */
errcode_t ext2fs_map_cluster_block(ext2_filsys fs, ext2_ino_t ino, struct ext2_inode *inode, blk64_t lblk, blk64_t *pblk)
{
	unsigned long long base, b, e, res = 0;
	int i;
	(void) fs; (void) ino; (void) inode;
	*pblk = 0;
	if (CRB == 0)
		return 0;
	lblk = vf_w(lblk);
	base = lblk & ~CM;
	for (i = 0; i < NE; i++) {
		if (res || !vf_e[i].valid)
			continue;
		/* first block of the extent inside the logical cluster, skipping lblk itself */
		b = vf_e[i].l > base ? vf_e[i].l : base;
		if (b == lblk)
			b++;
		e = vf_e[i].l + vf_e[i].len;
		if (b < e && b < base + R)
			res = vf_e[i].p + (b - vf_e[i].l) - (b - base) + (lblk - base);
	}
	*pblk = res;
	return 0;
}
/* ---- reference views ---- */
static int ref_in(unsigned long long x, unsigned long long s, unsigned long long n) { return x >= s && x < s + n; }
static int ref_pre_l(unsigned long long L, unsigned long long *p, int *un)
{
	int i, c = 0;
	for (i = 0; i < NPRE; i++)
		if (ref_pre[i].valid && ref_in(L, ref_pre[i].l, ref_pre[i].len)) {
			c++;
			*p = ref_pre[i].p + L - ref_pre[i].l;
			*un = ref_pre[i].un;
		}
	return c;
}
static int ref_pre_p(unsigned long long P)
{
	int i, c = 0;
	for (i = 0; i < NPRE; i++)
		if (ref_pre[i].valid && ref_in(P, ref_pre[i].p, ref_pre[i].len))
			c++;
	return c;
}
/* (bigalloc) does the file own a block of P's physical cluster / map a block of L's logical cluster before the call? */
static int ref_pre_pcluster(unsigned long long P)
{
	int i, c = 0;
	for (i = 0; i < NPRE; i++)
		if (ref_pre[i].valid && vf_cdown(ref_pre[i].p) <= P && P < vf_cup(ref_pre[i].p + ref_pre[i].len))
			c++;
	return c;
}
static int ref_pre_lcluster(unsigned long long L)
{
	int i, c = 0;
	for (i = 0; i < NPRE; i++)
		if (ref_pre[i].valid && vf_cdown(ref_pre[i].l) <= L && L < vf_cup(ref_pre[i].l + ref_pre[i].len))
			c++;
	return c;
}
static int vf_post_l(unsigned long long L, unsigned long long *p, int *un)
{
	int i, c = 0;
	for (i = 0; i < NE; i++)
		if (vf_e[i].valid && ref_in(L, vf_e[i].l, vf_e[i].len)) {
			c++;
			*p = vf_e[i].p + L - vf_e[i].l;
			*un = vf_e[i].un;
		}
	return c;
}
static int vf_post_p(unsigned long long P, int *un)
{
	int i, c = 0;
	for (i = 0; i < NE; i++)
		if (vf_e[i].valid && ref_in(P, vf_e[i].p, vf_e[i].len)) {
			c++;
			*un = vf_e[i].un;
		}
	return c;
}
static int vf_post_pcluster(unsigned long long P)
{
	int i, c = 0;
	for (i = 0; i < NE; i++)
		if (vf_e[i].valid && vf_cdown(vf_e[i].p) <= P && P < vf_cup(vf_e[i].p + vf_e[i].len))
			c++;
	return c;
}
/* one extent on its own: 0 if well formed */
static int vf_wf1(const struct vf_ext *e)
{
	if (e->len < 1 || e->len > vf_maxlen(e->un))
		return 1;
	if (vf_cdown(e->p) <= FIRSTDB || e->p >= NBLK || e->p + e->len > NBLK)
		return 3;	/* the cluster of the superblock is not file data */
	if ((e->p & CM) != (e->l & CM))
		return 4;
	return 0;
}
/* file invariant over the extents before the call (in logical order by construction): returns 0 if well formed */
static int vf_wellformed(const struct vf_ext *e, int n)
{
	int i, j, r;
	for (i = 0; i < n; i++) {
		if (!e[i].valid)
			continue;
		r = vf_wf1(&e[i]);
		if (r)
			return r;
		for (j = i + 1; j < n; j++) {
			unsigned long long ei, pei;
			if (!e[j].valid)
				continue;
			ei = e[i].l + e[i].len;
			pei = e[i].p + e[i].len;
			if (e[j].l < ei)
				return 5;	/* logical overlap */
			if (CRB > 0 && vf_cdown(ei - 1) == vf_cdown(e[j].l)) {
				/* the two share a logical cluster: same physical cluster */
				if (vf_cdown(pei - 1) != vf_cdown(e[j].p))
					return 6;
			} else if (vf_cdown(e[i].p) < vf_cup(e[j].p + e[j].len) && vf_cdown(e[j].p) < vf_cup(pei))
				return 8;	/* physical cluster footprints intersect */
		}
	}
	return 0;
}

int main(void)
{
	static struct vf_ext pre[NPRE];
	errcode_t err;
	unsigned long long L, L2, PB, rs, rl, pos, goal, pp = 0, qp = 0, qp2 = 0, clsum = 0;
	int i, flags, pu = 0, qu = 0, qu2 = 0, post2_c, pre_c, post_c, prep_c, postp_c, zhit = 0, chit = 0, newly_p, in_range, wf;
	static struct ext2fs_extent xz;

	VF_INPUT(IN);
	vf_sb.s_blocks_count = (__u32) NBLK;
	vf_sb.s_first_data_block = FIRSTDB;
	vf_sb.s_log_block_size = 0;
	vf_sb.s_blocks_per_group = 8192;
	vf_sb.s_feature_incompat = EXT3_FEATURE_INCOMPAT_EXTENTS;
#if CRB > 0
	vf_sb.s_feature_ro_compat = EXT4_FEATURE_RO_COMPAT_BIGALLOC;
#endif
	vf_fs.magic = EXT2_ET_MAGIC_EXT2FS_FILSYS;
	vf_fs.super = &vf_sb;
	vf_fs.blocksize = 1024;
	vf_fs.cluster_ratio_bits = CRB;
	vf_fs.flags = EXT2_FLAG_RW;
	vf_inode.i_mode = 0100644;
	vf_inode.i_flags = EXT4_EXTENTS_FL;
	/* BOUND: i_blocks before the call below 2^24 sectors (no EOVERFLOW of the 32-bit counter); i_size below 2^(LBITS+12) (EOF block anywhere in or behind the window) */
	vf_inode.i_blocks = IN.iblocks & 0xffffff;
	vf_inode.i_size = IN.isize & ((1u << (LBITS + 12)) - 1);
	vf_inode.i_size_high = 0;

	/* ASSUME: flags within EXT2_FALLOCATE_ALL_FLAGS, not FORCE_INIT together with FORCE_UNINIT (ext2fs_fallocate rejects the rest) */
#ifdef FLAGS
	flags = FLAGS;		/* compile-time: one query per flag combination */
#else
	flags = (int) (IN.flags & EXT2_FALLOCATE_ALL_FLAGS);
#endif
	ASSUME(!((flags & EXT2_FALLOCATE_FORCE_INIT) && (flags & EXT2_FALLOCATE_FORCE_UNINIT)));
	goal = IN.goal & (2 * PM + 1);
	vf_other = IN.other & (2 * PM + 1);

	/*
	 * The file before the call, laid out left to right: slot i starts gap[i] blocks behind the end of slot i-1
	 * (an absent slot takes no room).  BOUND: start of the window and gaps below 2^LBITS, physical blocks below
	 * 2^PBITS, lengths 1..2^LENBITS or (WITH_BIG) within 2^LENBITS of the on-disk limit of the state.
	 * MODE 1: slots are further-left, left, right, further-right and the requested range sits between left and
	 * right: this is the contract extent_fallocate() establishes for ext_falloc_helper(): left (if given) ends
	 * exactly at range_start, right (if given) starts exactly at range_start + range_len, extents that are not
	 * passed are not adjacent to the range, and the range itself is a hole.
	 */
	pos = IN.pos0 & LM;
	rl = 1 + (IN.rl & ((1ULL << RLBITS) - 1));
	for (i = 0; i < NPRE; i++) {
		ASSUME(IN.valid[i] <= 1 && IN.un[i] <= 1 && IN.big[i] <= 1);
		pre[i].valid = IN.valid[i];
		pre[i].un = IN.un[i];
#if MODE == 1
#ifndef HAVE_FAR
		if (i == 0 || i == 3)
			pre[i].valid = 0;	/* config without further-left / further-right extents */
#endif
#ifdef UNL
		if (i == 1)
			pre[i].un = UNL;	/* compile-time state of the left extent */
#endif
#ifdef UNR
		if (i == 2)
			pre[i].un = UNR;	/* compile-time state of the right extent */
#endif
#ifdef HAVE_LEFT
		if (i == 1)
			pre[i].valid = 1;
#else
		if (i == 1)
			pre[i].valid = 0;
#endif
#ifdef HAVE_RIGHT
		if (i == 2)
			pre[i].valid = 1;
#else
		if (i == 2)
			pre[i].valid = 0;
#endif
#endif
#ifdef WITH_BIG
		pre[i].len = IN.big[i] ? vf_maxlen(pre[i].un) - (IN.len[i] & LENM) : 1 + (IN.len[i] & LENM);
#else
		pre[i].len = 1 + (IN.len[i] & LENM);
#endif
		pre[i].p = IN.p[i] & PM;
	}
#if MODE == 1
	if (pre[0].valid) {
		pre[0].l = pos;
		pos += pre[0].len;
	}
	pos += IN.gap[1] & LM;
#ifdef HAVE_LEFT
	pre[1].l = pos;
	pos += pre[1].len;
#else
	if (pre[0].valid)
		pos += 1;		/* an extent that is not passed as left_ext is not adjacent to the range */
#endif
	rs = pos;
	pos += rl;
#ifdef HAVE_RIGHT
	pre[2].l = pos;
	pos += pre[2].len;
#else
	pos += 1;			/* an extent that is not passed as right_ext is not adjacent to the range */
#endif
	pos += IN.gap[3] & LM;
	if (pre[3].valid)
		pre[3].l = pos;
#else
	for (i = 0; i < NPRE; i++)
		if (pre[i].valid) {
			pos += IN.gap[i] & LM;
			pre[i].l = pos;
			pos += pre[i].len;
		}
	rs = IN.rs & ((1ULL << (LBITS + 2)) - 1);
#endif
	ASSUME(rs + rl <= LMAX);
	/* ASSUME: the file's extents before the call are well formed: non-empty, within the length limit of their state, in logical order without overlap, physically disjoint and inside the filesystem; bigalloc: p % R == l % R, extents sharing a logical cluster share the physical cluster, others have disjoint cluster footprints; the foreign block `other` is in none of the file's clusters */
	ASSUME(vf_wellformed(pre, NPRE) == 0);
	for (i = 0; i < NPRE; i++) {
		ref_pre[i] = pre[i];
		vf_e[i] = pre[i];
	}
	ASSUME(ref_pre_pcluster(vf_other) == 0);

#if MODE == 1
	vf_deliver(1, &vf_lx);
	vf_deliver(2, &vf_rx);
	vf_cur = -1;

	err = ext_falloc_helper(&vf_fs, flags, 12, &vf_inode, (ext2_extent_handle_t) &vf_handle_obj,
#ifdef HAVE_LEFT
				&vf_lx,
#else
				NULL,
#endif
#ifdef HAVE_RIGHT
				&vf_rx,
#else
				NULL,
#endif
				rs, rl, goal);
#endif

	PROP(!vf_overflow, "harness: record capacities suffice");
	PROP(!vf_bad, "extent / zeroing calls are well formed (a current node is selected, supported flags, non-negative count)");
	PROP(!vf_needfix, "the last tree modification is followed by ext2fs_extent_fix_parents");
	PROP(!vf_claim_bad, "every claimed range is +1, inside the filesystem and inside the cluster footprint of the range the allocator just returned");

	PROP(!vf_wide, "every block number and count the helper passes on lies inside the window (no wrapped arithmetic reaches the tree, the allocator or the zeroing)");

	/* (5) written extents, each on its own; order / overlap / cluster sharing through the probes below */
	for (i = 0; i < NE; i++)
		if (vf_e[i].valid) {
			wf = vf_wf1(&vf_e[i]);
			PROP(wf != 1, "no extent is empty or longer than the on-disk limit of its state");
			PROP(wf != 3, "extents stay inside the filesystem");
			PROP(wf != 4, "bigalloc: p % R == l % R for every extent");
		}

	/* (1) (2) per logical block */
	/* BOUND: probe blocks range over the window */
	L = IN.probe_l & VM;
	L2 = IN.probe_l2 & VM;
	pre_c = ref_pre_l(L, &pp, &pu);
	post_c = vf_post_l(L, &qp, &qu);
	post2_c = vf_post_l(L2, &qp2, &qu2);
	in_range = ref_in(L, rs, rl);
	PROP(post_c <= 1, "a logical block is mapped by at most one extent (no logical overlap)");
	if (post_c == 1 && post2_c == 1 && L != L2) {
		if (vf_cdown(L) == vf_cdown(L2))
			PROP(vf_cdown(qp) == vf_cdown(qp2), "bigalloc: all blocks of one logical cluster lie in one physical cluster");
		else
			PROP(vf_cdown(qp) != vf_cdown(qp2), "blocks of different logical clusters lie in different physical clusters (no physical block shared)");
	}
	if (pre_c) {
		PROP(post_c == 1 && qp == pp, "a block mapped before is mapped to the same physical block afterwards");
		PROP(post_c != 1 || qu == pu, "a block mapped before keeps its initialised / uninitialised state");
	} else {
		PROP(!post_c || in_range, "no block outside the requested range is newly mapped");
		if (post_c && (flags & EXT2_FALLOCATE_FORCE_INIT) && !(CRB > 0 && ref_pre_lcluster(L)))
			PROP(!qu, "FORCE_INIT: newly mapped blocks are initialised (except in a logical cluster the file already mapped)");
		if (post_c && (flags & EXT2_FALLOCATE_FORCE_UNINIT) && !(CRB > 0 && ref_pre_lcluster(L)))
			PROP(qu, "FORCE_UNINIT: newly mapped blocks are uninitialised (except in a logical cluster the file already mapped)");
	}
	if (err == 0 && in_range)
		PROP(post_c == 1, "on success every block of the requested range is mapped");

	/* (3) (4) per physical block */
	PB = IN.probe_p & VM;
	prep_c = ref_pre_p(PB);
	postp_c = vf_post_p(PB, &qu);
	PROP(postp_c <= 1, "no physical block is mapped twice");
	newly_p = postp_c && !prep_c;
	for (i = 0; i < NZ; i++)
		if (i < vf_nz && ref_in(PB, vf_zb[i], vf_zn[i]))
			zhit++;
	for (i = 0; i < NCL; i++)
		if (i < vf_ncl) {
			if (vf_cdown(vf_cb[i]) <= PB && PB < vf_cup(vf_cb[i] + vf_cn[i]))
				chit++;
			clsum += (vf_cup(vf_cb[i] + vf_cn[i]) - vf_cdown(vf_cb[i])) >> CRB;
		}
	PROP(!zhit || newly_p || (chit && !prep_c), "ZEROING: only blocks this call newly mapped (or unmapped blocks of a cluster it newly claimed) are zeroed: no existing data, no foreign block");
	if (newly_p && !qu && !((flags & EXT2_FALLOCATE_FORCE_INIT) && !(flags & EXT2_FALLOCATE_ZERO_BLOCKS)))
		PROP(zhit, "ZEROING: a newly mapped block that is visible as initialised has been zeroed");
	PROP(chit <= 1, "no cluster is claimed twice");
	PROP(!(chit && ref_pre_pcluster(PB)), "no cluster the file already owned is claimed again");
	if (newly_p) {
		PROP(vf_cdown(PB) != vf_cdown(vf_other), "a newly mapped block is not in a foreign block's cluster");
		PROP(chit == 1 || (CRB > 0 && ref_pre_pcluster(PB)), "a newly mapped block was claimed from the allocator (or lies in a cluster the file already owned)");
	}
	if (err == 0 && chit)
		PROP(vf_post_pcluster(PB), "on success every claimed cluster holds a mapped block (no leak)");
	PROP(vf_inode.i_blocks == (IN.iblocks & 0xffffff) + (__u32) (clsum * R * 2), "i_blocks grows by exactly the claimed clusters");
	PROP(!vf_replace_other, "ext2fs_extent_replace is only called with *left_ext or *right_ext");
	if (err == 0) {
		struct ext2fs_extent t;
#ifdef HAVE_LEFT
		/* the caller continues from these structures */
		t = xz;
		i = vf_lower(rs - 1);
		vf_deliver(i, &t);
		PROP(i >= 0 && t.e_lblk == vf_lx.e_lblk && t.e_pblk == vf_lx.e_pblk && t.e_len == vf_lx.e_len &&
		     ((t.e_flags ^ vf_lx.e_flags) & EXT2_EXTENT_FLAGS_UNINIT) == 0, "*left_ext describes the extent holding the block left of the range");
#endif
#ifdef HAVE_RIGHT
		t = xz;
		i = vf_lower(rs + rl);
		vf_deliver(i, &t);
		PROP(i >= 0 && t.e_lblk == vf_rx.e_lblk && t.e_pblk == vf_rx.e_pblk && t.e_len == vf_rx.e_len &&
		     ((t.e_flags ^ vf_rx.e_flags) & EXT2_EXTENT_FLAGS_UNINIT) == 0, "*right_ext describes the extent holding the block right of the range");
#endif
	}
	VF_END();
	return 0;
}
