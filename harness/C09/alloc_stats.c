/*
 * C09/alloc_stats: the allocation accounting of the REAL lib/ext2fs/alloc_stats.c
 *   OP 1  ext2fs_block_alloc_stats2(blk, INUSE)            INUSE = +1 / -1 (compile time)
 *   OP 2  ext2fs_block_alloc_stats_range(blk, num, INUSE)
 *   OP 3  ext2fs_inode_alloc_stats2(ino, INUSE, isdir)
 * with the REAL group-descriptor / superblock accessors of blknum.c, over bitmaps that are one symbolic word each.
 *
 * Reference (from the on-disk meaning of the fields: bg_free_blocks_count = free blocks of the group, s_free_blocks_count =
 * free blocks of the filesystem, BLOCK_UNINIT = "bitmap of this group not initialised, all free"): for a block / range /
 * inode inside the filesystem, bitmap bit(s), the free count of exactly the group(s) holding them and the superblock total
 * move together by the number of blocks (inodes) concerned; BLOCK_UNINIT (INODE_UNINIT) of those groups is cleared and their
 * checksum re-set; nothing of any other group moves; super + bitmap are marked dirty.  Outside the filesystem: nothing changes.
 */
#define ext2fs_group_desc_csum_set stub_group_desc_csum_set
#include "lib/ext2fs/alloc_stats.c"
#include "env.c"

#define NB 12
#define G 4
#define NG 3
#define IPG 4
#ifndef INUSE
#define INUSE 1
#endif

struct vf_in {
	__u32 map, imap;
	unsigned char n, first, isdir;
	__u64 blk;
	__u32 num, ino;
	__u16 bfree[NG], ifree[NG], dirs[NG], unused[NG], flags[NG];
	__u32 sb_bfree, sb_ifree;
};
VF_DECLARE_INPUT(struct vf_in, IN)
#include "vf_input.inc"

static struct struct_ext2_filsys vf_fs;
static struct ext2_super_block vf_sb;
static struct ext2_group_desc vf_gd[NG];
static struct { int d; } vf_bmapobj, vf_imapobj;
static __u32 vf_map, vf_imap;
static int vf_bad, vf_cb_calls, vf_cb_bad;
static unsigned vf_csum_groups;

/* STUB: the bitmap primitives (gen_bitmap64.c: decided under C16) set / clear bits of one word per bitmap; defined under their real names because the inline wrappers of bitops.h call them */
int ext2fs_mark_generic_bmap(ext2fs_generic_bitmap bitmap, __u64 arg)
{
	int old;
	if ((void *) bitmap == (void *) &vf_bmapobj) { if (arg >= NB) { vf_bad = 1; return 0; } old = (vf_map >> arg) & 1; vf_map |= 1u << arg; return old; }
	if ((void *) bitmap == (void *) &vf_imapobj) { if (arg > NG * IPG) { vf_bad = 1; return 0; } old = (vf_imap >> arg) & 1; vf_imap |= 1u << arg; return old; }
	vf_bad = 1; return 0;
}
int ext2fs_unmark_generic_bmap(ext2fs_generic_bitmap bitmap, __u64 arg)
{
	int old;
	if ((void *) bitmap == (void *) &vf_bmapobj) { if (arg >= NB) { vf_bad = 1; return 0; } old = (vf_map >> arg) & 1; vf_map &= ~(1u << arg); return old; }
	if ((void *) bitmap == (void *) &vf_imapobj) { if (arg > NG * IPG) { vf_bad = 1; return 0; } old = (vf_imap >> arg) & 1; vf_imap &= ~(1u << arg); return old; }
	vf_bad = 1; return 0;
}
void ext2fs_mark_block_bitmap_range2(ext2fs_block_bitmap bitmap, blk64_t block, unsigned int num)
{
	unsigned b;
	if ((void *) bitmap != (void *) &vf_bmapobj || block + num > NB) { vf_bad = 1; return; }
	for (b = 0; b < NB; b++) if (b >= block && b < block + num) vf_map |= 1u << b;
}
void ext2fs_unmark_block_bitmap_range2(ext2fs_block_bitmap bitmap, blk64_t block, unsigned int num)
{
	unsigned b;
	if ((void *) bitmap != (void *) &vf_bmapobj || block + num > NB) { vf_bad = 1; return; }
	for (b = 0; b < NB; b++) if (b >= block && b < block + num) vf_map &= ~(1u << b);
}
/* STUB: ext2fs_group_desc_csum_set records the group */
void stub_group_desc_csum_set(ext2_filsys fs, dgrp_t group)
{
	if (fs != &vf_fs || group >= NG) { vf_bad = 1; return; }
	vf_csum_groups |= 1u << group;
}
#ifdef WITH_CB
static void stub_cb_single(ext2_filsys fs, blk64_t blk, int inuse)
{ (void) fs; vf_cb_calls++; if (blk != IN.blk || inuse != INUSE) vf_cb_bad = 1; }
static void stub_cb_range(ext2_filsys fs, blk64_t blk, blk_t num, int inuse)
{ (void) fs; vf_cb_calls++; if (blk != IN.blk || num != IN.num || inuse != INUSE) vf_cb_bad = 1; }
#endif

int main(void)
{
	int i, g;
	unsigned b, ng;
	VF_INPUT(IN);
	/* BOUND: 2..12 blocks in groups of 4, s_first_data_block 0 / 1, up to 3 groups of 4 inodes, cluster ratio 1, 32-byte descriptors with group checksums; bitmap words, all counters and flags of every group, the superblock totals, block / range / inode number (64 / 32 bit) symbolic */
	ASSUME(IN.n >= 2 && IN.n <= NB && IN.first <= 1 && IN.isdir <= 1);
	ASSUME(IN.map >> NB == 0);
	vf_map = IN.map; vf_imap = IN.imap;
	vf_sb.s_blocks_count = IN.n;
	vf_sb.s_first_data_block = IN.first;
	vf_sb.s_blocks_per_group = G;
	vf_sb.s_inodes_per_group = IPG;
	vf_sb.s_feature_ro_compat = EXT4_FEATURE_RO_COMPAT_GDT_CSUM;
	vf_sb.s_free_blocks_count = IN.sb_bfree;
	vf_sb.s_free_inodes_count = IN.sb_ifree;
	ng = (IN.n - IN.first + G - 1u) / G;
	vf_sb.s_inodes_count = ng * IPG;
	vf_fs.magic = EXT2_ET_MAGIC_EXT2FS_FILSYS;
	vf_fs.super = &vf_sb;
	vf_fs.blocksize = 1024;
	vf_fs.flags = EXT2_FLAG_RW;
	vf_fs.block_map = (ext2fs_block_bitmap) &vf_bmapobj;
	vf_fs.inode_map = (ext2fs_inode_bitmap) &vf_imapobj;
	vf_fs.group_desc = (struct opaque_ext2_group_desc *) vf_gd;
	vf_fs.group_desc_count = ng;
#ifdef WITH_CB
	vf_fs.block_alloc_stats = stub_cb_single;
	vf_fs.block_alloc_stats_range = stub_cb_range;
#endif
	for (i = 0; i < NG; i++) {
		vf_gd[i].bg_free_blocks_count = IN.bfree[i];
		vf_gd[i].bg_free_inodes_count = IN.ifree[i];
		vf_gd[i].bg_used_dirs_count = IN.dirs[i];
		vf_gd[i].bg_itable_unused = IN.unused[i];
		vf_gd[i].bg_flags = IN.flags[i];
		ASSUME(IN.unused[i] <= IPG);
	}

#if OP == 1
	ext2fs_block_alloc_stats2(&vf_fs, IN.blk, INUSE);
	{
		int inside = IN.blk >= IN.first && IN.blk < IN.n;
		for (b = 0; b < NB; b++)
			PROP(((vf_map >> b) & 1) == ((inside && b == IN.blk) ? (INUSE > 0) : ((IN.map >> b) & 1)), "exactly the block's bit takes the new state");
		for (g = 0; g < NG; g++) {
			int mine = inside && (unsigned) g < ng && IN.blk >= IN.first + (unsigned) g * G && IN.blk < IN.first + ((unsigned) g + 1) * G;
			PROP(vf_gd[g].bg_free_blocks_count == (__u16) (IN.bfree[g] - (mine ? INUSE : 0)), "the free count of exactly the block's group moves by one");
			PROP(vf_gd[g].bg_flags == (mine ? (IN.flags[g] & ~EXT2_BG_BLOCK_UNINIT) : IN.flags[g]), "BLOCK_UNINIT of exactly that group is cleared, no other flag moves");
			PROP(((vf_csum_groups >> g) & 1) == mine, "the checksum of exactly that group is re-set");
		}
		PROP(vf_sb.s_free_blocks_count == IN.sb_bfree - (inside ? INUSE : 0), "the superblock total moves with it");
		if (inside) PROP((vf_fs.flags & EXT2_FLAG_DIRTY) && (vf_fs.flags & EXT2_FLAG_BB_DIRTY), "super and block bitmap are marked dirty");
		else PROP(vf_fs.flags == EXT2_FLAG_RW, "a block outside the filesystem changes nothing");
#ifdef WITH_CB
		PROP(vf_cb_calls == inside && !vf_cb_bad, "the registered callback sees the block and direction once");
#endif
	}
#elif OP == 2
	/* ASSUME: callers pass non-empty ranges that start at or after s_first_data_block, block numbers below 2^32 (the function only checks the upper end, in 64-bit arithmetic) */
	ASSUME(IN.blk >= IN.first && IN.num >= 1 && IN.blk < 0xFFFFFFFFULL);
	ext2fs_block_alloc_stats_range(&vf_fs, IN.blk, IN.num, INUSE);
	{
		int inside = IN.blk + IN.num <= IN.n;
		for (b = 0; b < NB; b++)
			PROP(((vf_map >> b) & 1) == ((inside && b >= IN.blk && b < IN.blk + IN.num) ? (INUSE > 0) : ((IN.map >> b) & 1)), "exactly the bits of the range take the new state");
		for (g = 0; g < NG; g++) {
			int cnt = 0;
			for (b = 0; b < NB; b++)
				if (inside && b >= IN.blk && b < IN.blk + IN.num && b >= IN.first + (unsigned) g * G && b < IN.first + ((unsigned) g + 1) * G) cnt++;
			PROP(vf_gd[g].bg_free_blocks_count == (__u16) (IN.bfree[g] - INUSE * cnt), "each group's free count moves by the blocks of the range it holds");
			PROP(vf_gd[g].bg_flags == (cnt ? (IN.flags[g] & ~EXT2_BG_BLOCK_UNINIT) : IN.flags[g]), "BLOCK_UNINIT of exactly the groups touched is cleared");
			PROP(((vf_csum_groups >> g) & 1) == (cnt > 0), "the checksum of exactly the groups touched is re-set");
		}
		PROP(vf_sb.s_free_blocks_count == IN.sb_bfree - (inside ? INUSE * (int) IN.num : 0), "the superblock total moves by the length of the range");
		if (inside) PROP((vf_fs.flags & EXT2_FLAG_DIRTY) && (vf_fs.flags & EXT2_FLAG_BB_DIRTY), "super and block bitmap are marked dirty");
		else PROP(vf_fs.flags == EXT2_FLAG_RW, "a range beyond the filesystem changes nothing");
#ifdef WITH_CB
		PROP(vf_cb_calls == inside && !vf_cb_bad, "the registered range callback sees the range (start, length, direction) once");
#endif
	}
#elif OP == 3
	/* ASSUME: inode numbers start at 1 */
	ASSUME(IN.ino >= 1);
	ext2fs_inode_alloc_stats2(&vf_fs, IN.ino, INUSE, IN.isdir);
	{
		int inside = IN.ino <= ng * IPG;
		for (b = 0; b <= NG * IPG; b++)
			PROP(((vf_imap >> b) & 1) == ((inside && b == IN.ino) ? (INUSE > 0) : ((IN.imap >> b) & 1)), "exactly the inode's bit takes the new state");
		for (g = 0; g < NG; g++) {
			int mine = inside && IN.ino >= (unsigned) g * IPG + 1 && IN.ino <= ((unsigned) g + 1) * IPG;
			unsigned after = ((unsigned) g + 1) * IPG - IN.ino;	/* inodes of the group behind this one */
			PROP(vf_gd[g].bg_free_inodes_count == (__u16) (IN.ifree[g] - (mine ? INUSE : 0)), "the free-inode count of exactly the inode's group moves by one");
			PROP(vf_gd[g].bg_used_dirs_count == (__u16) (IN.dirs[g] + ((mine && IN.isdir) ? INUSE : 0)), "the directory count moves iff it is a directory");
			PROP(vf_gd[g].bg_flags == (mine ? (IN.flags[g] & ~EXT2_BG_INODE_UNINIT) : IN.flags[g]), "INODE_UNINIT of exactly that group is cleared");
			PROP(vf_gd[g].bg_itable_unused == ((mine && after < IN.unused[g]) ? after : IN.unused[g]), "itable_unused shrinks to the inodes behind the one touched, never grows");
			PROP(((vf_csum_groups >> g) & 1) == mine, "the checksum of exactly that group is re-set");
			PROP(vf_gd[g].bg_free_blocks_count == IN.bfree[g], "block counts are not touched");
		}
		PROP(vf_sb.s_free_inodes_count == IN.sb_ifree - (inside ? INUSE : 0), "the superblock inode total moves with it");
		if (inside) PROP((vf_fs.flags & EXT2_FLAG_DIRTY) && (vf_fs.flags & EXT2_FLAG_IB_DIRTY), "super and inode bitmap are marked dirty");
		else PROP(vf_fs.flags == EXT2_FLAG_RW, "an inode beyond the filesystem changes nothing");
	}
#else
#error OP
#endif
	PROP(!vf_bad, "bitmap primitives are called on the filesystem's own bitmaps inside their range");
	VF_END();
	return 0;
}
