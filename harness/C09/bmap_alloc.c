/*
 * C09/bmap_alloc: on-demand allocation through a BLOCK-MAPPED inode: the REAL ext2fs_bmap2 / block_ind_bmap /
 * block_dind_bmap / block_tind_bmap (bmap.c) with BMAP_ALLOC (OP 1), BMAP_ALLOC|BMAP_SET (OP 2) and plain lookup
 * (OP 0), allocating through the REAL ext2fs_alloc_block3 / ext2fs_alloc_block (alloc.c, get_alloc_block callback
 * installed: the documented hook e2fsck uses) and accounting through the REAL ext2fs_iblk_add_blocks (i_block.c), over a
 * small REAL disk: ND blocks of A = 4 addresses each with SYMBOLIC contents.
 *
 * Reference = the indirect addressing of the on-disk format (Documentation/filesystems/ext4/ifork.rst), as bmap_ind:
 *   l < 12 -> i_block[l];  then i_block[12] : slot;  i_block[13] : slot : slot;  i_block[14] : slot : slot : slot.
 * ref_walk() follows that path on a disk image.  Claim for one call from an arbitrary tree:
 *   - the chain of the target block is complete afterwards; the part that existed is unchanged, the missing part
 *     (everything below the first hole, including missing mapping blocks) consists of exactly the blocks the allocator
 *     handed out, one allocation per missing position, none when the block was already mapped / on a lookup;
 *   - the block returned is what the format's path now yields (OP 2: the block given);
 *   - disk afterwards: a new mapping block is zero except the one slot of the path, a new data block is zero, the existing
 *     parent of the first new block changed in exactly that slot, EVERY other block of the disk is byte-identical;
 *     i_block[] changed in at most the one slot of the path; so a second, arbitrary logical block (probe) maps as before;
 *   - i_blocks grows by exactly the number of blocks allocated (data + mapping blocks); the inode is written iff
 *     something changed, and the image written is the final one; every allocated block is reported in use exactly once,
 *     after it was zeroed on disk.
 */
#define ext2fs_write_inode stub_write_inode
#define ext2fs_read_inode stub_read_inode
#define ext2fs_block_alloc_stats2 stub_block_alloc_stats2
#define ext2fs_zero_blocks2 stub_zero_blocks2
#define ext2fs_read_block_bitmap stub_read_block_bitmap
#define ext2fs_is_fast_symlink stub_is_fast_symlink
#include "lib/ext2fs/bmap.c"
#include "lib/ext2fs/alloc.c"
#include "env.c"

#define OP_LOOKUP 0
#define OP_ALLOC 1
#define OP_SETALLOC 2
#define ABITS 2
#define NA 4			/* addresses per block (fs->blocksize 16) */
#define A ((__u64) NA)
#ifndef ND
#define ND 12			/* disk blocks 0..ND-1 (0 = hole, never accessed) */
#endif
#define NF 4			/* most allocations of one call: triple + double + single indirect + data */
#define POISON(j) (0xDEAD0000u + (j))

struct vf_in {
	__u64 block, probe;
	unsigned char dir[12];
	unsigned char ind, dind, tind;
	unsigned char disk[ND][NA];
	unsigned char fresh[NF];
	__u32 i_blocks;
	__u16 i_blocks_hi;
	__u32 newblk;
};
VF_DECLARE_INPUT(struct vf_in, IN)
#include "vf_input.inc"

static blk_t vf_bb[2 * NA + 2];	/* block_buf: 2 blocks, + 2 guard words */
static blk_t vf_disk[ND][NA], vf_pre[ND][NA];
static int vf_reads, vf_writes, vf_bad, vf_inode_writes, vf_hook_calls, vf_stats_calls, vf_stats_bad;
static struct ext2_inode vf_written;
static struct struct_io_channel vf_chan;
static struct struct_ext2_filsys vf_fs;
static struct ext2_super_block vf_sb;
static struct ext2_inode vf_inode;

/* STUB: io channel read_blk/write_blk move one whole block between the caller's buffer and the disk array; block 0 and blocks >= ND are flagged */
static errcode_t vf_read_blk(io_channel ch, unsigned long blk, int count, void *data)
{
	blk_t *w = data;
	unsigned b; int j;
	(void) ch;
	if (count != 1 || blk == 0 || blk >= ND || w != vf_bb) vf_bad = 1;
	vf_reads++;
	for (b = 1; b < ND; b++)
		if (b == blk)
			for (j = 0; j < NA; j++) w[j] = vf_disk[b][j];
	return 0;
}
static errcode_t vf_write_blk(io_channel ch, unsigned long blk, int count, const void *data)
{
	const blk_t *w = data;
	unsigned b; int j;
	(void) ch;
	if (count != 1 || blk == 0 || blk >= ND || (w != vf_bb && w != vf_bb + NA)) vf_bad = 1;
	vf_writes++;
	for (b = 1; b < ND; b++)
		if (b == blk)
			for (j = 0; j < NA; j++) vf_disk[b][j] = w[j];
	return 0;
}
static struct struct_io_manager vf_mgr = {
	.magic = EXT2_ET_MAGIC_IO_MANAGER, .name = "vf",
	.read_blk = vf_read_blk, .write_blk = vf_write_blk,
};
/* STUB: the allocator proper is the get_alloc_block callback: it hands out the next of NF symbolic blocks, assumed unused by the file (the search itself is decided by alloc_search) */
static errcode_t stub_get_alloc_block(ext2_filsys fs, blk64_t goal, blk64_t *ret)
{
	int k;
	(void) fs; (void) goal;
	*ret = 0;
	for (k = 0; k < NF; k++)
		if (k == vf_hook_calls) *ret = IN.fresh[k];
	if (vf_hook_calls >= NF) vf_bad = 1;
	vf_hook_calls++;
	return 0;
}
/* STUB: ext2fs_block_alloc_stats2 checks that the k-th block reported in use is the k-th block handed out, +1, and already zero on disk (alloc_stats.c is decided by alloc_stats) */
void stub_block_alloc_stats2(ext2_filsys fs, blk64_t blk, int inuse)
{
	int k; unsigned b; int j;
	(void) fs;
	if (inuse != 1 || vf_stats_calls != vf_hook_calls - 1) vf_stats_bad = 1;
	for (k = 0; k < NF; k++)
		if (k == vf_stats_calls && blk != IN.fresh[k]) vf_stats_bad = 1;
	for (b = 1; b < ND; b++)
		if (b == blk)
			for (j = 0; j < NA; j++)
				if (vf_disk[b][j] != 0) vf_stats_bad = 1;
	vf_stats_calls++;
}
/* STUB: ext2fs_write_inode stores the inode image; ext2fs_read_inode / ext2fs_zero_blocks2 / ext2fs_read_block_bitmap must not be reached (inode and block_buf are passed in, the callback allocates) */
errcode_t stub_write_inode(ext2_filsys fs, ext2_ino_t ino, struct ext2_inode *inode)
{
	(void) fs;
	if (ino != 12) vf_bad = 1;
	vf_written = *inode;
	vf_inode_writes++;
	return 0;
}
errcode_t stub_read_inode(ext2_filsys fs, ext2_ino_t ino, struct ext2_inode *inode)
{ (void) fs; (void) ino; (void) inode; vf_bad = 1; return 0; }
errcode_t stub_zero_blocks2(ext2_filsys fs, blk64_t blk, int num, blk64_t *ret_blk, int *ret_count)
{ (void) fs; (void) blk; (void) num; (void) ret_blk; (void) ret_count; vf_bad = 1; return 0; }
errcode_t stub_read_block_bitmap(ext2_filsys fs) { (void) fs; vf_bad = 1; return 0; }
/* STUB: ext2fs_is_fast_symlink answers 0 (the inode is a regular file); ext2fs_find_inode_goal itself is the real one (its value is only a hint handed to the callback) */
int stub_is_fast_symlink(struct ext2_inode *inode) { (void) inode; return 0; }
/* STUB: ext2fs_extent_free(NULL) is a no-op (ext2fs_find_inode_goal calls it with the NULL handle of a block-mapped inode); any other handle is flagged */
void ext2fs_extent_free(ext2_extent_handle_t handle) { if (handle) vf_bad = 1; }

/* ---- reference ---- */
struct ref_path { int level; unsigned s[3]; };

static void ref_addr(__u64 l, struct ref_path *p)
{
	p->s[0] = p->s[1] = p->s[2] = 0;
	if (l < 12) { p->level = 0; p->s[0] = (unsigned) l; }
	else if (l - 12 < A) { p->level = 1; p->s[0] = (unsigned) (l - 12); }
	else if (l - 12 - A < A * A) { __u64 r = l - 12 - A; p->level = 2; p->s[0] = (unsigned) (r / A); p->s[1] = (unsigned) (r % A); }
	else if (l - 12 - A - A * A < A * A * A) {
		__u64 r = l - 12 - A - A * A;
		p->level = 3; p->s[0] = (unsigned) (r / (A * A)); p->s[1] = (unsigned) ((r / A) % A); p->s[2] = (unsigned) (r % A);
	} else p->level = -1;
}
static blk_t ref_slot(blk_t d[ND][NA], blk_t b, unsigned s)
{
	blk_t r = 0; unsigned x, j;
	for (x = 1; x < ND; x++)
		for (j = 0; j < NA; j++)
			if (x == b && j == s) r = d[x][j];
	return r;
}
/* chain[0] = the i_block slot of the path, chain[k] = slot s[k-1] of chain[k-1] (0 below a hole); the block mapped is chain[level] (chain[0] for a direct block) */
static void ref_walk(const __u32 *ib, blk_t d[ND][NA], const struct ref_path *p, blk_t chain[4])
{
	int k; unsigned i;
	chain[0] = chain[1] = chain[2] = chain[3] = 0;
	if (p->level == 0) {
		for (i = 0; i < 12; i++) if (i == p->s[0]) chain[0] = ib[i];
		return;
	}
	chain[0] = p->level == 1 ? ib[12] : p->level == 2 ? ib[13] : ib[14];
	for (k = 0; k < 3; k++)
		if (k < p->level)
			chain[k + 1] = chain[k] ? ref_slot(d, chain[k], p->s[k]) : 0;
}
static blk_t ref_mapped(const struct ref_path *p, const blk_t chain[4])
{
	return p->level <= 0 ? chain[0] : p->level == 1 ? chain[1] : p->level == 2 ? chain[2] : chain[3];
}

int main(void)
{
	errcode_t rc;
	blk64_t phys;
	int ret_flags = 77, i, j, k, m, nalloc, nlink, isfresh;
	unsigned b;
	struct ref_path tp, pp;
	blk_t tc[4], pc[4], tc2[4], pc2[4];
	__u32 ib0[15];
	__u64 ib_pre, ib_post;

	VF_INPUT(IN);
	/* BOUND: 4 addresses per block (fs->blocksize 16, unphysical: the mapping code only uses fs->blocksize), disk of ND = 12 blocks, every block pointer on disk and in i_block[] is 0 or < ND; target and probe: any logical block inside the triple-indirect range (12+4+16+64 = 96 blocks); huge_file + EXT4_HUGE_FILE_FL so that i_blocks counts filesystem blocks (16/512 would be 0) */
	for (i = 0; i < 12; i++) { ASSUME(IN.dir[i] < ND); vf_inode.i_block[i] = IN.dir[i]; }
	ASSUME(IN.ind < ND && IN.dind < ND && IN.tind < ND);
	vf_inode.i_block[12] = IN.ind; vf_inode.i_block[13] = IN.dind; vf_inode.i_block[14] = IN.tind;
	for (b = 0; b < ND; b++)
		for (j = 0; j < NA; j++) { ASSUME(IN.disk[b][j] < ND); vf_disk[b][j] = vf_pre[b][j] = IN.disk[b][j]; }
	for (i = 0; i < 15; i++) ib0[i] = vf_inode.i_block[i];
	vf_inode.i_mode = 0100644;
	vf_inode.i_flags = EXT4_HUGE_FILE_FL;
	vf_inode.i_blocks = IN.i_blocks;
	vf_inode.osd2.linux2.l_i_blocks_hi = IN.i_blocks_hi;
	ASSUME(IN.i_blocks_hi < 0xFFFF);
	vf_sb.s_log_block_size = 0;
	vf_sb.s_blocks_count = 0xFFFFFFFF;
	vf_sb.s_inodes_per_group = 16;
	vf_sb.s_blocks_per_group = 8;
	vf_sb.s_feature_ro_compat = EXT4_FEATURE_RO_COMPAT_HUGE_FILE;
	vf_fs.magic = EXT2_ET_MAGIC_EXT2FS_FILSYS;
	vf_fs.super = &vf_sb;
	vf_fs.blocksize = 4 * NA;
	vf_fs.flags = EXT2_FLAG_RW;
	vf_fs.get_alloc_block = stub_get_alloc_block;
	vf_chan.magic = EXT2_ET_MAGIC_IO_CHANNEL;
	vf_chan.manager = &vf_mgr;
	vf_chan.block_size = 4 * NA;
	vf_fs.io = &vf_chan;
	for (j = 0; j < 2 * NA + 2; j++) vf_bb[j] = POISON(j);

	ref_addr(IN.block, &tp);
	ref_addr(IN.probe, &pp);
	ASSUME(tp.level >= 0 && pp.level >= 0 && IN.probe != IN.block);
#ifdef LEVEL
	ASSUME(tp.level == LEVEL);
#endif
	ref_walk(ib0, vf_pre, &tp, tc);
	ref_walk(ib0, vf_pre, &pp, pc);
	/* ASSUME: tree invariant on the two paths looked at: the blocks along the target's path are pairwise distinct, likewise the probe's; a block on both paths sits at the same tree position (same level, depth and slot prefix) */
	for (i = 0; i < 4; i++)
		for (j = 0; j < 4; j++) {
			if (i < j && i <= tp.level && j <= tp.level && tc[i]) ASSUME(tc[i] != tc[j]);
			if (i < j && i <= pp.level && j <= pp.level && pc[i]) ASSUME(pc[i] != pc[j]);
			if (i <= tp.level && j <= pp.level && tp.level >= 1 && pp.level >= 1 && tc[i] && tc[i] == pc[j]) {
				int same = tp.level == pp.level && i == j;
				for (k = 0; k < 3; k++)
					if (k < i && tp.s[k] != pp.s[k]) same = 0;
				ASSUME(same);
			}
		}
	/* a direct probe block that is also a mapping block of the target path would be a cross-linked file */
	if (pp.level == 0 && tp.level >= 1)
		for (i = 0; i < 3; i++) if (i < tp.level && tc[i]) ASSUME(pc[0] != tc[i]);
	if (tp.level == 0 && pp.level >= 1)
		for (i = 0; i < 3; i++) if (i < pp.level && pc[i]) ASSUME(tc[0] != pc[i]);
	/* ASSUME: the allocator hands out blocks 1..ND-1 that are pairwise distinct and on neither path (a free block belongs to no file) */
	for (k = 0; k < NF; k++) {
		ASSUME(IN.fresh[k] >= 1 && IN.fresh[k] < ND);
		for (j = 0; j < k; j++) ASSUME(IN.fresh[k] != IN.fresh[j]);
		for (i = 0; i < 4; i++) {
			if (i <= tp.level) ASSUME(IN.fresh[k] != tc[i]);
			if (i <= pp.level) ASSUME(IN.fresh[k] != pc[i]);
		}
	}
	/* m = first missing position of the target's chain (level+1: none) */
	m = tp.level + 1;
	for (i = 3; i >= 0; i--) if (i <= tp.level && tc[i] == 0) m = i;

#if OP == OP_LOOKUP
	phys = 0x1234;
	rc = ext2fs_bmap2(&vf_fs, 12, &vf_inode, (char *) vf_bb, 0, IN.block, &ret_flags, &phys);
	nalloc = 0; nlink = 0;
#elif OP == OP_ALLOC
	phys = 0x1234;
	rc = ext2fs_bmap2(&vf_fs, 12, &vf_inode, (char *) vf_bb, BMAP_ALLOC, IN.block, &ret_flags, &phys);
	nalloc = tp.level + 1 - m;		/* every position from the first hole down to the data block */
	nlink = nalloc;
#elif OP == OP_SETALLOC
	ASSUME(IN.newblk < ND);
	phys = IN.newblk;
	rc = ext2fs_bmap2(&vf_fs, 12, &vf_inode, (char *) vf_bb, BMAP_ALLOC | BMAP_SET, IN.block, &ret_flags, &phys);
	nalloc = m < tp.level ? tp.level - m : 0;	/* only missing mapping blocks; the data slot takes the block given */
	nlink = nalloc;
#else
#error OP
#endif
	PROP(rc == 0, "the call succeeds");
	PROP(ret_flags == 0, "no flags for a block-mapped file");
	PROP(!vf_bad, "I/O is whole blocks 1..ND-1 through block_buf; the inode passed in is used; nothing but the callback allocates");
	PROP(vf_bb[2 * NA] == POISON(2 * NA) && vf_bb[2 * NA + 1] == POISON(2 * NA + 1), "block_buf is not overrun");
	PROP(vf_hook_calls == nalloc, "one allocation per missing position of the path, none otherwise");
	PROP(vf_stats_calls == nalloc && !vf_stats_bad, "every allocated block is reported in use once, in order, after being zeroed on disk");

	/* ---- state afterwards, by the format ---- */
	ref_walk(vf_inode.i_block, vf_disk, &tp, tc2);
	ref_walk(vf_inode.i_block, vf_disk, &pp, pc2);
	for (i = 0; i < 4; i++)
		if (i <= tp.level) {
			if (i < m && !(OP == OP_SETALLOC && i == tp.level))
				PROP(tc2[i] == tc[i], "the existing part of the path is unchanged");
			for (k = 0; k < NF; k++)
				if (i >= m && k == i - m && k < nalloc)
					PROP(tc2[i] == IN.fresh[k], "the missing part of the path consists of the blocks handed out, top down");
		}
#if OP == OP_SETALLOC
	PROP(ref_mapped(&tp, tc2) == IN.newblk && phys == IN.newblk, "set: the target now maps to the block given");
#elif OP == OP_ALLOC
	PROP(phys == ref_mapped(&tp, tc2) && phys != 0, "alloc: the block returned is what the target maps to afterwards, not a hole");
	if (m > tp.level) PROP(phys == ref_mapped(&tp, tc), "alloc of a mapped block returns the existing mapping");
#else
	PROP(phys == ref_mapped(&tp, tc), "lookup returns the format's mapping");
#endif
	PROP(ref_mapped(&pp, pc2) == ref_mapped(&pp, pc), "every other logical block maps as before");

	/* disk frame */
	for (b = 1; b < ND; b++) {
		isfresh = -1;
		for (k = 0; k < NF; k++) if (k < nalloc && b == IN.fresh[k]) isfresh = k;
		for (j = 0; j < NA; j++) {
			blk_t want = vf_pre[b][j];
			if (isfresh >= 0) {
				want = 0;
				/* new block at chain position m+isfresh: a mapping block iff that position < level; its path slot holds the next chain block */
				for (i = 0; i < 3; i++)
					if (i == m + isfresh && i < tp.level && (unsigned) j == tp.s[i]) want = tc2[i + 1];
			} else if (tp.level >= 1) {
				/* the existing mapping block that received the first new pointer (ALLOC: position m-1 when 1 <= m <= level; SETALLOC: also the leaf slot when the whole chain existed) */
				for (i = 0; i < 3; i++)
					if (i < tp.level && tc[i] && b == tc[i] && (unsigned) j == tp.s[i] && i < m
					    && (i + 1 == m || (OP == OP_SETALLOC && i + 1 == tp.level)))
						want = tc2[i + 1];
			}
			PROP(vf_disk[b][j] == want, "disk: new blocks are zero but for the path slot, the parent changes in that slot only, everything else is untouched");
		}
	}
	(void) nlink;
	/* inode */
	for (i = 0; i < 15; i++) {
		__u32 want = ib0[i];
		if (tp.level == 0 && (unsigned) i == tp.s[0]) want = tc2[0];
		if (tp.level >= 1 && i == 11 + tp.level) want = tc2[0];
		PROP(vf_inode.i_block[i] == want, "i_block[]: only the slot of the path may change");
	}
	if (tp.level >= 1) PROP(m == 0 || tc2[0] == tc[0], "an existing root mapping block stays");
	ib_pre = ((__u64) IN.i_blocks_hi << 32) | IN.i_blocks;
	ib_post = ((__u64) vf_inode.osd2.linux2.l_i_blocks_hi << 32) | vf_inode.i_blocks;
	PROP(ib_post == ib_pre + (__u64) nalloc, "i_blocks grows by exactly the blocks allocated (data + mapping blocks)");
	{
		int changed = nalloc > 0 || (OP == OP_SETALLOC && tp.level == 0);
		PROP(vf_inode_writes == changed, "the inode is written iff it changed");
		if (changed) {
			for (i = 0; i < 15; i++) PROP(vf_written.i_block[i] == vf_inode.i_block[i], "the inode image written is the final one");
			PROP(vf_written.i_blocks == vf_inode.i_blocks && vf_written.osd2.linux2.l_i_blocks_hi == vf_inode.osd2.linux2.l_i_blocks_hi, "the inode image written carries the final i_blocks");
		}
	}
	if (nalloc == 0 && OP != OP_SETALLOC) PROP(vf_writes == 0, "nothing is written when nothing is allocated");
	VF_END();
	return 0;
}
