/*
 * C13/ro_mmp: the multi-mount-protection entry points on a handle opened WITHOUT
 * EXT2_FLAG_RW (ext2fs_open2 calls ext2fs_mmp_start for RW *or* EXCLUSIVE opens;
 * ext2fs_close2 always calls ext2fs_mmp_stop; e2fsck calls ext2fs_mmp_update
 * from its progress path whatever the mode).
 *
 * For every MMP block content (sequence numbers, intervals, magic), every other
 * flag bit and every superblock MMP field: no modifying io entry point is
 * reached, the private descriptor MMP uses for its O_DIRECT reads is opened
 * with access mode O_RDONLY, and the result is the documented one
 * (stop/update: 0; clear: EXT2_ET_RO_FILSYS; start: never "MMP acquired").
 */
#include <unistd.h>
#include <sys/time.h>
#include <sys/types.h>
#include <sys/stat.h>
#include <fcntl.h>
#include <stdlib.h>
#include <string.h>
#include "config.h"
#include "ext2fs/ext2_fs.h"
#include "ext2fs/ext2fs.h"

/* the libc entry points mmp.c reaches, renamed to the environment model below */
#define open(p, f, ...) vf_open2(p, f)
#define stat(p, b) vf_stat(p, b)
#define read(f, b, n) vf_read(f, b, n)
#define close(f) vf_close(f)
#define sleep(s) vf_sleep(s)
#define gethostname(n, l) vf_gethostname(n, l)
#define getpid() vf_getpid()
#define getuid() vf_getuid()
#define srandom(s) vf_srandom(s)
#define random() vf_random()
#define gettimeofday(t, z) vf_gettimeofday(t, z)
#define ext2fs_llseek(f, o, w) vf_llseek(f, o, w)
int vf_open2(const char *path, int oflags);
int vf_stat(const char *path, struct stat *st);
ssize_t vf_read(int fd, void *buf, size_t n);
int vf_close(int fd);
unsigned int vf_sleep(unsigned int s);
int vf_gethostname(char *name, size_t len);
int vf_getpid(void);
unsigned int vf_getuid(void);
void vf_srandom(unsigned int seed);
long vf_random(void);
int vf_gettimeofday(struct timeval *tv, void *tz);
ext2_loff_t vf_llseek(int fd, ext2_loff_t off, int whence);
#include "lib/ext2fs/mmp.c"

#ifndef OP
#define OP 1
#endif

struct vf_in {
	unsigned int flags;
	unsigned char mmp0[1024], mmp1[1024];	/* what the device holds at the 1st / later reads */
	unsigned char buf[1024], cmp[1024];	/* in-core copies (fs->mmp_buf / fs->mmp_cmp) */
	unsigned char fd_open;
	unsigned char immediately;
	__u32 feature_incompat;
	__u64 mmp_block;
	__u16 interval;
	long last_written;
	unsigned char isreg;
};
VF_DECLARE_INPUT(struct vf_in, IN)
#include "vf_input.inc"

#include "ro_common.h"

static int vf_nopen, vf_open_not_rdonly, vf_nsysread, vf_nclose, vf_nsleep;
static unsigned char vf_mmpbuf[1024] __attribute__((aligned(8)));
static unsigned char vf_mmpcmp[1024] __attribute__((aligned(8)));

/* STUB: open() of the device records whether the access mode is O_RDONLY and returns descriptor 7; stat() reports a regular file or a block device (symbolic) */
int vf_open2(const char *path, int oflags)
{
	(void) path;
	vf_nopen++;
	if ((oflags & O_ACCMODE) != O_RDONLY)
		vf_open_not_rdonly = 1;
	return 7;
}
int vf_stat(const char *path, struct stat *st)
{
	(void) path;
	st->st_mode = IN.isreg ? (S_IFREG | 0600) : (S_IFBLK | 0600);
	return 0;
}
/* STUB: lseek succeeds; read() of the MMP block delivers the symbolic block IN.mmp0 the first time, IN.mmp1 afterwards */
ext2_loff_t vf_llseek(int fd, ext2_loff_t off, int whence)
{
	(void) fd; (void) whence;
	return off;
}
ssize_t vf_read(int fd, void *buf, size_t n)
{
	(void) fd;
	if (vf_nsysread == 0)
		memcpy(buf, IN.mmp0, 1024);
	else
		memcpy(buf, IN.mmp1, 1024);
	vf_nsysread++;
	return (ssize_t) n;
}
int vf_close(int fd) { (void) fd; vf_nclose++; return 0; }
/* STUB: sleep returns at once; gethostname/getpid/getuid/random/gettimeofday are fixed; MMP checksum verify/set succeed (C14) */
unsigned int vf_sleep(unsigned int s) { (void) s; vf_nsleep++; return 0; }
int vf_gethostname(char *name, size_t len) { if (len) name[0] = 0; return 0; }
int vf_getpid(void) { return 100; }
unsigned int vf_getuid(void) { return 0; }
void vf_srandom(unsigned int seed) { (void) seed; }
long vf_random(void) { return 12345; }
int vf_gettimeofday(struct timeval *tv, void *tz)
{
	(void) tz;
	tv->tv_sec = 5000; tv->tv_usec = 0;
	return 0;
}
int ext2fs_mmp_csum_verify(ext2_filsys fs, struct mmp_struct *mmp) { (void) fs; (void) mmp; return 1; }
errcode_t ext2fs_mmp_csum_set(ext2_filsys fs, struct mmp_struct *mmp) { (void) fs; (void) mmp; return 0; }
int ext2fs_get_dio_alignment(int fd) { (void) fd; return 0; }

int main(void)
{
	errcode_t rc;
	unsigned int before;

	VF_INPUT(IN);
	vf_setup_fs(IN.flags, 128);
	vf_sb.s_feature_incompat = IN.feature_incompat;
	vf_sb.s_mmp_block = IN.mmp_block;
	vf_sb.s_mmp_update_interval = IN.interval;
	memcpy(vf_mmpbuf, IN.buf, 1024);
	memcpy(vf_mmpcmp, IN.cmp, 1024);
	vf_fs.mmp_buf = vf_mmpbuf;
	vf_fs.mmp_cmp = vf_mmpcmp;
	ASSUME(IN.fd_open <= 1 && IN.isreg <= 1);
	vf_fs.mmp_fd = IN.fd_open ? 7 : 0;
	vf_fs.mmp_last_written = IN.last_written;
	before = vf_fs.flags;

#if OP == 1
	rc = ext2fs_mmp_start(&vf_fs);
	/* "acquired" would be: sequence EXT4_MMP_SEQ_FSCK written; on a read-only handle the block is only inspected */
	PROP(rc == 0 || rc == EXT2_ET_MMP_BAD_BLOCK || rc == EXT2_ET_MMP_MAGIC_INVALID || rc == EXT2_ET_MMP_FSCK_ON ||
	     rc == EXT2_ET_MMP_UNKNOWN_SEQ || rc == EXT2_ET_MMP_FAILED,
	     "read-only handle: mmp_start only inspects (result is 0 or one of the read-side MMP errors)");
	PROP(vf_nsysread <= 2, "read-only handle: mmp_start reads the MMP block at most twice");
#elif OP == 2
	rc = ext2fs_mmp_stop(&vf_fs);
	PROP(rc == 0, "read-only handle: mmp_stop is a successful no-op");
	PROP(vf_nsysread == 0, "read-only handle: mmp_stop does not even read the MMP block");
	PROP(vf_fs.mmp_fd <= 0, "mmp_stop leaves no MMP descriptor open");
#elif OP == 3
	rc = ext2fs_mmp_update2(&vf_fs, IN.immediately);
	PROP(rc == 0 && vf_nsysread == 0, "read-only handle: mmp_update is a successful no-op");
#else
	rc = ext2fs_mmp_clear(&vf_fs);
	PROP(rc == EXT2_ET_RO_FILSYS, "read-only handle: mmp_clear is refused with EXT2_ET_RO_FILSYS");
#endif
	PROP(vf_nwrites == 0, "read-only handle: MMP code reaches no modifying io entry point");
	PROP(!vf_open_not_rdonly, "MMP's private descriptor is opened with access mode O_RDONLY");
	PROP(vf_fs.flags == before, "read-only handle: MMP code leaves fs->flags untouched");
	VF_END();
	return 0;
}
