/*
 * C13/close_ro: ext2fs_close2() on a handle opened WITHOUT EXT2_FLAG_RW whose
 * superblock was not marked dirty (EXT2_FLAG_DIRTY clear -- what every
 * non-modifying tool run leaves: see OUTSIDE below for the DIRTY case).
 *
 * For every other flag bit (BB_DIRTY/IB_DIRTY/CHANGED/SUPER_ONLY/... symbolic),
 * every io statistics value, every s_kbytes_written, in-core bitmaps present or
 * not: no modifying io entry point is reached, the in-core superblock is not
 * touched (no s_kbytes_written / s_wtime / s_state update that a later flush
 * could write), EXT2_FLAG_DIRTY is not switched on behind the caller's back,
 * and the result is 0 (handle freed) or EXT2_ET_RO_FILSYS from the bitmap
 * writer when the caller left bitmap dirty bits (handle kept).
 *
 * Real code: closefs.c (included), rw_bitmaps.c:ext2fs_write_bitmaps as
 * fs->write_bitmaps, mmp.c:ext2fs_mmp_stop.
 *
 * OUTSIDE: ext2fs_close2()/ext2fs_flush2() with EXT2_FLAG_DIRTY set on a read-only handle: the library does NOT test EXT2_FLAG_RW there and hands the superblock and descriptors to the io manager; the device stays unchanged only because the descriptor is O_RDONLY (harnesses unix_open_mode + unix_ro)
 */
#include "lib/ext2fs/closefs.c"

struct vf_in {
	unsigned int flags;
	int close_flags;
	unsigned char gd[64];
	unsigned char have_imap, have_bmap;
	__u32 feature_incompat, feature_ro_compat, feature_compat;
	__u64 kbytes_written;
	unsigned long long bytes_written;
	unsigned char stats_null;
	__u16 state;
	int mmp_fd;
};
VF_DECLARE_INPUT(struct vf_in, IN)
#include "vf_input.inc"

#include "ro_common.h"
#include "bm_stubs.h"

static struct struct_io_stats vf_stats;
static errcode_t stub_get_stats(io_channel ch, io_stats *st)
{
	(void) ch;
	*st = IN.stats_null ? 0 : &vf_stats;
	return 0;
}
/* STUB: ext2fs_free() records the flag word and the superblock fields at the moment the handle is released */
static int vf_freed;
static unsigned int vf_flags_at_free;
void ext2fs_free(ext2_filsys fs)
{
	vf_freed++;
	vf_flags_at_free = fs->flags;
}
/* STUB: superblock checksum setter succeeds (C14); close() of the MMP descriptor succeeds */
errcode_t ext2fs_superblock_csum_set(ext2_filsys fs, struct ext2_super_block *sb) { (void) fs; (void) sb; return 0; }
static int vf_nclose;
int close(int fd) { (void) fd; vf_nclose++; return 0; }

static struct ext2fs_struct_generic_bitmap_base vf_dummy_imap, vf_dummy_bmap;

int main(void)
{
	errcode_t rc;
	unsigned int before;
	int i, something;

	VF_INPUT(IN);
	vf_setup_fs(IN.flags, 128);
	for (i = 0; i < 64; i++)
		vf_gd[i] = IN.gd[i];
	vf_mgr.get_stats = stub_get_stats;
	vf_stats.bytes_written = IN.bytes_written;
	vf_sb.s_feature_incompat = IN.feature_incompat;
	vf_sb.s_feature_ro_compat = IN.feature_ro_compat;
	vf_sb.s_feature_compat = IN.feature_compat;
	vf_sb.s_desc_size = (IN.feature_incompat & EXT4_FEATURE_INCOMPAT_64BIT) ? 64 : 0;
	vf_sb.s_kbytes_written = IN.kbytes_written;
	vf_sb.s_state = IN.state;
	vf_sb.s_wtime = 77;
	ASSUME(IN.have_imap <= 1 && IN.have_bmap <= 1 && IN.stats_null <= 1);
	vf_fs.inode_map = IN.have_imap ? (ext2fs_inode_bitmap) &vf_dummy_imap : 0;
	vf_fs.block_map = IN.have_bmap ? (ext2fs_block_bitmap) &vf_dummy_bmap : 0;
	vf_fs.write_bitmaps = ext2fs_write_bitmaps;	/* what ext2fs_read_bitmaps installs */
	vf_fs.mmp_fd = IN.mmp_fd;
	/* ASSUME: the superblock was not marked dirty (EXT2_FLAG_DIRTY clear); every other flag bit is free */
	ASSUME(!(IN.flags & EXT2_FLAG_DIRTY));
	before = vf_fs.flags;
	something = (IN.have_imap && (before & EXT2_FLAG_IB_DIRTY)) || (IN.have_bmap && (before & EXT2_FLAG_BB_DIRTY));

	rc = ext2fs_close2(&vf_fs, IN.close_flags);

	PROP(vf_nwrites == 0, "read-only clean handle: close reaches no modifying io entry point");
	PROP(rc == (something ? EXT2_ET_RO_FILSYS : 0), "read-only clean handle: close succeeds unless the caller left bitmap dirty bits (then EXT2_ET_RO_FILSYS)");
	PROP(vf_freed == (rc == 0), "close releases the handle exactly on success");
	PROP(vf_fs.flags == before && (!vf_freed || vf_flags_at_free == before), "read-only clean handle: close never turns EXT2_FLAG_DIRTY (or any flag) on");
	PROP(vf_sb.s_kbytes_written == IN.kbytes_written && vf_sb.s_wtime == 77 && vf_sb.s_state == IN.state &&
	     vf_sb.s_feature_incompat == IN.feature_incompat,
	     "read-only clean handle: close leaves the in-core superblock untouched");
	VF_END();
	return 0;
}
