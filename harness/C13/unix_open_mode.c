/*
 * C13/unix_open_mode: unix_io_manager->open() (unix_open + unix_open_channel)
 * for EVERY io flag word: the device is opened with access mode O_RDWR exactly
 * when IO_FLAG_RW is set and O_RDONLY otherwise, O_EXCL/O_DIRECT only as
 * requested, never O_CREAT/O_TRUNC/O_APPEND; nothing is written, truncated or
 * discarded while opening; the channel remembers the flag word.
 *
 * Together with open_ro (no IO_FLAG_RW without EXT2_FLAG_RW) this is the barrier
 * the read-only tools rely on: the kernel refuses every write on an O_RDONLY
 * descriptor, whatever the library later attempts (see close_ro OUTSIDE).
 */
#ifndef _GNU_SOURCE
#define _GNU_SOURCE
#endif
#ifndef _LARGEFILE64_SOURCE
#define _LARGEFILE64_SOURCE
#endif
#include <errno.h>
#include <string.h>
#include <fcntl.h>
#include <unistd.h>
#include <sys/stat.h>
#include <sys/ioctl.h>
#include <sys/utsname.h>
#include <sys/resource.h>
#define open64 vf_open64
#define open vf_open64
#define fsync vf_fsync
#define close vf_close
#define fstat64 vf_fstat64
#define fstat vf_fstat64
#define ioctl vf_ioctl
#define uname vf_uname
#define pwrite64 vf_pwrite64
#define pwrite vf_pwrite64
#define write vf_write
#define fallocate vf_fallocate
#define fallocate64 vf_fallocate
#define ftruncate vf_ftruncate
#define ftruncate64 vf_ftruncate
#define setrlimit vf_setrlimit
#define getrlimit vf_getrlimit
int vf_open64(const char *__file, int __oflag, ...);
int vf_fsync(int fd);
int vf_close(int fd);
int vf_ioctl(int __fd, unsigned long __request, ...);
int vf_uname(struct utsname *u);
int vf_fstat64(int fd, struct stat64 *st);
ssize_t vf_pwrite64(int fd, const void *b, size_t n, __off64_t o);
ssize_t vf_write(int fd, const void *b, size_t n);
int vf_fallocate(int fd, int m, __off64_t o, __off64_t l);
int vf_ftruncate(int fd, __off64_t l);
int vf_setrlimit(int r, const struct rlimit *l);
int vf_getrlimit(int r, struct rlimit *l);
#include "lib/ext2fs/unix_io.c"
#include "lib/ext2fs/io_manager.c"

struct vf_in {
	int flags;
	unsigned char isblk, blk_readonly, kernel24;
	int open_fails;
};
VF_DECLARE_INPUT(struct vf_in, IN)
#include "vf_input.inc"

static int vf_nopen, vf_oflags, vf_nmodify, vf_nclose;

/* STUB: open() records the flag word and returns descriptor 5 (or fails, symbolic); fstat reports a regular file or a block device (symbolic); BLKROGET reports read-only or not (symbolic), other ioctls fail with ENOTTY; uname reports 2.4.10 or 6.1 (symbolic) */
int vf_open64(const char *__file, int __oflag, ...)
{
	(void) __file;
	vf_nopen++;
	vf_oflags = __oflag;
	if (IN.open_fails) { errno = EACCES; return -1; }
	return 5;
}
int vf_fsync(int fd) { (void) fd; return 0; }
int vf_close(int fd) { (void) fd; vf_nclose++; return 0; }
int vf_fstat64(int fd, struct stat64 *st)
{
	(void) fd;
	memset(st, 0, sizeof(*st));
	st->st_mode = IN.isblk ? (S_IFBLK | 0600) : (S_IFREG | 0600);
	return 0;
}
int vf_ioctl(int __fd, unsigned long __request, ...)
{
	(void) __fd;
#ifdef BLKROGET
	if (__request == BLKROGET && IN.isblk) {
		__builtin_va_list ap;
		int *p;
		__builtin_va_start(ap, __request);
		p = __builtin_va_arg(ap, int *);
		__builtin_va_end(ap);
		*p = IN.blk_readonly;
		return 0;
	}
#endif
#ifdef BLKDISCARD
	if (__request == BLKDISCARD)
		vf_nmodify++;
#endif
	errno = ENOTTY;
	return -1;
}
int vf_uname(struct utsname *u)
{
	memset(u, 0, sizeof(*u));
	if (IN.kernel24) {
		u->release[0] = '2'; u->release[1] = '.'; u->release[2] = '4'; u->release[3] = '.';
		u->release[4] = '1'; u->release[5] = '0';
	} else {
		u->release[0] = '6'; u->release[1] = '.'; u->release[2] = '1';
	}
	return 0;
}
/* STUB: every modifying system call is counted (none may happen while opening) */
ssize_t vf_pwrite64(int fd, const void *b, size_t n, __off64_t o) { (void) fd; (void) b; (void) o; vf_nmodify++; return (ssize_t) n; }
ssize_t vf_write(int fd, const void *b, size_t n) { (void) fd; (void) b; vf_nmodify++; return (ssize_t) n; }
int vf_fallocate(int fd, int m, __off64_t o, __off64_t l) { (void) fd; (void) m; (void) o; (void) l; vf_nmodify++; return 0; }
int vf_ftruncate(int fd, __off64_t l) { (void) fd; (void) l; vf_nmodify++; return 0; }
int vf_setrlimit(int r, const struct rlimit *l) { (void) r; (void) l; return 0; }
int vf_getrlimit(int r, struct rlimit *l) { (void) r; l->rlim_cur = l->rlim_max = ~0UL; return 0; }
/* STUB: no UNIX_IO_* environment overrides; direct-io alignment 512 */
char *ext2fs_safe_getenv(const char *arg) { (void) arg; return 0; }
int ext2fs_get_dio_alignment(int fd) { (void) fd; return 512; }
/* STUB: aligned allocation is plain malloc (solver run only; the native replay links the real inline.c) */
#ifndef VF_REPLAY
errcode_t ext2fs_get_memalign(unsigned long size, unsigned long align, void *ptr)
{
	void *p = malloc(size);
	(void) align;
	if (!p) return EXT2_ET_NO_MEMORY;
	memcpy(ptr, &p, sizeof(p));
	return 0;
}
#endif

int main(void)
{
	io_channel ch = 0;
	errcode_t rc;
	static char name[2] = "d";

	VF_INPUT(IN);
	ASSUME(IN.isblk <= 1 && IN.blk_readonly <= 1 && IN.kernel24 <= 1);
	/* BOUND: IO_FLAG_THREADS off (pthread mutex initialisation is not part of the claim) */
	ASSUME(!(IN.flags & IO_FLAG_THREADS));

	rc = unix_io_manager->open(name, IN.flags, &ch);

	PROP(vf_nopen == 1, "unix open: exactly one open() of the device");
	PROP((vf_oflags & O_ACCMODE) == ((IN.flags & IO_FLAG_RW) ? O_RDWR : O_RDONLY),
	     "unix open: access mode is O_RDWR exactly with IO_FLAG_RW, O_RDONLY otherwise");
	PROP((vf_oflags & ~(O_ACCMODE | O_EXCL | O_DIRECT | O_LARGEFILE)) == 0 &&
	     !(vf_oflags & O_EXCL) == !(IN.flags & IO_FLAG_EXCLUSIVE) &&
	     !(vf_oflags & O_DIRECT) == !(IN.flags & IO_FLAG_DIRECT_IO),
	     "unix open: no O_CREAT/O_TRUNC/O_APPEND; O_EXCL and O_DIRECT only as requested");
	PROP(vf_nmodify == 0, "unix open: no write/truncate/discard system call while opening");
	if (rc == 0) {
		struct unix_private_data *d = ch->private_data;
		PROP(!IN.open_fails && d->dev == 5 && !(d->flags & IO_FLAG_RW) == !(IN.flags & IO_FLAG_RW),
		     "unix open: channel holds the opened descriptor and remembers whether it is writable");
		PROP(!((IN.flags & IO_FLAG_RW) && IN.isblk && IN.blk_readonly), "unix open: a read-only block device is refused for a read/write open");
	} else
		PROP(ch == 0, "unix open: failure returns no channel");
	VF_END();
	return 0;
}
