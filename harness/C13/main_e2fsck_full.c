/*
 * C13/main_e2fsck_full: the WHOLE of e2fsck's main() (e2fsck/unix.c) from option
 * handling to the final ext2fs_close_free(), with every pass and helper replaced
 * by a protocol stub (pattern P).  ext2fs_open2() SUCCEEDS on a handle whose
 * superblock state/feature fields are symbolic; e2fsck_run(), the journal and
 * orphan/quota helpers, fix_problem() answer symbolically.
 *
 * Real code: main() (all of it), try_open_fs(), check_mount(), e2fsck_setup_tdb(),
 * e2fsck/super.c:check_backup_super_block() (unit super_unit.c) over an io stub
 * that delivers a symbolic backup superblock.  Cut: PRS() (spec stub as in
 * main_e2fsck; guarantee: prs_e2fsck), show_stats(), check_if_skip(),
 * e2fsck_check_mmp().
 *
 * C13 (read-only run, E2F_OPT_READONLY): none of the writers main() can reach is
 * called -- journal replay (e2fsck_run_ext3_journal), journal re-creation,
 * orphan-file truncate/create, quota write-out, ext2fs_set_gdt_csum,
 * e2fsck_write_bitmaps, ext2fs_flush, read_bad_blocks_file; the superblock is
 * never marked dirty by main(); s_state/s_lastcheck/s_mnt_count are not
 * touched; every open is without RW.
 * C12 (undo): with -z the handle main() keeps is opened through undo_io_manager (set up
 * over the unix manager with the -z file) on EVERY pass through restart:, and the
 * passes and writers only ever act on such a handle; without -z never.
 * C20 (repairing run that completed on a valid filesystem): when the backup
 * superblock differs from the primary in features/geometry/UUID, the handle is
 * closed with EXT2_FLAG_MASTER_SB_ONLY cleared (backups get refreshed) --
 * whatever s_state the primary had at the start (EXT2_ERROR_FS included).
 */
#include "config.h"
#include <stdio.h>
#include <stdlib.h>
#include <string.h>
#include <fcntl.h>
#include <ctype.h>
#include <time.h>
#include <signal.h>
#include <getopt.h>
#include <unistd.h>
#include <errno.h>
#include <sys/ioctl.h>
#include <malloc.h>
#include <sys/types.h>
#include <dirent.h>
#include <libgen.h>
#include <locale.h>
#include <libintl.h>
#include "e2p/e2p.h"
#include "et/com_err.h"
#include "uuid/uuid.h"
#include "support/plausible.h"
#include "support/devname.h"
#include "e2fsck.h"

/* path-ending stubs and libc renames: function-like macros, defined after all headers so that only CALLS in unix.c change */
void vf_exit(int code);
int vf_open(const char *path, int oflags, ...);
int vf_close(int fd);
#define exit(c) vf_exit(c)
#define open(...) vf_open(__VA_ARGS__)
#define close(fd) vf_close(fd)
#undef gettext
#define gettext(s) (s)
#define setlocale(a, b) ((void) 0)
#define bindtextdomain(a, b) ((void) 0)
#define textdomain(a) ((void) 0)
#define set_com_err_gettext(f) ((void) 0)
#define printf(...) ((void) 0)
#define puts(s) ((void) 0)
#define fprintf(...) ((void) 0)
#define fputs(s, f) ((void) 0)
#define fputc(c, f) ((void) 0)
#define strerror(e) ("")
#define getenv(n) ((char *) 0)	/* ASSUME: TEST_IO_FLAGS / TEST_IO_BLOCK / E2FSPROGS_UNDO_DIR are not in the environment (no test_io wrapper) */
#define fflush(f) ((void) 0)
#undef isspace
#define isspace(c) ((c) == ' ' || (c) == '\t' || (c) == '\n')
#define sysconf(n) (4096L)
#define main vf_real_main
static errcode_t PRS(int argc, char *argv[], e2fsck_t *ret_ctx);	/* cut: defined below */
static void show_stats(e2fsck_t ctx);
static void check_if_skip(e2fsck_t ctx);
static errcode_t e2fsck_check_mmp(ext2_filsys fs, e2fsck_t ctx);
#include "e2fsck/unix.c"
#undef main
#undef exit
#undef open
#undef close
#undef printf
#undef puts
#undef fprintf
#undef fputs
#undef fputc
#undef strerror
#undef getenv
#undef fflush
#undef sysconf

struct vf_in {
	int options;
	int ctx_flags;
	unsigned long long use_superblock;
	int blocksize;
	unsigned char interactive, have_undo;
	int mount_flags;
	unsigned char mount_rc, old_bitmaps, ask_answer;
	unsigned char fix_answers[12];		/* answers of successive fix_problem calls (repairing run) */
	/* the primary superblock as opened */
	__u16 state;
	__u32 feature_compat, feature_incompat, feature_ro_compat, blocks_count, inodes_count;
	unsigned char uuid[16];
	__u32 jnl_backup_type;
	/* the backup superblock check_backup_super_block() reads */
	__u32 b_feature_compat, b_feature_incompat, b_feature_ro_compat, b_blocks_count, b_inodes_count;
	unsigned char b_uuid[16];
	unsigned char backup_read_fails;
	/* helpers */
	int run_result, run_ctx_flags;
	unsigned char run_invalidates, run_sets_changed, csb_invalidates, csb_clears_master_only;
	int journal_check_rc, journal_run_rc, devsize_rc, bb_rc, quota_rc, orphan_ret, gdt_rc, flush_rc, reset_rc;
	unsigned char quota_needs_writeout, skip, devsize_busy;
};
VF_DECLARE_INPUT(struct vf_in, IN)
#include "vf_input.inc"
#include "env.c"

static struct e2fsck_struct vf_ctx;
static struct struct_ext2_filsys vf_fs;
static struct ext2_super_block vf_sb;
static struct struct_io_channel vf_io;
static struct struct_io_manager vf_unix_mgr, vf_undo_mgr;
io_manager unix_io_manager = &vf_unix_mgr;
io_manager undo_io_manager = &vf_undo_mgr;
static char vf_name[2] = "d", vf_prog[2] = "e", vf_undo[2] = "u";

static int vf_nopens, vf_nwriters, vf_nfix, vf_nclose;
static int vf_run_done, vf_restart_pending;
static int vf_after_probe, vf_nundo_setup;
static io_manager vf_handle_mgr, vf_undo_backing;
static char *vf_undo_file;
#define VF_RO (vf_ctx.options & E2F_OPT_READONLY)
#ifndef RST
#define RST 0
#endif

/* every stub that stands for code that WRITES to the device goes through here */
static void vf_writer(void)
{
	vf_nwriters++;
	PROP(vf_handle_mgr == (vf_ctx.undo_file ? undo_io_manager : unix_io_manager), "every writer main() calls acts on a handle opened through the undo manager exactly when -z was given");
	PROP(!VF_RO, "e2fsck -n: main() reaches none of its writers (journal replay/re-creation, orphan file, quota, gdt checksums, bitmaps, flush, badblocks)");
}

/* ---- the cut parser: same specification stub as main_e2fsck ---- */
/* ASSUME: (PRS post-state, guaranteed by prs_e2fsck) at most one of -p/-a, -n, -y; READONLY exactly with NO; with -n no -D/-c/-l/-L/discard; names set */
static errcode_t PRS(int argc, char *argv[], e2fsck_t *ret_ctx)
{
	int o = IN.options;
	(void) argc; (void) argv;
	ASSUME(((o & E2F_OPT_PREEN) != 0) + ((o & E2F_OPT_NO) != 0) + ((o & E2F_OPT_YES) != 0) == 1);
	ASSUME(((o & E2F_OPT_READONLY) != 0) == ((o & E2F_OPT_NO) != 0));
	if (o & E2F_OPT_NO)
		ASSUME(!(o & (E2F_OPT_COMPRESS_DIRS | E2F_OPT_CHECKBLOCKS | E2F_OPT_WRITECHECK | E2F_OPT_DISCARD)));
	/* BOUND: no -c (cflag is a file-static of unix.c that PRS keeps in step with CHECKBLOCKS), no -l/-L file, no -t timing */
	ASSUME(!(o & (E2F_OPT_CHECKBLOCKS | E2F_OPT_WRITECHECK | E2F_OPT_TIME | E2F_OPT_TIME2)));
	vf_ctx.options = o;
	vf_ctx.flags = IN.ctx_flags & E2F_FLAG_SB_SPECIFIED;
	vf_ctx.use_superblock = (IN.ctx_flags & E2F_FLAG_SB_SPECIFIED) ? IN.use_superblock : 0;
	vf_ctx.blocksize = IN.blocksize ? 1024 : 0;
	vf_ctx.interactive = IN.interactive;
	vf_ctx.program_name = vf_prog;
	vf_ctx.filesystem_name = vf_name;
	vf_ctx.device_name = vf_name;
	vf_ctx.undo_file = IN.have_undo ? (char *) vf_undo : (char *) 0;
	vf_ctx.now = 1000;
	*ret_ctx = &vf_ctx;
	e2fsck_global_ctx = &vf_ctx;
	return 0;
}
/* STUB: (cut) show_stats prints; check_if_skip either returns or, when the filesystem is clean, closes and exits (symbolic); e2fsck_check_mmp answers symbolically */
static void vf_end(int at_close);
static void show_stats(e2fsck_t ctx) { (void) ctx; }
static void check_if_skip(e2fsck_t ctx)
{
	(void) ctx;
	if (IN.skip & 1)
		vf_end(0);
}
static errcode_t e2fsck_check_mmp(ext2_filsys fs, e2fsck_t ctx) { (void) fs; (void) ctx; return 0; }

/* ---- io stub: only what check_backup_super_block and main touch ---- */
static errcode_t stub_read_blk(io_channel ch, unsigned long blk, int count, void *data)
{
	struct ext2_super_block *b = data;
	(void) ch; (void) blk;
	if (count != -SUPERBLOCK_SIZE || (IN.backup_read_fails & 1))
		return EXT2_ET_SHORT_READ;
	memset(data, 0, SUPERBLOCK_SIZE);
	b->s_magic = EXT2_SUPER_MAGIC;
	b->s_rev_level = EXT2_DYNAMIC_REV;
	b->s_inode_size = 128;
	b->s_feature_compat = IN.b_feature_compat;
	b->s_feature_incompat = IN.b_feature_incompat;
	b->s_feature_ro_compat = IN.b_feature_ro_compat;
	b->s_blocks_count = IN.b_blocks_count;
	b->s_inodes_count = IN.b_inodes_count;
	memcpy(b->s_uuid, IN.b_uuid, 16);
	return 0;
}
static errcode_t stub_flush(io_channel ch) { (void) ch; return 0; }

/* ---- the open: succeeds ---- */
/* STUB: ext2fs_open2() checks the read-only rule and succeeds on a 2-group handle with symbolic superblock state/features (MASTER_SB_ONLY set, as the real one does) */
errcode_t ext2fs_open2(const char *name, const char *io_options, int flags, int superblock,
		       unsigned int block_size, io_manager manager, ext2_filsys *ret_fs)
{
	int is_probe;
	(void) name; (void) io_options; (void) block_size;
	vf_nopens++;
	/* C12: which io manager gets the device.  try_open_fs() probes the block size of a -b superblock with throw-away opens on
	 * the plain unix manager (handle freed at once); since every open succeeds here, such a probe is always followed by the
	 * real open: they alternate while ctx->superblock is set and ctx->blocksize is not */
	is_probe = vf_ctx.superblock && !vf_ctx.blocksize && !vf_after_probe;	/* ctx->superblock (64 bit), not the int argument it is truncated to */
	(void) superblock;
	vf_after_probe = is_probe;
	if (is_probe)
		PROP(manager == unix_io_manager, "block-size probe of try_open_fs uses the plain unix manager");
	else if (vf_ctx.undo_file) {
		PROP(manager == undo_io_manager, "e2fsck -z: every open whose handle is kept goes through the undo io manager (on every pass through restart:)");
		PROP(vf_undo_backing == unix_io_manager && vf_undo_file == vf_ctx.undo_file, "e2fsck -z: the undo manager was set up over the unix manager with the -z file before the open");
	} else
		PROP(manager == unix_io_manager && vf_nundo_setup == 0, "without -z the undo manager is never set up nor used");
	vf_handle_mgr = manager;
	if (VF_RO)
		PROP(!(flags & (EXT2_FLAG_RW | EXT2_FLAG_EXCLUSIVE)), "e2fsck -n: no ext2fs_open2 call carries EXT2_FLAG_RW / EXCLUSIVE");
	else
		PROP(flags & EXT2_FLAG_RW, "control: a repairing e2fsck opens read/write");
	vf_unix_mgr.read_blk = stub_read_blk;
	vf_unix_mgr.flush = stub_flush;
	vf_io.magic = EXT2_ET_MAGIC_IO_CHANNEL;
	vf_io.manager = &vf_unix_mgr;
	vf_io.block_size = 1024;
	vf_sb.s_magic = EXT2_SUPER_MAGIC;
	vf_sb.s_rev_level = EXT2_DYNAMIC_REV;
	vf_sb.s_inode_size = 128;
	vf_sb.s_first_data_block = 1;
	vf_sb.s_blocks_per_group = 8192;
	vf_sb.s_state = IN.state;
	vf_sb.s_feature_compat = IN.feature_compat;
	/* BOUND: one restart reason per query (RST: 0 none, 1 MMP re-open, 2 journal replay, 3 E2F_FLAG_RESTART from the passes); the feature bits that trigger the other restarts are constant 0 */
	vf_sb.s_feature_incompat = IN.feature_incompat
#if RST != 1
		& ~EXT4_FEATURE_INCOMPAT_MMP
#endif
#if RST != 2
		& ~EXT3_FEATURE_INCOMPAT_RECOVER
#endif
		;
	vf_sb.s_feature_ro_compat = IN.feature_ro_compat;
	vf_sb.s_blocks_count = IN.blocks_count;
	vf_sb.s_inodes_count = IN.inodes_count;
	vf_sb.s_jnl_backup_type = IN.jnl_backup_type;
	vf_sb.s_lastcheck = 5;
	vf_sb.s_mnt_count = 7;
	memcpy(vf_sb.s_uuid, IN.uuid, 16);
	vf_fs.magic = EXT2_ET_MAGIC_EXT2FS_FILSYS;
	vf_fs.flags = (flags | EXT2_FLAG_MASTER_SB_ONLY) & ~EXT2_FLAG_NOFREE_ON_ERROR;
	vf_fs.super = &vf_sb;
	vf_fs.io = &vf_io;
	vf_fs.blocksize = 1024;
	vf_fs.group_desc_count = 2;
	*ret_fs = &vf_fs;
	return 0;
}
void ext2fs_free(ext2_filsys fs) { (void) fs; }

/* ---- end of run ---- */
static int ref_backup_differs(void)
{
	/* the format rule of check_backup_super_block, restated: compat equal; incompat equal up to EXTENTS|RECOVER; ro_compat equal up to LARGE_FILE|DIR_NLINK|ORPHAN_PRESENT; block/inode counts and UUID equal */
	if (vf_sb.s_feature_compat != IN.b_feature_compat) return 1;
	if ((vf_sb.s_feature_incompat ^ IN.b_feature_incompat) & ~(0x0040u | 0x0004u)) return 1;
	if ((vf_sb.s_feature_ro_compat ^ IN.b_feature_ro_compat) & ~(0x0002u | 0x0020u | 0x10000u)) return 1;
	if (vf_sb.s_blocks_count != IN.b_blocks_count || vf_sb.s_inodes_count != IN.b_inodes_count) return 1;
	return memcmp(vf_sb.s_uuid, IN.b_uuid, 16) != 0;
}
static void vf_end(int at_close)
{
	if (VF_RO) {
		PROP(vf_nwriters == 0, "e2fsck -n: the whole run called no writer");
		PROP(!(vf_fs.flags & EXT2_FLAG_DIRTY), "e2fsck -n: main() never marks the superblock dirty");
		if (vf_nopens)
			PROP(vf_sb.s_lastcheck == 5 && vf_sb.s_mnt_count == 7 && vf_sb.s_state == IN.state,
			     "e2fsck -n: main() leaves s_state, s_lastcheck and s_mnt_count alone");
	} else if (at_close && vf_run_done && !(vf_ctx.flags & (E2F_FLAG_RUN_RETURN | E2F_FLAG_ABORT | E2F_FLAG_CANCEL)) &&
		   !(IN.run_result & (E2F_FLAG_CANCEL | E2F_FLAG_ABORT)) &&
		   (vf_fs.flags & EXT2_FLAG_VALID) && !(IN.backup_read_fails & 1) && ref_backup_differs())
		PROP(!(vf_fs.flags & EXT2_FLAG_MASTER_SB_ONLY),
		     "repairing e2fsck that completed on a valid filesystem: stale backups are refreshed (MASTER_SB_ONLY cleared), whatever s_state the primary started with");
	VF_END();
#ifdef VF_REPLAY
	fflush(0);
	_exit(0);
#else
	__CPROVER_assume(0);
#endif
}
/* STUB: ext2fs_close_free() at the end of the run is where the final-state checks live; earlier closes (restart paths) just drop the handle */
errcode_t ext2fs_close_free(ext2_filsys *fs)
{
	vf_nclose++;
	*fs = 0;
	if (vf_restart_pending)
		vf_restart_pending = 0;	/* the close that precedes `goto restart` */
	else if (vf_run_done)
		vf_end(1);
	return 0;
}
void fatal_error(e2fsck_t ctx, const char *msg) { (void) ctx; (void) msg; vf_end(0); }
void vf_exit(int code) { (void) code; vf_end(0); }

/* ---- diagnostics, environment ---- */
void log_out(e2fsck_t ctx, const char *fmt, ...) { (void) ctx; (void) fmt; }
void log_err(e2fsck_t ctx, const char *fmt, ...) { (void) ctx; (void) fmt; }
/* ASSUME: fix_problem() answers "no" under -n for the prompting problems main() asks about (problem.c: PR_6_RECREATE_JOURNAL, PR_6_UPDATE_QUOTAS, PR_6_ORPHAN_* are all prompting entries; ask() returns 0 with E2F_OPT_NO); otherwise the answer is symbolic */
int fix_problem(e2fsck_t ctx, problem_t code, struct problem_context *pctx)
{
	int k = vf_nfix < 12 ? vf_nfix : 11, i, a = 0;
	(void) code; (void) pctx;
	vf_nfix++;
	if (ctx->options & E2F_OPT_NO)
		return 0;
	for (i = 0; i < 12; i++)
		if (i == k) a = IN.fix_answers[i] & 1;
	return a;
}
void clear_problem_context(struct problem_context *pctx) { memset(pctx, 0, sizeof(*pctx)); }
int set_latch_flags(int mask, int setflags, int clearflags) { (void) mask; (void) setflags; (void) clearflags; return 0; }
void sigcatcher_setup(void) { }
int ext2fs_parse_version_string(const char *v) { (void) v; return 147; }
int ext2fs_get_library_version(const char **v, const char **d) { if (v) *v = ""; if (d) *d = ""; return 147; }
void set_up_logging(e2fsck_t ctx) { (void) ctx; }
#ifdef RESOURCE_TRACK
void init_resource_track(struct resource_track *track, io_channel channel) { (void) track; (void) channel; }
void print_resource_track(e2fsck_t ctx, const char *desc, struct resource_track *track, io_channel channel)
{ (void) ctx; (void) desc; (void) track; (void) channel; }
#endif
errcode_t ext2fs_check_if_mounted(const char *file, int *mount_flags)
{
	(void) file;
	if (IN.mount_rc & 1)
		return EXT2_ET_BAD_DEVICE_NAME;
	*mount_flags = IN.mount_flags;
	return 0;
}
int ask_yn(e2fsck_t ctx, const char *string, int def) { (void) ctx; (void) string; (void) def; return IN.ask_answer & 1; }
errcode_t profile_get_boolean(profile_t profile, const char *name, const char *subname, const char *subsubname,
			      int def_val, int *ret_boolean)
{
	(void) profile; (void) name; (void) subname; (void) subsubname; (void) def_val;
	*ret_boolean = IN.old_bitmaps & 1;
	return 0;
}
blk64_t get_backup_sb(e2fsck_t ctx, ext2_filsys fs, const char *name, io_manager manager)
{ (void) ctx; (void) fs; (void) name; (void) manager; return 8193; }
int check_plausibility(const char *device, int flags, int *ret_is_dev) { (void) device; (void) flags; (void) ret_is_dev; return 0; }
const char *error_message(long code) { (void) code; return ""; }
const char *e2p_feature2string(int compat, unsigned int mask) { (void) compat; (void) mask; return ""; }
const char *e2p_uuid2str(void *uu) { (void) uu; return ""; }
/* STUB: undo_io configuration calls record their argument (undo_io.c itself: C12 harnesses) */
errcode_t set_undo_io_backing_manager(io_manager manager) { vf_undo_backing = manager; vf_nundo_setup++; return 0; }
errcode_t set_undo_io_backup_file(char *file_name) { vf_undo_file = file_name; return 0; }
int vf_open(const char *path, int oflags, ...) { (void) path; (void) oflags; return 3; }
int vf_close(int fd) { (void) fd; return 0; }
void e2fsck_set_bitmap_type(ext2_filsys fs, unsigned int default_type, const char *profile_name, unsigned int *old_type)
{ (void) fs; (void) default_type; (void) profile_name; (void) old_type; }
errcode_t ext2fs_check_desc(ext2_filsys fs) { (void) fs; return 0; }
errcode_t ext2fs_get_device_size2(const char *file, int blocksize, blk64_t *retblocks)
{ (void) file; (void) blocksize; *retblocks = 16385; return IN.devsize_rc == EBUSY ? 0 : IN.devsize_rc; }
char *string_copy(e2fsck_t ctx, const char *str, size_t len) { (void) ctx; (void) len; (void) str; return vf_name; }
void ehandler_init(io_channel channel) { (void) channel; }
errcode_t remove_error_table(const struct error_table *et) { (void) et; return 0; }
const struct error_table et_ext2_error_table, et_prof_error_table;
void e2fsck_free_context(e2fsck_t ctx) { (void) ctx; }
void preenhalt(e2fsck_t ctx) { (void) ctx; }
int ext2fs_bg_has_super(ext2_filsys fs, dgrp_t group) { (void) fs; return group <= 1; }

/* ---- passes and helpers ---- */
/* STUB: e2fsck_check_ext3_journal / check_super_block / check_resize_inode / e2fsck_run stand for the checking passes: they return symbolic results and may (repairing run only) invalidate the filesystem, mark it dirty, set ctx->flags bits or clear MASTER_SB_ONLY -- the effects the real ones have on what main() later decides; their own read-only discipline is outside this harness */
errcode_t e2fsck_check_ext3_journal(e2fsck_t ctx) { (void) ctx; return IN.journal_check_rc; }
void check_super_block(e2fsck_t ctx)
{
	if (!(ctx->options & E2F_OPT_READONLY)) {
		if (IN.csb_invalidates & 1) ctx->fs->flags &= ~EXT2_FLAG_VALID;
		if (IN.csb_clears_master_only & 1) ctx->fs->flags &= ~EXT2_FLAG_MASTER_SB_ONLY;
	} else if (IN.csb_invalidates & 1)
		ctx->fs->flags &= ~EXT2_FLAG_VALID;
}
void check_resize_inode(e2fsck_t ctx) { (void) ctx; }
int e2fsck_run(e2fsck_t ctx)
{
	/* BOUND: the passes ask for a restart (E2F_FLAG_RESTART) at most once per run */
	int first = !vf_run_done;
	PROP(vf_handle_mgr == (vf_ctx.undo_file ? undo_io_manager : unix_io_manager), "the passes run on a handle opened through the undo manager exactly when -z was given");
	vf_run_done = 1;
	if (!first)
		return IN.run_result & (E2F_FLAG_ABORT | E2F_FLAG_CANCEL);
	if (IN.run_invalidates & 1) ctx->fs->flags &= ~EXT2_FLAG_VALID;
	if (IN.run_sets_changed & 1) ctx->fs->flags |= EXT2_FLAG_CHANGED;	/* in-core changes (bitmaps loaded/marked) can happen in any mode */
	ctx->flags |= IN.run_ctx_flags & (E2F_FLAG_JOURNAL_INODE | E2F_FLAG_RUN_RETURN | E2F_FLAG_TIME_INSANE | E2F_FLAG_PROBLEMS_FIXED);
#if RST == 3
	return IN.run_result & (E2F_FLAG_ABORT | E2F_FLAG_CANCEL | E2F_FLAG_RESTART);
#else
	return IN.run_result & (E2F_FLAG_ABORT | E2F_FLAG_CANCEL);
#endif
}
errcode_t e2fsck_reset_context(e2fsck_t ctx) { (void) ctx; vf_restart_pending = 1; return IN.reset_rc; }
errcode_t ext2fs_read_bb_inode(ext2_filsys fs, ext2_badblocks_list *bb_list) { (void) fs; (void) bb_list; return IN.bb_rc; }
/* ASSUME: check_init_orphan_file() returns 2 ("blocks were cleared") only after fix_problem(PR_6_ORPHAN_BLOCK_DIRTY) was answered yes (super.c: pd.clear), i.e. never under -n */
int check_init_orphan_file(e2fsck_t ctx)
{
	int r = IN.orphan_ret;
	ASSUME(r >= 0 && r <= 2);
	if ((ctx->options & E2F_OPT_NO) && r == 2)
		r = 0;
	return r;
}
e2_blkcnt_t ext2fs_default_orphan_file_blocks(ext2_filsys fs) { (void) fs; return 32; }
errcode_t ext2fs_get_journal_params(struct ext2fs_journal_params *params, ext2_filsys fs)
{ (void) fs; params->num_journal_blocks = 1024; params->num_fc_blocks = 0; return 0; }
errcode_t quota_init_context(quota_ctx_t *qctx, ext2_filsys fs, unsigned int qtype_bits)
{ static int dummy; (void) fs; (void) qtype_bits; *qctx = (quota_ctx_t) &dummy; return IN.quota_rc; }
errcode_t quota_compare_and_update(quota_ctx_t qctx, enum quota_type qtype, int *usage_inconsistent)
{ (void) qctx; (void) qtype; *usage_inconsistent = IN.quota_needs_writeout & 1; return 0; }
void quota_release_context(quota_ctx_t *qctx) { *qctx = 0; }
/* STUB: the writers: each is a counter and a read-only check */
errcode_t e2fsck_run_ext3_journal(e2fsck_t ctx) { (void) ctx; vf_writer(); return IN.journal_run_rc; }
errcode_t ext2fs_add_journal_inode3(ext2_filsys fs, struct ext2fs_journal_params *params, blk64_t goal, int flags)
{ (void) fs; (void) params; (void) goal; (void) flags; vf_writer(); return 0; }
errcode_t ext2fs_truncate_orphan_file(ext2_filsys fs) { (void) fs; vf_writer(); return 0; }
errcode_t ext2fs_create_orphan_file(ext2_filsys fs, blk_t num_blocks) { (void) fs; (void) num_blocks; vf_writer(); return 0; }
errcode_t quota_write_inode(quota_ctx_t qctx, unsigned int qtype_bits) { (void) qctx; (void) qtype_bits; vf_writer(); return 0; }
errcode_t ext2fs_set_gdt_csum(ext2_filsys fs) { (void) fs; vf_writer(); return IN.gdt_rc; }
void e2fsck_write_bitmaps(e2fsck_t ctx) { (void) ctx; vf_writer(); }
errcode_t ext2fs_flush(ext2_filsys fs) { vf_writer(); fs->flags &= ~EXT2_FLAG_DIRTY; return IN.flush_rc; }
void read_bad_blocks_file(e2fsck_t ctx, const char *bad_blocks_file, int replace_bad_blocks)
{ (void) ctx; (void) bad_blocks_file; (void) replace_bad_blocks; vf_writer(); }

int main(void)
{
	static char *argv[3] = { vf_prog, vf_name, 0 };
	VF_INPUT(IN);
	ASSUME(IN.interactive <= 1 && IN.have_undo <= 1);
	vf_real_main(2, argv);
	PROP(0, "main() ends through ext2fs_close_free()/fatal_error()/exit()");
	return 0;
}
