/*
 * C13/journal_release: e2fsck_journal_release() -- the last step of every
 * journal inspection e2fsck does (e2fsck_check_ext3_journal, also under -n).
 *
 * With E2F_OPT_READONLY in ctx->options, for every other option bit, every
 * journal superblock content, reset/drop argument, journal channel shared with
 * the filesystem or separate: the journal superblock buffer is NOT written
 * (s_sequence/s_start are not "marked empty" on disk) unless an earlier step had
 * already dirtied it and drop is 0; with drop it is never written.
 * Control (config RW): without READONLY and without drop the buffer IS written once.
 */
#include "e2fsck/journal.c"

struct vf_in {
	int options;
	int reset, drop;
	unsigned char was_dirty;
	unsigned char jsb[64];
	unsigned char sep_io, have_inode, have_dev;
	__u32 tail_sequence;
	unsigned int flags;
};
VF_DECLARE_INPUT(struct vf_in, IN)
#include "vf_input.inc"

#include "ro_common.h"
#include "env.c"

static struct e2fsck_struct vf_ctx;
static struct struct_io_channel vf_jio;
static int vf_jclosed;
static errcode_t stub_jclose(io_channel ch) { (void) ch; vf_jclosed++; return 0; }
/* STUB: crc32c (journal superblock checksum) returns 0 (C14 covers it) */
__u32 ext2fs_crc32c_be(__u32 crc, unsigned char const *p, size_t len) { (void) crc; (void) p; (void) len; return 0; }
__u32 ext2fs_crc32c_le(__u32 crc, unsigned char const *p, size_t len) { (void) crc; (void) p; (void) len; return 0; }

int main(void)
{
	journal_t *journal;
	struct buffer_head *bh;
	int i;

	VF_INPUT(IN);
	vf_setup_fs(IN.flags, 128);
	vf_mgr.close = stub_jclose;
	vf_jio = vf_io;
	ASSUME(IN.was_dirty <= 1 && IN.sep_io <= 1 && IN.have_inode <= 1 && IN.have_dev <= 1);
	vf_ctx.fs = &vf_fs;
#ifdef RW
	vf_fs.flags |= EXT2_FLAG_RW;
	vf_ctx.options = IN.options & ~E2F_OPT_READONLY;
#else
	vf_ctx.options = IN.options | E2F_OPT_READONLY;
#endif
	vf_ctx.journal_io = IN.sep_io ? &vf_jio : &vf_io;
	vf_ctx.device_name = vf_devname;

	journal = malloc(sizeof(*journal));
	bh = malloc(sizeof(*bh));
	memset(journal, 0, sizeof(*journal));
	memset(bh, 0, sizeof(*bh));
	bh->b_ctx = &vf_ctx;
	bh->b_io = vf_ctx.journal_io;
	bh->b_size = VF_BS;
	bh->b_blocknr = 9;
	bh->b_uptodate = 1;
	bh->b_dirty = IN.was_dirty;
	for (i = 0; i < 64; i++)
		bh->b_data[i] = IN.jsb[i];
	journal->j_sb_buffer = bh;
	journal->j_superblock = (journal_superblock_t *) bh->b_data;
	journal->j_tail_sequence = IN.tail_sequence;
	journal->j_inode = IN.have_inode ? malloc(sizeof(struct inode)) : 0;
	journal->j_fs_dev = IN.have_dev ? malloc(2 * sizeof(struct kdev_s)) : 0;

	e2fsck_journal_release(&vf_ctx, journal, IN.reset, IN.drop);

#ifdef RW
	if (!IN.drop)
		PROP(vf_nwrites == 1, "control: read/write release writes the journal superblock once");
	else
		PROP(vf_nwrites == 0, "drop: the journal superblock buffer is discarded, never written");
#else
	if (IN.drop || !IN.was_dirty)
		PROP(vf_nwrites == 0, "read-only e2fsck: releasing the journal does not write the journal superblock");
	PROP(vf_nwrites <= IN.was_dirty, "read-only e2fsck: release itself never dirties the journal superblock buffer");
#endif
	PROP(vf_jclosed == (IN.sep_io ? 1 : 0) && vf_ctx.journal_io == 0, "a separate journal channel is closed exactly once, the shared one is not");
	VF_END();
	return 0;
}
