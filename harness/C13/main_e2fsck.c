/*
 * C13/main_e2fsck: the prefix of e2fsck's main() (e2fsck/unix.c) that maps the
 * parsed options to the flags of EVERY ext2fs_open2() call (pattern P).
 *
 * Real code: main() up to its error exit, try_open_fs(), check_mount(),
 * reserve_stdio_fds(), e2fsck_setup_tdb().  PRS() (getopt parser) is CUT and
 * replaced by a specification stub that returns a context with SYMBOLIC
 * options under the constraints the real PRS() establishes (see stub_PRS notes);
 * its own option->bit mapping is the subject of harness prs_e2fsck.
 * ext2fs_open2() is a protocol stub: it RECORDS the flags and fails with the
 * error code of the query (one query per code: the error decides whether main
 * retries with backup superblocks, re-enters `restart:` with
 * EXT2_FLAG_IGNORE_SB_ERRORS, or gives up), handing back a handle exactly when
 * EXT2_FLAG_NOFREE_ON_ERROR asks for it, as the real function does.
 *
 * Asserted at every open, on every path through the prefix (first open, the
 * blocksize-probing opens of try_open_fs, backup-superblock retries, the
 * restart); C20: the -b probes of try_open_fs walk every block size 1024..65536
 * in order and a hit at B (PROBE_K queries) is followed by the real open with B;
 * E2F_OPT_READONLY (-n) => no EXT2_FLAG_RW and no EXT2_FLAG_EXCLUSIVE;
 * control: without READONLY the open is RW.  main() never returns from the
 * prefix except through fatal_error()/exit().
 */
#include "config.h"
#include <stdio.h>
#include <stdlib.h>
#include <string.h>
#include <fcntl.h>
#include <ctype.h>
#include <time.h>
#include <signal.h>
#include <getopt.h>
#include <unistd.h>
#include <errno.h>
#include <sys/ioctl.h>
#include <malloc.h>
#include <sys/types.h>
#include <dirent.h>
#include <libgen.h>
#include <locale.h>
#include <libintl.h>
#include "e2p/e2p.h"
#include "et/com_err.h"
#include "uuid/uuid.h"
#include "support/plausible.h"
#include "support/devname.h"
#include "e2fsck.h"

/* path-ending stubs and libc renames: function-like macros, defined after all headers so that only CALLS in unix.c change */
void vf_exit(int code);
int vf_open(const char *path, int oflags, ...);
int vf_close(int fd);
#define exit(c) vf_exit(c)
#define open(...) vf_open(__VA_ARGS__)
#define close(fd) vf_close(fd)
#undef gettext
#define gettext(s) (s)
#define setlocale(a, b) ((void) 0)
#define bindtextdomain(a, b) ((void) 0)
#define textdomain(a) ((void) 0)
#define set_com_err_gettext(f) ((void) 0)
#define printf(...) ((void) 0)
#define puts(s) ((void) 0)
#define fprintf(...) ((void) 0)
#define fputs(s, f) ((void) 0)
#define fputc(c, f) ((void) 0)
#define strerror(e) ("")
#define getenv(n) ((char *) 0)	/* ASSUME: TEST_IO_FLAGS / TEST_IO_BLOCK / E2FSPROGS_UNDO_DIR are not in the environment (no test_io wrapper) */
#define main vf_real_main
static errcode_t PRS(int argc, char *argv[], e2fsck_t *ret_ctx);	/* cut: defined below */
#include "e2fsck/unix.c"
#undef main
#undef exit
#undef open
#undef close
#undef printf
#undef puts
#undef fprintf
#undef fputs
#undef fputc
#undef strerror
#undef getenv

#ifndef ERR
#define ERR EXT2_ET_BAD_MAGIC
#endif

struct vf_in {
	int options;
	int ctx_flags;
	unsigned long long use_superblock;
	int blocksize;
	unsigned char interactive, have_undo, version_only, prs_fails;
	int mount_flags;
	unsigned char mount_rc;
	unsigned char old_bitmaps;
	unsigned char fix_answer, ask_answer;
	unsigned long long backup_sb; int backup_bs; unsigned char backup_found;
	__u32 groups;
	unsigned char setup_undo_fails;
};
VF_DECLARE_INPUT(struct vf_in, IN)
#include "vf_input.inc"
#include "env.c"

static struct e2fsck_struct vf_ctx;
static struct struct_ext2_filsys vf_fs;
static struct ext2_super_block vf_sb;
static struct struct_io_manager vf_unix_mgr, vf_undo_mgr;
io_manager unix_io_manager = &vf_unix_mgr;
io_manager undo_io_manager = &vf_undo_mgr;
static char vf_name[2] = "d", vf_prog[2] = "e", vf_undo[2] = "u";

static int vf_nopens, vf_nopens_rw, vf_nopens_excl, vf_ended;
static int vf_after_probe, vf_nprobes, vf_probe_hits;
static unsigned int vf_probe_expect = EXT2_MIN_BLOCK_SIZE;
static io_manager vf_undo_backing;
static int vf_nundo_setup;

/* ---- the cut parser: what PRS() guarantees about the context it returns ----
 * ASSUME: (PRS post-state) at most one of -p/-a, -n, -y; E2F_OPT_READONLY is set exactly when E2F_OPT_NO (-n) is; with -n: no -D (COMPRESS_DIRS), no -c (CHECKBLOCKS/WRITECHECK), no -l/-L file, DISCARD cleared; filesystem_name/program_name set */
static errcode_t PRS(int argc, char *argv[], e2fsck_t *ret_ctx)
{
	int o = IN.options;
	(void) argc; (void) argv;
	if (IN.prs_fails)
		return ENOMEM;
	ASSUME(((o & E2F_OPT_PREEN) != 0) + ((o & E2F_OPT_NO) != 0) + ((o & E2F_OPT_YES) != 0) <= 1);
	ASSUME(((o & E2F_OPT_READONLY) != 0) == ((o & E2F_OPT_NO) != 0));
	if (o & E2F_OPT_NO)
		ASSUME(!(o & (E2F_OPT_COMPRESS_DIRS | E2F_OPT_CHECKBLOCKS | E2F_OPT_WRITECHECK | E2F_OPT_DISCARD)));
	vf_ctx.options = o;
#ifdef PROBE_K	/* the probing scenario, with constants so that the stub's probe/real-open distinction stays concrete: -b 32768 without -B */
	vf_ctx.flags = E2F_FLAG_SB_SPECIFIED;
	vf_ctx.use_superblock = 32768;
	vf_ctx.blocksize = 0;
#else
	vf_ctx.flags = IN.ctx_flags & E2F_FLAG_SB_SPECIFIED;	/* the only ctx->flags bit PRS can set */
	vf_ctx.use_superblock = (IN.ctx_flags & E2F_FLAG_SB_SPECIFIED) ? IN.use_superblock : 0;
	vf_ctx.blocksize = IN.blocksize;
#endif
	vf_ctx.interactive = IN.interactive;
	vf_ctx.program_name = vf_prog;
	vf_ctx.filesystem_name = vf_name;
	vf_ctx.device_name = vf_name;
	vf_ctx.undo_file = IN.have_undo ? (char *) vf_undo : (char *) 0;
	vf_ctx.now = 1000;
	show_version_only = IN.version_only;
	*ret_ctx = &vf_ctx;
	e2fsck_global_ctx = &vf_ctx;
	return 0;
}

/* ---- the protocol stub ---- */
/* STUB: ext2fs_open2() records the flags, checks the read-only rule, and fails with ERR; with EXT2_FLAG_NOFREE_ON_ERROR it still hands back a handle (as the real one does once the channel is open) */
errcode_t ext2fs_open2(const char *name, const char *io_options, int flags, int superblock,
		       unsigned int block_size, io_manager manager, ext2_filsys *ret_fs)
{
	int is_probe;
	(void) name; (void) io_options;
	vf_nopens++;
	/* try_open_fs() probes the block size of a -b superblock given without -B with throw-away opens on the plain unix manager.
	 * Every real open fails here (ERR); a probe fails too unless its block size is the query's PROBE_K one (1024 << PROBE_K),
	 * in which case the NEXT call is the real open that try_open_fs makes with the block size it found.
	 * (No PROBE_K query is registered for THIS harness -- symex does not finish; the hit case is decided by probe_try_open.c.) */
	is_probe = vf_ctx.superblock && !vf_ctx.blocksize && !vf_after_probe;
	if (is_probe) {
		PROP(manager == unix_io_manager, "block-size probe of try_open_fs uses the plain unix manager");
		/* C20: the probes walk EVERY block size EXT2_MIN_BLOCK_SIZE .. EXT2_MAX_BLOCK_SIZE, each once, ascending */
		PROP(block_size == vf_probe_expect, "block-size probes try 1024, 2048, ..., 65536 in order, none skipped");
		PROP(superblock == (int) vf_ctx.superblock, "the probe reads the superblock the user named");
		vf_nprobes++;
#ifdef PROBE_K
		if (block_size == (1024u << PROBE_K)) {
			vf_after_probe = 1;
			vf_probe_expect = EXT2_MIN_BLOCK_SIZE;
			vf_probe_hits++;
			vf_fs.magic = EXT2_ET_MAGIC_EXT2FS_FILSYS;
			vf_fs.flags = flags | EXT2_FLAG_MASTER_SB_ONLY;
			vf_fs.super = &vf_sb;
			*ret_fs = &vf_fs;
			return 0;
		}
#endif
		vf_probe_expect = (block_size >= EXT2_MAX_BLOCK_SIZE) ? EXT2_MIN_BLOCK_SIZE : block_size * 2;
	} else if (vf_after_probe) {
		vf_after_probe = 0;
#ifdef PROBE_K
		PROP(block_size == (1024u << PROBE_K) && superblock == (int) vf_ctx.superblock,
		     "a probe that succeeded at block size B is followed by the real open of that superblock with B");
#endif
	}
	if (is_probe)
		;
	else if (vf_ctx.undo_file)
		PROP(manager == undo_io_manager && vf_undo_backing == unix_io_manager,
		     "e2fsck -z: every real open (first, backup-superblock retries, restart) goes through the undo io manager");
	else
		PROP(manager == unix_io_manager && vf_nundo_setup == 0, "without -z the undo manager is never set up nor used");
	if (flags & EXT2_FLAG_RW) vf_nopens_rw++;
	if (flags & EXT2_FLAG_EXCLUSIVE) vf_nopens_excl++;
	if (vf_ctx.options & E2F_OPT_READONLY) {
		PROP(!(flags & EXT2_FLAG_RW), "e2fsck -n: no ext2fs_open2 call carries EXT2_FLAG_RW");
		PROP(!(flags & EXT2_FLAG_EXCLUSIVE), "e2fsck -n: no ext2fs_open2 call carries EXT2_FLAG_EXCLUSIVE");
	} else
		PROP(flags & EXT2_FLAG_RW, "control: a repairing e2fsck opens read/write");
	PROP(vf_nopens <= 60, "bounded number of opens in the prefix");
	/* main() always asks for EXT2_FLAG_NOFREE_ON_ERROR (checked), so the failed open hands back a handle; unconditional here to keep the pointer a constant */
	PROP(flags & EXT2_FLAG_NOFREE_ON_ERROR, "every open of the prefix asks for EXT2_FLAG_NOFREE_ON_ERROR");
	vf_fs.magic = EXT2_ET_MAGIC_EXT2FS_FILSYS;
	vf_fs.flags = flags | EXT2_FLAG_MASTER_SB_ONLY;
	vf_fs.super = &vf_sb;
	vf_fs.blocksize = 1024;
	vf_fs.group_desc_count = IN.groups;
#ifdef FEAT	/* compile-time: an incompat feature word the library does not support (EXT2_ET_UNSUPP_FEATURE queries) */
	vf_sb.s_feature_incompat = FEAT;
#endif
	*ret_fs = &vf_fs;
	return ERR;
}
void ext2fs_free(ext2_filsys fs) { (void) fs; }
errcode_t ext2fs_close_free(ext2_filsys *fs) { *fs = 0; return 0; }

/* STUB: fatal_error()/exit() end the path: the end-of-prefix checks and the vacuity witness live here */
static void vf_end(void)
{
	vf_ended = 1;
	PROP(vf_probe_expect == EXT2_MIN_BLOCK_SIZE && !vf_after_probe,
	     "no block-size probe sequence is cut short: it ends with a hit or after 65536 was tried");
	if (!IN.prs_fails && !IN.version_only && (vf_ctx.options & E2F_OPT_READONLY))
		PROP(vf_nopens_rw == 0 && vf_nopens_excl == 0, "e2fsck -n: the whole prefix made no read/write or exclusive open");
	VF_END();
#ifdef VF_REPLAY
	fflush(0);
	_exit(0);
#else
	__CPROVER_assume(0);
#endif
}
void fatal_error(e2fsck_t ctx, const char *msg) { (void) ctx; (void) msg; vf_end(); }
void vf_exit(int code) { (void) code; vf_end(); }

/* STUB: diagnostics do nothing; fix_problem/ask_yn answer symbolically; mount state, profile and backup-superblock search are symbolic */
void log_out(e2fsck_t ctx, const char *fmt, ...) { (void) ctx; (void) fmt; }
void log_err(e2fsck_t ctx, const char *fmt, ...) { (void) ctx; (void) fmt; }
int fix_problem(e2fsck_t ctx, problem_t code, struct problem_context *pctx) { (void) ctx; (void) code; (void) pctx; return IN.fix_answer & 1; }
void clear_problem_context(struct problem_context *pctx) { memset(pctx, 0, sizeof(*pctx)); }
void sigcatcher_setup(void) { }
int ext2fs_parse_version_string(const char *v) { (void) v; return 147; }
int ext2fs_get_library_version(const char **v, const char **d) { if (v) *v = ""; if (d) *d = ""; return 147; }
void set_up_logging(e2fsck_t ctx) { (void) ctx; }
#ifdef RESOURCE_TRACK
void init_resource_track(struct resource_track *track, io_channel channel) { (void) track; (void) channel; }
#endif
errcode_t ext2fs_check_if_mounted(const char *file, int *mount_flags)
{
	(void) file;
	if (IN.mount_rc & 1)
		return EXT2_ET_BAD_DEVICE_NAME;
	*mount_flags = IN.mount_flags;
	return 0;
}
int ask_yn(e2fsck_t ctx, const char *string, int def) { (void) ctx; (void) string; (void) def; return IN.ask_answer & 1; }
errcode_t profile_get_boolean(profile_t profile, const char *name, const char *subname, const char *subsubname,
			      int def_val, int *ret_boolean)
{
	(void) profile; (void) name; (void) subname; (void) subsubname; (void) def_val;
	*ret_boolean = IN.old_bitmaps & 1;
	return 0;
}
blk64_t get_backup_sb(e2fsck_t ctx, ext2_filsys fs, const char *name, io_manager manager)
{
	(void) fs; (void) name;
	PROP(manager == (vf_ctx.undo_file ? undo_io_manager : unix_io_manager), "the backup-superblock search is given the manager of the run (undo with -z)");
	if (IN.backup_found & 1) {
		ctx->superblock = IN.backup_sb;
		ctx->blocksize = IN.backup_bs;
	}
	return IN.backup_sb;
}
int check_plausibility(const char *device, int flags, int *ret_is_dev) { (void) device; (void) flags; (void) ret_is_dev; return 0; }
const char *error_message(long code) { (void) code; return ""; }
const char *e2p_feature2string(int compat, unsigned int mask) { (void) compat; (void) mask; return ""; }
errcode_t set_undo_io_backing_manager(io_manager manager)
{
	if (IN.setup_undo_fails & 1)
		return ENOMEM;
	vf_undo_backing = manager;
	vf_nundo_setup++;
	return 0;
}
errcode_t set_undo_io_backup_file(char *file_name) { (void) file_name; return 0; }
int vf_open(const char *path, int oflags, ...) { (void) path; (void) oflags; return 3; }
int vf_close(int fd) { (void) fd; return 0; }

int main(void)
{
	static char *argv[3] = { vf_prog, vf_name, 0 };
	VF_INPUT(IN);
	ASSUME(IN.interactive <= 1 && IN.have_undo <= 1 && IN.version_only <= 1 && IN.prs_fails <= 1);
	vf_real_main(2, argv);
	PROP(0, "the prefix of main() only ends in fatal_error()/exit() when every open fails");
	return 0;
}
