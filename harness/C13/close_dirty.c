/*
 * C13/close_dirty: the case close_ro leaves out -- ext2fs_close2() on a handle
 * opened WITHOUT EXT2_FLAG_RW but with EXT2_FLAG_DIRTY set (closefs.c does not
 * test EXT2_FLAG_RW before flushing) -- decided end to end over the REAL unix_io
 * channel and the open-mode-aware file model rofile.h:
 *
 *   unix_io_manager->open(name, no IO_FLAG_RW)  ->  O_RDONLY descriptor
 *   ext2fs_close2 -> ext2fs_flush2 -> group descriptors / superblock handed to
 *   unix_io (cached or direct) -> every pwrite/write is refused with EBADF
 *
 * For every other flag bit (SUPER_ONLY, MASTER_SB_ONLY, ...), close flags, with or
 * without the orig_super shadow copy (plain one-group geometry, empty cache):
 *   the device is not modified; when the device refused anything ext2fs_close2
 *   returns non-zero and does NOT free the handle; without a shadow copy the
 *   primary superblock always has to be written, so close always fails.
 * OUTSIDE: -DORIG=0/1 (fs->orig_super present: word-diff + write_byte route) is written below but not registered: no verdict in 150 s
 */
#ifndef _GNU_SOURCE
#define _GNU_SOURCE
#endif
#ifndef _LARGEFILE64_SOURCE
#define _LARGEFILE64_SOURCE
#endif
/* closefs.c and blknum.c are separate units (extra_src); this unit is unix_io.c + io_manager.c + the file model.
 * All headers come first so that the libc renames below (function-like macros) touch only CALLS inside unix_io.c,
 * not declarations or the members of struct_io_manager shared with the other units. */
#include "config.h"
#include <stdio.h>
#include <string.h>
#include <stdlib.h>
#include <unistd.h>
#include <errno.h>
#include <fcntl.h>
#include <time.h>
#include <sys/utsname.h>
#include <sys/ioctl.h>
#include <sys/mount.h>
#include <sys/stat.h>
#include <sys/types.h>
#include <sys/resource.h>
#include <linux/falloc.h>
#include <pthread.h>
#include "ext2fs/ext2_fs.h"
#include "ext2fs/ext2fs.h"

#define F 16		/* the model's byte array is never read here; writes are refused (or recorded, VF_COARSE) before touching it */
#define MAXIO 1024
#define VF_COARSE
#include "rofile.h"

#define pread64(a, b, c, d) vf_pread64(a, b, c, d)
#define pwrite64(a, b, c, d) vf_pwrite64(a, b, c, d)
#define fsync(a) vf_fsync(a)
#define fallocate(a, b, c, d) vf_fallocate(a, b, c, d)
#define ftruncate(a, b) vf_ftruncate(a, b)
#define ext2fs_llseek(a, b, c) vf_llseek(a, b, c)
#define lseek(a, b, c) vf_lseek(a, b, c)
#define read(a, b, c) vf_read(a, b, c)
#define write(a, b, c) vf_write(a, b, c)
#define close(a) vf_close(a)
#define fstat(a, b) vf_fstat(a, b)
#define fstat64(a, b) vf_fstat64(a, b)
#define ioctl(a, ...) vf_ioctl(a, __VA_ARGS__)
#define posix_fadvise(a, b, c, d) vf_posix_fadvise(a, b, c, d)
#define open64(a, ...) vf_open64(a, __VA_ARGS__)
#include "lib/ext2fs/unix_io.c"
#include "lib/ext2fs/io_manager.c"

struct vf_in {
	unsigned int flags;
	int close_flags;
	__u16 state;
};
VF_DECLARE_INPUT(struct vf_in, IN)
#include "vf_input.inc"

#include "ro_common.h"

/* STUB: no UNIX_IO_* environment overrides; superblock checksum setter succeeds (C14); ext2fs_mmp_stop is a no-op on a read-only handle (decided in ro_mmp); ext2fs_free counts */
char *ext2fs_safe_getenv(const char *arg) { (void) arg; return 0; }
int ext2fs_get_dio_alignment(int fd) { (void) fd; return 0; }
errcode_t ext2fs_superblock_csum_set(ext2_filsys fs, struct ext2_super_block *sb) { (void) fs; (void) sb; return 0; }
errcode_t ext2fs_mmp_stop(ext2_filsys fs) { (void) fs; return 0; }
static int vf_freed;
void ext2fs_free(ext2_filsys fs) { (void) fs; vf_freed++; }

#ifdef ORIG
static struct ext2_super_block vf_orig;
#endif
static struct struct_io_channel vf_chan;
static struct unix_private_data vf_data;
static unsigned char vf_bufs[CACHE_SIZE][1024] __attribute__((aligned(8)));

int main(void)
{
	io_channel och = 0;
	errcode_t rc;
	int i;

	VF_INPUT(IN);
	vf_dev_size = F;
	rc = unix_io_manager->open(vf_devname, 0, &och);	/* what ext2fs_open2 does for a read-only open (open_ro) */
	PROP(rc == 0 && och != 0, "read-only channel opens");

	/* BOUND: the channel under test is a static object with the descriptor the real open produced and an EMPTY cache (a heap channel loses constant propagation: > 10 GB); block size 1024 */
	vf_chan.magic = EXT2_ET_MAGIC_IO_CHANNEL;
	vf_chan.manager = unix_io_manager;
	vf_chan.block_size = 1024;
	vf_chan.private_data = &vf_data;
	vf_chan.refcount = 1;
	vf_data.magic = EXT2_ET_MAGIC_UNIX_IO_CHANNEL;
	vf_data.dev = ((struct unix_private_data *) och->private_data)->dev;
	vf_data.io_stats.num_fields = 2;
	for (i = 0; i < CACHE_SIZE; i++)
		vf_data.cache[i].buf = (char *) vf_bufs[i];
	vf_wr_refused = 0;

	vf_setup_fs(IN.flags, 128);
	vf_fs.io = &vf_chan;
	vf_fs.image_io = &vf_chan;
	/* BOUND: plain geometry (no meta_bg/64bit/journal_dev; sparse_super on): the feature words are constants here, the flag word is what is symbolic */
	vf_sb.s_feature_ro_compat = EXT2_FEATURE_RO_COMPAT_SPARSE_SUPER;
	vf_sb.s_state = IN.state;
	/* the case under test: read-only handle, superblock marked dirty; in-core bitmaps clean (else ext2fs_write_bitmaps refuses first: ro_bitmaps/close_ro) */
	vf_fs.flags |= EXT2_FLAG_DIRTY;
	vf_fs.write_bitmaps = 0;
#ifdef ORIG
	/* shadow copy as ext2fs_open2 keeps it: equal to the in-core superblock; whether the flush changes anything (s_wtime := fs->now = 1000) is chosen per query */
	vf_sb.s_wtime = ORIG ? 5 : 1000;	/* compile-time: ORIG=1 the flush changes s_wtime, ORIG=0 it changes nothing */
	vf_orig = vf_sb;
	vf_fs.orig_super = &vf_orig;
#endif

	rc = ext2fs_close2(&vf_fs, IN.close_flags);

	PROP(vf_rdonly && !vf_dev_touched, "read-only dirty handle: close does not modify the device");
	PROP(rc != 0 || vf_wr_refused == 0, "read-only dirty handle: a refused device write makes close fail");
	PROP(vf_freed == (rc == 0), "close releases the handle exactly on success");
#ifdef ORIG
	if (!ORIG && (IN.flags & EXT2_FLAG_SUPER_ONLY))
		PROP(rc == 0 && vf_wr_refused == 0, "read-only dirty handle, SUPER_ONLY, superblock identical to its shadow: nothing is written and close succeeds");
	else
		PROP(rc != 0 && vf_wr_refused > 0, "read-only dirty handle: descriptors or a changed superblock word are attempted, refused and reported");
#else
	PROP(rc != 0 && vf_wr_refused > 0, "read-only dirty handle without shadow superblock: close always attempts the primary superblock and fails");
#endif
	VF_END();
	return 0;
}
