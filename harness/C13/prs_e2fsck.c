/*
 * C13/prs_e2fsck: e2fsck's real option parser PRS() (e2fsck/unix.c) on a concrete
 * argv per query: the GUARANTEE that harness main_e2fsck assumes about the
 * context PRS() returns (assume-guarantee closure of the cut).
 *
 * For each argv set: PRS() returns 0 exactly for the consistent sets, and then
 *   E2F_OPT_READONLY and E2F_OPT_NO are set exactly when -n is in argv;
 *   at most one of PREEN / NO / YES; the expected PREEN/YES/FORCE bits;
 *   with -n: no COMPRESS_DIRS, CHECKBLOCKS, WRITECHECK, DISCARD;
 *   ctx->flags has no bit other than E2F_FLAG_SB_SPECIFIED;
 *   filesystem_name is the device argument;
 *   the -F flush opens the device O_RDONLY.
 * For the conflicting sets (-n with -p/-a/-y/-D/-c/-l) PRS() never returns: it
 * ends in fatal_error().
 * getopt() is the deterministic restatement vf_getopt.h (the CBMC library model
 * returns an arbitrary option letter).
 */
#include "config.h"
#include <stdio.h>
#include <stdlib.h>
#include <string.h>
#include <fcntl.h>
#include <ctype.h>
#include <time.h>
#include <signal.h>
#include <getopt.h>
#include <unistd.h>
#include <errno.h>
#include <sys/ioctl.h>
#include <malloc.h>
#include <sys/types.h>
#include <dirent.h>
#include <libgen.h>
#include <locale.h>
#include <libintl.h>
#include "e2p/e2p.h"
#include "et/com_err.h"
#include "uuid/uuid.h"
#include "support/plausible.h"
#include "support/devname.h"
#include "e2fsck.h"

void vf_exit(int code);
int vf_open(const char *path, int oflags, ...);
int vf_close(int fd);
int vf_getopt(int argc, char *const argv[], const char *optstring);
char *vf_getenv(const char *n);
int vf_isatty(int fd);
int vf_sigaction(int sig, const struct sigaction *a, struct sigaction *o);
static char *vf_optarg;
static int vf_optind = 1;
#define exit(c) vf_exit(c)
#define open(...) vf_open(__VA_ARGS__)
#define close(fd) vf_close(fd)
#define getopt(a, b, c) vf_getopt(a, b, c)
#define optarg vf_optarg
#define optind vf_optind
#define getenv(n) vf_getenv(n)
#define isatty(fd) vf_isatty(fd)
#define sigaction(s, a, o) vf_sigaction(s, a, o)
#define setvbuf(a, b, c, d) ((void) 0)
#undef gettext
#define gettext(s) (s)
#define setlocale(a, b) ((void) 0)
#define bindtextdomain(a, b) ((void) 0)
#define textdomain(a) ((void) 0)
#define set_com_err_gettext(f) ((void) 0)
#define printf(...) ((void) 0)
#define puts(s) ((void) 0)
#define fprintf(...) ((void) 0)
#define fputs(s, f) ((void) 0)
#define fputc(c, f) ((void) 0)
#define strerror(e) ("")
#define main vf_real_main
#include "e2fsck/unix.c"
#undef main
#undef exit
#undef open
#undef close
#undef printf
#undef puts
#undef fprintf
#undef fputs
#undef fputc
#undef strerror
#undef getenv
#undef isatty
#undef sigaction

#ifndef ARGS
#define ARGS 1
#endif

struct vf_in {
	unsigned char tty, prof_bool, sync_fails, open_fails;
	int prof_int;
	unsigned long long mem;
};
VF_DECLARE_INPUT(struct vf_in, IN)
#include "vf_input.inc"
#include "env.c"

static char a_prog[2] = "e", a_dev[2] = "d", a_undo[2] = "u", a_file[2] = "f", a_disc[8] = "discard";
static char o_n[3] = "-n", o_fn[4] = "-fn", o_f[3] = "-f", o_v[3] = "-v", o_p[3] = "-p", o_y[3] = "-y", o_pf[4] = "-pf",
	    o_F[3] = "-F", o_E[3] = "-E", o_z[3] = "-z", o_D[3] = "-D", o_nc[4] = "-nc", o_l[3] = "-l", o_a[3] = "-a";
/* EXP: expected PREEN|NO|YES|FORCE|READONLY bits; FATAL: PRS must not return */
#define M (E2F_OPT_PREEN | E2F_OPT_NO | E2F_OPT_YES | E2F_OPT_FORCE | E2F_OPT_READONLY)
#define RO (E2F_OPT_NO | E2F_OPT_READONLY)
#if ARGS == 1
static char *vf_argv[] = { a_prog, o_n, a_dev, 0 };
#define EXP RO
#elif ARGS == 2
static char *vf_argv[] = { a_prog, o_fn, a_dev, 0 };
#define EXP (RO | E2F_OPT_FORCE)
#elif ARGS == 3
static char *vf_argv[] = { a_prog, o_n, o_f, o_v, a_dev, 0 };
#define EXP (RO | E2F_OPT_FORCE)
#elif ARGS == 4
static char *vf_argv[] = { a_prog, o_p, a_dev, 0 };
#define EXP E2F_OPT_PREEN
#elif ARGS == 5
static char *vf_argv[] = { a_prog, o_y, a_dev, 0 };
#define EXP E2F_OPT_YES
#elif ARGS == 6
static char *vf_argv[] = { a_prog, o_f, a_dev, 0 };
#define EXP E2F_OPT_FORCE
#elif ARGS == 7
static char *vf_argv[] = { a_prog, o_pf, a_dev, 0 };
#define EXP (E2F_OPT_PREEN | E2F_OPT_FORCE)
#elif ARGS == 8
static char *vf_argv[] = { a_prog, o_n, o_F, a_dev, 0 };
#define EXP RO
#elif ARGS == 9
static char *vf_argv[] = { a_prog, o_n, o_E, a_disc, a_dev, 0 };
#define EXP RO
#elif ARGS == 10
static char *vf_argv[] = { a_prog, o_n, o_z, a_undo, a_dev, 0 };
#define EXP RO
#elif ARGS == 11
static char *vf_argv[] = { a_prog, a_dev, 0 };
#define EXP 0
#elif ARGS == 20
static char *vf_argv[] = { a_prog, o_n, o_p, a_dev, 0 };
#define FATAL
#elif ARGS == 21
static char *vf_argv[] = { a_prog, o_p, o_n, a_dev, 0 };
#define FATAL
#elif ARGS == 22
static char *vf_argv[] = { a_prog, o_y, o_n, a_dev, 0 };
#define FATAL
#elif ARGS == 23
static char *vf_argv[] = { a_prog, o_n, o_D, a_dev, 0 };
#define FATAL
#elif ARGS == 24
static char *vf_argv[] = { a_prog, o_nc, a_dev, 0 };
#define FATAL
#elif ARGS == 25
static char *vf_argv[] = { a_prog, o_n, o_l, a_file, a_dev, 0 };
#define FATAL
#elif ARGS == 26
static char *vf_argv[] = { a_prog, o_a, o_n, a_dev, 0 };
#define FATAL
#else
#error ARGS
#endif
#define VF_ARGC ((int) (sizeof(vf_argv) / sizeof(vf_argv[0])) - 1)

#include "vf_getopt.h"

static struct e2fsck_struct vf_ctx;
static int vf_fatal, vf_nflush_open, vf_flush_open_bad;

/* STUB: fatal_error()/exit() end the path (the conflicting sets must end here) */
static void vf_end(int fatal)
{
#ifdef FATAL
	PROP(fatal, "conflicting options: PRS ends in fatal_error");
#else
	(void) fatal;
#endif
	VF_END();
#ifdef VF_REPLAY
	fflush(0);
	_exit(0);
#else
	__CPROVER_assume(0);
#endif
}
void fatal_error(e2fsck_t ctx, const char *msg) { (void) ctx; (void) msg; vf_fatal = 1; vf_end(1); }
void vf_exit(int code) { (void) code; vf_end(0); }

/* STUB: context allocation hands out a zeroed static context; environment empty; tty symbolic; profile answers symbolic; devname lookup is the identity */
errcode_t e2fsck_allocate_context(e2fsck_t *ret) { *ret = &vf_ctx; return 0; }
char *vf_getenv(const char *n) { (void) n; return 0; }
int vf_isatty(int fd) { (void) fd; return IN.tty & 1; }
int vf_sigaction(int sig, const struct sigaction *a, struct sigaction *o) { (void) sig; (void) a; (void) o; return 0; }
errcode_t add_error_table(const struct error_table *et) { (void) et; return 0; }
const struct error_table et_ext2_error_table, et_prof_error_table;
int blkid_get_cache(blkid_cache *cache, const char *filename) { (void) filename; *cache = 0; return 0; }
__u64 get_memory_size(void) { return IN.mem; }
char *get_devname(blkid_cache cache, const char *token, const char *value) { (void) cache; (void) value; return (char *) token; }
char *string_copy(e2fsck_t ctx, const char *str, size_t len)
{
	char *r;
	(void) ctx;
	if (!len) len = strlen(str);
	r = malloc(len + 1);
	if (r) { memcpy(r, str, len); r[len] = 0; }
	return r;
}
profile_syntax_err_cb_t profile_set_syntax_err_cb(profile_syntax_err_cb_t hook) { return hook; }
errcode_t profile_init(const char * const *files, profile_t *ret) { (void) files; *ret = 0; return 0; }
errcode_t profile_get_boolean(profile_t profile, const char *name, const char *subname, const char *subsubname,
			      int def_val, int *ret_boolean)
{ (void) profile; (void) name; (void) subname; (void) subsubname; (void) def_val; *ret_boolean = IN.prof_bool & 1; return 0; }
errcode_t profile_get_integer(profile_t profile, const char *name, const char *subname, const char *subsubname,
			      int def_val, int *ret_int)
{ (void) profile; (void) name; (void) subname; (void) subsubname; (void) def_val; *ret_int = IN.prof_int; return 0; }
const char *error_message(long code) { (void) code; return ""; }
void log_out(e2fsck_t ctx, const char *fmt, ...) { (void) ctx; (void) fmt; }
void log_err(e2fsck_t ctx, const char *fmt, ...) { (void) ctx; (void) fmt; }
/* STUB: open() for the -F flush records whether it is read-only */
int vf_open(const char *path, int oflags, ...)
{
	(void) path;
	vf_nflush_open++;
	if ((oflags & O_ACCMODE) != O_RDONLY) vf_flush_open_bad = 1;
	if (IN.open_fails & 1) { errno = EACCES; return -1; }
	return 5;
}
int vf_close(int fd) { (void) fd; return 0; }
errcode_t ext2fs_sync_device(int fd, int flushb) { (void) fd; (void) flushb; return (IN.sync_fails & 1) ? EIO : 0; }

int main(void)
{
	e2fsck_t ctx = 0;
	errcode_t rc;
	int o;

	VF_INPUT(IN);
	rc = PRS(VF_ARGC, vf_argv, &ctx);
#ifdef FATAL
	PROP(0, "conflicting options: PRS never returns");
#else
	PROP(rc == 0 && ctx == &vf_ctx, "consistent options: PRS succeeds");
	o = ctx->options;
	PROP((o & M) == (EXP), "PRS: PREEN/NO/YES/FORCE/READONLY bits are exactly the ones asked for (-n <=> NO|READONLY)");
	PROP(((o & E2F_OPT_READONLY) != 0) == ((o & E2F_OPT_NO) != 0), "PRS: READONLY is set exactly with NO");
	PROP(((o & E2F_OPT_PREEN) != 0) + ((o & E2F_OPT_NO) != 0) + ((o & E2F_OPT_YES) != 0) <= 1, "PRS: at most one of -p, -n, -y");
	if (o & E2F_OPT_NO)
		PROP(!(o & (E2F_OPT_COMPRESS_DIRS | E2F_OPT_CHECKBLOCKS | E2F_OPT_WRITECHECK | E2F_OPT_DISCARD)),
		     "PRS: -n excludes -D, -c and discard");
	PROP((ctx->flags & ~E2F_FLAG_SB_SPECIFIED) == 0, "PRS: ctx->flags carries nothing but SB_SPECIFIED");
	PROP(ctx->filesystem_name == a_dev && ctx->program_name == a_prog, "PRS: device and program name recorded");
	PROP(!vf_flush_open_bad, "PRS: the -F flush opens the device O_RDONLY");
#if ARGS == 8
	PROP(vf_nflush_open == 1, "PRS: -F opens the device once for flushing");
#endif
#if ARGS == 10
	PROP(ctx->undo_file == a_undo, "PRS: -z records the undo file");
#endif
	vf_end(0);
#endif
	return 0;
}
