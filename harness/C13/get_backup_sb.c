/*
 * C20/C13 get_backup_sb: e2fsck/util.c:get_backup_sb() -- the search plain e2fsck
 * runs when the primary superblock is unusable -- on the real
 * lib/ext2fs/res_gdt.c:ext2fs_list_backups(), over an io stub that answers from
 * a "true geometry" (pattern D: reader vs. the on-disk format's backup placement).
 *
 * True geometry: block size T = 1024 << TRUE_K (one query per TRUE_K = 0,1,2),
 * default group size 8*T blocks, G groups (symbolic, 2..30); a backup superblock
 * sits at the first block of group g iff g is a backup group of the format
 * (1 and the powers of 3, 5, 7) AND its symbolic `intact' bit is set.  Reads
 * anywhere else return zeros, reads past the device fail.
 *
 * Asserted:
 *  - blocksize unknown (no fs, no -B; the e2fsck default): if some backup group
 *    inside the device is intact, the result is the first block of the FIRST
 *    intact backup group in list order (1,3,5,7,9,25,27), ctx->superblock equals
 *    it and ctx->blocksize is the TRUE block size -- for every true block size;
 *    if none is intact: the documented default 8193, ctx untouched;
 *  - -B given (CTXBS): only that block size is probed: same result if it is the
 *    true one, default/untouched otherwise;
 *  - fs with a superblock given (WITH_FS): its block size and group size are used;
 *  - the channel is opened once with io flags 0 (read-only: C13), set to each
 *    probed block size before reading, never written, closed exactly once.
 */
#include "config.h"
#include <stdio.h>
#include <stdlib.h>
#include <string.h>
#include <errno.h>
#include "e2fsck.h"

#ifndef TRUE_K
#define TRUE_K 0
#endif
#ifndef CTXBS
#define CTXBS 0
#endif
#define T (1024u << TRUE_K)
#define BPG (8u * T)
#define MAXG 30

struct vf_in {
	__u32 groups;
	unsigned char intact[7];	/* backup groups 1,3,5,7,9,25,27 */
	unsigned long long old_superblock;
};
VF_DECLARE_INPUT(struct vf_in, IN)
#include "vf_input.inc"

static const unsigned vf_blist[7] = { 1, 3, 5, 7, 9, 25, 27 };	/* the format's backup groups below 30, ascending = list order */

static struct e2fsck_struct vf_ctx;
static struct struct_io_channel vf_io;
static struct struct_io_manager vf_mgr;
static char vf_name[2] = "d";
static int vf_nopen, vf_open_flags, vf_nclose, vf_nwrite, vf_cur_bs, vf_nreads, vf_read_wrong_bs;
static unsigned long long vf_dev_bytes;

/* first block of group g in the true geometry (1 KiB block filesystems start at block 1) */
static unsigned long long ref_first_block(unsigned g) { return (unsigned long long) g * BPG + (T == 1024 ? 1 : 0); }

static errcode_t stub_open(const char *name, int flags, io_channel *ch)
{
	(void) name;
	vf_nopen++;
	vf_open_flags = flags;
	vf_io.magic = EXT2_ET_MAGIC_IO_CHANNEL;
	vf_io.manager = &vf_mgr;
	vf_io.block_size = 1024;
	vf_cur_bs = 1024;
	*ch = &vf_io;
	return 0;
}
static errcode_t stub_close(io_channel ch) { (void) ch; vf_nclose++; return 0; }
static errcode_t stub_set_blksize(io_channel ch, int bs) { ch->block_size = bs; vf_cur_bs = bs; return 0; }
/* STUB: read of SUPERBLOCK_SIZE bytes at block blk of the CURRENT channel block size: byte offset blk*bs in the true geometry */
static errcode_t stub_read_blk64(io_channel ch, unsigned long long blk, int count, void *data)
{
	unsigned long long off = blk * (unsigned long long) vf_cur_bs;
	struct ext2_super_block *sb = data;
	int i;
	(void) ch;
	vf_nreads++;
	if (count != -SUPERBLOCK_SIZE)
		return EXT2_ET_SHORT_READ;
	if (off + SUPERBLOCK_SIZE > vf_dev_bytes)
		return EXT2_ET_SHORT_READ;
	memset(data, 0, SUPERBLOCK_SIZE);
	for (i = 0; i < 7; i++)
		if (vf_blist[i] < IN.groups && (IN.intact[i] & 1) && off == ref_first_block(vf_blist[i]) * T) {
			sb->s_magic = EXT2_SUPER_MAGIC;
			sb->s_log_block_size = TRUE_K;
			sb->s_blocks_per_group = BPG;
			sb->s_block_group_nr = vf_blist[i];
		}
	return 0;
}
static errcode_t stub_read_blk(io_channel ch, unsigned long blk, int count, void *data) { return stub_read_blk64(ch, blk, count, data); }
static errcode_t stub_write_blk64(io_channel ch, unsigned long long blk, int count, const void *data)
{ (void) ch; (void) blk; (void) count; (void) data; vf_nwrite++; return 0; }
static errcode_t stub_write_blk(io_channel ch, unsigned long blk, int count, const void *data)
{ (void) ch; (void) blk; (void) count; (void) data; vf_nwrite++; return 0; }

/* STUB: the device size in units of the asked block size (or failure: then get_backup_sb falls back to 128 groups) */
errcode_t ext2fs_get_device_size2(const char *file, int blocksize, blk64_t *retblocks)
{
	(void) file;
#ifdef DEVFAIL	/* compile-time: the size query fails and the search falls back to 128 groups per block size */
	return EXT2_ET_UNIMPLEMENTED;
#endif
	*retblocks = vf_dev_bytes / (unsigned) blocksize;
	return 0;
}

#ifdef WITH_FS
static struct struct_ext2_filsys vf_fs;
static struct ext2_super_block vf_sb;
#endif

int main(void)
{
	blk64_t got, want = 8193;
	int i, found = 0;
	ext2_filsys fs = 0;

	VF_INPUT(IN);
	/* BOUND: 2..30 groups of the default size (8 * block size blocks) */
	ASSUME(IN.groups >= 2 && IN.groups <= MAXG);
	vf_dev_bytes = ((unsigned long long) IN.groups * BPG + (T == 1024 ? 1 : 0)) * T;
	vf_mgr.magic = EXT2_ET_MAGIC_IO_MANAGER;
	vf_mgr.open = stub_open;
	vf_mgr.close = stub_close;
	vf_mgr.set_blksize = stub_set_blksize;
	vf_mgr.read_blk = stub_read_blk;
	vf_mgr.read_blk64 = stub_read_blk64;
	vf_mgr.write_blk = stub_write_blk;
	vf_mgr.write_blk64 = stub_write_blk64;
	vf_ctx.filesystem_name = vf_name;
	vf_ctx.blocksize = CTXBS;
	vf_ctx.superblock = IN.old_superblock;
#ifdef WITH_FS
	vf_sb.s_blocks_per_group = BPG;
	vf_sb.s_log_block_size = TRUE_K;
	vf_sb.s_blocks_count = IN.groups * BPG + (T == 1024 ? 1 : 0);
	vf_fs.super = &vf_sb;
	vf_fs.blocksize = T;
	fs = &vf_fs;
#endif

	got = get_backup_sb(&vf_ctx, fs, vf_name, &vf_mgr);

	/* reference: first intact backup group inside the device, in list order -- provided the true block size gets probed at all */
	for (i = 6; i >= 0; i--)
		if (vf_blist[i] < IN.groups && (IN.intact[i] & 1)) {
			want = ref_first_block(vf_blist[i]);
			found = 1;
		}
#if CTXBS != 0
	if (CTXBS != T) { found = 0; want = 8193; }
#endif
	PROP(got == want, "get_backup_sb returns the first block of the first intact backup group (list order) at the true block size, else the default 8193");
	if (found) {
		PROP(vf_ctx.superblock == want && vf_ctx.blocksize == (int) T, "ctx->superblock / ctx->blocksize are set to the backup found and the TRUE block size");
	} else
		PROP(vf_ctx.superblock == IN.old_superblock && vf_ctx.blocksize == CTXBS, "nothing found: ctx->superblock / ctx->blocksize are left alone");
	PROP(vf_nopen == 1 && vf_open_flags == 0, "the device is opened once, with io flags 0 (read-only)");
	PROP(vf_nclose == 1 && vf_nwrite == 0, "the channel is closed exactly once and never written");
	PROP(vf_nreads <= 120, "bounded probing");
	VF_END();
	return 0;
}
