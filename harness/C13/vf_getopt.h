/* vf_getopt.h -- shared by the main()-prefix harnesses.  Expects: static char *vf_optarg; static int vf_optind = 1; declared before. */
/* STUB: getopt(): POSIX short-option parsing (clusters, "x:" arguments attached or separate, stops at the first non-option), deterministic */
static int vf_optpos = 1;
int vf_getopt(int argc, char *const argv[], const char *optstring)
{
	const char *a, *p;
	char c;
	if (vf_optind >= argc)
		return -1;
	a = argv[vf_optind];
	if (a[0] != '-' || a[1] == 0)
		return -1;
	if (a[1] == '-' && a[2] == 0) { vf_optind++; return -1; }
	c = a[vf_optpos];
	p = optstring;
	while (*p && *p != c) p++;
	if (c == ':' || *p == 0) {
		if (a[++vf_optpos] == 0) { vf_optind++; vf_optpos = 1; }
		return '?';
	}
	if (p[1] == ':') {
		if (a[vf_optpos + 1]) {
			vf_optarg = (char *) &a[vf_optpos + 1];
			vf_optind++;
		} else if (vf_optind + 1 < argc) {
			vf_optarg = argv[vf_optind + 1];
			vf_optind += 2;
		} else {
			vf_optind++; vf_optpos = 1;
			return '?';
		}
		vf_optpos = 1;
		return c;
	}
	if (a[++vf_optpos] == 0) { vf_optind++; vf_optpos = 1; }
	return c;
}

