/*
 * C13/main_debugfs: debugfs's real main() (debugfs/debugfs.c) with its option ->
 * open_flags mapping, the real open_filesystem() and close_filesystem(), and (entry
 * ENTRY_OPEN) the real do_open_filesys() of the `open' command; concrete argv per
 * query (pattern P).
 *
 * Real code: main(), do_open_filesys(), open_filesystem() incl. its
 * try_open_again retry, close_filesystem().  Cut (cut_statics): debugfs_setup_tdb()
 * (undo-file setup, reached with -z only).  The command interpreter (libss) is a
 * stub that executes NO request: what the individual debugfs commands do with a
 * handle that lacks EXT2_FLAG_RW is outside (they rely on the library refusing:
 * ro_inode, ro_bitmaps, unix_ro ...).
 * Recording stubs: ext2fs_open() (flags / superblock / blocksize / manager of every
 * call), unix_io_manager->open (the -d data source), ext2fs_read_bitmaps(),
 * ext2fs_set_data_io(), ext2fs_close_free(), ext2fs_write_*_bitmap().
 *
 * Asserted:
 *   without -w: every ext2fs_open call (incl. the IGNORE_CSUM_ERRORS retry) lacks
 *   EXT2_FLAG_RW (and EXCLUSIVE unless `open -e'); the flag word is exactly the
 *   documented one (-i IMAGE_FILE, -n IGNORE_CSUM_ERRORS, -D DIRECT_IO, -c
 *   SKIP_MMP|IGNORE_SB_ERRORS, `open -f' FORCE, `open -e' EXCLUSIVE); -c: the bitmaps
 *   are not loaded; otherwise loaded once after a successful open; the -d data
 *   source channel is opened with io flags 0 (read-only) and only together with
 *   -i; -s without -b and -d without -i open nothing; no writer is reached and the
 *   handle is not dirty when main() closes it.
 *   control: -w opens with EXT2_FLAG_RW.
 */
#include "config.h"
#include <stdio.h>
#include <unistd.h>
#include <stdlib.h>
#include <ctype.h>
#include <string.h>
#include <time.h>
#include <libgen.h>
#include <locale.h>
#include <getopt.h>
#include <errno.h>
#include <fcntl.h>
#include <sys/sysmacros.h>
#include "debugfs.h"
#include "uuid/uuid.h"
#include "e2p/e2p.h"
#include <ext2fs/ext2_ext_attr.h>
#include "jfs_user.h"
#include "support/plausible.h"

void vf_exit(int code);
int vf_getopt(int argc, char *const argv[], const char *optstring);
unsigned long vf_strtoul(const char *s, char **end, int base);
static char *vf_optarg;
static int vf_optind = 1;
#define exit(c) vf_exit(c)
#define getopt(a, b, c) vf_getopt(a, b, c)
#define optarg vf_optarg
#define optind vf_optind
#define setlocale(a, b) ((void) 0)
#define printf(...) ((void) 0)
#define fprintf(...) ((void) 0)
#define fputs(s, f) ((void) 0)
#define fputc(c, f) ((void) 0)
#define puts(s) ((void) 0)
#define getenv(n) ((char *) 0)	/* ASSUME: DEBUGFS_PAGER / PAGER / E2FSPROGS_UNDO_DIR / TEST_IO_* are not in the environment */
#define main vf_real_main
static int debugfs_setup_tdb(const char *device_name, char *undo_file, io_manager *io_ptr);	/* cut: defined below */
#include "debugfs/debugfs.c"
#undef main
#undef exit
#undef printf
#undef fprintf
#undef fputs
#undef fputc
#undef puts
#undef getenv

#ifndef ARGS
#define ARGS 1
#endif

struct vf_in {
	unsigned char open_fail;	/* bit n: the n-th ext2fs_open() call fails */
	unsigned char errkind, bitmaps_rc, dataopen_rc, setdata_rc, undo_rc, close_rc, ss_rc;
	__u32 feature_compat, feature_incompat, feature_ro_compat;
};
VF_DECLARE_INPUT(struct vf_in, IN)
#include "vf_input.inc"
#include "env.c"

/* ---- argv sets and their documented meaning (debugfs.8) ---- */
static char a_p[2] = "g", a_open[5] = "open", a_dev[2] = "x", a_data[2] = "y", a_u[2] = "u", a_req[2] = "q", a_4096[5] = "4096",
	    a_32768[6] = "32768", a_8193[5] = "8193";
static char o_c[3] = "-c", o_i[3] = "-i", o_n[3] = "-n", o_D[3] = "-D", o_b[3] = "-b", o_s[3] = "-s", o_d[3] = "-d", o_R[3] = "-R",
	    o_w[3] = "-w", o_z[3] = "-z", o_V[3] = "-V", o_cw[4] = "-cw", o_f[3] = "-f", o_e[3] = "-e", o_ci[4] = "-ci", o_q[3] = "-q";
#define X_RW 0
#define X_EXTRA 0
#define X_CATA 0
#define X_SB 0
#define X_BS 0
#define X_DATA 0
#define X_NOOPEN 0
#if ARGS == 1
static char *vf_argv[] = { a_p, a_dev, 0 };
#elif ARGS == 2
static char *vf_argv[] = { a_p, o_c, a_dev, 0 };
#undef X_CATA
#define X_CATA 1
#elif ARGS == 3
static char *vf_argv[] = { a_p, o_i, a_dev, 0 };
#undef X_EXTRA
#define X_EXTRA EXT2_FLAG_IMAGE_FILE
#elif ARGS == 4
static char *vf_argv[] = { a_p, o_n, a_dev, 0 };
#undef X_EXTRA
#define X_EXTRA EXT2_FLAG_IGNORE_CSUM_ERRORS
#elif ARGS == 5
static char *vf_argv[] = { a_p, o_D, a_dev, 0 };
#undef X_EXTRA
#define X_EXTRA EXT2_FLAG_DIRECT_IO
#elif ARGS == 6
static char *vf_argv[] = { a_p, o_b, a_4096, o_s, a_32768, a_dev, 0 };
#undef X_SB
#define X_SB 32768
#undef X_BS
#define X_BS 4096
#elif ARGS == 7
static char *vf_argv[] = { a_p, o_i, o_d, a_data, a_dev, 0 };
#undef X_EXTRA
#define X_EXTRA EXT2_FLAG_IMAGE_FILE
#undef X_DATA
#define X_DATA 1
#elif ARGS == 8
static char *vf_argv[] = { a_p, o_ci, a_dev, 0 };
#undef X_EXTRA
#define X_EXTRA EXT2_FLAG_IMAGE_FILE
#undef X_CATA
#define X_CATA 1
#elif ARGS == 9
static char *vf_argv[] = { a_p, o_R, a_req, a_dev, 0 };
#elif ARGS == 10	/* refused / nothing to open */
static char *vf_argv[] = { a_p, o_s, a_8193, a_dev, 0 };
#undef X_NOOPEN
#define X_NOOPEN 1
#elif ARGS == 11
static char *vf_argv[] = { a_p, o_d, a_data, a_dev, 0 };
#undef X_NOOPEN
#define X_NOOPEN 1
#elif ARGS == 12
static char *vf_argv[] = { a_p, o_c, 0 };
#undef X_NOOPEN
#define X_NOOPEN 1
#elif ARGS == 13
static char *vf_argv[] = { a_p, o_V, a_dev, 0 };
#undef X_NOOPEN
#define X_NOOPEN 1
#elif ARGS == 14
static char *vf_argv[] = { a_p, o_q, a_dev, 0 };
#undef X_NOOPEN
#define X_NOOPEN 1
#elif ARGS == 20	/* control */
static char *vf_argv[] = { a_p, o_w, a_dev, 0 };
#undef X_RW
#define X_RW 1
#elif ARGS == 21
static char *vf_argv[] = { a_p, o_w, o_z, a_u, a_dev, 0 };
#undef X_RW
#define X_RW 1
#elif ARGS == 22	/* debugfs.8: "catastrophic mode forces the file system to be opened read-only" */
static char *vf_argv[] = { a_p, o_cw, a_dev, 0 };
#undef X_CATA
#define X_CATA 1
#elif ARGS == 30	/* the `open' command */
#define ENTRY_OPEN
static char *vf_argv[] = { a_open, a_dev, 0 };
#elif ARGS == 31
#define ENTRY_OPEN
static char *vf_argv[] = { a_open, o_c, a_dev, 0 };
#undef X_CATA
#define X_CATA 1
#elif ARGS == 32
#define ENTRY_OPEN
static char *vf_argv[] = { a_open, o_f, o_i, a_dev, 0 };
#undef X_EXTRA
#define X_EXTRA (EXT2_FLAG_FORCE | EXT2_FLAG_IMAGE_FILE)
#elif ARGS == 33
#define ENTRY_OPEN
static char *vf_argv[] = { a_open, o_e, o_D, a_dev, 0 };
#undef X_EXTRA
#define X_EXTRA (EXT2_FLAG_EXCLUSIVE | EXT2_FLAG_DIRECT_IO)
#elif ARGS == 34
#define ENTRY_OPEN
static char *vf_argv[] = { a_open, o_i, o_d, a_data, o_b, a_4096, o_s, a_32768, a_dev, 0 };
#undef X_EXTRA
#define X_EXTRA EXT2_FLAG_IMAGE_FILE
#undef X_DATA
#define X_DATA 1
#undef X_SB
#define X_SB 32768
#undef X_BS
#define X_BS 4096
#elif ARGS == 35
#define ENTRY_OPEN
static char *vf_argv[] = { a_open, a_dev, a_dev, 0 };
#undef X_NOOPEN
#define X_NOOPEN 1
#elif ARGS == 36
#define ENTRY_OPEN
static char *vf_argv[] = { a_open, o_w, a_dev, 0 };
#undef X_RW
#define X_RW 1
#else
#error ARGS
#endif
#define VF_ARGC ((int) (sizeof(vf_argv) / sizeof(vf_argv[0])) - 1)
#define X_FLAGS (EXT2_FLAG_SOFTSUPP_FEATURES | EXT2_FLAG_64BITS | EXT2_FLAG_THREADS | (X_EXTRA) | (X_RW ? EXT2_FLAG_RW : 0) | \
		 (X_CATA ? (EXT2_FLAG_SKIP_MMP | EXT2_FLAG_IGNORE_SB_ERRORS) : 0))

#include "vf_getopt.h"
void reset_getopt(void) { vf_optind = 1; vf_optpos = 1; }

/* STUB: number parsing of debugfs/util.c: decimal digits only (the argv sets use decimal numbers) */
unsigned long vf_strtoul(const char *s, char **end, int base)
{
	unsigned long v = 0;
	int i;
	(void) base;
	for (i = 0; i < 8 && s[i] >= '0' && s[i] <= '9'; i++)
		v = v * 10 + (unsigned long) (s[i] - '0');
	if (end)
		*end = (char *) &s[i];
	return v;
}
unsigned long parse_ulong(const char *str, const char *cmd, const char *descr, int *err)
{ (void) cmd; (void) descr; if (err) *err = 0; return vf_strtoul(str, 0, 0); }
int strtoblk(const char *cmd, const char *str, const char *errmsg, blk64_t *ret)
{ (void) cmd; (void) errmsg; *ret = vf_strtoul(str, 0, 0); return 0; }
int check_fs_not_open(char *name) { (void) name; return current_fs != 0; }

static int vf_nopen, vf_open_rw, vf_open_norw, vf_open_badflags, vf_open_badgeom, vf_opened, vf_retry_bad;
static int vf_nbitmaps, vf_bitmaps_before_open, vf_ndataopen, vf_dataopen_flags, vf_nsetdata, vf_nwriters, vf_niowrite;
static int vf_nclose, vf_close_dirty, vf_ended, vf_nundo, vf_last_err;
static struct struct_ext2_filsys vf_fs;
static struct ext2_super_block vf_sb;
static struct struct_io_channel vf_io, vf_data_io;
static struct struct_io_manager vf_unix_mgr, vf_undo_mgr;
io_manager unix_io_manager = &vf_unix_mgr;
io_manager undo_io_manager = &vf_undo_mgr;
const struct error_table et_ext2_error_table;
ss_request_table debug_cmds, ss_std_requests;

static void vf_finish(void)
{
	vf_ended = 1;
#if X_NOOPEN
	PROP(vf_nopen == 0 && vf_ndataopen == 0, "debugfs: -s without -b, -d without -i, -V, a bad option or no device open nothing");
#elif X_RW
	PROP(vf_open_norw == 0, "control: debugfs -w opens with EXT2_FLAG_RW");
#else
	PROP(vf_open_rw == 0, "debugfs without -w (and with -c): no ext2fs_open call carries EXT2_FLAG_RW");
	PROP(vf_nwriters == 0 && vf_niowrite == 0, "debugfs without -w: opening and closing reaches no bitmap write / flush / io write");
	PROP(vf_close_dirty == 0, "debugfs without -w: the handle is neither RW nor dirty when it is closed");
#endif
	PROP(vf_open_badflags == 0, "debugfs: the open flag word is the documented one for the options given");
	PROP(vf_open_badgeom == 0, "debugfs: superblock and block size passed to the open are the -s/-b values");
	PROP(vf_retry_bad == 0 && vf_nopen <= 2, "debugfs: one retry at most, only after EXT2_ET_SB_CSUM_INVALID, with IGNORE_CSUM_ERRORS added");
#if X_CATA
	PROP(vf_nbitmaps == 0, "debugfs -c: the allocation bitmaps are not loaded");
#else
	PROP(vf_nbitmaps == vf_opened && vf_bitmaps_before_open == 0, "debugfs: bitmaps are loaded once, after a successful open");
#endif
	PROP(vf_ndataopen == (X_DATA && !X_NOOPEN ? 1 : 0) && (vf_ndataopen == 0 || vf_dataopen_flags == 0),
	     "debugfs -d: the data source channel is opened once with io flags 0 (no IO_FLAG_RW), only with -i");
	PROP(vf_nclose <= vf_opened, "debugfs: closed at most once per successful open");
	VF_END();
#ifdef VF_REPLAY
	fflush(0);
	_exit(0);
#else
	__CPROVER_assume(0);
#endif
}
void vf_exit(int code) { (void) code; vf_finish(); }

static errcode_t stub_write_blk64(io_channel ch, unsigned long long blk, int count, const void *data)
{ (void) ch; (void) blk; (void) count; (void) data; vf_niowrite++; return 0; }
static errcode_t stub_write_blk(io_channel ch, unsigned long blk, int count, const void *data)
{ (void) ch; (void) blk; (void) count; (void) data; vf_niowrite++; return 0; }
static errcode_t stub_write_byte(io_channel ch, unsigned long off, int count, const void *data)
{ (void) ch; (void) off; (void) count; (void) data; vf_niowrite++; return 0; }
/* STUB: unix_io_manager->open as called for the -d data source: records the io flags */
static errcode_t stub_mgr_open(const char *name, int flags, io_channel *channel)
{
	(void) name;
	vf_ndataopen++;
	vf_dataopen_flags |= flags;
	if (IN.dataopen_rc & 1)
		return EXT2_ET_BAD_DEVICE_NAME;
	vf_data_io.magic = EXT2_ET_MAGIC_IO_CHANNEL;
	vf_data_io.manager = &vf_unix_mgr;
	*channel = &vf_data_io;
	return 0;
}

/* STUB: ext2fs_open(): records flags/superblock/block size/manager of EVERY call; fails per a symbolic mask with a symbolic error code */
errcode_t ext2fs_open(const char *name, int flags, int superblock, unsigned int block_size, io_manager manager, ext2_filsys *ret_fs)
{
	int n = vf_nopen++;
	(void) name;
	if (flags & EXT2_FLAG_RW) vf_open_rw++; else vf_open_norw++;
	if ((flags & ~(n ? EXT2_FLAG_IGNORE_CSUM_ERRORS : 0)) != (int) X_FLAGS)
		vf_open_badflags++;
	if (n && (vf_last_err != EXT2_ET_SB_CSUM_INVALID || !(flags & EXT2_FLAG_IGNORE_CSUM_ERRORS)))
		vf_retry_bad++;
	if (superblock != X_SB || block_size != X_BS || manager != (vf_nundo ? undo_io_manager : unix_io_manager))
		vf_open_badgeom++;
	if ((IN.open_fail >> (n & 7)) & 1) {
		*ret_fs = 0;
		vf_last_err = (IN.errkind & 3) == 0 ? EXT2_ET_SB_CSUM_INVALID : (IN.errkind & 3) == 1 ? EXT2_ET_BAD_MAGIC : EXT2_ET_SHORT_READ;
		return vf_last_err;
	}
	vf_opened++;
	vf_sb.s_magic = EXT2_SUPER_MAGIC;
	vf_sb.s_feature_compat = IN.feature_compat;
	vf_sb.s_feature_incompat = IN.feature_incompat;
	vf_sb.s_feature_ro_compat = IN.feature_ro_compat;
	vf_io.magic = EXT2_ET_MAGIC_IO_CHANNEL;
	vf_io.manager = manager;
	vf_fs.magic = EXT2_ET_MAGIC_EXT2FS_FILSYS;
	vf_fs.super = &vf_sb;
	vf_fs.io = &vf_io;
	vf_fs.flags = flags;
	vf_fs.blocksize = 1024;
	vf_fs.group_desc_count = 1;
	*ret_fs = &vf_fs;
	return 0;
}
errcode_t ext2fs_read_bitmaps(ext2_filsys fs)
{
	(void) fs;
	if (!vf_opened)
		vf_bitmaps_before_open++;
	vf_nbitmaps++;
	return (IN.bitmaps_rc & 1) ? EXT2_ET_BLOCK_BITMAP_CSUM_INVALID : 0;
}
errcode_t ext2fs_set_data_io(ext2_filsys fs, io_channel new_io) { (void) fs; (void) new_io; vf_nsetdata++; return (IN.setdata_rc & 1) ? EXT2_ET_NOT_IMAGE_FILE : 0; }
/* STUB: ext2fs_close_free(): records the handle's flags at close; bitmap writers / flush: counted */
errcode_t ext2fs_close_free(ext2_filsys *fs)
{
	vf_nclose++;
	if (*fs && ((*fs)->flags & (EXT2_FLAG_RW | EXT2_FLAG_DIRTY | EXT2_FLAG_BB_DIRTY | EXT2_FLAG_IB_DIRTY)))
		vf_close_dirty++;
	*fs = 0;
	return (IN.close_rc & 1) ? EIO : 0;
}
errcode_t ext2fs_write_inode_bitmap(ext2_filsys fs) { (void) fs; vf_nwriters++; return 0; }
errcode_t ext2fs_write_block_bitmap(ext2_filsys fs) { (void) fs; vf_nwriters++; return 0; }
errcode_t ext2fs_write_bitmaps(ext2_filsys fs) { (void) fs; vf_nwriters++; return 0; }
errcode_t ext2fs_flush(ext2_filsys fs) { (void) fs; vf_nwriters++; return 0; }
errcode_t ext2fs_flush2(ext2_filsys fs, int flags) { (void) fs; (void) flags; vf_nwriters++; return 0; }
void quota_release_context(quota_ctx_t *qctx) { *qctx = 0; }
/* STUB: debugfs_setup_tdb() (cut): installs the undo manager or fails; writes the undo file only */
static int debugfs_setup_tdb(const char *device_name, char *undo_file, io_manager *io_ptr)
{
	(void) device_name; (void) undo_file;
	if (IN.undo_rc & 1)
		return ENOMEM;
	vf_nundo++;
	*io_ptr = undo_io_manager;
	return 0;
}
/* STUB: libss: the interpreter is created and executes nothing (the debugfs commands are outside) */
int ss_create_invocation(const char *subsystem_name, const char *version_string, void *info_ptr,
			 ss_request_table *request_table_ptr, int *code_ptr)
{ (void) subsystem_name; (void) version_string; (void) info_ptr; (void) request_table_ptr; *code_ptr = (IN.ss_rc & 1) ? ENOMEM : 0; return 1; }
void ss_get_readline(int sci_idx) { (void) sci_idx; }
void ss_add_request_table(int sci_idx, ss_request_table *rqtbl_ptr, int position, int *code_ptr)
{ (void) sci_idx; (void) rqtbl_ptr; (void) position; *code_ptr = (IN.ss_rc & 2) ? ENOMEM : 0; }
int ss_execute_line(int sci_idx, char *line_ptr) { (void) sci_idx; (void) line_ptr; return 0; }
int ss_listen(int sci_idx) { (void) sci_idx; return 0; }
void ss_delete_invocation(int sci_idx) { (void) sci_idx; }
void ss_perror(int sci_idx, long code, char const *msg) { (void) sci_idx; (void) code; (void) msg; }
int check_plausibility(const char *device, int flags, int *ret_is_dev) { (void) device; (void) flags; (void) ret_is_dev; return 0; }
errcode_t add_error_table(const struct error_table *et) { (void) et; return 0; }
errcode_t remove_error_table(const struct error_table *et) { (void) et; return 0; }
const char *error_message(long code) { (void) code; return ""; }

int main(void)
{
	VF_INPUT(IN);
	vf_unix_mgr.magic = vf_undo_mgr.magic = EXT2_ET_MAGIC_IO_MANAGER;
	vf_unix_mgr.open = stub_mgr_open;
	vf_unix_mgr.write_blk = vf_undo_mgr.write_blk = stub_write_blk;
	vf_unix_mgr.write_blk64 = vf_undo_mgr.write_blk64 = stub_write_blk64;
	vf_unix_mgr.write_byte = vf_undo_mgr.write_byte = stub_write_byte;
#ifdef ENTRY_OPEN
	do_open_filesys(VF_ARGC, vf_argv, 0, 0);
	if (current_fs)
		close_filesystem();
#else
	vf_real_main(VF_ARGC, vf_argv);
#endif
	vf_finish();
	return 0;
}
