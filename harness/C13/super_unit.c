/*
 * C13/super_unit.c -- e2fsck/super.c as a separate unit of main_e2fsck_full, with
 * every public function EXCEPT check_backup_super_block() renamed out of the way
 * (the harness provides protocol stubs for those).  problem.h has no include
 * guard, so super.c cannot share a unit with unix.c.
 */
#define check_super_block vf_unused_check_super_block
#define check_resize_inode vf_unused_check_resize_inode
#define check_init_orphan_file vf_unused_check_init_orphan_file
#define e2fsck_fix_dirhash_hint vf_unused_e2fsck_fix_dirhash_hint
#define e2fsck_validate_quota_inodes vf_unused_e2fsck_validate_quota_inodes
#include "e2fsck/super.c"
