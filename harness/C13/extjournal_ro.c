/*
 * C13/extjournal_ro: e2fsck_get_journal() (e2fsck/journal.c) for a filesystem with an
 * EXTERNAL journal (s_journal_uuid set), with the real buffer layer of journal.c
 * (getblk, ll_rw_block, mark_buffer_dirty, brelse) over a recording io channel.
 *
 * e2fsck opens the journal device with IO_FLAG_RW also under -n (recorded, not
 * asserted: it is what the tree does); the ONLY thing that keeps a read-only check
 * from writing to the journal device is that every fix-up is gated by the answer of
 * fix_problem(), which is "no" under -n.  So:
 *   every fix_problem answer no (the -n case; also an interactive run answering no):
 *     for every journal-device superblock content (magic, features, uuid, size,
 *     checksum verdict), every open/read result, -B/-j name known or looked up: NO
 *     write reaches the journal channel or the filesystem channel, and the journal
 *     superblock buffer handed back is clean;
 *   answer yes and the ext2 superblock checksum of the journal device does not verify:
 *     exactly one write, of the block that holds that superblock, to the journal
 *     channel, issued AFTER the checksum was recomputed, carrying the new checksum;
 *   checksum verifies / no metadata_csum / bad magic / foreign uuid: no write at all.
 *   On success j_total_len = min(blocks count of the journal device, 2^32-1).
 */
#include "e2fsck/journal.c"

#ifndef BS
#define BS 1024
#endif

struct vf_in {
	unsigned char readonly;		/* -n: every fix_problem answer is no */
	unsigned int answers;		/* otherwise: bit n = answer to the n-th question */
	int options, mount_flags;
	unsigned char have_name, blkid_finds, devno_finds, open_fails, read_fails, csum_ok;
	__u16 magic;
	__u32 feature_incompat, feature_ro_compat, feature_compat, blocks_lo, blocks_hi, checksum;
	unsigned char juuid[16];
	__u32 fs_feature_compat, fs_feature_incompat, fs_feature_ro_compat;
};
VF_DECLARE_INPUT(struct vf_in, IN)
#include "vf_input.inc"
#include "env.c"

#define VF_CSUM_MARK 0xC5A3C5A3u
static struct e2fsck_struct vf_ctx;
static struct struct_ext2_filsys vf_fs;
static struct ext2_super_block vf_sb;
static struct struct_io_channel vf_fsio, vf_jio;
static struct struct_io_manager vf_fsmgr, vf_jmgr;
io_manager unix_io_manager = &vf_jmgr;
static char vf_jname[2] = "j", vf_dname[2] = "d";
static int vf_njwrites, vf_nfswrites, vf_njreads, vf_nopen, vf_open_flags, vf_nq, vf_nyes, vf_ncsum_set, vf_ncsum_verify;
static int vf_write_after_set, vf_write_has_mark;
static unsigned long long vf_write_blk;

/* the ext2 superblock sits at byte 1024 of the device: block 1 of 1 KiB blocks, offset 1024 in block 0 otherwise */
#define VF_SB_BLK (BS == 1024 ? 1 : 0)
#define VF_SB_OFF (BS == 1024 ? 0 : 1024)

/* STUB: journal device channel: read returns a block whose ext2 superblock fields are symbolic (rest zero); every write is recorded */
static errcode_t stub_jread64(io_channel ch, unsigned long long blk, int count, void *data)
{
	struct ext2_super_block *s = (struct ext2_super_block *) ((char *) data + VF_SB_OFF);
	int i;
	(void) ch; (void) blk; (void) count;
	vf_njreads++;
	if (IN.read_fails & 1)
		return EXT2_ET_SHORT_READ;
	s->s_magic = IN.magic;
	s->s_feature_compat = IN.feature_compat;
	s->s_feature_incompat = IN.feature_incompat;
	s->s_feature_ro_compat = IN.feature_ro_compat;
	s->s_blocks_count = IN.blocks_lo;
	s->s_blocks_count_hi = IN.blocks_hi;
	s->s_checksum = IN.checksum;
	for (i = 0; i < 16; i++)
		s->s_uuid[i] = IN.juuid[i];
	return 0;
}
static errcode_t stub_jread(io_channel ch, unsigned long blk, int count, void *data) { return stub_jread64(ch, blk, count, data); }
static errcode_t stub_jwrite64(io_channel ch, unsigned long long blk, int count, const void *data)
{
	const struct ext2_super_block *s = (const struct ext2_super_block *) ((const char *) data + VF_SB_OFF);
	(void) ch; (void) count;
	vf_njwrites++;
	vf_write_blk = blk;
	vf_write_after_set = vf_ncsum_set;
	vf_write_has_mark = (s->s_checksum == VF_CSUM_MARK);
	return 0;
}
static errcode_t stub_jwrite(io_channel ch, unsigned long blk, int count, const void *data) { return stub_jwrite64(ch, blk, count, data); }
static errcode_t stub_jwrite_byte(io_channel ch, unsigned long off, int count, const void *data)
{ (void) ch; (void) off; (void) count; (void) data; vf_njwrites++; return 0; }
static errcode_t stub_fswrite64(io_channel ch, unsigned long long blk, int count, const void *data)
{ (void) ch; (void) blk; (void) count; (void) data; vf_nfswrites++; return 0; }
static errcode_t stub_fswrite(io_channel ch, unsigned long blk, int count, const void *data)
{ (void) ch; (void) blk; (void) count; (void) data; vf_nfswrites++; return 0; }
static errcode_t stub_set_blksize(io_channel ch, int bs) { ch->block_size = bs; return 0; }
/* STUB: unix_io_manager->open for the journal device: records the io flags (IO_FLAG_RW is passed under -n too: see header) */
static errcode_t stub_jopen(const char *name, int flags, io_channel *channel)
{
	(void) name;
	vf_nopen++;
	vf_open_flags = flags;
	if (IN.open_fails & 1)
		return EXT2_ET_BAD_DEVICE_NAME;
	*channel = &vf_jio;
	return 0;
}

/* STUB: fix_problem(): answers no when read-only (-n), else from the symbolic answer word; counts questions and yes answers */
int fix_problem(e2fsck_t ctx, problem_t code, struct problem_context *pctx)
{
	int n = vf_nq++, a;
	(void) ctx; (void) code; (void) pctx;
	a = (IN.readonly & 1) ? 0 : (int) ((IN.answers >> (n & 31)) & 1);
	vf_nyes += a;
	return a;
}
void clear_problem_context(struct problem_context *pctx) { memset(pctx, 0, sizeof(*pctx)); }
/* STUB: superblock checksum primitives (crc32c: C14): verdict symbolic; set stores a marker in s_checksum */
int ext2fs_superblock_csum_verify(ext2_filsys fs, struct ext2_super_block *sb)
{ (void) fs; (void) sb; vf_ncsum_verify++; return IN.csum_ok & 1; }
errcode_t ext2fs_superblock_csum_set(ext2_filsys fs, struct ext2_super_block *sb)
{ (void) fs; vf_ncsum_set++; sb->s_checksum = VF_CSUM_MARK; return 0; }
/* STUB: allocation (zeroed), uuid / blkid lookups (symbolic hit or miss), journal superblock position (block 2 for 1 KiB blocks, else 1) */
void *e2fsck_allocate_memory(e2fsck_t ctx, unsigned long size, const char *description)
{
	void *p = malloc(size);
	(void) ctx; (void) description;
	memset(p, 0, size);
	return p;
}
int uuid_is_null(const uuid_t uu)
{
	int i;
	for (i = 0; i < 16; i++)
		if (uu[i])
			return 0;
	return 1;
}
void uuid_unparse(const uuid_t uu, char *out) { (void) uu; out[0] = 0; }
char *blkid_get_devname(blkid_cache cache, const char *token, const char *value)
{ (void) cache; (void) token; (void) value; return (IN.blkid_finds & 1) ? (char *) vf_jname : (char *) 0; }
char *blkid_devno_to_devname(dev_t devno) { (void) devno; return (IN.devno_finds & 1) ? (char *) vf_jname : (char *) 0; }
void e2fsck_use_inode_shortcuts(e2fsck_t ctx, int use_shortcuts) { (void) ctx; (void) use_shortcuts; }
int ext2fs_journal_sb_start(int blocksize) { return blocksize == 1024 ? 2 : 1; }

int main(void)
{
	journal_t *journal = 0;
	errcode_t rc;
	int i, sb_ok, uuid_ok = 1, want_write;

	VF_INPUT(IN);
	vf_fsmgr.magic = vf_jmgr.magic = EXT2_ET_MAGIC_IO_MANAGER;
	vf_fsmgr.write_blk = stub_fswrite; vf_fsmgr.write_blk64 = stub_fswrite64; vf_fsmgr.set_blksize = stub_set_blksize;
	vf_jmgr.open = stub_jopen;
	vf_jmgr.read_blk = stub_jread; vf_jmgr.read_blk64 = stub_jread64;
	vf_jmgr.write_blk = stub_jwrite; vf_jmgr.write_blk64 = stub_jwrite64; vf_jmgr.write_byte = stub_jwrite_byte;
	vf_jmgr.set_blksize = stub_set_blksize;
	vf_fsio.magic = vf_jio.magic = EXT2_ET_MAGIC_IO_CHANNEL;
	vf_fsio.manager = &vf_fsmgr;
	vf_jio.manager = &vf_jmgr;
	vf_sb.s_magic = EXT2_SUPER_MAGIC;
	vf_sb.s_feature_compat = IN.fs_feature_compat;
	vf_sb.s_feature_incompat = IN.fs_feature_incompat;
	vf_sb.s_feature_ro_compat = IN.fs_feature_ro_compat;
	vf_sb.s_journal_uuid[0] = 0x11;		/* external journal: s_journal_uuid is not null */
	vf_sb.s_journal_uuid[7] = 0x22;
	vf_fs.magic = EXT2_ET_MAGIC_EXT2FS_FILSYS;
	vf_fs.super = &vf_sb;
	vf_fs.io = &vf_fsio;
	vf_fs.blocksize = BS;
	vf_fs.group_desc_count = 1;
	vf_ctx.fs = &vf_fs;
	vf_ctx.device_name = vf_dname;
	vf_ctx.mount_flags = IN.mount_flags;
	vf_ctx.options = (IN.readonly & 1) ? ((IN.options & ~E2F_OPT_YES) | E2F_OPT_READONLY | E2F_OPT_NO)
					   : (IN.options & ~(E2F_OPT_READONLY | E2F_OPT_NO));
	vf_ctx.journal_name = (IN.have_name & 1) ? (char *) vf_jname : (char *) 0;

	rc = e2fsck_get_journal(&vf_ctx, &journal);

	/* reference: which inputs lead to the one legitimate write (written from the on-disk format + the problem's description) */
	for (i = 0; i < 16; i++)
		if (IN.juuid[i] != vf_sb.s_journal_uuid[i])
			uuid_ok = 0;
	sb_ok = vf_nopen == 1 && !(IN.open_fails & 1) && !(IN.read_fails & 1) && IN.magic == EXT2_SUPER_MAGIC &&
		(IN.feature_incompat & EXT3_FEATURE_INCOMPAT_JOURNAL_DEV) && uuid_ok;
	want_write = sb_ok && (IN.feature_ro_compat & EXT4_FEATURE_RO_COMPAT_METADATA_CSUM) && !(IN.csum_ok & 1);

	PROP(vf_nfswrites == 0, "e2fsck_get_journal (external journal) never writes to the filesystem device");
	if (vf_nyes == 0) {
		PROP(vf_njwrites == 0, "every fix_problem answer no (-n): no write reaches the external journal device");
		PROP(vf_ncsum_set == 0, "every fix_problem answer no (-n): the journal device's superblock checksum is not recomputed");
	}
	if (!want_write)
		PROP(vf_njwrites == 0, "journal device superblock not examined or its checksum verifies: no write");
	if (vf_njwrites) {
		PROP(vf_njwrites == 1 && vf_write_blk == VF_SB_BLK, "repair: one write, of the block holding the journal device's ext2 superblock");
		PROP(vf_write_after_set == 1 && vf_write_has_mark, "repair: the checksum is recomputed before the write and the written block carries it");
	}
	if (want_write && !(IN.readonly & 1) && (IN.answers & 1))
		PROP(vf_njwrites == 1, "control: answer yes to the only question on that path repairs the checksum on disk");
	if (rc == 0) {
		unsigned long long len = ((unsigned long long) IN.blocks_hi << 32) | IN.blocks_lo;
		if (!(IN.feature_incompat & EXT4_FEATURE_INCOMPAT_64BIT))
			len = IN.blocks_lo;
		PROP(sb_ok, "success only with a journal-device superblock of the right magic, feature and uuid");
		PROP(journal && journal->j_sb_buffer && !journal->j_sb_buffer->b_dirty && journal->j_sb_buffer->b_io == &vf_jio,
		     "the journal superblock buffer handed back is clean and bound to the journal channel");
		PROP(journal->j_sb_buffer->b_blocknr == (BS == 1024 ? 2 : 1), "the journal superblock is the block after the ext2 superblock");
		PROP(journal->j_total_len == (len < (1ULL << 32) ? len : (1ULL << 32) - 1), "j_total_len = min(journal device block count, 2^32-1)");
	}
	VF_END();
	return 0;
}
