/* STUB: bitmap range readers deliver an all-zero range; bitmap/descriptor checksum setters succeed and are counted (C14/C16 cover them) */
errcode_t ext2fs_get_block_bitmap_range2(ext2fs_block_bitmap bmap, blk64_t start, size_t num, void *out)
{
	(void) bmap; (void) start;
	memset(out, 0, num >> 3);
	return 0;
}
errcode_t ext2fs_get_inode_bitmap_range2(ext2fs_inode_bitmap bmap, __u64 start, size_t num, void *out)
{
	(void) bmap; (void) start;
	memset(out, 0, num >> 3);
	return 0;
}
errcode_t ext2fs_block_bitmap_csum_set(ext2_filsys fs, dgrp_t group, char *bitmap, int size)
{
	(void) fs; (void) group; (void) bitmap; (void) size;
	return 0;
}
errcode_t ext2fs_inode_bitmap_csum_set(ext2_filsys fs, dgrp_t group, char *bitmap, int size)
{
	(void) fs; (void) group; (void) bitmap; (void) size;
	return 0;
}
static int vf_gdcsum_set;
void ext2fs_group_desc_csum_set(ext2_filsys fs, dgrp_t group)
{
	(void) fs; (void) group;
	vf_gdcsum_set++;
}
