/*
 * C13/unix_ro: a unix_io channel whose descriptor was opened O_RDONLY never
 * changes the device, and says so (pattern I, after harness/C17/cache.c).
 *
 * The access mode comes from the REAL unix_io_manager->open() called without
 * IO_FLAG_RW over the open-mode-aware file model rofile.h (a library that opened
 * O_RDWR would be seen to modify vf_dev[]).  Then, from an ARBITRARY valid cache
 * state -- including dirty entries, which is what earlier cached writes on the
 * read-only channel leave behind -- ONE channel operation with symbolic arguments:
 *
 *   device bytes and size are unchanged;
 *   if the operation had something to put on the device, the caller learns about
 *   it: non-zero return (and the write_error handler, when installed, is called
 *   for every block given up); a single cached write may instead be deferred --
 *   then the block sits dirty in the cache and the next flush/close reports it.
 *
 * Real code: unix_io.c (included: statics), io_manager.c.
 */
#ifndef _GNU_SOURCE
#define _GNU_SOURCE
#endif
#ifndef _LARGEFILE64_SOURCE
#define _LARGEFILE64_SOURCE
#endif
#define pread64 vf_pread64
#define pwrite64 vf_pwrite64
#define fsync vf_fsync
#define fallocate vf_fallocate
#define ftruncate vf_ftruncate
#define ext2fs_llseek vf_llseek
#define lseek vf_lseek
#define read vf_read
#define write vf_write
#define close vf_close
#define fstat vf_fstat
#define fstat64 vf_fstat64
#define ioctl vf_ioctl
#define posix_fadvise vf_posix_fadvise
#define open64 vf_open64
#include "lib/ext2fs/unix_io.c"
#include "lib/ext2fs/io_manager.c"

#ifndef BS
#define BS 2
#endif
#ifndef NBLK
#define NBLK 6
#endif
#define F (NBLK * BS)
#ifndef CNT
#define CNT 1
#endif
#define MAXIO (8 * BS)
#define VF_INRANGE

#define OP_READ 1
#define OP_WRITE 2
#define OP_WRITE_BYTE 3
#define OP_FLUSH 4
#define OP_ZEROOUT 5
#define OP_DISCARD 6
#define OP_SET_BLKSIZE 7
#define OP_CLOSE 8
#define OP_CACHE_OFF 9

struct vf_entry {
	unsigned char buf[BS];
	unsigned char block, in_use, dirty;
	int at;
};
struct vf_in {
	unsigned char dev[F];
	struct vf_entry e[CACHE_SIZE];
	int access_time;
	unsigned long long block;	/* operation arguments */
	unsigned int nbytes, offset;
	unsigned char data[MAXIO];
	unsigned char isblk;
};
VF_DECLARE_INPUT(struct vf_in, IN)
#include "vf_input.inc"

#include "rofile.h"

/* STUB: no UNIX_IO_* environment overrides */
char *ext2fs_safe_getenv(const char *arg) { (void) arg; return 0; }
int ext2fs_get_dio_alignment(int fd) { (void) fd; return 0; }

static struct struct_io_channel vf_chan;
static struct unix_private_data vf_data;
static unsigned char Mb[F];
static unsigned char vf_bufs[CACHE_SIZE][BS];

#ifdef WITH_HANDLER
static int vf_nhandler;
static errcode_t stub_write_error(io_channel ch, unsigned long block, int count, const void *data,
				  size_t size, int actual, errcode_t err)
{
	(void) ch; (void) block; (void) count; (void) data; (void) size; (void) actual;
	vf_nhandler++;
	return err;
}
#endif

/* user-visible content from (cache, device); concrete array indices only */
static void vf_decode(unsigned char *m)
{
	int i, j;
	for (i = 0; i < F; i++) {
		m[i] = vf_dev[i];
		for (j = 0; j < CACHE_SIZE; j++)
			if (vf_data.cache[j].in_use && vf_data.cache[j].block == (unsigned) (i / BS))
				m[i] = (unsigned char) vf_data.cache[j].buf[i % BS];
	}
}

/* representation invariant of the cache (as in C17): distinct in-range blocks, sane clocks, clean entries equal the device */
static int vf_inv(void)
{
	int i, j, p;
	for (i = 0; i < CACHE_SIZE; i++) {
		struct unix_cache *c = &vf_data.cache[i];
		if (!c->in_use)
			continue;
		if (c->block >= NBLK || !c->buf) return 1;
		if (c->access_time > vf_data.access_time) return 2;
		for (j = i + 1; j < CACHE_SIZE; j++)
			if (vf_data.cache[j].in_use && vf_data.cache[j].block == c->block) return 3;
		if (!c->dirty)
			for (p = 0; p < F; p++)
				if (c->block == (unsigned) (p / BS) && (unsigned char) c->buf[p % BS] != vf_dev[p]) return 4;
	}
	return 0;
}

int main(void)
{
	io_channel ch = &vf_chan, och = 0;
	errcode_t rc = 0;
	int i, k, ndirty = 0;
	static unsigned char out[MAXIO + 2];
	static char name[2] = "d";

	VF_INPUT(IN);
	for (i = 0; i < F; i++)
		vf_dev[i] = IN.dev[i];
	vf_dev_size = F;

	/* the descriptor: what the real open path produces for a request WITHOUT IO_FLAG_RW */
	rc = unix_io_manager->open(name, 0, &och);
	PROP(rc == 0 && och != 0 && vf_nopen == 1, "read-only channel: open succeeds with one open()");
	vf_wr_refused = 0;

	/* the channel under test: static objects (cheap pointer reasoning), same descriptor */
	vf_chan.magic = EXT2_ET_MAGIC_IO_CHANNEL;
	vf_chan.manager = unix_io_manager;
	vf_chan.block_size = BS;
	vf_chan.private_data = &vf_data;
	vf_chan.refcount = 1;
#ifdef WITH_BLKDEV	/* compile-time: block device (BLKDISCARD path) instead of regular file (fallocate path) */
	vf_chan.flags = CHANNEL_FLAGS_BLOCK_DEVICE;
#else
	vf_chan.flags = 0;
#endif
#ifdef WITH_HANDLER
	vf_chan.write_error = stub_write_error;
#endif
	vf_data.magic = EXT2_ET_MAGIC_UNIX_IO_CHANNEL;
	vf_data.dev = ((struct unix_private_data *) och->private_data)->dev;
	vf_data.flags = 0;
	/* BOUND: access_time below 2^30 */
	ASSUME(IN.access_time >= 0 && IN.access_time < (1 << 30));
	vf_data.access_time = IN.access_time;
	for (i = 0; i < CACHE_SIZE; i++) {
		struct unix_cache *c = &vf_data.cache[i];
#if OP == OP_SET_BLKSIZE || OP == OP_CLOSE
		c->buf = malloc(BS);		/* these operations free the buffers */
		ASSUME(c->buf != 0);
#else
		c->buf = (char *) vf_bufs[i];
#endif
		for (k = 0; k < BS; k++)
			c->buf[k] = IN.e[i].buf[k];
		ASSUME(IN.e[i].in_use <= 1 && IN.e[i].dirty <= 1);
		c->in_use = IN.e[i].in_use;
		c->dirty = IN.e[i].dirty;
		c->block = IN.e[i].block;
		c->access_time = IN.e[i].at;
		ASSUME(c->access_time >= 0);
		if (!c->in_use) ASSUME(!c->dirty);
		if (c->in_use && c->dirty) ndirty++;
	}
	ASSUME(vf_inv() == 0);			/* Inv on the pre-state */
	vf_decode(Mb);

#if OP == OP_READ
	{
		unsigned long long block = IN.block;
		ASSUME(block < NBLK);
		rc = unix_read_blk64(ch, block, 1, out);
		/* a read may have to evict a dirty block: that write-back is refused and the read fails rather than drop it */
		if (rc == 0)
			for (i = 0; i < BS; i++)
				PROP(out[i] == Mb[block * BS + i], "read-only channel: a successful read returns the visible bytes");
		else
			PROP(vf_wr_refused > 0 && ndirty > 0, "read-only channel: a read only fails because a dirty block could not be written back");
	}
#elif OP == OP_WRITE
	{
		unsigned long long block = IN.block;
		int count = CNT;
		unsigned int nb = count < 0 ? (unsigned) -count : (unsigned) count * BS;
		ASSUME(block < NBLK && block * BS + nb <= F);
		for (i = 0; i < (int) nb; i++)
			out[i] = IN.data[i];
		rc = unix_write_blk64(ch, block, count, out);
#if CNT < 0 || CNT > WRITE_DIRECT_SIZE
		PROP(rc != 0, "read-only channel: a direct write is refused and reported");
#else
		if (rc == 0) {
			/* deferred: every written block must now sit DIRTY in the cache with the caller's bytes */
			for (k = 0; k < CNT; k++) {
				int held = 0;
				for (i = 0; i < CACHE_SIZE; i++) {
					struct unix_cache *c = &vf_data.cache[i];
					if (c->in_use && c->dirty && c->block == block + k) {
						int same = 1, b;
						for (b = 0; b < BS; b++)
							if (vf_bufs[i][b] != out[k * BS + b]) same = 0;
						if (same) held = 1;
					}
				}
				PROP(held, "read-only channel: a cached write that returns 0 is held dirty (the next flush/close reports it)");
			}
		}
#endif
	}
#elif OP == OP_WRITE_BYTE
	{
		unsigned int off = IN.offset, sz = IN.nbytes;
		ASSUME(sz >= 1 && sz <= MAXIO && off < F && off + sz <= F);
		for (i = 0; i < MAXIO; i++)
			out[i] = IN.data[i];
		rc = unix_write_byte(ch, off, (int) sz, out);
		PROP(rc != 0, "read-only channel: write_byte is refused and reported");
	}
#elif OP == OP_FLUSH
	rc = unix_flush(ch);
	PROP((rc != 0) == (ndirty > 0), "read-only channel: flush fails exactly when a dirty block had to be written");
#elif OP == OP_CACHE_OFF
	rc = unix_set_option(ch, "cache", "off");
	PROP((rc != 0) == (ndirty > 0), "read-only channel: cache=off fails exactly when a dirty block had to be written");
#elif OP == OP_ZEROOUT || OP == OP_DISCARD
	{
		unsigned long long block = IN.block, cnt = IN.nbytes;
		ASSUME(block < NBLK && cnt >= 1 && block + cnt <= NBLK);
#if OP == OP_ZEROOUT
		rc = unix_zeroout(ch, block, cnt);
		PROP(rc != 0, "read-only channel: zeroout is refused and reported (error or UNIMPLEMENTED, never success)");
#else
		rc = unix_discard(ch, block, cnt);
		PROP(rc != 0, "read-only channel: discard is refused and reported (error or UNIMPLEMENTED, never success)");
#endif
	}
#elif OP == OP_SET_BLKSIZE
	rc = unix_set_blksize(ch, 2 * BS);
	PROP((rc != 0) == (ndirty > 0), "read-only channel: set_blksize fails exactly when a dirty block had to be written");
#elif OP == OP_CLOSE
	{
		io_channel hc = malloc(sizeof(*hc));
		struct unix_private_data *hd = malloc(sizeof(*hd));
		ASSUME(hc && hd);
		*hd = vf_data;
		*hc = vf_chan;
		hc->private_data = hd;
		hc->name = 0;
		rc = unix_close(hc);
		PROP((rc != 0) == (ndirty > 0), "read-only channel: close fails exactly when a dirty block had to be written");
	}
#else
#error OP
#endif
#ifdef WITH_HANDLER
	if (rc != 0 && ndirty > 0)
		PROP(vf_nhandler >= 1, "read-only channel: the write_error handler is told about the block that was given up");
#endif
	for (i = 0; i < F; i++)
		PROP(vf_dev[i] == IN.dev[i], "read-only channel: device bytes unchanged");
	PROP(vf_dev_size == F, "read-only channel: device size unchanged");
	PROP(vf_rdonly, "the descriptor of a channel opened without IO_FLAG_RW is O_RDONLY");
	VF_END();
	return 0;
}
