META = {
    "assumptions": ["allocation failure out of scope (--no-malloc-may-fail)"],
    "outside": [],
}

MAINL = ["main.%d:257" % i for i in range(10)]   # harness copy loops (<= 256 bytes)

HARNESSES = [
    dict(name="ro_inode", src="ro_inode.c",
         extra_src=["lib/ext2fs/blknum.c", "lib/ext2fs/io_manager.c"],
         funcs=["ext2fs_write_inode2", "ext2fs_create_inode_cache"],
         configs=[{"OP": 1, "ISIZE": 128, "BUFSZ": 128},
                  {"OP": 1, "ISIZE": 256, "BUFSZ": 256, "ICACHE": None},
                  {"OP": 2, "ISIZE": 128, "ICACHE": None},
                  {"OP": 2, "ISIZE": 256}],
         unwind=6, unwindset=MAINL,
         backends=["default", "kissat"],
         bound="1 group, 1 KiB blocks, 16 inodes of 128/256 bytes; fs->flags (minus RW), inode number, inode bytes, "
               "group descriptor, incompat features, write flags: all symbolic; inode cache absent or 2 symbolic entries"),
    dict(name="ro_bitmaps", src="ro_bitmaps.c",
         extra_src=["lib/ext2fs/blknum.c", "lib/ext2fs/io_manager.c"],
         funcs=["ext2fs_write_bitmaps", "write_bitmaps"],
         configs=[{"OP": 1}, {"OP": 2}, {"OP": 3}],
         unwind=4, unwindset=MAINL,
         backends=["default", "kissat"],
         bound="1 group of 64 blocks / 16 inodes, 1 KiB blocks; fs->flags (minus RW), presence of each in-core bitmap, "
               "group descriptor, incompat/ro_compat features: all symbolic"),
    dict(name="ro_mmp", src="ro_mmp.c",
         extra_src=["lib/ext2fs/blknum.c", "lib/ext2fs/io_manager.c"],
         funcs=["ext2fs_mmp_start", "ext2fs_mmp_read", "ext2fs_mmp_write"],
         configs=[{"OP": 1}, {"OP": 2}, {"OP": 3}, {"OP": 4}],
         unwind=4, unwindset=MAINL + ["ext2fs_mmp_new_seq.0:33", "ext2fs_mmp_new_seq.1:3", "strncpy.0:33"],
         backends=["default", "kissat"],
         bound="one 1 KiB MMP block; its content at the first and at later reads, the in-core copies, s_mmp_block, "
               "s_mmp_update_interval, incompat features, fs->flags (minus RW), descriptor already open or not: all symbolic"),
    dict(name="close_ro", src="close_ro.c",
         extra_src=["lib/ext2fs/blknum.c", "lib/ext2fs/io_manager.c", "lib/ext2fs/rw_bitmaps.c", "lib/ext2fs/mmp.c"],
         funcs=["ext2fs_close2", "ext2fs_flush2", "ext2fs_write_bitmaps", "ext2fs_mmp_stop"],
         unwind=4, unwindset=MAINL,
         backends=["default", "kissat"],
         bound="1 group, 1 KiB blocks; fs->flags (minus RW and DIRTY), close flags, io statistics, s_kbytes_written, s_state, "
               "features, in-core bitmaps present or not, MMP descriptor: all symbolic"),
    dict(name="open_ro", src="open_ro.c",
         extra_src=["lib/ext2fs/blknum.c", "lib/ext2fs/io_manager.c"],
         funcs=["ext2fs_open2"],
         configs=[{"PREFIX": None}, {"_tier": "thorough"}],
         unwind=5, unwindset=MAINL + ["strlen.0:3", "strcpy.0:3", "strchr.0:3"],
         backends=["default", "kissat"],
         bound="1 KiB blocks, 64 blocks per group, <= 3 groups, descriptor size 32/64; every other superblock byte, the "
               "descriptor block, open flags (minus RW/dirty bits/IMAGE_FILE), superblock/block_size arguments, checksum "
               "verdicts, manager open() and mmp_start results: all symbolic"),
    dict(name="unix_open_mode", src="unix_open_mode.c",
         funcs=["unix_open", "unix_open_channel", "ext2fs_open_file", "alloc_cache"],
         unwind=4, unwindset=MAINL + ["alloc_cache.0:9", "free_cache.0:9", "strlen.0:3", "strcpy.0:3"],
         backends=["default", "kissat"],
         bound="io flag word: all 2^32 values except IO_FLAG_THREADS; regular file / block device, BLKROGET answer, "
               "kernel release, open() failure: symbolic"),
    dict(name="journal_release", src="journal_release.c",
         extra_src=["lib/ext2fs/io_manager.c"],
         funcs=["e2fsck_journal_release", "brelse", "ll_rw_block"],
         configs=[{}, {"RW": None}],
         unwind=4, unwindset=MAINL,
         backends=["default", "kissat"],
         bound="ctx->options (READONLY forced on; config RW: forced off), reset, drop, prior dirty state of the buffer, first 64 "
               "bytes of the journal superblock, tail sequence, separate/shared journal channel: all symbolic"),
]
MANIFEST = {
    "text": "TBD",
    "note": "TBD",
}
