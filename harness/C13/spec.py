META = {
    "assumptions": ["allocation failure out of scope (--no-malloc-may-fail)",
                    "the kernel refuses write/pwrite/fallocate/ftruncate/BLKDISCARD on a descriptor opened O_RDONLY with EBADF and no effect "
                    "(POSIX; this is what harness/C13/rofile.h models -- trusted environment)",
                    "handles are built by the harness: 1 group, 1 KiB blocks, 16 inodes; EXT2_FLAG_RW is the only flag bit forced (to 0)"],
    "outside": [
        "tool main()s: e2image (source opened via ext2fs_open with 64BITS|IGNORE_CSUM_ERRORS, -I install writes by design) and "
        "e2freefrag are not encoded (e2undo -n: harness/E2UNDO; mke2fs -n: main_mke2fs)",
        "dumpe2fs main(): 24 concrete argv sets; list_desc() (group-descriptor printing) is cut and not encoded; the library readers it "
        "calls (ext2fs_read_bb_inode, ext2fs_file_open2/read, ext2fs_mmp_start/read, ext2fs_read_bitmaps, list_super) are status stubs; "
        "the second probing round of `-o superblock=N' passes block size 131072 (loop variable left past 64 KiB) -- not a write, noted only",
        "tune2fs main(): 35 concrete argv sets (no -m/-T/-g name/-u name arguments: strtod/strptime/getgrnam not driven); for modifying "
        "option sets only the open flag is decided (the open fails), the modifying steps themselves are not; tune2fs_setup_tdb is cut: "
        "`tune2fs -l -z undo' creates an undo file and re-opens read-only through undo_io (undo_io manager not encoded)",
        "debugfs: main() on 16 argv sets and the `open' command on 7 (no -f cmd_file: source_file not driven); NO debugfs command is "
        "executed (libss stub) -- what each do_* command does on a handle without EXT2_FLAG_RW (check_fs_read_write guards) is not "
        "encoded; debugfs_setup_tdb is cut; `debugfs -c -w' is NOT forced read-only by open_filesystem() of the pinned tree although "
        "debugfs.8 says catastrophic mode forces read-only (config ARGS=22 left unregistered, reported)",
        "e2fsck main(): decided with every pass/helper as a protocol stub (main_e2fsck_full) -- the read-only discipline INSIDE "
        "check_super_block (release_orphan_inodes), e2fsck_check_ext3_journal, the passes, check_if_skip, show_stats, e2fsck_check_mmp "
        "(the last three are cut_statics of unix.c and have no harness), get_backup_sb (opens with io flags 0 by inspection) is not; "
        "fix_problem is assumed to answer no under -n for prompting problems; -c/-l/-L/-t options and the EBUSY device-size restart "
        "are excluded; one restart reason per query",
        "e2fsck PRS(): 18 concrete argv sets (no -b/-B/-C/-I/-P/-j numeric or lookup arguments, no long clusters beyond those listed)",
        "resize2fs main(): 9 concrete argv sets; with -P the code after a successful open is calculate_minimum_resize_size (stubbed, "
        "resize2fs.c not encoded) and the exit; -d debug flags (atoi) not driven",
        "ext2fs_close2() of a read-only DIRTY handle (closefs.c does not test EXT2_FLAG_RW): decided in close_dirty only for a plain "
        "one-group geometry, empty cache and fs->orig_super == NULL; the shadow-superblock route of write_primary_superblock "
        "(word diff + write_byte, what a handle opened from the primary superblock takes) is encoded (-DORIG) but unsolved in 150 s -- "
        "its device-level step (write_byte on a read-only channel) is unix_ro OP=3",
        "unix_ro: block size 2, 6 blocks, scaled cache (4 entries); multi-block cached writes and the write_error-handler variants in "
        "thorough tier only; bounce-buffer (O_DIRECT / FORCE_BOUNCE) write path, IO_FLAG_NOCACHE channels, data->offset != 0",
        "ext2fs_open2 after the channel is open (arbitrary superblock; backup-superblock descriptor fix-ups): encoded, not solvable in 10 GB",
        "ext2fs_write_inode2 with bufsize < inode size (the read-modify-write prefix through ext2fs_read_inode2): query > 10 GB",
        "other writers that rely on the caller or on the descriptor instead of testing EXT2_FLAG_RW (ext2fs_flush2, io_channel_write_blk64 "
        "users such as ext2fs_zero_blocks2, ext2fs_write_dir_block4, ext2fs_update_bb_inode); extent.c/link.c/unlink.c/expanddir.c/"
        "fileio.c RW tests are not encoded",
        "undo_io / test_io / inode_io / sparse_io managers; unixfd_open (derives IO_FLAG_RW from fcntl(F_GETFD) & O_RDWR)",
        "e2fsck journal.c beyond e2fsck_journal_release and the external-journal branch of e2fsck_get_journal (extjournal_ro): the "
        "internal-journal branch of e2fsck_get_journal (backup journal inode, guarded by E2F_OPT_READONLY), e2fsck_journal_load, "
        "e2fsck_journal_reset_super / fix_corrupt_super / fix_bad_inode (gated by fix_problem answers) and e2fsck_check_ext3_journal "
        "(known unguarded s_errno write, documented) are not encoded; the journal device is opened IO_FLAG_RW also under -n: the "
        "barrier there is the fix_problem answer, not the descriptor",
    ],
}

MAINL = ["main.%d:257" % i for i in range(10)]   # harness copy loops (<= 256 bytes)

RO_OPS = {"READ": 1, "WRITE": 2, "WRITE_BYTE": 3, "FLUSH": 4, "ZEROOUT": 5, "DISCARD": 6, "SET_BLKSIZE": 7,
          "CLOSE": 8, "CACHE_OFF": 9}

def ro_uw(cs, cnt=1):
    n = abs(cnt) + 1
    return (["vf_do_read.0:26", "vf_do_write.0:26", "vf_do_read.1:18", "vf_do_write.1:18", "vf_fallocate.0:26",
             "vf_ftruncate.0:26", "raw_read_blk.0:2", "raw_read_blk.1:2", "raw_write_blk.0:2", "raw_write_blk.1:2",
             "vf_inv.0:27", "vf_inv.1:27", "vf_inv.2:27", "vf_decode.0:27", "vf_decode.1:27", "vf_decode.2:27",
             "strlen.0:3", "strcpy.0:3", "strcmp.0:8"]
            + ["main.%d:26" % i for i in range(16)]
            + ["find_cached_block.0:%d" % (cs + 1), "flush_cached_blocks.0:%d" % (cs + 1),
               "flush_cached_blocks.1:%d" % (cs + 1), "flush_cached_blocks.2:%d" % (cs + 2),
               "alloc_cache.0:9", "free_cache.0:9"]
            + ["unix_read_blk64.%d:%d" % (i, n) for i in range(3)] + ["unix_write_blk64.0:%d" % n])

def ro_cfgs():
    small = {"E2FSPROGS_VERIF_CACHE_SIZE": 4, "E2FSPROGS_VERIF_WRITE_DIRECT_SIZE": 2}
    c = []
    tiny = {"E2FSPROGS_VERIF_CACHE_SIZE": 2, "E2FSPROGS_VERIF_WRITE_DIRECT_SIZE": 1}
    for cnt in (1, 3, -3):
        c.append(dict(small, OP=RO_OPS["WRITE"], CNT=cnt, _unwindset=ro_uw(4, cnt)))
    c.append(dict(small, OP=RO_OPS["WRITE"], CNT=2, _unwindset=ro_uw(4, 2), _tier="thorough"))
    for op in ("WRITE_BYTE", "FLUSH", "ZEROOUT", "DISCARD", "CLOSE", "SET_BLKSIZE", "CACHE_OFF", "READ"):
        c.append(dict(small, OP=RO_OPS[op], _unwindset=ro_uw(4)))
    c.append(dict(small, OP=RO_OPS["DISCARD"], WITH_BLKDEV=None, _unwindset=ro_uw(4)))
    c.append(dict(small, OP=RO_OPS["ZEROOUT"], WITH_BLKDEV=None, _unwindset=ro_uw(4)))
    c.append(dict(tiny, OP=RO_OPS["FLUSH"], WITH_HANDLER=None, _unwindset=ro_uw(2), _tier="thorough"))
    c.append(dict(small, OP=RO_OPS["WRITE"], CNT=1, WITH_HANDLER=None, _unwindset=ro_uw(4), _tier="thorough"))
    return c

import importlib.util as _ilu, os as _os
def _e2undo(prop):
    p = _os.path.join(_os.path.dirname(_os.path.abspath(__file__)), "..", "E2UNDO", "spec.py")
    s = _ilu.spec_from_file_location("spec_E2UNDO_for_" + prop, p)
    m = _ilu.module_from_spec(s)
    s.loader.exec_module(m)
    return m.ENTRIES_FOR(prop)
HARNESSES = [
    dict(name="ro_inode", src="ro_inode.c",
         extra_src=["lib/ext2fs/blknum.c", "lib/ext2fs/io_manager.c"],
         funcs=["ext2fs_write_inode2", "ext2fs_create_inode_cache"],
         configs=[{"OP": 1, "ISIZE": 128, "BUFSZ": 128},
                  {"OP": 1, "ISIZE": 256, "BUFSZ": 256, "ICACHE": None},
                  {"OP": 2, "ISIZE": 128, "ICACHE": None},
                  {"OP": 2, "ISIZE": 256}],
         unwind=6, unwindset=MAINL,
         backends=["default", "kissat"],
         bound="1 group, 1 KiB blocks, 16 inodes of 128/256 bytes; fs->flags (minus RW), inode number, inode bytes, "
               "group descriptor, incompat features, write flags: all symbolic; inode cache absent or 2 symbolic entries"),
    dict(name="ro_bitmaps", src="ro_bitmaps.c",
         extra_src=["lib/ext2fs/blknum.c", "lib/ext2fs/io_manager.c"],
         funcs=["ext2fs_write_bitmaps", "write_bitmaps"],
         configs=[{"OP": 1}, {"OP": 2}, {"OP": 3}],
         unwind=4, unwindset=MAINL,
         backends=["default", "kissat"],
         bound="1 group of 64 blocks / 16 inodes, 1 KiB blocks; fs->flags (minus RW), presence of each in-core bitmap, "
               "group descriptor, incompat/ro_compat features: all symbolic"),
    dict(name="ro_mmp", src="ro_mmp.c",
         extra_src=["lib/ext2fs/blknum.c", "lib/ext2fs/io_manager.c"],
         funcs=["ext2fs_mmp_start", "ext2fs_mmp_read", "ext2fs_mmp_write"],
         configs=[{"OP": 1}, {"OP": 2}, {"OP": 3}, {"OP": 4}],
         unwind=4, unwindset=MAINL + ["ext2fs_mmp_new_seq.0:33", "ext2fs_mmp_new_seq.1:3", "strncpy.0:33"],
         backends=["default", "kissat"],
         bound="one 1 KiB MMP block; its content at the first and at later reads, the in-core copies, s_mmp_block, "
               "s_mmp_update_interval, incompat features, fs->flags (minus RW), descriptor already open or not: all symbolic"),
    dict(name="close_ro", src="close_ro.c",
         extra_src=["lib/ext2fs/blknum.c", "lib/ext2fs/io_manager.c", "lib/ext2fs/rw_bitmaps.c", "lib/ext2fs/mmp.c"],
         funcs=["ext2fs_close2", "ext2fs_flush2", "ext2fs_write_bitmaps", "ext2fs_mmp_stop"],
         unwind=4, unwindset=MAINL,
         backends=["default", "kissat"],
         bound="1 group, 1 KiB blocks; fs->flags (minus RW and DIRTY), close flags, io statistics, s_kbytes_written, s_state, "
               "features, in-core bitmaps present or not, MMP descriptor: all symbolic"),
    dict(name="open_ro", src="open_ro.c",
         extra_src=["lib/ext2fs/blknum.c", "lib/ext2fs/io_manager.c"],
         funcs=["ext2fs_open2"],
         configs=[{"PREFIX": None}],
         unwind=5, unwindset=MAINL + ["strlen.0:3", "strcpy.0:3", "strchr.0:3"],
         backends=["default", "kissat"],
         bound="open flags: every word without RW / dirty state bits / IMAGE_FILE; superblock and block_size arguments symbolic; "
               "the manager's open() fails, so only the flag mapping and the error exit of ext2fs_open2 are executed"),
    dict(name="unix_open_mode", src="unix_open_mode.c",
         funcs=["unix_open", "unix_open_channel", "ext2fs_open_file", "alloc_cache"],
         unwind=4, unwindset=MAINL + ["alloc_cache.0:9", "free_cache.0:9", "strlen.0:3", "strcpy.0:3"],
         backends=["default", "kissat"],
         bound="io flag word: all 2^32 values except IO_FLAG_THREADS; regular file / block device, BLKROGET answer, "
               "kernel release, open() failure: symbolic"),
    dict(name="journal_release", src="journal_release.c",
         extra_src=["lib/ext2fs/io_manager.c"],
         funcs=["e2fsck_journal_release", "brelse", "ll_rw_block"],
         configs=[{}, {"RW": None}],
         unwind=4, unwindset=MAINL,
         backends=["default", "kissat"],
         bound="ctx->options (READONLY forced on; config RW: forced off), reset, drop, prior dirty state of the buffer, first 64 "
               "bytes of the journal superblock, tail sequence, separate/shared journal channel: all symbolic"),
    dict(name="unix_ro", src="unix_ro.c",
         funcs=["unix_open", "unix_write_blk64", "flush_cached_blocks", "reuse_cache", "raw_write_blk"],
         configs=ro_cfgs(), unwind=7, backends=["default", "kissat"],
         bound="block size 2 bytes, 6 blocks; scaled cache geometry (4 entries, direct threshold 2: hook H1); all cache entries "
               "symbolic under Inv (dirty entries allowed); one operation, count concrete per query in {1,2,3,-3}, "
               "block/offset/length/data symbolic; regular file or block device per query"),
    dict(name="close_dirty", src="close_dirty.c",
         extra_src=["lib/ext2fs/closefs.c", "lib/ext2fs/blknum.c"],
         funcs=["ext2fs_close2", "ext2fs_flush2", "write_primary_superblock", "unix_open", "unix_write_blk64",
                "flush_cached_blocks", "raw_write_blk"],
         # -DORIG=0/1 (shadow superblock present: write_primary_superblock's word-diff + write_byte route) is encoded in
         # close_dirty.c but does not finish in 150 s (512x512 data-dependent unwinding): not registered
         configs=[{"E2FSPROGS_VERIF_CACHE_SIZE": 4, "E2FSPROGS_VERIF_WRITE_DIRECT_SIZE": 2}],
         unwind=6, unwindset=["main.%d:514" % i for i in range(6)] +
                             ["strlen.0:3", "strcpy.0:3", "alloc_cache.0:9", "free_cache.0:9",
                              "write_primary_superblock.0:514", "write_primary_superblock.1:514",
                              "write_primary_superblock.2:514",
                              "test_root.0:6", "raw_write_blk.0:2", "raw_write_blk.1:2"],
         backends=["default", "kissat"],
         bound="1 group, 1 KiB blocks, plain features (sparse_super only), scaled cache geometry (4 entries), cache empty before close; "
               "fs->flags (minus RW, DIRTY forced on), close flags, s_state symbolic; no shadow superblock (fs->orig_super NULL: whole-superblock write)"),
    dict(name="main_e2fsck", src="main_e2fsck.c",
         cut_statics={"e2fsck/unix.c": ["PRS"]},
         funcs=["vf_real_main", "try_open_fs", "check_mount"],
         configs=[{"ERR": e} for e in ("EXT2_ET_BAD_MAGIC", "EXT2_ET_CORRUPT_SUPERBLOCK", "EXT2_ET_SB_CSUM_INVALID",
                                        "EXT2_ET_BAD_DESC_SIZE", "EBUSY", "EROFS", "EXT2_ET_SHORT_READ")] +
                 [{"ERR": "EXT2_ET_UNSUPP_FEATURE", "FEAT": 0}, {"ERR": "EXT2_ET_UNSUPP_FEATURE", "FEAT": "0x40000000"}],
         unwind=4, unwindset=["try_open_fs.0:9", "reserve_stdio_fds.0:3"] + ["vf_real_main.%d:34" % i for i in range(4, 16)],
         backends=["default", "kissat"],
         bound="ctx->options: every word PRS() can produce; -b superblock, -B blocksize, interactive, -z undo file, mount flags, "
               "profile old_bitmaps, fix_problem/ask_yn answers, backup-superblock search result: symbolic; every ext2fs_open2 "
               "fails with the query's error code (8 codes)"),
    dict(name="main_resize", src="main_resize.c",
         extra_src=["lib/ext2fs/blknum.c"],
         funcs=["vf_real_main", "vf_getopt"],
         configs=[{"ARGS": a} for a in (1, 2, 3, 4, 5, 6)] + [{"ARGS": a, "OPEN_OK": None} for a in (1, 2, 4, 6)] +
                 [{"ARGS": a} for a in (10, 11, 12)],
         unwind=8, unwindset=["vf_getopt.0:16", "vf_real_main.0:8", "vf_real_main.1:3"],
         backends=["default", "kissat"],
         bound="argv: {-P d}, {-fP d}, {-P -F d}, {-P -z u d}, {-PM d}, {-pP d 100} (+ controls {d}, {-f d 100}, {-M d}); mount flags, "
               "file type, open/fstat/sync/undo failures symbolic; OPEN_OK queries: superblock state/check fields symbolic"),
    dict(name="prs_e2fsck", src="prs_e2fsck.c",
         funcs=["PRS", "vf_getopt"],
         configs=[{"ARGS": a} for a in (1, 2, 3, 4, 5, 6, 7, 8, 9, 10, 11, 20, 21, 22, 23, 24, 25, 26)],
         unwind=8, unwindset=["vf_getopt.0:40", "PRS.0:8", "strlen.0:10", "strcpy.0:10", "strchr.0:10", "strcmp.0:10",
                              "strncmp.0:10", "parse_extended_opts.0:4", "parse_extended_opts.1:10", "memset.0:130"],
         backends=["default", "kissat"],
         bound="18 argv sets: -n, -fn, -n -f -v, -p, -y, -f, -pf, -n -F, -n -E discard, -n -z u, (none); conflicting: -n -p, -p -n, "
               "-y -n, -n -D, -nc, -n -l f, -a -n; tty, profile answers, memory size symbolic"),
    dict(name="main_e2fsck_full", src="main_e2fsck_full.c",
         cut_statics={"e2fsck/unix.c": ["PRS", "show_stats", "check_if_skip", "e2fsck_check_mmp"]},
         extra_src=["lib/ext2fs/blknum.c"], extra_harness_src=["C13/super_unit.c"],
         funcs=["vf_real_main", "try_open_fs", "check_mount", "check_backup_super_block"],
         configs=[{"RST": 0}, {"RST": 2}, {"RST": 1, "_tier": "thorough"}, {"RST": 3, "_tier": "thorough"}],   # ~30 s / 1 GB each
         unwind=4, unwindset=["try_open_fs.0:9", "reserve_stdio_fds.0:3", "fix_problem.0:13", "memcmp.0:17",
                              "check_backup_super_block.0:3",
                              "vf_real_main.0:3", "vf_real_main.1:3", "vf_real_main.2:2", "vf_real_main.3:2", "vf_real_main.4:4",
                              "vf_real_main.5:2", "vf_real_main.6:2", "vf_real_main.7:34", "vf_real_main.8:5", "vf_real_main.9:2",
                              "vf_real_main.10:2", "vf_real_main.11:5", "vf_real_main.12:2"],
         backends=["default", "kissat"],
         bound="one pass through main() per restart reason; ctx->options: every word PRS() can produce without -c/-l/-t; 2 groups; "
               "primary and backup superblock state/feature/geometry/UUID fields, mount flags, results of every stubbed pass and "
               "helper, 12 fix_problem answers: symbolic"),
    dict(name="get_backup_sb", src="get_backup_sb.c",
         extra_src=["e2fsck/util.c", "lib/ext2fs/res_gdt.c", "lib/ext2fs/io_manager.c", "lib/ext2fs/blknum.c"],
         funcs=["get_backup_sb", "ext2fs_list_backups"],
         # C13 only needs the read-only discipline (flags 0, no write, closed once): one unknown-blocksize query in quick tier;
         # the C20 mirror should run TRUE_K = 0, 1, 2 in its quick tier (45 s / 1.9 GB each)
         configs=[{"TRUE_K": 1}, {"TRUE_K": 0, "_tier": "thorough"}, {"TRUE_K": 2, "_tier": "thorough"}] +
                 [{"TRUE_K": 1, "CTXBS": 2048}, {"TRUE_K": 1, "CTXBS": 1024}, {"TRUE_K": 0, "CTXBS": 4096}] +
                 [{"TRUE_K": k, "WITH_FS": None} for k in (0, 2)] + [{"TRUE_K": 1, "DEVFAIL": None}],
         unwind=8, unwindset=["get_backup_sb.0:20", "get_backup_sb.1:9", "main.0:8", "stub_read_blk64.0:8"],
         backends=["default", "kissat"],
         bound="true block size 1024/2048/4096 (one per query), default group size, 2..30 groups (symbolic), intact bit of each of the 7 "
               "backup groups symbolic, device-size query works or (one query) fails; ctx->blocksize 0 or a -B value per query; fs absent or present"),
    dict(name="main_mke2fs", src="main_mke2fs.c",
         cut_statics={"misc/mke2fs.c": ["PRS", "show_stats", "read_bb_file", "test_disk", "handle_bad_blocks", "packed_allocate_tables",
                                         "write_inode_tables", "create_root_dir", "create_lost_and_found", "reserve_inodes",
                                         "create_bad_block_inode", "create_journal_dev", "fix_cluster_bg_counts",
                                         "create_quota_inodes", "zap_sector"]},
         extra_src=["lib/ext2fs/blknum.c", "lib/ext2fs/io_manager.c"],
         funcs=["vf_real_main", "mke2fs_discard_device", "should_do_undo", "mke2fs_setup_tdb"],
         configs=[{}, {"STRS": 1}, {"STRS": 3}, {"STRS": 4}],
         unwind=6, unwindset=["mke2fs_discard_device.0:5", "strlen.0:10", "strcpy.0:10", "strcmp.0:12", "strcasecmp.0:8",
                              "strncpy.0:70", "memcmp.0:17", "strchr.0:6", "io_channel_set_options.0:3", "vf_real_main.0:17",
                              "vf_real_main.1:3", "vf_real_main.2:3", "vf_real_main.3:3", "vf_real_main.4:3", "memset.0:70", "vf_fill16.0:17"],
         backends=["default", "kissat"],
         bound="every global PRS() leaves behind symbolic (noaction 0..2, quiet, verbose, discard, dev_size, cflag, super_only, "
               "lazy_itable_init, undo file, journal device/size, bad-blocks file, uuid/os/label/mount dir/src root present or not, "
               "fs_param features/flags), 4 KiB blocks, <= 1.5M blocks; results of every non-writing step symbolic"),
    dict(name="probe_try_open", src="probe_try_open.c",
         funcs=["try_open_fs"],
         configs=[{"PROBE_K": k} for k in (6, 0, 1, 2, 3, 4, 5, 7)] + [{"WITH_B": None}],
         unwind=4, unwindset=["try_open_fs.0:9"],
         backends=["default", "kissat"],
         bound="ctx->superblock 1..2^31-1 and the open flags symbolic; probe hit at 1024 << K for K = 0..6 or never (K = 7), one query each; "
               "result of the real open symbolic; -B given (one query)"),
    dict(name="main_dumpe2fs", src="main_dumpe2fs.c",
         cut_statics={"misc/dumpe2fs.c": ["list_desc"]},
         extra_src=["lib/ext2fs/io_manager.c"],
         funcs=["vf_real_main", "parse_extended_opts", "list_bad_blocks", "print_inline_journal_information",
                "print_journal_information", "check_mmp", "print_mmp_block", "vf_getopt"],
         configs=[{"ARGS": a} for a in (1, 2, 3, 4, 5, 6, 7, 8, 9, 10, 11, 12, 13, 14, 15, 16, 17, 18, 20, 21, 22, 23, 24, 25)],
         unwind=8, unwindset=["vf_getopt.0:16", "vf_real_main.0:8", "vf_real_main.1:9", "parse_extended_opts.0:4",
                              "vf_strtoul.0:9", "vf_strstr.0:17", "vf_strstr.1:17", "strlen.0:24", "strcpy.0:24", "strchr.0:24",
                              "strrchr.0:24", "strcmp.0:16", "list_bad_blocks.0:2", "stub_read_blk64.0:17", "ext2fs_file_read.0:17"],
         backends=["default", "kissat"], cap_quick=300,
         bound="24 argv sets: {d}, -h, -b, -x, -i, -o superblock=8193, -o superblock=8193 -o blocksize=4096, -f, -g, -m, -m -i, -i -m, "
               "-fhx, -o blocksize=4096, -o sb=32768,bs=2048 -x, e2mmpstatus, /s/e2mmpstatus -i, -osuperblock=8193 -b; refused: "
               "-o bogus, -V, no device, -q, -o superblock=9z, two devices; which ext2fs_open calls fail (16-bit mask: every retry/probe "
               "path), the error code, feature words, journal inode, MMP block, result of every reader stub: symbolic"),
    dict(name="main_tune2fs", src="main_tune2fs.c",
         cut_statics={"misc/tune2fs.c": ["tune2fs_setup_tdb"]},
         funcs=["vf_real_main", "parse_tune2fs_options", "parse_e2label_options", "handle_fslabel", "vf_getopt"],
         configs=[{"ARGS": a} for a in (5, 1, 2, 3, 4, 6, 7)] + [{"ARGS": a} for a in (10, 11, 12, 16, 27, 28, 31, 32)] +
                 [{"ARGS": a, "_tier": "thorough"} for a in (13, 14, 15, 17, 18, 19, 20, 21, 22, 23, 24, 25, 26, 29, 30)] +
                 [{"ARGS": a} for a in (40, 41, 42, 43, 44)],
         unwind=8, unwindset=["vf_getopt.0:50", "parse_tune2fs_options.0:8", "vf_strtoul.0:9", "strlen.0:16", "strcpy.0:16",
                              "strchr.0:16", "strrchr.0:16", "strcmp.0:16"],
         backends=["default", "kissat"], cap_quick=300,
         bound="35 argv sets: read-only {-l d}, {-l -f d}, {-fl d}, {-l -z u d}, {-z u -l -l d}, {e2label d}, {/sbin/e2label d}; "
               "modifying (open fails, run ends): one per option letter -c -C -e -E -j -L -M -o -O -r -s -u -U -I -i -g -J -Q, "
               "combined with -l before/after/clustered, e2label d new; refused: {d}, {-f d}, {-l}, {-z u d}, {-l d d}; "
               "open result and error code, feature words, s_state, mount flags/point, undo setup result, ioctl/open results: symbolic"),
    dict(name="main_debugfs", src="main_debugfs.c",
         cut_statics={"debugfs/debugfs.c": ["debugfs_setup_tdb"]},
         funcs=["vf_real_main", "open_filesystem", "close_filesystem", "vf_getopt"],
         # ARGS=22 ({-cw d}: debugfs.8 says catastrophic mode forces read-only) is NOT registered: open_filesystem() of the pinned
         # tree passes EXT2_FLAG_RW through with -c (counterexample: argv {g,-cw,x} -> ext2fs_open flags carry EXT2_FLAG_RW|SKIP_MMP|
         # IGNORE_SB_ERRORS); reported to the lead as a manual/behaviour discrepancy
         configs=[{"ARGS": a} for a in (1, 2, 3, 4, 5, 6, 7, 8, 9, 10, 11, 12, 13, 14, 20, 21)],
         unwind=8, unwindset=["vf_getopt.0:24", "vf_real_main.0:8", "do_open_filesys.0:10", "vf_strtoul.0:9"],
         backends=["default", "kissat"], cap_quick=300,
         bound="16 argv sets of main(): {d}, -c, -i, -n, -D, -b 4096 -s 32768, -i -d y, -ci, -R q; nothing to open: -s 8193 (no -b), "
               "-d y (no -i), -c (no device), -V, -q; control -w, -w -z u; which ext2fs_open calls fail and with which code, "
               "feature words, results of bitmap load / data-source open / set_data_io / undo setup / close / libss: symbolic"),
    dict(name="open_debugfs", src="main_debugfs.c",
         cut_statics={"debugfs/debugfs.c": ["debugfs_setup_tdb"]},
         funcs=["do_open_filesys", "open_filesystem", "close_filesystem", "vf_getopt"],
         configs=[{"ARGS": a} for a in (30, 31, 32, 33, 34, 35, 36)],
         unwind=8, unwindset=["vf_getopt.0:24", "vf_real_main.0:8", "do_open_filesys.0:10", "vf_strtoul.0:9"],
         backends=["default", "kissat"], cap_quick=300,
         bound="7 argv sets of the `open' command (do_open_filesys): {x}, -c, -f -i, -e -D, -i -d y -b 4096 -s 32768, two devices "
               "(refused), control -w; same symbolic results as main_debugfs"),
    dict(name="extjournal_ro", src="extjournal_ro.c",
         extra_src=["lib/ext2fs/io_manager.c", "lib/ext2fs/blknum.c"],
         funcs=["e2fsck_get_journal", "getblk", "ll_rw_block", "brelse", "mark_buffer_dirty"],
         configs=[{"BS": 1024}, {"BS": 4096}],
         unwind=4, unwindset=MAINL + ["uuid_is_null.0:17", "stub_jread64.0:17", "memcmp.0:17", "ll_rw_block.0:2"],
         backends=["default", "kissat"], cap_quick=300,
         bound="external journal (s_journal_uuid concrete, non-null), block size 1024 / 4096 per query; journal-device superblock magic, "
               "feature words, uuid, block count, checksum and the checksum verdict, open/read failure, journal name given or looked "
               "up (hit/miss), ctx->options, mount flags, read-only bit and the fix_problem answer word: all symbolic"),
]
HARNESSES += _e2undo("C13")   # the real main() of misc/e2undo.c (sources in harness/E2UNDO)

MANIFEST = {
    "text": "Library-level slice, bounded-exhaustive over the flag word: for every value of fs->flags without EXT2_FLAG_RW the "
            "encoded entry points (inode write, bitmap write, MMP start/stop/update/clear, close of a clean handle) reach no "
            "modifying io-manager call and leave the in-core dirty state alone; ext2fs_open2 never passes IO_FLAG_RW without "
            "EXT2_FLAG_RW; unix_io opens O_RDWR exactly with IO_FLAG_RW (all 2^32 io flag words); e2fsck_journal_release does "
            "not write the journal superblock under E2F_OPT_READONLY. A unix_io channel whose descriptor came from the real open path "
            "without IO_FLAG_RW leaves the device byte array unchanged for one arbitrary operation from any valid cache state and "
            "reports the refusal; ext2fs_close2 of a read-only DIRTY handle over that channel fails without modifying the device. "
            "Tool level: e2fsck's real main() with every pass stubbed never opens RW/EXCLUSIVE and reaches none of its writers under "
            "E2F_OPT_READONLY (all option words PRS can produce; PRS itself on 18 argv sets), and resize2fs -P opens O_RDONLY / "
            "without RW|EXCLUSIVE and exits before any resize step (9 argv sets). dumpe2fs's real main() (24 argv sets, every "
            "open-retry/probe path) never passes RW/EXCLUSIVE to ext2fs_open, passes exactly the documented flag word, opens the "
            "journal inode without EXT2_FILE_WRITE, reaches no writer and closes a clean handle (main_dumpe2fs). tune2fs's real "
            "main() + option parsers: -l (alone, with -f, with -z) and e2label <dev> open without RW/EXCLUSIVE, reach no journal "
            "recovery / MMP write / SETFSLABEL ioctl and close a clean handle; every parameter-changing option letter opens RW; "
            "option-less command lines open nothing (main_tune2fs, 35 argv sets). debugfs's real main(), `open' command, "
            "open_filesystem() and close_filesystem(): without -w no open carries RW (incl. the checksum retry), -c skips the "
            "bitmap load and adds SKIP_MMP|IGNORE_SB_ERRORS, the -d data source is opened with io flags 0 and only with -i, the "
            "handle is closed clean (main_debugfs, open_debugfs; no debugfs command executed). e2fsck_get_journal on an external "
            "journal: when every fix_problem answer is no (-n) no write reaches the journal device or the filesystem for every "
            "journal-device superblock content and checksum verdict; with yes the one write follows the checksum recomputation "
            "(extjournal_ro). e2image/e2freefrag mains are outside.",
    "note": "Trusted: CBMC's C semantics, the counting io-manager stub, POSIX refusal of writes on O_RDONLY descriptors. "
            "ext2fs_close2 does not itself test EXT2_FLAG_RW before flushing a DIRTY handle: the barrier is the O_RDONLY descriptor "
            "(close_dirty, unix_ro, unix_open_mode, open_ro).",
}
