/*
 * C13/open_ro: ext2fs_open2() called WITHOUT EXT2_FLAG_RW.
 *
 * Decided (config PREFIX, the manager's open() fails right away so that only the
 * flag mapping and the error exit are executed), for every open flag word,
 * superblock/block_size argument:
 *  - the io manager's open() is called exactly once and WITHOUT IO_FLAG_RW (this
 *    is what makes unix_io open the device O_RDONLY: harness unix_open_mode);
 *    IO_FLAG_EXCLUSIVE/DIRECT_IO mirror the caller's flags;
 *  - no modifying io entry point is reached, MMP is not entered, no handle leaks.
 *
 * NOT decided (the code below without -DPREFIX encodes it, but the query needs
 * > 10 GB: 1 KiB symbolic superblock read through a heap copy): the rest of
 * ext2fs_open2 on an arbitrary superblock/descriptor block -- that it reaches no
 * write, enters ext2fs_mmp_start only for EXCLUSIVE opens and returns a handle
 * without RW/dirty bits even after the backup-superblock descriptor fix-ups.
 * OUTSIDE: ext2fs_open2 after the channel is open (superblock parsing, descriptor fix-ups when opening from a backup superblock): encoded in open_ro.c without -DPREFIX but too large to solve (> 10 GB)
 */
#include "lib/ext2fs/openfs.c"

struct vf_in {
	int flags;
	int superblock;
	unsigned int block_size;
	struct ext2_super_block sb;
	unsigned char gd[1024];
	unsigned char csum_type_ok, sb_csum_ok;
	int open_rc, mmp_rc;
};
VF_DECLARE_INPUT(struct vf_in, IN)
#include "vf_input.inc"

#include "ro_common.h"

static int vf_nopen, vf_open_ioflags, vf_nmmp_start, vf_nfree, vf_ngdcsum;
static struct ext2_super_block vf_disk_sb;

static errcode_t stub_open(const char *name, int flags, io_channel *channel)
{
	(void) name;
	vf_nopen++;
	vf_open_ioflags = flags;
#ifdef PREFIX	/* quick tier: the manager's open() fails, only the flag mapping and the error exit are executed */
	return EXT2_ET_BAD_DEVICE_NAME;
#endif
	if (IN.open_rc)
		return IN.open_rc;
	*channel = &vf_io;
	return 0;
}
/* STUB: reads deliver the symbolic superblock (byte count -1024) or the symbolic descriptor block; every block address is accepted */
static errcode_t stub_open_read_blk64(io_channel ch, unsigned long long blk, int count, void *data)
{
	(void) ch; (void) blk;
	vf_nreads++;
	if (count == -SUPERBLOCK_SIZE)
		memcpy(data, &vf_disk_sb, SUPERBLOCK_SIZE);
	else if (count == 1)
		memcpy(data, IN.gd, 1024);
	else
		return EXT2_ET_SHORT_READ;
	return 0;
}
static errcode_t stub_open_read_blk(io_channel ch, unsigned long blk, int count, void *data)
{
	return stub_open_read_blk64(ch, blk, count, data);
}
static errcode_t stub_readahead(io_channel ch, unsigned long long blk, unsigned long long count)
{
	(void) ch; (void) blk; (void) count;
	return 0;
}
/* STUB: no SOURCE_DATE_EPOCH / E2FSPROGS_FAKE_TIME in the environment; checksum verifiers answer symbolically; seed/NLS/hashmap helpers do nothing; ext2fs_free counts */
char *ext2fs_safe_getenv(const char *arg) { (void) arg; return 0; }
int ext2fs_verify_csum_type(ext2_filsys fs, struct ext2_super_block *sb) { (void) fs; (void) sb; return IN.csum_type_ok; }
int ext2fs_superblock_csum_verify(ext2_filsys fs, struct ext2_super_block *sb) { (void) fs; (void) sb; return IN.sb_csum_ok; }
void ext2fs_init_csum_seed(ext2_filsys fs) { (void) fs; }
void ext2fs_group_desc_csum_set(ext2_filsys fs, dgrp_t group) { (void) fs; (void) group; vf_ngdcsum++; }
static int vf_dummy_obj;
struct ext2fs_hashmap *ext2fs_hashmap_create(uint32_t (*hash_fct)(const void *, size_t), void (*free_fct)(void *), size_t size)
{
	(void) hash_fct; (void) free_fct; (void) size;
	return (struct ext2fs_hashmap *) &vf_dummy_obj;
}
const struct ext2fs_nls_table *ext2fs_load_nls_table(int encoding) { (void) encoding; return 0; }
void ext2fs_free(ext2_filsys fs) { (void) fs; vf_nfree++; }
/* STUB: ext2fs_mmp_start() is counted and returns a symbolic code (its own read-only behaviour: harness ro_mmp) */
errcode_t ext2fs_mmp_start(ext2_filsys fs) { (void) fs; vf_nmmp_start++; return IN.mmp_rc; }
errcode_t ext2fs_mmp_stop(ext2_filsys fs) { (void) fs; return 0; }

#define VF_DIRTY_BITS (EXT2_FLAG_DIRTY | EXT2_FLAG_BB_DIRTY | EXT2_FLAG_IB_DIRTY | EXT2_FLAG_CHANGED)

int main(void)
{
	errcode_t rc;
	ext2_filsys fs = 0;
	__u64 blocks;

	VF_INPUT(IN);
	vf_setup_io();
	vf_mgr.open = stub_open;
	vf_mgr.read_blk = stub_open_read_blk;
	vf_mgr.read_blk64 = stub_open_read_blk64;
	vf_mgr.cache_readahead = stub_readahead;

	/* ASSUME: the caller asks for a read-only open and passes open flags only (no RW, no in-core dirty/changed state bits, not an e2image file) */
	ASSUME(!(IN.flags & (EXT2_FLAG_RW | VF_DIRTY_BITS | EXT2_FLAG_IMAGE_FILE)));
	ASSUME(IN.csum_type_ok <= 1 && IN.sb_csum_ok <= 1);

	vf_disk_sb = IN.sb;
	/* BOUND: 1 KiB blocks, 64 blocks per group, at most 3 groups, descriptor size 32/64: geometry fields that size allocations are constants; every other superblock byte is symbolic */
	vf_disk_sb.s_log_block_size = 0;
	vf_disk_sb.s_log_cluster_size = 0;
	vf_disk_sb.s_blocks_per_group = 64;
	vf_disk_sb.s_clusters_per_group = 64;
	vf_disk_sb.s_first_data_block = 1;
	vf_disk_sb.s_desc_size = 64;
	vf_disk_sb.s_blocks_count_hi = 0;
	blocks = IN.sb.s_blocks_count;
	ASSUME(blocks <= 1 + 3 * 64);

	rc = ext2fs_open2(vf_devname, 0, IN.flags, IN.superblock, IN.block_size, &vf_mgr, &fs);

	PROP(vf_nopen == 1, "open2 opens the io channel exactly once");
	PROP(!(vf_open_ioflags & IO_FLAG_RW), "read-only open never passes IO_FLAG_RW to the io manager");
	PROP(!(vf_open_ioflags & IO_FLAG_EXCLUSIVE) == !(IN.flags & EXT2_FLAG_EXCLUSIVE) &&
	     !(vf_open_ioflags & IO_FLAG_DIRECT_IO) == !(IN.flags & EXT2_FLAG_DIRECT_IO),
	     "EXCLUSIVE / DIRECT_IO reach the io manager exactly as requested");
	PROP(vf_nwrites == 0, "read-only open reaches no modifying io entry point");
	PROP(vf_nmmp_start == 0 || (IN.flags & EXT2_FLAG_EXCLUSIVE), "read-only open enters MMP only when EXCLUSIVE was requested");
	if (rc == 0) {
		PROP(fs != 0 && fs->io == &vf_io, "successful open returns a handle on the opened channel");
		PROP(!(fs->flags & EXT2_FLAG_RW), "handle of a read-only open does not carry EXT2_FLAG_RW");
		PROP(!(fs->flags & VF_DIRTY_BITS), "handle of a read-only open carries no dirty bit (even after the backup-superblock descriptor fix-ups)");
	} else if (!(IN.flags & EXT2_FLAG_NOFREE_ON_ERROR))
		PROP(fs == 0, "failed open returns no handle");
	VF_END();
	return 0;
}
