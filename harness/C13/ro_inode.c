/*
 * C13/ro_inode: ext2fs_write_inode2() / ext2fs_write_new_inode() on a handle
 * opened WITHOUT EXT2_FLAG_RW never reach a modifying entry point of the io
 * manager, for every other flag bit, every inode number, every inode content,
 * every group descriptor, with or without a pre-existing inode cache.
 *
 * Reference (ext2fs.h contract "EXT2_ET_RO_FILSYS: filesystem opened read-only"):
 * the call either fails early for an unrelated reason or fails with
 * EXT2_ET_RO_FILSYS; it never succeeds and never sets EXT2_FLAG_CHANGED/DIRTY.
 */
#include "lib/ext2fs/inode.c"

#ifndef ISIZE
#define ISIZE 128
#endif
#ifndef BUFSZ
#define BUFSZ ISIZE
#endif
#ifndef OP
#define OP 1
#endif

struct vf_in {
	unsigned int flags;
	__u32 ino;
	int wflags;
	unsigned char inode[256];
	unsigned char gd[64];
	unsigned char fill;
	unsigned char have_icache;
	__u32 cached_ino[2];
	__u32 feature_incompat;
};
VF_DECLARE_INPUT(struct vf_in, IN)
#include "vf_input.inc"

#include "ro_common.h"

/* STUB: inode checksum set/verify succeed (C14 covers them) */
errcode_t ext2fs_inode_csum_set(ext2_filsys fs, ext2_ino_t inum, struct ext2_inode_large *inode)
{
	(void) fs; (void) inum; (void) inode;
	return 0;
}
int ext2fs_inode_csum_verify(ext2_filsys fs, ext2_ino_t inum, struct ext2_inode_large *inode)
{
	(void) fs; (void) inum; (void) inode;
	return 1;
}

static unsigned char vf_ibuf[256] __attribute__((aligned(8)));
static struct ext2_inode_cache vf_ic;
static struct ext2_inode_cache_ent vf_ice[2];
static unsigned char vf_icbuf[VF_BS] __attribute__((aligned(8)));
static unsigned char vf_icino[2][256] __attribute__((aligned(8)));

int main(void)
{
	errcode_t rc;
	unsigned int before;
	int i;
	__u32 k;

	VF_INPUT(IN);
	vf_setup_fs(IN.flags, ISIZE);
	vf_fill = IN.fill;
	for (i = 0; i < 64; i++)
		vf_gd[i] = IN.gd[i];
	for (i = 0; i < 256; i++)
		vf_ibuf[i] = IN.inode[i];
	/* every incompat feature bit symbolic (journal_dev makes the call fail early) */
	vf_sb.s_feature_incompat = IN.feature_incompat;
	/* ASSUME: with the 64bit feature s_desc_size is 64 (ext2fs_open2 refuses 0 and non powers of two) */
	vf_sb.s_desc_size = (IN.feature_incompat & EXT4_FEATURE_INCOMPAT_64BIT) ? 64 : 0;
	/* BOUND: inode cache absent, or present with 2 entries holding symbolic inode numbers */
#ifdef ICACHE	/* compile-time: keeps fs->icache a single known object */
	{
		vf_ic.buffer = vf_icbuf;
		vf_ic.buffer_blk = 0;
		vf_ic.cache_last = -1;
		vf_ic.cache_size = 2;
		vf_ic.refcount = 1;
		vf_ic.cache = vf_ice;
		for (i = 0; i < 2; i++) {
			vf_ice[i].ino = IN.cached_ino[i];
			vf_ice[i].inode = (struct ext2_inode *) vf_icino[i];
		}
		vf_fs.icache = &vf_ic;
	}
#endif
	before = vf_fs.flags;

	/* BOUND: inode numbers {0, 1, 9, 16, 17, 0xffffffff} of a 16-inode filesystem (invalid low, first, first of the 2nd table block, last, invalid high, max); dispatched so that each call sees a constant number */
	ASSUME(IN.ino == 0 || IN.ino == 1 || IN.ino == 9 || IN.ino == 16 || IN.ino == 17 || IN.ino == 0xffffffffu);
	rc = -1;
	for (k = 0; k < 6; k++) {
		static const __u32 inos[6] = { 0, 1, 9, 16, 17, 0xffffffffu };
		__u32 ino = inos[k];
		if (IN.ino != ino)
			continue;
#if OP == 1
		rc = ext2fs_write_inode2(&vf_fs, ino, (struct ext2_inode *) vf_ibuf, BUFSZ, IN.wflags);
#else
		rc = ext2fs_write_new_inode(&vf_fs, ino, (struct ext2_inode *) vf_ibuf);
#endif
	}
	PROP(vf_nwrites == 0, "read-only handle: inode write reaches no modifying io entry point");
	PROP(rc != 0, "read-only handle: inode write never reports success");
	if (IN.ino >= 1 && IN.ino <= 16 && !(IN.feature_incompat & EXT3_FEATURE_INCOMPAT_JOURNAL_DEV)
	    && (BUFSZ >= ISIZE || OP == 2))
		PROP(rc == EXT2_ET_RO_FILSYS, "read-only handle: valid inode write is refused with EXT2_ET_RO_FILSYS");
	PROP(vf_fs.flags == before, "read-only handle: inode write leaves fs->flags untouched (no CHANGED/DIRTY)");
	VF_END();
	return 0;
}
