/*
 * C13/ro_bitmaps: ext2fs_write_bitmaps() (the function ext2fs_close2/ext2fs_flush2
 * call through fs->write_bitmaps), ext2fs_write_inode_bitmap() and
 * ext2fs_write_block_bitmap() on a handle opened WITHOUT EXT2_FLAG_RW: no
 * modifying io entry point is reached, whatever the dirty flags say, and the
 * in-memory state that decides later writes (fs->flags, group descriptor) is
 * untouched.
 *
 * Reference: a read-only handle refuses with EXT2_ET_RO_FILSYS when there is
 * something to write; ext2fs_write_bitmaps() returns 0 when nothing is dirty.
 */
#include "lib/ext2fs/rw_bitmaps.c"

#ifndef OP
#define OP 1
#endif

struct vf_in {
	unsigned int flags;
	unsigned char gd[64];
	unsigned char fill;
	unsigned char have_imap, have_bmap;
	__u32 feature_incompat, feature_ro_compat;
};
VF_DECLARE_INPUT(struct vf_in, IN)
#include "vf_input.inc"

#include "ro_common.h"

#include "bm_stubs.h"

static struct ext2fs_struct_generic_bitmap_base vf_dummy_imap, vf_dummy_bmap;

int main(void)
{
	errcode_t rc;
	unsigned int before;
	int i, something;

	VF_INPUT(IN);
	vf_setup_fs(IN.flags, 128);
	vf_fill = IN.fill;
	for (i = 0; i < 64; i++)
		vf_gd[i] = IN.gd[i];
	vf_sb.s_feature_incompat = IN.feature_incompat;
	vf_sb.s_feature_ro_compat = IN.feature_ro_compat;
	/* ASSUME: with the 64bit feature s_desc_size is 64 (ext2fs_open2 refuses 0 and non powers of two) */
	vf_sb.s_desc_size = (IN.feature_incompat & EXT4_FEATURE_INCOMPAT_64BIT) ? 64 : 0;
	ASSUME(IN.have_imap <= 1 && IN.have_bmap <= 1);
	/* the in-core bitmaps are opaque here (only their presence matters before the read-only test) */
	vf_fs.inode_map = IN.have_imap ? (ext2fs_inode_bitmap) &vf_dummy_imap : 0;
	vf_fs.block_map = IN.have_bmap ? (ext2fs_block_bitmap) &vf_dummy_bmap : 0;
	before = vf_fs.flags;

#if OP == 1
	rc = ext2fs_write_bitmaps(&vf_fs);
	something = (IN.have_imap && (before & EXT2_FLAG_IB_DIRTY)) || (IN.have_bmap && (before & EXT2_FLAG_BB_DIRTY));
#elif OP == 2
	rc = ext2fs_write_inode_bitmap(&vf_fs);
	something = 1;
#else
	rc = ext2fs_write_block_bitmap(&vf_fs);
	something = 1;
#endif
	PROP(vf_nwrites == 0, "read-only handle: bitmap write reaches no modifying io entry point");
	PROP(rc == (something ? EXT2_ET_RO_FILSYS : 0), "read-only handle: bitmap write is refused with EXT2_ET_RO_FILSYS exactly when there is something to write");
	PROP(vf_fs.flags == before, "read-only handle: bitmap write leaves fs->flags untouched (dirty bits neither set nor cleared)");
	PROP(vf_gdcsum_set == 0, "read-only handle: bitmap write does not touch the group descriptors");
	VF_END();
	return 0;
}
