/*
 * C13/main_tune2fs: the real main() of misc/tune2fs.c with its real option
 * parsers parse_tune2fs_options() / parse_e2label_options(), driven by a concrete
 * argv per query (pattern P).
 *
 * Real code: main() (whole body: every modifying step is present and guarded by
 * the globals the parser leaves behind), parse_tune2fs_options(),
 * parse_e2label_options(), handle_fslabel(), usage().
 * Cut (cut_statics): tune2fs_setup_tdb() (undo-file setup: switches the io manager
 * to undo_io with a symbolic result; writes the undo file, never the device).
 * Recording stubs: ext2fs_open2() (flags and manager of EVERY call, incl. the
 * retry_open after the undo manager was installed), ext2fs_close_free() (handle
 * flags at close), open()/ioctl() on the mount point, and the writers main() can
 * reach without going through another static of tune2fs.c.
 *
 * Asserted:
 *   read-only sets (tune2fs -l alone / with -f / with -z, e2label <dev>): every
 *   ext2fs_open2 lacks EXT2_FLAG_RW and EXT2_FLAG_EXCLUSIVE; no writer (journal
 *   recovery, MMP clear, MMP stop on an RW handle, flush, io write), no
 *   FS_IOC_SETFSLABEL / EXT4_IOC_SETFSUUID ioctl, the mount point is opened
 *   O_RDONLY; whenever the handle is closed it is neither RW nor dirty;
 *   modifying sets (one per option letter the manual lists as changing a
 *   parameter): the open carries EXT2_FLAG_RW  (control: the mapping is not
 *   constantly read-only);
 *   refused sets (no option, only -f / -z, no device): nothing is opened.
 */
#define _XOPEN_SOURCE 600
#include "config.h"
#include <fcntl.h>
#include <grp.h>
#include <getopt.h>
#include <pwd.h>
#include <stdio.h>
#include <stdlib.h>
#include <strings.h>
#include <string.h>
#include <time.h>
#include <unistd.h>
#include <errno.h>
#include <sys/types.h>
#include <libgen.h>
#include <limits.h>
#include <sys/ioctl.h>
#include <locale.h>
#include <libintl.h>
#include "ext2fs/ext2_fs.h"
#include "ext2fs/ext2fs.h"
#include "ext2fs/kernel-jbd.h"
#include "et/com_err.h"
#include "support/plausible.h"
#include "support/quotaio.h"
#include "support/devname.h"
#include "uuid/uuid.h"
#include "e2p/e2p.h"
#include "util.h"
#include "blkid/blkid.h"
#include "support/nls-enable.h"

void vf_exit(int code);
int vf_getopt(int argc, char *const argv[], const char *optstring);
unsigned long vf_strtoul(const char *s, char **end, int base);
int vf_open(const char *path, int oflags);
int vf_close(int fd);
int vf_ioctl(int fd, unsigned long req, void *arg);
static char *vf_optarg;
static int vf_optind = 1;
#define exit(c) vf_exit(c)
#define getopt(a, b, c) vf_getopt(a, b, c)
#define optarg vf_optarg
#define optind vf_optind
#define strtoul(s, e, b) vf_strtoul(s, e, b)
#define strtol(s, e, b) ((long) vf_strtoul(s, e, b))
#define atoi(s) ((int) vf_strtoul(s, 0, 10))
#define open(p, f) vf_open(p, f)
#define close(fd) vf_close(fd)
#define ioctl(fd, req, arg) vf_ioctl(fd, (unsigned long) (req), (void *) (arg))
#undef gettext
#define gettext(s) (s)
#define setlocale(a, b) ((void) 0)
#define bindtextdomain(a, b) ((void) 0)
#define textdomain(a) ((void) 0)
#define set_com_err_gettext(f) ((void) 0)
#define printf(...) ((void) 0)
#define fprintf(...) ((void) 0)
#define fputs(s, f) ((void) 0)
#define puts(s) ((void) 0)
#define free(p) ((void) 0)	/* device_name is the argv string here */
#define getenv(n) ((char *) 0)	/* ASSUME: TEST_IO_FLAGS / TEST_IO_DEBUG / E2FSPROGS_UNDO_DIR are not in the environment */
#define main vf_real_main
static int tune2fs_setup_tdb(const char *name, io_manager *io_ptr);	/* cut: defined below */
#include "misc/tune2fs.c"
#undef main
#undef exit
#undef printf
#undef fprintf
#undef fputs
#undef puts
#undef free
#undef getenv
#undef open
#undef close
#undef ioctl
#undef strtoul
#undef strtol
#undef atoi

#ifndef ARGS
#define ARGS 1
#endif

struct vf_in {
	unsigned char open_fails, errkind, mount_rc, rawopen_fails, ioctl_rc, undo_rc, close_rc;
	int mount_flags;
	unsigned char have_mntpt;
	__u32 feature_compat, feature_incompat, feature_ro_compat;
	__u16 state;
};
VF_DECLARE_INPUT(struct vf_in, IN)
#include "vf_input.inc"
#include "env.c"

/* ---- argv sets; X_RW is the reference: tune2fs.8 -- "-l list the contents of the superblock"; -f force and -z undo_file change
 *      no parameter; every other option letter adjusts a parameter (=> the filesystem has to be opened for writing);
 *      e2label.8 -- without a new label it only displays the label ---- */
static char a_t[2] = "t", a_e2l[8] = "e2label", a_e2lp[14] = "/sbin/e2label", a_dev[2] = "x", a_u[2] = "u", a_v[2] = "v",
	    a_20[3] = "20", a_5[2] = "5", a_cont[9] = "continue", a_100[4] = "100", a_1[2] = "1", a_0[2] = "0", a_256[4] = "256",
	    a_1d[3] = "1d", a_clear[6] = "clear";
static char o_l[3] = "-l", o_f[3] = "-f", o_fl[4] = "-fl", o_z[3] = "-z", o_c[3] = "-c", o_C[3] = "-C", o_e[3] = "-e", o_E[3] = "-E",
	    o_j[3] = "-j", o_L[3] = "-L", o_M[3] = "-M", o_o[3] = "-o", o_O[3] = "-O", o_r[3] = "-r", o_s[3] = "-s", o_u[3] = "-u",
	    o_U[3] = "-U", o_I[3] = "-I", o_i[3] = "-i", o_g[3] = "-g", o_J[3] = "-J", o_Q[3] = "-Q", o_lc20[6] = "-lc20";
#define X_NOOPEN 0
#if ARGS == 1
static char *vf_argv[] = { a_t, o_l, a_dev, 0 };
#define X_RW 0
#elif ARGS == 2
static char *vf_argv[] = { a_t, o_l, o_f, a_dev, 0 };
#define X_RW 0
#elif ARGS == 3
static char *vf_argv[] = { a_t, o_fl, a_dev, 0 };
#define X_RW 0
#elif ARGS == 4
static char *vf_argv[] = { a_t, o_l, o_z, a_u, a_dev, 0 };
#define X_RW 0
#elif ARGS == 5
static char *vf_argv[] = { a_e2l, a_dev, 0 };
#define X_RW 0
#elif ARGS == 6
static char *vf_argv[] = { a_e2lp, a_dev, 0 };
#define X_RW 0
#elif ARGS == 7
static char *vf_argv[] = { a_t, o_z, a_u, o_l, o_l, a_dev, 0 };
#define X_RW 0
#elif ARGS == 10
static char *vf_argv[] = { a_t, o_c, a_20, a_dev, 0 };
#define X_RW 1
#elif ARGS == 11
static char *vf_argv[] = { a_t, o_l, o_c, a_20, a_dev, 0 };
#define X_RW 1
#elif ARGS == 12
static char *vf_argv[] = { a_t, o_C, a_5, o_l, a_dev, 0 };
#define X_RW 1
#elif ARGS == 13
static char *vf_argv[] = { a_t, o_e, a_cont, a_dev, 0 };
#define X_RW 1
#elif ARGS == 14
static char *vf_argv[] = { a_t, o_E, a_v, a_dev, 0 };
#define X_RW 1
#elif ARGS == 15
static char *vf_argv[] = { a_t, o_j, a_dev, 0 };
#define X_RW 1
#elif ARGS == 16
static char *vf_argv[] = { a_t, o_L, a_v, a_dev, 0 };
#define X_RW 1
#elif ARGS == 17
static char *vf_argv[] = { a_t, o_M, a_v, a_dev, 0 };
#define X_RW 1
#elif ARGS == 18
static char *vf_argv[] = { a_t, o_o, a_v, a_dev, 0 };
#define X_RW 1
#elif ARGS == 19
static char *vf_argv[] = { a_t, o_O, a_v, a_dev, 0 };
#define X_RW 1
#elif ARGS == 20
static char *vf_argv[] = { a_t, o_r, a_100, a_dev, 0 };
#define X_RW 1
#elif ARGS == 21
static char *vf_argv[] = { a_t, o_s, a_1, a_dev, 0 };
#define X_RW 1
#elif ARGS == 22
static char *vf_argv[] = { a_t, o_u, a_0, a_dev, 0 };
#define X_RW 1
#elif ARGS == 23
static char *vf_argv[] = { a_t, o_U, a_clear, a_dev, 0 };
#define X_RW 1
#elif ARGS == 24
static char *vf_argv[] = { a_t, o_I, a_256, a_dev, 0 };
#define X_RW 1
#elif ARGS == 25
static char *vf_argv[] = { a_t, o_i, a_1d, a_dev, 0 };
#define X_RW 1
#elif ARGS == 26
static char *vf_argv[] = { a_t, o_g, a_0, a_dev, 0 };
#define X_RW 1
#elif ARGS == 27
static char *vf_argv[] = { a_e2l, a_dev, a_v, 0 };
#define X_RW 1
#elif ARGS == 28
static char *vf_argv[] = { a_t, o_l, o_E, a_v, a_dev, 0 };
#define X_RW 1
#elif ARGS == 29
static char *vf_argv[] = { a_t, o_J, a_v, a_dev, 0 };
#define X_RW 1
#elif ARGS == 30
static char *vf_argv[] = { a_t, o_Q, a_v, a_dev, 0 };
#define X_RW 1
#elif ARGS == 31
static char *vf_argv[] = { a_t, o_lc20, a_dev, 0 };
#define X_RW 1
#elif ARGS == 32
static char *vf_argv[] = { a_t, o_l, o_f, o_L, a_v, a_dev, 0 };
#define X_RW 1
#elif ARGS == 40		/* refused: nothing may be opened */
static char *vf_argv[] = { a_t, a_dev, 0 };
#define X_RW 0
#undef X_NOOPEN
#define X_NOOPEN 1
#elif ARGS == 41
static char *vf_argv[] = { a_t, o_f, a_dev, 0 };
#define X_RW 0
#undef X_NOOPEN
#define X_NOOPEN 1
#elif ARGS == 42
static char *vf_argv[] = { a_t, o_l, 0 };
#define X_RW 0
#undef X_NOOPEN
#define X_NOOPEN 1
#elif ARGS == 43
static char *vf_argv[] = { a_t, o_z, a_u, a_dev, 0 };
#define X_RW 0
#undef X_NOOPEN
#define X_NOOPEN 1
#elif ARGS == 44
static char *vf_argv[] = { a_t, o_l, a_dev, a_dev, 0 };
#define X_RW 0
#undef X_NOOPEN
#define X_NOOPEN 1
#else
#error ARGS
#endif
#define VF_ARGC ((int) (sizeof(vf_argv) / sizeof(vf_argv[0])) - 1)

#include "vf_getopt.h"

/* STUB: strtoul()/strtol()/atoi(): decimal digits only (the argv sets use decimal numbers), end pointer at the first non-digit */
unsigned long vf_strtoul(const char *s, char **end, int base)
{
	unsigned long v = 0;
	int i;
	(void) base;
	for (i = 0; i < 8 && s[i] >= '0' && s[i] <= '9'; i++)
		v = v * 10 + (unsigned long) (s[i] - '0');
	if (end)
		*end = (char *) &s[i];
	return v;
}

static int vf_nopen2, vf_open2_rw, vf_open2_norw, vf_open2_excl, vf_nwriters, vf_niowrite, vf_nclose, vf_close_dirty, vf_ended;
static int vf_nrawopen, vf_rawopen_bad, vf_set_ioctl, vf_nundo;
static io_manager vf_open2_mgr[2];
static struct struct_ext2_filsys vf_fs;
static struct ext2_super_block vf_sb;
static struct struct_io_channel vf_io;
static struct struct_io_manager vf_unix_mgr, vf_undo_mgr;
io_manager unix_io_manager = &vf_unix_mgr;
io_manager undo_io_manager = &vf_undo_mgr;
const struct error_table et_ext2_error_table;

static void vf_finish(void)
{
	vf_ended = 1;
#if X_NOOPEN
	PROP(vf_nopen2 == 0 && vf_nrawopen == 0, "tune2fs: a command line without any action (no option, only -f / -z, no device) opens nothing");
#elif X_RW
	PROP(vf_open2_norw == 0, "control: a parameter-changing option opens the filesystem with EXT2_FLAG_RW");
#else
	PROP(vf_open2_rw == 0 && vf_open2_excl == 0, "tune2fs -l / e2label <dev>: no ext2fs_open2 call carries EXT2_FLAG_RW or EXT2_FLAG_EXCLUSIVE");
	PROP(vf_nopen2 <= 1 + vf_nundo && vf_nundo <= 1, "tune2fs -l: one open, one more after an undo manager was installed");
	PROP(vf_nwriters == 0 && vf_niowrite == 0, "tune2fs -l / e2label <dev>: no journal recovery / MMP clear / flush / io write is reached");
	PROP(vf_set_ioctl == 0 && vf_rawopen_bad == 0, "tune2fs -l / e2label <dev>: the mount point is opened O_RDONLY and only FS_IOC_GETFSLABEL is issued");
	PROP(vf_close_dirty == 0, "tune2fs -l / e2label <dev>: at every ext2fs_close_free the handle is neither RW nor dirty");
#endif
	VF_END();
#ifdef VF_REPLAY
	fflush(0);
	_exit(0);
#else
	__CPROVER_assume(0);
#endif
}
void vf_exit(int code) { (void) code; vf_finish(); }

static errcode_t stub_write_blk64(io_channel ch, unsigned long long blk, int count, const void *data)
{ (void) ch; (void) blk; (void) count; (void) data; vf_niowrite++; return 0; }
static errcode_t stub_write_blk(io_channel ch, unsigned long blk, int count, const void *data)
{ (void) ch; (void) blk; (void) count; (void) data; vf_niowrite++; return 0; }
static errcode_t stub_write_byte(io_channel ch, unsigned long off, int count, const void *data)
{ (void) ch; (void) off; (void) count; (void) data; vf_niowrite++; return 0; }

/* STUB: ext2fs_open2(): records flags and manager of every call; X_RW sets: fails (the run ends before the modifying steps, which are not this harness's subject); read-only sets: fails or succeeds (symbolic) on a handle with symbolic feature words */
errcode_t ext2fs_open2(const char *name, const char *io_opts, int flags, int superblock,
		       unsigned int block_size, io_manager manager, ext2_filsys *ret_fs)
{
	(void) name; (void) io_opts; (void) superblock; (void) block_size;
	if (vf_nopen2 < 2)
		vf_open2_mgr[vf_nopen2] = manager;
	vf_nopen2++;
	if (flags & EXT2_FLAG_RW) vf_open2_rw++; else vf_open2_norw++;
	if (flags & EXT2_FLAG_EXCLUSIVE) vf_open2_excl++;
	vf_sb.s_magic = EXT2_SUPER_MAGIC;
	vf_sb.s_feature_compat = IN.feature_compat;
	vf_sb.s_feature_incompat = IN.feature_incompat;
	vf_sb.s_feature_ro_compat = IN.feature_ro_compat;
	vf_sb.s_state = IN.state;
	vf_sb.s_blocks_count = 8192;
	vf_sb.s_inode_size = 128;
	vf_sb.s_rev_level = 1;
	vf_io.magic = EXT2_ET_MAGIC_IO_CHANNEL;
	vf_io.manager = manager;
	vf_fs.magic = EXT2_ET_MAGIC_EXT2FS_FILSYS;
	vf_fs.super = &vf_sb;
	vf_fs.io = &vf_io;
	vf_fs.flags = flags;
	vf_fs.blocksize = 1024;
	vf_fs.group_desc_count = 1;
	vf_fs.mmp_buf = 0;
#if X_RW
	*ret_fs = &vf_fs;	/* EXT2_FLAG_NOFREE_ON_ERROR: the handle survives the failure */
	return EXT2_ET_BAD_MAGIC;
#else
	if (IN.open_fails & 1) {
		*ret_fs = (flags & EXT2_FLAG_NOFREE_ON_ERROR) ? &vf_fs : 0;
		return (IN.errkind & 3) == 0 ? EXT2_ET_BAD_MAGIC : (IN.errkind & 3) == 1 ? EXT2_ET_MMP_FAILED :
		       (IN.errkind & 3) == 2 ? EXT2_ET_MMP_FSCK_ON : EXT2_ET_SB_CSUM_INVALID;
	}
	*ret_fs = &vf_fs;
	return 0;
#endif
}
static void vf_note_close(ext2_filsys fs)
{
	vf_nclose++;
	if (fs && (fs->flags & (EXT2_FLAG_RW | EXT2_FLAG_DIRTY | EXT2_FLAG_BB_DIRTY | EXT2_FLAG_IB_DIRTY)))
		vf_close_dirty++;
}
/* STUB: ext2fs_close_free(): records the handle's flags at close (closefs.c flushes iff RW and dirty: harnesses close_ro / close_dirty); symbolic result */
errcode_t ext2fs_close_free(ext2_filsys *fs) { vf_note_close(*fs); *fs = 0; return (IN.close_rc & 1) ? EIO : 0; }
void ext2fs_free(ext2_filsys fs) { (void) fs; }
/* STUB: writers main() reaches directly: counted.  ext2fs_mmp_stop() only writes through an RW handle without SKIP_MMP (mmp.c; harness ro_mmp) */
errcode_t ext2fs_mmp_stop(ext2_filsys fs)
{
	if ((fs->flags & EXT2_FLAG_RW) && !(fs->flags & EXT2_FLAG_SKIP_MMP))
		vf_nwriters++;
	return 0;
}
errcode_t ext2fs_mmp_clear(ext2_filsys fs) { (void) fs; vf_nwriters++; return 0; }
errcode_t ext2fs_run_ext3_journal(ext2_filsys *fs) { (void) fs; vf_nwriters++; return 0; }
errcode_t ext2fs_flush(ext2_filsys fs) { (void) fs; vf_nwriters++; return 0; }
errcode_t ext2fs_flush2(ext2_filsys fs, int flags) { (void) fs; (void) flags; vf_nwriters++; return 0; }
errcode_t ext2fs_close(ext2_filsys fs) { vf_note_close(fs); return 0; }
errcode_t ext2fs_close2(ext2_filsys fs, int flags) { (void) flags; vf_note_close(fs); return 0; }
errcode_t ext2fs_write_inode(ext2_filsys fs, ext2_ino_t ino, struct ext2_inode *inode) { (void) fs; (void) ino; (void) inode; vf_nwriters++; return 0; }
errcode_t ext2fs_write_bitmaps(ext2_filsys fs) { (void) fs; vf_nwriters++; return 0; }
errcode_t ext2fs_create_orphan_file(ext2_filsys fs, blk_t num_blocks) { (void) fs; (void) num_blocks; vf_nwriters++; return 0; }

/* STUB: tune2fs_setup_tdb() (cut): installs the undo manager (or fails) -- the undo file is the only thing it writes */
static int tune2fs_setup_tdb(const char *name, io_manager *io_ptr)
{
	(void) name;
	vf_nundo++;
	if (IN.undo_rc & 1)
		return ENOMEM;
	if (IN.undo_rc & 2)
		return 0;		/* undo file name "none": manager unchanged */
	*io_ptr = undo_io_manager;
	return 0;
}
/* STUB: mount state, mount point open()/ioctl(): recorded */
errcode_t ext2fs_check_mount_point(const char *file, int *mount_flags_p, char *mtpt, int mtlen)
{
	(void) file; (void) mtlen;
	if (IN.mount_rc & 1)
		return EXT2_ET_BAD_DEVICE_NAME;
	*mount_flags_p = IN.mount_flags;
	mtpt[0] = (IN.have_mntpt & 1) ? '/' : 0;
	mtpt[1] = 0;
	return 0;
}
int vf_open(const char *path, int oflags)
{
	(void) path;
	vf_nrawopen++;
	if ((oflags & O_ACCMODE) != O_RDONLY || (oflags & (O_TRUNC | O_CREAT)))
		vf_rawopen_bad++;
	if (IN.rawopen_fails & 1) { errno = EACCES; return -1; }
	return 7;
}
int vf_close(int fd) { (void) fd; return 0; }
int vf_ioctl(int fd, unsigned long req, void *arg)
{
	(void) fd; (void) arg;
	if (req != (unsigned long) FS_IOC_GETFSLABEL && req != (unsigned long) EXT4_IOC_GETFSUUID)
		vf_set_ioctl++;
	if (IN.ioctl_rc & 1) { errno = (IN.ioctl_rc & 2) ? ENOTTY : EIO; return -1; }
	return 0;
}
/* STUB: name resolution / printing / option sub-parsers that touch no device: no-ops */
char *get_progname(char *argv_zero)
{
	char *p = strrchr(argv_zero, '/');
	return p ? p + 1 : argv_zero;
}
char *get_devname(blkid_cache cache, const char *token, const char *value) { (void) cache; (void) value; return (char *) token; }
int check_plausibility(const char *device, int flags, int *ret_is_dev) { (void) device; (void) flags; (void) ret_is_dev; return 0; }
void dump_mmp_msg(struct mmp_struct *mmp, const char *msg) { (void) mmp; (void) msg; }
void list_super(struct ext2_super_block *sb) { (void) sb; }
void parse_journal_opts(const char *opts) { (void) opts; }
int parse_quota_opts(const char *opts, int (*func)(char *)) { (void) opts; (void) func; return 0; }
errcode_t add_error_table(const struct error_table *et) { (void) et; return 0; }
errcode_t remove_error_table(const struct error_table *et) { (void) et; return 0; }

int main(void)
{
	VF_INPUT(IN);
	vf_unix_mgr.magic = vf_undo_mgr.magic = EXT2_ET_MAGIC_IO_MANAGER;
	vf_unix_mgr.write_blk = vf_undo_mgr.write_blk = stub_write_blk;
	vf_unix_mgr.write_blk64 = vf_undo_mgr.write_blk64 = stub_write_blk64;
	vf_unix_mgr.write_byte = vf_undo_mgr.write_byte = stub_write_byte;
	vf_real_main(VF_ARGC, vf_argv);
	vf_finish();
	return 0;
}
