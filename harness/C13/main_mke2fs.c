/*
 * C13/main_mke2fs: the real main() of misc/mke2fs.c from the return of the option
 * parser to its last statement, with every step that can touch the device as a
 * RECORDING stub (pattern P).
 *
 * Real code: main(), should_do_undo(), mke2fs_setup_tdb(), set_error_behavior(),
 * mke2fs_discard_device() (over the io stub's discard), set_os(),
 * get_*_from_profile().
 * Cut (cut_statics): PRS() -> specification stub that leaves behind SYMBOLIC values
 * of every global main() reads (noaction, quiet, verbose, discard, dev_size,
 * cflag, super_only, lazy_itable_init, undo_file, journal_device/size, fs_param
 * features/flags/size, uuid/os/label strings present or not ...); NOTHING is
 * assumed about `discard' under -n (PRS re-assigns it after `case n': mke2fs.conf
 * `discard', then -E discard/nodiscard).  Cut writers/steps of mke2fs.c: show_stats, read_bb_file,
 * test_disk, handle_bad_blocks, packed_allocate_tables, write_inode_tables,
 * create_root_dir, create_lost_and_found, reserve_inodes, create_bad_block_inode,
 * create_journal_dev, fix_cluster_bg_counts, create_quota_inodes, zap_sector.
 * ext2fs_initialize() is a stub handing out an in-memory handle on an io channel
 * whose write_blk/write_blk64/write_byte/discard/zeroout are counted.
 *
 * What mke2fs does with -n about the open: nothing special -- main() passes the
 * same flags (EXT2_FLAG_EXCLUSIVE | ...) to ext2fs_initialize(), which opens the
 * device IO_FLAG_RW|EXCLUSIVE in every mode (initialize.c); the ONLY barrier of a
 * no-action run is main()'s control flow.  Asserted:
 *   noaction: no writer stub, no io write/discard/zeroout, no step that follows
 *   the no-action exit is reached, for every quiet/verbose/discard/... value and
 *   every symbolic result of the non-writing steps; a run that gets as far as the
 *   statistics prints them (show_stats exactly once, also with -q) and ends in
 *   exit(0); the should_do_undo() probe opens without IO_FLAG_RW.
 *   control (no -n): a discard, when done, precedes every write; a run that
 *   reaches the end of main() closed (flushed) the handle.
 */
#include "config.h"
#include <stdio.h>
#include <string.h>
#include <strings.h>
#include <ctype.h>
#include <time.h>
#include <sys/utsname.h>
#include <getopt.h>
#include <unistd.h>
#include <stdlib.h>
#include <errno.h>
#include <sys/ioctl.h>
#include <libgen.h>
#include <limits.h>
#include <locale.h>
#include <libintl.h>
#include "ext2fs/ext2_fs.h"
#include "ext2fs/ext2fs.h"
#include "uuid/uuid.h"

void vf_exit(int code);
#define exit(c) vf_exit(c)
#undef gettext
#define gettext(s) (s)
#define setlocale(a, b) ((void) 0)
#define bindtextdomain(a, b) ((void) 0)
#define textdomain(a) ((void) 0)
#define set_com_err_gettext(f) ((void) 0)
#define printf(...) ((void) 0)
#define puts(s) ((void) 0)
#define fprintf(...) ((void) 0)
#define fputs(s, f) ((void) 0)
#define fflush(f) ((void) 0)
#undef isdigit
#define isdigit(c) ((c) >= '0' && (c) <= '9')
#undef isspace
#define isspace(c) ((c) == ' ' || (c) == '\t' || (c) == '\n')
#define free(p) ((void) 0)	/* the strings PRS leaves behind are static objects here */
int vf_sprintf(char *buf);
#define sprintf(buf, ...) vf_sprintf(buf)	/* the option strings main() formats for the io channel: a fixed "o=1" */
#define getenv(n) ((char *) 0)	/* ASSUME: TEST_IO_*, E2FSPROGS_UNDO_DIR, MKE2FS_SKIP_CHECK_MSG are not in the environment */
#define main vf_real_main
static void PRS(int argc, char *argv[]);
static void show_stats(ext2_filsys fs);
static void read_bb_file(ext2_filsys fs, badblocks_list *bb_list, const char *bad_blocks_file);
static void test_disk(ext2_filsys fs, badblocks_list *bb_list);
static void handle_bad_blocks(ext2_filsys fs, badblocks_list bb_list);
static errcode_t packed_allocate_tables(ext2_filsys fs);
static void write_inode_tables(ext2_filsys fs, int lazy_flag, int itable_zeroed);
static void create_root_dir(ext2_filsys fs);
static void create_lost_and_found(ext2_filsys fs);
static void reserve_inodes(ext2_filsys fs);
static void create_bad_block_inode(ext2_filsys fs, badblocks_list bb_list);
static void create_journal_dev(ext2_filsys fs);
static void fix_cluster_bg_counts(ext2_filsys fs);
static int create_quota_inodes(ext2_filsys fs);
static void zap_sector(ext2_filsys fs, int sect, int nsect);
#include "misc/mke2fs.c"
#undef main
#undef exit
#undef printf
#undef puts
#undef fprintf
#undef fputs
#undef fflush
#undef sprintf
#undef free
#undef getenv

#ifndef STOP_AT
#define STOP_AT 0
#endif
struct vf_in {
	int noaction, quiet, verbose, discard, direct_io, cflag, super_only, force, lazy_itable_init;
	int assume_prezeroed, packed_meta, android_sparse, errors_behavior, journal_size;
	unsigned char have_undo, have_jdev, have_bbfile, have_uuid, uuid_kind, have_os, have_label, have_mdir, have_src;
	unsigned long long dev_size, offset;
	__u32 feature_compat, feature_incompat, feature_ro_compat, s_flags, blocks_count;
	unsigned char hash_seed[16];
	/* results of the non-writing steps */
	int init_rc, alloc_rc, convert_rc, count_rc, bbiter_rc, zero_rc, resize_rc, jopen_rc, jadd_rc, mmp_rc, orphan_rc,
	    huge_rc, populate_rc, close_rc, discard_rc, uuid_parse_rc, hash_alg, old_bitmaps, force_undo, periodic;
	unsigned char discard_zeroes, plausible, errors_kind;
	unsigned long long overhead;
	__u32 jblocks;
	__u16 probe_magic; unsigned char probe_open_fails, probe_read_fails;
};
VF_DECLARE_INPUT(struct vf_in, IN)
#include "vf_input.inc"
#include "env.c"

int zero_hugefile = 1;	/* defined in misc/mk_hugefiles.c */
static struct struct_ext2_filsys vf_fs, vf_jfs;
static unsigned char vf_gd[64] __attribute__((aligned(8)));
static struct ext2_super_block vf_sb;
static struct struct_io_channel vf_io, vf_probe_io;
static struct struct_io_manager vf_unix_mgr, vf_undo_mgr, vf_sparse_mgr;
io_manager unix_io_manager = &vf_unix_mgr;
io_manager undo_io_manager = &vf_undo_mgr;
io_manager sparse_io_manager = &vf_sparse_mgr;
static char vf_ext4[5] = "ext4";
static char vf_dev[2] = "d", vf_u[2] = "u", vf_j[2] = "j", vf_b[2] = "b", vf_os[6] = "Linux", vf_lbl[2] = "l",
	    vf_uuid_null[5] = "null", vf_uuid_time[5] = "time", vf_uuid_rand[7] = "random", vf_uuid_str[2] = "x";

static int vf_seq, vf_nwriters, vf_niowrite, vf_niodiscard, vf_first_write_seq, vf_first_discard_seq;
static int vf_nshow, vf_show_seq, vf_nclose, vf_closed, vf_after_exit_point, vf_ninit, vf_init_flags;
static int vf_probe_opens, vf_probe_flags_bad;

/* every stub that stands for code that MODIFIES the device goes through here */
static void vf_writer(void)
{
	vf_nwriters++;
	if (!vf_first_write_seq) vf_first_write_seq = ++vf_seq;
	PROP(!noaction, "mke2fs -n: main() reaches no writer (bad-block scan, tables, inodes, journal, resize inode, MMP, quota, orphan file, hugefiles, populate, flush/close)");
}
/* every step that only exists past the no-action exit (not a writer by itself) */
static void vf_past_exit(void)
{
	vf_after_exit_point++;
	PROP(!noaction, "mke2fs -n: main() stops at the no-action exit (no later step is reached)");
}

/* ---- io channel of the handle ---- */
static errcode_t stub_io_write(void)
{
	vf_niowrite++;
	if (!vf_first_write_seq) vf_first_write_seq = ++vf_seq;
	PROP(!noaction, "mke2fs -n: no block/byte write reaches the device channel");
	return 0;
}
static errcode_t stub_write_blk64(io_channel ch, unsigned long long blk, int count, const void *d) { (void) ch; (void) blk; (void) count; (void) d; return stub_io_write(); }
static errcode_t stub_write_blk(io_channel ch, unsigned long blk, int count, const void *d) { (void) ch; (void) blk; (void) count; (void) d; return stub_io_write(); }
static errcode_t stub_write_byte(io_channel ch, unsigned long off, int count, const void *d) { (void) ch; (void) off; (void) count; (void) d; return stub_io_write(); }
static errcode_t stub_zeroout(io_channel ch, unsigned long long blk, unsigned long long n) { (void) ch; (void) blk; (void) n; return stub_io_write(); }
static errcode_t stub_discard(io_channel ch, unsigned long long blk, unsigned long long n)
{
	(void) ch; (void) blk; (void) n;
	vf_niodiscard++;
	if (!vf_first_discard_seq) vf_first_discard_seq = ++vf_seq;
	PROP(!noaction, "mke2fs -n: the device is never discarded");
	PROP(vf_first_write_seq == 0, "control: the discard precedes every write");
	return (IN.discard_rc & 1) ? EXT2_ET_NO_MEMORY : 0;
}
static errcode_t stub_read_blk64(io_channel ch, unsigned long long blk, int count, void *d)
{
	(void) ch; (void) blk; (void) count; (void) d;	/* nothing in the encoded code reads through the handle's channel */
	return 0;
}
static errcode_t stub_read_blk(io_channel ch, unsigned long blk, int count, void *d) { return stub_read_blk64(ch, blk, count, d); }
static errcode_t stub_set_blksize(io_channel ch, int bs) { ch->block_size = bs; return 0; }
static void vf_finish(int code, int returned);
static errcode_t stub_set_option(io_channel ch, const char *o, const char *a)
{
	(void) ch; (void) o; (void) a;
#if STOP_AT == 2
	vf_finish(0, 0);
#endif
	return 0;
}
static errcode_t stub_flush(io_channel ch) { (void) ch; return 0; }
static errcode_t stub_close(io_channel ch) { (void) ch; return 0; }
/* STUB: the should_do_undo() probe: unix manager open() records its flags, the read delivers a symbolic magic */
static errcode_t stub_probe_open(const char *name, int flags, io_channel *ch)
{
	(void) name;
	vf_probe_opens++;
	if (flags & IO_FLAG_RW) vf_probe_flags_bad = 1;
	if (IN.probe_open_fails & 1) return EBUSY;
	vf_probe_io.magic = EXT2_ET_MAGIC_IO_CHANNEL;
	vf_probe_io.manager = &vf_unix_mgr;
	vf_probe_io.block_size = 1024;
	*ch = &vf_probe_io;
	return 0;
}
static errcode_t stub_probe_read_blk64(io_channel ch, unsigned long long blk, int count, void *d)
{
	struct ext2_super_block *sb = d;
	(void) ch; (void) blk;
	if ((IN.probe_read_fails & 1) || count != -SUPERBLOCK_SIZE) return EXT2_ET_SHORT_READ;
	memset(d, 0, SUPERBLOCK_SIZE);
	sb->s_magic = IN.probe_magic;
	return 0;
}
static errcode_t stub_probe_read_blk(io_channel ch, unsigned long blk, int count, void *d) { return stub_probe_read_blk64(ch, blk, count, d); }
static struct struct_io_manager vf_dev_mgr;

static void vf_finish(int code, int returned);
/* ---- the cut parser ---- */
/* STUB: PRS() leaves behind symbolic values of every global main() reads; no relation between noaction and discard is assumed (PRS re-assigns discard from mke2fs.conf and -E discard after `case n') */
static void PRS(int argc, char *argv[])
{
	static char *types_store[2];
	(void) argc; (void) argv;
	ASSUME(IN.noaction >= 0 && IN.noaction <= 2);	/* noaction++ per -n */
	noaction = IN.noaction;
	quiet = IN.quiet; verbose = IN.verbose; discard = IN.discard; direct_io = IN.direct_io;
	cflag = IN.cflag; super_only = IN.super_only; force = IN.force; lazy_itable_init = IN.lazy_itable_init;
	assume_storage_prezeroed = IN.assume_prezeroed; packed_meta_blocks = IN.packed_meta;
	/* BOUND: not an Android sparse image (-E android_sparse) */
	android_sparse_file = 0;
	errors_behavior = IN.errors_behavior;
	journal_size = IN.journal_size;
	dev_size = IN.dev_size; offset = IN.offset;
	device_name = vf_dev;
	undo_file = (IN.have_undo & 1) ? (char *) vf_u : (char *) 0;
	journal_device = (IN.have_jdev & 1) ? (char *) vf_j : (char *) 0;
	bad_blocks_filename = (IN.have_bbfile & 1) ? (char *) vf_b : (char *) 0;
	/* BOUND: the string options -U/-o/-L/-M are absent or all present, per query (STRS); they only feed in-memory superblock fields */
#ifdef STRS
	fs_uuid = STRS == 1 ? vf_uuid_null : STRS == 2 ? vf_uuid_time : STRS == 3 ? vf_uuid_rand : vf_uuid_str;
	creator_os = vf_os;
	volume_label = vf_lbl;
	mount_dir = vf_lbl;
#else
	fs_uuid = 0; creator_os = 0; volume_label = 0; mount_dir = 0;
#endif
	src_root = (IN.have_src & 1) ? (const char *) vf_lbl : (const char *) 0;
	types_store[0] = vf_ext4; types_store[1] = 0;
	fs_types = types_store;
	/* BOUND: 4 KiB blocks, at most 1.5M blocks (3 discard steps of 2 GiB) */
	fs_param.s_log_block_size = 2;
	ASSUME(IN.blocks_count >= 64 && IN.blocks_count <= 1500000);
	fs_param.s_blocks_count = IN.blocks_count;
	fs_param.s_feature_compat = IN.feature_compat;
	fs_param.s_feature_incompat = IN.feature_incompat;
	fs_param.s_feature_ro_compat = IN.feature_ro_compat;
	fs_param.s_flags = IN.s_flags;
	/* BOUND: no -E hash_seed (fs_param.s_hash_seed stays zero; the seed only feeds an in-memory superblock field) */
#if STOP_AT == 9
	vf_finish(0, 0);
#endif
}

/* ---- the handle ---- */
/* STUB: ext2fs_initialize() builds the in-memory handle (the real one only opens the device, IO_FLAG_RW|EXCLUSIVE in every mode, and reads nothing); records flags/manager */
errcode_t ext2fs_initialize(const char *name, int flags, struct ext2_super_block *param, io_manager manager, ext2_filsys *ret_fs)
{
	(void) name;
	vf_ninit++;
	vf_init_flags = flags;
#if STOP_AT == 8
	vf_finish(0, 0);
#endif
	(void) manager;
	if (IN.init_rc & 1)
		return (IN.init_rc & 1) ? EXT2_ET_NO_MEMORY : 0;
	vf_dev_mgr.magic = EXT2_ET_MAGIC_IO_MANAGER;
	vf_dev_mgr.write_blk = stub_write_blk; vf_dev_mgr.write_blk64 = stub_write_blk64; vf_dev_mgr.write_byte = stub_write_byte;
	vf_dev_mgr.discard = stub_discard; vf_dev_mgr.zeroout = stub_zeroout;
	vf_dev_mgr.read_blk = stub_read_blk; vf_dev_mgr.read_blk64 = stub_read_blk64;
	vf_dev_mgr.set_blksize = stub_set_blksize; vf_dev_mgr.set_option = stub_set_option;
	vf_dev_mgr.flush = stub_flush; vf_dev_mgr.close = stub_close;
	vf_io.magic = EXT2_ET_MAGIC_IO_CHANNEL;
	vf_io.manager = &vf_dev_mgr;
	vf_io.block_size = 4096;
	vf_io.flags = (IN.discard_zeroes & 1) ? CHANNEL_FLAGS_DISCARD_ZEROES : 0;
	/* only the fields main() reads are carried over (a 1 KiB struct copy costs minutes in the solver) */
	vf_sb.s_blocks_count = param->s_blocks_count;
	vf_sb.s_log_block_size = param->s_log_block_size;
	vf_sb.s_feature_compat = param->s_feature_compat;
	vf_sb.s_feature_incompat = param->s_feature_incompat;
	vf_sb.s_feature_ro_compat = param->s_feature_ro_compat;
	vf_sb.s_flags = param->s_flags & ~EXT2_FLAGS_TEST_FILESYS;
	vf_sb.s_errors = param->s_errors;
	vf_sb.s_creator_os = param->s_creator_os;
	vf_sb.s_magic = EXT2_SUPER_MAGIC;
	vf_sb.s_first_data_block = 0;
	vf_sb.s_blocks_per_group = 32768;
	vf_fs.magic = EXT2_ET_MAGIC_EXT2FS_FILSYS;
	vf_fs.flags = flags | EXT2_FLAG_RW;
	vf_fs.super = &vf_sb;
	vf_fs.io = &vf_io;
	vf_fs.blocksize = 4096;
	vf_fs.group_desc_count = 1;
	vf_fs.group_desc = (struct opaque_ext2_group_desc *) vf_gd;
	*ret_fs = &vf_fs;
#if STOP_AT == 1
	vf_finish(0, 0);
#endif
	return 0;
}

/* ---- end of run ---- */
static void vf_finish(int code, int returned)
{
	if (noaction) {
		PROP(vf_nwriters == 0 && vf_niowrite == 0 && vf_niodiscard == 0 && vf_after_exit_point == 0,
		     "mke2fs -n: the whole run wrote, discarded and flushed nothing");
		PROP(!returned, "mke2fs -n: main() ends in exit(), it never runs to its end");
		if (code == 0 && vf_ninit && !STOP_AT)
			PROP(vf_nshow == 1, "mke2fs -n: a successful no-action run prints the statistics exactly once (also with -q) and exits 0");
	} else if (returned)
		PROP(vf_nclose >= 1, "control: a run that reaches the end of main() closed (flushed) the handle");
	PROP(!vf_probe_flags_bad, "the existing-filesystem probe (should_do_undo) opens the device without IO_FLAG_RW");
	VF_END();
#ifdef VF_REPLAY
	fflush(0);
	_exit(0);
#else
	__CPROVER_assume(0);
#endif
}
void vf_exit(int code) { vf_finish(code, 0); }
int vf_sprintf(char *buf) { buf[0] = 'o'; buf[1] = '='; buf[2] = '1'; buf[3] = 0; return 3; }

/* ---- cut steps of mke2fs.c ---- */
static void vf_finish(int code, int returned);
static void show_stats(ext2_filsys fs)
{
	(void) fs;
	vf_nshow++; vf_show_seq = ++vf_seq;
	PROP(vf_nwriters == 0 || !noaction, "statistics of a no-action run are printed before anything could have been written");
#ifdef STOP_AT_STATS
	vf_finish(0, 0);
#endif
}
static void read_bb_file(ext2_filsys fs, badblocks_list *bb_list, const char *f) { (void) fs; (void) bb_list; (void) f; vf_past_exit(); }
static void test_disk(ext2_filsys fs, badblocks_list *bb_list) { (void) fs; (void) bb_list; vf_writer(); }	/* runs badblocks(8), -c -c writes */
static void handle_bad_blocks(ext2_filsys fs, badblocks_list bb_list) { (void) fs; (void) bb_list; vf_past_exit(); }
static errcode_t packed_allocate_tables(ext2_filsys fs) { (void) fs; vf_past_exit(); return (IN.alloc_rc & 1) ? EXT2_ET_NO_MEMORY : 0; }
static void write_inode_tables(ext2_filsys fs, int lazy_flag, int itable_zeroed) { (void) fs; (void) lazy_flag; (void) itable_zeroed; vf_writer(); }
static void create_root_dir(ext2_filsys fs) { (void) fs; vf_writer(); }
static void create_lost_and_found(ext2_filsys fs) { (void) fs; vf_writer(); }
static void reserve_inodes(ext2_filsys fs) { (void) fs; vf_past_exit(); }
static void create_bad_block_inode(ext2_filsys fs, badblocks_list bb_list) { (void) fs; (void) bb_list; vf_writer(); }
static void create_journal_dev(ext2_filsys fs) { (void) fs; vf_writer(); }
static void zap_sector(ext2_filsys fs, int sect, int nsect) { (void) fs; (void) sect; (void) nsect; vf_writer(); }	/* real one: calloc + memset + io write of 1-3 KiB: minutes in the solver */
static void fix_cluster_bg_counts(ext2_filsys fs) { (void) fs; vf_past_exit(); }
static int create_quota_inodes(ext2_filsys fs) { (void) fs; vf_writer(); return 0; }

/* ---- library writers ---- */
errcode_t ext2fs_zero_blocks2(ext2_filsys fs, blk64_t blk, int num, blk64_t *ret_blk, int *ret_count)
{ (void) fs; (void) num; (void) ret_count; if (ret_blk) *ret_blk = blk; vf_writer(); return (IN.zero_rc & 1) ? EXT2_ET_NO_MEMORY : 0; }
errcode_t ext2fs_create_resize_inode(ext2_filsys fs) { (void) fs; vf_writer(); return (IN.resize_rc & 1) ? EXT2_ET_NO_MEMORY : 0; }
errcode_t ext2fs_add_journal_device(ext2_filsys fs, ext2_filsys jfs) { (void) fs; (void) jfs; vf_writer(); return (IN.jadd_rc & 1) ? EXT2_ET_NO_MEMORY : 0; }
errcode_t ext2fs_add_journal_inode3(ext2_filsys fs, struct ext2fs_journal_params *p, blk64_t goal, int flags)
{ (void) fs; (void) p; (void) goal; (void) flags; vf_writer(); return (IN.jadd_rc & 1) ? EXT2_ET_NO_MEMORY : 0; }
errcode_t ext2fs_mmp_init(ext2_filsys fs) { (void) fs; vf_writer(); return (IN.mmp_rc & 1) ? EXT2_ET_NO_MEMORY : 0; }
errcode_t ext2fs_create_orphan_file(ext2_filsys fs, blk_t n) { (void) fs; (void) n; vf_writer(); return (IN.orphan_rc & 1) ? EXT2_ET_NO_MEMORY : 0; }
errcode_t mk_hugefiles(ext2_filsys fs, const char *dev) { (void) fs; (void) dev; vf_writer(); return (IN.huge_rc & 1) ? EXT2_ET_NO_MEMORY : 0; }
errcode_t populate_fs(ext2_filsys fs, ext2_ino_t parent, const char *src, ext2_ino_t root)
{ (void) fs; (void) parent; (void) src; (void) root; vf_writer(); return (IN.populate_rc & 1) ? EXT2_ET_NO_MEMORY : 0; }
/* STUB: ext2fs_open() of the external journal device (EXT2_FLAG_RW: it is going to be written) counts as a writer */
errcode_t ext2fs_open(const char *name, int flags, int sb, unsigned int bs, io_manager m, ext2_filsys *ret)
{
	(void) name; (void) flags; (void) sb; (void) bs; (void) m;
	vf_writer();
	if (IN.jopen_rc) return (IN.jopen_rc & 1) ? EXT2_ET_NO_MEMORY : 0;
	*ret = &vf_jfs;
	return 0;
}
/* STUB: ext2fs_close_free(): closing the journal device handle is just dropped; closing the filesystem handle is THE flush: a writer, and the last one */
errcode_t ext2fs_close_free(ext2_filsys *fs)
{
	if (*fs == &vf_fs) {
		vf_writer();
		vf_nclose++;
		vf_closed = 1;
	}
	*fs = 0;
	return (IN.close_rc & 1) ? EXT2_ET_NO_MEMORY : 0;
}

/* ---- non-writing steps: symbolic results ---- */
errcode_t ext2fs_allocate_tables(ext2_filsys fs) { (void) fs; vf_past_exit(); return (IN.alloc_rc & 1) ? EXT2_ET_NO_MEMORY : 0; }
errcode_t ext2fs_convert_subcluster_bitmap(ext2_filsys fs, ext2fs_block_bitmap *b) { (void) fs; (void) b; vf_past_exit(); return (IN.convert_rc & 1) ? EXT2_ET_NO_MEMORY : 0; }
errcode_t ext2fs_count_used_clusters(ext2_filsys fs, blk64_t first, blk64_t last, blk64_t *out)
{ (void) fs; (void) first; (void) last; *out = IN.overhead; vf_past_exit(); return (IN.count_rc & 1) ? EXT2_ET_NO_MEMORY : 0; }
errcode_t ext2fs_badblocks_list_iterate_begin(ext2_badblocks_list bb, ext2_badblocks_iterate *ret) { (void) bb; (void) ret; return EXT2_ET_NO_MEMORY; }
int ext2fs_badblocks_list_iterate(ext2_badblocks_iterate iter, blk_t *blk) { (void) iter; (void) blk; return 0; }
void ext2fs_badblocks_list_iterate_end(ext2_badblocks_iterate iter) { (void) iter; }
e2_blkcnt_t ext2fs_default_orphan_file_blocks(ext2_filsys fs) { (void) fs; return 32; }
void figure_journal_size(struct ext2fs_journal_params *jparams, int requested_j_size, int requested_fc_size, ext2_filsys fs)
{ (void) requested_j_size; (void) requested_fc_size; (void) fs; jparams->num_journal_blocks = IN.jblocks; jparams->num_fc_blocks = 0; }
void print_check_message(int mnt, unsigned int check) { (void) mnt; (void) check; }
void proceed_question(int delay) { (void) delay; }
void check_mount(const char *device, int force_, const char *type) { (void) device; (void) force_; (void) type; }
int check_plausibility(const char *device, int flags, int *ret_is_dev) { (void) device; (void) flags; (void) ret_is_dev; return IN.plausible & 1; }
errcode_t set_undo_io_backing_manager(io_manager manager) { (void) manager; return 0; }
errcode_t set_undo_io_backup_file(char *file_name) { (void) file_name; return 0; }
errcode_t profile_get_boolean(profile_t p, const char *n, const char *s, const char *ss, int def, int *ret)
{
	(void) p; (void) n; (void) ss; (void) def;
	/* ASSUME: mke2fs.conf leaves enable_periodic_fsck off (it only feeds s_max_mnt_count / s_checkinterval in memory); old_bitmaps symbolic */
	*ret = (s && s[0] == 'o') ? (IN.old_bitmaps & 1) : 0;
#if STOP_AT == 7
	vf_finish(0, 0);
#endif
#if STOP_AT == 5
	{ static int calls; if (++calls >= 2) vf_finish(0, 0); }
#endif
	return 0;
}
errcode_t profile_get_string(profile_t p, const char *n, const char *s, const char *ss, const char *def, char **ret)
{
	static char none[5] = "none", md4[9] = "half_md4";
	(void) p; (void) n; (void) ss;
	/* ASSUME: mke2fs.conf sets [defaults] undo_dir = none (no implicit undo file) and no other string option: absent options yield the default (hash_alg: half_md4) */
	*ret = 0;
	if (s && s[0] == 'u' && s[1] == 'n')	/* undo_dir */
		*ret = none;
	else if (def)
		*ret = md4;
	return 0;
}
errcode_t profile_get_integer(profile_t p, const char *n, const char *s, const char *ss, int def, int *ret)
{ (void) p; (void) n; (void) s; (void) ss; (void) def; *ret = IN.force_undo & 1; return 0; }
errcode_t profile_get_uint(profile_t p, const char *n, const char *s, const char *ss, unsigned int def, unsigned int *ret)
{ (void) p; (void) n; (void) s; (void) ss; *ret = def; return 0; }
errcode_t profile_get_double(profile_t p, const char *n, const char *s, const char *ss, double def, double *ret)
{ (void) p; (void) n; (void) s; (void) ss; *ret = def; return 0; }
void profile_release(profile_t p) { (void) p; }
errcode_t remove_error_table(const struct error_table *et) { (void) et; return 0; }
const struct error_table et_ext2_error_table, et_prof_error_table;
const char *error_message(long code) { (void) code; return ""; }
/* element-wise on purpose: a memset through the unsigned char view of s_hash_seed turns the whole superblock into a byte array for the solver */
static void vf_fill16(unsigned char *p, unsigned char v) { int i; for (i = 0; i < 16; i++) p[i] = v; }
void uuid_clear(uuid_t uu) { vf_fill16(uu, 0); }
void uuid_generate(uuid_t out) { vf_fill16(out, 0x5a); }
void uuid_generate_time(uuid_t out) { vf_fill16(out, 0x3c); }
int uuid_parse(const char *in, uuid_t uu) { (void) in; vf_fill16(uu, 1); return (IN.uuid_parse_rc & 1) ? -1 : 0; }
__u32 ext2fs_crc32c_le(__u32 crc, unsigned char const *p, size_t len) { (void) p; (void) len; return crc; }
void ext2fs_init_csum_seed(ext2_filsys fs)
{
	(void) fs;
#if STOP_AT == 3
	vf_finish(0, 0);
#endif
}
int e2p_string2hash(char *s)
{
	(void) s;
#if STOP_AT == 4
	vf_finish(0, 0);
#endif
	return IN.hash_alg;
}
int e2p_string2os(char *s) { (void) s; return 0; }
void ext2fs_numeric_progress_init(ext2_filsys fs, struct ext2fs_numeric_progress_struct *p, const char *label, __u64 max) { (void) fs; (void) p; (void) label; (void) max; }
void ext2fs_numeric_progress_update(ext2_filsys fs, struct ext2fs_numeric_progress_struct *p, __u64 val) { (void) fs; (void) p; (void) val; }
void ext2fs_numeric_progress_close(ext2_filsys fs, struct ext2fs_numeric_progress_struct *p, const char *message) { (void) fs; (void) p; (void) message; }
struct ext2fs_progress_ops ext2fs_numeric_progress_ops;

int main(void)
{
	static char *argv[3] = { vf_dev, vf_dev, 0 };
	int rc;
	VF_INPUT(IN);
	vf_unix_mgr.magic = EXT2_ET_MAGIC_IO_MANAGER;
	vf_unix_mgr.open = stub_probe_open;
	vf_unix_mgr.read_blk = stub_probe_read_blk;
	vf_unix_mgr.read_blk64 = stub_probe_read_blk64;
	vf_unix_mgr.set_blksize = stub_set_blksize;
	vf_unix_mgr.close = stub_close;
	rc = vf_real_main(2, argv);
	vf_finish(rc, 1);
	return 0;
}
