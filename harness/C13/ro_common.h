/*
 * C13/ro_common.h -- a filesystem handle opened WITHOUT EXT2_FLAG_RW over an io
 * manager that counts every modifying entry point (pattern P).
 *
 * The handle: one group, 1 KiB blocks, 16 inodes; every other bit of fs->flags is
 * symbolic (IN.flags with EXT2_FLAG_RW masked off), the group descriptor and the
 * superblock fields that steer the encoded functions are symbolic.
 *
 * STUB: io manager "vf_ro": write_blk/write_blk64/write_byte/discard/zeroout COUNT the call (vf_nwrites) and report success; read_blk/read_blk64 fill the buffer with the symbolic byte IN.fill; flush/set_blksize succeed
 * ASSUME: allocation never fails (--no-malloc-may-fail)
 */
#ifndef RO_COMMON_H
#define RO_COMMON_H

#define VF_BS 1024

static struct struct_ext2_filsys vf_fs;
static struct ext2_super_block vf_sb;
static struct struct_io_channel vf_io;
static struct struct_io_manager vf_mgr;
static unsigned char vf_gd[VF_BS] __attribute__((aligned(8)));
static char vf_devname[2] = "d";

static int vf_nwrites, vf_nreads, vf_nflush;
static unsigned char vf_fill;

static errcode_t stub_read_blk64(io_channel ch, unsigned long long blk, int count, void *data)
{
	int n = count < 0 ? -count : count * VF_BS;
	(void) ch; (void) blk;
	vf_nreads++;
	memset(data, vf_fill, n);
	return 0;
}
static errcode_t stub_read_blk(io_channel ch, unsigned long blk, int count, void *data)
{
	return stub_read_blk64(ch, blk, count, data);
}
static errcode_t stub_write_blk64(io_channel ch, unsigned long long blk, int count, const void *data)
{
	(void) ch; (void) blk; (void) count; (void) data;
	vf_nwrites++;
	return 0;
}
static errcode_t stub_write_blk(io_channel ch, unsigned long blk, int count, const void *data)
{
	(void) ch; (void) blk; (void) count; (void) data;
	vf_nwrites++;
	return 0;
}
static errcode_t stub_write_byte(io_channel ch, unsigned long off, int count, const void *data)
{
	(void) ch; (void) off; (void) count; (void) data;
	vf_nwrites++;
	return 0;
}
static errcode_t stub_discard(io_channel ch, unsigned long long blk, unsigned long long count)
{
	(void) ch; (void) blk; (void) count;
	vf_nwrites++;
	return 0;
}
static errcode_t stub_zeroout(io_channel ch, unsigned long long blk, unsigned long long count)
{
	(void) ch; (void) blk; (void) count;
	vf_nwrites++;
	return 0;
}
static errcode_t stub_flush(io_channel ch) { (void) ch; vf_nflush++; return 0; }
static errcode_t stub_set_blksize(io_channel ch, int bs) { (void) ch; (void) bs; return 0; }

static void vf_setup_io(void)
{
	vf_mgr.magic = EXT2_ET_MAGIC_IO_MANAGER;
	vf_mgr.name = "vf_ro";
	vf_mgr.set_blksize = stub_set_blksize;
	vf_mgr.read_blk = stub_read_blk;
	vf_mgr.read_blk64 = stub_read_blk64;
	vf_mgr.write_blk = stub_write_blk;
	vf_mgr.write_blk64 = stub_write_blk64;
	vf_mgr.write_byte = stub_write_byte;
	vf_mgr.discard = stub_discard;
	vf_mgr.zeroout = stub_zeroout;
	vf_mgr.flush = stub_flush;
	vf_io.magic = EXT2_ET_MAGIC_IO_CHANNEL;
	vf_io.manager = &vf_mgr;
	vf_io.block_size = VF_BS;
	vf_io.refcount = 1;
	vf_io.name = vf_devname;
}

/* ro_flags: the caller's symbolic flag word; EXT2_FLAG_RW is the ONLY bit forced (to 0) */
static void vf_setup_fs(unsigned int ro_flags, unsigned int inode_size)
{
	vf_setup_io();
	vf_sb.s_magic = EXT2_SUPER_MAGIC;
	vf_sb.s_rev_level = EXT2_DYNAMIC_REV;
	vf_sb.s_log_block_size = 0;
	vf_sb.s_log_cluster_size = 0;
	vf_sb.s_first_data_block = 1;
	vf_sb.s_blocks_per_group = 64;
	vf_sb.s_clusters_per_group = 64;
	vf_sb.s_blocks_count = 65;	/* first_data_block 1 + one full group */
	vf_sb.s_inodes_per_group = 16;
	vf_sb.s_inodes_count = 16;
	vf_sb.s_inode_size = inode_size;
	vf_sb.s_first_ino = 11;
	vf_fs.magic = EXT2_ET_MAGIC_EXT2FS_FILSYS;
	vf_fs.super = &vf_sb;
	vf_fs.io = &vf_io;
	vf_fs.image_io = &vf_io;
	vf_fs.device_name = vf_devname;
	vf_fs.blocksize = VF_BS;
	vf_fs.fragsize = VF_BS;
	vf_fs.group_desc_count = 1;
	vf_fs.desc_blocks = 1;
	vf_fs.group_desc = (struct opaque_ext2_group_desc *) vf_gd;
	vf_fs.inode_blocks_per_group = (16 * inode_size + VF_BS - 1) / VF_BS;
	vf_fs.now = 1000;
	vf_fs.flags = ro_flags & ~EXT2_FLAG_RW;
}
#endif
