/*
 * C13/main_dumpe2fs: the real main() of misc/dumpe2fs.c (dumpe2fs and its
 * e2mmpstatus personality), driven by a concrete argv per query (pattern P).
 *
 * Real code: main() incl. its getopt loop and the try_open_again /
 * try_bitmaps_again retries, parse_extended_opts(), usage(), list_bad_blocks(),
 * print_inline_journal_information(), print_journal_information(), check_mmp(),
 * print_mmp_block(), print_number().  Cut (cut_statics): list_desc() (prints the
 * group descriptors from the in-core handle; not encoded).
 * Every libext2fs / e2p / blkid entry point main() reaches is a RECORDING stub:
 * ext2fs_open() logs its flags / superblock / block size per call and fails or
 * succeeds per a symbolic mask (so every retry path is taken); on success it
 * hands out a handle whose superblock feature words, journal inode number and
 * MMP block are symbolic, over an io channel whose write entries are counted.
 *
 * Asserted (dumpe2fs is documented as printing only):
 *   every ext2fs_open() call -- first attempt, each block-size probe of
 *   `-o superblock=N', and the retry with EXT2_FLAG_IGNORE_CSUM_ERRORS -- has
 *   neither EXT2_FLAG_RW nor EXT2_FLAG_EXCLUSIVE, and its flag word is exactly
 *   the documented one for the options given (-f FORCE, -i IMAGE_FILE, -h/-m
 *   SUPER_ONLY; IGNORE_CSUM_ERRORS on the retry only); superblock/blocksize are
 *   the -o values; no writer stub (flush, write_inode, write_bitmaps, MMP
 *   update/stop, io write/write_byte/discard/zeroout) is reached; the journal
 *   inode is opened without EXT2_FILE_WRITE; the handle is closed at most once
 *   and is then neither RW nor dirty (super/bitmaps).
 */
#include "config.h"
#include <getopt.h>
#include <fcntl.h>
#include <stdio.h>
#include <stdlib.h>
#include <string.h>
#include <unistd.h>
#include <time.h>
#include <errno.h>
#include <locale.h>
#include <libintl.h>
#include <arpa/inet.h>
#include "ext2fs/ext2_fs.h"
#include "ext2fs/ext2fs.h"
#include "e2p/e2p.h"
#include "ext2fs/kernel-jbd.h"
#include "support/devname.h"
#include "support/nls-enable.h"
#include "support/plausible.h"

void vf_exit(int code);
int vf_getopt(int argc, char *const argv[], const char *optstring);
unsigned long vf_strtoul(const char *s, char **end, int base);
char *vf_strstr(const char *h, const char *n);
static char *vf_optarg;
static int vf_optind = 1;
#define exit(c) vf_exit(c)
#define getopt(a, b, c) vf_getopt(a, b, c)
#define optarg vf_optarg
#define optind vf_optind
#define strtoul(s, e, b) vf_strtoul(s, e, b)
#define strstr(h, n) vf_strstr(h, n)
#undef gettext
#define gettext(s) (s)
#define setlocale(a, b) ((void) 0)
#define bindtextdomain(a, b) ((void) 0)
#define textdomain(a) ((void) 0)
#define set_com_err_gettext(f) ((void) 0)
#define printf(...) ((void) 0)
#define fprintf(...) ((void) 0)
#define fputc(c, f) ((void) 0)
#define fputs(s, f) ((void) 0)
#define ctime(t) ("")
#define main vf_real_main
static void list_desc(ext2_filsys fs, int grp_only);	/* cut: defined below */
#include "misc/dumpe2fs.c"
#undef main
#undef exit
#undef printf
#undef fprintf
#undef fputc
#undef fputs
#undef strtoul
#undef strstr

#ifndef ARGS
#define ARGS 1
#endif

struct vf_in {
	__u16 open_fail;		/* bit n: the n-th ext2fs_open() call fails */
	unsigned char errkind;
	__u32 feature_compat, feature_incompat, feature_ro_compat, journal_inum;
	unsigned long long mmp_block;
	unsigned char bb_rc, bbiter_rc, rdinode_rc, fopen_rc, fread_rc, mmp_start_rc, mmp_read_rc, bitmaps_rc1, bitmaps_rc2, ioread_rc;
	unsigned char jsb[16];
};
VF_DECLARE_INPUT(struct vf_in, IN)
#include "vf_input.inc"
#include "env.c"

/* ---- argv sets and what the manual page says each one means (reference model, written from dumpe2fs.8) ---- */
static char a_prog[2] = "d", a_mmps[12] = "e2mmpstatus", a_path[15] = "/s/e2mmpstatus", a_dev[2] = "x";
static char o_h[3] = "-h", o_b[3] = "-b", o_x[3] = "-x", o_i[3] = "-i", o_f[3] = "-f", o_g[3] = "-g", o_m[3] = "-m",
	    o_o[3] = "-o", o_V[3] = "-V", o_fhx[5] = "-fhx", o_q[3] = "-q";
static char v_sb[16] = "superblock=8193", v_bs[15] = "blocksize=4096", v_both[19] = "sb=32768,bs=2048", v_bogus[6] = "bogus",
	    v_sbbad[14] = "superblock=9z", v_osb[18] = "-osuperblock=8193";
#define X_FORCE 0
#define X_IMAGE 0
#define X_SUPER 0
#define X_SB 0
#define X_BS 0
#define X_NOOPEN 0
#if ARGS == 1
static char *vf_argv[] = { a_prog, a_dev, 0 };
#elif ARGS == 2
static char *vf_argv[] = { a_prog, o_h, a_dev, 0 };
#undef X_SUPER
#define X_SUPER 1
#elif ARGS == 3
static char *vf_argv[] = { a_prog, o_b, a_dev, 0 };
#elif ARGS == 4
static char *vf_argv[] = { a_prog, o_x, a_dev, 0 };
#elif ARGS == 5
static char *vf_argv[] = { a_prog, o_i, a_dev, 0 };
#undef X_IMAGE
#define X_IMAGE 1
#elif ARGS == 6
static char *vf_argv[] = { a_prog, o_o, v_sb, a_dev, 0 };
#undef X_SB
#define X_SB 8193
#elif ARGS == 7
static char *vf_argv[] = { a_prog, o_o, v_sb, o_o, v_bs, a_dev, 0 };
#undef X_SB
#define X_SB 8193
#undef X_BS
#define X_BS 4096
#elif ARGS == 8
static char *vf_argv[] = { a_prog, o_f, a_dev, 0 };
#undef X_FORCE
#define X_FORCE 1
#elif ARGS == 9
static char *vf_argv[] = { a_prog, o_g, a_dev, 0 };
#elif ARGS == 10
static char *vf_argv[] = { a_prog, o_m, a_dev, 0 };
#undef X_SUPER
#define X_SUPER 1
#elif ARGS == 11		/* -m -i: print the MMP block (not an image file) */
static char *vf_argv[] = { a_prog, o_m, o_i, a_dev, 0 };
#undef X_SUPER
#define X_SUPER 1
#elif ARGS == 12		/* -i -m: same meaning, other order */
static char *vf_argv[] = { a_prog, o_i, o_m, a_dev, 0 };
#undef X_SUPER
#define X_SUPER 1
#elif ARGS == 13
static char *vf_argv[] = { a_prog, o_fhx, a_dev, 0 };
#undef X_FORCE
#define X_FORCE 1
#undef X_SUPER
#define X_SUPER 1
#elif ARGS == 14
static char *vf_argv[] = { a_prog, o_o, v_bs, a_dev, 0 };
#undef X_BS
#define X_BS 4096
#elif ARGS == 15
static char *vf_argv[] = { a_prog, o_o, v_both, o_x, a_dev, 0 };
#undef X_SB
#define X_SB 32768
#undef X_BS
#define X_BS 2048
#elif ARGS == 16		/* invoked as e2mmpstatus */
static char *vf_argv[] = { a_mmps, a_dev, 0 };
#undef X_SUPER
#define X_SUPER 1
#elif ARGS == 17		/* e2mmpstatus -i (by path) */
static char *vf_argv[] = { a_path, o_i, a_dev, 0 };
#undef X_SUPER
#define X_SUPER 1
#elif ARGS == 18
static char *vf_argv[] = { a_prog, v_osb, o_b, a_dev, 0 };
#undef X_SB
#define X_SB 8193
#elif ARGS == 20		/* refused command lines: nothing may be opened */
static char *vf_argv[] = { a_prog, o_o, v_bogus, a_dev, 0 };
#undef X_NOOPEN
#define X_NOOPEN 1
#elif ARGS == 21
static char *vf_argv[] = { a_prog, o_V, a_dev, 0 };
#undef X_NOOPEN
#define X_NOOPEN 1
#elif ARGS == 22
static char *vf_argv[] = { a_prog, o_h, 0 };
#undef X_NOOPEN
#define X_NOOPEN 1
#elif ARGS == 23
static char *vf_argv[] = { a_prog, o_q, a_dev, 0 };
#undef X_NOOPEN
#define X_NOOPEN 1
#elif ARGS == 24
static char *vf_argv[] = { a_prog, o_o, v_sbbad, a_dev, 0 };
#undef X_NOOPEN
#define X_NOOPEN 1
#elif ARGS == 25
static char *vf_argv[] = { a_prog, a_dev, a_dev, 0 };
#undef X_NOOPEN
#define X_NOOPEN 1
#else
#error ARGS
#endif
#define VF_ARGC ((int) (sizeof(vf_argv) / sizeof(vf_argv[0])) - 1)
/* dumpe2fs.8: always may read a journal device / soft-supported features / 64-bit handles; -f force, -i image file, -h (and -m) superblock only */
#define X_FLAGS (EXT2_FLAG_JOURNAL_DEV_OK | EXT2_FLAG_SOFTSUPP_FEATURES | EXT2_FLAG_64BITS | EXT2_FLAG_THREADS | \
		 (X_FORCE ? EXT2_FLAG_FORCE : 0) | (X_IMAGE ? EXT2_FLAG_IMAGE_FILE : 0) | (X_SUPER ? EXT2_FLAG_SUPER_ONLY : 0))
/* a superblock given without a block size is probed over the 7 legal block sizes (1 KiB .. 64 KiB) */
#define X_ROUND1 ((X_SB && !X_BS) ? 7 : 1)

#include "vf_getopt.h"

/* STUB: strtoul(): decimal digits only (the argv sets use decimal numbers), end pointer at the first non-digit */
unsigned long vf_strtoul(const char *s, char **end, int base)
{
	unsigned long v = 0;
	int i;
	(void) base;
	for (i = 0; i < 8 && s[i] >= '0' && s[i] <= '9'; i++)
		v = v * 10 + (unsigned long) (s[i] - '0');
	if (end)
		*end = (char *) &s[i];
	return v;
}
/* STUB: strstr(): plain quadratic search */
char *vf_strstr(const char *h, const char *n)
{
	int i, j;
	for (i = 0; i < 16 && h[i]; i++) {
		for (j = 0; j < 16 && n[j] && h[i + j] == n[j]; j++)
			;
		if (!n[j])
			return (char *) &h[i];
		if (!h[i + j])
			return 0;
	}
	return 0;
}

static int vf_nopen, vf_open_rw, vf_open_badflags, vf_open_badgeom, vf_open_badcsumbit, vf_opened;
static int vf_nwriters, vf_niowrite, vf_nclose, vf_close_flags, vf_file_write, vf_ended, vf_ndesc, vf_rw_seen_later;
static struct struct_ext2_filsys vf_fs;
static struct ext2_super_block vf_sb;
static struct struct_io_channel vf_io;
static struct struct_io_manager vf_mgr;
io_manager unix_io_manager = &vf_mgr;
const struct error_table et_ext2_error_table;

static void vf_finish(void)
{
	vf_ended = 1;
	PROP(vf_open_rw == 0, "dumpe2fs: no ext2fs_open call (first attempt, probes, retries) carries EXT2_FLAG_RW or EXT2_FLAG_EXCLUSIVE");
	PROP(vf_open_badflags == 0, "dumpe2fs: the open flag word is the documented one for the options given");
	PROP(vf_open_badcsumbit == 0, "dumpe2fs: IGNORE_CSUM_ERRORS is passed on the retry only");
	PROP(vf_open_badgeom == 0, "dumpe2fs: superblock and block size passed to the open are the -o values (probe: 1 KiB << k)");
	PROP(vf_nopen <= 2 * X_ROUND1 && vf_opened <= 1, "dumpe2fs: at most one retry round, one successful open");
#if X_NOOPEN
	PROP(vf_nopen == 0, "dumpe2fs: a refused command line (-V, bad -o, no/extra device, unknown option) opens nothing");
#endif
	PROP(vf_nwriters == 0 && vf_niowrite == 0, "dumpe2fs: no flush / write_inode / write_bitmaps / MMP update / io write is reached");
	PROP(vf_file_write == 0, "dumpe2fs: the journal inode is opened without EXT2_FILE_WRITE");
	PROP(vf_rw_seen_later == 0, "dumpe2fs: the handle never acquires EXT2_FLAG_RW before a library call");
	PROP(vf_nclose <= vf_opened, "dumpe2fs: the handle is closed at most once, and only if opened");
	if (vf_nclose)
		PROP(!(vf_close_flags & (EXT2_FLAG_RW | EXT2_FLAG_DIRTY | EXT2_FLAG_BB_DIRTY | EXT2_FLAG_IB_DIRTY)),
		     "dumpe2fs: at ext2fs_close_free the handle is neither RW nor dirty (superblock, bitmaps)");
	VF_END();
#ifdef VF_REPLAY
	fflush(0);
	_exit(0);
#else
	__CPROVER_assume(0);
#endif
}
void vf_exit(int code) { (void) code; vf_finish(); }

static void vf_seen(ext2_filsys fs)
{
	if (fs->flags & (EXT2_FLAG_RW | EXT2_FLAG_DIRTY | EXT2_FLAG_BB_DIRTY | EXT2_FLAG_IB_DIRTY))
		vf_rw_seen_later++;
}

/* ---- io channel: reads return symbolic status, every modifying entry is counted ---- */
static errcode_t stub_read_blk64(io_channel ch, unsigned long long blk, int count, void *data)
{
	int i;
	(void) ch; (void) blk; (void) count;
	for (i = 0; i < 16; i++)
		((unsigned char *) data)[i] = IN.jsb[i];
	return (IN.ioread_rc & 1) ? EXT2_ET_SHORT_READ : 0;
}
static errcode_t stub_read_blk(io_channel ch, unsigned long blk, int count, void *data) { return stub_read_blk64(ch, blk, count, data); }
static errcode_t stub_write_blk64(io_channel ch, unsigned long long blk, int count, const void *data)
{ (void) ch; (void) blk; (void) count; (void) data; vf_niowrite++; return 0; }
static errcode_t stub_write_blk(io_channel ch, unsigned long blk, int count, const void *data)
{ (void) ch; (void) blk; (void) count; (void) data; vf_niowrite++; return 0; }
static errcode_t stub_write_byte(io_channel ch, unsigned long off, int count, const void *data)
{ (void) ch; (void) off; (void) count; (void) data; vf_niowrite++; return 0; }
static errcode_t stub_discard(io_channel ch, unsigned long long blk, unsigned long long count)
{ (void) ch; (void) blk; (void) count; vf_niowrite++; return 0; }
static errcode_t stub_flush(io_channel ch) { (void) ch; return 0; }

/* STUB: ext2fs_open(): records flags/superblock/block size of EVERY call; fails per the symbolic mask, else hands out a handle with symbolic feature words */
errcode_t ext2fs_open(const char *name, int flags, int superblock, unsigned int block_size, io_manager manager, ext2_filsys *ret_fs)
{
	int n = vf_nopen++;
	(void) name;
	if (flags & (EXT2_FLAG_RW | EXT2_FLAG_EXCLUSIVE))
		vf_open_rw++;
	if ((flags & ~EXT2_FLAG_IGNORE_CSUM_ERRORS) != X_FLAGS)
		vf_open_badflags++;
	if (((flags & EXT2_FLAG_IGNORE_CSUM_ERRORS) != 0) != (n >= X_ROUND1))
		vf_open_badcsumbit++;
	if (superblock != X_SB || manager != unix_io_manager)
		vf_open_badgeom++;
	if (n < X_ROUND1 && block_size != (unsigned) (X_BS ? X_BS : (X_SB ? (EXT2_MIN_BLOCK_SIZE << n) : 0)))
		vf_open_badgeom++;
	if (n >= X_ROUND1 && X_BS && block_size != X_BS)
		vf_open_badgeom++;
	if (n < 16 && ((IN.open_fail >> n) & 1)) {
		*ret_fs = 0;
		return (IN.errkind & 1) ? EXT2_ET_BAD_MAGIC : EXT2_ET_SB_CSUM_INVALID;
	}
	vf_opened++;
	vf_sb.s_magic = EXT2_SUPER_MAGIC;
	vf_sb.s_feature_compat = IN.feature_compat;
	vf_sb.s_feature_incompat = IN.feature_incompat;
	vf_sb.s_feature_ro_compat = IN.feature_ro_compat;
	vf_sb.s_journal_inum = IN.journal_inum;
	vf_sb.s_mmp_block = IN.mmp_block;
	vf_sb.s_first_data_block = 1;
	vf_io.magic = EXT2_ET_MAGIC_IO_CHANNEL;
	vf_io.manager = &vf_mgr;
	vf_io.block_size = 1024;
	vf_fs.magic = EXT2_ET_MAGIC_EXT2FS_FILSYS;
	vf_fs.super = &vf_sb;
	vf_fs.io = &vf_io;
	vf_fs.flags = flags;
	vf_fs.blocksize = 1024;
	vf_fs.group_desc_count = 1;
	vf_fs.device_name = a_dev;
	*ret_fs = &vf_fs;
	return 0;
}
/* STUB: ext2fs_close_free(): records the handle's flags at close (closefs.c flushes iff RW and dirty: harnesses close_ro / close_dirty) */
errcode_t ext2fs_close_free(ext2_filsys *fs)
{
	vf_nclose++;
	if (*fs)
		vf_close_flags = (*fs)->flags;
	*fs = 0;
	return 0;
}
/* STUB: writers of libext2fs: counted */
errcode_t ext2fs_flush(ext2_filsys fs) { (void) fs; vf_nwriters++; return 0; }
errcode_t ext2fs_flush2(ext2_filsys fs, int flags) { (void) fs; (void) flags; vf_nwriters++; return 0; }
errcode_t ext2fs_close(ext2_filsys fs) { vf_nclose++; vf_close_flags = fs->flags; return 0; }
errcode_t ext2fs_close2(ext2_filsys fs, int flags) { (void) flags; vf_nclose++; vf_close_flags = fs->flags; return 0; }
errcode_t ext2fs_write_inode(ext2_filsys fs, ext2_ino_t ino, struct ext2_inode *inode) { (void) fs; (void) ino; (void) inode; vf_nwriters++; return 0; }
errcode_t ext2fs_write_bitmaps(ext2_filsys fs) { (void) fs; vf_nwriters++; return 0; }
errcode_t ext2fs_mmp_update(ext2_filsys fs) { (void) fs; vf_nwriters++; return 0; }
errcode_t ext2fs_mmp_stop(ext2_filsys fs) { (void) fs; vf_nwriters++; return 0; }
errcode_t ext2fs_mmp_write(ext2_filsys fs, blk64_t mmp_blk, void *buf) { (void) fs; (void) mmp_blk; (void) buf; vf_nwriters++; return 0; }
errcode_t ext2fs_mmp_clear(ext2_filsys fs) { (void) fs; vf_nwriters++; return 0; }
errcode_t ext2fs_file_write(ext2_file_t file, const void *buf, unsigned int nbytes, unsigned int *written)
{ (void) file; (void) buf; (void) nbytes; (void) written; vf_nwriters++; return 0; }

/* STUB: readers: symbolic status, the handle must still be read-only and clean when they are entered */
errcode_t ext2fs_read_bb_inode(ext2_filsys fs, ext2_badblocks_list *bb_list)
{ vf_seen(fs); *bb_list = 0; return (IN.bb_rc & 1) ? EXT2_ET_BAD_INODE_NUM : 0; }
errcode_t ext2fs_badblocks_list_iterate_begin(ext2_badblocks_list bb, ext2_badblocks_iterate *ret)
{ (void) bb; *ret = 0; return (IN.bbiter_rc & 1) ? EXT2_ET_NO_MEMORY : 0; }
int ext2fs_badblocks_list_iterate(ext2_badblocks_iterate iter, blk_t *blk) { (void) iter; *blk = 0; return 0; }
void ext2fs_badblocks_list_iterate_end(ext2_badblocks_iterate iter) { (void) iter; }
void ext2fs_badblocks_list_free(ext2_badblocks_list bb) { (void) bb; }
errcode_t ext2fs_read_inode(ext2_filsys fs, ext2_ino_t ino, struct ext2_inode *inode)
{ vf_seen(fs); (void) ino; (void) inode; return (IN.rdinode_rc & 1) ? EXT2_ET_BAD_INODE_NUM : 0; }
errcode_t ext2fs_file_open2(ext2_filsys fs, ext2_ino_t ino, struct ext2_inode *inode, int flags, ext2_file_t *ret)
{
	vf_seen(fs); (void) ino; (void) inode;
	if (flags & (EXT2_FILE_WRITE | EXT2_FILE_CREATE))
		vf_file_write++;
	*ret = 0;
	return (IN.fopen_rc & 1) ? EXT2_ET_NO_MEMORY : 0;
}
errcode_t ext2fs_file_read(ext2_file_t file, void *buf, unsigned int wanted, unsigned int *got)
{
	int i;
	(void) file; (void) wanted; (void) got;
	for (i = 0; i < 16; i++)
		((unsigned char *) buf)[i] = IN.jsb[i];
	return (IN.fread_rc & 1) ? EXT2_ET_SHORT_READ : 0;
}
errcode_t ext2fs_file_close(ext2_file_t file) { (void) file; return 0; }
/* STUB: ext2fs_mmp_start()/ext2fs_mmp_read(): symbolic status (the real ones on a handle without RW: harness ro_mmp) */
errcode_t ext2fs_mmp_start(ext2_filsys fs)
{
	vf_seen(fs);
	return (IN.mmp_start_rc & 3) == 1 ? EXT2_ET_MMP_FAILED : (IN.mmp_start_rc & 3) == 2 ? EXT2_ET_MMP_BAD_BLOCK : 0;
}
errcode_t ext2fs_mmp_read(ext2_filsys fs, blk64_t mmp_blk, void *buf)
{
	vf_seen(fs); (void) mmp_blk; (void) buf;
	return (IN.mmp_read_rc & 3) == 1 ? EXT2_ET_OP_NOT_SUPPORTED : (IN.mmp_read_rc & 3) == 2 ? EXT2_ET_MMP_MAGIC_INVALID : 0;
}
static int vf_nbitmaps;
errcode_t ext2fs_read_bitmaps(ext2_filsys fs)
{
	vf_seen(fs);
	return ((vf_nbitmaps++ ? IN.bitmaps_rc2 : IN.bitmaps_rc1) & 1) ? EXT2_ET_BLOCK_BITMAP_CSUM_INVALID : 0;
}
/* STUB: list_desc() (cut): printing of the group descriptors from the in-core handle; entered with a read-only, clean handle */
static void list_desc(ext2_filsys fs, int grp_only) { (void) grp_only; vf_seen(fs); vf_ndesc++; }
/* STUB: printing helpers of libe2p, blkid name resolution, plausibility probe (opens its own read-only blkid probe): no-ops */
void list_super(struct ext2_super_block *sb) { (void) sb; }
void e2p_list_journal_super(FILE *f, char *journal_sb_buf, int exp_block_size, int flags)
{ (void) f; (void) journal_sb_buf; (void) exp_block_size; (void) flags; }
char *get_devname(blkid_cache cache, const char *token, const char *value) { (void) cache; (void) value; return (char *) token; }
int check_plausibility(const char *device, int flags, int *ret_is_dev) { (void) device; (void) flags; (void) ret_is_dev; return 0; }
errcode_t add_error_table(const struct error_table *et) { (void) et; return 0; }
errcode_t remove_error_table(const struct error_table *et) { (void) et; return 0; }
const char *error_message(long code) { (void) code; return ""; }

int main(void)
{
	VF_INPUT(IN);
	vf_mgr.magic = EXT2_ET_MAGIC_IO_MANAGER;
	vf_mgr.read_blk = stub_read_blk;
	vf_mgr.read_blk64 = stub_read_blk64;
	vf_mgr.write_blk = stub_write_blk;
	vf_mgr.write_blk64 = stub_write_blk64;
	vf_mgr.write_byte = stub_write_byte;
	vf_mgr.discard = stub_discard;
	vf_mgr.flush = stub_flush;
	vf_real_main(VF_ARGC, vf_argv);
	vf_finish();
	return 0;
}
