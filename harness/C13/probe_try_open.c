/*
 * C20 probe_try_open: e2fsck/unix.c:try_open_fs() called directly, for `-b <superblock>`
 * given WITHOUT -B (ctx->superblock set, ctx->blocksize 0): the throw-away probe
 * opens walk EVERY block size EXT2_MIN_BLOCK_SIZE .. EXT2_MAX_BLOCK_SIZE (1024,
 * 2048, ..., 65536), each once, ascending, on the plain unix manager, until one
 * succeeds; a hit at B = 1024 << PROBE_K (one query per K = 0..6) is followed by
 * exactly one real open of the same superblock with block size B on the caller's
 * manager, whose handle/result try_open_fs returns; with no hit (PROBE_K = 7) all
 * seven sizes are tried, no real open is made and the error is returned.
 * With -B given (WITH_B) there is no probing: one real open with that size.
 */
#include "config.h"
#include <stdio.h>
#include <stdlib.h>
#include <string.h>
#include <fcntl.h>
#include <ctype.h>
#include <time.h>
#include <signal.h>
#include <getopt.h>
#include <unistd.h>
#include <errno.h>
#include <sys/ioctl.h>
#include <malloc.h>
#include <sys/types.h>
#include <dirent.h>
#include <libgen.h>
#include <locale.h>
#include <libintl.h>
#include "e2p/e2p.h"
#include "et/com_err.h"
#include "uuid/uuid.h"
#include "support/plausible.h"
#include "support/devname.h"
#include "e2fsck.h"
#define main vf_real_main
#include "e2fsck/unix.c"
#undef main

#ifndef PROBE_K
#define PROBE_K 6
#endif

struct vf_in {
	unsigned long long superblock;
	int flags;
	unsigned char real_fails;
};
VF_DECLARE_INPUT(struct vf_in, IN)
#include "vf_input.inc"

static struct e2fsck_struct vf_ctx;
static struct struct_ext2_filsys vf_probe_fs, vf_real_fs;
static struct struct_io_manager vf_unix_mgr, vf_caller_mgr;
io_manager unix_io_manager = &vf_unix_mgr;
static char vf_name[2] = "d";
static int vf_nprobes, vf_nreal, vf_nfree, vf_after_hit, vf_nsetbm;
static unsigned int vf_expect = EXT2_MIN_BLOCK_SIZE;

/* STUB: ext2fs_open2(): a probe (unix manager, before any hit) succeeds exactly at 1024 << PROBE_K; the real open succeeds or fails symbolically */
errcode_t ext2fs_open2(const char *name, const char *io_options, int flags, int superblock,
		       unsigned int block_size, io_manager manager, ext2_filsys *ret_fs)
{
	(void) name; (void) io_options;
#ifndef WITH_B
	if (!vf_after_hit) {
		PROP(manager == unix_io_manager, "block-size probe uses the plain unix manager");
		PROP(block_size == vf_expect, "block-size probes try 1024, 2048, ..., 65536 in order, none skipped");
		PROP(superblock == (int) vf_ctx.superblock && flags == IN.flags, "the probe reads the named superblock with the run's flags");
		vf_nprobes++;
		PROP(vf_nprobes <= 7, "at most seven probes");
		vf_expect = block_size * 2;
		if (PROBE_K < 7 && block_size == (1024u << PROBE_K)) {
			vf_after_hit = 1;
			*ret_fs = &vf_probe_fs;
			return 0;
		}
		*ret_fs = 0;
		return EXT2_ET_BAD_MAGIC;
	}
	PROP(block_size == (1024u << PROBE_K), "a probe that succeeded at block size B is followed by the real open with B");
#else
	PROP(block_size == 4096, "-B given: the real open uses it, no probing");
#endif
	vf_nreal++;
	PROP(manager == &vf_caller_mgr && superblock == (int) vf_ctx.superblock && flags == IN.flags,
	     "the real open uses the caller's manager, the named superblock and the run's flags");
	if (IN.real_fails & 1) { *ret_fs = 0; return EXT2_ET_SHORT_READ; }
	*ret_fs = &vf_real_fs;
	return 0;
}
void ext2fs_free(ext2_filsys fs) { PROP(fs == &vf_probe_fs, "only the probe handle is thrown away"); vf_nfree++; }
void e2fsck_set_bitmap_type(ext2_filsys fs, unsigned int t, const char *n, unsigned int *o) { (void) fs; (void) t; (void) n; (void) o; vf_nsetbm++; }

int main(void)
{
	ext2_filsys fs = 0;
	errcode_t rc;

	VF_INPUT(IN);
	/* ASSUME: -b was given (ctx->superblock != 0; values up to 2^31-1: ext2fs_open2 takes an int) */
	ASSUME(IN.superblock >= 1 && IN.superblock <= 0x7fffffffULL);
	vf_ctx.superblock = IN.superblock;
	vf_ctx.filesystem_name = vf_name;
#ifdef WITH_B
	vf_ctx.blocksize = 4096;
#else
	vf_ctx.blocksize = 0;
#endif
	rc = try_open_fs(&vf_ctx, IN.flags, &vf_caller_mgr, &fs);
#ifdef WITH_B
	PROP(vf_nprobes == 0 && vf_nreal == 1, "-B given: exactly one real open");
#else
	if (PROBE_K < 7) {
		PROP(vf_nprobes == PROBE_K + 1 && vf_nreal == 1 && vf_nfree == 1, "hit at B: exactly K+1 probes, one real open, the probe handle freed once");
	} else {
		PROP(vf_nprobes == 7 && vf_expect == 2 * EXT2_MAX_BLOCK_SIZE, "no hit: all seven block sizes up to 65536 were tried");
		PROP(vf_nreal == 0 && rc == EXT2_ET_BAD_MAGIC && fs == 0, "no hit: no real open, the probe error is returned");
	}
#endif
	if (vf_nreal) {
		PROP((rc == 0) == !(IN.real_fails & 1), "try_open_fs returns the real open's result");
		PROP(rc ? fs == 0 : (fs == &vf_real_fs && fs->priv_data == &vf_ctx && vf_nsetbm == 1), "on success the real handle is returned, tied to the context");
	}
	VF_END();
	return 0;
}
