/*
 * env.c -- deterministic bodies for the libc / com_err entry points the encoded
 * units reach.  #included by harnesses (not a separate unit) so that each
 * harness only carries what it names.  Every function here is part of the
 * claim (STUB lines are harvested into the evidence file).
 *
 * Lesson from the probes: a body-less callee returns nondet, the error path
 * merges with the normal path and constant propagation is lost.  So everything
 * succeeds deterministically unless a harness makes failure its subject.
 */
#include <stdarg.h>
#include <sys/time.h>

#ifndef VF_REPLAY
/* STUB: com_err()/perror() print diagnostics only: empty bodies */
void com_err(const char *whoami, long code, const char *fmt, ...)
{
	(void) whoami; (void) code; (void) fmt;
}
void perror(const char *s) { (void) s; }
/* STUB: gettimeofday() succeeds with a fixed time (only used for bitmap statistics) */
int gettimeofday(struct timeval *tv, void *tz)
{
	if (tv) { tv->tv_sec = 1000; tv->tv_usec = 0; }
	(void) tz;
	return 0;
}
#else
/* native replay: libc provides perror/gettimeofday; com_err comes from here */
void com_err(const char *whoami, long code, const char *fmt, ...)
{
	(void) whoami; (void) code; (void) fmt;
}
#endif
