/* C03/jcfg.h -- compile-time geometry / feature configuration of the journal harnesses */
#ifndef VF_JCFG_H
#define VF_JCFG_H
#ifndef B
#define B 64
#endif
#ifndef NJ
#define NJ 6
#endif
#ifndef NFS
#define NFS 4
#endif
#ifndef FEAT_64BIT
#define FEAT_64BIT 0
#endif
#ifndef FEAT_CSUM		/* 0 none, 1 = COMPAT_CHECKSUM (v1), 2 = CSUM_V2, 3 = CSUM_V3 */
#define FEAT_CSUM 0
#endif
#ifndef FEAT_ASYNC
#define FEAT_ASYNC 0
#endif
#ifndef HASHSZ
#define HASHSZ 2
#endif

#endif
