/*
 * C03/recover: the real three-pass jbd2_journal_recover() (recovery.c: SCAN, REVOKE,
 * REPLAY, sequence restart, clear_revoke, sync) on an ARBITRARY journal image and
 * filesystem (rung 1 of the C03 ladder: small log), in the e2fsck flavour and in
 * the debugfs/libext2fs flavour (-DDEBUGFS).  The revoke table behind
 * set/test/clear_revoke is its specification stub (revoke_model.h; the real table
 * is proven against the same specification in revoke_table.c), because the real
 * pointer-linked table inside the three-pass query exhausts memory.
 * Differential against the byte-level reference: every filesystem byte equals
 * the reference's replay, nothing else is written, the next transaction id is
 * past the end of the log, the revoke table is empty afterwards.
 *
 * With -DVF_DURABLE (harness "order", the C04 core): the filesystem device is
 * split into a volatile store (what a write reaches) and a durable store (what
 * a flush copies), and when jbd2_journal_recover() returns every replayed block
 * is durable: the flush came after the last replay write, so the caller's
 * journal-superblock reset (s_start = 0) cannot reach the disk before the data.
 */
#include "jcfg.h"
struct vf_in {
	unsigned char j[NJ * B];
	unsigned char fs[NFS * B];
	unsigned int s_start, s_sequence, s_first;
#if FEAT_CSUM
	unsigned int csum[NJ];		/* "the checksum of journal block k" */
#endif
};
VF_DECLARE_INPUT(struct vf_in, IN)
#include "vf_input.inc"
#define VF_CSUM_WORD(k) IN.csum[k]
#define REF_CSUM(k) IN.csum[k]
#define REF_SEQ0 IN.s_sequence
#include "jgeom.h"
#ifndef VF_REAL_REVOKE
#define VF_NO_REVOKE	/* the revoke table is the specification stub of revoke_model.h (the real one: revoke_table.c) */
#endif
#include "jenv.h"
#include "jbd2_ref.h"
#ifdef VF_NO_REVOKE
#define REF_MAXR_CFG REF_MAXR
#include "revoke_model.h"
#endif

int main(void)
{
	int rc, i;

	VF_INPUT(IN);
	VF_ASSUME_GEOMETRY();
	for (i = 0; i < NFS * B; i++) {
		vf_fsdev[i] = IN.fs[i];
		ref_fs[i] = IN.fs[i];
#ifdef VF_DURABLE
		vf_durable[i] = IN.fs[i];
#endif
	}
#if FEAT_CSUM
	/* ASSUME: transaction ids in the log are not 0 (see scan.c) */
	ASSUME(IN.s_sequence >= 1 && IN.s_sequence < 0xffffff00u);
#endif
	vf_make_journal(VF_FIRST, IN.s_sequence, VF_START);

	ref_walk(IN.s_sequence);
	if (!ref_scan_error)
		ref_collect_revokes();
	/* ASSUME: the log walk ends within REF_MAXWALK header blocks */
	ASSUME(ref_terminated);
	/* BOUND: at most REF_MAXRB revoke blocks in committed transactions, each with at most REF_MAXREV records */
	ASSUME(ref_bound_ok);
	if (!ref_bad_revoke && !ref_scan_error)
		ref_replay();

#ifndef VF_NO_REVOKE
	rc = jbd2_journal_init_revoke_record_cache();
	PROP(rc == 0, "record cache");
	rc = jbd2_journal_init_revoke_table_cache();
	PROP(rc == 0, "table cache");
	rc = jbd2_journal_init_revoke(&vf_journal, HASHSZ);
	PROP(rc == 0, "init revoke");
#endif

	rc = jbd2_journal_recover(&vf_journal);

	if (ref_scan_error)
		PROP(rc != 0, "a checksum-invalid descriptor/revoke block followed by a newer commit block makes recovery fail");
	else if (ref_bad_revoke)
		PROP(rc != 0, "a corrupt revoke block makes recovery fail");
	else if (ref_data_csum_failed)
		PROP(rc != 0, "a logged block failing its checksum makes recovery report failure");
	else
		PROP(rc == 0, "recovery succeeds");
	PROP(vf_journal.j_failed_commit == (ref_failed_commit && !ref_scan_error ? IN.s_sequence + ref_failed_ord : 0),
	     "failed commit reported iff a transaction that looks committed failed its checksum");
	for (i = 0; i < NFS * B; i++)
		PROP(vf_fsdev[i] == ref_fs[i], "filesystem after recovery == reference (transactions before the first missing or checksum-invalid commit, unrevoked, last image wins; everything else untouched)");
	if (!ref_scan_error)
	PROP(vf_journal.j_transaction_sequence == IN.s_sequence + ref_end_ord + 1,
	     "the log restarts past the first uncommitted transaction id (stale blocks of that id can never be committed later)");
	PROP(vf_j_writes == 0, "the journal is not written by recovery");
	PROP(vf_j_oob_reads == 0 && vf_jheld == 0, "reads stay inside the journal, buffers are released");
	PROP(vf_syncs >= 1 && vf_writes_after_sync == 0, "the filesystem device is flushed after the last replay write");
#ifdef VF_DURABLE
	for (i = 0; i < NFS * B; i++)
		PROP(vf_durable[i] == ref_fs[i], "when recovery returns every replayed block is on stable storage");
	PROP(vf_unsynced == 0, "no replay write is left unflushed when recovery returns");
#endif
#ifndef VF_NO_REVOKE
	/* the table must be empty again (jbd2_journal_clear_revoke ran): destroy asserts list_empty on every bucket */
	jbd2_journal_destroy_revoke(&vf_journal);
	jbd2_journal_destroy_revoke_record_cache();
	jbd2_journal_destroy_revoke_table_cache();
#else
	PROP(stub_rm_cleared == 1 && stub_rm_n == 0 && !stub_rm_overflow, "the revoke table is cleared once recovery is over");
#endif
	VF_END();
	return 0;
}
