/*
 * C03/hash_range: the real hash_64()/hash() of jfs_user.h / revoke.c returns a
 * bucket index below the table size for every block number and every table size
 * jbd2_journal_init_revoke() accepts (power of two, 2..2^20) -- the only fact
 * about the hash function that revoke_table.c (arbitrary hash function) relies on.
 */
#include "jcfg.h"
struct vf_in { unsigned long long blk; unsigned int shift; };
VF_DECLARE_INPUT(struct vf_in, IN)
#include "vf_input.inc"
static unsigned char vf_nojournal[NJ * B];
#define VF_JDEV vf_nojournal
#define VF_REAL_HASH
#define VF_OWN_HASH
#include "jenv.h"
static __u32 stub_hash_64(__u64 val, unsigned int bits) { (void) val; (void) bits; return 0; }

int main(void)
{
	static struct jbd2_revoke_table_s t;
	int h;

	VF_INPUT(IN);
	/* BOUND: table sizes 2^1 .. 2^20 (e2fsck and debugfs use 1024; size 1 would shift a 64-bit value by 64) */
	ASSUME(IN.shift >= 1 && IN.shift <= 20);
	t.hash_size = 1 << IN.shift;
	t.hash_shift = (int) IN.shift;
	vf_journal.j_revoke = &t;
	h = hash(&vf_journal, IN.blk);
	PROP(h >= 0 && h < t.hash_size, "bucket index inside the hash table");
	VF_END();
	return 0;
}
